(* Facts about the 64-bit arithmetic of the model: u64, i64, addHasOverflowed, Mul64/Div64. *)
From Coq Require Import ZArith Lia Bool.
From Mamba Require Import Comb.Model.
Open Scope Z_scope.
Ltac Zify.zify_post_hook ::= Z.div_mod_to_equations.

Lemma two64_pow : two64 = 2 ^ 64. Proof. reflexivity. Qed.
Lemma two63_pow : two63 = 2 ^ 63. Proof. reflexivity. Qed.

Lemma u64_mod x : u64 x = x mod two64.
Proof.
  unfold u64. change mask64 with (Z.ones 64). rewrite Z.land_ones by lia. reflexivity.
Qed.

Lemma i64_mod x : i64 x = (x + two63) mod two64 - two63.
Proof.
  unfold i64. change mask64 with (Z.ones 64). rewrite Z.land_ones by lia. reflexivity.
Qed.

Lemma u64_id x : 0 <= x < two64 -> u64 x = x.
Proof. intros H. rewrite u64_mod. apply Z.mod_small. exact H. Qed.

Lemma u64_range x : 0 <= u64 x < two64.
Proof. rewrite u64_mod. apply Z.mod_pos_bound. reflexivity. Qed.

Lemma i64_id x : - two63 <= x < two63 -> i64 x = x.
Proof.
  intros H. rewrite i64_mod. rewrite Z.mod_small; unfold two64, two63 in *; lia.
Qed.

Lemma i64_range x : - two63 <= i64 x < two63.
Proof.
  rewrite i64_mod. pose proof (Z.mod_pos_bound (x + two63) two64 eq_refl).
  unfold two64, two63 in *. lia.
Qed.

(* l++ followed by l-1, even when l++ wraps (l = MaxInt) *)
Lemma i64_succ_pred l : - two63 <= l < two63 -> i64 (i64 (l + 1) - 1) = l.
Proof.
  intros H. rewrite !i64_mod. unfold two64, two63 in *. lia.
Qed.

(* addHasOverflowed on two ints: the flag is set exactly when the exact sum is not an int,
   and without the flag the returned sum is exact *)
Lemma add_ovf_spec a b : - two63 <= a < two63 -> - two63 <= b < two63 ->
  add_ovf a b = (i64 (a + b), negb ((- two63 <=? a + b) && (a + b <? two63))).
Proof.
  intros Ha Hb. unfold add_ovf. f_equal.
  set (s := i64 (a + b)).
  assert (Hs : s = i64 (a + b)) by reflexivity.
  rewrite i64_mod in Hs. clearbody s.
  pose proof (Z.land_neg (Z.lxor s a) (Z.lxor s b)) as Hl.
  pose proof (Z.lxor_nonneg s a) as Hx1.
  pose proof (Z.lxor_nonneg s b) as Hx2.
  destruct (Z.ltb_spec (Z.land (Z.lxor s a) (Z.lxor s b)) 0) as [Hn|Hn];
  destruct (Z.leb_spec (- two63) (a + b)); destruct (Z.ltb_spec (a + b) two63);
  cbn [andb negb]; try reflexivity; exfalso; unfold two64, two63 in *; lia.
Qed.

Lemma add_ovf_ok a b : - two63 <= a < two63 -> - two63 <= b < two63 -> - two63 <= a + b < two63 ->
  add_ovf a b = (a + b, false).
Proof.
  intros Ha Hb Hab. rewrite add_ovf_spec by assumption. rewrite i64_id by assumption.
  f_equal. destruct (Z.leb_spec (- two63) (a + b)); destruct (Z.ltb_spec (a + b) two63); try reflexivity; lia.
Qed.

Lemma add_ovf_bad a b : - two63 <= a < two63 -> - two63 <= b < two63 -> ~ (- two63 <= a + b < two63) ->
  snd (add_ovf a b) = true.
Proof.
  intros Ha Hb Hab. rewrite add_ovf_spec by assumption. cbn [snd].
  destruct (Z.leb_spec (- two63) (a + b)); destruct (Z.ltb_spec (a + b) two63); try reflexivity; lia.
Qed.

(* bits.Mul64 then bits.Div64: hi:lo is the exact product *)
Lemma hi_lo p : 0 <= p -> Z.shiftl (Z.shiftr p 64) 64 + u64 p = p.
Proof.
  intros Hp. rewrite Z.shiftr_div_pow2, Z.shiftl_mul_pow2 by lia. rewrite u64_mod.
  change (2 ^ 64) with two64. pose proof (Z.div_mod p two64). unfold two64 in *. lia.
Qed.

Lemma hi_div p : Z.shiftr p 64 = p / two64.
Proof. rewrite Z.shiftr_div_pow2 by lia. reflexivity. Qed.
