(* Model of /repo/comb/comb.go (definitions only; proofs are in the other files of Comb/).

   Go's uint64 and int (64 bits) are modelled on Z with the wrap-around written out:
   [u64 x] is the value of x as a uint64 (mod 2^64), [i64 x] its value as an int.  Every
   arithmetic operation of the Go code that could leave the range is followed by the wrap the
   machine performs, so "the result is not a wrapped value" is a theorem about the model and
   not an assumption.  A Go panic (explicit panic, index out of range, bits.Div64 overflow,
   makeslice) is [Panic]; exhausted fuel of the one unbounded loop (Unrank's walk) is the
   distinct result [OutOfFuel], excluded by theorem for every rank an int can hold.

   The tables maxSizes and smallEntries, the constants largestK and maxInt and the bound of the
   table branch come from Gen/CombTables.v, which ./check regenerates from comb.go on every run. *)
From Coq Require Import List ZArith Bool.
From Mamba Require Import Gen.CombTables.
Import ListNotations.
Open Scope Z_scope.

Inductive Res (A : Type) : Type :=
| Ret (a : A)
| Panic
| OutOfFuel.
Arguments Ret {A} a.
Arguments Panic {A}.
Arguments OutOfFuel {A}.

Definition bind {A B} (r : Res A) (f : A -> Res B) : Res B :=
  match r with
  | Ret a => f a
  | Panic => Panic
  | OutOfFuel => OutOfFuel
  end.

(* 2^64 and 2^63, written as numerals so that the extracted code holds them as constants *)
Definition two64 : Z := 18446744073709551616.
Definition two63 : Z := 9223372036854775808.

Definition mask64 : Z := 18446744073709551615.     (* 2^64 - 1 *)

(* value of x as a uint64 / as an int: x mod 2^64, resp. the representative in [-2^63, 2^63).
   Written with a bit mask (x & (2^64-1) = x mod 2^64 for every x in Z, lemma u64_mod in
   Arith64.v) because the extracted code runs these on every step of Unrank's walk. *)
Definition u64 (x : Z) : Z := Z.land x mask64.
Definition i64 (x : Z) : Z := Z.land (x + two63) mask64 - two63.

(* s[i] with Go's bounds check *)
Definition idx {A} (l : list A) (i : Z) : Res A :=
  if i <? 0 then Panic
  else match nth_error l (Z.to_nat i) with
       | Some v => Ret v
       | None => Panic
       end.

(* ---------------------------------------------------------------- CoeffUint64, Coeff *)

(* for i = 1; i <= k; i++ { comb *= (n - k + i); comb /= i }   -- [cnt] iterations remain.
   All variables are uint64: the product wraps mod 2^64.  (i <= k <= n/2 < 2^63, so i++ does
   not wrap and the loop runs exactly k times.) *)
Fixpoint coeff_loop (cnt : nat) (n k i comb : Z) : Z :=
  match cnt with
  | O => comb
  | S c => coeff_loop c n k (i + 1) (u64 (comb * u64 (n - k + i)) / i)
  end.

Definition coeff_u64 (n k : Z) : Res Z :=
  if k >? n then Ret 0 else
  let k := if k >? n / 2 then u64 (n - k) else k in
  if k =? 0 then Ret 1 else
  if n <=? smallLimit then bind (idx smallEntries n) (fun row => idx row k)
  else if k >? largestK then Panic
  else bind (idx maxSizes k) (fun t =>
       if n >? t then Panic else Ret (coeff_loop (Z.to_nat k) n k 1 1)).

Definition coeff (n k : Z) : Res Z :=
  if n <? 0 then Panic else
  if k <? 0 then Ret 0 else
  bind (coeff_u64 (u64 n) (u64 k)) (fun c => if c >? maxInt then Panic else Ret (i64 c)).

(* ---------------------------------------------------------------- addHasOverflowed *)

(* sum = a + b (wrapping); overflow iff (sum^a)&(sum^b) < 0 *)
Definition add_ovf (a b : Z) : Z * bool :=
  let s := i64 (a + b) in (s, Z.land (Z.lxor s a) (Z.lxor s b) <? 0).

(* ---------------------------------------------------------------- Coeffs *)

(* the inner loop over j of Coeffs, row i from row i-1 ([prev]); [acc] is tmp[0..j) reversed *)
Fixpoint row_fill (cnt : nat) (i j : Z) (prev acc : list Z) : Res (list Z) :=
  match cnt with
  | O => Ret (rev acc)
  | S c =>
    bind (idx prev (j - 1)) (fun a =>
    bind (if 2 * j =? i then idx prev (j - 1) else idx prev j) (fun b =>
    let (s, o) := add_ovf a b in
    if o then Panic else row_fill c i (j + 1) prev (s :: acc)))
  end.

Definition next_row (i : Z) (prev : list Z) : Res (list Z) :=
  row_fill (Z.to_nat (i / 2)) i 1 prev [1].

Fixpoint coeffs_go (cnt : nat) (i : Z) (prev : list Z) (acc : list (list Z)) : Res (list (list Z)) :=
  match cnt with
  | O => Ret (rev acc)
  | S c => bind (next_row i prev) (fun row => coeffs_go c (i + 1) row (row :: acc))
  end.

(* make([][]int, n+1) panics for a negative length *)
Definition coeffs (n : Z) : Res (list (list Z)) :=
  if i64 (n + 1) <? 0 then Panic else coeffs_go (Z.to_nat (i64 (n + 1))) 0 [] [].

(* ---------------------------------------------------------------- Rank *)

Fixpoint rank_go (i : Z) (comb : list Z) (rank : Z) : Res Z :=
  match comb with
  | [] => Ret rank
  | v :: t =>
    bind (coeff v (i + 1)) (fun c =>
    let (s, o) := add_ovf rank c in
    if o then Panic else rank_go (i + 1) t s)
  end.

Definition rank (comb : list Z) : Res Z := rank_go 0 comb 0.

(* ---------------------------------------------------------------- Unrank *)

(* A loop with fuel given in binary: [loop_pos step p s] performs at most [Pos.to_nat p] steps;
   [inl s'] = the fuel ran out in state s', [inr r] = the loop ended with r. *)
Section Loop.
  Context {St R : Type} (step : St -> St + R).
  Fixpoint loop_pos (p : positive) (s : St) : St + R :=
    match p with
    | xH => step s
    | xO q => match loop_pos q s with
              | inl s' => loop_pos q s'
              | inr r => inr r
              end
    | xI q => match step s with
              | inl s1 => match loop_pos q s1 with
                          | inl s2 => loop_pos q s2
                          | inr r => inr r
                          end
              | inr r => inr r
              end
    end.
End Loop.

(* bits.Div64 panics on d = 0 and on quotient overflow (d <= hi) *)
Definition div64 (hi lo d : Z) : Res Z :=
  if (d =? 0) || (d <=? hi) then Panic else Ret ((Z.shiftl hi 64 + lo) / d).

(* One test of `for b <= m` and one run of the body; state (l, b, prev).  The result of the
   loop is (l, prev) as they stand when the loop is left. *)
Definition unrank_step (i m : Z) (st : Z * Z * Z) : (Z * Z * Z) + Res (Z * Z) :=
  let '(l, b, prev) := st in
  if b <=? m then
    let prev := b in
    let p := u64 b * u64 (i64 (l + 1)) in      (* bits.Mul64: the exact 128-bit product *)
    let hi := Z.shiftr p 64 in
    let lo := u64 p in
    let d := u64 (i64 (l - i)) in
    let l := i64 (l + 1) in
    if hi >=? d then inr (Ret (l, prev))
    else match div64 hi lo d with
         | Ret q => if q >? maxInt then inr (Ret (l, prev)) else inl (l, i64 q, prev)
         | Panic => inr Panic
         | OutOfFuel => inr OutOfFuel
         end
  else inr (Ret (l, prev)).

Definition unrank_inner (fuel : positive) (i m : Z) : Res (Z * Z) :=
  match loop_pos (unrank_step i m) fuel (i64 (i + 1), 1, 0) with
  | inl _ => OutOfFuel
  | inr r => r
  end.

(* for i := k-1; i >= 0; i-- : [cnt] = i+1; [acc] = comb[i+1..k) *)
Fixpoint unrank_go (fuel : positive) (cnt : nat) (m : Z) (acc : list Z) : Res (list Z) :=
  match cnt with
  | O => Ret acc
  | S c =>
    let i := Z.of_nat c in
    bind (unrank_inner fuel i m) (fun lp =>
    unrank_go fuel c (i64 (m - snd lp)) (i64 (fst lp - 1) :: acc))
  end.

(* the fuel handed to every walk: rank + 2 steps (theorem: enough for 0 <= rank <= maxInt) *)
Definition unrank_fuel (r : Z) : positive := Z.to_pos (r + 2).

(* make([]int, k) panics for k < 0 *)
Definition unrank (r k : Z) : Res (list Z) :=
  if k <? 0 then Panic else unrank_go (unrank_fuel r) (Z.to_nat k) r [].
