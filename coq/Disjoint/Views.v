(* C18: Sets, SmallestRep and Roots describe the partition represented by the array. *)
From Coq Require Import List ZArith Lia Arith Bool Permutation Sorted.
From Mamba Require Import Disjoint.Model Disjoint.Proofs.
Import ListNotations.
Open Scope nat_scope.

(* ---------- Find used as a comparison, threaded through the array ---------- *)
Lemma find2_spec d i j : WF d -> i < length d -> j < length d ->
  exists d1 d2 ri rj, find d i = Some (d1, ri) /\ find d1 j = Some (d2, rj) /\
    equiv d d2 /\ ((ri =? rj) = true <-> same d i j).
Proof.
  intros W Hi Hj.
  destruct (find_spec d i W Hi) as (d1 & ri & F1 & R1 & E1).
  pose proof (equiv_WF _ _ E1 W) as W1.
  destruct (find_spec d1 j W1) as (d2 & rj & F2 & R2 & E2); [destruct E1; lia|].
  exists d1, d2, ri, rj. split; [exact F1|]. split; [exact F2|].
  split; [eapply equiv_trans; eauto|]. split.
  - intros H. apply Nat.eqb_eq in H. subst. exists rj. split; auto. apply E1; auto.
  - intros [r [A B]]. apply Nat.eqb_eq.
    assert (R2' : reaches d j rj) by (apply E1; auto).
    rewrite (reaches_fun _ _ _ _ R1 A), (reaches_fun _ _ _ _ R2' B); auto.
Qed.

(* ---------- Sets ---------- *)
Definition heads_in (n : nat) (ss : list (list nat)) : Prop :=
  Forall (fun s => s <> [] /\ hd 0 s < n) ss.

Inductive placed (d : dset) (i : nat) (ss : list (list nat)) : list (list nat) -> Prop :=
| placed_in pre s post : ss = pre ++ s :: post -> same d i (hd 0 s) ->
    Forall (fun t => ~ same d i (hd 0 t)) pre -> placed d i ss (pre ++ (s ++ [i]) :: post)
| placed_new : Forall (fun t => ~ same d i (hd 0 t)) ss -> placed d i ss (ss ++ [[i]]).

Lemma place_spec : forall ss d i, WF d -> i < length d -> heads_in (length d) ss ->
  exists d' ss', place d i ss = Some (d', ss') /\ equiv d d' /\ placed d i ss ss'.
Proof.
  induction ss as [|s rest IH]; intros d i W Hi Hh; simpl.
  - exists d, [[i]]. split; auto. split; [apply equiv_refl|]. apply (placed_new d i []). constructor.
  - inversion Hh as [|? ? [Hne Hhd] Hr]; subst.
    destruct (find2_spec d i (hd 0 s) W Hi Hhd) as (d1 & d2 & ri & rs & F1 & F2 & E & Dec).
    rewrite F1, F2. destruct (ri =? rs) eqn:Eq.
    + exists d2, ((s ++ [i]) :: rest). split; auto. split; auto.
      apply (placed_in d i (s :: rest) [] s rest); auto. apply Dec; auto.
    + pose proof (equiv_WF _ _ E W) as W2.
      assert (L2 : length d2 = length d) by (destruct E; lia).
      destruct (IH d2 i W2) as (d3 & rest' & P & E3 & Pl); [lia | now rewrite L2 |].
      rewrite P. exists d3, (s :: rest'). split; auto. split; [eapply equiv_trans; eauto|].
      assert (Ns : ~ same d i (hd 0 s)) by (intro H; apply Dec in H; congruence).
      inversion Pl as [pre s0 post Hss Hsame Hpre | Hall]; subst.
      * apply (placed_in d i (s :: pre ++ s0 :: post) (s :: pre) s0 post); auto.
        -- apply (equiv_same _ _ _ _ E); auto.
        -- constructor; auto. eapply Forall_impl; [|exact Hpre].
           intros t Ht H; apply Ht. apply (equiv_same _ _ _ _ E); auto.
      * apply (placed_new d i (s :: rest)). constructor; auto.
        eapply Forall_impl; [|exact Hall]. intros t Ht H; apply Ht. apply (equiv_same _ _ _ _ E); auto.
Qed.

(* what Sets() promises, for the first k elements *)
Definition cls_ok (ds : dset) (k : nat) (ss : list (list nat)) : Prop :=
  Permutation (concat ss) (seq 0 k) /\
  Forall (fun s => s <> [] /\ StronglySorted lt s /\
                   forall a b, In a s -> In b s -> same ds a b) ss /\
  ForallOrdPairs (fun s t => ~ same ds (hd 0 s) (hd 0 t)) ss /\
  StronglySorted lt (map (hd 0) ss).

Lemma cls_members ds k ss s x : cls_ok ds k ss -> In s ss -> In x s -> x < k.
Proof.
  intros (P & _) Hs Hx.
  assert (In x (concat ss)) by (apply in_concat; eauto).
  apply (Permutation_in _ P) in H. apply in_seq in H. lia.
Qed.

Lemma hd_In (s : list nat) : s <> [] -> In (hd 0 s) s.
Proof. destruct s; simpl; auto; congruence. Qed.

Lemma hd_app (s t : list nat) : s <> [] -> hd 0 (s ++ t) = hd 0 s.
Proof. destruct s; simpl; auto; congruence. Qed.

Lemma SSorted_snoc (l : list nat) x : StronglySorted lt l -> (forall y, In y l -> y < x) ->
  StronglySorted lt (l ++ [x]).
Proof.
  induction 1 as [|a l Hs IH Hf]; intros Hx; simpl.
  - constructor; constructor.
  - constructor.
    + apply IH. intros y Hy; apply Hx; right; auto.
    + apply Forall_app; split; auto. constructor; auto. apply Hx; left; auto.
Qed.

Lemma FOP_snoc {A} (R : A -> A -> Prop) l x : ForallOrdPairs R l -> Forall (fun t => R t x) l ->
  ForallOrdPairs R (l ++ [x]).
Proof.
  induction 1 as [|a l Ha Hl IH]; intros Hx; simpl.
  - constructor; constructor.
  - inversion Hx; subst. constructor; auto. apply Forall_app; split; auto.
Qed.

Lemma FOP_map_iff {A B} (Q : B -> B -> Prop) (f : A -> B) l :
  ForallOrdPairs (fun a b => Q (f a) (f b)) l <-> ForallOrdPairs Q (map f l).
Proof.
  induction l as [|a l IH]; simpl; split; intros H; try constructor; inversion H; subst.
  - match goal with K : Forall _ l |- _ => rewrite Forall_forall in K; apply Forall_forall; intros x Hx; apply in_map_iff in Hx; destruct Hx as (y & <- & Hy); apply K, Hy end.
  - apply IH; auto.
  - match goal with K : Forall _ (map f l) |- _ => rewrite Forall_forall in K; apply Forall_forall; intros x Hx; apply K, in_map, Hx end.
  - apply IH; auto.
Qed.

Lemma placed_heads (d : dset) i ss ss' : heads_in (length d) ss -> i < length d ->
  placed d i ss ss' -> heads_in (length d) ss'.
Proof.
  intros Hh Hi Pl. unfold heads_in in *. inversion Pl as [pre s post Hss Hsame Hpre | Hall]; subst.
  - apply Forall_app in Hh. destruct Hh as [H1 H2]. inversion H2 as [|? ? [Hne Hlt] H3]; subst.
    apply Forall_app; split; [exact H1|]. constructor; [|exact H3]. split.
    + destruct s; simpl; congruence.
    + rewrite hd_app; auto.
  - apply Forall_app; split; auto. constructor; auto. split; [congruence | simpl; auto].
Qed.

Lemma placed_cls ds k ss ss' : WF ds -> k < length ds -> cls_ok ds k ss -> placed ds k ss ss' ->
  cls_ok ds (S k) ss'.
Proof.
  intros W Hk C Pl. pose proof C as (P & F & O & S).
  assert (Kself : same ds k k) by (apply same_refl; auto).
  inversion Pl as [pre s post Hss Hsame Hpre | Hall]; subst.
  - (* k joins the set s *)
    assert (Hs_in : In s (pre ++ s :: post)) by (apply in_or_app; right; left; auto).
    pose proof (proj1 (Forall_forall _ _) F s Hs_in) as (Hne & Hsort & Hsame_s).
    assert (Hhd : forall t, hd 0 ((fun t => t) t) = hd 0 t) by auto.
    repeat split.
    + rewrite seq_S, Nat.add_0_l. rewrite concat_app, concat_cons in *.
      apply Permutation_trans with ((concat pre ++ s ++ concat post) ++ [k]).
      * rewrite <- !app_assoc. apply Permutation_app_head. apply Permutation_app_head.
        apply Permutation_app_comm.
      * apply Permutation_app_tail. exact P.
    + apply Forall_app in F. destruct F as [F1 F2]. inversion F2; subst.
      apply Forall_app; split; auto. constructor; auto. split; [destruct s; simpl; congruence|].
      split.
      * apply SSorted_snoc; auto. intros y Hy. eapply cls_members; eauto.
      * intros a b Ha Hb. apply in_app_or in Ha. apply in_app_or in Hb.
        assert (Hk_any : forall a, In a s -> same ds a k).
        { intros a0 Ha0. apply same_sym. eapply same_trans; [exact Hsame|].
          apply Hsame_s; auto. apply hd_In; auto. }
        destruct Ha as [Ha|[<-|[]]], Hb as [Hb|[<-|[]]]; auto.
        apply same_sym; auto.
    + (* heads are unchanged *)
      apply (FOP_map_iff (fun x y => ~ same ds x y) (hd 0)).
      apply (FOP_map_iff (fun x y => ~ same ds x y) (hd 0)) in O.
      rewrite map_app in *. simpl in *. rewrite hd_app; auto.
    + rewrite map_app in *. simpl in *. rewrite hd_app; auto.
  - (* k opens a new set *)
    repeat split.
    + rewrite concat_app, seq_S, Nat.add_0_l. cbn [concat]. rewrite app_nil_r. apply Permutation_app_tail; auto.
    + apply Forall_app; split; auto. constructor; auto. split; [congruence|]. split.
      * constructor; constructor.
      * intros a b [<-|[]] [<-|[]]; auto.
    + apply FOP_snoc; auto. simpl. eapply Forall_impl; [|exact Hall].
      intros t Ht H. apply Ht. apply same_sym; auto.
    + rewrite map_app. simpl. apply SSorted_snoc; auto.
      intros y Hy. apply in_map_iff in Hy. destruct Hy as (t & <- & Ht).
      pose proof (proj1 (Forall_forall _ _) F t Ht) as (Hne & _).
      eapply cls_members; eauto. apply hd_In; auto.
Qed.

Lemma placed_equiv d0 d i ss ss' : equiv d0 d -> placed d i ss ss' -> placed d0 i ss ss'.
Proof.
  intros E Pl. inversion Pl as [pre s post Hss Hsame Hpre | Hall]; subst.
  - apply (placed_in d0 i _ pre s post); auto.
    + apply (equiv_same _ _ _ _ E); auto.
    + eapply Forall_impl; [|exact Hpre]. intros t Ht H; apply Ht. apply (equiv_same _ _ _ _ E); auto.
  - apply placed_new. eapply Forall_impl; [|exact Hall].
    intros t Ht H; apply Ht. apply (equiv_same _ _ _ _ E); auto.
Qed.

Lemma sets_loop_spec ds0 : WF ds0 -> forall m k d ss, equiv ds0 d -> k + m = length ds0 ->
  cls_ok ds0 k ss -> heads_in (length ds0) ss ->
  exists d' ss', sets_loop d (seq k m) ss = Some (d', ss') /\ equiv ds0 d' /\
                 cls_ok ds0 (k + m) ss'.
Proof.
  intros W0. induction m as [|m IH]; intros k d ss E Hk C Hh; simpl.
  - exists d, ss. rewrite Nat.add_0_r. auto.
  - pose proof (equiv_WF _ _ E W0) as W. assert (L : length d = length ds0) by (destruct E; lia).
    destruct (place_spec ss d k W) as (d1 & ss1 & P & E1 & Pl); [lia | now rewrite L |].
    rewrite P.
    pose proof (placed_equiv _ _ _ _ _ E Pl) as Pl0.
    assert (C1 : cls_ok ds0 (S k) ss1) by (apply (placed_cls ds0 k ss ss1); auto; lia).
    assert (Hh1 : heads_in (length ds0) ss1).
    { rewrite <- L. eapply placed_heads; eauto; rewrite L; auto; lia. }
    destruct (IH (S k) d1 ss1) as (d2 & ss2 & S2 & E2 & C2); auto.
    + eapply equiv_trans; eauto.
    + lia.
    + exists d2, ss2. split; auto. split; auto. replace (k + S m) with (S k + m) by lia. auto.
Qed.

(* Sets(): never panics, does not change the partition, and returns the classes: every
   element exactly once, each set ascending with pairwise connected members, different sets
   not connected, sets ordered by their least element. *)
Theorem sets_spec ds : WF ds ->
  exists ds' ss, sets ds = Some (ds', ss) /\ equiv ds ds' /\ cls_ok ds (length ds) ss.
Proof.
  intros W. unfold sets.
  destruct (sets_loop_spec ds W (length ds) 0 ds []) as (d' & ss & S & E & C); auto.
  - apply equiv_refl.
  - repeat split; simpl; constructor.
  - constructor.
  - exists d', ss. auto.
Qed.

(* the head of each returned set is its least element (sets are ascending) *)
Lemma cls_head_least ds k ss s x : cls_ok ds k ss -> In s ss -> In x s -> hd 0 s <= x.
Proof.
  intros (_ & F & _) Hs Hx. pose proof (proj1 (Forall_forall _ _) F s Hs) as (Hne & Hsort & _).
  destruct s as [|a s]; [contradiction|]. simpl. destruct Hx as [<-|Hx]; auto.
  inversion Hsort as [|? ? _ Hall]; subst. apply Nat.lt_le_incl.
  apply (proj1 (Forall_forall _ _) Hall); auto.
Qed.

(* two elements are in the same returned set iff they are connected *)
Lemma cls_same_iff ds ss a b : WF ds -> cls_ok ds (length ds) ss ->
  a < length ds -> b < length ds ->
  (same ds a b <-> exists s, In s ss /\ In a s /\ In b s).
Proof.
  intros W C Ha Hb. pose proof C as (P & F & O & S). split.
  - intros Hab.
    assert (Ia : In a (concat ss)) by (apply (Permutation_in _ (Permutation_sym P)), in_seq; lia).
    assert (Ib : In b (concat ss)) by (apply (Permutation_in _ (Permutation_sym P)), in_seq; lia).
    apply in_concat in Ia. destruct Ia as (s & Hs & Has).
    apply in_concat in Ib. destruct Ib as (t & Ht & Hbt).
    pose proof (proj1 (Forall_forall _ _) F s Hs) as (Hnes & _ & Sames).
    pose proof (proj1 (Forall_forall _ _) F t Ht) as (Hnet & _ & Samet).
    assert (Hh : same ds (hd 0 s) (hd 0 t)).
    { eapply same_trans; [apply Sames; [apply hd_In; auto | exact Has]|].
      eapply same_trans; [exact Hab|]. apply Samet; auto. apply hd_In; auto. }
    (* distinct positions would contradict O *)
    assert (s = t).
    { clear - O Hs Ht Hh W S Hnes Hnet.
      induction O as [|u l Hu Hl IH]; [contradiction|].
      simpl in S. inversion S as [|? ? S' Hlt]; subst.
      destruct Hs as [<-|Hs], Ht as [<-|Ht]; auto.
      - exfalso. apply (proj1 (Forall_forall _ _) Hu t Ht). exact Hh.
      - exfalso. apply (proj1 (Forall_forall _ _) Hu s Hs). apply same_sym; exact Hh. }
    subst t. exists s; auto.
  - intros (s & Hs & Has & Hbs).
    pose proof (proj1 (Forall_forall _ _) F s Hs) as (_ & _ & Sames). auto.
Qed.

(* ---------- SmallestRep ---------- *)
Definition sr_ok (ds : dset) (k : nat) (sr : list nat) : Prop :=
  length sr = k /\ forall i, i < k ->
    same ds (nth i sr 0) i /\ forall j, same ds j i -> nth i sr 0 <= j.

Lemma sr_scan_spec ds0 sr : WF ds0 -> forall m j0 d i, equiv ds0 d -> i < length ds0 ->
  j0 + m = i -> sr_ok ds0 i sr -> (forall j, j < j0 -> ~ same ds0 i j) ->
  exists d' v, sr_scan d i (seq j0 m) sr = Some (d', v) /\ equiv ds0 d' /\
    same ds0 v i /\ forall j, same ds0 j i -> v <= j.
Proof.
  intros W0. induction m as [|m IH]; intros j0 d i E Hi Hj Hsr Hno; simpl.
  - exists d, i. split; auto. split; auto. split; [apply same_refl; auto|].
    intros j Hji. destruct (Nat.lt_ge_cases j i) as [Hlt|]; auto.
    exfalso. apply (Hno j); [lia | apply same_sym; auto].
  - pose proof (equiv_WF _ _ E W0) as W. assert (L : length d = length ds0) by (destruct E; lia).
    destruct (find2_spec d i j0 W) as (d1 & d2 & ri & rj & F1 & F2 & E2 & Dec); try lia.
    rewrite F1, F2. destruct (ri =? rj) eqn:Eq.
    + exists d2, (nth j0 sr 0). split; auto. split; [eapply equiv_trans; eauto|].
      assert (Sij : same ds0 i j0) by (apply (equiv_same _ _ _ _ E); apply Dec; auto).
      destruct Hsr as [Ls Hs]. destruct (Hs j0) as [A B]; [lia|]. split.
      * eapply same_trans; [exact A|]. apply same_sym; auto.
      * intros j Hji. apply B. eapply same_trans; [exact Hji|]. exact Sij.
    + destruct (IH (S j0) d2 i) as (d3 & v & S3 & E3 & A & B); auto; try lia.
      * eapply equiv_trans; eauto.
      * intros j Hj' Hs. destruct (Nat.eq_dec j j0) as [->|].
        -- assert (same d i j0) by (apply (equiv_same _ _ _ _ E); auto).
           apply Dec in H. congruence.
        -- apply (Hno j); auto. lia.
      * exists d3, v. auto.
Qed.

Lemma sr_loop_spec ds0 : WF ds0 -> forall m k d sr, equiv ds0 d -> k + m = length ds0 ->
  sr_ok ds0 k sr ->
  exists d' sr', sr_loop d (seq k m) sr = Some (d', sr') /\ equiv ds0 d' /\ sr_ok ds0 (k + m) sr'.
Proof.
  intros W0. induction m as [|m IH]; intros k d sr E Hk Hsr; simpl.
  - exists d, sr. rewrite Nat.add_0_r. auto.
  - destruct (sr_scan_spec ds0 sr W0 k 0 d k) as (d1 & v & S1 & E1 & A & B); auto; try lia.
    rewrite S1.
    destruct (IH (S k) d1 (sr ++ [v])) as (d2 & sr2 & S2 & E2 & C2); auto; try lia.
    + destruct Hsr as [Ls Hs]. split; [rewrite app_length; simpl; lia|].
      intros i Hi. destruct (Nat.eq_dec i k) as [->|Hne].
      * rewrite app_nth2 by lia. rewrite Ls, Nat.sub_diag. simpl. auto.
      * rewrite app_nth1 by lia. apply Hs. lia.
    + exists d2, sr2. split; auto. split; auto. replace (k + S m) with (S k + m) by lia. auto.
Qed.

(* SmallestRep(): entry i is the least member of the class of i; the partition is unchanged *)
Theorem smallest_rep_spec ds : WF ds ->
  exists ds' sr, smallest_rep ds = Some (ds', sr) /\ equiv ds ds' /\ sr_ok ds (length ds) sr.
Proof.
  intros W. unfold smallest_rep.
  destruct (sr_loop_spec ds W (length ds) 0 ds []) as (d' & sr & S & E & C); auto.
  - apply equiv_refl.
  - split; auto. intros i Hi; lia.
  - exists d', sr. auto.
Qed.

(* ---------- Roots ---------- *)
Lemma roots_from_spec : forall ds i r, In r (roots_from i ds) <->
  (i <= r /\ r - i < length ds /\ (nth (r - i) ds (-1) < 0)%Z).
Proof.
  induction ds as [|v t IH]; intros i r; simpl.
  - split; [intros [] | intros (_ & H & _); lia].
  - destruct (Z.ltb_spec v 0).
    + simpl. rewrite IH. split.
      * intros [<-|(A & B & C)].
        -- rewrite Nat.sub_diag. repeat split; auto; lia.
        -- repeat split; try lia. replace (r - i) with (S (r - S i)) by lia. auto.
      * intros (A & B & C). destruct (Nat.eq_dec i r) as [->|]; auto. right.
        replace (r - i) with (S (r - S i)) in C by lia. repeat split; auto; lia.
    + rewrite IH. split.
      * intros (A & B & C). repeat split; try lia. replace (r - i) with (S (r - S i)) by lia. auto.
      * intros (A & B & C). destruct (Nat.eq_dec i r) as [->|].
        -- rewrite Nat.sub_diag in C. lia.
        -- replace (r - i) with (S (r - S i)) in C by lia. repeat split; auto; lia.
Qed.

Lemma roots_iff ds r : In r (roots ds) <-> reaches ds r r.
Proof.
  unfold roots. rewrite roots_from_spec, Nat.sub_0_r. split.
  - intros (_ & A & B). constructor; auto.
  - intros H. destruct (reaches_root _ _ _ H). repeat split; auto; lia.
Qed.

Lemma roots_from_sorted : forall ds i, StronglySorted lt (roots_from i ds) /\
  forall r, In r (roots_from i ds) -> i <= r.
Proof.
  induction ds as [|v t IH]; intros i; simpl.
  - split; [constructor | intros r []].
  - destruct (IH (S i)) as [S1 S2]. destruct (v <? 0)%Z.
    + split.
      * constructor; auto. apply Forall_forall. intros r Hr. apply S2 in Hr. lia.
      * intros r [<-|Hr]; auto. apply S2 in Hr. lia.
    + split; auto. intros r Hr. apply S2 in Hr. lia.
Qed.

(* Roots(): exactly one element of every class (and they are listed in ascending order) *)
Theorem roots_spec ds : WF ds ->
  StronglySorted lt (roots ds) /\
  forall x, x < length ds -> exists r, In r (roots ds) /\ same ds x r /\
    forall r', In r' (roots ds) -> same ds x r' -> r' = r.
Proof.
  intros W. split; [apply roots_from_sorted|].
  intros x Hx. destruct (W x Hx) as [r Hr]. exists r. split; [|split].
  - apply roots_iff. eapply reaches_root_self; eauto.
  - apply same_root; auto.
  - intros r' Hr' [q [A B]]. apply roots_iff in Hr'.
    pose proof (reaches_fun _ _ _ _ Hr' B). subst q. eapply reaches_fun; eauto.
Qed.

(* ---------- the views, stated against the union-generated equivalence ---------- *)
Lemma Rep_equiv n ds ds' ps : Rep n ds ps -> equiv ds ds' -> Rep n ds' ps.
Proof.
  intros (W & L & S) E. split; [eapply equiv_WF; eauto|]. split; [destruct E; lia|].
  intros a b Ha Hb. rewrite <- (equiv_same _ _ _ _ E). apply S; auto.
Qed.

Theorem sets_conn n ds ps : Rep n ds ps ->
  exists ds' ss, sets ds = Some (ds', ss) /\ Rep n ds' ps /\ cls_ok ds n ss /\
    forall a b, a < n -> b < n ->
      (conn n ps a b <-> exists s, In s ss /\ In a s /\ In b s).
Proof.
  intros R. pose proof R as (W & L & S).
  destruct (sets_spec ds W) as (ds' & ss & F & E & C). rewrite L in C.
  exists ds', ss. split; auto. split; [eapply Rep_equiv; eauto|]. split; auto.
  intros a b Ha Hb. rewrite <- S by auto. apply cls_same_iff; auto; try lia. now rewrite L.
Qed.

Theorem smallest_rep_conn n ds ps : Rep n ds ps ->
  exists ds' sr, smallest_rep ds = Some (ds', sr) /\ Rep n ds' ps /\ length sr = n /\
    forall i, i < n -> nth i sr 0 < n /\ conn n ps (nth i sr 0) i /\
      forall j, j < n -> conn n ps j i -> nth i sr 0 <= j.
Proof.
  intros R. pose proof R as (W & L & S).
  destruct (smallest_rep_spec ds W) as (ds' & sr & F & E & (Ls & Hs)). rewrite L in *.
  exists ds', sr. split; auto. split; [eapply Rep_equiv; eauto|]. split; auto.
  intros i Hi. destruct (Hs i Hi) as [A B].
  assert (Hlt : nth i sr 0 < n) by (destruct (same_dom _ _ _ A); lia).
  split; auto. split; [apply S; auto|]. intros j Hj Cj. apply B. apply S; auto.
Qed.

Theorem roots_conn n ds ps : Rep n ds ps ->
  StronglySorted lt (roots ds) /\
  forall x, x < n -> exists r, In r (roots ds) /\ r < n /\ conn n ps x r /\
    forall r', In r' (roots ds) -> r' < n -> conn n ps x r' -> r' = r.
Proof.
  intros (W & L & S). destruct (roots_spec ds W) as [A B]. split; auto.
  intros x Hx. destruct (B x) as (r & I & Sx & U); [lia|]. exists r.
  assert (r < n) by (destruct (same_dom _ _ _ Sx); lia).
  split; auto. split; auto. split; [apply S; auto|].
  intros r' I' Hr' C. apply U; auto. apply S; auto.
Qed.
