(* Proofs about the model of disjoint.Set (C18). *)
From Coq Require Import List ZArith Lia Arith Bool.
From Mamba Require Import Disjoint.Model.
Import ListNotations.
Open Scope Z_scope.

(* ---------- the parent-pointer relation ---------- *)
Inductive reaches (ds : dset) : nat -> nat -> Prop :=
| r_root x : (x < length ds)%nat -> get ds x < 0 -> reaches ds x x
| r_step x r : (x < length ds)%nat -> 0 <= get ds x ->
    reaches ds (Z.to_nat (get ds x)) r -> reaches ds x r.

(* every element leads to a root: in range, acyclic *)
Definition WF (ds : dset) : Prop := forall i, (i < length ds)%nat -> exists r, reaches ds i r.

(* x and y have the same representative *)
Definition same (ds : dset) (x y : nat) : Prop := exists r, reaches ds x r /\ reaches ds y r.

(* two arrays represent the same forest up to path shape: same root for everybody *)
Definition equiv (d1 d2 : dset) : Prop :=
  length d1 = length d2 /\ forall y r, reaches d1 y r <-> reaches d2 y r.

Lemma reaches_fun ds x r1 r2 : reaches ds x r1 -> reaches ds x r2 -> r1 = r2.
Proof.
  intros H; revert r2; induction H as [x Hx Hn | x r Hx Hp H IH]; intros r2 H2.
  - inversion H2; subst; auto; lia.
  - inversion H2; subst; [lia | auto].
Qed.

Lemma reaches_root ds x r : reaches ds x r -> (r < length ds)%nat /\ get ds r < 0.
Proof. induction 1; auto. Qed.

Lemma reaches_dom ds x r : reaches ds x r -> (x < length ds)%nat.
Proof. destruct 1; auto. Qed.

Lemma reaches_root_self ds x r : reaches ds x r -> reaches ds r r.
Proof. intros H. destruct (reaches_root _ _ _ H). constructor; auto. Qed.

Lemma upd_length {A} (l : list A) i v : length (upd l i v) = length l.
Proof. revert i; induction l; destruct i; simpl; auto. Qed.

Lemma get_upd_same ds i v : (i < length ds)%nat -> get (upd ds i v) i = v.
Proof.
  unfold get; revert i; induction ds as [|a ds IH]; destruct i; simpl; intros; try lia; auto.
  apply IH; lia.
Qed.

Lemma get_upd_other ds i j v : i <> j -> get (upd ds i v) j = get ds j.
Proof.
  unfold get; revert i j; induction ds as [|a ds IH]; destruct i, j; simpl; intros; try lia; auto.
Qed.

Lemma equiv_refl d : equiv d d.
Proof. split; [reflexivity | intros; reflexivity]. Qed.

Lemma equiv_trans d1 d2 d3 : equiv d1 d2 -> equiv d2 d3 -> equiv d1 d3.
Proof.
  intros [L1 H1] [L2 H2]; split; [congruence|].
  intros y r; rewrite H1; apply H2.
Qed.

Lemma equiv_sym d1 d2 : equiv d1 d2 -> equiv d2 d1.
Proof. intros [L H]; split; [auto | intros; symmetry; apply H]. Qed.

Lemma equiv_WF d1 d2 : equiv d1 d2 -> WF d1 -> WF d2.
Proof.
  intros [L H] W i Hi. rewrite <- L in Hi. destruct (W i Hi) as [r Hr].
  exists r; apply H; exact Hr.
Qed.

Lemma equiv_same d1 d2 x y : equiv d1 d2 -> (same d1 x y <-> same d2 x y).
Proof.
  intros [L H]; unfold same; split; intros [r [A B]]; exists r; split; apply H; auto.
Qed.

(* ---------- compressing one element ---------- *)
Lemma compress1_fwd ds s r : reaches ds s r -> s <> r ->
  forall y ry, reaches ds y ry -> reaches (upd ds s (Z.of_nat r)) y ry.
Proof.
  intros Hs Hne y ry Hy.
  destruct (reaches_root _ _ _ Hs) as [Hrl Hrn].
  induction Hy as [y Hy Hn | y ry Hy Hp H IH].
  - assert (s <> y) by (intro; subst; inversion Hs; subst; lia).
    apply r_root; [rewrite upd_length; auto | rewrite get_upd_other; auto].
  - destruct (Nat.eq_dec s y) as [->|Hsy].
    + assert (ry = r) by (eapply reaches_fun; [ | exact Hs]; eapply r_step; eauto).
      subst. eapply r_step.
      * rewrite upd_length; auto.
      * rewrite get_upd_same; auto; lia.
      * rewrite get_upd_same; auto. rewrite Nat2Z.id.
        apply r_root; [rewrite upd_length; auto | rewrite get_upd_other; auto].
    + eapply r_step.
      * rewrite upd_length; auto.
      * rewrite get_upd_other; auto.
      * rewrite get_upd_other; auto.
Qed.

Lemma fwd_equiv d1 d2 : WF d1 -> length d1 = length d2 ->
  (forall y r, reaches d1 y r -> reaches d2 y r) -> equiv d1 d2.
Proof.
  intros W L F; split; auto. intros y r; split; auto.
  intros H2. assert (Hy : (y < length d1)%nat) by (rewrite L; eapply reaches_dom; eauto).
  destruct (W y Hy) as [r1 H1]. pose proof (F _ _ H1) as H1'.
  rewrite (reaches_fun _ _ _ _ H2 H1'); auto.
Qed.

Lemma compress1_equiv ds s r : WF ds -> reaches ds s r -> s <> r ->
  equiv ds (upd ds s (Z.of_nat r)).
Proof.
  intros W Hs Hne. apply fwd_equiv; auto.
  - now rewrite upd_length.
  - intros; eapply compress1_fwd; eauto.
Qed.

Lemma compress_list_equiv l : forall ds r, WF ds ->
  (forall s, In s l -> reaches ds s r /\ s <> r) ->
  equiv ds (fold_left (fun d s => upd d s (Z.of_nat r)) l ds).
Proof.
  induction l as [|s l IH]; intros ds r W H; simpl; [apply equiv_refl|].
  destruct (H s (or_introl eq_refl)) as [Hs Hne].
  pose proof (compress1_equiv ds s r W Hs Hne) as E.
  eapply equiv_trans; [exact E|].
  apply IH; [eapply equiv_WF; eauto|].
  intros s' Hin. destruct (H s' (or_intror Hin)) as [Hs' Hne']; split; auto.
  apply E; auto.
Qed.

(* ---------- the path walked by Find, with its length ---------- *)
Inductive reaches_n (ds : dset) : nat -> nat -> nat -> Prop :=
| rn_root x : (x < length ds)%nat -> get ds x < 0 -> reaches_n ds 0 x x
| rn_step k x r : (x < length ds)%nat -> 0 <= get ds x ->
    reaches_n ds k (Z.to_nat (get ds x)) r -> reaches_n ds (S k) x r.

Lemma reaches_has_n ds x r : reaches ds x r -> exists k, reaches_n ds k x r.
Proof.
  induction 1 as [|x r Hx Hp H [k IH]];
    [exists 0%nat; constructor; auto | exists (S k); econstructor; eauto].
Qed.

Lemma reaches_n_reaches ds k x r : reaches_n ds k x r -> reaches ds x r.
Proof. induction 1; [constructor; auto | econstructor; eauto]. Qed.

Lemma reaches_n_fun ds : forall k1 x r1, reaches_n ds k1 x r1 ->
  forall k2 r2, reaches_n ds k2 x r2 -> k1 = k2 /\ r1 = r2.
Proof.
  induction 1 as [x Hx Hn | k x r Hx Hp H IH]; intros k2 r2 H2; inversion H2; subst; try lia; auto.
  match goal with K : reaches_n _ _ (Z.to_nat _) _ |- _ => destruct (IH _ _ K) end; subst; auto.
Qed.

Fixpoint path (ds : dset) (k : nat) (x : nat) : list nat :=
  match k with O => [x] | S k' => x :: path ds k' (Z.to_nat (get ds x)) end.

Lemma path_in ds : forall k x r, reaches_n ds k x r ->
  forall y, In y (path ds k x) ->
  exists j, (j <= k)%nat /\ reaches_n ds j y r /\ (y < length ds)%nat.
Proof.
  induction 1 as [x Hx Hn | k x r Hx Hp H IH]; simpl; intros y Hy.
  - destruct Hy as [<-|[]]. exists 0%nat; repeat split; auto. constructor; auto.
  - destruct Hy as [<-|Hy].
    + exists (S k); repeat split; auto. econstructor; eauto.
    + destruct (IH _ Hy) as (j & Hj & Hr & Hl). exists j; repeat split; auto.
Qed.

Lemma path_nodup ds : forall k x r, reaches_n ds k x r -> NoDup (path ds k x).
Proof.
  induction 1 as [x Hx Hn | k x r Hx Hp H IH]; simpl.
  - constructor; [intros []|constructor].
  - constructor; auto. intro Hin.
    destruct (path_in _ _ _ _ H _ Hin) as (j & Hj & Hr & _).
    assert (Hx2 : reaches_n ds (S k) x r) by (econstructor; eauto).
    destruct (reaches_n_fun _ _ _ _ Hr _ _ Hx2). lia.
Qed.

Lemma path_length ds k x : length (path ds k x) = S k.
Proof. revert x; induction k; simpl; auto. Qed.

(* pigeonhole: a path to a root visits distinct elements, so it is shorter than the array *)
Lemma height_bound ds k x r : reaches_n ds k x r -> (k < length ds)%nat.
Proof.
  intros H.
  assert (Hincl : incl (path ds k x) (seq 0 (length ds))).
  { intros y Hy. destruct (path_in _ _ _ _ H _ Hy) as (_ & _ & _ & Hl). apply in_seq; lia. }
  pose proof (NoDup_incl_length (path_nodup _ _ _ _ H) Hincl) as Hlen.
  rewrite path_length, seq_length in Hlen. lia.
Qed.

Lemma walk_ok ds : forall k x r fuel, reaches_n ds k x r -> (k < fuel)%nat ->
  walk fuel ds x = Some (path ds k x).
Proof.
  induction k; intros x r fuel H Hf; inversion H; subst; destruct fuel; try lia; simpl.
  - destruct (Nat.leb_spec (length ds) r); try lia.
    destruct (Z.ltb_spec (get ds r) 0); try lia; auto.
  - destruct (Nat.leb_spec (length ds) x); try lia.
    destruct (Z.ltb_spec (get ds x) 0); try lia.
    erewrite IHk; eauto; lia.
Qed.

Lemma last_path ds : forall k x r, reaches_n ds k x r -> forall d, last (path ds k x) d = r.
Proof.
  induction 1 as [x Hx Hn | k x r Hx Hp H IH]; intros d; simpl; auto.
  rewrite <- (IH d). destruct k; simpl; auto.
Qed.

(* the elements compressed (all but the last two of the path) reach r and differ from it *)
Lemma path_firstn_not_root ds : forall k x r, reaches_n ds k x r ->
  forall s, In s (firstn (S k - 2) (path ds k x)) -> reaches ds s r /\ s <> r.
Proof.
  induction 1 as [x Hx Hn | k x r Hx Hp H IH]; intros s Hs.
  - simpl in Hs. destruct Hs.
  - destruct k as [|k].
    + simpl in Hs. destruct Hs.
    + replace (S (S (S k)) - 2)%nat with (S (S (S k) - 2)) in Hs by lia.
      cbn [path firstn] in Hs. destruct Hs as [<-|Hs].
      * split; [econstructor; eauto; eapply reaches_n_reaches; eauto|].
        intro E; subst. destruct (reaches_root _ _ _ (reaches_n_reaches _ _ _ _ H)). lia.
      * apply IH. exact Hs.
Qed.

(* ---------- Find ---------- *)
Theorem find_spec ds x : WF ds -> (x < length ds)%nat ->
  exists ds' r, find ds x = Some (ds', r) /\ reaches ds x r /\ equiv ds ds'.
Proof.
  intros W Hx. destruct (W x Hx) as [r Hr].
  destruct (reaches_has_n _ _ _ Hr) as [k Hk].
  pose proof (height_bound _ _ _ _ Hk) as Hb.
  unfold find. rewrite (walk_ok ds k x r (S (length ds)) Hk) by lia.
  rewrite (last_path _ _ _ _ Hk). do 2 eexists; split; [reflexivity|]. split; auto.
  unfold compress. rewrite path_length.
  apply compress_list_equiv; auto.
  intros s Hs. eapply path_firstn_not_root; eauto.
Qed.

Lemma find_panics_out_of_range ds x : (length ds <= x)%nat -> find ds x = None.
Proof.
  intros H. unfold find. simpl. destruct (Nat.leb_spec (length ds) x); auto; lia.
Qed.

(* ---------- linking two roots ---------- *)
Lemma link_gen ds d' rx ry : length d' = length ds -> get d' ry < 0 ->
  get d' rx = Z.of_nat ry -> (forall z, z <> rx -> z <> ry -> get d' z = get ds z) ->
  reaches ds rx rx -> reaches ds ry ry -> rx <> ry ->
  forall y r, reaches ds y r -> reaches d' y (if (r =? rx)%nat then ry else r).
Proof.
  intros Ld Gy Gx Go Hx Hy Hne y r H.
  destruct (reaches_root _ _ _ Hx) as [Lx Nx]. destruct (reaches_root _ _ _ Hy) as [Ly Ny].
  assert (Ry : reaches d' ry ry) by (constructor; [lia|lia]).
  induction H as [y Hyl Hn | y r Hyl Hp H IH].
  - destruct (Nat.eqb_spec y rx) as [->|Hyx].
    + eapply r_step; [lia | rewrite Gx; lia | rewrite Gx, Nat2Z.id; exact Ry].
    + destruct (Nat.eq_dec y ry) as [->|Hyy]; [exact Ry|].
      constructor; [lia | rewrite Go; auto].
  - assert (y <> rx) by (intro; subst; lia).
    assert (y <> ry) by (intro; subst; lia).
    eapply r_step; [lia | rewrite Go; auto | rewrite Go; auto].
Qed.

Lemma link_fwd ds rx ry v : reaches ds rx rx -> reaches ds ry ry -> rx <> ry -> v < 0 ->
  forall y r, reaches ds y r ->
  reaches (upd (upd ds rx (Z.of_nat ry)) ry v) y (if (r =? rx)%nat then ry else r).
Proof.
  intros Hx Hy Hne Hv.
  destruct (reaches_root _ _ _ Hx) as [Lx Nx]. destruct (reaches_root _ _ _ Hy) as [Ly Ny].
  apply link_gen; auto.
  - now rewrite !upd_length.
  - rewrite get_upd_same; auto. now rewrite upd_length.
  - rewrite get_upd_other by auto. rewrite get_upd_same; auto.
  - intros z Z1 Z2. rewrite !get_upd_other; auto.
Qed.

Lemma link_fwd1 ds rx ry : reaches ds rx rx -> reaches ds ry ry -> rx <> ry ->
  forall y r, reaches ds y r ->
  reaches (upd ds rx (Z.of_nat ry)) y (if (r =? rx)%nat then ry else r).
Proof.
  intros Hx Hy Hne.
  destruct (reaches_root _ _ _ Hx) as [Lx Nx]. destruct (reaches_root _ _ _ Hy) as [Ly Ny].
  apply link_gen; auto.
  - now rewrite !upd_length.
  - rewrite get_upd_other; auto.
  - rewrite get_upd_same; auto.
  - intros z Z1 Z2. rewrite !get_upd_other; auto.
Qed.

(* what linking does to the "same set" relation *)
Lemma link_same ds d' rx ry : WF ds -> length d' = length ds ->
  reaches ds rx rx -> reaches ds ry ry -> rx <> ry ->
  (forall y r, reaches ds y r -> reaches d' y (if (r =? rx)%nat then ry else r)) ->
  WF d' /\ forall a b, (a < length ds)%nat -> (b < length ds)%nat ->
    (same d' a b <-> same ds a b \/ (same ds a rx /\ same ds ry b) \/ (same ds a ry /\ same ds rx b)).
Proof.
  intros W L Hx Hy Hne F. split.
  - intros i Hi. rewrite L in Hi. destruct (W i Hi) as [r Hr]. eexists; eapply F; eauto.
  - intros a b Ha Hb. destruct (W a Ha) as [ra Hra]. destruct (W b Hb) as [rb Hrb].
    pose proof (F _ _ Hra) as Fa. pose proof (F _ _ Hrb) as Fb.
    assert (Sa : forall z, same ds a z <-> reaches ds z ra).
    { intros z; split.
      - intros [r [A B]]. now rewrite (reaches_fun _ _ _ _ Hra A).
      - intros Hz; exists ra; auto. }
    assert (Sb : forall z, same ds z b <-> reaches ds z rb).
    { intros z; split.
      - intros [r [A B]]. now rewrite (reaches_fun _ _ _ _ Hrb B).
      - intros Hz; exists rb; auto. }
    rewrite !Sa, !Sb.
    split.
    + intros [r [A B]].
      pose proof (reaches_fun _ _ _ _ A Fa) as Ea. pose proof (reaches_fun _ _ _ _ B Fb) as Eb.
      rewrite Ea in Eb. clear Ea A B.
      destruct (Nat.eqb_spec ra rx) as [E1|E1], (Nat.eqb_spec rb rx) as [E2|E2].
      * left. rewrite E1, <- E2. exact Hrb.
      * right; left. rewrite E1, <- Eb. auto.
      * right; right. rewrite Eb, E2. auto.
      * left. rewrite Eb. exact Hrb.
    + intros [H | [[H1 H2] | [H1 H2]]].
      * pose proof (reaches_fun _ _ _ _ H Hrb) as E. rewrite <- E in Fb. eexists; split; eauto.
      * pose proof (reaches_fun _ _ _ _ H1 Hx) as E1. pose proof (reaches_fun _ _ _ _ H2 Hy) as E2.
        rewrite E1, Nat.eqb_refl in Fa. rewrite E2 in Fb.
        exists ry. split; auto. destruct (ry =? rx)%nat; auto.
      * pose proof (reaches_fun _ _ _ _ H1 Hy) as E1. pose proof (reaches_fun _ _ _ _ H2 Hx) as E2.
        rewrite E1 in Fa. rewrite E2, Nat.eqb_refl in Fb.
        exists ry. split; auto. destruct (ry =? rx)%nat; auto.
Qed.

Lemma same_sym ds a b : same ds a b -> same ds b a.
Proof. intros [r [A B]]; exists r; auto. Qed.

Lemma same_trans ds a b c : same ds a b -> same ds b c -> same ds a c.
Proof.
  intros [r [A B]] [r' [B' C]]. rewrite <- (reaches_fun _ _ _ _ B B') in C. exists r; auto.
Qed.

Lemma same_refl ds a : WF ds -> (a < length ds)%nat -> same ds a a.
Proof. intros W Ha. destruct (W a Ha) as [r Hr]. exists r; auto. Qed.

Lemma same_root ds a r : reaches ds a r -> same ds a r.
Proof. intros H; exists r; split; auto. eapply reaches_root_self; eauto. Qed.

Lemma same_dom ds a b : same ds a b -> (a < length ds)%nat /\ (b < length ds)%nat.
Proof. intros [r [A B]]; split; eapply reaches_dom; eauto. Qed.

(* ---------- Union ---------- *)
Theorem union_spec ds x y : WF ds -> (x < length ds)%nat -> (y < length ds)%nat ->
  exists ds', union ds x y = Some ds' /\ WF ds' /\ length ds' = length ds /\
    forall a b, (a < length ds)%nat -> (b < length ds)%nat ->
      (same ds' a b <-> same ds a b \/ (same ds a x /\ same ds y b) \/ (same ds a y /\ same ds x b)).
Proof.
  intros W Hx Hy.
  destruct (find_spec ds x W Hx) as (d1 & px & F1 & R1 & E1).
  pose proof (equiv_WF _ _ E1 W) as W1.
  assert (Hy1 : (y < length d1)%nat) by (destruct E1 as [L _]; lia).
  destruct (find_spec d1 y W1 Hy1) as (d2 & py & F2 & R2 & E2).
  pose proof (equiv_WF _ _ E2 W1) as W2.
  pose proof (equiv_trans _ _ _ E1 E2) as E.
  assert (L2 : length d2 = length ds) by (destruct E as [L _]; lia).
  assert (Rx : reaches d2 x px) by (apply E; auto).
  assert (Ry : reaches d2 y py) by (apply E2; auto).
  pose proof (reaches_root_self _ _ _ Rx) as Px. pose proof (reaches_root_self _ _ _ Ry) as Py.
  (* rewrite the goal relation over d2, where the roots are px, py *)
  assert (Key : forall a b,
    (same ds a b \/ (same ds a x /\ same ds y b) \/ (same ds a y /\ same ds x b)) <->
    (same d2 a b \/ (same d2 a px /\ same d2 py b) \/ (same d2 a py /\ same d2 px b))).
  { intros a b. rewrite !(equiv_same _ _ _ _ E).
    assert (Sx : same d2 x px) by (apply same_root; auto).
    assert (Sy : same d2 y py) by (apply same_root; auto).
    split; (intros [H | [[H1 H2] | [H1 H2]]]; [left; auto | right; left | right; right]); split;
      eauto using same_trans, same_sym. }
  unfold union. rewrite F1, F2.
  destruct (Nat.eqb_spec px py) as [Heq|Hne].
  - exists d2; split; auto. split; auto. split; auto.
    intros a b Ha Hb. rewrite Key. subst py. split; auto.
    intros [H | [[H1 H2] | [H1 H2]]]; eauto using same_trans.
  - assert (Hne' : py <> px) by auto.
    destruct (reaches_root _ _ _ Px) as [Lpx Npx]. destruct (reaches_root _ _ _ Py) as [Lpy Npy].
    destruct (Z.ltb_spec (get d2 px) (get d2 py)).
    { (* py goes under px *)
      destruct (link_same d2 (upd d2 py (Z.of_nat px)) py px W2) as [W' S']; auto.
      - now rewrite upd_length.
      - apply link_fwd1; auto.
      - eexists; split; [reflexivity|]. split; auto. split; [now rewrite upd_length|].
        intros a b Ha Hb. rewrite Key, S' by lia. tauto. }
    destruct (Z.ltb_spec (get d2 py) (get d2 px)).
    { destruct (link_same d2 (upd d2 px (Z.of_nat py)) px py W2) as [W' S']; auto.
      - now rewrite upd_length.
      - apply link_fwd1; auto.
      - eexists; split; [reflexivity|]. split; auto. split; [now rewrite upd_length|].
        intros a b Ha Hb. rewrite Key, S' by lia. tauto. }
    { destruct (link_same d2 (upd (upd d2 px (Z.of_nat py)) py (get d2 py - 1)) px py W2) as [W' S']; auto.
      - now rewrite !upd_length.
      - apply link_fwd; auto. lia.
      - eexists; split; [reflexivity|]. split; auto. split; [now rewrite !upd_length|].
        intros a b Ha Hb. rewrite Key, S' by lia. tauto. }
Qed.

(* ---------- the specification: the equivalence generated by the union pairs ---------- *)
Inductive conn (n : nat) (ps : list (nat * nat)) : nat -> nat -> Prop :=
| c_refl x : (x < n)%nat -> conn n ps x x
| c_pair x y : In (x, y) ps -> conn n ps x y
| c_sym x y : conn n ps x y -> conn n ps y x
| c_trans x y z : conn n ps x y -> conn n ps y z -> conn n ps x z.

Definition pair_of (o : op) : list (nat * nat) :=
  match o with OUnion x y | OUnionB x y => [(x, y)] | _ => [] end.
Definition pairs (ops : list op) : list (nat * nat) := flat_map pair_of ops.

Definition op_valid (n : nat) (o : op) : Prop :=
  match o with
  | OFind x | OFindB x => (x < n)%nat
  | OUnion x y | OUnionB x y => (x < n)%nat /\ (y < n)%nat
  end.

Lemma conn_mono n ps qs x y : incl ps qs -> conn n ps x y -> conn n qs x y.
Proof.
  intros I H; induction H; [apply c_refl | apply c_pair | apply c_sym | eapply c_trans]; eauto.
Qed.

Lemma conn_snoc n ps a b x y : (a < n)%nat -> (b < n)%nat ->
  (conn n (ps ++ [(a, b)]) x y <->
   conn n ps x y \/ (conn n ps x a /\ conn n ps b y) \/ (conn n ps x b /\ conn n ps a y)).
Proof.
  intros Ha Hb. split.
  - induction 1 as [x Hx | x y Hin | x y H IH | x y z H1 IH1 H2 IH2].
    + left; apply c_refl; auto.
    + apply in_app_or in Hin. destruct Hin as [Hin | [Heq | []]].
      * left; apply c_pair; auto.
      * inversion Heq; subst. right; left; split; apply c_refl; auto.
    + destruct IH as [H' | [[H1 H2] | [H1 H2]]].
      * left; apply c_sym; auto.
      * right; right; split; apply c_sym; auto.
      * right; left; split; apply c_sym; auto.
    + destruct IH1 as [A | [[A1 A2] | [A1 A2]]], IH2 as [B | [[B1 B2] | [B1 B2]]].
      * left; eapply c_trans; eauto.
      * right; left; split; auto. eapply c_trans; eauto.
      * right; right; split; auto. eapply c_trans; eauto.
      * right; left; split; auto. eapply c_trans; eauto.
      * right; left; split; auto.
      * left; eapply c_trans; eauto.
      * right; right; split; auto. eapply c_trans; eauto.
      * left; eapply c_trans; eauto.
      * right; right; split; auto.
  - intros [H | [[H1 H2] | [H1 H2]]].
    + eapply conn_mono; [|exact H]. apply incl_appl, incl_refl.
    + eapply c_trans; [eapply conn_mono; [|exact H1]; apply incl_appl, incl_refl|].
      eapply c_trans; [apply c_pair; apply in_or_app; right; left; reflexivity|].
      eapply conn_mono; [|exact H2]. apply incl_appl, incl_refl.
    + eapply c_trans; [eapply conn_mono; [|exact H1]; apply incl_appl, incl_refl|].
      eapply c_trans; [apply c_sym, c_pair; apply in_or_app; right; left; reflexivity|].
      eapply conn_mono; [|exact H2]. apply incl_appl, incl_refl.
Qed.

(* ---------- every history ---------- *)
Definition Rep (n : nat) (ds : dset) (ps : list (nat * nat)) : Prop :=
  WF ds /\ length ds = n /\
  forall x y, (x < n)%nat -> (y < n)%nat -> (same ds x y <-> conn n ps x y).

Lemma conn_nil n x y : conn n [] x y -> x = y.
Proof. induction 1; auto; try congruence. contradiction. Qed.

Lemma get_new n i : (i < n)%nat -> get (new n) i = -1.
Proof. unfold get, new. intros H. apply nth_repeat. Qed.

Lemma new_Rep n : Rep n (new n) [].
Proof.
  assert (L : length (new n) = n) by apply repeat_length.
  assert (R : forall i, (i < n)%nat -> reaches (new n) i i).
  { intros i Hi. constructor; [lia | rewrite get_new; auto; lia]. }
  split; [|split]; auto.
  - intros i Hi. exists i. apply R; lia.
  - intros x y Hx Hy. split.
    + intros [r [A B]]. pose proof (reaches_fun _ _ _ _ A (R x Hx)).
      pose proof (reaches_fun _ _ _ _ B (R y Hy)). subst. subst. apply c_refl; auto.
    + intros C. apply conn_nil in C; subst. exists y; split; apply R; auto.
Qed.

Lemma step_Rep n ds ps o : Rep n ds ps -> op_valid n o ->
  exists ds', step ds o = Some ds' /\ Rep n ds' (ps ++ pair_of o).
Proof.
  intros (W & L & S) V.
  assert (FindCase : forall x, (x < n)%nat ->
    exists ds', match find ds x with Some (d, _) => Some d | None => None end = Some ds' /\
                Rep n ds' (ps ++ [])).
  { intros x Hx. destruct (find_spec ds x W) as (d' & r & F & R & E); [lia|].
    rewrite F. exists d'; split; auto. rewrite app_nil_r.
    split; [eapply equiv_WF; eauto|]. split; [destruct E; lia|].
    intros a b Ha Hb. rewrite <- (equiv_same _ _ _ _ E). apply S; auto. }
  assert (UnionCase : forall x y, (x < n)%nat /\ (y < n)%nat ->
    exists ds', union ds x y = Some ds' /\ Rep n ds' (ps ++ [(x, y)])).
  { intros x y [Hx Hy]. destruct (union_spec ds x y W) as (d' & U & W' & L' & S'); try lia.
    exists d'; split; auto. split; auto. split; [lia|].
    intros a b Ha Hb. rewrite S' by lia. rewrite conn_snoc by auto.
    rewrite !S by auto. tauto. }
  destruct o; simpl in *; auto.
Qed.

Lemma run_from_Rep n : forall ops ds ps, Rep n ds ps -> Forall (op_valid n) ops ->
  exists ds', run_from ds ops = Some ds' /\ Rep n ds' (ps ++ pairs ops).
Proof.
  induction ops as [|o ops IH]; intros ds ps R V; simpl.
  - exists ds; split; auto. now rewrite app_nil_r.
  - inversion V as [|? ? Vo Vr]; subst.
    destruct (step_Rep n ds ps o R Vo) as (d1 & S1 & R1). rewrite S1.
    destruct (IH d1 _ R1 Vr) as (d2 & S2 & R2). exists d2; split; auto.
    unfold pairs in *. simpl. now rewrite app_assoc.
Qed.

(* C18, main statement: after any history of valid operations the run does not panic, and
   two elements have the same representative exactly when the unions connect them. *)
Theorem run_partition n ops : Forall (op_valid n) ops ->
  exists ds, run n ops = Some ds /\ Rep n ds (pairs ops).
Proof.
  intros V. destruct (run_from_Rep n ops (new n) [] (new_Rep n) V) as (ds & R & H).
  exists ds; split; auto.
Qed.

(* Find(x) == Find(y), as the caller observes it (two consecutive calls, the second on the
   array the first may have compressed), decides connectivity. *)
Theorem find_eq_iff_conn n ds ps x y : Rep n ds ps -> (x < n)%nat -> (y < n)%nat ->
  exists d1 d2 rx ry, find ds x = Some (d1, rx) /\ find d1 y = Some (d2, ry) /\
    (rx = ry <-> conn n ps x y) /\ Rep n d2 ps.
Proof.
  intros (W & L & S) Hx Hy.
  destruct (find_spec ds x W) as (d1 & rx & F1 & R1 & E1); [lia|].
  pose proof (equiv_WF _ _ E1 W) as W1.
  destruct (find_spec d1 y W1) as (d2 & ry & F2 & R2 & E2); [destruct E1; lia|].
  exists d1, d2, rx, ry. split; auto. split; auto.
  assert (R2' : reaches ds y ry) by (apply E1; auto).
  split.
  - rewrite <- S by auto. split.
    + intros ->. exists ry; auto.
    + intros [r [A B]]. rewrite (reaches_fun _ _ _ _ R1 A), (reaches_fun _ _ _ _ R2' B); auto.
  - pose proof (equiv_trans _ _ _ E1 E2) as E.
    split; [eapply equiv_WF; eauto|]. split; [destruct E; lia|].
    intros a b Ha Hb. rewrite <- (equiv_same _ _ _ _ E). apply S; auto.
Qed.

(* lookups never change the partition *)
Theorem find_preserves_partition ds x ds' r : WF ds -> find ds x = Some (ds', r) ->
  length ds' = length ds /\ WF ds' /\ forall a b, same ds a b <-> same ds' a b.
Proof.
  intros W F.
  destruct (Nat.lt_ge_cases x (length ds)) as [Hx|Hx].
  - destruct (find_spec ds x W Hx) as (d' & r' & F' & R & E). rewrite F in F'.
    inversion F'; subst. split; [destruct E; lia|]. split; [eapply equiv_WF; eauto|].
    intros; apply equiv_same; auto.
  - rewrite find_panics_out_of_range in F by lia. discriminate.
Qed.
