(* Model of /repo/disjoint/disjoint_set.go (definitions only; proofs are in Proofs.v).

   disjoint.Set is a []int: entry i is either negative (i is a root, the value is -(rank+1))
   or the index of i's parent.  The model is at array level: one Coq list for the slice.
   [None] stands for a Go panic (index out of range) or for exhausted fuel; the theorems show
   that neither happens on valid indices. *)
From Coq Require Import List ZArith Lia Arith Bool.
Import ListNotations.
Open Scope Z_scope.

Definition dset := list Z.

Definition get (ds : dset) (i : nat) : Z := nth i ds (-1).

Fixpoint upd {A} (l : list A) (i : nat) (v : A) : list A :=
  match l, i with
  | [], _ => []
  | _ :: t, O => v :: t
  | h :: t, S j => h :: upd t j v
  end.

Definition new (n : nat) : dset := repeat (-1) n.

(* The loop of Find: starting at [cur], collect the visited elements (seenNumbers) up to and
   including the root. *)
Fixpoint walk (fuel : nat) (ds : dset) (cur : nat) : option (list nat) :=
  match fuel with
  | O => None
  | S f =>
    if (length ds <=? cur)%nat then None else
    let p := get ds cur in
    if p <? 0 then Some [cur]
    else match walk f ds (Z.to_nat p) with
         | Some l => Some (cur :: l)
         | None => None
         end
  end.

(* for i := 0; i < len(seenNumbers)-2; i++ { ds[seenNumbers[i]] = tmp } *)
Definition compress (ds : dset) (seen : list nat) (root : nat) : dset :=
  fold_left (fun d s => upd d s (Z.of_nat root)) (firstn (length seen - 2) seen) ds.

(* Find and FindBuffered (identical but for where seenNumbers is stored). *)
Definition find (ds : dset) (x : nat) : option (dset * nat) :=
  match walk (S (length ds)) ds x with
  | None => None
  | Some seen => let r := last seen x in Some (compress ds seen r, r)
  end.

(* Union and UnionBuffered: union by rank, rank r stored as -(r+1). *)
Definition union (ds : dset) (x y : nat) : option dset :=
  match find ds x with
  | None => None
  | Some (ds1, px) =>
    match find ds1 y with
    | None => None
    | Some (ds2, py) =>
      if (px =? py)%nat then Some ds2
      else if get ds2 px <? get ds2 py then Some (upd ds2 py (Z.of_nat px))
      else if get ds2 py <? get ds2 px then Some (upd ds2 px (Z.of_nat py))
      else Some (upd (upd ds2 px (Z.of_nat py)) py (get ds2 py - 1))
    end
  end.

Inductive op := OFind (x : nat) | OFindB (x : nat) | OUnion (x y : nat) | OUnionB (x y : nat).

Definition step (ds : dset) (o : op) : option dset :=
  match o with
  | OFind x | OFindB x => match find ds x with Some (d, _) => Some d | None => None end
  | OUnion x y | OUnionB x y => union ds x y
  end.

Fixpoint run_from (ds : dset) (ops : list op) : option dset :=
  match ops with
  | [] => Some ds
  | o :: rest => match step ds o with Some d => run_from d rest | None => None end
  end.

Definition run (n : nat) (ops : list op) : option dset := run_from (new n) ops.

(* ---- Sets(): for i := range ds { for j := range sets { if Find(i) == Find(sets[j][0]) ... } }
   Every Find may compress, so the array is threaded through. *)
Fixpoint place (ds : dset) (i : nat) (sets : list (list nat)) : option (dset * list (list nat)) :=
  match sets with
  | [] => Some (ds, [[i]])
  | s :: rest =>
    match find ds i with
    | None => None
    | Some (d1, ri) =>
      match find d1 (hd 0%nat s) with
      | None => None
      | Some (d2, rs) =>
        if (ri =? rs)%nat then Some (d2, (s ++ [i]) :: rest)
        else match place d2 i rest with
             | Some (d3, rest') => Some (d3, s :: rest')
             | None => None
             end
      end
    end
  end.

Fixpoint sets_loop (ds : dset) (is : list nat) (sets : list (list nat)) : option (dset * list (list nat)) :=
  match is with
  | [] => Some (ds, sets)
  | i :: rest => match place ds i sets with
                 | Some (d, s') => sets_loop d rest s'
                 | None => None
                 end
  end.

Definition sets (ds : dset) : option (dset * list (list nat)) :=
  sets_loop ds (seq 0 (length ds)) [].

(* ---- SmallestRep(): sr[i] = sr[j] for the first j < i with Find(i) == Find(j), else i. *)
Fixpoint sr_scan (ds : dset) (i : nat) (js : list nat) (sr : list nat) : option (dset * nat) :=
  match js with
  | [] => Some (ds, i)
  | j :: rest =>
    match find ds i with
    | None => None
    | Some (d1, ri) =>
      match find d1 j with
      | None => None
      | Some (d2, rj) =>
        if (ri =? rj)%nat then Some (d2, nth j sr 0%nat) else sr_scan d2 i rest sr
      end
    end
  end.

Fixpoint sr_loop (ds : dset) (is : list nat) (sr : list nat) : option (dset * list nat) :=
  match is with
  | [] => Some (ds, sr)
  | i :: rest => match sr_scan ds i (seq 0 i) sr with
                 | Some (d, v) => sr_loop d rest (sr ++ [v])
                 | None => None
                 end
  end.

Definition smallest_rep (ds : dset) : option (dset * list nat) :=
  sr_loop ds (seq 0 (length ds)) [].

(* ---- Roots(): the indices holding a negative value. *)
Fixpoint roots_from (i : nat) (ds : dset) : list nat :=
  match ds with
  | [] => []
  | v :: t => if v <? 0 then i :: roots_from (S i) t else roots_from (S i) t
  end.
Definition roots (ds : dset) : list nat := roots_from 0 ds.
