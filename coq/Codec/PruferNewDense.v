(* NewDense(n, edges) on the triangle bytes of a simple graph g is the DenseGraph equal to g. *)
From Coq Require Import List ZArith Bool Arith Lia.
From Mamba Require Import Codec.PruferMulticodeBase Codec.PruferMulticodeFacts Codec.PruferModel
  Codec.MulticodeProofs.
Import ListNotations.

Definition cellidx (p : nat * nat) : nat := tri (snd p) + fst p.

Lemma all_cells_S n : all_cells (S n) = all_cells n ++ map (fun i => (i, n)) (seq 0 n).
Proof. unfold all_cells. rewrite seq_S, flat_map_app. simpl. rewrite app_nil_r. reflexivity. Qed.

Lemma map_add_seq a n : map (fun i => a + i) (seq 0 n) = seq a n.
Proof.
  induction n as [|n IH]; auto. rewrite !seq_S, map_app, IH. simpl. reflexivity.
Qed.

Lemma cellidx_all_cells n : map cellidx (all_cells n) = seq 0 (tri n).
Proof.
  induction n as [|n IH]; [rewrite tri_0; reflexivity|].
  rewrite all_cells_S, map_app, IH, map_map, tri_S, seq_app. f_equal.
  unfold cellidx. cbn [fst snd]. apply map_add_seq.
Qed.

Lemma NoDup_all_cells n : NoDup (all_cells n).
Proof. apply (NoDup_map_inv cellidx). rewrite cellidx_all_cells. apply seq_NoDup. Qed.

Lemma in_all_cells n i j : In (i, j) (all_cells n) <-> i < j /\ j < n.
Proof.
  unfold all_cells. rewrite in_flat_map. split.
  - intros (b & Hb & Hin). apply in_map_iff in Hin. destruct Hin as (a & E & Ha).
    inversion E; subst. apply in_seq in Hb, Ha. lia.
  - intros [H1 H2]. exists j. split; [apply in_seq; lia|]. apply in_map_iff. exists i.
    split; auto. apply in_seq. lia.
Qed.

Lemma tri_bits_cells g : tri_bits g = map (fun p => gadj g (fst p) (snd p)) (all_cells (gn g)).
Proof.
  unfold tri_bits, all_cells. induction (seq 0 (gn g)) as [|j l IH]; auto.
  cbn [flat_map]. rewrite map_app, IH, map_map. reflexivity.
Qed.

Section ND.
Variable g : graph.
Hypothesis g_simple : simple g.
Let n := gn g.
Let adjp (p : nat * nat) : bool := gadj g (fst p) (snd p).

Lemma nd_fold : forall C done m deg,
  all_cells n = done ++ C -> length deg = n ->
  exists deg',
    fold_res (nd_cell (tri_bits g)) C (length done, m, deg) =
      Ok (length done + length C, (m + Z.of_nat (length (filter adjp C)))%Z, deg') /\
    length deg' = n /\
    forall v, nth v deg' 0%Z = (nth v deg 0 + cnt v (filter adjp C))%Z.
Proof.
  induction C as [|[i j] C IH]; intros done m deg E Ld.
  - exists deg. cbn. rewrite Nat.add_0_r, Z.add_0_r. repeat split; auto. intros; lia.
  - assert (Hij : i < j /\ j < n).
    { apply in_all_cells. rewrite E. apply in_or_app. right. left. auto. }
    assert (G : get (tri_bits g) (length done) = Ok (gadj g i j)).
    { rewrite (get_ok _ _ false).
      - rewrite tri_bits_cells. fold n. rewrite E.
        rewrite (nth_indep _ false (adjp (0, 0))).
        + rewrite map_nth. rewrite app_nth2, Nat.sub_diag by lia. reflexivity.
        + rewrite map_length, app_length. simpl. lia.
      - rewrite length_tri_bits. fold n. rewrite <- (seq_length (tri n) 0), <- cellidx_all_cells, map_length, E, app_length.
        simpl. lia. }
    cbn [fold_res nd_cell]. rewrite G. cbn [bind].
    assert (E' : all_cells n = (done ++ [(i, j)]) ++ C) by (rewrite <- app_assoc; auto).
    cbn [filter]. change (adjp (i, j)) with (gadj g i j).
    destruct (gadj g i j) eqn:A.
    + rewrite add_at_ok by lia. cbn [bind]. rewrite add_at_ok by (rewrite upd_length; lia). cbn [bind].
      destruct (IH (done ++ [(i, j)]) (m + 1)%Z
                   (upd (upd deg i (nth i deg 0 + 1)%Z) j (nth j (upd deg i (nth i deg 0 + 1)%Z) 0 + 1)%Z) E')
        as (deg' & F & L & D).
      { rewrite !upd_length; auto. }
      rewrite app_length in F. cbn [length] in F. rewrite Nat.add_1_r in F.
      exists deg'. rewrite F. split; [do 3 f_equal; cbn [length]; lia|].
      split; auto. intros v. rewrite D. cbn [cnt].
      rewrite nth_upd by (rewrite upd_length; lia).
      rewrite !(nth_upd deg i) by lia.
      destruct (Nat.eqb_spec j i); [lia|].
      rewrite (Nat.eqb_sym v j), (Nat.eqb_sym v i).
      destruct (Nat.eqb_spec j v), (Nat.eqb_spec i v); subst; lia.
    + cbn [bind]. destruct (IH (done ++ [(i, j)]) m deg E' Ld) as (deg' & F & L & D).
      rewrite app_length in F. cbn [length] in F. rewrite Nat.add_1_r in F.
      exists deg'. rewrite F. split; [do 3 f_equal; cbn [length]; lia|]. auto.
Qed.

Theorem new_dense_ok : new_dense n (tri_bits g) = Ok (dense_of g).
Proof.
  unfold new_dense. rewrite length_tri_bits. fold n. rewrite Nat.eqb_refl. cbn [negb].
  destruct (nd_fold (all_cells n) [] 0%Z (repeat 0%Z n) eq_refl (repeat_length _ _)) as (deg' & F & L & D).
  cbn [length] in F. rewrite F. cbn [bind]. unfold dense_of. fold n.
  set (EL := filter adjp (all_cells n)) in *.
  assert (NE : NoDup EL) by (apply NoDup_filter', NoDup_all_cells).
  assert (HE : forall i j, In (i, j) EL <-> i < j /\ j < gn g /\ gadj g i j = true).
  { intros i j. unfold EL. rewrite filter_In, in_all_cells. unfold adjp. cbn [fst snd]. fold n. tauto. }
  f_equal. f_equal.
  - (* m *)
    unfold gm. rewrite Z.add_0_l. f_equal. apply NoDup_same_length; auto; [apply NoDup_pairs_up|].
    intros [i j]. rewrite HE, in_pairs_up. tauto.
  - (* degrees *)
    apply (nth_ext _ _ 0%Z 0%Z).
    + unfold degrees. rewrite L, map_length, seq_length. reflexivity.
    + intros v Hv. rewrite L in Hv. rewrite D, nth_repeat' by auto.
      rewrite (cnt_edge_list g EL v) by auto.
      unfold degrees. rewrite (nth_indep _ 0%Z (degree g 0)) by (rewrite map_length, seq_length; auto).
      rewrite map_nth, seq_nth by auto. reflexivity.
Qed.

End ND.

(* the triangle bytes of the graph read off a bit vector are that bit vector *)
Lemma tri_bits_graph_of_bits n b : length b = tri n -> tri_bits (graph_of_bits n b) = b.
Proof.
  intros H. apply (nth_ext _ _ false false).
  - rewrite length_tri_bits. cbn. auto.
  - intros k Hk. rewrite length_tri_bits in Hk. cbn [gn graph_of_bits] in Hk.
    destruct (tri_cell _ _ Hk) as (i & j & Hij & Hj & ->).
    rewrite nth_tri_bits by (cbn; auto). cbn [gadj graph_of_bits]. unfold bits_adj.
    destruct (Nat.ltb_spec i n); [|lia]. destruct (Nat.ltb_spec j n); [|lia].
    destruct (Nat.ltb_spec i j); [|lia]. reflexivity.
Qed.
