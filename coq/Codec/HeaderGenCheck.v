(* The regeneration tie for the size headers of graph6 / sparse6 (C07, C08).

   Gen/SizeHeaders.v is re-extracted from graph/encoding.go by tools/gotrans/headers.go on every
   run of ./check.  The four lemmas [*_header_regenerated] below are the obligations that run on
   the regenerated tables: each is closed by [vm_compute] of a proved decision procedure
   (HeaderGenEnc.check_branches / HeaderGenDec.check_dtree).  They break when the header code in
   today's source computes something else than the proved model (Codec/Model.v: enc_size,
   dec_size) for SOME n / some string -- a changed bound (258047 -> 258048), a wrong shift in the
   8-byte branch that no test can execute for graph6, a shift moved inside the byte conversion --
   and they keep holding under re-phrasings that compute the same values on the branch's range.
   From them the theorems at the end follow for ALL n >= 0 and ALL strings of bytes in 63..126. *)
From Coq Require Import List ZArith Bool Lia.
From Mamba Require Import Codec.Model Codec.G6Header Codec.HeaderGenSyntax Codec.HeaderGenEnc
  Codec.HeaderGenDec Codec.HeaderGenExpected Gen.SizeHeaders.
Import ListNotations.
Open Scope Z_scope.

Definition check_echain (c : echain) (xs : list xbranch) : bool :=
  negb translation_failed_headers && ec_else_panic c && check_branches (ec_br c) xs.

Definition check_dec (t : dtree) (x : xtree) : bool :=
  negb translation_failed_headers && check_dtree t x.

(* ------------------------------------------------------------------ the obligations *)
Lemma graph6_encode_header_regenerated : check_echain graph6_encode_chain x_g6 = true.
Proof. vm_compute. reflexivity. Qed.

Lemma sparse6_encode_header_regenerated : check_echain sparse6_encode_chain x_s6 = true.
Proof. vm_compute. reflexivity. Qed.

Lemma graph6_decode_header_regenerated : check_dec graph6_decode_tree (x_dec true) = true.
Proof. vm_compute. reflexivity. Qed.

Lemma sparse6_decode_header_regenerated : check_dec sparse6_decode_tree (x_dec false) = true.
Proof. vm_compute. reflexivity. Qed.

(* ------------------------------------------------------------------ what they give *)
Lemma check_echain_sound : forall c xs, check_echain c xs = true ->
  forall n, 0 <= n -> eval_echain c n = eval_xbranches n xs.
Proof.
  intros c xs H n Hn. unfold check_echain in H.
  apply andb_true_iff in H as [H H2]. apply andb_true_iff in H as [_ H1].
  unfold eval_echain. rewrite H1. apply check_branches_sound; assumption.
Qed.

Lemma check_dec_sound : forall t x, check_dec t x = true ->
  forall s, Forall inr s -> eval_dtree s t = eval_xtree s x.
Proof.
  intros t x H. unfold check_dec in H. apply andb_true_iff in H as [_ H].
  apply check_dtree_sound. exact H.
Qed.

(* today's Graph6Encode / Sparse6Encode header chain = the model's, for every n >= 0 *)
Theorem graph6_encode_header_is_model : forall n, 0 <= n ->
  eval_echain graph6_encode_chain n = model_g6_hdr n.
Proof.
  intros n Hn. rewrite (check_echain_sound _ _ graph6_encode_header_regenerated n Hn).
  apply (x_enc_model n Hn).
Qed.

Theorem sparse6_encode_header_is_model : forall n, 0 <= n ->
  eval_echain sparse6_encode_chain n = model_s6_hdr n.
Proof.
  intros n Hn. rewrite (check_echain_sound _ _ sparse6_encode_header_regenerated n Hn).
  apply (x_enc_model n Hn).
Qed.

(* today's Graph6Decode / Sparse6Decode header tree = dec_size, on every in-range string *)
Theorem graph6_decode_header_is_model : forall s, Forall inr s ->
  eval_dtree s graph6_decode_tree = dec_size true s.
Proof.
  intros s Hs. rewrite (check_dec_sound _ _ graph6_decode_header_regenerated s Hs).
  apply x_dec_model. exact Hs.
Qed.

Theorem sparse6_decode_header_is_model : forall s, Forall inr s ->
  eval_dtree s sparse6_decode_tree = dec_size false s.
Proof.
  intros s Hs. rewrite (check_dec_sound _ _ sparse6_decode_header_regenerated s Hs).
  apply x_dec_model. exact Hs.
Qed.

(* the models of the four functions with the regenerated header code in the place of
   enc_size / dec_size are the models the theorems of C07 / C08 are about *)
Theorem graph6_encode_regenerated : forall g,
  graph6_encode g = graph6_encode_from (eval_echain graph6_encode_chain) g.
Proof.
  intros g. rewrite graph6_encode_from_model. unfold graph6_encode_from.
  rewrite graph6_encode_header_is_model by lia. reflexivity.
Qed.

Theorem sparse6_encode_regenerated : forall g,
  sparse6_encode g = sparse6_encode_from (eval_echain sparse6_encode_chain) g.
Proof.
  intros g. rewrite sparse6_encode_from_model. unfold sparse6_encode_from.
  rewrite sparse6_encode_header_is_model by lia. reflexivity.
Qed.

Theorem graph6_decode_regenerated : forall s0,
  graph6_decode s0 = graph6_decode_from (fun s => eval_dtree s graph6_decode_tree) s0.
Proof.
  intros s0. rewrite graph6_decode_from_model. apply graph6_decode_from_ext.
  intros s Hs. symmetry. apply graph6_decode_header_is_model. exact Hs.
Qed.

Theorem sparse6_decode_regenerated : forall s0,
  sparse6_decode s0 = sparse6_decode_from (fun s => eval_dtree s sparse6_decode_tree) s0.
Proof.
  intros s0. rewrite sparse6_decode_from_model. apply sparse6_decode_from_ext.
  intros s Hs. symmetry. apply sparse6_decode_header_is_model. exact Hs.
Qed.

(* the header round trip on today's source: what the regenerated encoder chain writes for n,
   followed by anything in range, the regenerated decoder tree reads back as (n, header length) *)
Theorem header_roundtrip_regenerated : forall n rest, 2 <= n <= 68719476735 ->
  Forall inr rest ->
  exists h,
    eval_echain graph6_encode_chain n = OHdr h /\
    eval_echain sparse6_encode_chain n = OHdr (58 :: h) /\
    h = Spec.spec_N n /\
    eval_dtree (h ++ rest) sparse6_decode_tree = Ok (n, hdr_len n) /\
    (n <= 4294967296 -> eval_dtree (h ++ rest) graph6_decode_tree = Ok (n, hdr_len n)).
Proof.
  intros n rest Hn Hr. exists (Spec.spec_N n).
  rewrite graph6_encode_header_is_model, sparse6_encode_header_is_model by lia.
  unfold model_g6_hdr, model_s6_hdr. destruct (Z.leb_spec n 1); [lia|].
  rewrite enc_size_spec by lia.
  assert (Hall : Forall inr (Spec.spec_N n ++ rest)).
  { apply Forall_app. split; [apply spec_N_range; lia|exact Hr]. }
  repeat split.
  - rewrite sparse6_decode_header_is_model by exact Hall.
    apply dec_size_spec_N; [lia|discriminate|exact Hr].
  - intros Hle. rewrite graph6_decode_header_is_model by exact Hall.
    apply dec_size_spec_N; [lia|intros _; exact Hle|exact Hr].
Qed.
