(* Labelled trees by leaf elimination, and the Pruefer correspondence on the level of vertex
   sets (lists without repetition) and adjacency predicates.

   [ltree adj V]: the subgraph of [adj] induced on the vertex list V is a tree -- a single
   vertex, or some vertex l of V with exactly one neighbour in V such that the induced subgraph
   on V without l is a tree.  PruferConnected.v relates this to "connected with |V|-1 edges".

   [dec V c] is the edge list the Pruefer decoding produces on the live vertices V, [enc adj k V]
   the code the encoding produces in k steps.  The two main results:
     dec_enc : on the graph of dec V c the encoding gives back c (and that graph is a tree);
     enc_dec : on a tree, the decoding of the encoding gives back the adjacency. *)
From Coq Require Import List Bool Arith Lia.
Import ListNotations.

(* ------------------------------------------------------------------ removing a vertex *)
Definition rem (l : nat) (V : list nat) : list nat := filter (fun x => negb (x =? l)) V.
Definition mem (v : nat) (c : list nat) : bool := existsb (Nat.eqb v) c.
Definition countn (v : nat) (c : list nat) : nat := length (filter (Nat.eqb v) c).

Lemma In_rem x l V : In x (rem l V) <-> In x V /\ x <> l.
Proof.
  unfold rem. rewrite filter_In. destruct (Nat.eqb_spec x l); simpl; intuition congruence.
Qed.

Lemma NoDup_filter'' {A} (f : A -> bool) l : NoDup l -> NoDup (filter f l).
Proof.
  induction 1 as [|a l Hn N IH]; simpl; [constructor|].
  destruct (f a); auto. constructor; auto. intros H; apply filter_In in H; tauto.
Qed.

Lemma NoDup_rem l V : NoDup V -> NoDup (rem l V).
Proof. apply NoDup_filter''. Qed.

Lemma filter_split_rem (P : nat -> bool) l V :
  NoDup V -> In l V ->
  length (filter P V) = (if P l then 1 else 0) + length (filter P (rem l V)).
Proof.
  induction 1 as [|a V Hn N IH]; intros Hin; [destruct Hin|].
  cbn [rem filter]. destruct (Nat.eqb_spec a l) as [->|Hne]; cbn [negb].
  - assert (E : filter (fun x => negb (x =? l)) V = V).
    { clear IH N Hin. induction V as [|b V IHV]; auto. cbn [filter].
      destruct (Nat.eqb_spec b l) as [->|_]; [exfalso; apply Hn; left; auto|].
      cbn [negb]. rewrite IHV; auto. intros H; apply Hn; right; auto. }
    rewrite E. destruct (P l); reflexivity.
  - destruct Hin as [?|Hin]; [congruence|].
    specialize (IH Hin). unfold rem in IH. cbn [filter].
    destruct (P a); cbn [length]; lia.
Qed.

Lemma length_rem l V : NoDup V -> In l V -> 1 + length (rem l V) = length V.
Proof.
  intros N H. pose proof (filter_split_rem (fun _ => true) l V N H) as E.
  assert (F : forall L : list nat, filter (fun _ => true) L = L).
  { induction L; simpl; congruence. }
  rewrite !F in E. lia.
Qed.

Lemma rem_comm a b V : rem a (rem b V) = rem b (rem a V).
Proof.
  unfold rem. induction V as [|x V IH]; auto. cbn [filter].
  destruct (negb (x =? b)) eqn:Eb, (negb (x =? a)) eqn:Ea; cbn [filter]; rewrite ?Eb, ?Ea, IH; auto.
Qed.

Lemma mem_In v c : mem v c = true <-> In v c.
Proof.
  unfold mem. rewrite existsb_exists. split.
  - intros (x & H & E). apply Nat.eqb_eq in E. subst; auto.
  - intros H. exists v. split; auto. apply Nat.eqb_refl.
Qed.

Lemma countn_0 v c : countn v c = 0 <-> ~ In v c.
Proof.
  unfold countn. induction c as [|a c IH]; simpl; [tauto|].
  destruct (Nat.eqb_spec v a) as [->|Hne]; simpl.
  - split; [lia|]. intros H; exfalso; apply H; auto.
  - rewrite IH. intuition congruence.
Qed.

Lemma countn_cons v a c : countn v (a :: c) = (if v =? a then 1 else 0) + countn v c.
Proof. unfold countn. simpl. destruct (v =? a); reflexivity. Qed.

Lemma filter_none {A} (P : A -> bool) L : (forall x, In x L -> P x = false) -> filter P L = [].
Proof.
  induction L as [|a L IH]; intros H; simpl; auto.
  rewrite (H a (or_introl eq_refl)). apply IH. intros; apply H; right; auto.
Qed.

Lemma filter_eq_one u V : NoDup V -> In u V -> length (filter (Nat.eqb u) V) = 1.
Proof.
  intros N H. rewrite (filter_split_rem _ u V N H), Nat.eqb_refl.
  rewrite filter_none; auto.
  intros x Hx. apply In_rem in Hx. apply Nat.eqb_neq. intuition.
Qed.

(* ------------------------------------------------------------------ trees by leaf elimination *)
Section Tree.
Variable adj : nat -> nat -> bool.
Hypothesis adj_sym : forall x y, adj x y = adj y x.
Hypothesis adj_irr : forall x, adj x x = false.

(* the degree of v inside the vertex list V *)
Definition degS (V : list nat) (v : nat) : nat := length (filter (adj v) V).

Inductive ltree : list nat -> Prop :=
| lt_one v : ltree [v]
| lt_leaf V l u :
    In l V -> In u V -> adj l u = true -> degS V l = 1 -> ltree (rem l V) -> ltree V.

Lemma deg_rem V l v : NoDup V -> In l V ->
  degS V v = (if adj v l then 1 else 0) + degS (rem l V) v.
Proof. intros. unfold degS. apply filter_split_rem; auto. Qed.

(* a vertex of degree 1 has exactly one neighbour *)
Lemma leaf_unique V l u x :
  degS V l = 1 -> In u V -> adj l u = true -> In x V -> adj l x = true -> x = u.
Proof.
  unfold degS. intros H Hu Au Hx Ax.
  destruct (filter (adj l) V) as [|w [|w' r]] eqn:E; simpl in H; try lia.
  assert (In u [w]) by (rewrite <- E; apply filter_In; auto).
  assert (In x [w]) by (rewrite <- E; apply filter_In; auto).
  simpl in *. intuition congruence.
Qed.

Lemma leaf_has_nbr V l : degS V l = 1 -> exists u, In u V /\ adj l u = true.
Proof.
  unfold degS. intros H.
  destruct (filter (adj l) V) as [|w r] eqn:E; simpl in H; try lia.
  assert (Hw : In w (filter (adj l) V)) by (rewrite E; left; auto).
  apply filter_In in Hw. exists w. auto.
Qed.

Lemma length1 (V : list nat) x : length V = 1 -> In x V -> V = [x].
Proof. destruct V as [|a [|b r]]; simpl; intros H Hx; try lia. intuition congruence. Qed.

(* in a tree with at least two vertices every vertex has a neighbour *)
Lemma ltree_deg_pos V : ltree V -> NoDup V -> length V >= 2 -> forall v, In v V -> degS V v >= 1.
Proof.
  induction 1 as [v0|V l u Hl Hu Alu Dl T IH]; intros N Hlen v Hv; [simpl in Hlen; lia|].
  destruct (Nat.eq_dec v l) as [->|Hne]; [lia|].
  pose proof (length_rem l V N Hl) as HL.
  rewrite (deg_rem V l v N Hl).
  destruct (Nat.eq_dec (length (rem l V)) 1) as [E1|N1].
  - (* rem l V = [v], so v = u *)
    assert (Hv' : In v (rem l V)) by (apply In_rem; auto).
    assert (Hu' : In u (rem l V)).
    { apply In_rem. split; auto. intros ->. rewrite adj_irr in Alu. discriminate. }
    rewrite (length1 _ v E1 Hv') in Hu'. destruct Hu' as [<-|[]].
    rewrite adj_sym, Alu. lia.
  - assert (degS (rem l V) v >= 1); [|lia].
    apply IH; [apply NoDup_rem; auto|lia|apply In_rem; auto].
Qed.

(* removing any leaf of a tree leaves a tree *)
Lemma ltree_rem_leaf V : ltree V -> NoDup V -> length V >= 2 ->
  forall l, In l V -> degS V l = 1 -> ltree (rem l V).
Proof.
  induction 1 as [v0|V x y Hx Hy Axy Dx T IH]; intros N Hlen l Hl Dl; [simpl in Hlen; lia|].
  destruct (Nat.eq_dec l x) as [->|Hne]; auto.
  pose proof (length_rem x V N Hx) as HL.
  assert (Hxy : x <> y) by (intros ->; rewrite adj_irr in Axy; discriminate).
  assert (Hl' : In l (rem x V)) by (apply In_rem; auto).
  assert (Hy' : In y (rem x V)) by (apply In_rem; auto).
  destruct (Nat.eq_dec (length (rem x V)) 1) as [E1|N1].
  - (* V = {x, y}, l = y: what is left is the single vertex x *)
    rewrite (length1 _ l E1 Hl') in Hy'. destruct Hy' as [<-|[]].
    assert (E : rem l V = [x]).
    { apply length1.
      - pose proof (length_rem l V N Hl). lia.
      - apply In_rem; auto. }
    rewrite E. constructor.
  - (* l is not adjacent to x, so it is a leaf of the smaller tree *)
    assert (Alx : adj l x = false).
    { destruct (adj l x) eqn:A; auto. exfalso.
      assert (l = y) by (apply (leaf_unique V x y l); auto; rewrite adj_sym; auto). subst l.
      pose proof (ltree_deg_pos _ T (NoDup_rem x V N) ltac:(lia) y Hy') as P.
      rewrite (deg_rem V x y N Hx), A in Dl. lia. }
    assert (Dl' : degS (rem x V) l = 1) by (rewrite (deg_rem V x l N Hx), Alx in Dl; lia).
    assert (Hly : l <> y) by (intros ->; rewrite adj_sym, Axy in Alx; discriminate).
    apply (lt_leaf (rem l V) x y).
    + apply In_rem; auto.
    + apply In_rem; auto.
    + auto.
    + pose proof (deg_rem V l x N Hl) as D. rewrite adj_sym, Alx in D. lia.
    + rewrite rem_comm. apply IH; auto; [apply NoDup_rem; auto|lia].
Qed.

(* a tree with at least two vertices has two leaves *)
Lemma ltree_two_leaves V : ltree V -> NoDup V -> length V >= 2 ->
  exists a b, In a V /\ In b V /\ a <> b /\ degS V a = 1 /\ degS V b = 1.
Proof.
  induction 1 as [v0|V x y Hx Hy Axy Dx T IH]; intros N Hlen; [simpl in Hlen; lia|].
  pose proof (length_rem x V N Hx) as HL.
  assert (Hxy : x <> y) by (intros ->; rewrite adj_irr in Axy; discriminate).
  assert (Hy' : In y (rem x V)) by (apply In_rem; auto).
  destruct (Nat.eq_dec (length (rem x V)) 1) as [E1|N1].
  - exists x, y. repeat split; auto.
    rewrite (deg_rem V x y N Hx), adj_sym, Axy.
    rewrite (length1 _ y E1 Hy'). unfold degS. simpl. rewrite adj_irr. reflexivity.
  - destruct (IH (NoDup_rem x V N) ltac:(lia)) as (a & b & Ha & Hb & Hab & Da & Db).
    assert (G : forall c, In c (rem x V) -> degS (rem x V) c = 1 -> c <> y ->
                          In c V /\ x <> c /\ degS V c = 1).
    { intros c Hc Dc Hcy. apply In_rem in Hc. destruct Hc as [Hc Hcx]. repeat split; auto.
      rewrite (deg_rem V x c N Hx). destruct (adj c x) eqn:A; [|lia].
      exfalso. apply Hcy. apply (leaf_unique V x y c); auto. rewrite adj_sym; auto. }
    destruct (Nat.eq_dec a y) as [->|Hay].
    + destruct (G b Hb Db ltac:(congruence)) as (H1 & H2 & H3). exists x, b. auto.
    + destruct (G a Ha Da Hay) as (H1 & H2 & H3). exists x, a. auto.
Qed.

End Tree.

(* ------------------------------------------------------------------ decoding and encoding on vertex lists *)
(* the first live vertex that does not occur in the rest of the code *)
Definition first_free (V c : list nat) : option nat := find (fun v => negb (mem v c)) V.

(* the edges PruferDecode produces: (leaf, code element) for every code element, then the edge
   between the two live vertices that are left *)
Fixpoint dec (V : list nat) (c : list nat) : list (nat * nat) :=
  match c with
  | [] => match V with a :: b :: _ => [(a, b)] | _ => [] end
  | u :: c' =>
    match first_free V c with
    | Some l => (l, u) :: dec (rem l V) c'
    | None => dec V c'
    end
  end.

(* adjacency in the graph with edge list E *)
Definition adjL (E : list (nat * nat)) (x y : nat) : bool :=
  existsb (fun p => (fst p =? x) && (snd p =? y) || (fst p =? y) && (snd p =? x)) E.

Definition first_leafS (adj : nat -> nat -> bool) (V : list nat) : option nat :=
  find (fun v => degS adj V v =? 1) V.

(* k steps of PruferEncode on the live vertices V *)
Fixpoint enc (adj : nat -> nat -> bool) (k : nat) (V : list nat) : list nat :=
  match k with
  | 0 => []
  | S k' =>
    match first_leafS adj V with
    | Some l =>
      match find (fun u => adj u l) V with
      | Some u => u :: enc adj k' (rem l V)
      | None => enc adj k' (rem l V)
      end
    | None => enc adj k' V
    end
  end.

Lemma adjL_sym E x y : adjL E x y = adjL E y x.
Proof. unfold adjL. induction E as [|p E IH]; simpl; auto. rewrite IH. f_equal. apply orb_comm. Qed.

Lemma adjL_cons a b E x y :
  adjL ((a, b) :: E) x y = ((a =? x) && (b =? y) || (a =? y) && (b =? x)) || adjL E x y.
Proof. reflexivity. Qed.

Lemma adjL_out E x y : (forall a b, In (a, b) E -> a <> x /\ b <> x) -> adjL E x y = false.
Proof.
  intros H. unfold adjL. apply not_true_is_false. intros T. apply existsb_exists in T.
  destruct T as ([a b] & Hin & T). destruct (H a b Hin) as [H1 H2]. cbn [fst snd] in T.
  apply Nat.eqb_neq in H1, H2. rewrite H1, H2, !andb_false_r, !andb_false_l in T. discriminate.
Qed.

Lemma find_ext_in {A} (P Q : A -> bool) l : (forall x, In x l -> P x = Q x) -> find P l = find Q l.
Proof.
  induction l as [|a l IH]; intros H; simpl; auto.
  rewrite (H a (or_introl eq_refl)), IH; auto. intros; apply H; right; auto.
Qed.

Lemma find_eqb u V : In u V -> find (Nat.eqb u) V = Some u.
Proof.
  induction V as [|a V IH]; intros H; [destruct H|]. simpl.
  destruct (Nat.eqb_spec u a) as [->|Hne]; auto. destruct H; [congruence|auto].
Qed.

Lemma first_free_exists V c : NoDup V -> length c < length V -> exists l, first_free V c = Some l.
Proof.
  intros N H. unfold first_free. destruct (find _ V) eqn:E; [eauto|]. exfalso.
  assert (incl V c).
  { intros x Hx. pose proof (find_none _ _ E x Hx) as F. apply negb_false_iff in F.
    apply mem_In; auto. }
  pose proof (NoDup_incl_length N H0). lia.
Qed.

Lemma dec_in : forall c V a b,
  (forall x, In x c -> In x V) -> In (a, b) (dec V c) -> In a V /\ In b V.
Proof.
  induction c as [|u c IH]; intros V a b Hc Hin.
  - destruct V as [|x [|y r]]; simpl in Hin; try tauto.
    destruct Hin as [E|[]]. inversion E; subst. simpl; auto.
  - cbn [dec] in Hin. destruct (first_free V (u :: c)) as [l|] eqn:F.
    + destruct Hin as [E|Hin].
      * inversion E; subst. apply find_some in F. split; [tauto|apply Hc; left; auto].
      * unfold first_free in F. apply find_some in F. destruct F as [Hl Fl].
        apply negb_true_iff in Fl.
        apply IH in Hin.
        -- rewrite !In_rem in Hin. tauto.
        -- intros x Hx. apply In_rem. split; [apply Hc; right; auto|].
           intros ->. assert (mem l (u :: c) = true) by (apply mem_In; right; auto). congruence.
    + apply IH in Hin; auto. intros; apply Hc; right; auto.
Qed.

(* On the graph of dec V c: it is a tree on V, the degree of v is 1 + the number of times v
   occurs in c, and the encoding gives c back. *)
Theorem dec_enc : forall c V adj,
  (forall x y, adj x y = adj y x) -> (forall x, adj x x = false) ->
  NoDup V -> length V = length c + 2 -> (forall x, In x c -> In x V) ->
  (forall x y, In x V -> In y V -> adj x y = adjL (dec V c) x y) ->
  ltree adj V /\ enc adj (length c) V = c /\ (forall v, In v V -> degS adj V v = 1 + countn v c).
Proof.
  induction c as [|u c IH]; intros V adj Hsym Hirr N Hlen Hc Hadj.
  - destruct V as [|a [|b [|? ?]]]; simpl in Hlen; try lia.
    assert (Hab : a <> b) by (inversion N; subst; simpl in *; intuition).
    assert (Aab : adj a b = true).
    { rewrite Hadj by (simpl; auto). cbn. rewrite !Nat.eqb_refl. reflexivity. }
    assert (Aba : adj b a = true) by (rewrite Hsym; auto).
    assert (Da : degS adj [a; b] a = 1) by (unfold degS; simpl; rewrite Hirr, Aab; reflexivity).
    assert (Db : degS adj [a; b] b = 1) by (unfold degS; simpl; rewrite Hirr, Aba; reflexivity).
    split; [|split].
    + apply (lt_leaf adj [a; b] a b); simpl; auto.
      unfold rem. simpl. rewrite Nat.eqb_refl. destruct (Nat.eqb_spec b a); [congruence|].
      simpl. constructor.
    + reflexivity.
    + intros v [<-|[<-|[]]]; auto.
  - destruct (first_free_exists V (u :: c) N ltac:(simpl in *; lia)) as [l F].
    cbn [dec] in Hadj. rewrite F in Hadj.
    pose proof F as F'. unfold first_free in F'. apply find_some in F'. destruct F' as [Hl Fl].
    apply negb_true_iff in Fl.
    assert (Hlc : ~ In l (u :: c)) by (intros H; apply mem_In in H; congruence).
    assert (Hu : In u V) by (apply Hc; left; auto).
    assert (Hlu : l <> u) by (intros ->; apply Hlc; left; auto).
    pose proof (length_rem l V N Hl) as HL.
    assert (Hc' : forall x, In x c -> In x (rem l V)).
    { intros x Hx. apply In_rem. split; [apply Hc; right; auto|]. intros ->. apply Hlc. right; auto. }
    assert (Hout : forall x, adjL (dec (rem l V) c) l x = false).
    { intros x. apply adjL_out. intros a b Hab. apply dec_in in Hab; auto.
      rewrite !In_rem in Hab. tauto. }
    destruct (IH (rem l V) adj Hsym Hirr (NoDup_rem l V N) ltac:(simpl in *; lia) Hc') as (T & E & D).
    { intros x y Hx Hy. apply In_rem in Hx, Hy. rewrite Hadj by tauto. rewrite adjL_cons.
      destruct (Nat.eqb_spec l x); [intuition congruence|]. destruct (Nat.eqb_spec l y); [intuition congruence|]. reflexivity. }
    (* the neighbours of l in V: only u *)
    assert (Al : forall x, In x V -> adj l x = (u =? x)).
    { intros x Hx. rewrite Hadj by auto. rewrite adjL_cons, Hout, Nat.eqb_refl, orb_false_r.
      destruct (Nat.eqb_spec u l); [congruence|]. rewrite andb_false_r, orb_false_r. reflexivity. }
    assert (Dl : degS adj V l = 1).
    { unfold degS. rewrite (filter_ext_in _ _ _ Al). apply filter_eq_one; auto. }
    assert (Dall : forall v, In v V -> degS adj V v = 1 + countn v (u :: c)).
    { intros v Hv. destruct (Nat.eq_dec v l) as [->|Hne].
      - rewrite Dl. assert (Z : countn l (u :: c) = 0) by (apply countn_0; auto). lia.
      - rewrite (deg_rem adj V l v N Hl), Hsym, (Al v Hv), D by (apply In_rem; auto).
        rewrite countn_cons, (Nat.eqb_sym v u). lia. }
    split; [|split]; auto.
    + apply (lt_leaf adj V l u); auto. rewrite Al by auto. apply Nat.eqb_refl.
    + cbn [length enc].
      assert (FL : first_leafS adj V = Some l).
      { unfold first_leafS. rewrite <- F. unfold first_free. apply find_ext_in.
        intros x Hx. rewrite (Dall x Hx).
        destruct (mem x (u :: c)) eqn:M.
        - apply mem_In in M. apply Nat.eqb_neq. intros Q.
          assert (countn x (u :: c) = 0) by lia. apply countn_0 in H. tauto.
        - apply Nat.eqb_eq. assert (countn x (u :: c) = 0); [|lia].
          apply countn_0. intros H. apply mem_In in H. congruence. }
      rewrite FL.
      rewrite (find_ext_in _ (Nat.eqb u) V) by (intros x Hx; rewrite Hsym; apply Al; auto).
      rewrite find_eqb by auto. rewrite E. reflexivity.
Qed.

(* On a tree: the code has the right length, stays inside V, v occurs degree - 1 times, and the
   decoding of the code has the adjacency of the tree. *)
Theorem enc_dec : forall k V adj,
  (forall x y, adj x y = adj y x) -> (forall x, adj x x = false) ->
  NoDup V -> length V = k + 2 -> ltree adj V ->
  (forall x, In x (enc adj k V) -> In x V) /\ length (enc adj k V) = k /\
  (forall v, In v V -> degS adj V v = 1 + countn v (enc adj k V)) /\
  (forall x y, In x V -> In y V -> adjL (dec V (enc adj k V)) x y = adj x y).
Proof.
  induction k as [|k IH]; intros V adj Hsym Hirr N Hlen T.
  - destruct V as [|a [|b [|? ?]]]; simpl in Hlen; try lia.
    assert (Hab : a <> b) by (inversion N; subst; simpl in *; intuition).
    assert (Aab : adj a b = true).
    { inversion T as [|V' l u Hl Hu Alu _ _]; subst.
      assert (l <> u) by (intros ->; rewrite Hirr in Alu; discriminate).
      simpl in Hl, Hu. destruct Hl as [<-|[<-|[]]], Hu as [<-|[<-|[]]]; try congruence;
        rewrite Hsym; auto. }
    assert (Aba : adj b a = true) by (rewrite Hsym; auto).
    cbn [enc dec]. repeat split; try (simpl; tauto).
    + intros v [<-|[<-|[]]]; unfold degS; simpl; rewrite ?Hirr, ?Aab, ?Aba; reflexivity.
    + intros x y [<-|[<-|[]]] [<-|[<-|[]]]; cbn; rewrite ?Nat.eqb_refl, ?Hirr, ?Aab, ?Aba;
        destruct (Nat.eqb_spec a b), (Nat.eqb_spec b a); try congruence; reflexivity.
  - (* a leaf exists, so the first leaf l exists; its neighbour u *)
    assert (exists l, first_leafS adj V = Some l) as [l FL].
    { unfold first_leafS. destruct (find _ V) eqn:E; [eauto|]. exfalso.
      inversion T as [v0 Hv0|V' x y Hx Hy Axy Dx _]; subst; [simpl in Hlen; lia|].
      pose proof (find_none _ _ E x Hx) as F. cbv beta in F. rewrite Dx in F. discriminate. }
    pose proof FL as FL'. unfold first_leafS in FL'. apply find_some in FL'.
    destruct FL' as [Hl Dl]. apply Nat.eqb_eq in Dl.
    destruct (leaf_has_nbr adj V l Dl) as (u & Hu & Alu).
    assert (Al : forall x, In x V -> adj l x = (u =? x)).
    { intros x Hx. destruct (Nat.eqb_spec u x) as [<-|Hne]; auto.
      destruct (adj l x) eqn:A; auto. exfalso. apply Hne. symmetry.
      apply (leaf_unique adj V l u x); auto. }
    assert (Hlu : l <> u) by (intros ->; rewrite Hirr in Alu; discriminate).
    pose proof (length_rem l V N Hl) as HL.
    assert (T' : ltree adj (rem l V)) by (apply ltree_rem_leaf; auto; lia).
    destruct (IH (rem l V) adj Hsym Hirr (NoDup_rem l V N) ltac:(lia) T') as (I1 & I2 & I3 & I4).
    assert (EQ : enc adj (S k) V = u :: enc adj k (rem l V)).
    { cbn [enc]. rewrite FL.
      rewrite (find_ext_in _ (Nat.eqb u) V) by (intros x Hx; rewrite Hsym; apply Al; auto).
      rewrite find_eqb by auto. reflexivity. }
    rewrite EQ. set (c := enc adj k (rem l V)) in *.
    assert (Hlc : ~ In l (u :: c)).
    { intros [E|H]; [congruence|]. apply I1 in H. apply In_rem in H. tauto. }
    assert (Dall : forall v, In v V -> degS adj V v = 1 + countn v (u :: c)).
    { intros v Hv. destruct (Nat.eq_dec v l) as [->|Hne].
      - rewrite Dl. assert (Z : countn l (u :: c) = 0) by (apply countn_0; auto). lia.
      - rewrite (deg_rem adj V l v N Hl), Hsym, (Al v Hv), I3 by (apply In_rem; auto).
        rewrite countn_cons, (Nat.eqb_sym v u). lia. }
    repeat split; auto.
    + intros x [<-|Hx]; auto. apply I1 in Hx. apply In_rem in Hx. tauto.
    + simpl. lia.
    + (* the decoder picks the same leaf *)
      assert (F : first_free V (u :: c) = Some l).
      { rewrite <- FL. unfold first_free, first_leafS. apply find_ext_in.
        intros x Hx. rewrite (Dall x Hx).
        destruct (mem x (u :: c)) eqn:M.
        - apply mem_In in M. symmetry. apply Nat.eqb_neq. intros Q.
          assert (Z : countn x (u :: c) = 0) by lia. apply countn_0 in Z. tauto.
        - symmetry. apply Nat.eqb_eq. assert (countn x (u :: c) = 0); [|lia].
          apply countn_0. intros H. apply mem_In in H. congruence. }
      assert (Hout : forall x, adjL (dec (rem l V) c) l x = false).
      { intros x. apply adjL_out. intros a b Hab. apply dec_in in Hab; auto.
        rewrite !In_rem in Hab. tauto. }
      intros x y Hx Hy. cbn [dec]. rewrite F, adjL_cons.
      destruct (Nat.eq_dec x l) as [->|Hxl].
      * rewrite Hout, Nat.eqb_refl, (Al y Hy), orb_false_r.
        destruct (Nat.eqb_spec u l); [congruence|]. rewrite andb_false_r, orb_false_r. reflexivity.
      * destruct (Nat.eq_dec y l) as [->|Hyl].
        -- rewrite adjL_sym, Hout, Nat.eqb_refl, Hsym, (Al x Hx), orb_false_r.
           destruct (Nat.eqb_spec l x); [congruence|]. rewrite andb_false_l. reflexivity.
        -- destruct (Nat.eqb_spec l x); [congruence|]. destruct (Nat.eqb_spec l y); [congruence|].
           cbn [andb orb]. apply I4; apply In_rem; auto.
Qed.
