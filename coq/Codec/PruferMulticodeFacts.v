(* Facts about the checked arrays, the triangle index and list counting that the Multicode and
   Pruefer proofs share. *)
From Coq Require Import List ZArith Bool Arith Lia.
From Mamba Require Import Codec.PruferMulticodeBase.
Import ListNotations.

(* ------------------------------------------------------------------ arrays *)
Fixpoint upd {A} (l : list A) (i : nat) (v : A) : list A :=
  match l, i with
  | [], _ => []
  | _ :: t, O => v :: t
  | h :: t, S j => h :: upd t j v
  end.

Lemma upd_length {A} (l : list A) i v : length (upd l i v) = length l.
Proof. revert i; induction l as [|h t IH]; intros [|i]; simpl; auto. Qed.

Lemma nth_upd {A} (l : list A) i v k d :
  i < length l -> nth k (upd l i v) d = if k =? i then v else nth k l d.
Proof.
  revert i k; induction l as [|h t IH]; intros i k Hi; simpl in Hi; [lia|].
  destruct i as [|i], k as [|k]; simpl; auto.
  apply IH; lia.
Qed.

Lemma set_ok {A} (l : list A) i v : i < length l -> set l i v = Ok (upd l i v).
Proof.
  revert i; induction l as [|h t IH]; intros i Hi; simpl in Hi; [lia|].
  destruct i as [|i]; simpl; auto. rewrite IH by lia. reflexivity.
Qed.

Lemma get_ok {A} (l : list A) i d : i < length l -> get l i = Ok (nth i l d).
Proof.
  intros Hi. unfold get. destruct (nth_error l i) eqn:E.
  - rewrite (nth_error_nth _ _ _ E). reflexivity.
  - apply nth_error_None in E. lia.
Qed.

Lemma get_panic {A} (l : list A) i : length l <= i -> get l i = Panic.
Proof. intros H. unfold get. apply nth_error_None in H. rewrite H. reflexivity. Qed.

Lemma add_at_ok l i d : i < length l -> add_at l i d = Ok (upd l i (nth i l 0 + d)%Z).
Proof.
  intros Hi. unfold add_at. rewrite (get_ok l i 0%Z Hi). simpl. apply set_ok; auto.
Qed.

Lemma nth_repeat' {A} (a : A) n k d : k < n -> nth k (repeat a n) d = a.
Proof. revert k; induction n as [|n IH]; intros [|k] H; simpl; auto; try lia. apply IH; lia. Qed.

(* ------------------------------------------------------------------ the triangle index *)
Lemma even_prod j : exists k, j * (j - 1) = 2 * k.
Proof.
  induction j as [|j [k IH]]; [exists 0; reflexivity|].
  destruct j as [|j]; [exists 0; reflexivity|].
  exists (k + S j). replace (S (S j) - 1) with (S j) by lia.
  replace (S j - 1) with j in IH by lia. lia.
Qed.

Lemma tri_double j : 2 * tri j = j * (j - 1).
Proof.
  unfold tri. destruct (even_prod j) as [k Hk]. rewrite Hk.
  rewrite (Nat.mul_comm 2 k), Nat.div_mul by lia. lia.
Qed.

Lemma tri_S j : tri (S j) = tri j + j.
Proof.
  pose proof (tri_double (S j)) as H1. pose proof (tri_double j) as H2.
  replace (S j - 1) with j in H1 by lia.
  destruct j as [|j]; [reflexivity|].
  replace (S j - 1) with j in H2 by lia. lia.
Qed.

Lemma tri_0 : tri 0 = 0. Proof. reflexivity. Qed.

Lemma tri_mono a b : a <= b -> tri a <= tri b.
Proof. induction 1; [lia|]. rewrite tri_S. lia. Qed.

Lemma tri_lt a b : a < b -> tri a + a <= tri b.
Proof. intros H. rewrite <- tri_S. apply tri_mono. lia. Qed.

Lemma tri_bound i j n : i < j -> j < n -> tri j + i < tri n.
Proof. intros. pose proof (tri_lt j n). lia. Qed.

Lemma tri_inj i j i' j' : i < j -> i' < j' -> tri j + i = tri j' + i' -> i = i' /\ j = j'.
Proof.
  intros Hi Hi' E.
  destruct (Nat.lt_trichotomy j j') as [L|[->|L]].
  - pose proof (tri_lt j j' L). lia.
  - lia.
  - pose proof (tri_lt j' j L). lia.
Qed.

(* every cell of the triangle of n is the cell of exactly one pair i < j < n *)
Lemma tri_cell n k : k < tri n -> exists i j, i < j /\ j < n /\ k = tri j + i.
Proof.
  induction n as [|n IH]; intros Hk; [rewrite tri_0 in Hk; lia|].
  rewrite tri_S in Hk.
  destruct (Nat.lt_ge_cases k (tri n)) as [L|G].
  - destruct (IH L) as (i & j & ? & ? & ?). exists i, j. repeat split; auto.
  - exists (k - tri n), n. repeat split; lia.
Qed.

Lemma tri_eq j : tri j = (j * (j - 1)) / 2.
Proof. reflexivity. Qed.

Global Opaque tri.

(* ------------------------------------------------------------------ tri_bits *)
Lemma length_tri_row {A} (f : nat -> nat -> A) n :
  length (flat_map (fun j => map (fun i => f i j) (seq 0 j)) (seq 0 n)) = tri n.
Proof.
  induction n as [|n IH]; [reflexivity|].
  rewrite seq_S, flat_map_app, app_length, IH. simpl.
  rewrite app_nil_r, map_length, seq_length, tri_S. reflexivity.
Qed.

Lemma nth_tri_row {A} (f : nat -> nat -> A) n i j d :
  i < j -> j < n ->
  nth (tri j + i) (flat_map (fun j => map (fun i => f i j) (seq 0 j)) (seq 0 n)) d = f i j.
Proof.
  intros Hij. induction n as [|n IH]; intros Hj; [lia|].
  rewrite seq_S, flat_map_app. simpl. rewrite app_nil_r.
  destruct (Nat.eq_dec j n) as [->|Hne].
  - rewrite app_nth2; rewrite length_tri_row; [|lia].
    replace (tri n + i - tri n) with i by lia.
    rewrite (nth_indep _ d (f 0 n)) by (rewrite map_length, seq_length; lia).
    rewrite (map_nth (fun i => f i n)), seq_nth by lia. reflexivity.
  - rewrite app_nth1; [apply IH; lia|].
    rewrite length_tri_row. apply tri_bound; lia.
Qed.

Lemma length_tri_bits g : length (tri_bits g) = tri (gn g).
Proof. apply length_tri_row. Qed.

Lemma nth_tri_bits g i j : i < j -> j < gn g -> nth (tri j + i) (tri_bits g) false = gadj g i j.
Proof. apply (nth_tri_row (gadj g)). Qed.

(* ------------------------------------------------------------------ lists *)
Lemma length_filter_le {A} (f : A -> bool) l : length (filter f l) <= length l.
Proof. induction l as [|a l IH]; simpl; [lia|]. destruct (f a); simpl; lia. Qed.

Lemma filter_ext_in' {A} (f g : A -> bool) l :
  (forall a, In a l -> f a = g a) -> filter f l = filter g l.
Proof.
  induction l as [|a l IH]; intros H; simpl; auto.
  rewrite (H a (or_introl eq_refl)), IH; auto. intros; apply H; right; auto.
Qed.

(* two duplicate-free lists with the same elements have the same length *)
Lemma NoDup_same_length {A} (l l' : list A) :
  NoDup l -> NoDup l' -> (forall x, In x l <-> In x l') -> length l = length l'.
Proof.
  intros N N' H. apply Nat.le_antisymm; apply NoDup_incl_length; auto; intros x Hx; apply H; auto.
Qed.

Lemma NoDup_filter' {A} (f : A -> bool) l : NoDup l -> NoDup (filter f l).
Proof.
  induction 1 as [|a l Hn N IH]; simpl; [constructor|].
  destruct (f a); auto. constructor; auto. intros H; apply filter_In in H; tauto.
Qed.

Lemma NoDup_map_inj {A B} (f : A -> B) l :
  (forall x y, In x l -> In y l -> f x = f y -> x = y) -> NoDup l -> NoDup (map f l).
Proof.
  intros Hf. induction 1 as [|a l Hn N IH]; simpl; [constructor|].
  constructor.
  - intros H. apply in_map_iff in H. destruct H as (x & E & Hx).
    apply Hf in E; [subst; tauto|right; auto|left; auto].
  - apply IH. intros; apply Hf; auto; right; auto.
Qed.
