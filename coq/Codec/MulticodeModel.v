(* Model of MulticodeEncode, MulticodeDecode and MulticodeDecodeMultiple of
   /repo/graph/encoding.go as they are written (definitions only). *)
From Coq Require Import List ZArith Bool Arith.
From Mamba Require Import Codec.PruferMulticodeBase.
Import ListNotations.

(* byte(x) *)
Definition byte_of (x : Z) : Z := (x mod 256)%Z.

(* the list written for vertex i:  for j := i+1; j < n; j++ { if g.IsEdge(i,j) { s[index] = byte(j+1); index++ } };
   s[index] = 0; index++ *)
Definition mc_row (g : graph) (i : nat) : list Z :=
  map (fun j => byte_of (Z.of_nat j + 1)) (up_nbrs g i) ++ [0%Z].

(* everything written after s[0], for i := 0; i < n-1; i++ *)
Definition mc_body (g : graph) : list Z := flat_map (mc_row g) (seq 0 (gn g - 1)).

Definition multicode_encode (g : graph) : res (list Z) :=
  let n := Z.of_nat (gn g) in
  if (255 <? n)%Z then Panic                                   (* panic("Graph too large for Multicode") *)
  else if (n =? 0)%Z then Ok [0%Z]
  else
    (* s := make([]byte, g.M()+n): the writes s[index] = ..; index++ start at index 1 and panic
       when they leave the slice; bytes never written stay 0 *)
    let size := (gm g + n)%Z in
    let body := mc_body g in
    if (size <? 1 + Z.of_nat (length body))%Z then Panic
    else Ok (byte_of n :: body ++ repeat 0%Z (Z.to_nat (size - 1) - length body)).

(* state of the loop of MulticodeDecode *)
Record mcst := { st_cv : nat; st_m : Z; st_deg : list Z; st_edges : list bool }.

(* edges[(int(c-1)*int(c-2))/2+cv] = 1; degrees[c-1]++; degrees[cv]++; m++
   where c-1 and c-2 are byte subtractions (they wrap for c = 1) *)
Definition mc_edge (st : mcst) (c : Z) : res mcst :=
  let a := Z.to_nat (byte_of (c - 1)) in
  let b := Z.to_nat (byte_of (c - 2)) in
  do e <- set (st_edges st) ((a * b) / 2 + st_cv st) true;
  do d1 <- add_at (st_deg st) a 1;
  do d2 <- add_at d1 (st_cv st) 1;
  Ok {| st_cv := st_cv st; st_m := (st_m st + 1)%Z; st_deg := d2; st_edges := e |}.

Fixpoint mc_loop (s : list Z) (st : mcst) : res mcst :=
  match s with
  | [] => Ok st
  | c :: r =>
    if (c =? 0)%Z then
      mc_loop r {| st_cv := S (st_cv st); st_m := st_m st; st_deg := st_deg st; st_edges := st_edges st |}
    else do st' <- mc_edge st c; mc_loop r st'
  end.

Definition multicode_decode (s : list Z) : res dgraph :=
  do n0 <- get s 0;
  let n := Z.to_nat n0 in
  do st <- mc_loop (tl s) {| st_cv := 0; st_m := 0; st_deg := repeat 0%Z n; st_edges := repeat false (tri n) |};
  if (0 <? n) && negb (st_cv st =? n - 1) then Panic               (* panic("Incomplete encoding") *)
  else Ok {| dn := n; dm := st_m st; ddeg := st_deg st; dedges := st_edges st |}.

(* MulticodeDecodeMultiple.  [left] is numberOfListsLeft, [cur] is s[startOfGraph:i] with the
   most recent byte first, [out] the graphs appended so far, most recent first. *)
Fixpoint mcm_loop (s : list Z) (left : Z) (cur : list Z) (out : list dgraph) : res (list dgraph) :=
  match s with
  | [] => Ok (rev out)
  | c :: r =>
    if (left =? 0)%Z then
      if (c <=? 1)%Z then do g <- multicode_decode [c]; mcm_loop r 0 [] (g :: out)
      else mcm_loop r (c - 1) [c] out
    else if (c =? 0)%Z then
      if (left - 1 =? 0)%Z then do g <- multicode_decode (rev (c :: cur)); mcm_loop r 0 [] (g :: out)
      else mcm_loop r (left - 1) (c :: cur) out
    else mcm_loop r left (c :: cur) out
  end.

Definition multicode_decode_multiple (s : list Z) : res (list dgraph) := mcm_loop s 0 [] [].
