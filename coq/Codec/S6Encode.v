(* Sparse6Encode, part 1: the nested loops of the encoder write the bits of a token sequence
   (b,x) determined by the edge list; what the function returns is ':' N(n) R(bits ++ padding). *)
From Coq Require Import List ZArith Bool Arith Lia.
From Mamba Require Import Codec.Model Codec.Spec Codec.BitLemmas Codec.G6Header Codec.G6Proofs.
Import ListNotations.
Open Scope Z_scope.

Local Ltac dm := Z.div_mod_to_equations.

(* the value of the Graph interface is a simple graph *)
Definition simple (g : graph) : Prop :=
  (forall i j, gadj g i j = gadj g j i) /\ (forall i, gadj g i i = false).

Definition row (g : graph) (i : nat) : list nat := filter (gadj g i) (seq 0 i).

Lemma edges_lt_rows : forall g,
  edges_lt g = flat_map (fun i => map (fun u => (i, u)) (row g i)) (seq 0 (gn g)).
Proof. reflexivity. Qed.

(* ------------------------------------------------------------------ tokens *)
Definition tok_bits (k : nat) (t : bool * Z) : list bool := fst t :: bits_be k (snd t).

Definition edge_toks (v i u : nat) : list (bool * Z) :=
  if (i =? v)%nat then [(false, Z.of_nat u)]
  else if (i =? v + 1)%nat then [(true, Z.of_nat u)]
  else [(true, Z.of_nat i); (false, Z.of_nat u)].

Fixpoint enc_toks (v : nat) (es : list (nat * nat)) : list (bool * Z) :=
  match es with
  | [] => []
  | e :: r => edge_toks v (fst e) (snd e) ++ enc_toks (fst e) r
  end.

Definition final_v (v : nat) (es : list (nat * nat)) : nat := last (map fst es) v.

Lemma last_cons : forall {A} (a : A) l d, last (a :: l) d = last l a.
Proof.
  intros A a l. revert a. induction l as [|b l IH]; intros a d; [reflexivity|].
  change (last (a :: b :: l) d) with (last (b :: l) d). rewrite IH.
  change (last (b :: l) a) with (match l with [] => b | _ => last l a end).
  destruct l; [reflexivity|]. symmetry. rewrite <- (IH b a) at 1. reflexivity.
Qed.

Lemma final_v_cons : forall v e r, final_v v (e :: r) = final_v (fst e) r.
Proof. intros. unfold final_v. cbn [map]. apply last_cons. Qed.

Lemma final_v_app : forall l1 l2 v, final_v v (l1 ++ l2) = final_v (final_v v l1) l2.
Proof.
  induction l1 as [|e l1 IH]; intros l2 v; [reflexivity|].
  cbn [app]. rewrite !final_v_cons. apply IH.
Qed.

(* ------------------------------------------------------------------ x[-] = u *)
Lemma bits_be_seq : forall k u, bits_be k u = map (fun j => Z.testbit u (Z.of_nat (k - j - 1))) (seq 0 k).
Proof.
  induction k as [|k IH]; intros u; [reflexivity|].
  cbn [bits_be seq map]. f_equal; [do 2 f_equal; lia|].
  rewrite IH, <- seq_shift, map_map. apply map_ext. intros j. reflexivity.
Qed.

Lemma put_num_bits : forall w k u, put_num w k u = fold_left (bw_put true) (bits_be k u) w.
Proof. intros w k u. unfold put_num. rewrite bits_be_seq, fold_left_map. reflexivity. Qed.

Lemma s6_edge_toks : forall k v w i u,
  s6_edge k (v, w) i u = (i, fold_left (bw_put true) (flat_map (tok_bits k) (edge_toks v i u)) w).
Proof.
  intros k v w i u. unfold s6_edge, edge_toks.
  destruct (Nat.eqb_spec i v) as [->|Hv].
  { cbn [flat_map tok_bits fst snd app]. rewrite app_nil_r. cbn [fold_left]. rewrite put_num_bits. reflexivity. }
  destruct (Nat.eqb_spec i (v + 1)) as [->|Hv1].
  { cbn [flat_map tok_bits fst snd app]. rewrite app_nil_r. cbn [fold_left]. rewrite put_num_bits.
    f_equal. lia. }
  cbn [flat_map tok_bits fst snd app]. rewrite app_nil_r. cbn [fold_left].
  rewrite fold_left_app. cbn [fold_left]. rewrite !put_num_bits. reflexivity.
Qed.

Lemma enc_fold : forall k es v w,
  fold_left (fun st e => s6_edge k st (fst e) (snd e)) es (v, w) =
  (final_v v es, fold_left (bw_put true) (flat_map (tok_bits k) (enc_toks v es)) w).
Proof.
  intros k. induction es as [|e r IH]; intros v w; [reflexivity|].
  cbn [fold_left enc_toks]. rewrite s6_edge_toks, IH, final_v_cons.
  rewrite flat_map_app, fold_left_app. reflexivity.
Qed.

(* ------------------------------------------------------------------ the row loop with its break *)
Lemma s6_row_app : forall k i l1 l2 st, Forall (fun u => (u <= i)%nat) l1 ->
  (match l2 with [] => True | u :: _ => (i < u)%nat end) ->
  s6_row k st i (l1 ++ l2) = fold_left (fun st u => s6_edge k st i u) l1 st.
Proof.
  intros k i l1 l2. induction l1 as [|u l1 IH]; intros st H1 H2.
  - cbn [app fold_left]. destruct l2 as [|u l2]; [reflexivity|]. cbn [s6_row].
    destruct (Nat.ltb_spec i u); [reflexivity|lia].
  - inversion H1; subst. cbn [app s6_row fold_left].
    destruct (Nat.ltb_spec i u); [lia|]. apply IH; assumption.
Qed.

Lemma filter_seq_hd : forall f a len,
  match filter f (seq a len) with [] => True | u :: _ => (a <= u)%nat end.
Proof.
  intros f a len. revert a. induction len as [|len IH]; intros a; [exact I|].
  cbn [seq filter]. destruct (f a); [lia|]. specialize (IH (S a)).
  destruct (filter f (seq (S a) len)); [exact I|lia].
Qed.

Lemma s6_row_neighbours : forall k g i st, simple g -> (i < gn g)%nat ->
  s6_row k st i (neighbours g i) = fold_left (fun st u => s6_edge k st i u) (row g i) st.
Proof.
  intros k g i st [_ Hirr] Hi. unfold neighbours, row.
  replace (gn g) with (i + (1 + (gn g - i - 1)))%nat by lia.
  rewrite seq_app, filter_app, (seq_app 1), filter_app. cbn [seq filter Nat.add]. rewrite Hirr. cbn [app].
  apply s6_row_app.
  - apply Forall_forall. intros u Hu. apply filter_In in Hu. destruct Hu as [Hu _]. apply in_seq in Hu. lia.
  - pose proof (filter_seq_hd (gadj g i) (i + 1) (gn g - i - 1)) as H.
    destruct (filter (gadj g i) (seq (i + 1) (gn g - i - 1))); [exact I|lia].
Qed.

Lemma fold_left_ext_in : forall {A B} (f g : A -> B -> A) l a,
  (forall a x, In x l -> f a x = g a x) -> fold_left f l a = fold_left g l a.
Proof.
  intros A B f g l. induction l as [|x l IH]; intros a H; [reflexivity|].
  cbn [fold_left]. rewrite H by (left; reflexivity). apply IH. intros a' y Hy. apply H. right. exact Hy.
Qed.

(* the state of the encoder after its loops *)
Lemma s6_loops : forall k g, simple g ->
  fold_left (fun st i => s6_row k st i (neighbours g i)) (seq 1 (gn g - 1)) (O, bw0) =
  (final_v 0 (edges_lt g),
   fold_left (bw_put true) (flat_map (tok_bits k) (enc_toks 0 (edges_lt g))) bw0).
Proof.
  intros k g Hs. rewrite <- enc_fold. rewrite edges_lt_rows, fold_left_flat_map.
  destruct (gn g) as [|n] eqn:En; [reflexivity|].
  cbn [seq fold_left row filter map]. rewrite Nat.sub_succ, Nat.sub_0_r.
  apply fold_left_ext_in. intros st i Hi. apply in_seq in Hi.
  rewrite s6_row_neighbours by (try exact Hs; lia). rewrite fold_left_map. reflexivity.
Qed.

(* ------------------------------------------------------------------ the padding *)
(* the test of the padding exception, with pos = currentBitPosition *)
Definition s6_exc (g : graph) (pos : nat) : bool :=
  let n := Z.of_nat (gn g) in
  ((n =? 2) || (n =? 4) || (n =? 8) || (n =? 16)) &&
  (Z.of_nat (s6_k n) + 1 <=? 6 - Z.of_nat pos) &&
  ((0 <? len (neighbours g (gn g - 2))) && (len (neighbours g (gn g - 1)) =? 0)).

Definition s6_pad (g : graph) (L : list bool) : list bool :=
  let r := (length L mod 6)%nat in
  if (r =? 0)%nat then []
  else if s6_exc g r then false :: repeat true (6 - r - 1) else repeat true (6 - r).

(* the bit string Sparse6Encode packs *)
Definition s6_toks (g : graph) : list (bool * Z) := enc_toks 0 (edges_lt g).
Definition s6_bits (g : graph) : list bool :=
  let L := flat_map (tok_bits (s6_k (Z.of_nat (gn g)))) (s6_toks g) in L ++ s6_pad g L.

Lemma pad_byte : forall part (exc : bool), (0 < length part < 6)%nat -> (exc = true -> (length part <= 4)%nat) ->
  let pos := if exc then S (length part) else length part in
  badd (fold_left (fun b j => badd b (byte_of (Z.shiftl 1 (5 - Z.of_nat j)))) (seq pos (6 - pos)) (val6 part)) 63
  = val6 (part ++ (if exc then false :: repeat true (6 - length part - 1) else repeat true (6 - length part))) + 63.
Proof.
  intros part exc Hl He.
  assert (Hl' : (length part < 6)%nat) by lia.
  short_destruct part Hl'; cbn [length] in *; try lia;
    destruct exc; try (specialize (He eq_refl); lia);
    repeat match goal with b : bool |- _ => destruct b end; reflexivity.
Qed.

Lemma nth_error_seq : forall len a i, (i < len)%nat -> nth_error (seq a len) i = Some (a + i)%nat.
Proof.
  induction len as [|len IH]; intros a i H; [lia|].
  destruct i as [|i]; cbn [seq nth_error]; [f_equal; lia|]. rewrite IH by lia. f_equal. lia.
Qed.

Lemma at_degrees : forall g i, (i < gn g)%nat -> at_ (degrees g) (Z.of_nat i) = Ok (len (neighbours g i)).
Proof.
  intros g i H. apply at_ok. unfold degrees.
  rewrite (map_nth_error _ _ _ (nth_error_seq (gn g) 0 i H)). reflexivity.
Qed.

Lemma s6_k_bound : forall n, 1 < n <= 68719476736 -> 2 ^ Z.of_nat (s6_k n - 1) < n <= 2 ^ Z.of_nat (s6_k n) /\ (1 <= s6_k n <= 36)%nat.
Proof.
  intros n Hn. unfold s6_k, bitlen. destruct (Z.leb_spec (n - 1) 0); [lia|].
  pose proof (Z.log2_spec (n - 1) ltac:(lia)) as [H1 H2].
  pose proof (Z.log2_nonneg (n - 1)) as H0.
  assert (Z.log2 (n - 1) < 36) by (apply Z.log2_lt_pow2; lia).
  rewrite Z2Nat.id by lia.
  replace (Z.of_nat (Z.to_nat (Z.log2 (n - 1) + 1) - 1)) with (Z.log2 (n - 1)) by lia.
  replace (Z.succ (Z.log2 (n - 1))) with (Z.log2 (n - 1) + 1) in H2 by lia. lia.
Qed.

Lemma mod6_app : forall {A} (full part : list A), (length full mod 6 = 0)%nat -> (length part < 6)%nat ->
  (length (full ++ part) mod 6 = length part)%nat.
Proof.
  intros A full part H1 H2. rewrite app_length.
  pose proof (Nat.div_mod (length full) 6 ltac:(lia)) as E. rewrite H1, Nat.add_0_r in E.
  rewrite E. replace (6 * (length full / 6) + length part)%nat with (length part + (length full / 6) * 6)%nat by lia.
  rewrite Nat.mod_add by lia. apply Nat.mod_small, H2.
Qed.

(* What Sparse6Encode returns: ':' N(n) R(bits), the bits being those of the token sequence
   followed by the padding.  [gm g < 10^17] keeps the int expression (k+1)*2*m of the capacity
   from wrapping. *)
Theorem sparse6_encode_bits : forall g, simple g -> 2 <= Z.of_nat (gn g) <= 68719476735 ->
  gm g < 100000000000000000 ->
  sparse6_encode g = Ok (58 :: spec_N (Z.of_nat (gn g)) ++ pack6 (s6_bits g)) /\
  (length (s6_bits g) mod 6 = 0)%nat.
Proof.
  intros g Hs Hn Hm. unfold sparse6_encode, s6_bits, s6_toks.
  set (n := Z.of_nat (gn g)) in *.
  destruct (Z.leb_spec n 1); [lia|].
  assert (Hk : Z.to_nat (bitlen (u64 (n - 1))) = s6_k n).
  { unfold s6_k, u64. rewrite Z.mod_small by lia. reflexivity. }
  rewrite Hk. destruct (s6_k_bound n ltac:(lia)) as [_ Hkb].
  set (k := s6_k n) in *.
  rewrite enc_size_spec by lia. cbn [bind].
  assert (Hgm : 0 <= gm g) by (unfold gm; apply len_nonneg).
  rewrite (s64_u64_small ((Z.of_nat k + 1) * 2)) by lia.
  rewrite (s64_u64_small ((Z.of_nat k + 1) * 2 * gm g)) by nia.
  rewrite mk_cap_ok.
  2:{ rewrite spec_N_len by lia. unfold hdr_len. destruct (n <=? 62); [lia|]. destruct (n <=? 258047); lia. }
  2:{ nia. }
  cbn [bind]. rewrite (s6_loops k g Hs).
  set (L := flat_map (tok_bits k) (enc_toks 0 (edges_lt g))).
  unfold bw0. rewrite bw_state.
  destruct (bw_decomp L []) as (full & part & EL & Hp & Hf & Hw). rewrite Hw. cbn [bw_pos bw_s bw_b].
  rewrite app_nil_r.
  assert (Hr : (length L mod 6 = length part)%nat) by (rewrite EL; apply mod6_app; assumption).
  unfold s6_pad. rewrite Hr.
  destruct part as [|b0 part0] eqn:Epart.
  { cbn [length Nat.eqb]. rewrite rev_involutive, !app_nil_r. split; [|exact Hr].
    rewrite EL, app_nil_r. reflexivity. }
  rewrite <- Epart in *. assert (Hpl : (0 < length part < 6)%nat) by (rewrite Epart in *; cbn [length] in *; lia).
  destruct (Nat.eqb_spec (length part) 0) as [|_]; [lia|].
  (* the value of pos *)
  set (exc := s6_exc g (length part)).
  assert (Hpos : (if ((n =? 2) || (n =? 4) || (n =? 8) || (n =? 16)) && (Z.of_nat k + 1 <=? 6 - Z.of_nat (length part))
                  then do d2 <- at_ (degrees g) (n - 2); do d1 <- at_ (degrees g) (n - 1);
                       if (0 <? d2) && (d1 =? 0) then Ok (S (length part)) else Ok (length part)
                  else Ok (length part))
                 = Ok (if exc then S (length part) else length part)).
  { unfold exc, s6_exc. fold n. fold k.
    destruct (((n =? 2) || (n =? 4) || (n =? 8) || (n =? 16)) && (Z.of_nat k + 1 <=? 6 - Z.of_nat (length part)));
      [|reflexivity].
    replace (n - 2) with (Z.of_nat (gn g - 2)) by lia. replace (n - 1) with (Z.of_nat (gn g - 1)) by lia.
    rewrite !at_degrees by lia. cbn [bind andb].
    destruct ((0 <? len (neighbours g (gn g - 2))) && (len (neighbours g (gn g - 1)) =? 0)); reflexivity. }
  rewrite Hpos. cbn [bind].
  assert (Hexc : exc = true -> (length part <= 4)%nat).
  { unfold exc, s6_exc. fold n. fold k. intros E. apply andb_true_iff in E. destruct E as [E _].
    apply andb_true_iff in E. destruct E as [_ E]. apply Z.leb_le in E. lia. }
  rewrite (pad_byte part exc Hpl Hexc).
  cbn [rev]. rewrite rev_involutive.
  set (pad := if exc then false :: repeat true (6 - length part - 1) else repeat true (6 - length part)).
  assert (Hlen6 : length (part ++ pad) = 6%nat).
  { rewrite app_length. unfold pad. destruct exc; cbn [length]; rewrite repeat_length; [specialize (Hexc eq_refl)|]; lia. }
  split.
  - do 3 f_equal. rewrite EL, <- app_assoc, pack6_app6 by exact Hf. f_equal.
    destruct (part ++ pad) as [|c0 [|c1 [|c2 [|c3 [|c4 [|c5 [|c6 r]]]]]]] eqn:E6; cbn [length] in Hlen6; try lia.
    reflexivity.
  - rewrite EL, <- app_assoc, app_length, Hlen6.
    replace (length full + 6)%nat with (length full + 1 * 6)%nat by lia. rewrite Nat.mod_add by lia. exact Hf.
Qed.
