(* Sparse6Decode computes the reader of the format text on every string: the bit cursor of the
   loop walks the pair sequence of the format, the loop ends within the fuel, no slice access
   or AddEdge call is out of range. *)
From Coq Require Import List ZArith Bool Arith Lia.
From Mamba Require Import Codec.Model Codec.Spec Codec.BitLemmas Codec.G6Header Codec.G6Proofs.
Import ListNotations.
Open Scope Z_scope.

Local Ltac dm := Z.div_mod_to_equations.

(* ------------------------------------------------------------------ the edge set built by AddEdge *)
Definition norm_step (el : list (Z * Z)) (e : Z * Z) : list (Z * Z) :=
  if fst e =? snd e then el else insert (Z.max (fst e) (snd e), Z.min (fst e) (snd e)) el.

(* the edge set of the SparseGraph after AddEdge on the pairs es in order: loops and repeated
   edges are dropped, the result is sorted *)
Definition norm (es : list (Z * Z)) : list (Z * Z) := rev (fold_left norm_step es []).

Lemma add_edge_ok : forall n el v x, 0 <= x <= v -> v < n -> add_edge n el v x = Ok (norm_step el (v, x)).
Proof.
  intros n el v x Hx Hv. unfold add_edge, norm_step. cbn [fst snd].
  destruct (Z.eqb_spec v x); [reflexivity|].
  destruct (Z.ltb_spec v 0); [lia|]. destruct (Z.leb_spec n v); [lia|].
  destruct (Z.ltb_spec x 0); [lia|]. destruct (Z.leb_spec n x); [lia|]. reflexivity.
Qed.

(* ------------------------------------------------------------------ pairs of the format *)
Lemma split_k_spec : forall k l,
  split_k k l = if (length l <? k)%nat then None else Some (firstn k l, skipn k l).
Proof.
  induction k as [|k IH]; intros l.
  - reflexivity.
  - destruct l as [|b r]; [reflexivity|]. cbn [split_k length firstn skipn]. rewrite IH.
    change (S (length r) <? S k)%nat with (length r <? k)%nat.
    destruct (length r <? k)%nat; reflexivity.
Qed.

Lemma s6_pairs_fuel_enough : forall k f1 f2 bits, (length bits <= f1)%nat -> (length bits <= f2)%nat ->
  s6_pairs_fuel f1 k bits = s6_pairs_fuel f2 k bits.
Proof.
  intros k. induction f1 as [|f1 IH]; intros f2 bits H1 H2.
  - destruct bits; [|cbn [length] in H1; lia]. destruct f2; reflexivity.
  - destruct f2 as [|f2].
    + destruct bits; [reflexivity|cbn [length] in H2; lia].
    + destruct bits as [|b r]; [reflexivity|]. cbn [s6_pairs_fuel]. rewrite split_k_spec.
      destruct (Nat.ltb_spec (length r) k); [reflexivity|]. f_equal.
      cbn [length] in *. apply IH; rewrite skipn_length; lia.
Qed.

Lemma s6_pairs_nil : forall k, s6_pairs k [] = [].
Proof. reflexivity. Qed.

Lemma s6_pairs_cons : forall k b r,
  s6_pairs k (b :: r) =
  if (length r <? k)%nat then [] else (b, val_bits (firstn k r) 0) :: s6_pairs k (skipn k r).
Proof.
  intros k b r. unfold s6_pairs. cbn [length s6_pairs_fuel]. rewrite split_k_spec.
  destruct (Nat.ltb_spec (length r) k); [reflexivity|]. f_equal.
  apply s6_pairs_fuel_enough; rewrite skipn_length; lia.
Qed.

(* ------------------------------------------------------------------ the bit stream *)
Lemma unpack6_skipn : forall i s, unpack6 (skipn i s) = skipn (6 * i) (unpack6 s).
Proof.
  induction i as [|i IH]; intros s; [reflexivity|].
  destruct s as [|c s]; [reflexivity|].
  replace (6 * S i)%nat with (6 + 6 * i)%nat by lia.
  rewrite unpack6_cons. cbn [skipn]. rewrite IH.
  change (bits_be 6 (c - 63)) with
    [Z.testbit (c - 63) 5; Z.testbit (c - 63) 4; Z.testbit (c - 63) 3;
     Z.testbit (c - 63) 2; Z.testbit (c - 63) 1; Z.testbit (c - 63) 0].
  reflexivity.
Qed.

Lemma skipn_nth_cons : forall {A} (l : list A) p a, nth_error l p = Some a -> skipn p l = a :: skipn (S p) l.
Proof.
  intros A l. induction l as [|x l IH]; intros p a H.
  - destruct p; discriminate.
  - destruct p as [|p]; [injection H as ->; reflexivity|]. cbn [nth_error] in H. cbn [skipn]. apply IH, H.
Qed.

Lemma skipn_add : forall {A} a b (l : list A), skipn a (skipn b l) = skipn (b + a) l.
Proof.
  intros A a b. induction b as [|b IH]; intros l; [reflexivity|].
  destruct l as [|x l]; [rewrite skipn_nil; reflexivity|]. cbn [skipn Nat.add]. apply IH.
Qed.

Section Stream.
  Variable s : list Z.
  Hypothesis Hr : Forall (fun c => 63 <= c <= 126) s.
  Let bits := unpack6 s.

  Lemma bits_len : Z.of_nat (length bits) = 6 * len s.
  Proof. unfold bits, len. rewrite unpack6_length. lia. Qed.

  Lemma rd_bit_spec : forall p, 0 <= p < 6 * len s ->
    exists b, rd_bit s p = Ok b /\ skipn (Z.to_nat p) bits = b :: skipn (S (Z.to_nat p)) bits.
  Proof.
    intros p Hp. destruct (stream_bit s 0 p Hr ltac:(lia) ltac:(lia) ltac:(lia)) as (ch & Ha & Hc & Hn).
    rewrite Z.add_0_l in Ha. change (Z.to_nat 0) with 0%nat in Hn. cbn [skipn] in Hn.
    exists (Z.testbit (ch - 63) (5 - p mod 6)). split.
    - unfold rd_bit. rewrite Ha. cbn [bind]. rewrite bsub63 by lia.
      destruct (bit_tests (ch - 63) (5 - p mod 6)) as [_ Hb]; [lia|dm; lia|]. rewrite Hb. reflexivity.
    - apply skipn_nth_cons, Hn.
  Qed.

  Lemma lor_shift : forall x, 0 <= x -> Z.lor (Z.shiftl x 1) 1 = 2 * x + 1.
  Proof. intros x Hx. destruct x as [|q|q]; [reflexivity|reflexivity|lia]. Qed.

  Lemma rd_num_spec : forall k p x, 0 <= p -> 0 <= x -> p + Z.of_nat k <= 6 * len s ->
    rd_num s k p x = Ok (val_bits (firstn k (skipn (Z.to_nat p) bits)) x, p + Z.of_nat k).
  Proof.
    induction k as [|k IH]; intros p x Hp Hx Hb.
    - cbn [rd_num firstn val_bits]. do 2 f_equal. lia.
    - cbn [rd_num]. destruct (rd_bit_spec p ltac:(lia)) as (b & Hrb & Hs). rewrite Hrb. cbn [bind].
      rewrite Hs. cbn [firstn val_bits].
      replace (S (Z.to_nat p)) with (Z.to_nat (p + 1)) by lia.
      set (x1 := if b then Z.lor (Z.shiftl x 1) 1 else Z.shiftl x 1).
      assert (Hx1 : x1 = 2 * x + (if b then 1 else 0)).
      { subst x1. destruct b; [apply lor_shift; lia|]. rewrite Z.shiftl_mul_pow2 by lia. change (2 ^ 1) with 2. lia. }
      rewrite IH by (try lia; rewrite Hx1; destruct b; lia).
      rewrite Hx1. do 2 f_equal. lia.
  Qed.

  (* the loop of Sparse6Decode from bit p with vertex pointer v and edge set el *)
  Lemma s6_loop_spec : forall n k fuel p v el, 0 <= n < 9223372036854775808 ->
    0 <= p <= 6 * len s -> 0 <= v -> 6 * len s - p <= Z.of_nat fuel ->
    s6_loop fuel s n k (6 * len s) p v el =
    Ok (fold_left norm_step (s6_edges n v (s6_pairs k (skipn (Z.to_nat p) bits))) el).
  Proof.
    intros n k. induction fuel as [|fuel IH]; intros p v el Hn Hp Hv Hf.
    - assert (p = 6 * len s) by lia. subst p. cbn [s6_loop].
      destruct (Z.ltb_spec (6 * len s - 6 * len s) (Z.of_nat k + 1)); [|lia].
      rewrite skipn_all2 by (pose proof bits_len; lia). reflexivity.
    - cbn [s6_loop].
      destruct (Z.ltb_spec (6 * len s - p) (Z.of_nat k + 1)) as [Hshort|Hlong].
      + (* fewer than k+1 bits left: an incomplete pair, discarded *)
        destruct (skipn (Z.to_nat p) bits) as [|b r] eqn:E; [reflexivity|].
        rewrite s6_pairs_cons.
        assert (length (skipn (Z.to_nat p) bits) = Z.to_nat (6 * len s - p))
          by (rewrite skipn_length; pose proof bits_len; lia).
        rewrite E in H. cbn [length] in H.
        destruct (Nat.ltb_spec (length r) k); [reflexivity|lia].
      + destruct (rd_bit_spec p ltac:(lia)) as (b & Hrb & Hs). rewrite Hrb. cbn [bind].
        rewrite (rd_num_spec k (p + 1) 0) by lia. cbn [bind].
        rewrite Hs, s6_pairs_cons.
        assert (Hl : length (skipn (S (Z.to_nat p)) bits) = Z.to_nat (6 * len s - p - 1))
          by (rewrite skipn_length; pose proof bits_len; lia).
        destruct (Nat.ltb_spec (length (skipn (S (Z.to_nat p)) bits)) k) as [Hlt|_]; [lia|].
        replace (Z.to_nat (p + 1)) with (S (Z.to_nat p)) by lia.
        set (r := skipn (S (Z.to_nat p)) bits) in *.
        set (x := val_bits (firstn k r) 0).
        assert (Hx : 0 <= x) by (apply val_bits_bound).
        set (v1 := if b then v + 1 else v).
        assert (Hv1 : 0 <= v1) by (subst v1; destruct b; lia).
        assert (Hsk : skipn k r = skipn (Z.to_nat (p + 1 + Z.of_nat k)) bits).
        { subst r. rewrite skipn_add. f_equal. lia. }
        assert (Hs64 : s64 n = n) by (unfold s64; destruct (Z.ltb_spec n 9223372036854775808); lia).
        cbn [s6_edges]. fold v1. rewrite Hs64.
        destruct (Z.ltb_spec v1 x).
        * rewrite IH by lia. rewrite Hsk. reflexivity.
        * destruct (Z.ltb_spec v1 n).
          -- rewrite add_edge_ok by lia. cbn [bind]. rewrite IH by lia. rewrite Hsk. reflexivity.
          -- rewrite IH by lia. rewrite Hsk. reflexivity.
  Qed.
End Stream.

(* ------------------------------------------------------------------ Sparse6Decode = the format's reader *)
Definition s6_result (s : list Z) : res (Z * list (Z * Z)) :=
  match s6_spec_decode s with
  | Some (n, es) => Ok (n, norm es)
  | None => Err
  end.

Lemma bitlen_u64 : forall n, 1 < n < 18446744073709551616 -> bitlen (u64 (n - 1)) = bitlen (n - 1).
Proof. intros n H. unfold u64. rewrite Z.mod_small by lia. reflexivity. Qed.

Theorem sparse6_decode_refines : forall s0,
  sparse6_decode s0 = s6_result (strip hdr_sparse6 s0).
Proof.
  intros s0. unfold sparse6_decode, sparse6_decode_fuel, s6_result, s6_spec_decode.
  pose proof (strip_len hdr_sparse6 s0) as Hlen0.
  destruct (strip hdr_sparse6 s0) as [|c s1]; [reflexivity|].
  destruct (c =? 58); cbn [negb]; [|reflexivity].
  destruct (forallb in_range s1) eqn:Hr; cbn [negb]; [|reflexivity].
  apply forallb_in_range in Hr.
  destruct s1 as [|c1 r1] eqn:Es; [reflexivity|]. rewrite <- Es in *.
  assert (Hne : s1 <> []) by (rewrite Es; discriminate).
  pose proof (dec_size_refines false s1 Hr Hne) as HD.
  destruct (spec_read_N s1) as [[n d]|]; [|rewrite HD; reflexivity].
  destruct HD as [Hn HD]. cbn [andb] in HD. destruct HD as (i & HD & Hd & Hi & Hil & _).
  rewrite HD. cbn [bind].
  set (k := if 1 <? n then Z.to_nat (bitlen (u64 (n - 1))) else 0%nat).
  assert (Hk : k = s6_k n).
  { unfold k, s6_k. destruct (Z.ltb_spec 1 n).
    - rewrite bitlen_u64 by lia. reflexivity.
    - unfold bitlen. destruct (Z.leb_spec (n - 1) 0); [reflexivity|lia]. }
  rewrite (s6_loop_spec s1 Hr n k) by (rewrite len_cons in Hlen0; unfold len in *; lia).
  cbn [bind]. unfold norm. rewrite Hd, unpack6_skipn, Hk.
  replace (Z.to_nat (6 * i)) with (6 * Z.to_nat i)%nat by lia. reflexivity.
Qed.
