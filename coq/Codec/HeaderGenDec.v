(* A small proved decision procedure for the decoder side of the regenerated size headers.

   On a string whose bytes are all in 63..126 (both decoders reject anything else before they
   look at the size) the vertex count read from the header is an affine function of the bytes:
   c + sum_k coef_k * s[k].  [absD e] computes (c, coefficients, interval) for an expression e,
   refusing ([None]) as soon as an intermediate result can leave the range of the Go type it is
   computed in -- so  uint64((s[1]-63)<<12), whose shift happens in byte arithmetic, is refused,
   while  uint64(s[1]-63)<<12,  (uint64(s[1])-63)<<12  and  uint64(s[1]-63)*4096  all get the
   same form.  [absD_sound]: on every in-range string long enough for the indices used, Go's
   value of e (the evaluator [eval], with wrap-around) is the value of the form; on a shorter
   string evaluation panics ([eval_short]).

   [check_dtree] compares a regenerated decision tree with an expected tree over the atoms
   s[k] != c and len(s) < k; [check_dtree_sound]: a tree that passes computes, on every in-range
   string, what the expected tree computes. *)
From Coq Require Import List ZArith Bool Lia.
From Mamba Require Import Codec.Model Codec.HeaderGenSyntax Codec.HeaderGenEnc.
Import ListNotations.
Open Scope Z_scope.

Definition inr (c : Z) : Prop := 63 <= c <= 126.

(* ------------------------------------------------------------------ affine forms *)
Fixpoint ladd (a b : list Z) : list Z :=
  match a, b with
  | [], _ => b
  | _, [] => a
  | x :: a', y :: b' => (x + y) :: ladd a' b'
  end.

Definition lscale (k : Z) (l : list Z) : list Z := map (Z.mul k) l.

Fixpoint dot (cf s : list Z) : Z :=
  match cf, s with
  | c :: cf', x :: s' => c * x + dot cf' s'
  | _, _ => 0
  end.

Fixpoint unit_at (i : nat) : list Z :=
  match i with O => [1] | S j => 0 :: unit_at j end.

Fixpoint all_zero (l : list Z) : bool :=
  match l with [] => true | x :: r => (x =? 0) && all_zero r end.

Fixpoint coefs_eqb (a b : list Z) : bool :=
  match a, b with
  | [], _ => all_zero b
  | _, [] => all_zero a
  | x :: a', y :: b' => (x =? y) && coefs_eqb a' b'
  end.

Record lin := mkLin { l_c : Z; l_cf : list Z; l_lo : Z; l_hi : Z }.

Definition lin_val (l : lin) (s : list Z) : Z := l_c l + dot (l_cf l) s.

Definition ty_bot (t : hty) : Z :=
  match t with TByte => 0 | TU64 => 0 | TInt => -9223372036854775808 end.

Definition fitsI (t : option hty) (lo hi : Z) : bool :=
  match t with None => true | Some t => (ty_bot t <=? lo) && (hi <=? ty_top t) end.

Definition guardL (b : bool) (l : lin) : option lin := if b then Some l else None.

Definition is_const (l : lin) : bool := match l_cf l with [] => true | _ => false end.

(* x & m = x when 0 <= x <= m = 2^j - 1 *)
Definition and_lin (t : option hty) (x y : lin) : option lin :=
  if is_const y then
    match is_mask (l_c y) with
    | Some _ => guardL ((0 <=? l_lo x) && (l_hi x <=? l_c y) && fitsI t (l_lo x) (l_hi x)) x
    | None => None
    end
  else if is_const x then
    match is_mask (l_c x) with
    | Some _ => guardL ((0 <=? l_lo y) && (l_hi y <=? l_c x) && fitsI t (l_lo y) (l_hi y)) y
    | None => None
    end
  else None.

Definition scale_lin (k : Z) (l : lin) : lin :=
  mkLin (k * l_c l) (lscale k (l_cf l)) (k * l_lo l) (k * l_hi l).

Fixpoint absD (e : hexpr) : option lin :=
  match e with
  | HConst c => Some (mkLin c [] c c)
  | HN => None
  | HByte i => guardL (0 <=? i) (mkLin 0 (unit_at (Z.to_nat i)) 63 126)
  | HShr _ _ => None
  | HShl a k =>
    match absD a with
    | Some l =>
      let r := scale_lin (2 ^ k) l in guardL ((0 <=? k) && fitsI (ty_of a) (l_lo r) (l_hi r)) r
    | None => None
    end
  | HAnd a b =>
    match absD a, absD b with
    | Some x, Some y => and_lin (ty_of e) x y
    | _, _ => None
    end
  | HAdd a b =>
    match absD a, absD b with
    | Some x, Some y =>
      let r := mkLin (l_c x + l_c y) (ladd (l_cf x) (l_cf y)) (l_lo x + l_lo y) (l_hi x + l_hi y) in
      guardL (fitsI (ty_of e) (l_lo r) (l_hi r)) r
    | _, _ => None
    end
  | HSub a b =>
    match absD a, absD b with
    | Some x, Some y =>
      let r := mkLin (l_c x - l_c y) (ladd (l_cf x) (lscale (-1) (l_cf y))) (l_lo x - l_hi y) (l_hi x - l_lo y) in
      guardL (fitsI (ty_of e) (l_lo r) (l_hi r)) r
    | _, _ => None
    end
  | HMul a b =>
    match absD a, absD b with
    | Some x, Some y =>
      if is_const x then
        let r := scale_lin (l_c x) y in guardL ((0 <=? l_c x) && fitsI (ty_of e) (l_lo r) (l_hi r)) r
      else if is_const y then
        let r := scale_lin (l_c y) x in guardL ((0 <=? l_c y) && fitsI (ty_of e) (l_lo r) (l_hi r)) r
      else None
    | _, _ => None
    end
  | HConv t a =>
    match absD a with
    | Some l => guardL (fitsI (Some t) (l_lo l) (l_hi l)) l
    | None => None
    end
  end.

(* the largest index of s the expression reads; -1 if none *)
Fixpoint max_idx (e : hexpr) : Z :=
  match e with
  | HConst _ | HN => -1
  | HByte i => i
  | HShr a _ | HShl a _ | HConv _ a => max_idx a
  | HAnd a b | HAdd a b | HSub a b | HMul a b => Z.max (max_idx a) (max_idx b)
  end.

(* ------------------------------------------------------------------ lemmas *)
Lemma dot_nil_r : forall cf, dot cf [] = 0.
Proof. destruct cf; reflexivity. Qed.

Lemma dot_ladd : forall a b s, dot (ladd a b) s = dot a s + dot b s.
Proof.
  induction a as [|x a IH]; intros b s.
  - reflexivity.
  - destruct b as [|y b].
    + cbn [ladd]. destruct s; cbn [dot]; lia.
    + destruct s as [|z s]; [reflexivity|]. cbn [ladd dot]. rewrite IH. lia.
Qed.

Lemma dot_lscale : forall k a s, dot (lscale k a) s = k * dot a s.
Proof.
  intros k. induction a as [|x a IH]; intros s.
  - cbn. lia.
  - destruct s as [|z s]; [cbn; lia|]. cbn [lscale map dot]. fold (lscale k a). rewrite IH. lia.
Qed.

Lemma dot_all_zero : forall a s, all_zero a = true -> dot a s = 0.
Proof.
  induction a as [|x a IH]; intros s H; [reflexivity|].
  cbn [all_zero] in H. apply andb_true_iff in H as [H1 H2]. apply Z.eqb_eq in H1. subst x.
  destruct s; [reflexivity|]. cbn [dot]. rewrite IH by assumption. lia.
Qed.

Lemma coefs_eqb_dot : forall a b s, coefs_eqb a b = true -> dot a s = dot b s.
Proof.
  induction a as [|x a IH]; intros b s H.
  - cbn [coefs_eqb] in H. rewrite (dot_all_zero b s H). reflexivity.
  - destruct b as [|y b].
    + cbn [coefs_eqb] in H. rewrite (dot_all_zero (x :: a) s H). destruct s; reflexivity.
    + cbn [coefs_eqb] in H. apply andb_true_iff in H as [H1 H2]. apply Z.eqb_eq in H1. subst y.
      destruct s; [reflexivity|]. cbn [dot]. rewrite (IH b s H2). reflexivity.
Qed.

Lemma nth_z_unit : forall i s x, nth_error s i = Some x -> dot (unit_at i) s = x.
Proof.
  induction i as [|i IH]; intros [|y s] x H; cbn in H; try discriminate.
  - injection H as ->. cbn [unit_at dot]. lia.
  - cbn [unit_at dot]. rewrite (IH s x H). lia.
Qed.

Lemma nth_z_some : forall s i, 0 <= i < len s -> exists x, nth_z s i = Some x /\ nth_error s (Z.to_nat i) = Some x.
Proof.
  intros s i H. unfold nth_z, len in *. destruct (Z.ltb_spec i 0); [lia|].
  destruct (nth_error s (Z.to_nat i)) as [x|] eqn:E; [eauto|].
  apply nth_error_None in E. lia.
Qed.

Lemma nth_z_none : forall s i, len s <= i -> nth_z s i = None.
Proof.
  intros s i H. unfold nth_z, len in *. destruct (Z.ltb_spec i 0); [reflexivity|].
  apply nth_error_None. lia.
Qed.

Lemma wrap_fitsI : forall t lo hi v, fitsI t lo hi = true -> lo <= v <= hi -> wrap_ty t v = v.
Proof.
  intros t lo hi v Hf Hv. destruct t as [t|]; [|reflexivity].
  unfold fitsI in Hf. apply andb_true_iff in Hf as [H1 H2]. apply Z.leb_le in H1, H2.
  destruct t; cbn [ty_top ty_bot] in *; cbn [wrap_ty].
  - unfold byte_of. apply Z.mod_small. lia.
  - unfold u64. apply Z.mod_small. lia.
  - unfold wrap64, u64, s64.
    destruct (Z.ltb_spec v 0).
    + assert (E : v mod 18446744073709551616 = v + 18446744073709551616).
      { replace v with ((v + 18446744073709551616) + (-1) * 18446744073709551616) at 1 by lia.
        rewrite Z.mod_add by lia. apply Z.mod_small. lia. }
      rewrite E. destruct (Z.ltb_spec (v + 18446744073709551616) 9223372036854775808); lia.
    + rewrite Z.mod_small by lia. destruct (Z.ltb_spec v 9223372036854775808); lia.
Qed.

Lemma guardL_some : forall b l r, guardL b l = Some r -> b = true /\ r = l.
Proof. intros b l r H. destruct b; [injection H as <-; auto|discriminate]. Qed.

Lemma is_const_val : forall l s, is_const l = true -> lin_val l s = l_c l.
Proof.
  intros [c cf lo hi] s H. unfold is_const in H. cbn in H. destruct cf; [|discriminate].
  unfold lin_val. cbn. lia.
Qed.

(* a string too short for an index the expression reads: evaluation panics *)
Lemma eval_short : forall n s e, len s <= max_idx e -> eval n s e = None.
Proof.
  intros n s. induction e as [c| |i|a IH k|a IH k|a IHa b IHb|a IHa b IHb|a IHa b IHb|a IHa b IHb|t a IH];
    intros H; cbn [max_idx] in H; cbn [eval];
    try (pose proof (Zle_0_nat (length s)); unfold len in H; lia);
    try (rewrite (IH H); reflexivity);
    try (destruct (Z.max_spec (max_idx a) (max_idx b)) as [[_ E]|[_ E]]; rewrite E in H;
         [rewrite (IHb H); destruct (eval n s a); reflexivity|rewrite (IHa H); reflexivity]).
  apply nth_z_none. exact H.
Qed.

Definition lin_ok (l : lin) (s : list Z) (v : Z) : Prop := v = lin_val l s /\ l_lo l <= v <= l_hi l.

Lemma absD_sound : forall n s e l, absD e = Some l -> Forall inr s -> max_idx e < len s ->
  exists v, eval n s e = Some v /\ lin_ok l s v.
Proof.
  intros n s. induction e as [c| |i|a IH k|a IH k|a IHa b IHb|a IHa b IHb|a IHa b IHb|a IHa b IHb|t a IH];
    intros l H Hs Hm; cbn [absD] in H; cbn [max_idx] in Hm.
  - injection H as <-. exists c. split; [reflexivity|]. unfold lin_ok, lin_val. cbn. lia.
  - discriminate.
  - apply guardL_some in H as [Hi ->]. apply Z.leb_le in Hi.
    destruct (nth_z_some s i ltac:(lia)) as (x & E1 & E2). exists x. split; [exact E1|].
    unfold lin_ok, lin_val. cbn [l_c l_cf l_lo l_hi]. rewrite (nth_z_unit _ _ _ E2).
    split; [lia|]. apply nth_error_In in E2. rewrite Forall_forall in Hs. apply Hs in E2. exact E2.
  - discriminate.
  - (* HShl *)
    destruct (absD a) as [la|] eqn:Ea; [|discriminate].
    apply guardL_some in H as [Hg ->]. apply andb_true_iff in Hg as [Hk Hf]. apply Z.leb_le in Hk.
    destruct (IH _ eq_refl Hs Hm) as (v & Ev & Hv & Hlo).
    assert (Hp : 0 < 2 ^ k) by (apply Z.pow_pos_nonneg; lia).
    exists (2 ^ k * v). cbn [eval]. rewrite Ev. cbn [obind].
    destruct (Z.ltb_spec k 0); [lia|]. rewrite Z.shiftl_mul_pow2 by lia.
    assert (Hb : l_lo (scale_lin (2 ^ k) la) <= 2 ^ k * v <= l_hi (scale_lin (2 ^ k) la)).
    { cbn [scale_lin l_lo l_hi]. nia. }
    split.
    + f_equal. rewrite (Z.mul_comm v). apply (wrap_fitsI _ _ _ _ Hf Hb).
    + split; [|exact Hb]. unfold lin_val in *. cbn [scale_lin l_c l_cf]. rewrite dot_lscale. lia.
  - (* HAnd *)
    destruct (absD a) as [la|] eqn:Ea; [|discriminate].
    destruct (absD b) as [lb|] eqn:Eb; [|discriminate].
    destruct (IHa _ eq_refl Hs ltac:(lia)) as (va & Eva & Hva & Hba).
    destruct (IHb _ eq_refl Hs ltac:(lia)) as (vb & Evb & Hvb & Hbb).
    cbn [eval]. rewrite Eva, Evb. cbn [obind].
    unfold and_lin in H.
    destruct (is_const lb) eqn:Cb.
    + destruct (is_mask (l_c lb)) as [j|] eqn:Hj; [|discriminate].
      apply guardL_some in H as [Hg ->]. apply andb_true_iff in Hg as [Hg Hf].
      apply andb_true_iff in Hg as [H0 H1]. apply Z.leb_le in H0, H1.
      apply is_mask_spec in Hj as [Hj Hmask].
      rewrite (is_const_val lb s Cb) in Hvb. subst vb.
      exists va. split; [|split; assumption]. f_equal.
      rewrite Hmask, Z.land_ones by lia.
      rewrite Z.mod_small by (rewrite Hmask, Z.ones_equiv in H1; lia).
      apply (wrap_fitsI _ _ _ _ Hf Hba).
    + destruct (is_const la) eqn:Ca; [|discriminate].
      destruct (is_mask (l_c la)) as [j|] eqn:Hj; [|discriminate].
      apply guardL_some in H as [Hg ->]. apply andb_true_iff in Hg as [Hg Hf].
      apply andb_true_iff in Hg as [H0 H1]. apply Z.leb_le in H0, H1.
      apply is_mask_spec in Hj as [Hj Hmask].
      rewrite (is_const_val la s Ca) in Hva. subst va.
      exists vb. split; [|split; assumption]. f_equal.
      rewrite Z.land_comm, Hmask, Z.land_ones by lia.
      rewrite Z.mod_small by (rewrite Hmask, Z.ones_equiv in H1; lia).
      apply (wrap_fitsI _ _ _ _ Hf Hbb).
  - (* HAdd *)
    destruct (absD a) as [la|] eqn:Ea; [|discriminate].
    destruct (absD b) as [lb|] eqn:Eb; [|discriminate].
    destruct (IHa _ eq_refl Hs ltac:(lia)) as (va & Eva & Hva & Hba).
    destruct (IHb _ eq_refl Hs ltac:(lia)) as (vb & Evb & Hvb & Hbb).
    apply guardL_some in H as [Hf ->]. cbn [l_lo l_hi] in Hf.
    cbn [eval]. rewrite Eva, Evb. cbn [obind].
    exists (va + vb). split.
    + f_equal. apply (wrap_fitsI _ _ _ _ Hf). lia.
    + unfold lin_ok, lin_val in *. cbn [l_c l_cf l_lo l_hi]. rewrite dot_ladd. lia.
  - (* HSub *)
    destruct (absD a) as [la|] eqn:Ea; [|discriminate].
    destruct (absD b) as [lb|] eqn:Eb; [|discriminate].
    destruct (IHa _ eq_refl Hs ltac:(lia)) as (va & Eva & Hva & Hba).
    destruct (IHb _ eq_refl Hs ltac:(lia)) as (vb & Evb & Hvb & Hbb).
    apply guardL_some in H as [Hf ->]. cbn [l_lo l_hi] in Hf.
    cbn [eval]. rewrite Eva, Evb. cbn [obind].
    exists (va - vb). split.
    + f_equal. apply (wrap_fitsI _ _ _ _ Hf). lia.
    + unfold lin_ok, lin_val in *. cbn [l_c l_cf l_lo l_hi]. rewrite dot_ladd, dot_lscale. lia.
  - (* HMul *)
    destruct (absD a) as [la|] eqn:Ea; [|discriminate].
    destruct (absD b) as [lb|] eqn:Eb; [|discriminate].
    destruct (IHa _ eq_refl Hs ltac:(lia)) as (va & Eva & Hva & Hba).
    destruct (IHb _ eq_refl Hs ltac:(lia)) as (vb & Evb & Hvb & Hbb).
    cbn [eval]. rewrite Eva, Evb. cbn [obind].
    destruct (is_const la) eqn:Ca.
    + apply guardL_some in H as [Hg ->]. apply andb_true_iff in Hg as [H0 Hf]. apply Z.leb_le in H0.
      rewrite (is_const_val la s Ca) in Hva. subst va.
      assert (Hb : l_lo (scale_lin (l_c la) lb) <= l_c la * vb <= l_hi (scale_lin (l_c la) lb)).
      { cbn [scale_lin l_lo l_hi]. nia. }
      exists (l_c la * vb). split.
      * f_equal. apply (wrap_fitsI _ _ _ _ Hf Hb).
      * split; [|exact Hb]. unfold lin_val in *. cbn [scale_lin l_c l_cf]. rewrite dot_lscale. lia.
    + destruct (is_const lb) eqn:Cb; [|discriminate].
      apply guardL_some in H as [Hg ->]. apply andb_true_iff in Hg as [H0 Hf]. apply Z.leb_le in H0.
      rewrite (is_const_val lb s Cb) in Hvb. subst vb.
      assert (Hb : l_lo (scale_lin (l_c lb) la) <= va * l_c lb <= l_hi (scale_lin (l_c lb) la)).
      { cbn [scale_lin l_lo l_hi]. nia. }
      exists (va * l_c lb). split.
      * f_equal. apply (wrap_fitsI _ _ _ _ Hf Hb).
      * split; [|exact Hb]. unfold lin_val in *. cbn [scale_lin l_c l_cf]. rewrite dot_lscale. lia.
  - (* HConv *)
    destruct (absD a) as [la|] eqn:Ea; [|discriminate].
    apply guardL_some in H as [Hf ->].
    destruct (IH _ eq_refl Hs Hm) as (v & Ev & Hv & Hb).
    exists v. cbn [eval]. rewrite Ev. cbn [obind]. split; [|split; assumption].
    f_equal. apply (wrap_fitsI _ _ _ _ Hf Hb).
Qed.

(* ------------------------------------------------------------------ decision trees *)
Inductive atom := AByteNe (i c : Z) | ALenLt (k : Z).

Inductive xtree :=
| XIf (a : atom) (t e : xtree)
| XErr
| XSet (c : Z) (cf : list Z) (maxidx : Z) (i : Z) (maxn : bool).

Definition eval_atom (s : list Z) (a : atom) : option bool :=
  match a with
  | AByteNe i c => obind (nth_z s i) (fun v => Some (negb (v =? c)))
  | ALenLt k => Some (len s <? k)
  end.

Fixpoint eval_xtree (s : list Z) (x : xtree) : res (Z * Z) :=
  match x with
  | XIf a t e =>
    match eval_atom s a with
    | Some true => eval_xtree s t
    | Some false => eval_xtree s e
    | None => Panic
    end
  | XErr => Err
  | XSet c cf maxidx i maxn =>
    if len s <=? maxidx then Panic else
    let v := c + dot cf s in
    if maxn && (4294967296 <? v) then Err else Ok (v, i)
  end.

(* a condition as an atom, and whether the branches are to be swapped *)
Definition norm_cond (c : dcond) : atom * bool :=
  match c with
  | DByteNe i c => (AByteNe i c, false)
  | DByteEq i c => (AByteNe i c, true)
  | DLenLt k => (ALenLt k, false)
  | DLenLe k => (ALenLt (k + 1), false)
  | DLenGt k => (ALenLt (k + 1), true)
  | DLenGe k => (ALenLt k, true)
  end.

Definition atom_eqb (a b : atom) : bool :=
  match a, b with
  | AByteNe i c, AByteNe i' c' => (i =? i') && (c =? c')
  | ALenLt k, ALenLt k' => k =? k'
  | _, _ => false
  end.

Fixpoint check_dtree (t : dtree) (x : xtree) : bool :=
  match t, x with
  | DIf c t1 t2, XIf a x1 x2 =>
    let (a', sw) := norm_cond c in
    atom_eqb a' a &&
    (if sw then check_dtree t2 x1 && check_dtree t1 x2 else check_dtree t1 x1 && check_dtree t2 x2)
  | DErr, XErr => true
  | DSet e i m, XSet c cf maxidx i' m' =>
    match absD e with
    | Some l => (l_c l =? c) && coefs_eqb (l_cf l) cf && (max_idx e =? maxidx) && (i =? i') && Bool.eqb m m'
    | None => false
    end
  | _, _ => false
  end.

Lemma norm_cond_sound : forall s c, eval_dcond s c =
  match eval_atom s (fst (norm_cond c)) with
  | Some b => Some (if snd (norm_cond c) then negb b else b)
  | None => None
  end.
Proof.
  intros s [i c|i c|k|k|k|k]; cbn [eval_dcond norm_cond fst snd eval_atom].
  - destruct (nth_z s i); reflexivity.
  - destruct (nth_z s i); cbn [obind]; [rewrite negb_involutive|]; reflexivity.
  - reflexivity.
  - f_equal. destruct (Z.leb_spec (len s) k), (Z.ltb_spec (len s) (k + 1)); try reflexivity; lia.
  - f_equal. destruct (Z.ltb_spec k (len s)), (Z.ltb_spec (len s) (k + 1)); try reflexivity; lia.
  - f_equal. destruct (Z.leb_spec k (len s)), (Z.ltb_spec (len s) k); try reflexivity; lia.
Qed.

Lemma atom_eqb_eq : forall a b, atom_eqb a b = true -> a = b.
Proof.
  intros [i c|k] [i' c'|k'] H; cbn in H; try discriminate.
  - apply andb_true_iff in H as [H1 H2]. apply Z.eqb_eq in H1, H2. congruence.
  - apply Z.eqb_eq in H. congruence.
Qed.

Theorem check_dtree_sound : forall t x, check_dtree t x = true ->
  forall s, Forall inr s -> eval_dtree s t = eval_xtree s x.
Proof.
  induction t as [c t1 IH1 t2 IH2| |e i m]; intros x H s Hs; destruct x as [a x1 x2| |xc cf maxidx i' m'];
    cbn [check_dtree] in H; try discriminate.
  - destruct (norm_cond c) as [a' sw] eqn:En.
    apply andb_true_iff in H as [Ha H]. apply atom_eqb_eq in Ha. subst a'.
    cbn [eval_dtree eval_xtree]. rewrite norm_cond_sound, En. cbn [fst snd].
    destruct (eval_atom s a) as [b|]; [|reflexivity].
    destruct sw; apply andb_true_iff in H as [H1 H2]; destruct b; cbn [negb]; auto.
  - reflexivity.
  - destruct (absD e) as [l|] eqn:Ea; [|discriminate].
    apply andb_true_iff in H as [H H5]. apply andb_true_iff in H as [H H4].
    apply andb_true_iff in H as [H H3]. apply andb_true_iff in H as [H1 H2].
    apply Z.eqb_eq in H1, H3, H4. apply Bool.eqb_prop in H5. subst xc maxidx i' m'.
    cbn [eval_dtree eval_xtree].
    destruct (Z.leb_spec (len s) (max_idx e)).
    + rewrite eval_short by assumption. reflexivity.
    + destruct (absD_sound 0 s e l Ea Hs ltac:(lia)) as (v & Ev & Hv & _).
      rewrite Ev. unfold lin_val in Hv. rewrite (coefs_eqb_dot _ _ s H2) in Hv. subst v. reflexivity.
Qed.
