(* The graph6 and sparse6 formats, written from the published text (nauty's formats.txt), not
   from the code (definitions only).

   graph6:  N(n) R(x), x the upper triangle of the adjacency matrix in the order
            (0,1),(0,2),(1,2),(0,3),(1,3),(2,3),...,(n-2,n-1).
   R(x):    pad x on the right with 0 to a multiple of 6 bits, split into groups of 6 bits, each
            group is the big-endian binary number of one byte, add 63 to each byte.
   N(n):    0 <= n <= 62: the single byte n+63;  63 <= n <= 258047: 126 R(x), x the 18-bit
            big-endian form of n;  258048 <= n <= 68719476735: 126 126 R(x), x the 36-bit form.
   sparse6: ':' N(n), then with k = the number of bits needed to represent n-1 the bytes
            R(b[0] x[0] b[1] x[1] ... ) where each b is 1 bit and each x is k bits, padded
            with 1-bits; the edges are given by
              v = 0; for i = 0.. : if b[i] = 1 then v = v+1;  if x[i] > v then v = x[i] else
              output {x[i], v}
            an incomplete pair at the end is discarded and so is everything once v >= n. *)
From Coq Require Import List ZArith Bool Arith.
From Mamba Require Import Codec.Model.
Import ListNotations.
Open Scope Z_scope.

(* big-endian value of a bit list *)
Fixpoint val_bits (l : list bool) (acc : Z) : Z :=
  match l with
  | [] => acc
  | b :: r => val_bits r (2 * acc + (if b then 1 else 0))
  end.

(* value of a group of at most 6 bits, padded on the right with 0 *)
Definition val6 (l : list bool) : Z := val_bits (l ++ repeat false (6 - length l)) 0.

(* R(x) *)
Fixpoint pack6 (l : list bool) : list Z :=
  match l with
  | [] => []
  | b0 :: b1 :: b2 :: b3 :: b4 :: b5 :: r => (val6 [b0; b1; b2; b3; b4; b5] + 63) :: pack6 r
  | _ => [val6 l + 63]
  end.

(* the [cnt] low bits of v, most significant first *)
Fixpoint bits_be (cnt : nat) (v : Z) : list bool :=
  match cnt with
  | O => []
  | S c => Z.testbit v (Z.of_nat c) :: bits_be c v
  end.

(* N(n) *)
Definition spec_N (n : Z) : list Z :=
  if n <=? 62 then [n + 63]
  else if n <=? 258047 then 126 :: pack6 (bits_be 18 n)
  else 126 :: 126 :: pack6 (bits_be 36 n).

(* the graph6 string of g *)
Definition g6_spec (g : graph) : list Z := spec_N (Z.of_nat (gn g)) ++ pack6 (tri_bits g).

(* inverse of R: the bit stream of a list of bytes *)
Definition unpack6 (s : list Z) : list bool := flat_map (fun c => bits_be 6 (c - 63)) s.

(* reading N(n): the number and the rest of the string *)
Definition spec_read_N (s : list Z) : option (Z * list Z) :=
  match s with
  | [] => None
  | c :: r =>
    if negb (c =? 126) then Some (c - 63, r)
    else match r with
         | [] => None
         | c1 :: r1 =>
           if negb (c1 =? 126) then
             if (length r <? 3)%nat then None
             else Some (val_bits (unpack6 (firstn 3 r)) 0, skipn 3 r)
           else
             if (length r1 <? 6)%nat then None
             else Some (val_bits (unpack6 (firstn 6 r1)) 0, skipn 6 r1)
         end
  end.

(* the graph with graph6 string s: n and the triangle; None if s is not a graph6 string *)
Definition g6_spec_decode (s : list Z) : option (Z * list bool) :=
  if negb (forallb in_range s) then None else
  match spec_read_N s with
  | None => None
  | Some (n, r) =>
    let x := unpack6 r in
    if (length x <? Z.to_nat (tri n))%nat then None
    else Some (n, firstn (Z.to_nat (tri n)) x)
  end.

(* the first k elements and the rest; None if there are fewer than k *)
Fixpoint split_k (k : nat) (l : list bool) : option (list bool * list bool) :=
  match k with
  | O => Some ([], l)
  | S k' =>
    match l with
    | [] => None
    | b :: r => match split_k k' r with
                | Some (a, rest) => Some (b :: a, rest)
                | None => None
                end
    end
  end.

(* the pairs (b, x) of a bit stream; an incomplete final pair is discarded.  Every step uses at
   least one bit, so the length of the stream is enough fuel. *)
Fixpoint s6_pairs_fuel (fuel : nat) (k : nat) (bits : list bool) : list (bool * Z) :=
  match fuel with
  | O => []
  | S f =>
    match bits with
    | [] => []
    | b :: r =>
      match split_k k r with
      | None => []
      | Some (x, rest) => (b, val_bits x 0) :: s6_pairs_fuel f k rest
      end
    end
  end.
Definition s6_pairs (k : nat) (bits : list bool) : list (bool * Z) :=
  s6_pairs_fuel (length bits) k bits.

(* the edges {x,v} output by the pair sequence, in order, as (v,x); v is the current vertex *)
Fixpoint s6_edges (n : Z) (v : Z) (ps : list (bool * Z)) : list (Z * Z) :=
  match ps with
  | [] => []
  | (b, x) :: r =>
    let v1 := if b then v + 1 else v in
    if v1 <? x then s6_edges n x r
    else if v1 <? n then (v1, x) :: s6_edges n v1 r
    else s6_edges n v1 r
  end.

(* number of bits needed to represent n-1 *)
Definition s6_k (n : Z) : nat := Z.to_nat (bitlen (n - 1)).

(* the (multi)graph with sparse6 string s: n and the list of edges in the order of output *)
Definition s6_spec_decode (s : list Z) : option (Z * list (Z * Z)) :=
  match s with
  | [] => None
  | c :: r =>
    if negb (c =? 58) then None else
    if negb (forallb in_range r) then None else
    match spec_read_N r with
    | None => None
    | Some (n, d) => Some (n, s6_edges n 0 (s6_pairs (s6_k n) (unpack6 d)))
    end
  end.
