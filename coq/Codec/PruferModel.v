(* Model of PruferEncode and PruferDecode of /repo/graph/encoding.go as they are written
   (definitions only). *)
From Coq Require Import List ZArith Bool Arith.
From Mamba Require Import Codec.PruferMulticodeBase.
Import ListNotations.

(* ------------------------------------------------------------------ PruferDecode *)

(* for _, v := range p { degrees[v]++ } *)
Fixpoint incr_all (deg : list Z) (p : list nat) : res (list Z) :=
  match p with
  | [] => Ok deg
  | v :: r => do deg' <- add_at deg v 1; incr_all deg' r
  end.

(* the first j of js with degrees[j] == 1 *)
Fixpoint first_one (deg : list Z) (js : list nat) : res (option nat) :=
  match js with
  | [] => Ok None
  | j :: r => do d <- get deg j; if (d =? 1)%Z then Ok (Some j) else first_one deg r
  end.

(* the body of  for _, v := range p *)
Definition pd_step (n : nat) (st : list Z * list bool) (v : nat) : res (list Z * list bool) :=
  let (deg, edges) := st in
  do fo <- first_one deg (seq 0 n);
  match fo with
  | None => Ok st
  | Some j =>
    do edges' <- set edges (if v <? j then tri j + v else tri v + j) true;
    do deg1 <- add_at deg j (-1);
    do deg2 <- add_at deg1 v (-1);
    Ok (deg2, edges')
  end.

Fixpoint pd_loop (n : nat) (p : list nat) (st : list Z * list bool) : res (list Z * list bool) :=
  match p with
  | [] => Ok st
  | v :: r => do st' <- pd_step n st v; pd_loop n r st'
  end.

(* the last edge: the first i with degrees[i] == 1 and the first j > i with degrees[j] == 1 *)
Definition pd_last (n : nat) (st : list Z * list bool) : res (list bool) :=
  let (deg, edges) := st in
  do fi <- first_one deg (seq 0 n);
  match fi with
  | None => Ok edges
  | Some i =>
    do fj <- first_one deg (seq (S i) (n - S i));
    match fj with
    | None => Ok edges
    | Some j => set edges (tri j + i) true
    end
  end.

(* ------------------------------------------------------------------ NewDense(n, edges), edges != nil
   (graph/graph_dense.go; PruferDecode always passes a slice made by make, which is not nil) *)
Fixpoint fold_res {A B} (f : A -> B -> res A) (l : list B) (a : A) : res A :=
  match l with
  | [] => Ok a
  | b :: r => do a' <- f a b; fold_res f r a'
  end.

(* the pairs (i, j) in the order of  for j := 0; j < n; j++ { for i := 0; i < j; i++ {..} } *)
Definition all_cells (n : nat) : list (nat * nat) :=
  flat_map (fun j => map (fun i => (i, j)) (seq 0 j)) (seq 0 n).

(* if edges[index] > 0 { degrees[i]++; degrees[j]++; m++ }; index++ *)
Definition nd_cell (edges : list bool) (st : nat * Z * list Z) (ij : nat * nat) : res (nat * Z * list Z) :=
  let '(index, m, deg) := st in
  let (i, j) := ij in
  do b <- get edges index;
  if b : bool then
    do d1 <- add_at deg i 1;
    do d2 <- add_at d1 j 1;
    Ok (S index, (m + 1)%Z, d2)
  else Ok (S index, m, deg).

Definition new_dense (n : nat) (edges : list bool) : res dgraph :=
  if negb (length edges =? tri n) then Panic                 (* panic("Wrong number of edges") *)
  else
    do st <- fold_res (nd_cell edges) (all_cells n) (0, 0%Z, repeat 0%Z n);
    let '(_, m, deg) := st in
    Ok {| dn := n; dm := m; ddeg := deg; dedges := edges |}.

(* The elements of p are Go ints: the first loop executes degrees[v]++ for every element
   before anything else happens, so a negative element panics whatever the rest is; the model
   therefore converts the whole code to [nat] first.  [prufer_decode_args] is the pair of
   arguments handed to NewDense. *)
Definition prufer_decode_args (p : list Z) : res (nat * list bool) :=
  do pn <- map_res idx p;
  let n := length pn + 2 in
  do deg <- incr_all (repeat 1%Z n) pn;
  do st <- pd_loop n pn (deg, repeat false (tri n));
  do edges <- pd_last n st;
  Ok (n, edges).

Definition prufer_decode (p : list Z) : res dgraph :=
  do ne <- prufer_decode_args p;
  new_dense (fst ne) (snd ne).

(* ------------------------------------------------------------------ PruferEncode *)

(* for j, v := range verticesLeftToRemove { if degrees[v] == 1 {..; break} }:
   the first position j and element v with degrees[v] == 1 *)
Fixpoint first_leaf (deg : list Z) (vs : list nat) (j : nat) : res (option (nat * nat)) :=
  match vs with
  | [] => Ok None
  | v :: r => do d <- get deg v; if (d =? 1)%Z then Ok (Some (j, v)) else first_leaf deg r (S j)
  end.

(* copy(vs[j:], vs[j+1:]) for j < len(vs): the slice keeps its length, its last element is
   duplicated *)
Definition remove_at (vs : list nat) (j : nat) : list nat :=
  firstn j vs ++ skipn (S j) vs ++ [last vs 0].

(* state: verticesLeftToRemove, degrees, prufer (most recent first) *)
Definition pe_step (g : graph) (st : list nat * list Z * list nat) : res (list nat * list Z * list nat) :=
  let '(vs, deg, out) := st in
  do fl <- first_leaf deg vs 0;
  match fl with
  | None => Ok st
  | Some (j, v) =>
    do r <-
      match find (fun u => gadj g u v) vs with
      | Some u => do deg' <- add_at deg u (-1); Ok (deg', u :: out)
      | None => Ok (deg, out)
      end;
    let (deg', out') := r in
    Ok (remove_at vs j, deg', out')
  end.

Fixpoint pe_iter (g : graph) (cnt : nat) (st : list nat * list Z * list nat) : res (list nat * list Z * list nat) :=
  match cnt with
  | O => Ok st
  | S c => do st' <- pe_step g st; pe_iter g c st'
  end.

Definition prufer_encode (g : graph) : res (list Z) :=
  (* make([]int, 0, n-2) panics for n < 2 *)
  if gn g <? 2 then Panic else
  do st <- pe_iter g (gn g - 2) (seq 0 (gn g), degrees g, []);
  let '(_, _, out) := st in
  Ok (map Z.of_nat (rev out)).
