(* Common definitions of the Multicode and Pruefer models (definitions only).

   These two models are self-contained (they do not use Codec/Model.v): vertices and slice
   positions are [nat], byte values and degree counters are [Z], a []byte / []int slice is a
   list, a Go panic (index out of range, explicit panic, makeslice with negative capacity) is
   [Panic] -- never a default value.  Every loop of the five functions is a range loop or a
   counted loop, so all of them are structural recursions and no fuel is needed. *)
From Coq Require Import List ZArith Bool Arith.
Import ListNotations.

Inductive res (A : Type) : Type :=
| Ok (a : A)
| Panic.
Arguments Ok {A} a.
Arguments Panic {A}.

Definition bind {A B} (r : res A) (f : A -> res B) : res B :=
  match r with
  | Ok a => f a
  | Panic => Panic
  end.
Notation "'do' x <- r ; k" := (bind r (fun x => k)) (at level 200, x pattern, r at level 100, k at level 200).

(* s[i] *)
Definition get {A} (l : list A) (i : nat) : res A :=
  match nth_error l i with
  | Some a => Ok a
  | None => Panic
  end.

(* s[i] = v *)
Fixpoint set {A} (l : list A) (i : nat) (v : A) : res (list A) :=
  match l, i with
  | [], _ => Panic
  | _ :: t, O => Ok (v :: t)
  | h :: t, S j => match set t j v with Ok t' => Ok (h :: t') | Panic => Panic end
  end.

(* s[i] += d *)
Definition add_at (l : list Z) (i : nat) (d : Z) : res (list Z) :=
  do x <- get l i; set l i (x + d)%Z.

(* an int used as an index: negative values panic *)
Definition idx (v : Z) : res nat := if (v <? 0)%Z then Panic else Ok (Z.to_nat v).

Fixpoint map_res {A B} (f : A -> res B) (l : list A) : res (list B) :=
  match l with
  | [] => Ok []
  | a :: r => do b <- f a; do r' <- map_res f r; Ok (b :: r')
  end.

(* (j*(j-1))/2: the cell of the pair i < j in DenseGraph.Edges is tri j + i *)
Definition tri (j : nat) : nat := (j * (j - 1)) / 2.

(* ------------------------------------------------------------------ the Graph interface
   The encoders take a value of the Go interface Graph; the model takes N() and IsEdge and
   derives Degrees() and M() from them (that the methods of a graph value are consistent in
   this way is the subject of C05/C06). *)
Record graph := { gn : nat; gadj : nat -> nat -> bool }.

(* a simple graph: IsEdge is symmetric and has no loops *)
Definition simple (g : graph) : Prop :=
  (forall i j, gadj g i j = gadj g j i) /\ (forall i, gadj g i i = false).

Definition degree (g : graph) (v : nat) : Z :=
  Z.of_nat (length (filter (gadj g v) (seq 0 (gn g)))).
(* Degrees() *)
Definition degrees (g : graph) : list Z := map (degree g) (seq 0 (gn g)).
(* the neighbours above i *)
Definition up_nbrs (g : graph) (i : nat) : list nat := filter (gadj g i) (seq (S i) (gn g - S i)).
(* the edges (i,j), i < j, in the order (0,1),(0,2),...,(1,2),... *)
Definition pairs_up (g : graph) : list (nat * nat) :=
  flat_map (fun i => map (pair i) (up_nbrs g i)) (seq 0 (gn g)).
(* M() *)
Definition gm (g : graph) : Z := Z.of_nat (length (pairs_up g)).
(* DenseGraph.Edges: column order (0,1),(0,2),(1,2),(0,3),... *)
Definition tri_bits (g : graph) : list bool :=
  flat_map (fun j => map (fun i => gadj g i j) (seq 0 j)) (seq 0 (gn g)).

(* the DenseGraph literal returned by MulticodeDecode *)
Record dgraph := { dn : nat; dm : Z; ddeg : list Z; dedges : list bool }.

(* the DenseGraph that is equal to g *)
Definition dense_of (g : graph) : dgraph :=
  {| dn := gn g; dm := gm g; ddeg := degrees g; dedges := tri_bits g |}.

(* IsEdge of a DenseGraph with n vertices and edge bytes b (false outside the range) *)
Definition bits_adj (n : nat) (b : list bool) (i j : nat) : bool :=
  if (i <? n) && (j <? n) then
    if i <? j then nth (tri j + i) b false
    else if j <? i then nth (tri i + j) b false
    else false
  else false.
Definition graph_of_bits (n : nat) (b : list bool) : graph := {| gn := n; gadj := bits_adj n b |}.
