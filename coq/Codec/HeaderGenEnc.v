(* A small proved decision procedure for the encoder side of the regenerated size headers.

   Abstract domain: a header byte, as a function of the vertex count n in a branch 0 <= n <= hi,
   is a bit field of n plus a constant:  (a, w, c)  stands for  ((n >> a) & (2^w - 1)) + c.
   [absE hi e] computes this form for an expression e of Codec/HeaderGenSyntax.v, refusing
   ([None]) whenever an intermediate result could wrap at the width Go evaluates it in or the
   expression leaves the domain.  [absE_sound]: for EVERY n in the branch, Go's value of e (the
   evaluator [eval], with wrap-around) is the value of the form.  Two phrasings of a header byte
   that are equal on the whole branch range -- (n>>12)&63, n>>12&0x3f, byte(n>>12) under
   n <= 258047, ... -- get the same form, since the width is cut to the bits n can have.

   [check_branches] compares a regenerated chain with an expected list of (bound, kind, forms);
   [check_branches_sound]: a chain that passes behaves, for all n >= 0, like the expected list. *)
From Coq Require Import List ZArith Bool Lia.
From Mamba Require Import Codec.Model Codec.HeaderGenSyntax.
Import ListNotations.
Open Scope Z_scope.

Definition av := (Z * Z * Z)%type.

Definition av_val (v : av) (n : Z) : Z :=
  let '(a, w, c) := v in Z.land (Z.shiftr n a) (Z.ones w) + c.

Definition av_wf (v : av) : Prop := let '(a, w, c) := v in 0 <= a /\ 0 <= w /\ 0 <= c.

(* canonical form of an empty field *)
Definition mk (a w c : Z) : av := if w <=? 0 then (0, 0, c) else (a, w, c).

Definition ty_top (t : hty) : Z :=
  match t with TByte => 255 | TU64 => 18446744073709551615 | TInt => 9223372036854775807 end.

(* every value 0 .. 2^w - 1 + c is representable in type t *)
Definition fits (t : option hty) (w c : Z) : bool :=
  match t with None => true | Some t => 2 ^ w - 1 + c <=? ty_top t end.

(* m = 2^j - 1 *)
Definition is_mask (m : Z) : option Z :=
  if (0 <=? m) && (Z.ones (bitlen m) =? m) then Some (bitlen m) else None.

Definition guard (b : bool) (v : av) : option av := if b then Some v else None.

Definition and_av (t : option hty) (x y : av) : option av :=
  let '(a1, w1, c1) := x in
  let '(a2, w2, c2) := y in
  if (c1 =? 0) && (w2 =? 0) then
    match is_mask c2 with
    | Some j => guard (fits t (Z.min w1 j) 0) (mk a1 (Z.min w1 j) 0)
    | None => None
    end
  else if (w1 =? 0) && (c2 =? 0) then
    match is_mask c1 with
    | Some j => guard (fits t (Z.min w2 j) 0) (mk a2 (Z.min w2 j) 0)
    | None => None
    end
  else None.

Fixpoint absE (hi : Z) (e : hexpr) : option av :=
  match e with
  | HConst c => guard (0 <=? c) (0, 0, c)
  | HN => Some (mk 0 (bitlen hi) 0)
  | HByte _ => None
  | HShr a k =>
    match absE hi a with
    | Some (a0, w, c) => guard ((c =? 0) && (0 <=? k)) (mk (a0 + k) (w - k) 0)
    | None => None
    end
  | HShl a k =>
    match absE hi a with
    | Some (_, w, c) =>
      guard ((w =? 0) && (0 <=? k) && fits (ty_of a) 0 (Z.shiftl c k)) (0, 0, Z.shiftl c k)
    | None => None
    end
  | HAnd a b =>
    match absE hi a, absE hi b with
    | Some x, Some y => and_av (ty_of e) x y
    | _, _ => None
    end
  | HAdd a b =>
    match absE hi a, absE hi b with
    | Some (a1, w1, c1), Some (a2, w2, c2) =>
      if w2 =? 0 then guard (fits (ty_of e) w1 (c1 + c2)) (a1, w1, c1 + c2)
      else if w1 =? 0 then guard (fits (ty_of e) w2 (c1 + c2)) (a2, w2, c1 + c2)
      else None
    | _, _ => None
    end
  | HSub a b =>
    match absE hi a, absE hi b with
    | Some (a1, w1, c1), Some (_, w2, c2) =>
      guard ((w2 =? 0) && (c2 <=? c1) && fits (ty_of e) w1 (c1 - c2)) (a1, w1, c1 - c2)
    | _, _ => None
    end
  | HMul a b =>
    match absE hi a, absE hi b with
    | Some (_, w1, c1), Some (_, w2, c2) =>
      guard ((w1 =? 0) && (w2 =? 0) && fits (ty_of e) 0 (c1 * c2)) (0, 0, c1 * c2)
    | _, _ => None
    end
  | HConv t a =>
    match absE hi a with
    | Some (a0, w, c) =>
      if fits (Some t) w c then Some (a0, w, c)
      else match t with
           | TByte => guard (c =? 0) (mk a0 (Z.min w 8) 0)
           | _ => None
           end
    | None => None
    end
  end.

(* ------------------------------------------------------------------ arithmetic *)
Lemma land_ones_bounds : forall x w, 0 <= w -> 0 <= Z.land x (Z.ones w) <= 2 ^ w - 1.
Proof.
  intros x w Hw. rewrite Z.land_ones by lia.
  pose proof (Z.mod_pos_bound x (2 ^ w) ltac:(apply Z.pow_pos_nonneg; lia)). lia.
Qed.

Lemma land_ones_0 : forall x, Z.land x (Z.ones 0) = 0.
Proof. intros x. change (Z.ones 0) with 0. apply Z.land_0_r. Qed.

Lemma mk_val : forall a w c n, av_val (mk a w c) n = Z.land (Z.shiftr n a) (Z.ones (Z.max 0 w)) + c.
Proof.
  intros a w c n. unfold mk. destruct (Z.leb_spec w 0).
  - cbn [av_val]. replace (Z.max 0 w) with 0 by lia. rewrite !land_ones_0. reflexivity.
  - cbn [av_val]. replace (Z.max 0 w) with w by lia. reflexivity.
Qed.

Lemma mk_wf : forall a w c, 0 <= a -> 0 <= c -> av_wf (mk a w c).
Proof. intros a w c Ha Hc. unfold mk. destruct (Z.leb_spec w 0); cbn; lia. Qed.

Lemma shr_field : forall x w k, 0 <= w -> 0 <= k ->
  Z.shiftr (Z.land x (Z.ones w)) k = Z.land (Z.shiftr x k) (Z.ones (Z.max 0 (w - k))).
Proof.
  intros x w k Hw Hk. apply Z.bits_inj'. intros i Hi.
  rewrite Z.shiftr_spec, !Z.land_spec, Z.shiftr_spec by lia.
  rewrite !Z.testbit_ones_nonneg by lia. f_equal.
  destruct (Z.ltb_spec (i + k) w), (Z.ltb_spec i (Z.max 0 (w - k))); try reflexivity; lia.
Qed.

Lemma and_field : forall x w j, 0 <= w -> 0 <= j ->
  Z.land (Z.land x (Z.ones w)) (Z.ones j) = Z.land x (Z.ones (Z.min w j)).
Proof.
  intros x w j Hw Hj. apply Z.bits_inj'. intros i Hi.
  rewrite !Z.land_spec, !Z.testbit_ones_nonneg by lia. rewrite <- andb_assoc. f_equal.
  destruct (Z.ltb_spec i w), (Z.ltb_spec i j), (Z.ltb_spec i (Z.min w j)); try reflexivity; lia.
Qed.

Lemma byte_of_land : forall x, byte_of x = Z.land x (Z.ones 8).
Proof. intros x. unfold byte_of. rewrite Z.land_ones by lia. reflexivity. Qed.

Lemma lt_pow2_bitlen : forall n hi, 0 <= n <= hi -> n < 2 ^ bitlen hi.
Proof.
  intros n hi H. unfold bitlen. destruct (Z.leb_spec hi 0).
  - change (2 ^ 0) with 1. lia.
  - pose proof (Z.log2_spec hi ltac:(lia)) as L. replace (Z.log2 hi + 1) with (Z.succ (Z.log2 hi)) by lia. lia.
Qed.

Lemma bitlen_nonneg : forall x, 0 <= bitlen x.
Proof. intros x. unfold bitlen. destruct (x <=? 0); [lia|]. pose proof (Z.log2_nonneg x). lia. Qed.

Lemma is_mask_spec : forall m j, is_mask m = Some j -> 0 <= j /\ m = Z.ones j.
Proof.
  intros m j H. unfold is_mask in H.
  destruct (0 <=? m) eqn:E1; [|discriminate]. destruct (Z.eqb_spec (Z.ones (bitlen m)) m); [|discriminate].
  cbn in H. injection H as <-. split; [apply bitlen_nonneg|congruence].
Qed.

Lemma wrap_fits : forall t w c v, fits t w c = true -> 0 <= v <= 2 ^ w - 1 + c -> wrap_ty t v = v.
Proof.
  intros t w c v Hf Hv. destruct t as [t|]; [|reflexivity].
  unfold fits in Hf. apply Z.leb_le in Hf.
  destruct t; cbn [ty_top] in Hf; cbn [wrap_ty].
  - unfold byte_of. apply Z.mod_small. lia.
  - unfold u64. apply Z.mod_small. lia.
  - unfold wrap64, u64, s64. rewrite Z.mod_small by lia.
    destruct (Z.ltb_spec v 9223372036854775808); lia.
Qed.

Lemma guard_some : forall b v r, guard b v = Some r -> b = true /\ r = v.
Proof. intros b v r H. destruct b; [injection H as <-; auto|discriminate]. Qed.

Lemma av_bounds : forall a w c n, 0 <= w -> 0 <= c -> 0 <= av_val (a, w, c) n <= 2 ^ w - 1 + c.
Proof. intros a w c n Hw Hc. cbn [av_val]. pose proof (land_ones_bounds (Z.shiftr n a) w Hw). lia. Qed.

(* ------------------------------------------------------------------ soundness of absE *)
Lemma absE_sound : forall hi e v, absE hi e = Some v ->
  av_wf v /\ forall n, 0 <= n <= hi -> eval n [] e = Some (av_val v n).
Proof.
  intros hi e. induction e as [c| |i|a IH k|a IH k|a IHa b IHb|a IHa b IHb|a IHa b IHb|a IHa b IHb|t a IH];
    intros v H; cbn [absE] in H.
  - (* HConst *)
    apply guard_some in H as [Hc ->]. apply Z.leb_le in Hc. split; [cbn; lia|].
    intros n _. cbn [eval av_val]. rewrite land_ones_0. reflexivity.
  - (* HN *)
    injection H as <-. split; [apply mk_wf; lia|].
    intros n Hn. cbn [eval]. rewrite mk_val, Z.shiftr_0_r.
    pose proof (bitlen_nonneg hi). replace (Z.max 0 (bitlen hi)) with (bitlen hi) by lia.
    rewrite Z.land_ones by lia. rewrite Z.mod_small; [f_equal; lia|].
    pose proof (lt_pow2_bitlen n hi Hn). lia.
  - discriminate.
  - (* HShr *)
    destruct (absE hi a) as [[[a0 w] c]|]; [|discriminate].
    apply guard_some in H as [Hg ->]. apply andb_true_iff in Hg as [Hc Hk].
    apply Z.eqb_eq in Hc. subst c. apply Z.leb_le in Hk.
    destruct (IH _ eq_refl) as [(Ha0 & Hw & _) Hev].
    split; [apply mk_wf; lia|].
    intros n Hn. cbn [eval]. rewrite (Hev n Hn). cbn [obind].
    destruct (Z.ltb_spec k 0); [lia|]. f_equal.
    rewrite mk_val. cbn [av_val]. rewrite !Z.add_0_r.
    rewrite shr_field, Z.shiftr_shiftr by lia. reflexivity.
  - (* HShl of a constant *)
    destruct (absE hi a) as [[[a0 w] c]|]; [|discriminate].
    apply guard_some in H as [Hg ->].
    apply andb_true_iff in Hg as [Hg Hf]. apply andb_true_iff in Hg as [Hw0 Hk].
    apply Z.eqb_eq in Hw0. subst w. apply Z.leb_le in Hk.
    destruct (IH _ eq_refl) as [(Ha0 & _ & Hc) Hev].
    assert (Hs : 0 <= Z.shiftl c k) by (apply Z.shiftl_nonneg; lia).
    split; [cbn; lia|].
    intros n Hn. cbn [eval]. rewrite (Hev n Hn). cbn [obind].
    destruct (Z.ltb_spec k 0); [lia|]. f_equal.
    cbn [av_val]. rewrite !land_ones_0, !Z.add_0_l.
    apply (wrap_fits _ 0 (Z.shiftl c k)); [exact Hf|]. change (2 ^ 0) with 1. lia.
  - (* HAnd *)
    destruct (absE hi a) as [[[a1 w1] c1]|] eqn:Ea; [|discriminate].
    destruct (absE hi b) as [[[a2 w2] c2]|] eqn:Eb; [|discriminate].
    destruct (IHa _ eq_refl) as [(Ha1 & Hw1 & Hc1) Hea].
    destruct (IHb _ eq_refl) as [(Ha2 & Hw2 & Hc2) Heb].
    unfold and_av in H.
    destruct ((c1 =? 0) && (w2 =? 0)) eqn:E1.
    + apply andb_true_iff in E1 as [E1 E2]. apply Z.eqb_eq in E1, E2. subst c1 w2.
      destruct (is_mask c2) as [j|] eqn:Hm; [|discriminate].
      apply guard_some in H as [Hf ->]. apply is_mask_spec in Hm as [Hj ->].
      split; [apply mk_wf; lia|].
      intros n Hn. cbn [eval]. rewrite (Hea n Hn), (Heb n Hn). cbn [obind]. f_equal.
      rewrite mk_val. cbn [av_val]. rewrite land_ones_0, !Z.add_0_r, Z.add_0_l.
      replace (Z.max 0 (Z.min w1 j)) with (Z.min w1 j) by lia.
      rewrite and_field by lia.
      apply (wrap_fits _ (Z.min w1 j) 0); [exact Hf|].
      pose proof (land_ones_bounds (Z.shiftr n a1) (Z.min w1 j) ltac:(lia)). lia.
    + destruct ((w1 =? 0) && (c2 =? 0)) eqn:E2; [|discriminate].
      apply andb_true_iff in E2 as [E2 E3]. apply Z.eqb_eq in E2, E3. subst w1 c2.
      destruct (is_mask c1) as [j|] eqn:Hm; [|discriminate].
      apply guard_some in H as [Hf ->]. apply is_mask_spec in Hm as [Hj ->].
      split; [apply mk_wf; lia|].
      intros n Hn. cbn [eval]. rewrite (Hea n Hn), (Heb n Hn). cbn [obind]. f_equal.
      rewrite mk_val. cbn [av_val]. rewrite land_ones_0, !Z.add_0_r, Z.add_0_l.
      replace (Z.max 0 (Z.min w2 j)) with (Z.min w2 j) by lia.
      rewrite Z.land_comm, and_field by lia.
      apply (wrap_fits _ (Z.min w2 j) 0); [exact Hf|].
      pose proof (land_ones_bounds (Z.shiftr n a2) (Z.min w2 j) ltac:(lia)). lia.
  - (* HAdd *)
    destruct (absE hi a) as [[[a1 w1] c1]|] eqn:Ea; [|discriminate].
    destruct (absE hi b) as [[[a2 w2] c2]|] eqn:Eb; [|discriminate].
    destruct (IHa _ eq_refl) as [(Ha1 & Hw1 & Hc1) Hea].
    destruct (IHb _ eq_refl) as [(Ha2 & Hw2 & Hc2) Heb].
    destruct (Z.eqb_spec w2 0) as [->|Hne2].
    + apply guard_some in H as [Hf ->]. split; [cbn; lia|].
      intros n Hn. cbn [eval]. rewrite (Hea n Hn), (Heb n Hn). cbn [obind]. f_equal.
      cbn [av_val]. rewrite land_ones_0, Z.add_0_l.
      replace (Z.land (Z.shiftr n a1) (Z.ones w1) + c1 + c2) with (av_val (a1, w1, c1 + c2) n)
        by (cbn [av_val]; lia).
      apply (wrap_fits _ w1 (c1 + c2)); [exact Hf|]. apply av_bounds; lia.
    + destruct (Z.eqb_spec w1 0) as [->|Hne1]; [|discriminate].
      apply guard_some in H as [Hf ->]. split; [cbn; lia|].
      intros n Hn. cbn [eval]. rewrite (Hea n Hn), (Heb n Hn). cbn [obind]. f_equal.
      cbn [av_val]. rewrite land_ones_0, Z.add_0_l.
      replace (c1 + (Z.land (Z.shiftr n a2) (Z.ones w2) + c2)) with (av_val (a2, w2, c1 + c2) n)
        by (cbn [av_val]; lia).
      apply (wrap_fits _ w2 (c1 + c2)); [exact Hf|]. apply av_bounds; lia.
  - (* HSub *)
    destruct (absE hi a) as [[[a1 w1] c1]|] eqn:Ea; [|discriminate].
    destruct (absE hi b) as [[[a2 w2] c2]|] eqn:Eb; [|discriminate].
    apply guard_some in H as [Hg ->]. apply andb_true_iff in Hg as [Hg Hf].
    apply andb_true_iff in Hg as [Hw0 Hle]. apply Z.eqb_eq in Hw0. subst w2. apply Z.leb_le in Hle.
    destruct (IHa _ eq_refl) as [(Ha1 & Hw1 & Hc1) Hea].
    destruct (IHb _ eq_refl) as [(Ha2 & Hw2 & Hc2) Heb].
    split; [cbn; lia|].
    intros n Hn. cbn [eval]. rewrite (Hea n Hn), (Heb n Hn). cbn [obind]. f_equal.
    cbn [av_val]. rewrite land_ones_0, Z.add_0_l.
    replace (Z.land (Z.shiftr n a1) (Z.ones w1) + c1 - c2) with (av_val (a1, w1, c1 - c2) n)
      by (cbn [av_val]; lia).
    apply (wrap_fits _ w1 (c1 - c2)); [exact Hf|]. apply av_bounds; lia.
  - (* HMul of constants *)
    destruct (absE hi a) as [[[a1 w1] c1]|] eqn:Ea; [|discriminate].
    destruct (absE hi b) as [[[a2 w2] c2]|] eqn:Eb; [|discriminate].
    apply guard_some in H as [Hg ->]. apply andb_true_iff in Hg as [Hg Hf].
    apply andb_true_iff in Hg as [E1 E2]. apply Z.eqb_eq in E1, E2. subst w1 w2.
    destruct (IHa _ eq_refl) as [(Ha1 & Hw1 & Hc1) Hea].
    destruct (IHb _ eq_refl) as [(Ha2 & Hw2 & Hc2) Heb].
    split; [cbn; nia|].
    intros n Hn. cbn [eval]. rewrite (Hea n Hn), (Heb n Hn). cbn [obind]. f_equal.
    cbn [av_val]. rewrite !land_ones_0, !Z.add_0_l.
    apply (wrap_fits _ 0 (c1 * c2)); [exact Hf|]. change (2 ^ 0) with 1. nia.
  - (* HConv *)
    destruct (absE hi a) as [[[a0 w] c]|] eqn:Ea; [|discriminate].
    destruct (IH _ eq_refl) as [(Ha0 & Hw & Hc) Hea].
    destruct (fits (Some t) w c) eqn:Hf.
    + injection H as <-. split; [cbn; lia|].
      intros n Hn. cbn [eval]. rewrite (Hea n Hn). cbn [obind]. f_equal.
      apply (wrap_fits _ w c); [exact Hf|]. apply av_bounds; lia.
    + destruct t; try discriminate. apply guard_some in H as [Hc0 ->]. apply Z.eqb_eq in Hc0. subst c.
      split; [apply mk_wf; lia|].
      intros n Hn. cbn [eval]. rewrite (Hea n Hn). cbn [obind]. f_equal.
      rewrite mk_val. cbn [av_val wrap_ty]. rewrite !Z.add_0_r.
      replace (Z.max 0 (Z.min w 8)) with (Z.min w 8) by lia.
      rewrite byte_of_land, and_field by lia. reflexivity.
Qed.

(* ------------------------------------------------------------------ branches *)
(* the expected behaviour of one branch: n <= bound -> return / header with these bytes *)
Definition xbranch := (Z * bool * list av)%type.

Fixpoint absE_list (hi : Z) (l : list hexpr) : option (list av) :=
  match l with
  | [] => Some []
  | e :: r =>
    match absE hi e, absE_list hi r with
    | Some v, Some vs => Some (v :: vs)
    | _, _ => None
    end
  end.

Fixpoint upd_opt {A} (l : list (option A)) (i : nat) (v : A) : option (list (option A)) :=
  match l, i with
  | [], _ => None
  | _ :: t, O => Some (Some v :: t)
  | h :: t, S j => match upd_opt t j v with Some t' => Some (h :: t') | None => None end
  end.

Fixpoint abs_asg (hi : Z) (asg : list (Z * hexpr)) (arr : list (option av)) : option (list (option av)) :=
  match asg with
  | [] => Some arr
  | (k, e) :: r =>
    if k <? 0 then None else
    match absE hi e with
    | Some v =>
      (* the element type is byte *)
      if fits (Some TByte) (snd (fst v)) (snd v) then
        match upd_opt arr (Z.to_nat k) v with
        | Some arr' => abs_asg hi r arr'
        | None => None
        end
      else None
    | None => None
    end
  end.

Fixpoint all_some {A} (l : list (option A)) : option (list A) :=
  match l with
  | [] => Some []
  | Some a :: r => match all_some r with Some t => Some (a :: t) | None => None end
  | None :: _ => None
  end.

Definition abs_body (hi : Z) (b : ebody) : option (bool * list av) :=
  match b with
  | EBRetRune e =>
    match absE hi e with
    | Some (a, w, c) => if 2 ^ w - 1 + c <? 128 then Some (true, [(a, w, c)]) else None
    | None => None
    end
  | EBRetBytes l => match absE_list hi l with Some vs => Some (true, vs) | None => None end
  | EBHdr L asg =>
    if L <? 0 then None else
    match abs_asg hi asg (repeat None (Z.to_nat L)) with
    | Some arr => match all_some arr with Some vs => Some (false, vs) | None => None end
    | None => None
    end
  end.

Definition av_eqb (x y : av) : bool :=
  let '(a, w, c) := x in let '(a', w', c') := y in (a =? a') && (w =? w') && (c =? c').

Fixpoint avs_eqb (x y : list av) : bool :=
  match x, y with
  | [], [] => true
  | a :: x', b :: y' => av_eqb a b && avs_eqb x' y'
  | _, _ => false
  end.

Fixpoint check_branches (brs : list (hcmp * ebody)) (xs : list xbranch) : bool :=
  match brs, xs with
  | [], [] => true
  | (c, b) :: brs', (bound, isret, avs) :: xs' =>
    (cmp_bound c =? bound) &&
    match abs_body bound b with
    | Some (isret', avs') => Bool.eqb isret' isret && avs_eqb avs' avs
    | None => false
    end && check_branches brs' xs'
  | _, _ => false
  end.

Definition xout (isret : bool) (avs : list av) (n : Z) : eout :=
  if isret then ORet (map (fun v => av_val v n) avs) else OHdr (map (fun v => av_val v n) avs).

Fixpoint eval_xbranches (n : Z) (xs : list xbranch) : eout :=
  match xs with
  | [] => OPanic
  | (bound, isret, avs) :: r => if n <=? bound then xout isret avs n else eval_xbranches n r
  end.

Lemma av_eqb_eq : forall x y, av_eqb x y = true -> x = y.
Proof.
  intros [[a w] c] [[a' w'] c'] H. cbn in H.
  apply andb_true_iff in H as [H H3]. apply andb_true_iff in H as [H1 H2].
  apply Z.eqb_eq in H1, H2, H3. congruence.
Qed.

Lemma avs_eqb_eq : forall x y, avs_eqb x y = true -> x = y.
Proof.
  induction x as [|a x IH]; intros [|b y] H; cbn in H; try discriminate; [reflexivity|].
  apply andb_true_iff in H as [H1 H2]. apply av_eqb_eq in H1. apply IH in H2. congruence.
Qed.

Lemma absE_list_sound : forall hi l vs, absE_list hi l = Some vs ->
  forall n, 0 <= n <= hi -> eval_list n l = Some (map (fun v => av_val v n) vs).
Proof.
  intros hi. induction l as [|e r IH]; intros vs H n Hn; cbn [absE_list] in H.
  - injection H as <-. reflexivity.
  - destruct (absE hi e) as [v|] eqn:Ee; [|discriminate].
    destruct (absE_list hi r) as [vs'|]; [|discriminate]. injection H as <-.
    cbn [eval_list map]. rewrite (proj2 (absE_sound hi e v Ee) n Hn). cbn [obind].
    rewrite (IH _ eq_refl n Hn). reflexivity.
Qed.

(* the concrete array and the abstract array run in step: a slot not yet written holds 0 *)
Definition slot_val (n : Z) (o : option av) : Z := match o with Some v => av_val v n | None => 0 end.

Lemma upd_opt_sound : forall n (arr : list (option av)) i v arr',
  upd_opt arr i v = Some arr' ->
  upd_nat (map (slot_val n) arr) i (av_val v n) = Ok (map (slot_val n) arr').
Proof.
  intros n. induction arr as [|h t IH]; intros i v arr' H; destruct i; cbn [upd_opt] in H; try discriminate.
  - injection H as <-. reflexivity.
  - destruct (upd_opt t i v) as [t'|] eqn:E; [|discriminate]. injection H as <-.
    cbn [map upd_nat]. rewrite (IH _ _ _ E). reflexivity.
Qed.

Lemma abs_asg_sound : forall hi asg arr arr', abs_asg hi asg arr = Some arr' ->
  forall n, 0 <= n <= hi -> eval_asg n asg (map (slot_val n) arr) = Some (map (slot_val n) arr').
Proof.
  intros hi. induction asg as [|[k e] r IH]; intros arr arr' H n Hn; cbn [abs_asg] in H.
  - injection H as <-. reflexivity.
  - destruct (Z.ltb_spec k 0); [discriminate|].
    destruct (absE hi e) as [v|] eqn:Ee; [|discriminate].
    destruct (fits (Some TByte) (snd (fst v)) (snd v)); [|discriminate].
    destruct (upd_opt arr (Z.to_nat k) v) as [arr1|] eqn:Eu; [|discriminate].
    cbn [eval_asg]. rewrite (proj2 (absE_sound hi e v Ee) n Hn). cbn [obind].
    unfold upd_. destruct (Z.ltb_spec k 0); [lia|].
    rewrite (upd_opt_sound n _ _ _ _ Eu). apply IH; assumption.
Qed.

Lemma all_some_val : forall n (arr : list (option av)) vs, all_some arr = Some vs ->
  map (slot_val n) arr = map (fun v => av_val v n) vs.
Proof.
  intros n. induction arr as [|[a|] r IH]; intros vs H; cbn [all_some] in H; try discriminate.
  - injection H as <-. reflexivity.
  - destruct (all_some r) as [t|]; [|discriminate]. injection H as <-.
    cbn [map slot_val]. rewrite (IH _ eq_refl). reflexivity.
Qed.

Lemma map_slot_repeat : forall n k, map (slot_val n) (repeat None k) = repeat 0 k.
Proof. intros n. induction k; cbn; [reflexivity|f_equal; assumption]. Qed.

Lemma abs_body_sound : forall hi b isret avs, abs_body hi b = Some (isret, avs) ->
  forall n, 0 <= n <= hi -> eval_body n b = xout isret avs n.
Proof.
  intros hi b isret avs H n Hn. destruct b as [e|l|L asg]; cbn [abs_body] in H.
  - destruct (absE hi e) as [[[a w] c]|] eqn:Ee; [|discriminate].
    destruct (Z.ltb_spec (2 ^ w - 1 + c) 128); [|discriminate]. injection H as <- <-.
    destruct (absE_sound hi e _ Ee) as [(Ha & Hw & Hc) Hev].
    cbn [eval_body]. rewrite (Hev n Hn).
    pose proof (av_bounds a w c n Hw Hc) as Hb.
    destruct (Z.leb_spec 0 (av_val (a, w, c) n)); [|lia].
    destruct (Z.ltb_spec (av_val (a, w, c) n) 128); [|lia]. reflexivity.
  - destruct (absE_list hi l) as [vs|] eqn:El; [|discriminate]. injection H as <- <-.
    cbn [eval_body]. rewrite (absE_list_sound hi l vs El n Hn). reflexivity.
  - destruct (Z.ltb_spec L 0); [discriminate|].
    destruct (abs_asg hi asg (repeat None (Z.to_nat L))) as [arr|] eqn:Ea; [|discriminate].
    destruct (all_some arr) as [vs|] eqn:Es; [|discriminate]. injection H as <- <-.
    cbn [eval_body]. destruct (Z.ltb_spec L 0); [lia|].
    pose proof (abs_asg_sound hi asg _ _ Ea n Hn) as E. rewrite map_slot_repeat in E.
    rewrite E. unfold xout. rewrite (all_some_val n arr vs Es). reflexivity.
Qed.

Theorem check_branches_sound : forall brs xs, check_branches brs xs = true ->
  forall n, 0 <= n -> eval_branches n brs true = eval_xbranches n xs.
Proof.
  induction brs as [|[c b] brs IH]; intros [|[[bound isret] avs] xs] H n Hn; cbn [check_branches] in H;
    try discriminate.
  - reflexivity.
  - apply andb_true_iff in H as [H H3]. apply andb_true_iff in H as [H1 H2].
    apply Z.eqb_eq in H1.
    cbn [eval_branches eval_xbranches]. rewrite H1.
    destruct (Z.leb_spec n bound).
    + destruct (abs_body bound b) as [[isret' avs']|] eqn:Eb; [|discriminate].
      apply andb_true_iff in H2 as [Hr Ha]. apply Bool.eqb_prop in Hr. apply avs_eqb_eq in Ha. subst isret' avs'.
      apply (abs_body_sound bound b isret avs Eb). lia.
    + apply IH; assumption.
Qed.
