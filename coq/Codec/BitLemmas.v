(* Bit-level lemmas shared by the codec proofs: big-endian values, groups of six bits,
   R(x) = pack6 and its inverse, the 6-bit writer of the encoders, checked indexing. *)
From Coq Require Import List ZArith Bool Arith Lia.
From Mamba Require Import Codec.Model Codec.Spec.
Import ListNotations.
Open Scope Z_scope.

(* ------------------------------------------------------------------ res *)
Lemma bind_ok : forall {A B} (r : res A) (f : A -> res B) a, r = Ok a -> bind r f = f a.
Proof. intros; subst; reflexivity. Qed.

(* ------------------------------------------------------------------ checked indexing *)
Lemma at_ok : forall {A} (s : list A) (i : nat) a, nth_error s i = Some a -> at_ s (Z.of_nat i) = Ok a.
Proof.
  intros A s i a H. unfold at_.
  destruct (Z.ltb_spec (Z.of_nat i) 0); [lia|]. rewrite Nat2Z.id, H. reflexivity.
Qed.

Lemma at_okZ : forall {A} (s : list A) (i : Z) a, 0 <= i -> nth_error s (Z.to_nat i) = Some a -> at_ s i = Ok a.
Proof.
  intros A s i a Hi H. rewrite <- (Z2Nat.id i) by lia. apply at_ok, H.
Qed.

Lemma at_cases : forall {A} (s : list A) (i : Z),
  (0 <= i < len s /\ exists a, at_ s i = Ok a /\ nth_error s (Z.to_nat i) = Some a) \/
  ((i < 0 \/ len s <= i) /\ at_ s i = Panic).
Proof.
  intros A s i. unfold at_, len.
  destruct (Z.ltb_spec i 0); [right; split; [lia|reflexivity]|].
  destruct (nth_error s (Z.to_nat i)) eqn:E.
  - left. assert (Z.to_nat i < length s)%nat by (apply nth_error_Some; congruence).
    split; [lia|]. eauto.
  - right. apply nth_error_None in E. split; [lia|reflexivity].
Qed.

Lemma at_inrange : forall {A} (s : list A) (i : Z), 0 <= i < len s -> exists a, at_ s i = Ok a /\ nth_error s (Z.to_nat i) = Some a.
Proof.
  intros A s i H. destruct (at_cases s i) as [[_ Hx]|[Hx _]]; [exact Hx|lia].
Qed.

Lemma len_app : forall {A} (a b : list A), len (a ++ b) = len a + len b.
Proof. intros. unfold len. rewrite app_length. lia. Qed.

Lemma len_cons : forall {A} (a : A) l, len (a :: l) = 1 + len l.
Proof. intros. unfold len. simpl length. lia. Qed.

Lemma len_nonneg : forall {A} (l : list A), 0 <= len l.
Proof. intros. unfold len. lia. Qed.

(* ------------------------------------------------------------------ big-endian values *)
Lemma val_bits_app : forall a b acc, val_bits (a ++ b) acc = val_bits b (val_bits a acc).
Proof. induction a; intros; simpl; [reflexivity|apply IHa]. Qed.

Lemma val_bits_acc : forall l acc, val_bits l acc = acc * 2 ^ Z.of_nat (length l) + val_bits l 0.
Proof.
  induction l as [|b r IH]; intros acc.
  - simpl. lia.
  - cbn [val_bits length]. rewrite IH. rewrite (IH (2 * 0 + _)).
    rewrite Nat2Z.inj_succ, Z.pow_succ_r by lia. ring.
Qed.

Lemma val_bits_bound : forall l, 0 <= val_bits l 0 < 2 ^ Z.of_nat (length l).
Proof.
  induction l as [|b r IH].
  - simpl. lia.
  - cbn [val_bits length]. rewrite val_bits_acc.
    rewrite Nat2Z.inj_succ, Z.pow_succ_r by lia.
    assert (0 < 2 ^ Z.of_nat (length r)) by (apply Z.pow_pos_nonneg; lia).
    destruct b; nia.
Qed.

Lemma val_bits_false : forall k acc, val_bits (repeat false k) acc = acc * 2 ^ Z.of_nat k.
Proof.
  induction k; intros acc.
  - simpl. lia.
  - cbn [repeat val_bits]. rewrite IHk. rewrite Nat2Z.inj_succ, Z.pow_succ_r by lia. ring.
Qed.

Lemma bits_be_length : forall c v, length (bits_be c v) = c.
Proof. induction c; intros; simpl; [reflexivity|f_equal; apply IHc]. Qed.

Lemma val_bits_be : forall c v, 0 <= v -> val_bits (bits_be c v) 0 = v mod 2 ^ Z.of_nat c.
Proof.
  induction c as [|c IH]; intros v Hv.
  - simpl. rewrite Z.mod_1_r. reflexivity.
  - cbn [bits_be val_bits]. rewrite val_bits_acc, bits_be_length, IH by lia.
    rewrite Nat2Z.inj_succ, Z.pow_succ_r by lia.
    assert (Hp : 0 < 2 ^ Z.of_nat c) by (apply Z.pow_pos_nonneg; lia).
    replace (2 * 2 ^ Z.of_nat c) with (2 ^ Z.of_nat c * 2) by ring.
    rewrite Z.rem_mul_r by lia.
    assert (Hb : (if Z.testbit v (Z.of_nat c) then 1 else 0) = (v / 2 ^ Z.of_nat c) mod 2).
    { rewrite <- Z.testbit_spec' by lia. destruct (Z.testbit v (Z.of_nat c)); reflexivity. }
    rewrite Hb. lia.
Qed.

(* ------------------------------------------------------------------ groups of six *)
Lemma list_ind6 : forall (P : list bool -> Prop),
  (forall l, (length l < 6)%nat -> P l) ->
  (forall b0 b1 b2 b3 b4 b5 r, P r -> P (b0 :: b1 :: b2 :: b3 :: b4 :: b5 :: r)) ->
  forall l, P l.
Proof.
  intros P Hs Hc l. remember (length l) as n eqn:Hn. revert l Hn.
  induction n as [n IH] using lt_wf_ind. intros l Hn.
  destruct l as [|b0 [|b1 [|b2 [|b3 [|b4 [|b5 r]]]]]]; try (apply Hs; simpl; lia).
  apply Hc. apply (IH (length r)); [simpl in Hn; lia|reflexivity].
Qed.

Lemma val6_range : forall l, (length l <= 6)%nat -> 0 <= val6 l <= 63.
Proof.
  intros l Hl. unfold val6.
  pose proof (val_bits_bound (l ++ repeat false (6 - length l))) as H.
  rewrite app_length, repeat_length in H.
  replace (length l + (6 - length l))%nat with 6%nat in H by lia.
  change (2 ^ Z.of_nat 6) with 64 in H. lia.
Qed.

Lemma bits_be_val6 : forall b0 b1 b2 b3 b4 b5,
  bits_be 6 (val6 [b0; b1; b2; b3; b4; b5] + 63 - 63) = [b0; b1; b2; b3; b4; b5].
Proof. intros. destruct b0, b1, b2, b3, b4, b5; reflexivity. Qed.

Lemma short_cases : forall (l : list bool), (length l < 6)%nat ->
  l = [] \/ (exists a, l = [a]) \/ (exists a b, l = [a; b]) \/ (exists a b c, l = [a; b; c]) \/
  (exists a b c d, l = [a; b; c; d]) \/ (exists a b c d e, l = [a; b; c; d; e]).
Proof.
  intros l H.
  destruct l as [|b0 [|b1 [|b2 [|b3 [|b4 [|b5 r]]]]]]; simpl in H; try lia; eauto 12.
Qed.

Ltac short_destruct l H :=
  destruct (short_cases l H) as [?|[[? ?]|[[? [? ?]]|[[? [? [? ?]]]|[[? [? [? [? ?]]]]|[? [? [? [? [? ?]]]]]]]]]]; subst l.

Definition pad6 (n : nat) : nat := ((6 - n mod 6) mod 6)%nat.

Lemma pad6_add6 : forall n, pad6 (6 + n) = pad6 n.
Proof.
  intros. unfold pad6. replace (6 + n)%nat with (n + 1 * 6)%nat by lia.
  rewrite Nat.mod_add by lia. reflexivity.
Qed.

Lemma pack6_cons6 : forall b0 b1 b2 b3 b4 b5 r,
  pack6 (b0 :: b1 :: b2 :: b3 :: b4 :: b5 :: r) = (val6 [b0; b1; b2; b3; b4; b5] + 63) :: pack6 r.
Proof. reflexivity. Qed.

Lemma pack6_short : forall l, (length l < 6)%nat -> l <> [] -> pack6 l = [val6 l + 63].
Proof.
  intros l H Hn. short_destruct l H; try reflexivity. congruence.
Qed.

Lemma unpack6_cons : forall c s, unpack6 (c :: s) = bits_be 6 (c - 63) ++ unpack6 s.
Proof. reflexivity. Qed.

Lemma unpack6_app : forall a b, unpack6 (a ++ b) = unpack6 a ++ unpack6 b.
Proof. intros. unfold unpack6. apply flat_map_app. Qed.

Lemma unpack6_length : forall s, length (unpack6 s) = (6 * length s)%nat.
Proof.
  induction s as [|c s IH]; [reflexivity|].
  rewrite unpack6_cons, app_length, bits_be_length, IH. simpl length. lia.
Qed.

Lemma unpack6_pack6 : forall l, unpack6 (pack6 l) = l ++ repeat false (pad6 (length l)).
Proof.
  induction l as [l Hl|b0 b1 b2 b3 b4 b5 r IH] using list_ind6.
  - short_destruct l Hl; try reflexivity;
      repeat match goal with b : bool |- _ => destruct b end; reflexivity.
  - rewrite pack6_cons6, unpack6_cons, bits_be_val6, IH.
    change (length (b0 :: b1 :: b2 :: b3 :: b4 :: b5 :: r)) with (6 + length r)%nat.
    rewrite pad6_add6. reflexivity.
Qed.

Lemma pack6_length : forall l, length (pack6 l) = ((length l + 5) / 6)%nat.
Proof.
  induction l as [l Hl|b0 b1 b2 b3 b4 b5 r IH] using list_ind6.
  - short_destruct l Hl; reflexivity.
  - rewrite pack6_cons6. simpl length. rewrite IH.
    replace (S (S (S (S (S (S (length r)))))) + 5)%nat with ((length r + 5) + 1 * 6)%nat by lia.
    rewrite Nat.div_add by lia. lia.
Qed.

Lemma pack6_range : forall l, Forall (fun c => 63 <= c <= 126) (pack6 l).
Proof.
  induction l as [l Hl|b0 b1 b2 b3 b4 b5 r IH] using list_ind6.
  - destruct l as [|b l'] eqn:E; [constructor|]. rewrite <- E in *.
    rewrite (pack6_short l Hl) by (subst; discriminate).
    constructor; [|constructor]. pose proof (val6_range l). lia.
  - rewrite pack6_cons6. constructor; [|exact IH].
    pose proof (val6_range [b0; b1; b2; b3; b4; b5]). simpl length in H. lia.
Qed.

Lemma pack6_app6 : forall a b, (length a mod 6 = 0)%nat -> pack6 (a ++ b) = pack6 a ++ pack6 b.
Proof.
  induction a as [a Ha|b0 b1 b2 b3 b4 b5 r IH] using list_ind6; intros b Hm.
  - rewrite Nat.mod_small in Hm by lia. destruct a; [reflexivity|discriminate].
  - replace (length (b0 :: b1 :: b2 :: b3 :: b4 :: b5 :: r)) with (length r + 1 * 6)%nat in Hm by (simpl; lia).
    rewrite Nat.mod_add in Hm by lia.
    change ((b0 :: b1 :: b2 :: b3 :: b4 :: b5 :: r) ++ b) with (b0 :: b1 :: b2 :: b3 :: b4 :: b5 :: (r ++ b)).
    rewrite !pack6_cons6, IH by exact Hm. reflexivity.
Qed.

(* ------------------------------------------------------------------ the 6-bit writer *)
Fixpoint bw_of_aux (l : list bool) (s : list Z) : bw :=
  match l with
  | b0 :: b1 :: b2 :: b3 :: b4 :: b5 :: r => bw_of_aux r ((val6 [b0; b1; b2; b3; b4; b5] + 63) :: s)
  | _ => {| bw_s := s; bw_b := val6 l; bw_pos := length l |}
  end.

Lemma bw_put6 : forall o s b0 b1 b2 b3 b4 b5,
  fold_left (bw_put o) [b0; b1; b2; b3; b4; b5] {| bw_s := s; bw_b := 0; bw_pos := 0 |} =
  {| bw_s := (val6 [b0; b1; b2; b3; b4; b5] + 63) :: s; bw_b := 0; bw_pos := 0 |}.
Proof. intros. destruct o, b0, b1, b2, b3, b4, b5; reflexivity. Qed.

(* the state of the writer after the bits l, for += as well as for |= *)
Lemma bw_state : forall o l s,
  fold_left (bw_put o) l {| bw_s := s; bw_b := 0; bw_pos := 0 |} = bw_of_aux l s.
Proof.
  intros o l. induction l as [l Hl|b0 b1 b2 b3 b4 b5 r IH] using list_ind6; intros s.
  - short_destruct l Hl; try reflexivity;
      destruct o; repeat match goal with b : bool |- _ => destruct b end; reflexivity.
  - change (fold_left (bw_put o) (b0 :: b1 :: b2 :: b3 :: b4 :: b5 :: r) {| bw_s := s; bw_b := 0; bw_pos := 0 |})
      with (fold_left (bw_put o) r (fold_left (bw_put o) [b0; b1; b2; b3; b4; b5] {| bw_s := s; bw_b := 0; bw_pos := 0 |})).
    rewrite bw_put6, IH. reflexivity.
Qed.

Lemma bw_decomp : forall l s, exists full part,
  l = full ++ part /\ (length part < 6)%nat /\ (length full mod 6 = 0)%nat /\
  bw_of_aux l s = {| bw_s := rev (pack6 full) ++ s; bw_b := val6 part; bw_pos := length part |}.
Proof.
  induction l as [l Hl|b0 b1 b2 b3 b4 b5 r IH] using list_ind6; intros s.
  - exists [], l. split; [reflexivity|]. split; [exact Hl|]. split; [reflexivity|].
    short_destruct l Hl; reflexivity.
  - destruct (IH ((val6 [b0; b1; b2; b3; b4; b5] + 63) :: s)) as (full & part & E & Hp & Hm & Hw).
    exists (b0 :: b1 :: b2 :: b3 :: b4 :: b5 :: full), part.
    split; [rewrite E; reflexivity|]. split; [exact Hp|]. split.
    + replace (length (b0 :: b1 :: b2 :: b3 :: b4 :: b5 :: full)) with (length full + 1 * 6)%nat by (simpl; lia).
      rewrite Nat.mod_add by lia. exact Hm.
    + change (bw_of_aux (b0 :: b1 :: b2 :: b3 :: b4 :: b5 :: r) s)
        with (bw_of_aux r ((val6 [b0; b1; b2; b3; b4; b5] + 63) :: s)).
      rewrite Hw, pack6_cons6. cbn [rev]. rewrite <- app_assoc. reflexivity.
Qed.

Definition bw_fin (w : bw) : list Z :=
  if (bw_pos w =? 0)%nat then bw_s w else badd (bw_b w) 63 :: bw_s w.

Lemma badd_val6_63 : forall l, (length l <= 6)%nat -> badd (val6 l) 63 = val6 l + 63.
Proof.
  intros l H. pose proof (val6_range l H). unfold badd. rewrite Z.mod_small; lia.
Qed.

(* what Graph6Encode appends to the header *)
Lemma bw_out : forall o l, rev (bw_fin (fold_left (bw_put o) l bw0)) = pack6 l.
Proof.
  intros o l. unfold bw0. rewrite bw_state.
  destruct (bw_decomp l []) as (full & part & E & Hp & Hm & Hw).
  rewrite Hw. unfold bw_fin. cbn [bw_pos bw_s bw_b]. rewrite app_nil_r.
  subst l. rewrite pack6_app6 by exact Hm.
  destruct part as [|b p].
  - simpl. rewrite rev_involutive, app_nil_r. reflexivity.
  - cbn [length Nat.eqb rev]. rewrite rev_involutive, badd_val6_63 by lia.
    rewrite (pack6_short (b :: p) Hp) by discriminate. reflexivity.
Qed.
