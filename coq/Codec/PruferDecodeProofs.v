(* PruferDecode, array level = [dec] on vertex lists: for a code c over {0..n-1}, n = |c|+2,
   the model returns (n, bits_of n (dec (seq 0 n) c)) -- no panic. *)
From Coq Require Import List ZArith Bool Arith Lia.
From Mamba Require Import Codec.PruferMulticodeBase Codec.PruferMulticodeFacts Codec.PruferModel
  Codec.PruferTree.
Import ListNotations.

(* the cell of the edge {a,b} in DenseGraph.Edges *)
Definition cell (p : nat * nat) : nat :=
  let (a, b) := p in if b <? a then tri a + b else tri b + a.

Definition set_cells (E : list (nat * nat)) (bits : list bool) : list bool :=
  fold_left (fun b p => upd b (cell p) true) E bits.

Definition bits_of (n : nat) (E : list (nat * nat)) : list bool := set_cells E (repeat false (tri n)).

(* ------------------------------------------------------------------ the scans *)
Lemma first_one_find deg js :
  (forall j, In j js -> j < length deg) ->
  first_one deg js = Ok (find (fun j => (nth j deg 0 =? 1)%Z) js).
Proof.
  induction js as [|j js IH]; intros H; [reflexivity|].
  cbn [first_one find]. rewrite (get_ok deg j 0%Z) by (apply H; left; auto). cbn [bind].
  destruct (nth j deg 0 =? 1)%Z; auto. apply IH. intros; apply H; right; auto.
Qed.

Lemma find_filter_skip {A} (P Q : A -> bool) l :
  (forall x, In x l -> P x = true -> Q x = true) -> find P (filter Q l) = find P l.
Proof.
  induction l as [|a l IH]; intros H; [reflexivity|]. cbn [filter find].
  assert (IH' : find P (filter Q l) = find P l) by (apply IH; intros; apply H; auto; right; auto).
  destruct (Q a) eqn:Qa; cbn [find]; rewrite IH'; auto.
  destruct (P a) eqn:Pa; auto. rewrite (H a (or_introl eq_refl) Pa) in Qa. discriminate.
Qed.

(* V lists its elements in increasing order, all below n *)
Definition canon (n : nat) (V : list nat) : Prop := V = filter (fun v => mem v V) (seq 0 n).

Lemma canon_seq n : canon n (seq 0 n).
Proof.
  unfold canon. symmetry. rewrite (filter_ext_in _ (fun _ => true)).
  - induction (seq 0 n); simpl; congruence.
  - intros a Ha. apply mem_In; auto.
Qed.

Lemma canon_lt n V v : canon n V -> In v V -> v < n.
Proof. intros C H. rewrite C in H. apply filter_In in H. destruct H as [H _]. apply in_seq in H. lia. Qed.

Lemma canon_NoDup n V : canon n V -> NoDup V.
Proof. intros C. rewrite C. apply NoDup_filter'', seq_NoDup. Qed.

Lemma filter_filter {A} (P Q : A -> bool) l : filter P (filter Q l) = filter (fun x => P x && Q x) l.
Proof.
  induction l as [|a l IH]; auto. cbn [filter]. destruct (Q a); cbn [filter]; rewrite ?andb_true_r, ?andb_false_r, IH; auto.
Qed.

Lemma canon_rem n V l : canon n V -> canon n (rem l V).
Proof.
  intros C. unfold canon. unfold rem at 1.
  transitivity (filter (fun x => negb (x =? l)) (filter (fun v => mem v V) (seq 0 n))); [f_equal; exact C|].
  rewrite filter_filter.
  apply filter_ext_in. intros a _.
  destruct (mem a (rem l V)) eqn:M.
  - apply mem_In in M. apply In_rem in M. destruct M as [M1 M2].
    apply mem_In in M1. rewrite M1. apply Nat.eqb_neq in M2. rewrite M2. reflexivity.
  - destruct (Nat.eqb_spec a l) as [->|Hne]; auto. cbn [negb andb].
    destruct (mem a V) eqn:M'; auto. apply mem_In in M'.
    assert (In a (rem l V)) by (apply In_rem; auto). apply mem_In in H. congruence.
Qed.

(* scanning 0..n-1 for a property that only live vertices have = scanning the live list *)
Lemma find_canon n V (P : nat -> bool) :
  canon n V -> (forall v, v < n -> P v = true -> In v V) -> find P (seq 0 n) = find P V.
Proof.
  intros C H. rewrite C. symmetry. apply find_filter_skip.
  intros x Hx Px. apply mem_In. apply H; auto. apply in_seq in Hx. lia.
Qed.

(* the head of a filtered interval *)
Lemma filter_seq_head (Q : nat -> bool) : forall k s a rest,
  filter Q (seq s k) = a :: rest ->
  s <= a /\ a < s + k /\ rest = filter Q (seq (S a) (s + k - S a)).
Proof.
  induction k as [|k IH]; intros s a rest H; [discriminate|].
  cbn [seq filter] in H. destruct (Q s).
  - inversion H; subst. replace (a + S k - S a) with k by lia. repeat split; auto; lia.
  - apply IH in H. destruct H as (H1 & H2 & H3).
    replace (s + S k - S a) with (S s + k - S a) by lia. repeat split; auto; lia.
Qed.

(* ------------------------------------------------------------------ the first loop *)
Lemma map_res_idx c : map_res idx (map Z.of_nat c) = Ok c.
Proof.
  induction c as [|v c IH]; [reflexivity|]. cbn [map map_res]. unfold idx at 1.
  destruct (Z.ltb_spec (Z.of_nat v) 0); [lia|]. cbn [bind]. rewrite IH, Nat2Z.id. reflexivity.
Qed.

Definition zcount (v : nat) (c : list nat) : Z := Z.of_nat (countn v c).

Lemma incr_all_ok : forall c deg,
  (forall x, In x c -> x < length deg) ->
  exists deg', incr_all deg c = Ok deg' /\ length deg' = length deg /\
               forall v, nth v deg' 0%Z = (nth v deg 0 + zcount v c)%Z.
Proof.
  induction c as [|u c IH]; intros deg H.
  - exists deg. repeat split; auto. intros; unfold zcount; simpl; lia.
  - cbn [incr_all]. rewrite add_at_ok by (apply H; left; auto). cbn [bind].
    destruct (IH (upd deg u (nth u deg 0 + 1)%Z)) as (deg' & E & L & N).
    { intros x Hx. rewrite upd_length. apply H; right; auto. }
    exists deg'. rewrite E. repeat split; auto.
    + rewrite L, upd_length. reflexivity.
    + intros v. rewrite N. unfold zcount. rewrite countn_cons.
      destruct (Nat.lt_ge_cases v (length deg)) as [Lt|Ge].
      * rewrite nth_upd by (apply H; left; auto).
        destruct (Nat.eqb_spec v u) as [->|]; lia.
      * rewrite !nth_overflow by (rewrite ?upd_length; lia).
        destruct (Nat.eqb_spec v u) as [->|]; [|lia].
        exfalso. pose proof (H u (or_introl eq_refl)). lia.
Qed.

(* ------------------------------------------------------------------ the invariant of the main loop *)
(* degrees[v] = 1 + occurrences of v in the rest of the code for live v, 0 for removed v *)
Definition deg_inv (n : nat) (V c : list nat) (deg : list Z) : Prop :=
  length deg = n /\
  forall v, v < n -> nth v deg 0%Z = if mem v V then (1 + zcount v c)%Z else 0%Z.

Lemma zcount_nonneg v c : (0 <= zcount v c)%Z.
Proof. unfold zcount. lia. Qed.

Lemma scan_first_free n V c deg :
  canon n V -> deg_inv n V c deg ->
  first_one deg (seq 0 n) = Ok (first_free V c).
Proof.
  intros C [L D]. rewrite first_one_find by (intros j Hj; apply in_seq in Hj; lia).
  f_equal. rewrite (find_canon n V); auto.
  - unfold first_free. apply find_ext_in. intros x Hx.
    rewrite D by (apply (canon_lt n V); auto).
    assert (M : mem x V = true) by (apply mem_In; auto). rewrite M.
    destruct (mem x c) eqn:Mc; cbn [negb].
    + apply mem_In in Mc. apply Z.eqb_neq. intros Q.
      assert (Z0 : countn x c = 0) by (unfold zcount in Q; lia). apply countn_0 in Z0. tauto.
    + apply Z.eqb_eq. assert (countn x c = 0); [|unfold zcount; lia].
      apply countn_0. intros H. apply mem_In in H. congruence.
  - intros v Hv Pv. rewrite D in Pv by auto. destruct (mem v V) eqn:M; [apply mem_In; auto|discriminate].
Qed.

Lemma cell_bound n a b : a < n -> b < n -> a <> b -> cell (a, b) < tri n.
Proof.
  intros. unfold cell. destruct (Nat.ltb_spec b a); apply tri_bound; lia.
Qed.

Lemma pd_step_ok n V u c deg edges l :
  canon n V -> deg_inv n V (u :: c) deg -> length edges = tri n ->
  In u V -> first_free V (u :: c) = Some l ->
  exists deg', pd_step n (deg, edges) u = Ok (deg', upd edges (cell (l, u)) true) /\
               deg_inv n (rem l V) c deg'.
Proof.
  intros C I Le Hu F. pose proof I as [L D].
  unfold pd_step. rewrite (scan_first_free n V (u :: c) deg C I), F. cbn [bind].
  unfold first_free in F. apply find_some in F. destruct F as [Hl Fl].
  apply negb_true_iff in Fl.
  assert (Hlu : l <> u).
  { intros ->. assert (mem u (u :: c) = true) by (apply mem_In; left; auto). congruence. }
  pose proof (canon_lt n V l C Hl) as Hln. pose proof (canon_lt n V u C Hu) as Hun.
  change (if u <? l then tri l + u else tri u + l) with (cell (l, u)).
  rewrite set_ok by (rewrite Le; apply cell_bound; auto). cbn [bind].
  rewrite add_at_ok by lia. cbn [bind].
  rewrite add_at_ok by (rewrite upd_length; lia). cbn [bind].
  eexists. split; [reflexivity|].
  split; [rewrite !upd_length; auto|].
  intros v Hv. rewrite nth_upd by (rewrite upd_length; lia).
  rewrite !(nth_upd deg l) by lia.
  destruct (Nat.eqb_spec u l) as [?|_]; [congruence|].
  assert (Ml : mem l V = true) by (apply mem_In; auto).
  assert (Mu : mem u V = true) by (apply mem_In; auto).
  assert (Cl : countn l (u :: c) = 0).
  { apply countn_0. intros H. apply mem_In in H. congruence. }
  destruct (Nat.eqb_spec v u) as [->|Hvu].
  - (* v = u: one occurrence less *)
    rewrite D by auto. rewrite Mu.
    assert (M' : mem u (rem l V) = true) by (apply mem_In, In_rem; auto). rewrite M'.
    unfold zcount. rewrite countn_cons, Nat.eqb_refl. lia.
  - destruct (Nat.eqb_spec v l) as [->|Hvl].
    + (* v = l: removed *)
      rewrite D by auto. rewrite Ml.
      assert (M' : mem l (rem l V) = false).
      { apply not_true_is_false. intros H. apply mem_In, In_rem in H. tauto. }
      rewrite M'. unfold zcount. lia.
    + rewrite D by auto.
      assert (M' : mem v (rem l V) = mem v V).
      { destruct (mem v V) eqn:M.
        - apply mem_In, In_rem. split; auto. apply mem_In; auto.
        - apply not_true_is_false. intros H. apply mem_In, In_rem in H. destruct H as [H _].
          apply mem_In in H. congruence. }
      rewrite M'. unfold zcount. rewrite countn_cons.
      destruct (Nat.eqb_spec v u); [congruence|]. reflexivity.
Qed.

(* ------------------------------------------------------------------ the whole decoder *)
Lemma pd_all n : forall c V deg edges,
  canon n V -> deg_inv n V c deg -> length edges = tri n ->
  length V = length c + 2 -> (forall x, In x c -> In x V) ->
  (do st <- pd_loop n c (deg, edges); pd_last n st) = Ok (set_cells (dec V c) edges).
Proof.
  induction c as [|u c IH]; intros V deg edges C I Le Hlen Hc.
  - (* two live vertices a < b are left *)
    cbn [pd_loop bind pd_last].
    destruct V as [|a [|b [|? ?]]]; simpl in Hlen; try lia.
    pose proof I as [L D].
    pose proof (canon_lt n _ a C (or_introl eq_refl)) as Han.
    pose proof (canon_lt n _ b C (or_intror (or_introl eq_refl))) as Hbn.
    assert (Hab : a <> b).
    { pose proof (canon_NoDup n _ C) as N. inversion N; subst. simpl in *. intuition. }
    rewrite (scan_first_free n [a; b] [] deg C I). unfold first_free. cbn [find mem existsb negb bind].
    (* the second scan *)
    pose proof C as C'. unfold canon in C'. symmetry in C'. apply filter_seq_head in C'.
    destruct C' as (_ & _ & C2). cbn [Nat.add] in C2.
    rewrite first_one_find by (intros j Hj; apply in_seq in Hj; lia).
    assert (F2 : find (fun j => (nth j deg 0 =? 1)%Z) (seq (S a) (n - S a)) = Some b).
    { rewrite <- (find_filter_skip _ (fun v => mem v [a; b])).
      - rewrite <- C2. cbn [find]. rewrite D by auto.
        assert (M : mem b [a; b] = true) by (apply mem_In; simpl; auto). rewrite M.
        reflexivity.
      - intros x Hx Px. apply in_seq in Hx. rewrite D in Px by lia.
        destruct (mem x [a; b]); [auto|discriminate]. }
    rewrite F2. cbn [bind].
    assert (Hlt : a < b).
    { assert (In b (filter (fun v => mem v [a; b]) (seq (S a) (n - S a)))) by (rewrite <- C2; left; auto).
      apply filter_In in H. destruct H as [H _]. apply in_seq in H. lia. }
    rewrite set_ok by (rewrite Le; apply tri_bound; auto).
    cbn [dec set_cells fold_left cell].
    destruct (Nat.ltb_spec b a); [lia|]. reflexivity.
  - pose proof (canon_NoDup n V C) as N.
    destruct (first_free_exists V (u :: c) N ltac:(simpl in *; lia)) as [l F].
    assert (Hu : In u V) by (apply Hc; left; auto).
    destruct (pd_step_ok n V u c deg edges l C I Le Hu F) as (deg' & E & I').
    cbn [pd_loop]. rewrite E. cbn [bind].
    pose proof F as F'. unfold first_free in F'. apply find_some in F'. destruct F' as [Hl Fl].
    apply negb_true_iff in Fl.
    pose proof (length_rem l V N Hl) as HL.
    rewrite (IH (rem l V) deg' (upd edges (cell (l, u)) true)); auto.
    + cbn [dec]. rewrite F. reflexivity.
    + apply canon_rem; auto.
    + rewrite upd_length; auto.
    + simpl in *; lia.
    + intros x Hx. apply In_rem. split; [apply Hc; right; auto|].
      intros ->. assert (mem l (u :: c) = true) by (apply mem_In; right; auto). congruence.
Qed.

Theorem prufer_decode_args_dec (c : list nat) :
  let n := length c + 2 in
  (forall x, In x c -> x < n) ->
  prufer_decode_args (map Z.of_nat c) = Ok (n, bits_of n (dec (seq 0 n) c)).
Proof.
  intros n Hc. unfold prufer_decode_args. rewrite map_res_idx. cbn [bind]. fold n.
  destruct (incr_all_ok c (repeat 1%Z n)) as (deg & E & L & D).
  { intros x Hx. rewrite repeat_length. apply Hc; auto. }
  rewrite E. cbn [bind]. rewrite repeat_length in L.
  pose proof (pd_all n c (seq 0 n) deg (repeat false (tri n)) (canon_seq n)) as P.
  destruct (pd_loop n c (deg, repeat false (tri n))) as [st|] eqn:PL; cbn [bind] in P |- *.
  - rewrite P; auto.
    + split; auto. intros v Hv. rewrite D.
      assert (M : mem v (seq 0 n) = true) by (apply mem_In, in_seq; lia). rewrite M.
      rewrite nth_repeat' by auto. reflexivity.
    + apply repeat_length.
    + rewrite seq_length. reflexivity.
    + intros x Hx. apply in_seq. pose proof (Hc x Hx). lia.
  - exfalso. assert (Q : @Panic (list bool) = Ok (set_cells (dec (seq 0 n) c) (repeat false (tri n)))); [|discriminate].
    apply P.
    + split; auto. intros v Hv. rewrite D.
      assert (M : mem v (seq 0 n) = true) by (apply mem_In, in_seq; lia). rewrite M.
      rewrite nth_repeat' by auto. reflexivity.
    + apply repeat_length.
    + rewrite seq_length. reflexivity.
    + intros x Hx. apply in_seq. pose proof (Hc x Hx). lia.
Qed.
