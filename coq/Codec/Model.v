(* Model of /repo/graph/encoding.go (definitions only; the proofs are in the other files of
   this directory).

   Values (bytes, vertex counts, indices, uint64 quantities) are [Z]; list positions that drive
   a structural recursion are [nat].  A string / []byte is a [list Z] of values in [0,256).
   A Go panic (index out of range, explicit panic, makeslice with negative capacity) is
   [Panic], an [error] result is [Err], exhausted fuel is [OutOfFuel]: none of them is ever
   replaced by a default value, every slice access goes through the checked [at_] / [upd_].

   The argument of the encoders is a value of the Go interface [Graph].  The model takes the
   interface abstractly: [gn] is N(), [gadj] is IsEdge, and Neighbours / Degrees / M are the
   functions derived from them below (this is what "the graph value is well formed" means, the
   subject of C05/C06).  The dense decoders return the field values of the DenseGraph they
   build: the vertex count and the triangle bit vector [Edges] (column order (0,1),(0,2),(1,2),
   (0,3),...); Sparse6Decode returns the vertex count and the edge set of the SparseGraph as
   the list of pairs (v,x), x < v, sorted lexicographically (the neighbour lists themselves are
   sortints values, the subject of C17).

   MulticodeEncode/Decode and PruferEncode/Decode are modelled in Codec/MulticodeModel.v and
   Codec/PruferModel.v (self-contained). *)
From Coq Require Import List ZArith Bool Arith.
Import ListNotations.
Open Scope Z_scope.

(* ------------------------------------------------------------------ results *)
Inductive res (A : Type) : Type :=
| Ok (a : A)
| Err
| Panic
| OutOfFuel.
Arguments Ok {A} a.
Arguments Err {A}.
Arguments Panic {A}.
Arguments OutOfFuel {A}.

Definition bind {A B} (r : res A) (f : A -> res B) : res B :=
  match r with
  | Ok a => f a
  | Err => Err
  | Panic => Panic
  | OutOfFuel => OutOfFuel
  end.
Notation "'do' x <- r ; k" := (bind r (fun x => k)) (at level 200, x pattern, r at level 100, k at level 200).

(* ------------------------------------------------------------------ Go arithmetic *)
Definition byte_of (x : Z) : Z := x mod 256.
Definition badd (a b : Z) : Z := (a + b) mod 256.
Definition bsub (a b : Z) : Z := (a - b) mod 256.
Definition u64 (x : Z) : Z := x mod 18446744073709551616.
(* conversion uint64 -> int *)
Definition s64 (x : Z) : Z := if x <? 9223372036854775808 then x else x - 18446744073709551616.
(* 64 - bits.LeadingZeros64(x) for 0 <= x < 2^64 *)
Definition bitlen (x : Z) : Z := if x <=? 0 then 0 else Z.log2 x + 1.

Definition len {A} (s : list A) : Z := Z.of_nat (length s).

(* int arithmetic: the value of an int expression after wrapping to 64 bits *)
Definition wrap64 (x : Z) : Z := s64 (u64 x).
(* make([]byte, hl, hl+(e+5)/6) with the capacity computed in int arithmetic: the runtime panics
   (makeslice: cap out of range) when the capacity is below the length.  The allocation limit of
   the runtime (maxAlloc, out of memory) is not modelled. *)
Definition mk_cap (hl e : Z) : res unit :=
  if wrap64 (hl + Z.quot (wrap64 (e + 5)) 6) <? hl then Panic else Ok tt.

(* s[i] *)
Definition at_ {A} (s : list A) (i : Z) : res A :=
  if i <? 0 then Panic else
  match nth_error s (Z.to_nat i) with
  | Some a => Ok a
  | None => Panic
  end.

Fixpoint upd_nat {A} (l : list A) (i : nat) (v : A) : res (list A) :=
  match l, i with
  | [], _ => Panic
  | _ :: t, O => Ok (v :: t)
  | h :: t, S j => do t' <- upd_nat t j v; Ok (h :: t')
  end.

(* s[i] = v *)
Definition upd_ {A} (l : list A) (i : Z) (v : A) : res (list A) :=
  if i <? 0 then Panic else upd_nat l (Z.to_nat i) v.

(* ------------------------------------------------------------------ the Graph interface *)
Record graph := { gn : nat; gadj : nat -> nat -> bool }.

(* Neighbours(v): ascending *)
Definition neighbours (g : graph) (v : nat) : list nat := filter (gadj g v) (seq 0 (gn g)).
(* Degrees() *)
Definition degrees (g : graph) : list Z := map (fun v => len (neighbours g v)) (seq 0 (gn g)).
(* the edges (i,u), u < i, in the order (1,0),(2,0),(2,1),(3,0),... *)
Definition edges_lt (g : graph) : list (nat * nat) :=
  flat_map (fun i => map (fun u => (i, u)) (filter (gadj g i) (seq 0 i))) (seq 0 (gn g)).
(* M() *)
Definition gm (g : graph) : Z := len (edges_lt g).
(* DenseGraph.Edges *)
Definition tri_bits (g : graph) : list bool :=
  flat_map (fun j => map (fun i => gadj g j i) (seq 0 j)) (seq 0 (gn g)).

Definition tri (n : Z) : Z := n * (n - 1) / 2.

(* ------------------------------------------------------------------ size header N(n), encoders
   The chain  if n <= 62 / n <= 258047 / n <= 68719476735 / panic  of Graph6Encode and
   Sparse6Encode (the same right-hand sides in both; n >= 2 at that point). *)
Definition g63 (n : Z) (sh : Z) : Z := badd (byte_of (Z.land (Z.shiftr n sh) 63)) 63.

Definition enc_size (n : Z) : res (list Z) :=
  if n <=? 62 then Ok [byte_of (n + 63)]
  else if n <=? 258047 then Ok [126; g63 n 12; g63 n 6; g63 n 0]
  else if n <=? 68719476735 then Ok [126; 126; g63 n 30; g63 n 24; g63 n 18; g63 n 12; g63 n 6; g63 n 0]
  else Panic.

(* ------------------------------------------------------------------ the 6-bit writer
   State of the loops  "b += 1 << (5-bIndex); bIndex++; if bIndex == 6 { s = append(s, b+63);
   bIndex = 0; b = 0 }".  [bw_s] is the part of s after the header, most recent byte first. *)
Record bw := { bw_s : list Z; bw_b : Z; bw_pos : nat }.

Definition bw0 : bw := {| bw_s := []; bw_b := 0; bw_pos := 0 |}.

(* graph6 uses b += 1<<.., sparse6 uses b |= 1<<..: [orr] selects the operator *)
Definition bw_put (orr : bool) (w : bw) (bit : bool) : bw :=
  let m := byte_of (Z.shiftl 1 (5 - Z.of_nat (bw_pos w))) in
  let b := if bit then (if orr then Z.lor (bw_b w) m else badd (bw_b w) m) else bw_b w in
  let pos := S (bw_pos w) in
  if (pos =? 6)%nat then {| bw_s := badd b 63 :: bw_s w; bw_b := 0; bw_pos := 0 |}
  else {| bw_s := bw_s w; bw_b := b; bw_pos := pos |}.

(* ------------------------------------------------------------------ Graph6Encode *)
Definition graph6_encode (g : graph) : res (list Z) :=
  let n := Z.of_nat (gn g) in
  if n <=? 1 then Ok [n + 63] else
  do hdr <- enc_size n;
  do u <- mk_cap (len hdr) (Z.quot (wrap64 (n * (n - 1))) 2);
  let w := fold_left (fun w i => fold_left (fun w j => bw_put false w (gadj g i j)) (seq 0 i) w)
                     (seq 1 (gn g - 1)) bw0 in
  let s := if (bw_pos w =? 0)%nat then bw_s w else badd (bw_b w) 63 :: bw_s w in
  Ok (hdr ++ rev s).

(* ------------------------------------------------------------------ decoding the size header
   The chain shared by Graph6Decode and Sparse6Decode; [chk] is the "Graph too large" test
   that only Graph6Decode has.  MaxN := 0.5 + math.Sqrt(2*float64(maxInt)+0.25) evaluates in
   float64 to exactly 4294967296.5 (2*2^63 + 0.25 rounds to 2^64, whose root is 2^32) and
   float64(n) is exact for n < 2^36, so the test is n > 4294967296.
   Result: (n, i) = the vertex count and the index of the first data byte. *)
Definition v6 (c : Z) (sh : Z) : Z := u64 (Z.shiftl (bsub c 63) sh).

Definition dec_size (chk : bool) (s : list Z) : res (Z * Z) :=
  do c0 <- at_ s 0;
  if negb (c0 =? 126) then Ok (bsub c0 63, 1)
  else if len s <? 4 then Err
  else
    do c1 <- at_ s 1;
    if negb (c1 =? 126) then
      do c2 <- at_ s 2;
      do c3 <- at_ s 3;
      Ok (u64 (u64 (v6 c1 12 + v6 c2 6) + bsub c3 63), 4)
    else if len s <? 8 then Err
    else
      do c2 <- at_ s 2;
      do c3 <- at_ s 3;
      do c4 <- at_ s 4;
      do c5 <- at_ s 5;
      do c6 <- at_ s 6;
      do c7 <- at_ s 7;
      let n := u64 (u64 (u64 (u64 (u64 (v6 c2 30 + v6 c3 24) + v6 c4 18) + v6 c5 12) + v6 c6 6) + bsub c7 63) in
      if chk && (4294967296 <? n) then Err else Ok (n, 8).

Fixpoint strip_prefix (p s : list Z) : option (list Z) :=
  match p, s with
  | [], _ => Some s
  | a :: p', b :: s' => if a =? b then strip_prefix p' s' else None
  | _ :: _, [] => None
  end.
(* if strings.HasPrefix(s, p) { s = s[len(p):] } *)
Definition strip (p s : list Z) : list Z :=
  match strip_prefix p s with Some r => r | None => s end.

Definition hdr_graph6 : list Z := [62; 62; 103; 114; 97; 112; 104; 54; 60; 60].          (* >>graph6<< *)
Definition hdr_sparse6 : list Z := [62; 62; 115; 112; 97; 114; 115; 101; 54; 60; 60].     (* >>sparse6<< *)

Definition in_range (c : Z) : bool := (63 <=? c) && (c <=? 126).

(* ------------------------------------------------------------------ Graph6Decode *)
(* for j := 0; j < len(edges); j++ { edges[j] = ((s[i+j/6]-63) & (1<<(5-j%6))) >> (5-j%6) } *)
Fixpoint g6_read (s : list Z) (i : Z) (cnt : nat) (j : Z) : res (list bool) :=
  match cnt with
  | O => Ok []
  | S c =>
    do ch <- at_ s (i + j / 6);
    let sh := 5 - j mod 6 in
    let e := Z.shiftr (Z.land (bsub ch 63) (byte_of (Z.shiftl 1 sh))) sh in
    do rest <- g6_read s i c (j + 1);
    Ok (negb (e =? 0) :: rest)
  end.

Definition graph6_decode (s0 : list Z) : res (Z * list bool) :=
  let s := strip hdr_graph6 s0 in
  if negb (forallb in_range s) then Err else
  match s with
  | [] => Ok (0, [])
  | _ =>
    do ni <- dec_size true s;
    let (n, i) := ni in
    let t := u64 (n * u64 (n - 1)) / 2 in
    if len s <? i + Z.quot (s64 (u64 (t + 5))) 6 then Err else
    do edges <- g6_read s i (Z.to_nat t) 0;
    (* NewDense(int(n), edges) panics unless len(edges) = n*(n-1)/2 in int arithmetic *)
    if negb (len edges =? Z.quot (s64 (u64 (s64 n * (s64 n - 1)))) 2) then Panic else
    Ok (n, edges)
  end.

(* ------------------------------------------------------------------ Sparse6Encode *)
(* x[-] = u : for j := 0; j < k; j++ { if (u>>(k-j-1))&1 == 1 {b |= ..}; ... } *)
Definition put_num (w : bw) (k : nat) (u : Z) : bw :=
  fold_left (fun w j => bw_put true w (Z.testbit u (Z.of_nat (k - j - 1)))) (seq 0 k) w.

(* the body of  for _, u := range neighbours  (after the u > i test) *)
Definition s6_edge (k : nat) (st : nat * bw) (i u : nat) : nat * bw :=
  let (v, w) := st in
  if (i =? v)%nat then (v, put_num (bw_put true w false) k (Z.of_nat u))
  else if (i =? v + 1)%nat then (S v, put_num (bw_put true w true) k (Z.of_nat u))
  else (i, put_num (bw_put true (put_num (bw_put true w true) k (Z.of_nat i)) false) k (Z.of_nat u)).

(* for _, u := range neighbours { if u > i { break } ... } *)
Fixpoint s6_row (k : nat) (st : nat * bw) (i : nat) (us : list nat) : nat * bw :=
  match us with
  | [] => st
  | u :: r => if (i <? u)%nat then st else s6_row k (s6_edge k st i u) i r
  end.

Definition sparse6_encode (g : graph) : res (list Z) :=
  let n := Z.of_nat (gn g) in
  let k := Z.to_nat (bitlen (u64 (n - 1))) in
  if n <=? 1 then Ok [58; byte_of (n + 63)] else
  do hdr <- enc_size n;
  do u <- mk_cap (1 + len hdr) (wrap64 (wrap64 ((Z.of_nat k + 1) * 2) * gm g));
  let '(v, w) := fold_left (fun st i => s6_row k st i (neighbours g i)) (seq 1 (gn g - 1)) (O, bw0) in
  if (bw_pos w =? 0)%nat then Ok (58 :: hdr ++ rev (bw_s w)) else
  do pos <-
    (if ((n =? 2) || (n =? 4) || (n =? 8) || (n =? 16)) && (Z.of_nat k + 1 <=? 6 - Z.of_nat (bw_pos w)) then
       let d := degrees g in
       do d2 <- at_ d (n - 2);
       do d1 <- at_ d (n - 1);
       if (0 <? d2) && (d1 =? 0) then Ok (S (bw_pos w)) else Ok (bw_pos w)
     else Ok (bw_pos w));
  (* for j := currentBitPosition; j < 6; j++ { b += 1 << (5-j) } *)
  let b := fold_left (fun b j => badd b (byte_of (Z.shiftl 1 (5 - Z.of_nat j)))) (seq pos (6 - pos)) (bw_b w) in
  Ok (58 :: hdr ++ rev (badd b 63 :: bw_s w)).

(* ------------------------------------------------------------------ Sparse6Decode *)
Definition pair_lt (a b : Z * Z) : bool :=
  (fst a <? fst b) || ((fst a =? fst b) && (snd a <? snd b)).
Definition pair_eq (a b : Z * Z) : bool := (fst a =? fst b) && (snd a =? snd b).

(* the edge set is kept as a list sorted in DEscending order (a valid stream names its edges in
   ascending order, so the usual insertion is at the head); the decoder returns its reverse *)
Fixpoint insert (e : Z * Z) (l : list (Z * Z)) : list (Z * Z) :=
  match l with
  | [] => [e]
  | h :: t => if pair_lt h e then e :: l else if pair_eq e h then l else h :: insert e t
  end.

(* g.AddEdge(v, x) on the SparseGraph with n vertices whose edge set is el:
   "if i == j || g.IsEdge(i,j) { return }" — IsEdge indexes DegreeSequence[i], [j]. *)
Definition add_edge (n : Z) (el : list (Z * Z)) (v x : Z) : res (list (Z * Z)) :=
  if v =? x then Ok el
  else if (v <? 0) || (n <=? v) || (x <? 0) || (n <=? x) then Panic
  else Ok (insert (Z.max v x, Z.min v x) el).

(* ((s[bitIndex/6]-63) >> (5-bitIndex%6)) & 1 *)
Definition rd_bit (s : list Z) (p : Z) : res bool :=
  do ch <- at_ s (p / 6);
  Ok (Z.land (Z.shiftr (bsub ch 63) (5 - p mod 6)) 1 =? 1).

(* for j := 0; j < k; j++ { x <<= 1; if bit {x |= 1}; bitIndex++ } *)
Fixpoint rd_num (s : list Z) (k : nat) (p : Z) (x : Z) : res (Z * Z) :=
  match k with
  | O => Ok (x, p)
  | S k' =>
    do b <- rd_bit s p;
    let x1 := Z.shiftl x 1 in
    rd_num s k' (p + 1) (if b then Z.lor x1 1 else x1)
  end.

Fixpoint s6_loop (fuel : nat) (s : list Z) (n : Z) (k : nat) (numBits : Z) (p : Z) (v : Z)
         (el : list (Z * Z)) : res (list (Z * Z)) :=
  if numBits - p <? Z.of_nat k + 1 then Ok el else
  match fuel with
  | O => OutOfFuel
  | S f =>
    do b <- rd_bit s p;
    let v1 := if b then v + 1 else v in
    do xp <- rd_num s k (p + 1) 0;
    let (x, p') := xp in
    if v1 <? x then s6_loop f s n k numBits p' x el
    else if v1 <? s64 n then
      do el' <- add_edge n el v1 x;
      s6_loop f s n k numBits p' v1 el'
    else s6_loop f s n k numBits p' v1 el
  end.

Definition sparse6_decode_fuel (fuel : nat) (s0 : list Z) : res (Z * list (Z * Z)) :=
  let s := strip hdr_sparse6 s0 in
  match s with
  | [] => Err
  | c :: s1 =>
    if negb (c =? 58) then Err else
    if negb (forallb in_range s1) then Err else
    match s1 with
    | [] => Err
    | _ =>
      do ni <- dec_size false s1;
      let (n, i) := ni in
      let k := if 1 <? n then Z.to_nat (bitlen (u64 (n - 1))) else O in
      do el <- s6_loop fuel s1 n k (6 * len s1) (6 * i) 0 [];
      Ok (n, rev el)
    end
  end.

Definition sparse6_decode (s0 : list Z) : res (Z * list (Z * Z)) :=
  sparse6_decode_fuel (6 * length s0 + 8) s0.
