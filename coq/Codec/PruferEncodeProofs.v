(* PruferEncode, array level = [enc] on vertex lists for every tree; the bit vector of an edge
   list and its adjacency. *)
From Coq Require Import List ZArith Bool Arith Lia.
From Mamba Require Import Codec.PruferMulticodeBase Codec.PruferMulticodeFacts Codec.PruferModel
  Codec.PruferTree Codec.PruferDecodeProofs.
Import ListNotations.

(* ------------------------------------------------------------------ bits of an edge list *)
Lemma set_cells_length E : forall bits, length (set_cells E bits) = length bits.
Proof.
  unfold set_cells. induction E as [|p E IH]; intros; simpl; auto. rewrite IH, upd_length. auto.
Qed.

Lemma set_cells_nth E : forall bits k,
  (forall p, In p E -> cell p < length bits) ->
  nth k (set_cells E bits) false = nth k bits false || existsb (fun p => cell p =? k) E.
Proof.
  unfold set_cells. induction E as [|p E IH]; intros bits k H; simpl; [rewrite orb_false_r; auto|].
  rewrite IH.
  - rewrite nth_upd by (apply H; left; auto). rewrite (Nat.eqb_sym k).
    destruct (cell p =? k); simpl; auto. rewrite orb_true_r. auto.
  - intros q Hq. rewrite upd_length. apply H. right; auto.
Qed.

Lemma cell_sym a b : a <> b -> cell (a, b) = cell (b, a).
Proof. intros. unfold cell. destruct (Nat.ltb_spec b a), (Nat.ltb_spec a b); auto; lia. Qed.

Lemma cell_eq a b x y : a <> b -> x < y ->
  (cell (a, b) =? tri y + x) = ((a =? x) && (b =? y) || (a =? y) && (b =? x)).
Proof.
  intros Hab Hxy. unfold cell. destruct (Nat.ltb_spec b a) as [L|G].
  - destruct (Nat.eqb_spec (tri a + b) (tri y + x)) as [E|N].
    + apply tri_inj in E; auto. destruct E; subst. rewrite !Nat.eqb_refl, orb_true_r. auto.
    + symmetry. apply not_true_is_false. intros T. apply N.
      apply orb_true_iff in T. rewrite !andb_true_iff, !Nat.eqb_eq in T. destruct T as [[? ?]|[? ?]]; subst; auto; lia.
  - assert (a < b) by lia.
    destruct (Nat.eqb_spec (tri b + a) (tri y + x)) as [E|N].
    + apply tri_inj in E; auto. destruct E; subst. rewrite !Nat.eqb_refl. auto.
    + symmetry. apply not_true_is_false. intros T. apply N.
      apply orb_true_iff in T. rewrite !andb_true_iff, !Nat.eqb_eq in T. destruct T as [[? ?]|[? ?]]; subst; auto; lia.
Qed.

Lemma existsb_ext_in {A} (P Q : A -> bool) l : (forall x, In x l -> P x = Q x) -> existsb P l = existsb Q l.
Proof.
  induction l as [|a l IH]; intros H; simpl; auto.
  rewrite (H a (or_introl eq_refl)), IH; auto. intros; apply H; right; auto.
Qed.

Definition edges_ok (n : nat) (E : list (nat * nat)) : Prop :=
  forall a b, In (a, b) E -> a < n /\ b < n /\ a <> b.

Lemma length_bits_of n E : length (bits_of n E) = tri n.
Proof. unfold bits_of. rewrite set_cells_length, repeat_length. auto. Qed.

Lemma nth_bits_of n E x y : edges_ok n E -> x < y -> y < n ->
  nth (tri y + x) (bits_of n E) false = adjL E x y.
Proof.
  intros HE Hxy Hy. unfold bits_of. rewrite set_cells_nth.
  - rewrite nth_repeat' by (apply tri_bound; auto). cbn [orb].
    apply existsb_ext_in. intros [a b] Hin. destruct (HE a b Hin) as (_ & _ & Hab).
    cbn [fst snd]. apply cell_eq; auto.
  - intros [a b] Hin. destruct (HE a b Hin) as (Ha & Hb & Hab).
    rewrite repeat_length. apply cell_bound; auto.
Qed.

Lemma adjL_irr n E x : edges_ok n E -> adjL E x x = false.
Proof.
  intros HE. apply not_true_is_false. intros T. apply existsb_exists in T.
  destruct T as ([a b] & Hin & T). destruct (HE a b Hin) as (_ & _ & Hab). cbn [fst snd] in T.
  rewrite orb_diag, andb_true_iff, !Nat.eqb_eq in T. lia.
Qed.

Lemma bits_adj_bits_of n E x y : edges_ok n E -> x < n -> y < n ->
  bits_adj n (bits_of n E) x y = adjL E x y.
Proof.
  intros HE Hx Hy. unfold bits_adj.
  destruct (Nat.ltb_spec x n); [|lia]. destruct (Nat.ltb_spec y n); [|lia]. cbn [andb].
  destruct (Nat.ltb_spec x y).
  - apply nth_bits_of; auto.
  - destruct (Nat.ltb_spec y x).
    + rewrite adjL_sym. apply nth_bits_of; auto.
    + replace y with x by lia. symmetry. apply (adjL_irr n); auto.
Qed.

Lemma bits_adj_sym n b x y : bits_adj n b x y = bits_adj n b y x.
Proof.
  unfold bits_adj. rewrite (andb_comm (x <? n)).
  destruct ((y <? n) && (x <? n)); auto.
  destruct (Nat.ltb_spec x y), (Nat.ltb_spec y x); auto; lia.
Qed.

Lemma bits_adj_irr n b x : bits_adj n b x x = false.
Proof. unfold bits_adj. rewrite Nat.ltb_irrefl. destruct ((x <? n) && (x <? n)); auto. Qed.

Lemma dec_edges_ok : forall c V n,
  NoDup V -> (forall v, In v V -> v < n) -> (forall x, In x c -> In x V) -> edges_ok n (dec V c).
Proof.
  induction c as [|u c IH]; intros V n N Hn Hc a b Hin.
  - destruct V as [|x [|y r]]; simpl in Hin; try tauto. destruct Hin as [E|[]]. inversion E; subst.
    repeat split; try (apply Hn; simpl; auto). inversion N; subst. simpl in *. intuition.
  - cbn [dec] in Hin. destruct (first_free V (u :: c)) as [l|] eqn:F.
    + unfold first_free in F. apply find_some in F. destruct F as [Hl Fl]. apply negb_true_iff in Fl.
      assert (Hlc : ~ In l (u :: c)) by (intros H; apply mem_In in H; congruence).
      destruct Hin as [E|Hin].
      * inversion E; subst. repeat split; [apply Hn; auto|apply Hn, Hc; left; auto|].
        intros ->. apply Hlc. left; auto.
      * apply (IH (rem l V) n) in Hin; auto.
        -- apply NoDup_rem; auto.
        -- intros v Hv. apply In_rem in Hv. apply Hn; tauto.
        -- intros x Hx. apply In_rem. split; [apply Hc; right; auto|].
           intros ->. apply Hlc. right; auto.
    + apply (IH V n) in Hin; auto. intros; apply Hc; right; auto.
Qed.

(* ------------------------------------------------------------------ list surgery *)
Fixpoint find_idx (P : nat -> bool) (vs : list nat) (j : nat) : option (nat * nat) :=
  match vs with
  | [] => None
  | v :: r => if P v then Some (j, v) else find_idx P r (S j)
  end.

Lemma first_leaf_find deg vs : forall j,
  (forall v, In v vs -> v < length deg) ->
  first_leaf deg vs j = Ok (find_idx (fun v => (nth v deg 0 =? 1)%Z) vs j).
Proof.
  induction vs as [|v vs IH]; intros j H; [reflexivity|].
  cbn [first_leaf find_idx]. rewrite (get_ok deg v 0%Z) by (apply H; left; auto). cbn [bind].
  destruct (nth v deg 0 =? 1)%Z; auto. apply IH. intros; apply H; right; auto.
Qed.

Lemma find_idx_split P pre l post : forall j,
  (forall x, In x pre -> P x = false) -> P l = true ->
  find_idx P (pre ++ l :: post) j = Some (j + length pre, l).
Proof.
  induction pre as [|a pre IH]; intros j H Pl; cbn [app find_idx length].
  - rewrite Pl, Nat.add_0_r. reflexivity.
  - rewrite (H a (or_introl eq_refl)). rewrite IH; auto.
    + f_equal. f_equal. lia.
    + intros; apply H; right; auto.
Qed.

Lemma find_split (P : nat -> bool) V l : find P V = Some l ->
  exists pre post, V = pre ++ l :: post /\ (forall x, In x pre -> P x = false) /\ P l = true.
Proof.
  induction V as [|a V IH]; intros H; [discriminate|]. cbn [find] in H.
  destruct (P a) eqn:Pa.
  - inversion H; subst. exists [], V. repeat split; auto. intros x [].
  - destruct (IH H) as (pre & post & E & H1 & H2). exists (a :: pre), post. subst. repeat split; auto.
    intros x [<-|Hx]; auto.
Qed.

Lemma rem_split pre l post : NoDup (pre ++ l :: post) -> rem l (pre ++ l :: post) = pre ++ post.
Proof.
  intros N. unfold rem. rewrite filter_app. cbn [filter]. rewrite Nat.eqb_refl. cbn [negb].
  assert (H : forall L, (forall x, In x L -> x <> l) -> filter (fun x => negb (x =? l)) L = L).
  { induction L as [|a L IH]; intros H; auto. cbn [filter].
    destruct (Nat.eqb_spec a l) as [->|_]; [exfalso; apply (H l); [left|]; auto|].
    cbn [negb]. rewrite IH; auto. intros; apply H; right; auto. }
  apply NoDup_remove_2 in N. rewrite !H; auto.
  - intros x Hx ->. apply N. apply in_or_app; auto.
  - intros x Hx ->. apply N. apply in_or_app; auto.
Qed.

Lemma firstn_pre {A} (pre r : list A) : firstn (length pre) (pre ++ r) = pre.
Proof. induction pre; simpl; congruence. Qed.

Lemma skipn_pre {A} (pre r : list A) : skipn (length pre) (pre ++ r) = r.
Proof. induction pre; simpl; congruence. Qed.

Lemma remove_at_split pre l post :
  remove_at (pre ++ l :: post) (length pre) = pre ++ post ++ [last (pre ++ l :: post) 0].
Proof.
  unfold remove_at. rewrite firstn_pre.
  replace (skipn (S (length pre)) (pre ++ l :: post)) with post; auto.
  induction pre; simpl; auto.
Qed.

Lemma last_app_ne {A} (xs post : list A) d : post <> [] -> last (xs ++ post) d = last post d.
Proof.
  intros H. induction xs as [|a xs IH]; auto. cbn [app].
  destruct (xs ++ post) eqn:E; [destruct xs; simpl in E; congruence|].
  rewrite <- IH. reflexivity.
Qed.

Lemma last_repeat (z : nat) r d : last (repeat z (S r)) d = z.
Proof. induction r as [|r IH]; auto. Qed.

Lemma last_app_repeat (V : list nat) r : V <> [] -> last (V ++ repeat (last V 0) r) 0 = last V 0.
Proof.
  intros H. destruct r as [|r]; [cbn [repeat]; rewrite app_nil_r; auto|].
  rewrite last_app_ne by discriminate. apply last_repeat.
Qed.

Lemma find_app_some {A} (Q : A -> bool) V W u : find Q V = Some u -> find Q (V ++ W) = Some u.
Proof.
  induction V as [|a V IH]; intros H; [discriminate|]. cbn [app find] in *.
  destruct (Q a); auto.
Qed.

(* ------------------------------------------------------------------ the encoder loop *)
Section Encode.
Variable g : graph.
Hypothesis g_simple : simple g.
Let adj := gadj g.
Let n := gn g.

Lemma pe_iter_ok : forall k V r deg out,
  NoDup V -> (forall v, In v V -> v < n) -> length deg = n -> length V = k + 2 ->
  ltree adj V -> (forall v, In v V -> nth v deg 0%Z = Z.of_nat (degS adj V v)) ->
  exists vs' deg',
    pe_iter g k (V ++ repeat (last V 0) r, deg, out) = Ok (vs', deg', rev (enc adj k V) ++ out).
Proof.
  destruct g_simple as [Hsym Hirr]. fold adj in Hsym, Hirr.
  induction k as [|k IH]; intros V r deg out N Hn Ld Hlen T D.
  - cbn [pe_iter enc rev app]. eauto.
  - cbn [pe_iter pe_step].
    (* the first leaf l of V *)
    assert (exists l, first_leafS adj V = Some l) as [l FL].
    { unfold first_leafS. destruct (find _ V) eqn:E; [eauto|]. exfalso.
      inversion T as [v0 Hv0|V' x y Hx Hy Axy Dx _]; subst; [simpl in Hlen; lia|].
      pose proof (find_none _ _ E x Hx) as F. cbv beta in F. rewrite Dx in F. discriminate. }
    pose proof FL as FL'. unfold first_leafS in FL'.
    destruct (find_split _ V l FL') as (pre & post & EV & Hpre & Pl).
    apply Nat.eqb_eq in Pl.
    assert (Hl : In l V) by (rewrite EV; apply in_or_app; right; left; auto).
    (* another leaf lies behind l, so l is not the last element *)
    assert (Hpost : post <> []).
    { destruct (ltree_two_leaves adj Hsym Hirr V T N ltac:(lia)) as (a & b & Ha & Hb & Hab & Da & Db).
      assert (G : forall c, In c V -> degS adj V c = 1 -> c <> l -> In c post).
      { intros c Hc Dc Hcl. rewrite EV in Hc. apply in_app_or in Hc. destruct Hc as [Hc|[Hc|Hc]]; auto.
        - apply Hpre in Hc. rewrite Dc in Hc. discriminate.
        - congruence. }
      destruct (Nat.eq_dec a l) as [->|Hal].
      - specialize (G b Hb Db ltac:(congruence)). intros ->. destruct G.
      - specialize (G a Ha Da Hal). intros ->. destruct G. }
    (* the scan of the array finds l at position |pre| *)
    assert (EVW : forall W, V ++ W = pre ++ l :: post ++ W)
      by (intros; rewrite EV, <- app_assoc; reflexivity).
    set (W := repeat (last V 0) r).
    rewrite first_leaf_find.
    2:{ intros v Hv. rewrite Ld. apply in_app_or in Hv. destruct Hv as [Hv|Hv]; [apply Hn; auto|].
        unfold W in Hv. apply repeat_spec in Hv. subst v. apply Hn.
        rewrite EV. rewrite last_app_ne by discriminate.
        apply in_or_app. right. destruct post as [|p post']; [congruence|].
        right. rewrite <- (app_nil_l (p :: post')) at 2.
        change (last (l :: p :: post') 0) with (last (p :: post') 0).
        clear. revert p. induction post' as [|q post' IH]; intros p; [left; auto|].
        change (last (p :: q :: post') 0) with (last (q :: post') 0). right. apply IH. }
    rewrite (EVW W).
    rewrite find_idx_split.
    2:{ intros x Hx. rewrite D by (rewrite EV; apply in_or_app; auto).
        pose proof (Hpre x Hx) as Px. cbv beta in Px. apply Nat.eqb_neq in Px.
        apply Z.eqb_neq. lia. }
    2:{ rewrite D by auto. apply Z.eqb_eq. lia. }
    rewrite <- (EVW W).
    cbn [bind Nat.add].
    (* the neighbour *)
    destruct (leaf_has_nbr adj V l Pl) as (u & Hu & Alu).
    assert (Al : forall x, In x V -> adj l x = (u =? x)).
    { intros x Hx. destruct (Nat.eqb_spec u x) as [<-|Hne]; auto.
      destruct (adj l x) eqn:A; auto. exfalso. apply Hne. symmetry.
      apply (leaf_unique adj V l u x); auto. }
    assert (FU : find (fun x => adj x l) V = Some u).
    { rewrite (find_ext_in _ (Nat.eqb u) V) by (intros x Hx; rewrite Hsym; apply Al; auto).
      apply find_eqb; auto. }
    fold adj. rewrite (find_app_some _ V _ u FU).
    rewrite add_at_ok by (rewrite Ld; apply Hn; auto). cbn [bind].
    (* the array after copy *)
    assert (EA : remove_at (V ++ W) (length pre) =
                 rem l V ++ repeat (last (rem l V) 0) (S r)).
    { assert (Vne : V <> []) by (intros ->; destruct Hl).
      rewrite (EVW W), remove_at_split, <- (EVW W). unfold W.
      rewrite last_app_repeat by auto.
      assert (ER : rem l V = pre ++ post) by (rewrite EV; apply rem_split; rewrite <- EV; auto).
      assert (EL : last (pre ++ post) 0 = last V 0).
      { rewrite EV. rewrite !last_app_ne by (auto; discriminate).
        destruct post; [congruence|reflexivity]. }
      rewrite ER, EL. rewrite <- !app_assoc. f_equal. f_equal.
      cbn [repeat]. rewrite repeat_cons. reflexivity. }
    rewrite EA.
    pose proof (length_rem l V N Hl) as HL.
    assert (Hlu : l <> u) by (intros ->; rewrite Hirr in Alu; discriminate).
    destruct (IH (rem l V) (S r) (upd deg u (nth u deg 0 + -1)%Z) (u :: out)) as (vs' & deg' & E).
    + apply NoDup_rem; auto.
    + intros v Hv. apply In_rem in Hv. apply Hn; tauto.
    + rewrite upd_length; auto.
    + lia.
    + apply ltree_rem_leaf; auto. lia.
    + intros v Hv. apply In_rem in Hv. destruct Hv as [Hv Hvl].
      pose proof (deg_rem adj V l v N Hl) as DR. rewrite Hsym, (Al v Hv) in DR.
      rewrite nth_upd by (rewrite Ld; apply Hn; auto).
      destruct (Nat.eqb_spec v u) as [->|Hvu].
      * rewrite D by auto. rewrite Nat.eqb_refl in DR. lia.
      * rewrite D by auto. destruct (Nat.eqb_spec u v); [congruence|]. lia.
    + exists vs', deg'. rewrite E. f_equal. f_equal.
      cbn [enc]. rewrite FL, FU. cbn [rev]. rewrite <- app_assoc. reflexivity.
Qed.

Theorem prufer_encode_enc :
  n >= 2 -> ltree adj (seq 0 n) ->
  prufer_encode g = Ok (map Z.of_nat (enc adj (n - 2) (seq 0 n))).
Proof.
  intros Hn T. unfold prufer_encode. fold n.
  destruct (Nat.ltb_spec n 2); [lia|].
  destruct (pe_iter_ok (n - 2) (seq 0 n) 0 (degrees g) []) as (vs' & deg' & E); auto.
  - apply seq_NoDup.
  - intros v Hv. apply in_seq in Hv. lia.
  - unfold degrees. rewrite map_length, seq_length. reflexivity.
  - rewrite seq_length. lia.
  - intros v Hv. apply in_seq in Hv. unfold degrees.
    rewrite (nth_indep _ 0%Z (degree g 0)) by (rewrite map_length, seq_length; lia).
    rewrite map_nth, seq_nth by lia. reflexivity.
  - cbn [repeat] in E. rewrite app_nil_r in E. fold n. rewrite E. cbn [bind].
    rewrite app_nil_r, rev_involutive. reflexivity.
Qed.

End Encode.
