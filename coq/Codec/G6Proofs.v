(* graph6: Graph6Encode writes the string of the format text, the format's reader inverts it,
   and Graph6Decode computes the format's reader on every string (so it is total). *)
From Coq Require Import List ZArith Bool Arith Lia.
From Mamba Require Import Codec.Model Codec.Spec Codec.BitLemmas Codec.G6Header.
Import ListNotations.
Open Scope Z_scope.

Local Ltac dm := Z.div_mod_to_equations.

(* ------------------------------------------------------------------ the triangle *)
Definition tri_rows (f : nat -> nat -> bool) (n : nat) : list bool :=
  flat_map (fun j => map (fun i => f j i) (seq 0 j)) (seq 0 n).

Lemma tri_bits_rows : forall g, tri_bits g = tri_rows (gadj g) (gn g).
Proof. reflexivity. Qed.

Lemma tri_rows_S : forall f n, tri_rows f (S n) = tri_rows f n ++ map (fun i => f n i) (seq 0 n).
Proof.
  intros f n. unfold tri_rows. rewrite seq_S, flat_map_app. cbn [flat_map Nat.add]. rewrite app_nil_r. reflexivity.
Qed.

Lemma tri_S : forall n, 0 <= n -> tri (n + 1) = tri n + n.
Proof.
  intros n Hn. unfold tri. replace ((n + 1) * (n + 1 - 1)) with (n * (n - 1) + n * 2) by ring.
  rewrite Z.div_add by lia. reflexivity.
Qed.

Lemma tri_nonneg : forall n, 0 <= n -> 0 <= tri n.
Proof. intros n Hn. unfold tri. apply Z.div_pos; [nia|lia]. Qed.

Lemma tri_rows_length : forall f n, Z.of_nat (length (tri_rows f n)) = tri (Z.of_nat n).
Proof.
  intros f. induction n as [|n IH]; [reflexivity|].
  rewrite tri_rows_S, app_length, map_length, seq_length, Nat2Z.inj_add, IH.
  rewrite Nat2Z.inj_succ, <- Z.add_1_r, tri_S by lia. reflexivity.
Qed.

Lemma tri_bits_length : forall g, len (tri_bits g) = tri (Z.of_nat (gn g)).
Proof. intros g. apply tri_rows_length. Qed.

(* ------------------------------------------------------------------ Graph6Encode = the format *)
Lemma fold_left_flat_map : forall {A B C} (f : A -> B -> A) (h : C -> list B) l a,
  fold_left f (flat_map h l) a = fold_left (fun a x => fold_left f (h x) a) l a.
Proof.
  intros A B C f h l. induction l as [|x l IH]; intros a; [reflexivity|].
  cbn [flat_map fold_left]. rewrite fold_left_app. apply IH.
Qed.

Lemma fold_left_map : forall {A B C} (f : A -> B -> A) (h : C -> B) l a,
  fold_left f (map h l) a = fold_left (fun a x => f a (h x)) l a.
Proof.
  intros A B C f h l. induction l as [|x l IH]; intros a; [reflexivity|]. cbn [map fold_left]. apply IH.
Qed.

Lemma fold_left_ext : forall {A B} (f g : A -> B -> A) l a,
  (forall a x, f a x = g a x) -> fold_left f l a = fold_left g l a.
Proof.
  intros A B f g l. induction l as [|x l IH]; intros a H; [reflexivity|]. cbn [fold_left]. rewrite H. apply IH, H.
Qed.

Lemma g6_writer : forall o g,
  fold_left (fun w i => fold_left (fun w j => bw_put o w (gadj g i j)) (seq 0 i) w) (seq 1 (gn g - 1)) bw0
  = fold_left (bw_put o) (tri_bits g) bw0.
Proof.
  intros o g. unfold tri_bits. rewrite fold_left_flat_map.
  destruct (gn g) as [|n]; [reflexivity|].
  cbn [seq fold_left map]. rewrite Nat.sub_succ, Nat.sub_0_r.
  apply fold_left_ext. intros a x. rewrite fold_left_map. reflexivity.
Qed.

Lemma s64_u64_small : forall x, 0 <= x < 9223372036854775808 -> wrap64 x = x.
Proof.
  intros x H. unfold wrap64, s64, u64. rewrite Z.mod_small by lia.
  destruct (Z.ltb_spec x 9223372036854775808); lia.
Qed.

Lemma mk_cap_ok : forall hl e, 0 <= hl <= 16 -> 0 <= e < 9223372036854775000 -> mk_cap hl e = Ok tt.
Proof.
  intros hl e Hh He. unfold mk_cap. rewrite (s64_u64_small (e + 5)) by lia.
  assert (0 <= Z.quot (e + 5) 6 <= e + 5).
  { rewrite Z.quot_div_nonneg by lia. split; [apply Z.div_pos; lia|]. apply Z.div_le_upper_bound; lia. }
  rewrite s64_u64_small by lia.
  destruct (Z.ltb_spec (hl + Z.quot (e + 5) 6) hl); [lia|reflexivity].
Qed.

Lemma tri_small : forall n, 0 <= n <= 3037000500 -> 0 <= n * (n - 1) < 9223372036854775808.
Proof. intros n H. nia. Qed.

(* The string Graph6Encode builds is the one the format text prescribes.  The bound is the one
   under which the int expression n*(n-1) of the capacity computation does not wrap. *)
Theorem graph6_encode_spec : forall g, Z.of_nat (gn g) <= 3037000500 ->
  graph6_encode g = Ok (g6_spec g).
Proof.
  intros g Hn. unfold graph6_encode, g6_spec.
  destruct (Z.leb_spec (Z.of_nat (gn g)) 1) as [H1|H1].
  { unfold tri_bits. destruct (gn g) as [|[|m]]; [reflexivity|reflexivity|lia]. }
  set (n := Z.of_nat (gn g)) in *.
  rewrite enc_size_spec by lia. cbn [bind].
  pose proof (tri_small n ltac:(lia)) as Ht.
  rewrite (s64_u64_small (n * (n - 1))) by lia.
  rewrite mk_cap_ok.
  2:{ rewrite spec_N_len by lia. unfold hdr_len. destruct (n <=? 62); [lia|]. destruct (n <=? 258047); lia. }
  2:{ rewrite Z.quot_div_nonneg by lia. split; [apply Z.div_pos; lia|].
      apply Z.div_lt_upper_bound; lia. }
  cbn [bind]. rewrite g6_writer.
  f_equal. f_equal. apply (bw_out false).
Qed.

Theorem graph6_encode_panic : forall g, 68719476735 < Z.of_nat (gn g) -> graph6_encode g = Panic.
Proof.
  intros g Hn. unfold graph6_encode.
  destruct (Z.leb_spec (Z.of_nat (gn g)) 1); [lia|]. rewrite enc_size_panic by lia. reflexivity.
Qed.

Lemma g6_spec_range : forall g, Forall (fun c => 63 <= c <= 126) (g6_spec g).
Proof.
  intros g. unfold g6_spec. apply Forall_app. split; [apply spec_N_range; lia|apply pack6_range].
Qed.

(* ------------------------------------------------------------------ the format's reader on g6_spec *)
Lemma firstn_app_len : forall {A} (a b : list A), firstn (length a) (a ++ b) = a.
Proof. intros. apply firstn_app_exact. reflexivity. Qed.

Theorem g6_spec_decode_spec : forall g, Z.of_nat (gn g) <= 68719476735 ->
  g6_spec_decode (g6_spec g) = Some (Z.of_nat (gn g), tri_bits g).
Proof.
  intros g Hn. unfold g6_spec_decode.
  rewrite (proj2 (forallb_in_range _) (g6_spec_range g)). cbn [negb].
  unfold g6_spec. rewrite spec_read_N_spec_N by lia.
  rewrite unpack6_pack6.
  pose proof (tri_bits_length g) as HL. unfold len in HL.
  replace (Z.to_nat (tri (Z.of_nat (gn g)))) with (length (tri_bits g)) by lia.
  replace (length (tri_bits g ++ _) <? length (tri_bits g))%nat with false.
  2:{ symmetry. apply Nat.ltb_ge. rewrite app_length. lia. }
  rewrite firstn_app_len. reflexivity.
Qed.

(* ------------------------------------------------------------------ reading single bits *)
Lemma bit_tests_fin :
  forallb (fun x => forallb (fun sh =>
      Bool.eqb (negb (Z.shiftr (Z.land x (byte_of (Z.shiftl 1 sh))) sh =? 0)) (Z.testbit x sh) &&
      Bool.eqb (Z.land (Z.shiftr x sh) 1 =? 1) (Z.testbit x sh))
    [0; 1; 2; 3; 4; 5]) (map Z.of_nat (seq 0 64)) = true.
Proof. vm_compute. reflexivity. Qed.

Lemma bit_tests : forall x sh, 0 <= x < 64 -> 0 <= sh <= 5 ->
  negb (Z.shiftr (Z.land x (byte_of (Z.shiftl 1 sh))) sh =? 0) = Z.testbit x sh /\
  (Z.land (Z.shiftr x sh) 1 =? 1) = Z.testbit x sh.
Proof.
  intros x sh Hx Hs. pose proof bit_tests_fin as H. rewrite forallb_forall in H.
  specialize (H x). rewrite forallb_forall in H.
  assert (Hin : In x (map Z.of_nat (seq 0 64))).
  { apply in_map_iff. exists (Z.to_nat x). split; [lia|]. apply in_seq. lia. }
  specialize (H Hin sh).
  assert (Hs' : In sh [0; 1; 2; 3; 4; 5]) by (cbn [In]; lia).
  specialize (H Hs'). apply andb_true_iff in H. destruct H as [H1 H2].
  apply eqb_prop in H1. apply eqb_prop in H2. auto.
Qed.

(* bit p of the stream of a string *)
Lemma unpack6_nth : forall t p c, nth_error t (p / 6) = Some c ->
  nth_error (unpack6 t) p = Some (Z.testbit (c - 63) (Z.of_nat (5 - p mod 6))).
Proof.
  induction t as [|a t IH]; intros p c H.
  - destruct (p / 6)%nat; discriminate.
  - rewrite unpack6_cons. destruct (Nat.lt_ge_cases p 6) as [Hp|Hp].
    + rewrite Nat.div_small in H by lia. injection H as ->.
      rewrite nth_error_app1 by (rewrite bits_be_length; lia).
      do 6 (destruct p as [|p]; [reflexivity|]). lia.
    + replace p with ((p - 6) + 1 * 6)%nat in H by lia. rewrite Nat.div_add in H by lia.
      rewrite Nat.add_1_r in H. cbn [nth_error] in H.
      rewrite nth_error_app2 by (rewrite bits_be_length; lia). rewrite bits_be_length.
      rewrite (IH _ _ H). do 3 f_equal.
      replace p with ((p - 6) + 1 * 6)%nat at 2 by lia. rewrite Nat.mod_add by lia. reflexivity.
Qed.

Lemma nth_error_skipn_add : forall {A} (l : list A) k i, nth_error (skipn k l) i = nth_error l (k + i).
Proof.
  intros A l. induction l as [|x l IH]; intros k i.
  - rewrite skipn_nil. destruct i, k; reflexivity.
  - destruct k; [reflexivity|]. cbn [skipn Nat.add nth_error]. apply IH.
Qed.

Lemma nth_error_Forall : forall {A} (P : A -> Prop) l i a, Forall P l -> nth_error l i = Some a -> P a.
Proof. intros A P l i a H E. rewrite Forall_forall in H. apply H. eapply nth_error_In, E. Qed.

(* the byte and bit the decoders' index arithmetic addresses *)
Lemma stream_bit : forall s i p, Forall (fun c => 63 <= c <= 126) s -> 0 <= i -> 0 <= p ->
  6 * i + p < 6 * len s ->
  exists ch, at_ s (i + p / 6) = Ok ch /\ 63 <= ch <= 126 /\
    nth_error (unpack6 (skipn (Z.to_nat i) s)) (Z.to_nat p) = Some (Z.testbit (ch - 63) (5 - p mod 6)).
Proof.
  intros s i p Hr Hi Hp Hlt.
  assert (Hq : 0 <= p / 6) by (apply Z.div_pos; lia).
  destruct (at_inrange s (i + p / 6)) as (ch & Ha & Hn); [dm; lia|].
  exists ch. split; [exact Ha|]. split; [exact (nth_error_Forall (fun c => 63 <= c <= 126) s _ ch Hr Hn)|].
  assert (E : nth_error (skipn (Z.to_nat i) s) (Z.to_nat p / 6) = Some ch).
  { rewrite nth_error_skipn_add. rewrite <- Hn. f_equal.
    rewrite Z2Nat.inj_add by lia. f_equal.
    rewrite <- (Nat2Z.id (Z.to_nat p / 6)), Nat2Z.inj_div, Z2Nat.id by lia. reflexivity. }
  rewrite (unpack6_nth _ _ _ E). do 2 f_equal.
  pose proof (Nat.mod_upper_bound (Z.to_nat p) 6 ltac:(lia)) as Hm.
  rewrite Nat2Z.inj_sub by lia. rewrite Nat2Z.inj_mod, Z2Nat.id by lia. reflexivity.
Qed.

Lemma nth_error_firstn_skipn_S : forall {A} (l : list A) j cnt a, nth_error l j = Some a ->
  firstn (S cnt) (skipn j l) = a :: firstn cnt (skipn (S j) l).
Proof.
  intros A l. induction l as [|x l IH]; intros j cnt a H.
  - destruct j; discriminate.
  - destruct j as [|j].
    + injection H as ->. reflexivity.
    + cbn [nth_error] in H. cbn [skipn]. rewrite (IH _ _ _ H). reflexivity.
Qed.

(* the edge loop of Graph6Decode reads the bits of the stream after the header *)
Lemma g6_read_spec : forall s i, Forall (fun c => 63 <= c <= 126) s -> 0 <= i ->
  forall cnt j, 0 <= j -> 6 * i + j + Z.of_nat cnt <= 6 * len s ->
  g6_read s i cnt j = Ok (firstn cnt (skipn (Z.to_nat j) (unpack6 (skipn (Z.to_nat i) s)))).
Proof.
  intros s i Hr Hi. induction cnt as [|cnt IH]; intros j Hj Hb.
  - reflexivity.
  - cbn [g6_read].
    destruct (stream_bit s i j Hr Hi Hj ltac:(lia)) as (ch & Ha & Hc & Hn).
    rewrite Ha. cbn [bind]. rewrite IH by lia. cbn [bind].
    rewrite (nth_error_firstn_skipn_S _ _ _ _ Hn).
    replace (Z.to_nat (j + 1)) with (S (Z.to_nat j)) by lia.
    rewrite bsub63 by lia.
    destruct (bit_tests (ch - 63) (5 - j mod 6)) as [Hb1 _]; [lia|dm; lia|].
    rewrite Hb1. reflexivity.
Qed.

(* ------------------------------------------------------------------ Graph6Decode = the format's reader
   on every string, as long as no int product wraps: [n*(n-1) < 2^63] for the declared n, which
   holds whenever the string has fewer than 2^59 bytes or declares n <= 3037000500. *)
Definition g6_nowrap (s : list Z) : Prop :=
  len s < 576460752303423488 \/
  forall n r, spec_read_N s = Some (n, r) -> n <= 3037000500.

Lemma strip_cases : forall p s, strip p s = s \/ s = p ++ strip p s.
Proof.
  intros p s. unfold strip. destruct (strip_prefix p s) as [r|] eqn:E; [|left; reflexivity].
  right. revert s r E. induction p as [|a p IH]; intros s r E.
  - cbn [strip_prefix] in E. injection E as ->. reflexivity.
  - destruct s as [|b s]; [discriminate|]. cbn [strip_prefix] in E.
    destruct (Z.eqb_spec a b); [|discriminate]. subst b. cbn [app]. f_equal. apply IH, E.
Qed.

Lemma strip_len : forall p s, len (strip p s) <= len s.
Proof.
  intros p s. destruct (strip_cases p s) as [E|E].
  - rewrite E. lia.
  - rewrite E at 2. rewrite len_app. pose proof (len_nonneg p). lia.
Qed.

Lemma strip_app : forall p s, strip p (p ++ s) = s.
Proof.
  intros p s. unfold strip. replace (strip_prefix p (p ++ s)) with (Some s); [reflexivity|].
  induction p as [|a p IH]; [reflexivity|]. cbn [app strip_prefix]. rewrite Z.eqb_refl. exact IH.
Qed.

Lemma strip_none : forall p s a b, p = a :: tl p -> s = b :: tl s -> a <> b -> strip p s = s.
Proof.
  intros p s a b Hp Hs Hab. unfold strip. rewrite Hp, Hs. cbn [strip_prefix].
  destruct (Z.eqb_spec a b); [contradiction|reflexivity].
Qed.

Lemma spec_read_N_skip : forall s n r, Forall (fun c => 63 <= c <= 126) s -> s <> [] ->
  spec_read_N s = Some (n, r) -> exists k, r = skipn k s.
Proof.
  intros s n r Hr Hne E. pose proof (dec_size_refines false s Hr Hne) as H. rewrite E in H.
  destruct H as [_ H]. cbn [andb] in H. destruct H as (i & _ & -> & _). eauto.
Qed.

Definition g6_result (s : list Z) : res (Z * list bool) :=
  match s with
  | [] => Ok (0, [])
  | _ => match g6_spec_decode s with Some r => Ok r | None => Err end
  end.

Theorem graph6_decode_refines : forall s0, let s := strip hdr_graph6 s0 in
  g6_nowrap s -> graph6_decode s0 = g6_result s.
Proof.
  intros s0 s Hw. unfold graph6_decode, g6_result, g6_spec_decode. fold s.
  destruct (forallb in_range s) eqn:Hr; cbn [negb].
  2:{ destruct s; [discriminate|reflexivity]. }
  destruct s as [|c0 r0] eqn:Es; [reflexivity|]. rewrite <- Es in *.
  apply forallb_in_range in Hr.
  assert (Hne : s <> []) by (rewrite Es; discriminate).
  pose proof (dec_size_refines true s Hr Hne) as HD.
  destruct (spec_read_N s) as [[n r]|] eqn:ER.
  2:{ rewrite HD. reflexivity. }
  destruct HD as [Hn HD]. cbn [andb] in HD.
  assert (Hlen : length (unpack6 r) = (6 * length r)%nat) by apply unpack6_length.
  destruct (Z.ltb_spec 4294967296 n) as [Hbig|Hsmall].
  { (* Graph too large: the string cannot hold that many bits *)
    rewrite HD. cbn [bind].
    replace (length (unpack6 r) <? Z.to_nat (tri n))%nat with true; [reflexivity|].
    symmetry. apply Nat.ltb_lt.
    assert (4294967296 * 4294967296 <= n * (n - 1)) by nia.
    assert (9223372036854775808 <= tri n) by (unfold tri; apply Z.div_le_lower_bound; lia).
    destruct Hw as [Hw|Hw]; [|specialize (Hw _ _ ER); lia].
    assert (length r <= length s)%nat.
    { destruct (spec_read_N_skip s n r Hr Hne ER) as (k & ->). rewrite skipn_length. lia. }
    unfold len in Hw. lia. }
  destruct HD as (i & HD & Hs & Hi & Hil & _). rewrite HD. cbn [bind].
  assert (Hrl : Z.of_nat (length r) = len s - i).
  { rewrite Hs, skipn_length. unfold len in *. lia. }
  (* no wrap in n*(n-1) *)
  assert (Hu : u64 (n * u64 (n - 1)) = n * (n - 1)).
  { destruct (Z.eq_dec n 0) as [->|]; [reflexivity|].
    unfold u64. rewrite (Z.mod_small (n - 1)) by lia. rewrite Z.mod_small; [reflexivity|]. nia. }
  rewrite Hu. fold (tri n).
  assert (Ht : 0 <= tri n < 9223372036854775808 - 5).
  { split; [apply tri_nonneg; lia|]. unfold tri. apply Z.div_lt_upper_bound; [lia|]. nia. }
  unfold u64 at 1. rewrite (Z.mod_small (tri n + 5)) by lia.
  unfold s64 at 1. destruct (Z.ltb_spec (tri n + 5) 9223372036854775808); [|lia].
  rewrite Z.quot_div_nonneg by lia.
  destruct (Z.ltb_spec (len s) (i + (tri n + 5) / 6)) as [Hshort|Hlong].
  { replace (length (unpack6 r) <? Z.to_nat (tri n))%nat with true; [reflexivity|].
    symmetry. apply Nat.ltb_lt. rewrite Hlen. dm. lia. }
  replace (length (unpack6 r) <? Z.to_nat (tri n))%nat with false.
  2:{ symmetry. apply Nat.ltb_ge. rewrite Hlen. dm. lia. }
  rewrite (g6_read_spec s i Hr ltac:(lia) (Z.to_nat (tri n)) 0 ltac:(lia)) by (dm; lia).
  cbn [bind]. change (Z.to_nat 0) with 0%nat. cbn [skipn]. rewrite <- Hs.
  (* NewDense's length test *)
  assert (Hnn : n * (n - 1) < 9223372036854775808).
  { destruct Hw as [Hw|Hw]; [|specialize (Hw _ _ ER); nia].
    assert (tri n <= 6 * len s) by (dm; lia).
    unfold tri in H0. assert (n * (n - 1) <= 2 * (6 * len s) + 1) by (dm; lia). lia. }
  assert (Hs64 : s64 n = n).
  { unfold s64. destruct (Z.ltb_spec n 9223372036854775808); lia. }
  rewrite Hs64.
  assert (Hnn0 : 0 <= n * (n - 1)) by nia.
  unfold u64. rewrite (Z.mod_small (n * (n - 1))) by lia.
  unfold s64. destruct (Z.ltb_spec (n * (n - 1)) 9223372036854775808); [|lia].
  rewrite Z.quot_div_nonneg by lia. fold (tri n).
  unfold len. rewrite firstn_length, Nat.min_l by (rewrite Hlen; dm; lia).
  rewrite Z2Nat.id, Z.eqb_refl by lia. reflexivity.
Qed.

(* ------------------------------------------------------------------ round trip *)
Lemma strip_in_range : forall s, Forall (fun c => 63 <= c <= 126) s -> strip hdr_graph6 s = s.
Proof.
  intros s Hr. destruct (strip_cases hdr_graph6 s) as [E|E]; [exact E|].
  exfalso. rewrite E in Hr. inversion Hr; subst. lia.
Qed.

Lemma g6_spec_nonempty : forall g, g6_spec g <> [].
Proof.
  intros g. unfold g6_spec, spec_N.
  destruct (Z.of_nat (gn g) <=? 62); [discriminate|]. destruct (Z.of_nat (gn g) <=? 258047); discriminate.
Qed.

Lemma g6_result_spec : forall g, Z.of_nat (gn g) <= 68719476735 ->
  g6_result (g6_spec g) = Ok (Z.of_nat (gn g), tri_bits g).
Proof.
  intros g Hn. unfold g6_result. rewrite g6_spec_decode_spec by exact Hn.
  destruct (g6_spec g) eqn:E; [exfalso; eapply g6_spec_nonempty; eauto|reflexivity].
Qed.

Lemma g6_nowrap_spec : forall g, Z.of_nat (gn g) <= 3037000500 -> g6_nowrap (g6_spec g).
Proof.
  intros g Hn. right. intros n r E. unfold g6_spec in E. rewrite spec_read_N_spec_N in E by lia.
  injection E as <- _. exact Hn.
Qed.

(* Graph6Decode(Graph6Encode(g)) = g, with and without the optional header *)
Theorem graph6_roundtrip : forall g s, Z.of_nat (gn g) <= 3037000500 ->
  graph6_encode g = Ok s ->
  graph6_decode s = Ok (Z.of_nat (gn g), tri_bits g) /\
  graph6_decode (hdr_graph6 ++ s) = Ok (Z.of_nat (gn g), tri_bits g).
Proof.
  intros g s Hn E. rewrite graph6_encode_spec in E by exact Hn. injection E as <-.
  split.
  - rewrite graph6_decode_refines; rewrite strip_in_range by apply g6_spec_range.
    + apply g6_result_spec. lia.
    + apply g6_nowrap_spec, Hn.
  - rewrite graph6_decode_refines; rewrite strip_app.
    + apply g6_result_spec. lia.
    + apply g6_nowrap_spec, Hn.
Qed.

Theorem graph6_encode_bytes : forall g s, Z.of_nat (gn g) <= 3037000500 ->
  graph6_encode g = Ok s -> Forall (fun c => 63 <= c <= 126) s.
Proof.
  intros g s Hn E. rewrite graph6_encode_spec in E by exact Hn. injection E as <-. apply g6_spec_range.
Qed.
