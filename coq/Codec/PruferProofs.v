(* The two round trips of the Pruefer model. *)
From Coq Require Import List ZArith Bool Arith Lia.
From Mamba Require Import Codec.PruferMulticodeBase Codec.PruferMulticodeFacts Codec.PruferModel
  Codec.PruferTree Codec.PruferDecodeProofs Codec.PruferEncodeProofs Codec.PruferConnected Codec.PruferNewDense.
Import ListNotations.

(* g is a tree: leaf elimination on all its vertices (see PruferTree.v, PruferConnected.v) *)
Definition is_tree (g : graph) : Prop := ltree (gadj g) (seq 0 (gn g)).

Definition valid_code (c : list nat) : Prop := forall x, In x c -> x < length c + 2.

(* the graph PruferDecode builds from c *)
Definition code_bits (c : list nat) : list bool :=
  bits_of (length c + 2) (dec (seq 0 (length c + 2)) c).
Definition code_graph (c : list nat) : graph := graph_of_bits (length c + 2) (code_bits c).

Lemma valid_code_in c : valid_code c -> forall x, In x c -> In x (seq 0 (length c + 2)).
Proof. intros H x Hx. apply in_seq. specialize (H x Hx). lia. Qed.

Lemma code_edges_ok c : valid_code c -> edges_ok (length c + 2) (dec (seq 0 (length c + 2)) c).
Proof.
  intros H. apply dec_edges_ok; [apply seq_NoDup| |apply valid_code_in; auto].
  intros v Hv. apply in_seq in Hv. lia.
Qed.

Lemma code_graph_simple c : simple (code_graph c).
Proof. split; intros; [apply bits_adj_sym|apply bits_adj_irr]. Qed.

Lemma code_graph_facts c : valid_code c ->
  is_tree (code_graph c) /\
  enc (gadj (code_graph c)) (length c) (seq 0 (length c + 2)) = c /\
  (forall v, v < length c + 2 -> degS (gadj (code_graph c)) (seq 0 (length c + 2)) v = 1 + countn v c).
Proof.
  intros H. set (n := length c + 2).
  destruct (dec_enc c (seq 0 n) (gadj (code_graph c))) as (T & E & D).
  - apply (proj1 (code_graph_simple c)).
  - apply (proj2 (code_graph_simple c)).
  - apply seq_NoDup.
  - rewrite seq_length. reflexivity.
  - apply valid_code_in; auto.
  - intros x y Hx Hy. apply in_seq in Hx, Hy. apply bits_adj_bits_of; [apply code_edges_ok; auto|lia|lia].
  - repeat split; auto. intros v Hv. apply D. apply in_seq. lia.
Qed.

(* decode, then encode *)
Lemma prufer_decode_code c : valid_code c ->
  prufer_decode (map Z.of_nat c) = Ok (dense_of (code_graph c)).
Proof.
  intros H. unfold prufer_decode. rewrite prufer_decode_args_dec by auto. cbn [bind fst snd].
  fold (code_bits c).
  rewrite <- (tri_bits_graph_of_bits (length c + 2) (code_bits c)) at 1 by apply length_bits_of.
  apply (new_dense_ok (code_graph c)). apply code_graph_simple.
Qed.

Theorem prufer_decode_encode c : valid_code c ->
  prufer_decode (map Z.of_nat c) = Ok (dense_of (code_graph c)) /\
  gn (code_graph c) = length c + 2 /\
  is_tree (code_graph c) /\
  prufer_encode (code_graph c) = Ok (map Z.of_nat c).
Proof.
  intros H. destruct (code_graph_facts c H) as (T & E & _).
  split; [apply prufer_decode_code; auto|].
  split; [reflexivity|]. split; auto.
  rewrite prufer_encode_enc; auto.
  - cbn [gn code_graph graph_of_bits]. replace (length c + 2 - 2) with (length c) by lia.
    rewrite E. reflexivity.
  - apply code_graph_simple.
  - cbn. lia.
Qed.

(* encode, then decode *)
Theorem prufer_encode_decode g :
  simple g -> gn g >= 2 -> is_tree g ->
  exists c, prufer_encode g = Ok (map Z.of_nat c) /\ length c = gn g - 2 /\ valid_code c /\
            prufer_decode (map Z.of_nat c) = Ok (dense_of g).
Proof.
  intros Hs Hn T. pose proof Hs as [Hsym Hirr]. set (n := gn g) in *.
  destruct (enc_dec (n - 2) (seq 0 n) (gadj g) Hsym Hirr (seq_NoDup n 0)) as (I1 & I2 & _ & I4); auto.
  { rewrite seq_length. lia. }
  set (c := enc (gadj g) (n - 2) (seq 0 n)) in *.
  assert (Hlen : length c + 2 = n) by lia.
  assert (V : valid_code c).
  { intros x Hx. apply I1 in Hx. apply in_seq in Hx. lia. }
  exists c. repeat split; auto.
  - apply prufer_encode_enc; auto.
  - unfold prufer_decode. rewrite prufer_decode_args_dec by auto. cbn [bind fst snd]. rewrite Hlen.
    rewrite <- (new_dense_ok g Hs). fold n. f_equal.
    pose proof (code_edges_ok c V) as EO. rewrite Hlen in EO.
    apply (nth_ext _ _ false false).
    + rewrite length_bits_of, length_tri_bits. reflexivity.
    + intros k Hk. rewrite length_bits_of in Hk.
      destruct (tri_cell _ _ Hk) as (i & j & Hij & Hj & ->).
      rewrite nth_bits_of, nth_tri_bits by auto.
      apply I4; apply in_seq; lia.
Qed.

(* PruferDecode is injective on valid codes (a consequence of the first round trip) *)
Corollary prufer_decode_injective c1 c2 :
  valid_code c1 -> valid_code c2 ->
  prufer_decode (map Z.of_nat c1) = prufer_decode (map Z.of_nat c2) -> c1 = c2.
Proof.
  intros V1 V2 E.
  destruct (prufer_decode_encode c1 V1) as (D1 & _ & _ & E1).
  destruct (prufer_decode_encode c2 V2) as (D2 & _ & _ & E2).
  rewrite D1, D2 in E.
  assert (E' : dense_of (code_graph c1) = dense_of (code_graph c2)) by congruence.
  pose proof (f_equal dn E') as Hn. pose proof (f_equal dedges E') as Hb.
  cbn [dn dedges dense_of] in Hn, Hb.
  cbn [gn code_graph graph_of_bits] in Hn.
  unfold code_graph in Hb. rewrite !tri_bits_graph_of_bits in Hb by apply length_bits_of.
  assert (G : code_graph c1 = code_graph c2) by (unfold code_graph; rewrite Hn, Hb; reflexivity).
  rewrite G in E1. rewrite E1 in E2. inversion E2 as [HM].
  clear - HM. revert c2 HM. induction c1 as [|a c1 IH]; intros [|b c2] Q; simpl in Q; try discriminate; auto.
  inversion Q. f_equal; [lia|auto].
Qed.

(* ------------------------------------------------------------------ in terms of connectedness *)
(* the usual definition: connected, with n - 1 edges *)
Definition connected_tree (g : graph) : Prop :=
  connected (gadj g) (seq 0 (gn g)) /\ gm g = (Z.of_nat (gn g) - 1)%Z.

Theorem is_tree_iff_connected_tree g : simple g -> gn g >= 1 -> (is_tree g <-> connected_tree g).
Proof. apply tree_iff_connected. Qed.

Theorem prufer_decode_connected_tree c : valid_code c -> connected_tree (code_graph c).
Proof.
  intros V. apply is_tree_iff_connected_tree.
  - apply code_graph_simple.
  - cbn. lia.
  - apply (prufer_decode_encode c V).
Qed.

Theorem prufer_encode_decode_connected g :
  simple g -> gn g >= 2 -> connected_tree g ->
  exists c, prufer_encode g = Ok (map Z.of_nat c) /\ length c = gn g - 2 /\ valid_code c /\
            prufer_decode (map Z.of_nat c) = Ok (dense_of g).
Proof.
  intros Hs Hn T. apply prufer_encode_decode; auto.
  apply is_tree_iff_connected_tree; auto. lia.
Qed.

(* ------------------------------------------------------------------ codes as Go ints *)
Lemma code_of_Z (cz : list Z) : (forall x, In x cz -> (0 <= x)%Z) -> map Z.of_nat (map Z.to_nat cz) = cz.
Proof.
  intros H. rewrite map_map. rewrite <- (map_id cz) at 2. apply map_ext_in.
  intros x Hx. apply Z2Nat.id. auto.
Qed.

Theorem prufer_decode_encode_Z (cz : list Z) :
  (forall x, In x cz -> (0 <= x < Z.of_nat (length cz) + 2)%Z) ->
  exists g, prufer_decode cz = Ok (dense_of g) /\ gn g = length cz + 2 /\ simple g /\
            is_tree g /\ connected_tree g /\ prufer_encode g = Ok cz.
Proof.
  intros H. set (c := map Z.to_nat cz).
  assert (E : map Z.of_nat c = cz) by (apply code_of_Z; intros x Hx; apply H; auto).
  assert (L : length c = length cz) by (unfold c; apply map_length).
  assert (V : valid_code c).
  { intros x Hx. unfold c in Hx. apply in_map_iff in Hx. destruct Hx as (z & <- & Hz).
    rewrite L. specialize (H z Hz). lia. }
  destruct (prufer_decode_encode c V) as (D & N & T & P).
  exists (code_graph c). rewrite E in D, P. rewrite L in N.
  repeat split; auto; try apply code_graph_simple; apply (prufer_decode_connected_tree c V).
Qed.
