(* The size header N(n): the encoder's chain of shifts and masks produces the bytes the format
   text prescribes, the format's reader inverts it, and the decoders' header chain computes the
   same thing as the format's reader on every string of bytes in 63..126. *)
From Coq Require Import List ZArith Bool Arith Lia.
From Mamba Require Import Codec.Model Codec.Spec Codec.BitLemmas.
Import ListNotations.
Open Scope Z_scope.

Local Ltac dm := Z.div_mod_to_equations.

(* ------------------------------------------------------------------ six bits *)
Lemma val6_six : forall l, length l = 6%nat -> val6 l = val_bits l 0.
Proof. intros l H. unfold val6. rewrite H, Nat.sub_diag. cbn [repeat]. rewrite app_nil_r. reflexivity. Qed.

Lemma bits_be_add : forall c d n,
  bits_be (c + d) n = bits_be c (Z.shiftr n (Z.of_nat d)) ++ bits_be d n.
Proof.
  induction c as [|c IH]; intros d n.
  - reflexivity.
  - cbn [Nat.add bits_be app]. rewrite IH. f_equal.
    rewrite Z.shiftr_spec by lia. f_equal. lia.
Qed.

Lemma pack6_bits6 : forall x, 0 <= x -> pack6 (bits_be 6 x) = [x mod 64 + 63].
Proof.
  intros x Hx. pose proof (val_bits_be 6 x Hx) as H.
  change (2 ^ Z.of_nat 6) with 64 in H.
  cbn [bits_be] in *. rewrite pack6_cons6. cbn [pack6].
  rewrite val6_six by reflexivity. rewrite H. reflexivity.
Qed.

Lemma val_bits6_acc : forall x acc, 0 <= x < 64 -> val_bits (bits_be 6 x) acc = acc * 64 + x.
Proof.
  intros x acc Hx. rewrite val_bits_acc, bits_be_length, val_bits_be by lia.
  change (2 ^ Z.of_nat 6) with 64. rewrite Z.mod_small by lia. reflexivity.
Qed.

Lemma val_bits_unpack6_cons : forall c s acc, 63 <= c <= 126 ->
  val_bits (unpack6 (c :: s)) acc = val_bits (unpack6 s) (acc * 64 + (c - 63)).
Proof.
  intros c s acc Hc. rewrite unpack6_cons, val_bits_app, val_bits6_acc by lia. reflexivity.
Qed.

(* ------------------------------------------------------------------ the header bytes *)
Lemma pack6_bits18 : forall n, 0 <= n ->
  pack6 (bits_be 18 n) = [(n / 4096) mod 64 + 63; (n / 64) mod 64 + 63; n mod 64 + 63].
Proof.
  intros n Hn.
  change (bits_be 18 n) with (bits_be (6 + 12) n). rewrite bits_be_add.
  change (bits_be 12 n) with (bits_be (6 + 6) n). rewrite bits_be_add.
  rewrite !pack6_app6 by (rewrite bits_be_length; reflexivity).
  rewrite !Z.shiftr_div_pow2 by lia.
  rewrite !pack6_bits6 by (try apply Z.div_pos; lia).
  reflexivity.
Qed.

Lemma pack6_bits36 : forall n, 0 <= n ->
  pack6 (bits_be 36 n) =
  [(n / 1073741824) mod 64 + 63; (n / 16777216) mod 64 + 63; (n / 262144) mod 64 + 63;
   (n / 4096) mod 64 + 63; (n / 64) mod 64 + 63; n mod 64 + 63].
Proof.
  intros n Hn.
  change (bits_be 36 n) with (bits_be (6 + 30) n). rewrite bits_be_add.
  change (bits_be 30 n) with (bits_be (6 + 24) n). rewrite bits_be_add.
  change (bits_be 24 n) with (bits_be (6 + 18) n). rewrite bits_be_add.
  change (bits_be 18 n) with (bits_be (6 + 12) n). rewrite bits_be_add.
  change (bits_be 12 n) with (bits_be (6 + 6) n). rewrite bits_be_add.
  rewrite !pack6_app6 by (rewrite bits_be_length; reflexivity).
  rewrite !Z.shiftr_div_pow2 by lia.
  rewrite !pack6_bits6 by (try apply Z.div_pos; lia).
  reflexivity.
Qed.

(* byte((n>>sh)&63) + 63 *)
Lemma g63_val : forall n sh, 0 <= n -> 0 <= sh -> g63 n sh = (n / 2 ^ sh) mod 64 + 63.
Proof.
  intros n sh Hn Hs. unfold g63, badd, byte_of.
  replace (Z.land (Z.shiftr n sh) 63) with ((n / 2 ^ sh) mod 64).
  2:{ change 63 with (Z.ones 6). rewrite Z.land_ones, Z.shiftr_div_pow2 by lia. reflexivity. }
  pose proof (Z.mod_pos_bound (n / 2 ^ sh) 64 ltac:(lia)) as H.
  rewrite (Z.mod_small ((n / 2 ^ sh) mod 64) 256) by lia. rewrite Z.mod_small by lia. reflexivity.
Qed.

(* the encoders' header chain gives N(n) *)
Lemma enc_size_spec : forall n, 0 <= n <= 68719476735 -> enc_size n = Ok (spec_N n).
Proof.
  intros n Hn. unfold enc_size, spec_N.
  destruct (Z.leb_spec n 62).
  { unfold byte_of. rewrite Z.mod_small by lia. reflexivity. }
  destruct (Z.leb_spec n 258047).
  { rewrite pack6_bits18, !g63_val by lia. rewrite Z.pow_0_r, Z.div_1_r. reflexivity. }
  destruct (Z.leb_spec n 68719476735); [|lia].
  rewrite pack6_bits36, !g63_val by lia. rewrite Z.pow_0_r, Z.div_1_r. reflexivity.
Qed.

Lemma enc_size_panic : forall n, 68719476735 < n -> enc_size n = Panic.
Proof.
  intros n Hn. unfold enc_size.
  destruct (Z.leb_spec n 62); [lia|]. destruct (Z.leb_spec n 258047); [lia|].
  destruct (Z.leb_spec n 68719476735); [lia|]. reflexivity.
Qed.

Definition hdr_len (n : Z) : Z := if n <=? 62 then 1 else if n <=? 258047 then 4 else 8.

Lemma spec_N_len : forall n, 0 <= n -> len (spec_N n) = hdr_len n.
Proof.
  intros n Hn. unfold spec_N, hdr_len.
  destruct (Z.leb_spec n 62); [reflexivity|].
  destruct (Z.leb_spec n 258047).
  - rewrite pack6_bits18 by lia. reflexivity.
  - rewrite pack6_bits36 by lia. reflexivity.
Qed.

Lemma spec_N_range : forall n, 0 <= n -> Forall (fun c => 63 <= c <= 126) (spec_N n).
Proof.
  intros n Hn. unfold spec_N.
  destruct (Z.leb_spec n 62); [repeat constructor; lia|].
  destruct (Z.leb_spec n 258047); repeat (constructor; [lia|]); apply pack6_range.
Qed.

(* ------------------------------------------------------------------ the format's reader inverts N *)
Lemma val_bits_be_small : forall c n, 0 <= n < 2 ^ Z.of_nat c -> val_bits (bits_be c n) 0 = n.
Proof. intros c n H. rewrite val_bits_be, Z.mod_small by lia. reflexivity. Qed.

Lemma firstn_app_exact : forall {A} (a b : list A) k, length a = k -> firstn k (a ++ b) = a.
Proof.
  intros A a b k H. subst k. rewrite firstn_app, Nat.sub_diag, firstn_all. cbn [firstn]. apply app_nil_r.
Qed.

Lemma skipn_app_exact : forall {A} (a b : list A) k, length a = k -> skipn k (a ++ b) = b.
Proof.
  intros A a b k H. subst k. rewrite skipn_app, Nat.sub_diag, skipn_all. reflexivity.
Qed.

Lemma spec_read_N_spec_N : forall n rest, 0 <= n <= 68719476735 ->
  spec_read_N (spec_N n ++ rest) = Some (n, rest).
Proof.
  intros n rest Hn. unfold spec_N.
  destruct (Z.leb_spec n 62).
  { cbn [app spec_read_N]. destruct (Z.eqb_spec (n + 63) 126); [lia|]. cbn [negb].
    do 2 f_equal. lia. }
  destruct (Z.leb_spec n 258047).
  { pose proof (pack6_bits18 n ltac:(lia)) as E. rewrite E.
    cbn [app spec_read_N]. change (126 =? 126) with true. cbn [negb].
    destruct (Z.eqb_spec ((n / 4096) mod 64 + 63) 126) as [E126|_].
    { exfalso. assert (n / 4096 <= 62) by (dm; lia). dm; lia. }
    cbn [negb].
    replace ((length _ <? 3)%nat) with false by (symmetry; apply Nat.ltb_ge; cbn [length]; lia).
    cbn [firstn skipn]. rewrite <- E.
    rewrite unpack6_pack6, bits_be_length. change (pad6 18) with 0%nat. cbn [repeat]. rewrite app_nil_r.
    rewrite val_bits_be_small; [reflexivity|]. change (2 ^ Z.of_nat 18) with 262144. lia. }
  cbn [app spec_read_N]. change (126 =? 126) with true. cbn [negb].
  pose proof (pack6_length (bits_be 36 n)) as L. rewrite bits_be_length in L.
  change ((36 + 5) / 6)%nat with 6%nat in L.
  assert (Hl : (length (pack6 (bits_be 36 n) ++ rest) <? 6)%nat = false).
  { apply Nat.ltb_ge. rewrite app_length. lia. }
  rewrite Hl. rewrite firstn_app_exact, skipn_app_exact by exact L.
  rewrite unpack6_pack6, bits_be_length. change (pad6 36) with 0%nat. cbn [repeat]. rewrite app_nil_r.
  rewrite val_bits_be_small; [reflexivity|]. change (2 ^ Z.of_nat 36) with 68719476736. lia.
Qed.

(* ------------------------------------------------------------------ checked indexing of explicit lists *)
Lemma at_0 : forall {A} (a : A) l, at_ (a :: l) 0 = Ok a.
Proof. reflexivity. Qed.
Lemma at_S : forall {A} (a : A) l i, 0 < i -> at_ (a :: l) i = at_ l (i - 1).
Proof.
  intros A a l i Hi. unfold at_.
  destruct (Z.ltb_spec i 0); [lia|]. destruct (Z.ltb_spec (i - 1) 0); [lia|].
  replace (Z.to_nat i) with (S (Z.to_nat (i - 1))) by lia. reflexivity.
Qed.

Lemma bsub63 : forall c, 63 <= c <= 126 -> bsub c 63 = c - 63.
Proof. intros c H. unfold bsub. rewrite Z.mod_small by lia. reflexivity. Qed.

Lemma v6_val : forall c sh, 63 <= c <= 126 -> 0 <= sh <= 30 -> v6 c sh = (c - 63) * 2 ^ sh.
Proof.
  intros c sh Hc Hs. unfold v6, u64. rewrite bsub63 by lia. rewrite Z.shiftl_mul_pow2 by lia.
  assert (2 ^ sh <= 2 ^ 30) by (apply Z.pow_le_mono_r; lia).
  assert (0 < 2 ^ sh) by (apply Z.pow_pos_nonneg; lia).
  change (2 ^ 30) with 1073741824 in *.
  rewrite Z.mod_small by nia. reflexivity.
Qed.

Lemma in_range_spec : forall c, in_range c = true <-> 63 <= c <= 126.
Proof. intros c. unfold in_range. rewrite andb_true_iff, !Z.leb_le. reflexivity. Qed.

Lemma forallb_in_range : forall s, forallb in_range s = true <-> Forall (fun c => 63 <= c <= 126) s.
Proof.
  intros s. rewrite forallb_forall, Forall_forall. split; intros H x Hx; apply in_range_spec, H, Hx.
Qed.

Ltac len_case :=
  match goal with
  | |- context [len ?s <? ?k] =>
    let HL := fresh "HL" in
    destruct (Z.ltb_spec (len s) k) as [HL|HL]; unfold len in HL; cbn [length] in HL; try (exfalso; lia); cbv iota
  end.

Ltac nlen_case :=
  match goal with
  | |- context [(length ?s <? ?k)%nat] =>
    let HL := fresh "HL" in
    destruct (Nat.ltb_spec (length s) k) as [HL|HL]; cbn [length] in HL; try (exfalso; lia); cbv iota
  end.

(* ------------------------------------------------------------------ the decoders' header chain
   = the format's reader, on every non-empty string of bytes in 63..126.  [chk] is the
   "Graph too large" test of Graph6Decode (n > 2^32 in the 8-byte form). *)
Lemma dec_size_refines : forall chk s, Forall (fun c => 63 <= c <= 126) s -> s <> [] ->
  match spec_read_N s with
  | None => dec_size chk s = Err
  | Some (n, r) =>
    0 <= n < 68719476736 /\
    if chk && (4294967296 <? n) then dec_size chk s = Err
    else exists i, dec_size chk s = Ok (n, i) /\ r = skipn (Z.to_nat i) s /\
                   (i = 1 \/ i = 4 \/ i = 8) /\ i <= len s /\ (i = 1 -> n <= 62) /\ (i = 4 -> n < 262144)
  end.
Proof.
  intros chk s Hr Hne. destruct s as [|c0 r]; [congruence|].
  inversion Hr as [|? ? Hc0 Hr']; subst.
  unfold dec_size, spec_read_N. rewrite at_0. cbn [bind].
  destruct (Z.eqb_spec c0 126) as [E0|N0]; cbn [negb].
  2:{ split; [lia|]. replace (chk && (4294967296 <? c0 - 63)) with false.
      2:{ destruct (Z.ltb_spec 4294967296 (c0 - 63)); [lia|]. symmetry. apply andb_false_r. }
      exists 1. rewrite bsub63 by lia. repeat split; try lia.
      unfold len. cbn [length]. lia. }
  subst c0.
  destruct r as [|c1 r1].
  { len_case. reflexivity. }
  inversion Hr' as [|? ? Hc1 Hr1]; subst.
  destruct (Z.eqb_spec c1 126) as [E1|N1]; cbn [negb].
  - (* 8-byte form *)
    subst c1.
    destruct r1 as [|c2 [|c3 [|c4 [|c5 [|c6 [|c7 r7]]]]]];
      nlen_case;
      try solve [repeat first [ reflexivity | len_case
        | progress (rewrite at_S, at_0 by lia; cbn [bind]; change (126 =? 126) with true; cbn [negb]) ]].
    len_case.
    rewrite at_S, at_0 by lia. cbn [bind]. change (126 =? 126) with true. cbn [negb].
    len_case.
    repeat match goal with H : Forall _ (_ :: _) |- _ => inversion H; clear H; subst end.
    rewrite (at_S _ _ 2), (at_S _ _ (2 - 1)), at_0 by lia.
    rewrite (at_S _ _ 3), (at_S _ _ (3 - 1)), (at_S _ _ (3 - 1 - 1)), at_0 by lia.
    rewrite (at_S _ _ 4), (at_S _ _ (4 - 1)), (at_S _ _ (4 - 1 - 1)), (at_S _ _ (4 - 1 - 1 - 1)), at_0 by lia.
    rewrite (at_S _ _ 5), (at_S _ _ (5 - 1)), (at_S _ _ (5 - 1 - 1)), (at_S _ _ (5 - 1 - 1 - 1)),
      (at_S _ _ (5 - 1 - 1 - 1 - 1)), at_0 by lia.
    rewrite (at_S _ _ 6), (at_S _ _ (6 - 1)), (at_S _ _ (6 - 1 - 1)), (at_S _ _ (6 - 1 - 1 - 1)),
      (at_S _ _ (6 - 1 - 1 - 1 - 1)), (at_S _ _ (6 - 1 - 1 - 1 - 1 - 1)), at_0 by lia.
    rewrite (at_S _ _ 7), (at_S _ _ (7 - 1)), (at_S _ _ (7 - 1 - 1)), (at_S _ _ (7 - 1 - 1 - 1)),
      (at_S _ _ (7 - 1 - 1 - 1 - 1)), (at_S _ _ (7 - 1 - 1 - 1 - 1 - 1)),
      (at_S _ _ (7 - 1 - 1 - 1 - 1 - 1 - 1)), at_0 by lia.
    cbn [bind].
    rewrite !v6_val, !bsub63 by lia.
    cbn [firstn skipn]. rewrite !val_bits_unpack6_cons by lia. cbn [unpack6 flat_map val_bits].
    set (a2 := c2 - 63) in *. set (a3 := c3 - 63) in *. set (a4 := c4 - 63) in *.
    set (a5 := c5 - 63) in *. set (a6 := c6 - 63) in *. set (a7 := c7 - 63) in *.
    assert (0 <= a2 < 64 /\ 0 <= a3 < 64 /\ 0 <= a4 < 64 /\ 0 <= a5 < 64 /\ 0 <= a6 < 64 /\ 0 <= a7 < 64)
      by (unfold a2, a3, a4, a5, a6, a7; lia).
    clearbody a2 a3 a4 a5 a6 a7.
    change (2 ^ 30) with 1073741824. change (2 ^ 24) with 16777216. change (2 ^ 18) with 262144.
    change (2 ^ 12) with 4096. change (2 ^ 6) with 64.
    assert (Hv : u64 (u64 (u64 (u64 (u64 (a2 * 1073741824 + a3 * 16777216) + a4 * 262144) + a5 * 4096) + a6 * 64) + a7)
                 = (((((0 * 64 + a2) * 64 + a3) * 64 + a4) * 64 + a5) * 64 + a6) * 64 + a7).
    { unfold u64. dm. lia. }
    rewrite Hv. clear Hv.
    set (n := (((((0 * 64 + a2) * 64 + a3) * 64 + a4) * 64 + a5) * 64 + a6) * 64 + a7).
    assert (Hn : 0 <= n < 68719476736) by (subst n; lia).
    split; [exact Hn|].
    destruct (chk && (4294967296 <? n)); [reflexivity|].
    exists 8. repeat split; try lia. unfold len. cbn [length]. lia.
  - (* 4-byte form *)
    destruct r1 as [|c2 [|c3 r3]]; nlen_case; try solve [len_case; reflexivity].
    len_case.
    rewrite at_S, at_0 by lia. cbn [bind].
    destruct (Z.eqb_spec c1 126) as [|_]; [congruence|]. cbn [negb].
    repeat match goal with H : Forall _ (_ :: _) |- _ => inversion H; clear H; subst end.
    rewrite (at_S _ _ 2), (at_S _ _ (2 - 1)), at_0 by lia.
    rewrite (at_S _ _ 3), (at_S _ _ (3 - 1)), (at_S _ _ (3 - 1 - 1)), at_0 by lia.
    cbn [bind].
    rewrite !v6_val, !bsub63 by lia.
    cbn [firstn skipn]. rewrite !val_bits_unpack6_cons by lia. cbn [unpack6 flat_map val_bits].
    set (a1 := c1 - 63) in *. set (a2 := c2 - 63) in *. set (a3 := c3 - 63) in *.
    assert (0 <= a1 < 64 /\ 0 <= a2 < 64 /\ 0 <= a3 < 64) by (unfold a1, a2, a3; lia).
    clearbody a1 a2 a3.
    change (2 ^ 12) with 4096. change (2 ^ 6) with 64.
    assert (Hv : u64 (u64 (a1 * 4096 + a2 * 64) + a3) = ((0 * 64 + a1) * 64 + a2) * 64 + a3).
    { unfold u64. dm. lia. }
    rewrite Hv. clear Hv.
    set (n := ((0 * 64 + a1) * 64 + a2) * 64 + a3).
    assert (Hn : 0 <= n < 262144) by (subst n; lia).
    split; [lia|].
    replace (chk && (4294967296 <? n)) with false.
    2:{ destruct (Z.ltb_spec 4294967296 n); [lia|]. symmetry. apply andb_false_r. }
    exists 4. repeat split; try lia. unfold len. cbn [length]. lia.
Qed.

(* the decoders read back the header the encoders write *)
Lemma dec_size_spec_N : forall chk n rest, 0 <= n <= 68719476735 ->
  (chk = true -> n <= 4294967296) ->
  Forall (fun c => 63 <= c <= 126) rest ->
  dec_size chk (spec_N n ++ rest) = Ok (n, hdr_len n).
Proof.
  intros chk n rest Hn Hc Hr.
  assert (Hne : spec_N n ++ rest <> []).
  { unfold spec_N. destruct (n <=? 62); [discriminate|]. destruct (n <=? 258047); discriminate. }
  pose proof (dec_size_refines chk (spec_N n ++ rest)
                (proj2 (Forall_app _ _ _) (conj (spec_N_range n ltac:(lia)) Hr)) Hne) as H.
  rewrite spec_read_N_spec_N in H by lia. destruct H as [_ H].
  replace (chk && (4294967296 <? n)) with false in H.
  2:{ destruct chk; [|reflexivity]. specialize (Hc eq_refl). destruct (Z.ltb_spec 4294967296 n); [lia|reflexivity]. }
  destruct H as (i & Hd & Hs & Hi & Hl & H1 & H4). rewrite Hd. do 2 f_equal.
  (* the position is determined by the length of what was skipped *)
  assert (Hlen : len rest = len (spec_N n ++ rest) - i).
  { rewrite Hs at 1. unfold len. rewrite skipn_length. unfold len in Hl. lia. }
  rewrite len_app, spec_N_len in Hlen by lia. lia.
Qed.
