(* C08, last clause for sparse6: a graph Sparse6Decode returns survives Sparse6Encode followed
   by Sparse6Decode. *)
From Coq Require Import List ZArith Bool Arith Lia Sorted.
From Mamba Require Import Codec.Model Codec.Spec Codec.BitLemmas Codec.G6Header Codec.G6Proofs
  Codec.S6Decode Codec.S6Encode Codec.S6Round Codec.TotalG6 Codec.TotalS6.
Import ListNotations.
Open Scope Z_scope.

(* the SparseGraph with n vertices and edge set el, as a value of the Graph interface *)
Definition graph_of_edges (n : nat) (el : list (Z * Z)) : graph :=
  {| gn := n;
     gadj := fun i j => negb (i =? j)%nat &&
                        existsb (pair_eq (Z.of_nat (Nat.max i j), Z.of_nat (Nat.min i j))) el |}.

Lemma graph_of_edges_simple : forall n el, simple (graph_of_edges n el).
Proof.
  intros n el. split.
  - intros i j. cbn [gadj graph_of_edges]. rewrite (Nat.eqb_sym i j), (Nat.max_comm i j), (Nat.min_comm i j). reflexivity.
  - intros i. cbn [gadj graph_of_edges]. rewrite Nat.eqb_refl. reflexivity.
Qed.

(* ------------------------------------------------------------------ strictly ascending lists are determined by their elements *)
Lemma plt_irrefl : forall a, ~ plt a a.
Proof. intros a H. apply plt_spec in H. lia. Qed.

Lemma asc_unique : forall l1 l2, asc l1 -> asc l2 -> (forall x, In x l1 <-> In x l2) -> l1 = l2.
Proof.
  induction l1 as [|a l1 IH]; intros l2 H1 H2 Hin.
  - destruct l2 as [|b l2]; [reflexivity|]. exfalso. apply (Hin b). left. reflexivity.
  - destruct l2 as [|b l2]; [exfalso; apply (Hin a); left; reflexivity|].
    inversion H1 as [|? ? S1 F1]; subst. inversion H2 as [|? ? S2 F2]; subst.
    rewrite Forall_forall in F1, F2.
    assert (a = b).
    { destruct (proj1 (Hin a) (or_introl eq_refl)) as [E|E]; [auto|].
      destruct (proj2 (Hin b) (or_introl eq_refl)) as [E'|E']; [auto|].
      exfalso. apply (plt_irrefl a). eapply plt_trans; [apply F1, E'|apply F2, E]. }
    subst b. f_equal. apply IH; [exact S1|exact S2|].
    intros x. split; intros Hx.
    + destruct (proj1 (Hin x) (or_intror Hx)) as [E|E]; [|exact E].
      subst x. exfalso. apply (plt_irrefl a), F1, Hx.
    + destruct (proj2 (Hin x) (or_intror Hx)) as [E|E]; [|exact E].
      subst x. exfalso. apply (plt_irrefl a), F2, Hx.
Qed.

Lemma asc_from_forall : forall l p, asc_from p l -> Forall (plt p) l.
Proof.
  induction l as [|e l IH]; intros p H; [constructor|].
  cbn [asc_from] in H. destruct H as [A B]. constructor; [exact A|].
  eapply Forall_impl; [|apply IH, B]. cbn beta. intros x Hx. eapply plt_trans; [exact A|exact Hx].
Qed.

Lemma asc_from_asc : forall l p, asc_from p l -> asc l.
Proof.
  induction l as [|e l IH]; intros p H; [constructor|].
  cbn [asc_from] in H. destruct H as [A B]. constructor; [apply (IH e), B|apply asc_from_forall, B].
Qed.

(* ------------------------------------------------------------------ the edges of graph_of_edges *)
Lemma in_edges_lt : forall g i u, In (i, u) (edges_lt g) <-> (u < i < gn g)%nat /\ gadj g i u = true.
Proof.
  intros g i u. unfold edges_lt. rewrite in_flat_map. split.
  - intros (j & Hj & Hm). apply in_seq in Hj. apply in_map_iff in Hm. destruct Hm as (u' & E & Hf).
    injection E as <- <-. apply filter_In in Hf. destruct Hf as [Hs Ha]. apply in_seq in Hs. split; [lia|exact Ha].
  - intros [H Ha]. exists i. split; [apply in_seq; lia|]. apply in_map_iff. exists u. split; [reflexivity|].
    apply filter_In. split; [apply in_seq; lia|exact Ha].
Qed.

Lemma existsb_pair_eq : forall e el, existsb (pair_eq e) el = true <-> In e el.
Proof.
  intros e el. rewrite existsb_exists. split.
  - intros (x & Hx & E). apply pair_eq_spec in E. subst. exact Hx.
  - intros H. exists e. split; [exact H|apply pair_eq_spec; reflexivity].
Qed.

Lemma edgesZ_of_edges : forall n el, Forall (edge_ok (Z.of_nat n)) el -> asc el ->
  edgesZ (graph_of_edges n el) = el.
Proof.
  intros n el Hok Hasc. apply asc_unique; [eapply asc_from_asc, edgesZ_asc|exact Hasc|].
  intros [a b]. unfold edgesZ. rewrite in_map_iff. split.
  - intros ([i u] & E & Hin). unfold zpair in E. cbn [fst snd] in E. injection E as <- <-.
    apply in_edges_lt in Hin. destruct Hin as [Hlt Ha]. cbn [gn gadj graph_of_edges] in *.
    apply andb_true_iff in Ha. destruct Ha as [_ Ha]. apply existsb_pair_eq in Ha.
    rewrite Nat.max_l, Nat.min_r in Ha by lia. exact Ha.
  - intros Hin. rewrite Forall_forall in Hok. pose proof (Hok _ Hin) as [H1 H2]. cbn [fst snd] in *.
    exists (Z.to_nat a, Z.to_nat b). split; [unfold zpair; cbn [fst snd]; f_equal; lia|].
    apply in_edges_lt. cbn [gn gadj graph_of_edges]. split; [lia|].
    apply andb_true_iff. split.
    + apply negb_true_iff, Nat.eqb_neq. lia.
    + apply existsb_pair_eq. rewrite Nat.max_l, Nat.min_r by lia. rewrite !Z2Nat.id by lia. exact Hin.
Qed.

Lemma s6_result_n_bound : forall s n el, s6_result s = Ok (n, el) -> n < 68719476736.
Proof.
  intros s n el. unfold s6_result, s6_spec_decode.
  destruct s as [|c r]; [discriminate|].
  destruct (c =? 58); cbn [negb]; [|discriminate].
  destruct (forallb in_range r) eqn:Hr; cbn [negb]; [|discriminate].
  apply forallb_in_range in Hr.
  destruct (spec_read_N r) as [[n' d]|] eqn:ER; [|discriminate].
  assert (Hne : r <> []) by (intros ->; discriminate).
  pose proof (dec_size_refines false r Hr Hne) as HD. rewrite ER in HD. destruct HD as [Hn _].
  intros E. injection E as <- _. lia.
Qed.

(* "Whenever they succeed, re-encoding the result and decoding again gives the same graph", for
   every string of fewer than 10^16 bytes (the bound keeps the int expression (k+1)*2*m of the
   encoder's capacity computation from wrapping: a string has at most 6*len pairs). *)
Theorem sparse6_reencode : forall s0 n el, len s0 < 10000000000000000 ->
  sparse6_decode s0 = Ok (n, el) ->
  exists s1, sparse6_encode (graph_of_edges (Z.to_nat n) el) = Ok s1 /\ sparse6_decode s1 = Ok (n, el).
Proof.
  intros s0 n el Hlen E.
  pose proof E as E0. rewrite sparse6_decode_refines in E0. apply s6_result_n_bound in E0.
  destruct (sparse6_decode_total s0) as [E'|(n' & el' & E' & (Hn & Hok & Hasc) & _ & Hl)]; [congruence|].
  rewrite E in E'. injection E' as <- <-.
  set (g := graph_of_edges (Z.to_nat n) el).
  assert (Hs : simple g) by apply graph_of_edges_simple.
  assert (Hgn : Z.of_nat (gn g) = n) by (cbn [g gn graph_of_edges]; lia).
  assert (Hez : edgesZ g = el).
  { apply edgesZ_of_edges; [|exact Hasc]. rewrite Z2Nat.id by lia. exact Hok. }
  assert (Hgm : gm g < 100000000000000000).
  { unfold gm, len. replace (length (edges_lt g)) with (length (edgesZ g)) by (unfold edgesZ; apply map_length).
    rewrite Hez. unfold len in Hlen. lia. }
  destruct (sparse6_encode_ok g Hs ltac:(lia) Hgm) as (s1 & E1 & _).
  exists s1. split; [exact E1|].
  destruct (sparse6_roundtrip g s1 Hs ltac:(lia) Hgm E1) as [R _]. rewrite R, Hgn, Hez. reflexivity.
Qed.
