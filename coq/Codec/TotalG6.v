(* C08 for Graph6Decode: on every string the decoder returns an error or a well-formed graph on
   the declared number of vertices, never a panic; and a decoded graph survives re-encoding. *)
From Coq Require Import List ZArith Bool Arith Lia.
From Mamba Require Import Codec.Model Codec.Spec Codec.BitLemmas Codec.G6Header Codec.G6Proofs.
Import ListNotations.
Open Scope Z_scope.

Local Ltac dm := Z.div_mod_to_equations.

Lemma g6_result_cases : forall s,
  g6_result s = Err \/
  exists n e, g6_result s = Ok (n, e) /\ 0 <= n /\ len e = tri n /\
    (s = [] /\ n = 0 \/ exists r, spec_read_N s = Some (n, r)).
Proof.
  intros s. unfold g6_result. destruct s as [|c0 r0] eqn:Es.
  { right. exists 0, []. repeat split; try reflexivity; try lia. left. auto. }
  rewrite <- Es. assert (Hne : s <> []) by (rewrite Es; discriminate). clear Es.
  unfold g6_spec_decode. destruct (forallb in_range s) eqn:Hr; cbn [negb]; [|left; reflexivity].
  apply forallb_in_range in Hr.
  pose proof (dec_size_refines false s Hr Hne) as HD.
  destruct (spec_read_N s) as [[n r]|] eqn:ER; [|left; reflexivity].
  destruct HD as [Hn _].
  destruct (Nat.ltb_spec (length (unpack6 r)) (Z.to_nat (tri n))) as [Hs|Hl]; [left; reflexivity|].
  right. exists n, (firstn (Z.to_nat (tri n)) (unpack6 r)). split; [reflexivity|].
  split; [lia|]. split.
  - unfold len. rewrite firstn_length, Nat.min_l by lia. pose proof (tri_nonneg n ltac:(lia)). lia.
  - right. eauto.
Qed.

(* the declared vertex count of a string (after the optional header has been removed) *)
Definition declared (s : list Z) : option Z :=
  match spec_read_N s with Some (n, _) => Some n | None => None end.

Definition wf_dense (n : Z) (e : list bool) : Prop := 0 <= n /\ len e = tri n.

(* general form: [g6_nowrap] holds for every string of fewer than 2^59 bytes and for every
   string that declares n <= 3037000500 *)
Theorem graph6_decode_total_gen : forall s0, let s := strip hdr_graph6 s0 in g6_nowrap s ->
  graph6_decode s0 = Err \/
  exists n e, graph6_decode s0 = Ok (n, e) /\ wf_dense n e /\
    (s = [] /\ n = 0 \/ declared s = Some n).
Proof.
  intros s0 s Hw. rewrite (graph6_decode_refines s0 Hw). fold s.
  destruct (g6_result_cases s) as [E|(n & e & E & Hn & Hl & Hd)]; [left; exact E|].
  right. exists n, e. split; [exact E|]. split; [split; assumption|].
  destruct Hd as [Hd|[r Hd]]; [left; exact Hd|right]. unfold declared. rewrite Hd. reflexivity.
Qed.

(* the property's bound: declared n <= 4096 *)
Theorem graph6_decode_total : forall s0, let s := strip hdr_graph6 s0 in
  (forall n, declared s = Some n -> n <= 4096) ->
  graph6_decode s0 = Err \/
  exists n e, graph6_decode s0 = Ok (n, e) /\ wf_dense n e /\
    (s = [] /\ n = 0 \/ declared s = Some n).
Proof.
  intros s0 s H. apply graph6_decode_total_gen. right. intros n r E.
  specialize (H n). unfold declared in H. fold s in E. rewrite E in H. specialize (H eq_refl). lia.
Qed.

(* every string a Go program can hold *)
Theorem graph6_decode_total_len : forall s0, len s0 < 576460752303423488 ->
  let s := strip hdr_graph6 s0 in
  graph6_decode s0 = Err \/
  exists n e, graph6_decode s0 = Ok (n, e) /\ wf_dense n e /\
    (s = [] /\ n = 0 \/ declared s = Some n).
Proof.
  intros s0 H s. apply graph6_decode_total_gen. left. pose proof (strip_len hdr_graph6 s0). lia.
Qed.

Theorem graph6_decode_no_panic : forall s0, len s0 < 576460752303423488 ->
  graph6_decode s0 <> Panic /\ graph6_decode s0 <> OutOfFuel.
Proof.
  intros s0 H. destruct (graph6_decode_total_len s0 H) as [E|(n & e & E & _)]; rewrite E; split; discriminate.
Qed.

(* ------------------------------------------------------------------ re-encoding a decoded graph *)
(* the DenseGraph with n vertices and triangle e, as a value of the Graph interface *)
Definition graph_of_tri (n : nat) (e : list bool) : graph :=
  {| gn := n;
     gadj := fun i j => if (i =? j)%nat then false
                        else nth (Nat.max i j * (Nat.max i j - 1) / 2 + Nat.min i j) e false |}.

Lemma firstn_add_map : forall {A} (l : list A) d a b, (a + b <= length l)%nat ->
  firstn (a + b) l = firstn a l ++ map (fun i => nth (a + i) l d) (seq 0 b).
Proof.
  intros A l d a b. revert a. induction b as [|b IH]; intros a H.
  - rewrite Nat.add_0_r. cbn [seq map]. rewrite app_nil_r. reflexivity.
  - replace (a + S b)%nat with (S a + b)%nat by lia. rewrite IH by lia.
    cbn [seq map]. rewrite <- seq_shift, map_map.
    replace (firstn (S a) l) with (firstn a l ++ [nth a l d]).
    + rewrite <- app_assoc. cbn [app]. rewrite Nat.add_0_r. do 2 f_equal.
      apply map_ext. intros i. f_equal. lia.
    + clear IH. revert a H. induction l as [|x l IHl]; intros a H; [cbn [length] in H; lia|].
      destruct a as [|a]; [reflexivity|]. cbn [firstn nth app]. f_equal. apply IHl. cbn [length] in H. lia.
Qed.

Lemma tri_nat_S : forall n, (S n * (S n - 1) / 2 = n * (n - 1) / 2 + n)%nat.
Proof.
  intros n. replace (S n * (S n - 1))%nat with (n * (n - 1) + n * 2)%nat by nia.
  rewrite Nat.div_add by lia. reflexivity.
Qed.

Lemma tri_rows_of_tri : forall e n m, (m * (m - 1) / 2 <= length e)%nat ->
  tri_rows (gadj (graph_of_tri n e)) m = firstn (m * (m - 1) / 2) e.
Proof.
  intros e n. induction m as [|m IH]; intros H; [reflexivity|].
  rewrite tri_nat_S in *. rewrite tri_rows_S, IH by lia.
  rewrite (firstn_add_map e false) by lia. f_equal.
  apply map_ext_in. intros i Hi. apply in_seq in Hi. cbn [graph_of_tri gadj].
  destruct (Nat.eqb_spec m i); [lia|]. rewrite Nat.max_l, Nat.min_r by lia. reflexivity.
Qed.

Lemma tri_nat_Z : forall n, Z.of_nat (n * (n - 1) / 2) = tri (Z.of_nat n).
Proof.
  intros n. unfold tri. rewrite Nat2Z.inj_div, Nat2Z.inj_mul. destruct n; [reflexivity|].
  rewrite Nat2Z.inj_sub by lia. reflexivity.
Qed.

Lemma tri_bits_of_tri : forall n e, len e = tri (Z.of_nat n) -> tri_bits (graph_of_tri n e) = e.
Proof.
  intros n e H. rewrite tri_bits_rows. cbn [gn graph_of_tri].
  change (gadj {| gn := n; gadj := _ |}) with (gadj (graph_of_tri n e)).
  unfold len in H. rewrite <- tri_nat_Z in H.
  rewrite tri_rows_of_tri by lia. replace (n * (n - 1) / 2)%nat with (length e) by lia.
  apply firstn_all.
Qed.

(* "Whenever they succeed, re-encoding the result and decoding again gives the same graph." *)
Theorem graph6_reencode : forall s0 n e, g6_nowrap (strip hdr_graph6 s0) ->
  graph6_decode s0 = Ok (n, e) ->
  exists s1, graph6_encode (graph_of_tri (Z.to_nat n) e) = Ok s1 /\ graph6_decode s1 = Ok (n, e).
Proof.
  intros s0 n e Hw E.
  destruct (graph6_decode_total_gen s0 Hw) as [E'|(n' & e' & E' & [Hn Hl] & Hd)]; [congruence|].
  rewrite E in E'. injection E' as <- <-.
  (* n*(n-1) does not wrap: the graph was read from a string *)
  assert (Hsmall : n <= 3037000500).
  { destruct Hd as [[_ ->]|Hd]; [lia|]. unfold declared in Hd.
    destruct (spec_read_N (strip hdr_graph6 s0)) as [[n1 r]|] eqn:ER; [|discriminate].
    injection Hd as ->. destruct Hw as [Hw|Hw]; [|exact (Hw _ _ ER)].
    (* a short string cannot declare more *)
    rewrite (graph6_decode_refines s0 (or_introl Hw)) in E. unfold g6_result in E.
    destruct (strip hdr_graph6 s0) as [|c0 r0] eqn:Es; [discriminate|]. rewrite <- Es in *.
    unfold g6_spec_decode in E. destruct (forallb in_range (strip hdr_graph6 s0)) eqn:Hr; [|discriminate].
    cbn [negb] in E. rewrite ER in E.
    destruct (Nat.ltb_spec (length (unpack6 r)) (Z.to_nat (tri n))) as [|Hge]; [discriminate|].
    rewrite unpack6_length in Hge.
    apply forallb_in_range in Hr.
    destruct (spec_read_N_skip _ _ _ Hr ltac:(rewrite Es; discriminate) ER) as (k & Hk).
    assert (length r <= length (strip hdr_graph6 s0))%nat by (rewrite Hk, skipn_length; lia).
    unfold len in Hw. assert (tri n <= 6 * 576460752303423488) by lia.
    unfold tri in H0. assert (n * (n - 1) <= 2 * (6 * 576460752303423488) + 1) by (dm; lia). nia. }
  set (g := graph_of_tri (Z.to_nat n) e).
  assert (Hgn : Z.of_nat (gn g) = n) by (cbn [g gn graph_of_tri]; lia).
  exists (g6_spec g). split; [apply graph6_encode_spec; lia|].
  destruct (graph6_roundtrip g (g6_spec g) ltac:(lia) (graph6_encode_spec g ltac:(lia))) as [R _].
  rewrite R, Hgn. do 2 f_equal. apply tri_bits_of_tri. rewrite Z2Nat.id by lia. exact Hl.
Qed.
