(* Proofs about the Multicode model: the encoder writes the record the format prescribes, the
   decoder reads it back to the DenseGraph equal to the graph, and MulticodeDecodeMultiple
   splits a concatenation of records into exactly these graphs. *)
From Coq Require Import List ZArith Bool Arith Lia.
From Mamba Require Import Codec.PruferMulticodeBase Codec.PruferMulticodeFacts Codec.MulticodeModel.
Import ListNotations.

(* ------------------------------------------------------------------ the format
   byte n; for the vertices 1..n-1 (1-based) the larger neighbours, 1-based and ascending,
   each list closed by 0; the empty graph is the single byte 0. *)
Definition mc_spec_row (g : graph) (i : nat) : list Z :=
  map (fun j => Z.of_nat j + 1)%Z (up_nbrs g i) ++ [0%Z].
Definition mc_spec (g : graph) : list Z :=
  Z.of_nat (gn g) :: flat_map (mc_spec_row g) (seq 0 (gn g - 1)).

Lemma in_up_nbrs g i j : In j (up_nbrs g i) <-> i < j /\ j < gn g /\ gadj g i j = true.
Proof. unfold up_nbrs. rewrite filter_In, in_seq. split; intros; repeat split; try tauto; lia. Qed.

Lemma NoDup_up_nbrs g i : NoDup (up_nbrs g i).
Proof. apply NoDup_filter', seq_NoDup. Qed.

Lemma byte_small x : (0 <= x < 256)%Z -> byte_of x = x.
Proof. intros; unfold byte_of; apply Z.mod_small; auto. Qed.

Lemma mc_row_spec g i : gn g <= 255 -> mc_row g i = mc_spec_row g i.
Proof.
  intros Hn. unfold mc_row, mc_spec_row. f_equal. apply map_ext_in.
  intros j Hj. apply in_up_nbrs in Hj. apply byte_small. lia.
Qed.

Lemma mc_body_spec g : gn g <= 255 -> mc_body g = flat_map (mc_spec_row g) (seq 0 (gn g - 1)).
Proof.
  intros Hn. unfold mc_body. induction (seq 0 (gn g - 1)) as [|a l IH]; simpl; auto.
  rewrite mc_row_spec, IH; auto.
Qed.

Lemma length_flat_map_rows {A B C} (f : A -> list B) (h : A -> list C) l :
  (forall a, length (h a) = S (length (f a))) ->
  length (flat_map h l) = length (flat_map f l) + length l.
Proof.
  intros H. induction l as [|a l IH]; simpl; auto.
  rewrite !app_length, IH, H. lia.
Qed.

Lemma up_nbrs_last g : up_nbrs g (gn g - 1) = [].
Proof.
  unfold up_nbrs. destruct (gn g) as [|n]; simpl; auto.
  replace (n - 0 - n) with 0 by lia. replace (n - (n - 0)) with 0 by lia. reflexivity.
Qed.

Lemma pairs_up_short g :
  pairs_up g = flat_map (fun i => map (pair i) (up_nbrs g i)) (seq 0 (gn g - 1)).
Proof.
  unfold pairs_up. destruct (gn g) as [|n] eqn:E; [reflexivity|].
  replace (S n - 1) with n by lia. rewrite seq_S, flat_map_app. simpl.
  replace n with (gn g - 1) at 3 by lia. rewrite up_nbrs_last. simpl. rewrite app_nil_r. reflexivity.
Qed.

Lemma length_mc_body g : gn g >= 1 -> Z.of_nat (length (mc_body g)) = (gm g + Z.of_nat (gn g) - 1)%Z.
Proof.
  intros Hn. unfold mc_body, gm. rewrite pairs_up_short.
  rewrite (length_flat_map_rows (fun i => map (pair i) (up_nbrs g i)) (mc_row g)).
  - rewrite seq_length. lia.
  - intros a. unfold mc_row. rewrite app_length, !map_length. simpl. lia.
Qed.

Theorem multicode_encode_spec g :
  gn g <= 255 -> multicode_encode g = Ok (if gn g =? 0 then [0%Z] else mc_spec g).
Proof.
  intros Hn. unfold multicode_encode.
  destruct (Z.ltb_spec 255 (Z.of_nat (gn g))) as [L|_]; [lia|].
  destruct (Z.eqb_spec (Z.of_nat (gn g)) 0) as [E0|N0].
  - replace (gn g) with 0 by lia. reflexivity.
  - destruct (Nat.eqb_spec (gn g) 0) as [?|_]; [lia|].
    pose proof (length_mc_body g ltac:(lia)) as HL.
    destruct (Z.ltb_spec (gm g + Z.of_nat (gn g)) (1 + Z.of_nat (length (mc_body g)))) as [L|_]; [lia|].
    replace (Z.to_nat (gm g + Z.of_nat (gn g) - 1) - length (mc_body g)) with 0 by lia.
    simpl. rewrite app_nil_r. unfold mc_spec. rewrite byte_small by lia.
    rewrite mc_body_spec; auto.
Qed.

(* ------------------------------------------------------------------ the decoder loop *)
Definition bump (deg : list Z) (v : nat) : list Z := upd deg v (nth v deg 0 + 1)%Z.

Fixpoint apply_pairs (L : list (nat * nat)) (deg : list Z) (e : list bool) : list Z * list bool :=
  match L with
  | [] => (deg, e)
  | (i, j) :: r => apply_pairs r (bump (bump deg j) i) (upd e (tri j + i) true)
  end.

Lemma bump_length deg v : length (bump deg v) = length deg.
Proof. apply upd_length. Qed.

Lemma apply_pairs_app L1 L2 deg e :
  apply_pairs (L1 ++ L2) deg e = let (d, e') := apply_pairs L1 deg e in apply_pairs L2 d e'.
Proof.
  revert deg e; induction L1 as [|[i j] L1 IH]; intros; simpl; auto.
Qed.

Lemma apply_pairs_length L deg e :
  length (fst (apply_pairs L deg e)) = length deg /\ length (snd (apply_pairs L deg e)) = length e.
Proof.
  revert deg e; induction L as [|[i j] L IH]; intros; simpl; auto.
  destruct (IH (bump (bump deg j) i) (upd e (tri j + i) true)) as [H1 H2].
  rewrite H1, H2, !bump_length, upd_length. auto.
Qed.

Lemma mc_edge_ok n st i j :
  n <= 255 -> i < j -> j < n -> st_cv st = i ->
  length (st_deg st) = n -> length (st_edges st) = tri n ->
  mc_edge st (Z.of_nat j + 1) =
  Ok {| st_cv := i; st_m := (st_m st + 1)%Z;
        st_deg := bump (bump (st_deg st) j) i; st_edges := upd (st_edges st) (tri j + i) true |}.
Proof.
  intros Hn Hij Hj Hcv Hd He. unfold mc_edge.
  replace (Z.of_nat j + 1 - 1)%Z with (Z.of_nat j) by lia.
  replace (Z.of_nat j + 1 - 2)%Z with (Z.of_nat (j - 1)) by lia.
  rewrite !byte_small by lia. rewrite !Nat2Z.id, <- tri_eq, Hcv.
  rewrite set_ok by (rewrite He; apply tri_bound; auto). simpl.
  rewrite add_at_ok by lia. simpl.
  rewrite add_at_ok by (rewrite upd_length; lia). simpl.
  reflexivity.
Qed.

(* one neighbour list followed by its terminator *)
Lemma mc_loop_row n js : forall st i rest,
  n <= 255 -> (forall j, In j js -> i < j /\ j < n) -> st_cv st = i ->
  length (st_deg st) = n -> length (st_edges st) = tri n ->
  mc_loop (map (fun j => Z.of_nat j + 1)%Z js ++ 0%Z :: rest) st =
  mc_loop rest
    (let (d, e) := apply_pairs (map (pair i) js) (st_deg st) (st_edges st) in
     {| st_cv := S i; st_m := (st_m st + Z.of_nat (length js))%Z; st_deg := d; st_edges := e |}).
Proof.
  induction js as [|j js IH]; intros st i rest Hn Hjs Hcv Hd He.
  - simpl. rewrite Hcv, Z.add_0_r. reflexivity.
  - destruct (Hjs j (or_introl eq_refl)) as [Hij Hj].
    cbn [map app mc_loop].
    destruct (Z.eqb_spec (Z.of_nat j + 1) 0) as [?|_]; [lia|].
    rewrite (mc_edge_ok n st i j) by auto. cbn [bind].
    rewrite (IH _ i rest); auto.
    + cbn [st_deg st_edges st_m map apply_pairs length].
      destruct (apply_pairs (map (pair i) js) _ _). f_equal. f_equal. lia.
    + intros; apply Hjs; right; auto.
    + cbn. rewrite !bump_length. auto.
    + cbn. rewrite upd_length. auto.
Qed.

(* the lists of the vertices i0, i0+1, ..., i0+k-1 *)
Lemma mc_loop_rows g : forall k i0 st,
  gn g <= 255 -> i0 + k <= gn g -> st_cv st = i0 ->
  length (st_deg st) = gn g -> length (st_edges st) = tri (gn g) ->
  mc_loop (flat_map (mc_spec_row g) (seq i0 k)) st =
  Ok (let (d, e) := apply_pairs (flat_map (fun i => map (pair i) (up_nbrs g i)) (seq i0 k)) (st_deg st) (st_edges st) in
      {| st_cv := i0 + k;
         st_m := (st_m st + Z.of_nat (length (flat_map (fun i => map (pair i) (up_nbrs g i)) (seq i0 k))))%Z;
         st_deg := d; st_edges := e |}).
Proof.
  induction k as [|k IH]; intros i0 st Hn Hk Hcv Hd He.
  - simpl. rewrite Nat.add_0_r, Z.add_0_r, <- Hcv. destruct st; reflexivity.
  - cbn [seq flat_map]. unfold mc_spec_row at 1. rewrite <- app_assoc. cbn [app].
    rewrite (mc_loop_row (gn g) (up_nbrs g i0) st i0); auto.
    2:{ intros j Hj. apply in_up_nbrs in Hj. lia. }
    rewrite apply_pairs_app.
    pose proof (apply_pairs_length (map (pair i0) (up_nbrs g i0)) (st_deg st) (st_edges st)) as [L1 L2].
    destruct (apply_pairs (map (pair i0) (up_nbrs g i0)) (st_deg st) (st_edges st)) as [d e].
    simpl in L1, L2.
    rewrite IH; cbn [st_cv st_deg st_edges st_m]; auto; try lia.
    destruct (apply_pairs _ d e). f_equal. f_equal; [lia|].
    rewrite app_length, !map_length. lia.
Qed.

(* ------------------------------------------------------------------ what apply_pairs leaves in the arrays *)
Fixpoint cnt (v : nat) (L : list (nat * nat)) : Z :=
  match L with
  | [] => 0
  | (i, j) :: r => ((if (i =? v)%nat then 1 else 0) + (if (j =? v)%nat then 1 else 0) + cnt v r)%Z
  end.

Lemma nth_bump deg v k : v < length deg ->
  nth k (bump deg v) 0%Z = (nth k deg 0 + (if (v =? k)%nat then 1 else 0))%Z.
Proof.
  intros Hv. unfold bump. rewrite nth_upd by auto.
  rewrite (Nat.eqb_sym v k). destruct (Nat.eqb_spec k v) as [->|]; lia.
Qed.

Lemma apply_pairs_deg L : forall deg e v,
  (forall i j, In (i, j) L -> i < length deg /\ j < length deg) ->
  nth v (fst (apply_pairs L deg e)) 0%Z = (nth v deg 0 + cnt v L)%Z.
Proof.
  induction L as [|[i j] L IH]; intros deg e v H; simpl; [lia|].
  destruct (H i j (or_introl eq_refl)) as [Hi Hj].
  rewrite IH.
  - rewrite nth_bump by (rewrite bump_length; auto). rewrite nth_bump by auto. lia.
  - intros a b Hab. rewrite !bump_length. apply H. right; auto.
Qed.

Lemma apply_pairs_edges L : forall deg e k,
  (forall i j, In (i, j) L -> tri j + i < length e) ->
  nth k (snd (apply_pairs L deg e)) false = nth k e false || existsb (fun p => tri (snd p) + fst p =? k) L.
Proof.
  induction L as [|[i j] L IH]; intros deg e k H; simpl; [rewrite orb_false_r; auto|].
  rewrite IH.
  - rewrite nth_upd by (apply (H i j); left; auto).
    rewrite (Nat.eqb_sym k). destruct (tri j + i =? k); simpl; auto. rewrite orb_true_r. auto.
  - intros a b Hab. rewrite upd_length. apply H. right; auto.
Qed.

(* ------------------------------------------------------------------ counting the ends of the edges *)
Lemma in_pairs_up g i j : In (i, j) (pairs_up g) <-> i < j /\ j < gn g /\ gadj g i j = true.
Proof.
  unfold pairs_up. rewrite in_flat_map. split.
  - intros (a & Ha & Hin). apply in_map_iff in Hin. destruct Hin as (b & E & Hb).
    inversion E; subst. apply in_up_nbrs in Hb. auto.
  - intros (H1 & H2 & H3). exists i. split; [apply in_seq; lia|].
    apply in_map. apply in_up_nbrs. auto.
Qed.

Lemma NoDup_app_intro {A} (l1 l2 : list A) :
  NoDup l1 -> NoDup l2 -> (forall x, In x l1 -> ~ In x l2) -> NoDup (l1 ++ l2).
Proof.
  induction 1 as [|a l1 Hn N IH]; intros N2 H; simpl; auto.
  constructor.
  - intros Hin. apply in_app_or in Hin. destruct Hin as [?|Hin]; [tauto|].
    apply (H a); [left; auto|auto].
  - apply IH; auto. intros x Hx. apply H. right; auto.
Qed.

Lemma NoDup_pairs_rows (f : nat -> list nat) l :
  NoDup l -> (forall i, NoDup (f i)) -> NoDup (flat_map (fun i => map (pair i) (f i)) l).
Proof.
  intros N Hf. induction N as [|a l Hn N IH]; simpl; [constructor|].
  apply NoDup_app_intro; auto.
  - apply NoDup_map_inj; auto. intros x y _ _ E. inversion E; auto.
  - intros [x y] Hx Hin. apply in_map_iff in Hx. destruct Hx as (b & E & _). inversion E; subst.
    apply in_flat_map in Hin. destruct Hin as (i & Hi & Hin).
    apply in_map_iff in Hin. destruct Hin as (c & E' & _). inversion E'; subst. tauto.
Qed.

Lemma NoDup_pairs_up g : NoDup (pairs_up g).
Proof. apply NoDup_pairs_rows; [apply seq_NoDup|apply NoDup_up_nbrs]. Qed.

Lemma cnt_filter v L :
  cnt v L = (Z.of_nat (length (filter (fun p => (fst p =? v)%nat) L)) +
             Z.of_nat (length (filter (fun p => (snd p =? v)%nat) L)))%Z.
Proof.
  induction L as [|[i j] L IH]; simpl; auto.
  rewrite IH. destruct (i =? v), (j =? v); simpl length; lia.
Qed.

Lemma seq_split3 n v : v < n -> seq 0 n = seq 0 v ++ v :: seq (S v) (n - S v).
Proof.
  intros H. replace n with (v + S (n - S v)) at 1 by lia.
  rewrite seq_app. reflexivity.
Qed.

(* any duplicate-free list of the edges (i,j), i < j, of a simple graph has v as an end
   exactly degree-of-v times *)
Lemma cnt_edge_list g L v : simple g -> v < gn g -> NoDup L ->
  (forall i j, In (i, j) L <-> i < j /\ j < gn g /\ gadj g i j = true) ->
  cnt v L = degree g v.
Proof.
  intros [Hsym Hirr] Hv NL HL. rewrite cnt_filter. unfold degree.
  rewrite (seq_split3 (gn g) v Hv), filter_app. cbn [filter]. rewrite Hirr, app_length.
  rewrite Nat2Z.inj_add, Z.add_comm. f_equal; f_equal.
  - (* the pairs (i, v), i < v *)
    rewrite <- (map_length (fun u => (u, v)) (filter (gadj g v) (seq 0 v))).
    apply NoDup_same_length.
    + apply NoDup_filter'; auto.
    + apply NoDup_map_inj; [intros x y _ _ E; inversion E; auto|apply NoDup_filter', seq_NoDup].
    + intros [i j]. rewrite filter_In, HL, in_map_iff. cbn [snd]. split.
      * intros ((H1 & H2 & H3) & E). apply Nat.eqb_eq in E. subst j.
        exists i. split; auto. apply filter_In. rewrite in_seq, Hsym. split; auto. lia.
      * intros (u & E & Hu). inversion E; subst. apply filter_In in Hu. destruct Hu as [Hu Ha].
        apply in_seq in Hu. rewrite Hsym in Ha. rewrite Nat.eqb_refl. repeat split; auto; lia.
  - (* the pairs (v, j), v < j *)
    change (filter (gadj g v) (seq (S v) (gn g - S v))) with (up_nbrs g v).
    rewrite <- (map_length (pair v) (up_nbrs g v)).
    apply NoDup_same_length.
    + apply NoDup_filter'; auto.
    + apply NoDup_map_inj; [intros x y _ _ E; inversion E; auto|apply NoDup_up_nbrs].
    + intros [i j]. rewrite filter_In, HL, in_map_iff. cbn [fst]. split.
      * intros ((H1 & H2 & H3) & E). apply Nat.eqb_eq in E. subst i.
        exists j. split; auto. apply in_up_nbrs. auto.
      * intros (u & E & Hu). inversion E; subst. apply in_up_nbrs in Hu.
        rewrite Nat.eqb_refl. tauto.
Qed.

Lemma cnt_pairs_up g v : simple g -> v < gn g -> cnt v (pairs_up g) = degree g v.
Proof.
  intros Hs Hv. apply cnt_edge_list; auto; [apply NoDup_pairs_up|intros; apply in_pairs_up].
Qed.

(* ------------------------------------------------------------------ the arrays after all edges *)
Lemma pairs_up_range g i j : In (i, j) (pairs_up g) -> i < gn g /\ j < gn g.
Proof. intros H. apply in_pairs_up in H. lia. Qed.

Lemma apply_pairs_graph g :
  simple g ->
  apply_pairs (pairs_up g) (repeat 0%Z (gn g)) (repeat false (tri (gn g))) = (degrees g, tri_bits g).
Proof.
  intros Hs.
  pose proof (apply_pairs_length (pairs_up g) (repeat 0%Z (gn g)) (repeat false (tri (gn g)))) as [L1 L2].
  rewrite repeat_length in L1, L2.
  rewrite (surjective_pairing (apply_pairs _ _ _)). f_equal.
  - apply (nth_ext _ _ 0%Z 0%Z).
    + unfold degrees. rewrite L1, map_length, seq_length. reflexivity.
    + intros v Hv. rewrite L1 in Hv. rewrite apply_pairs_deg.
      2:{ intros i j Hij. rewrite repeat_length. apply pairs_up_range; auto. }
      rewrite nth_repeat' by auto. rewrite cnt_pairs_up by auto.
      unfold degrees. rewrite (nth_indep _ 0%Z (degree g 0)) by (rewrite map_length, seq_length; auto).
      rewrite map_nth, seq_nth by auto. reflexivity.
  - apply (nth_ext _ _ false false).
    + rewrite L2, length_tri_bits. reflexivity.
    + intros k Hk. rewrite L2 in Hk. rewrite apply_pairs_edges.
      2:{ intros i j Hij. rewrite repeat_length. apply in_pairs_up in Hij. apply tri_bound; lia. }
      rewrite nth_repeat' by auto. cbn [orb].
      destruct (tri_cell _ _ Hk) as (i & j & Hij & Hj & ->).
      rewrite nth_tri_bits by auto.
      destruct (gadj g i j) eqn:E.
      * apply existsb_exists. exists (i, j). split; [apply in_pairs_up; auto|].
        cbn. apply Nat.eqb_refl.
      * apply not_true_is_false. intros H. apply existsb_exists in H.
        destruct H as ([a b] & Hin & Heq). cbn in Heq. apply Nat.eqb_eq in Heq.
        apply in_pairs_up in Hin. destruct Hin as (H1 & H2 & H3).
        apply tri_inj in Heq; auto. destruct Heq; subst. congruence.
Qed.

(* MulticodeDecode of the record of g is the DenseGraph equal to g *)
Theorem multicode_decode_spec g :
  simple g -> gn g <= 255 ->
  multicode_decode (if gn g =? 0 then [0%Z] else mc_spec g) = Ok (dense_of g).
Proof.
  intros Hs Hn. destruct (Nat.eqb_spec (gn g) 0) as [E0|N0].
  - unfold multicode_decode, dense_of, gm, pairs_up, degrees, tri_bits. rewrite E0. cbn.
    rewrite tri_0. reflexivity.
  - unfold multicode_decode, mc_spec. cbn [get nth_error bind tl]. rewrite Nat2Z.id.
    rewrite (mc_loop_rows g (gn g - 1) 0); cbn [st_cv st_deg st_edges st_m]; auto;
      try (rewrite repeat_length; auto); try lia.
    rewrite <- pairs_up_short, apply_pairs_graph by auto.
    cbn [bind st_cv st_m st_deg st_edges]. rewrite Nat.eqb_refl, andb_false_r.
    reflexivity.
Qed.

(* ------------------------------------------------------------------ MulticodeDecodeMultiple *)
Definition mc_record (g : graph) : list Z := if gn g =? 0 then [0%Z] else mc_spec g.

Lemma mcm_nonzero : forall xs tail left cur out,
  left <> 0%Z -> (forall x, In x xs -> x <> 0%Z) ->
  mcm_loop (xs ++ tail) left cur out = mcm_loop tail left (rev xs ++ cur) out.
Proof.
  induction xs as [|x xs IH]; intros tail left cur out Hl Hx; [reflexivity|].
  cbn [app mcm_loop].
  destruct (Z.eqb_spec left 0) as [?|_]; [contradiction|].
  destruct (Z.eqb_spec x 0) as [E|_]; [exfalso; apply (Hx x); [left; auto|auto]|].
  rewrite IH; auto.
  - cbn [rev]. rewrite <- app_assoc. reflexivity.
  - intros y Hy. apply Hx. right; auto.
Qed.

Lemma mcm_rows g : forall k i0 cur rest out,
  k >= 1 ->
  mcm_loop (flat_map (mc_spec_row g) (seq i0 k) ++ rest) (Z.of_nat k) cur out =
  do d <- multicode_decode (rev cur ++ flat_map (mc_spec_row g) (seq i0 k)); mcm_loop rest 0 [] (d :: out).
Proof.
  induction k as [|k IH]; intros i0 cur rest out Hk; [lia|].
  cbn [seq flat_map]. unfold mc_spec_row at 1 3. rewrite <- !app_assoc. cbn [app].
  rewrite mcm_nonzero; [|lia|].
  2:{ intros x Hx. apply in_map_iff in Hx. destruct Hx as (j & <- & _). lia. }
  cbn [mcm_loop].
  destruct (Z.eqb_spec (Z.of_nat (S k)) 0) as [?|_]; [lia|].
  cbn [Z.eqb].
  replace (Z.of_nat (S k) - 1)%Z with (Z.of_nat k) by lia.
  destruct k as [|k].
  - cbn [Z.of_nat Z.eqb seq flat_map app]. cbn [rev]. rewrite rev_app_distr, rev_involutive, <- app_assoc.
    reflexivity.
  - destruct (Z.eqb_spec (Z.of_nat (S k)) 0) as [?|_]; [lia|].
    rewrite IH by lia. cbn [rev]. rewrite rev_app_distr, rev_involutive, <- !app_assoc. reflexivity.
Qed.

Lemma mcm_record g rest out :
  simple g -> gn g <= 255 ->
  mcm_loop (mc_record g ++ rest) 0 [] out = mcm_loop rest 0 [] (dense_of g :: out).
Proof.
  intros Hs Hn. pose proof (multicode_decode_spec g Hs Hn) as HD. fold (mc_record g) in HD.
  unfold mc_record in *. destruct (Nat.eqb_spec (gn g) 0) as [E0|N0].
  - cbn [app mcm_loop Z.eqb Z.leb Z.compare]. rewrite HD. reflexivity.
  - unfold mc_spec in *. cbn [app mcm_loop Z.eqb].
    destruct (Z.leb_spec (Z.of_nat (gn g)) 1) as [L|G].
    + replace (gn g - 1) with 0 in * by lia. cbn [seq flat_map] in *. rewrite HD. reflexivity.
    + replace (Z.of_nat (gn g) - 1)%Z with (Z.of_nat (gn g - 1)) by lia.
      rewrite mcm_rows by lia. cbn [rev app]. rewrite HD. reflexivity.
Qed.

Theorem multicode_decode_multiple_spec gs :
  (forall g, In g gs -> simple g /\ gn g <= 255) ->
  multicode_decode_multiple (concat (map mc_record gs)) = Ok (map dense_of gs).
Proof.
  unfold multicode_decode_multiple. intros H.
  assert (G : forall out, mcm_loop (concat (map mc_record gs)) 0 [] out = Ok (rev out ++ map dense_of gs)).
  { induction gs as [|g gs IH]; intros out.
    - cbn. rewrite app_nil_r. reflexivity.
    - cbn [map concat]. destruct (H g (or_introl eq_refl)) as [Hs Hn].
      rewrite mcm_record by auto. rewrite IH by (intros; apply H; right; auto).
      cbn [rev]. rewrite <- app_assoc. reflexivity. }
  apply (G []).
Qed.

(* every byte of a record is one the format allows: at most n, hence at most 255 *)
Lemma mc_record_bytes g x : gn g <= 255 -> In x (mc_record g) -> (0 <= x <= Z.of_nat (gn g))%Z.
Proof.
  intros Hn. unfold mc_record. destruct (Nat.eqb_spec (gn g) 0) as [E0|N0].
  - intros [<-|[]]. lia.
  - unfold mc_spec. intros [<-|Hx]; [lia|].
    apply in_flat_map in Hx. destruct Hx as (i & _ & Hx). unfold mc_spec_row in Hx.
    apply in_app_or in Hx. destruct Hx as [Hx|[<-|[]]]; [|lia].
    apply in_map_iff in Hx. destruct Hx as (j & <- & Hj). apply in_up_nbrs in Hj. lia.
Qed.
