(* Trees by leaf elimination are exactly the connected graphs with |V| - 1 edges. *)
From Coq Require Import List ZArith Bool Arith Lia.
From Mamba Require Import Codec.PruferMulticodeBase Codec.PruferMulticodeFacts Codec.PruferTree
  Codec.MulticodeProofs.
Import ListNotations.

Fixpoint sumf (f : nat -> nat) (L : list nat) : nat :=
  match L with
  | [] => 0
  | v :: r => f v + sumf f r
  end.

Lemma sumf_split_rem f l L : NoDup L -> In l L -> sumf f L = f l + sumf f (rem l L).
Proof.
  induction 1 as [|a L Hn N IH]; intros Hin; [destruct Hin|].
  cbn [sumf rem filter]. destruct (Nat.eqb_spec a l) as [->|Hne]; cbn [negb].
  - f_equal. f_equal. symmetry.
    clear IH N Hin. induction L as [|b L IHL]; auto. cbn [filter].
    destruct (Nat.eqb_spec b l) as [->|_]; [exfalso; apply Hn; left; auto|].
    cbn [negb]. f_equal. apply IHL. intros H; apply Hn; right; auto.
  - destruct Hin as [?|Hin]; [congruence|]. cbn [sumf]. fold (rem l L). rewrite (IH Hin). lia.
Qed.

Lemma sumf_add f g L : sumf (fun v => f v + g v) L = sumf f L + sumf g L.
Proof. induction L as [|a L IH]; simpl; auto. rewrite IH. lia. Qed.

Lemma sumf_ext_in f g L : (forall v, In v L -> f v = g v) -> sumf f L = sumf g L.
Proof.
  induction L as [|a L IH]; intros H; simpl; auto.
  rewrite (H a (or_introl eq_refl)), IH; auto. intros; apply H; right; auto.
Qed.

Lemma sumf_indicator (P : nat -> bool) L : sumf (fun v => if P v then 1 else 0) L = length (filter P L).
Proof. induction L as [|a L IH]; simpl; auto. rewrite IH. destruct (P a); reflexivity. Qed.

Lemma sumf_ge2 f L : (forall v, In v L -> f v >= 2) -> sumf f L >= 2 * length L.
Proof.
  induction L as [|a L IH]; intros H; simpl; [lia|].
  pose proof (H a (or_introl eq_refl)). assert (sumf f L >= 2 * length L) by (apply IH; intros; apply H; right; auto).
  lia.
Qed.

Section Conn.
Variable adj : nat -> nat -> bool.
Hypothesis adj_sym : forall x y, adj x y = adj y x.
Hypothesis adj_irr : forall x, adj x x = false.

(* y can be reached from x by a walk inside V *)
Inductive reach (V : list nat) (x : nat) : nat -> Prop :=
| reach_refl : In x V -> reach V x x
| reach_step y z : reach V x y -> In z V -> adj y z = true -> reach V x z.

Definition connected (V : list nat) : Prop := forall x y, In x V -> In y V -> reach V x y.

(* twice the number of edges inside V *)
Definition sumdeg (V : list nat) : nat := sumf (degS adj V) V.

Lemma reach_in V x y : reach V x y -> In x V /\ In y V.
Proof. induction 1; tauto. Qed.

Lemma reach_trans V x y z : reach V x y -> reach V y z -> reach V x z.
Proof. intros H1 H2. induction H2; auto. eapply reach_step; eauto. Qed.

Lemma reach_sym V x y : reach V x y -> reach V y x.
Proof.
  induction 1 as [Hx|y z H IH Hz A].
  - constructor; auto.
  - apply (reach_trans V z y x); auto.
    apply (reach_step V z z y); [constructor; auto|apply (reach_in V x y); auto|rewrite adj_sym; auto].
Qed.

Lemma reach_mono V V' x y : (forall v, In v V' -> In v V) -> reach V' x y -> reach V x y.
Proof. intros H. induction 1; [constructor; auto|eapply reach_step; eauto]. Qed.

(* ------------------------------------------------------------------ trees are connected *)
Lemma ltree_connected V : ltree adj V -> connected V.
Proof.
  induction 1 as [v|V l u Hl Hu Alu Dl T IH]; intros x y Hx Hy.
  - destruct Hx as [<-|[]], Hy as [<-|[]]. constructor. left; auto.
  - assert (Hlu : l <> u) by (intros ->; rewrite adj_irr in Alu; discriminate).
    assert (M : forall a b, reach (rem l V) a b -> reach V a b).
    { intros a b. apply reach_mono. intros v Hv. apply In_rem in Hv. tauto. }
    assert (Hu' : In u (rem l V)) by (apply In_rem; auto).
    (* every vertex other than l reaches l through u *)
    assert (G : forall a, In a V -> reach V a l).
    { intros a Ha. destruct (Nat.eq_dec a l) as [->|Hne]; [constructor; auto|].
      apply (reach_step V a u l); auto; [|rewrite adj_sym; auto].
      apply M, IH; auto. apply In_rem; auto. }
    destruct (Nat.eq_dec y l) as [->|Hyl]; [apply G; auto|].
    destruct (Nat.eq_dec x l) as [->|Hxl]; [apply reach_sym, G; auto|].
    apply M, IH; apply In_rem; auto.
Qed.

(* ------------------------------------------------------------------ the degree sum *)
Lemma sumdeg_rem V l : NoDup V -> In l V -> sumdeg V = sumdeg (rem l V) + 2 * degS adj V l.
Proof.
  intros N Hl. unfold sumdeg. rewrite (sumf_split_rem _ l V N Hl).
  rewrite (sumf_ext_in (degS adj V) (fun v => (if adj v l then 1 else 0) + degS adj (rem l V) v)).
  2:{ intros v _. apply deg_rem; auto. }
  rewrite sumf_add, sumf_indicator.
  assert (E : length (filter (fun v => adj v l) (rem l V)) = degS adj V l).
  { rewrite (deg_rem adj V l l N Hl), adj_irr. unfold degS. cbn [Nat.add].
    f_equal. apply filter_ext. intros; apply adj_sym. }
  rewrite E. lia.
Qed.

Lemma ltree_sumdeg V : ltree adj V -> NoDup V -> sumdeg V + 2 = 2 * length V.
Proof.
  induction 1 as [v|V l u Hl Hu Alu Dl T IH]; intros N.
  - unfold sumdeg, degS. simpl. rewrite adj_irr. reflexivity.
  - rewrite (sumdeg_rem V l N Hl), Dl. pose proof (length_rem l V N Hl).
    specialize (IH (NoDup_rem l V N)). lia.
Qed.

(* ------------------------------------------------------------------ connected with |V|-1 edges => tree *)
Lemma connected_deg_pos V : connected V -> NoDup V -> length V >= 2 ->
  forall y, In y V -> degS adj V y >= 1.
Proof.
  intros C N Hlen y Hy.
  assert (exists x, In x V /\ x <> y) as (x & Hx & Hxy).
  { destruct V as [|a [|b r]]; simpl in Hlen; try lia.
    assert (a <> b) by (inversion N; subst; simpl in *; intuition).
    destruct (Nat.eq_dec a y) as [->|]; [exists b|exists a]; simpl; auto. }
  pose proof (C x y Hx Hy) as R. inversion R as [|y' z R' Hz A]; subst; [congruence|].
  unfold degS. assert (In y' (filter (adj y) V)).
  { apply filter_In. split; [apply (reach_in V x y'); auto|rewrite adj_sym; auto]. }
  destruct (filter (adj y) V); [destruct H|simpl; lia].
Qed.

Lemma exists_leaf V : connected V -> NoDup V -> length V >= 2 -> sumdeg V + 2 = 2 * length V ->
  exists l, In l V /\ degS adj V l = 1.
Proof.
  intros C N Hlen S.
  destruct (find (fun v => degS adj V v =? 1) V) as [l|] eqn:F.
  - apply find_some in F. destruct F as [Hl E]. apply Nat.eqb_eq in E. eauto.
  - exfalso. assert (sumf (degS adj V) V >= 2 * length V); [|unfold sumdeg in S; lia].
    apply sumf_ge2. intros v Hv.
    pose proof (find_none _ _ F v Hv) as Q. cbv beta in Q. apply Nat.eqb_neq in Q.
    pose proof (connected_deg_pos V C N Hlen v Hv). lia.
Qed.

(* walks between vertices other than the leaf l can avoid l *)
Lemma reach_avoid V l u x :
  In u V -> adj l u = true -> (forall z, In z V -> adj l z = true -> z = u) ->
  In x V -> x <> l ->
  forall y, reach V x y -> (y <> l -> reach (rem l V) x y) /\ (y = l -> reach (rem l V) x u).
Proof.
  intros Hu Alu Uq Hx Hxl y R.
  assert (Hlu : l <> u) by (intros ->; rewrite adj_irr in Alu; discriminate).
  induction R as [_|y z R [IH1 IH2] Hz A].
  - split; [|congruence]. intros _. constructor. apply In_rem; auto.
  - split.
    + intros Hzl. destruct (Nat.eq_dec y l) as [->|Hyl].
      * rewrite (Uq z Hz A). apply IH2; auto.
      * apply (reach_step _ _ y z); auto. apply In_rem; auto.
    + intros ->. assert (Hyl : y <> l) by (intros ->; rewrite adj_irr in A; discriminate).
      assert (y = u).
      { apply Uq; [apply (reach_in V x y); auto|rewrite adj_sym; auto]. }
      subst y. apply IH1; auto.
Qed.

Lemma connected_rem_leaf V l : connected V -> In l V -> degS adj V l = 1 -> connected (rem l V).
Proof.
  intros C Hl Dl x y Hx Hy. apply In_rem in Hx, Hy.
  destruct (leaf_has_nbr adj V l Dl) as (u & Hu & Alu).
  apply (reach_avoid V l u x Hu Alu); try tauto.
  - intros z Hz A. apply (leaf_unique adj V l u z); auto.
  - apply C; tauto.
Qed.

Lemma connected_ltree : forall k V,
  length V = S k -> NoDup V -> connected V -> sumdeg V + 2 = 2 * length V -> ltree adj V.
Proof.
  induction k as [|k IH]; intros V Hlen N C S.
  - destruct V as [|v [|? ?]]; simpl in Hlen; try lia. constructor.
  - destruct (exists_leaf V C N ltac:(lia) S) as (l & Hl & Dl).
    destruct (leaf_has_nbr adj V l Dl) as (u & Hu & Alu).
    pose proof (length_rem l V N Hl) as HL.
    apply (lt_leaf adj V l u); auto.
    apply IH.
    + lia.
    + apply NoDup_rem; auto.
    + apply connected_rem_leaf; auto.
    + rewrite (sumdeg_rem V l N Hl), Dl in S. lia.
Qed.

Theorem ltree_iff V : NoDup V -> V <> [] ->
  (ltree adj V <-> connected V /\ sumdeg V + 2 = 2 * length V).
Proof.
  intros N Hne. split.
  - intros T. split; [apply ltree_connected; auto|apply ltree_sumdeg; auto].
  - intros [C S]. destruct V as [|a r]; [congruence|].
    apply (connected_ltree (length r)); auto.
Qed.

End Conn.

(* ------------------------------------------------------------------ graphs: the degree sum is 2 M() *)
Fixpoint zsumf (f : nat -> Z) (L : list nat) : Z :=
  match L with
  | [] => 0%Z
  | v :: r => (f v + zsumf f r)%Z
  end.

Lemma zsumf_add f g L : zsumf (fun v => (f v + g v)%Z) L = (zsumf f L + zsumf g L)%Z.
Proof. induction L as [|a L IH]; simpl; auto. rewrite IH. lia. Qed.

Lemma zsumf_ext_in f g L : (forall v, In v L -> f v = g v) -> zsumf f L = zsumf g L.
Proof.
  induction L as [|a L IH]; intros H; simpl; auto.
  rewrite (H a (or_introl eq_refl)), IH; auto. intros; apply H; right; auto.
Qed.

Lemma zsumf_point i n : i < n -> zsumf (fun v => if i =? v then 1%Z else 0%Z) (seq 0 n) = 1%Z.
Proof.
  intros H.
  assert (G : forall L, zsumf (fun v => if i =? v then 1%Z else 0%Z) L = Z.of_nat (length (filter (Nat.eqb i) L))).
  { induction L as [|a L IH]; auto. cbn [zsumf filter]. rewrite IH. destruct (i =? a); cbn [length]; lia. }
  rewrite G, filter_eq_one; auto; [apply seq_NoDup|apply in_seq; lia].
Qed.

Lemma zsumf_cnt n L : (forall i j, In (i, j) L -> i < n /\ j < n) ->
  zsumf (fun v => cnt v L) (seq 0 n) = (2 * Z.of_nat (length L))%Z.
Proof.
  induction L as [|[i j] L IH]; intros H.
  - cbn [cnt length]. induction (seq 0 n); simpl; lia.
  - cbn [cnt]. destruct (H i j (or_introl eq_refl)) as [Hi Hj].
    rewrite !zsumf_add, !zsumf_point by auto. rewrite IH.
    + cbn [length]. lia.
    + intros a b Hab. apply H. right; auto.
Qed.

Lemma zsumf_of_nat f L : zsumf (fun v => Z.of_nat (f v)) L = Z.of_nat (sumf f L).
Proof. induction L as [|a L IH]; simpl; auto. rewrite IH. lia. Qed.

Lemma sumdeg_gm g : simple g -> Z.of_nat (sumdeg (gadj g) (seq 0 (gn g))) = (2 * gm g)%Z.
Proof.
  intros Hs. unfold sumdeg, gm. rewrite <- zsumf_of_nat.
  rewrite <- (zsumf_cnt (gn g) (pairs_up g)) by (intros i j H; apply in_pairs_up in H; lia).
  apply zsumf_ext_in. intros v Hv. apply in_seq in Hv.
  rewrite cnt_pairs_up by (auto; lia). reflexivity.
Qed.

(* a graph is a tree (leaf elimination) iff it is connected and has n - 1 edges *)
Theorem tree_iff_connected g : simple g -> gn g >= 1 ->
  (ltree (gadj g) (seq 0 (gn g)) <->
   connected (gadj g) (seq 0 (gn g)) /\ gm g = (Z.of_nat (gn g) - 1)%Z).
Proof.
  intros Hs Hn. pose proof Hs as [Hsym Hirr].
  assert (Hne : seq 0 (gn g) <> []) by (destruct (gn g) eqn:E; [lia|discriminate]).
  rewrite (ltree_iff (gadj g) Hsym Hirr (seq 0 (gn g)) (seq_NoDup _ _) Hne).
  pose proof (sumdeg_gm g Hs) as E. rewrite seq_length.
  split; intros [C S]; split; auto; lia.
Qed.
