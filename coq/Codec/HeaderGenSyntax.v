(* Syntax and evaluation of the size-header code that tools/gotrans/headers.go re-extracts from
   graph/encoding.go on every run (Gen/SizeHeaders.v).  Definitions only.

   [hexpr] is the right-hand side language: integer constants, the vertex count (an [int]),
   s[k] (a [byte]), shifts by constants, &, +, -, *, and the conversions byte(..), uint64(..),
   int(..).  The translator emits syntax only; Go's typing -- which decides at which width an
   operation wraps -- is [ty_of] below, and [eval] is Go's evaluation with that wrap-around
   (int and uint taken as 64 bits).  So  uint64((s[1]-63)<<12)  (shift in byte arithmetic) and
   uint64(s[1]-63)<<12  (shift in uint64 arithmetic) are different terms with different values.
   An index out of range is [None] (a Go panic), never a default value. *)
From Coq Require Import List ZArith Bool.
From Mamba Require Import Codec.Model.
Import ListNotations.
Open Scope Z_scope.

Inductive hty := TByte | TU64 | TInt.

Inductive hexpr :=
| HConst (c : Z)
| HN                          (* the vertex count n := g.N(), type int (encoders) *)
| HByte (i : Z)               (* s[i], type byte (decoders) *)
| HShr (e : hexpr) (k : Z)
| HShl (e : hexpr) (k : Z)
| HAnd (a b : hexpr)
| HAdd (a b : hexpr)
| HSub (a b : hexpr)
| HMul (a b : hexpr)
| HConv (t : hty) (e : hexpr).

(* the type of an expression; [None] = untyped constant (exact arithmetic) *)
Fixpoint ty_of (e : hexpr) : option hty :=
  match e with
  | HConst _ => None
  | HN => Some TInt
  | HByte _ => Some TByte
  | HShr a _ | HShl a _ => ty_of a
  | HAnd a b | HAdd a b | HSub a b | HMul a b =>
      match ty_of a with Some t => Some t | None => ty_of b end
  | HConv t _ => Some t
  end.

Definition wrap_ty (t : option hty) (v : Z) : Z :=
  match t with
  | None => v
  | Some TByte => byte_of v
  | Some TU64 => u64 v
  | Some TInt => wrap64 v
  end.

Definition obind {A B} (o : option A) (f : A -> option B) : option B :=
  match o with Some a => f a | None => None end.

Definition nth_z (s : list Z) (i : Z) : option Z :=
  if i <? 0 then None else nth_error s (Z.to_nat i).

(* value of e for vertex count n and input string s *)
Fixpoint eval (n : Z) (s : list Z) (e : hexpr) : option Z :=
  match e with
  | HConst c => Some c
  | HN => Some n
  | HByte i => nth_z s i
  | HShr a k => obind (eval n s a) (fun x => if k <? 0 then None else Some (Z.shiftr x k))
  | HShl a k => obind (eval n s a) (fun x => if k <? 0 then None else Some (wrap_ty (ty_of a) (Z.shiftl x k)))
  | HAnd a b => obind (eval n s a) (fun x => obind (eval n s b) (fun y => Some (wrap_ty (ty_of e) (Z.land x y))))
  | HAdd a b => obind (eval n s a) (fun x => obind (eval n s b) (fun y => Some (wrap_ty (ty_of e) (x + y))))
  | HSub a b => obind (eval n s a) (fun x => obind (eval n s b) (fun y => Some (wrap_ty (ty_of e) (x - y))))
  | HMul a b => obind (eval n s a) (fun x => obind (eval n s b) (fun y => Some (wrap_ty (ty_of e) (x * y))))
  | HConv t a => obind (eval n s a) (fun x => Some (wrap_ty (Some t) x))
  end.

(* ------------------------------------------------------------------ encoders *)
Inductive hcmp := CLe (c : Z) | CLt (c : Z).      (* n <= c, n < c *)

Inductive ebody :=
| EBRetRune (e : hexpr)                            (* return string(rune(e)) *)
| EBRetBytes (l : list hexpr)                      (* return string([]byte{...}) *)
| EBHdr (len : Z) (asg : list (Z * hexpr)).        (* s = make([]byte, len, ..); s[k] = e; ... *)

Record echain := { ec_br : list (hcmp * ebody); ec_else_panic : bool }.

(* what the chain does for a given n: returns a complete string, leaves the header in s,
   panics, or is not a chain this development gives a meaning to *)
Inductive eout := ORet (l : list Z) | OHdr (l : list Z) | OPanic | OBad.

Definition cmp_bound (c : hcmp) : Z := match c with CLe b => b | CLt b => b - 1 end.

Fixpoint eval_list (n : Z) (l : list hexpr) : option (list Z) :=
  match l with
  | [] => Some []
  | e :: r => obind (eval n [] e) (fun v => obind (eval_list n r) (fun vs => Some (v :: vs)))
  end.

Fixpoint eval_asg (n : Z) (asg : list (Z * hexpr)) (arr : list Z) : option (list Z) :=
  match asg with
  | [] => Some arr
  | (k, e) :: r =>
    obind (eval n [] e) (fun v =>
    match upd_ arr k v with
    | Ok arr' => eval_asg n r arr'
    | _ => None
    end)
  end.

Definition eval_body (n : Z) (b : ebody) : eout :=
  match b with
  | EBRetRune e =>
    match eval n [] e with
    (* string(rune(v)) is the one byte v for 0 <= v < 128; longer UTF-8 forms are not given a meaning *)
    | Some v => if (0 <=? v) && (v <? 128) then ORet [v] else OBad
    | None => OBad
    end
  | EBRetBytes l => match eval_list n l with Some vs => ORet vs | None => OBad end
  | EBHdr L asg =>
    if L <? 0 then OBad else
    match eval_asg n asg (repeat 0 (Z.to_nat L)) with Some arr => OHdr arr | None => OPanic end
  end.

Fixpoint eval_branches (n : Z) (brs : list (hcmp * ebody)) (else_panic : bool) : eout :=
  match brs with
  | [] => if else_panic then OPanic else OBad
  | (c, b) :: r => if n <=? cmp_bound c then eval_body n b else eval_branches n r else_panic
  end.

Definition eval_echain (c : echain) (n : Z) : eout := eval_branches n (ec_br c) (ec_else_panic c).

(* ------------------------------------------------------------------ decoders *)
Inductive dcond :=
| DByteNe (i c : Z) | DByteEq (i c : Z)
| DLenLt (k : Z) | DLenLe (k : Z) | DLenGt (k : Z) | DLenGe (k : Z).

Inductive dtree :=
| DIf (c : dcond) (t e : dtree)
| DErr                                              (* return ..., error *)
| DSet (e : hexpr) (i : Z) (maxn : bool).
  (* n = e; i = <i>; and, when maxn:  MaxN := 0.5 + math.Sqrt(2*float64(maxInt)+0.25);
     if float64(n) > MaxN { return error }  -- which is n > 4294967296, see Codec/Model.v *)

Definition eval_dcond (s : list Z) (c : dcond) : option bool :=
  match c with
  | DByteNe i c => obind (nth_z s i) (fun v => Some (negb (v =? c)))
  | DByteEq i c => obind (nth_z s i) (fun v => Some (v =? c))
  | DLenLt k => Some (len s <? k)
  | DLenLe k => Some (len s <=? k)
  | DLenGt k => Some (k <? len s)
  | DLenGe k => Some (k <=? len s)
  end.

(* result as for [dec_size]: Ok (n, cursor) | Err | Panic *)
Fixpoint eval_dtree (s : list Z) (t : dtree) : res (Z * Z) :=
  match t with
  | DIf c a b =>
    match eval_dcond s c with
    | Some true => eval_dtree s a
    | Some false => eval_dtree s b
    | None => Panic
    end
  | DErr => Err
  | DSet e i maxn =>
    match eval 0 s e with
    | Some v => if maxn && (4294967296 <? v) then Err else Ok (v, i)
    | None => Panic
    end
  end.
