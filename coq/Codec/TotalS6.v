(* C08 for Sparse6Decode: on every string the decoder returns an error or a well-formed sparse
   graph on the declared number of vertices — never a panic, never out of fuel. *)
From Coq Require Import List ZArith Bool Arith Lia Sorted.
From Mamba Require Import Codec.Model Codec.Spec Codec.BitLemmas Codec.G6Header Codec.G6Proofs
  Codec.S6Decode Codec.TotalG6.
Import ListNotations.
Open Scope Z_scope.

(* ------------------------------------------------------------------ the order on edges *)
Definition plt (a b : Z * Z) : Prop := pair_lt a b = true.

Lemma plt_spec : forall a b, plt a b <-> (fst a < fst b \/ (fst a = fst b /\ snd a < snd b)).
Proof.
  intros a b. unfold plt, pair_lt. rewrite orb_true_iff, andb_true_iff, !Z.ltb_lt, Z.eqb_eq. reflexivity.
Qed.

Lemma plt_trans : forall a b c, plt a b -> plt b c -> plt a c.
Proof. intros a b c. rewrite !plt_spec. lia. Qed.

Lemma pair_eq_spec : forall a b, pair_eq a b = true <-> a = b.
Proof.
  intros [a1 a2] [b1 b2]. unfold pair_eq. cbn [fst snd]. rewrite andb_true_iff, !Z.eqb_eq.
  split; [intros [-> ->]; reflexivity|intros E; injection E; auto].
Qed.

Lemma plt_total : forall a b, pair_lt a b = false -> pair_eq b a = false -> plt b a.
Proof.
  intros [a1 a2] [b1 b2] H1 H2. apply plt_spec. unfold pair_lt, pair_eq in *. cbn [fst snd] in *.
  apply orb_false_iff in H1. destruct H1 as [H1 H1']. apply Z.ltb_ge in H1.
  destruct (Z.eqb_spec a1 b1) as [E|E].
  - subst. cbn [andb] in H1'. apply Z.ltb_ge in H1'. rewrite Z.eqb_refl in H2. cbn [andb] in H2.
    apply Z.eqb_neq in H2. lia.
  - lia.
Qed.

(* descending *)
Definition desc := StronglySorted (fun a b => plt b a).
(* ascending *)
Definition asc := StronglySorted plt.

Lemma insert_in : forall e l x, In x (insert e l) -> x = e \/ In x l.
Proof.
  intros e. induction l as [|h t IH]; intros x H.
  - cbn in H. destruct H as [<-|[]]. left. reflexivity.
  - cbn [insert] in H. destruct (pair_lt h e).
    + destruct H as [<-|H]; [left; reflexivity|right; exact H].
    + destruct (pair_eq e h); [right; exact H|].
      destruct H as [<-|H]; [right; left; reflexivity|].
      destruct (IH _ H) as [E|E]; [left; exact E|right; right; exact E].
Qed.

Lemma insert_desc : forall e l, desc l -> desc (insert e l).
Proof.
  intros e. induction l as [|h t IH]; intros H.
  - cbn. constructor; constructor.
  - cbn [insert]. inversion H as [|? ? Ht Hh]; subst.
    destruct (pair_lt h e) eqn:E1.
    + constructor; [exact H|]. constructor; [exact E1|].
      eapply Forall_impl; [|exact Hh]. cbn beta. intros a Ha. eapply plt_trans; [exact Ha|exact E1].
    + destruct (pair_eq e h) eqn:E2; [exact H|].
      constructor; [apply IH, Ht|].
      apply Forall_forall. intros x Hx. destruct (insert_in _ _ _ Hx) as [->|Hx'].
      * apply plt_total; assumption.
      * rewrite Forall_forall in Hh. apply Hh, Hx'.
Qed.

Lemma insert_length : forall e l, (length (insert e l) <= S (length l))%nat.
Proof.
  intros e. induction l as [|h t IH]; [cbn; lia|].
  cbn [insert]. destruct (pair_lt h e); [cbn [length]; lia|]. destruct (pair_eq e h); cbn [length]; lia.
Qed.

Lemma desc_rev_asc : forall l, desc l -> asc (rev l).
Proof.
  induction l as [|a l IH]; intros H; [constructor|].
  inversion H as [|? ? Hl Ha]; subst. cbn [rev].
  assert (G : forall l1 x, asc l1 -> Forall (fun y => plt y x) l1 -> asc (l1 ++ [x])).
  { induction l1 as [|b l1 IH1]; intros x H1 H2; [constructor; constructor|].
    inversion H1; subst. inversion H2; subst. cbn [app]. constructor; [apply IH1; assumption|].
    apply Forall_app. split; [assumption|constructor; [assumption|constructor]]. }
  apply G; [apply IH, Hl|]. apply Forall_rev. exact Ha.
Qed.

(* ------------------------------------------------------------------ what the pairs of a string produce *)
Lemma s6_pairs_fuel_nonneg : forall k f bits, Forall (fun p => 0 <= snd p) (s6_pairs_fuel f k bits).
Proof.
  intros k. induction f as [|f IH]; intros bits; [constructor|].
  cbn [s6_pairs_fuel]. destruct bits as [|b r]; [constructor|].
  destruct (split_k k r) as [[x rest]|]; [|constructor].
  constructor; [apply val_bits_bound|apply IH].
Qed.

Lemma s6_pairs_fuel_length : forall k f bits, (length (s6_pairs_fuel f k bits) <= f)%nat.
Proof.
  intros k. induction f as [|f IH]; intros bits; [cbn; lia|].
  cbn [s6_pairs_fuel]. destruct bits as [|b r]; [cbn; lia|].
  destruct (split_k k r) as [[x rest]|]; [|cbn; lia]. cbn [length]. specialize (IH rest). lia.
Qed.

Lemma s6_edges_range : forall n ps v, 0 <= v -> Forall (fun p => 0 <= snd p) ps ->
  Forall (fun e => 0 <= snd e <= fst e /\ fst e < n) (s6_edges n v ps).
Proof.
  intros n. induction ps as [|[b x] ps IH]; intros v Hv Hp; [constructor|].
  inversion Hp; subst. cbn [snd] in *. cbn [s6_edges].
  set (v1 := if b then v + 1 else v). assert (0 <= v1) by (subst v1; destruct b; lia).
  destruct (Z.ltb_spec v1 x); [apply IH; [lia|assumption]|].
  destruct (Z.ltb_spec v1 n); [|apply IH; assumption].
  constructor; [cbn [fst snd]; lia|apply IH; assumption].
Qed.

Lemma s6_edges_length : forall n ps v, (length (s6_edges n v ps) <= length ps)%nat.
Proof.
  intros n. induction ps as [|[b x] ps IH]; intros v; [cbn; lia|].
  cbn [s6_edges length].
  destruct (_ <? x); [specialize (IH x); lia|].
  destruct (_ <? n); cbn [length]; [specialize (IH (if b then v + 1 else v)); lia|specialize (IH (if b then v + 1 else v)); lia].
Qed.

Definition edge_ok (n : Z) (e : Z * Z) : Prop := 0 <= snd e < fst e /\ fst e < n.

Lemma fold_norm_inv : forall n es el,
  Forall (fun e => 0 <= snd e <= fst e /\ fst e < n) es ->
  desc el -> Forall (edge_ok n) el ->
  desc (fold_left norm_step es el) /\ Forall (edge_ok n) (fold_left norm_step es el) /\
  (length (fold_left norm_step es el) <= length es + length el)%nat.
Proof.
  intros n. induction es as [|e es IH]; intros el He Hd Hf; [cbn; repeat split; auto; lia|].
  inversion He as [|? ? H1 H2]; subst. cbn [fold_left].
  assert (Hd' : desc (norm_step el e)).
  { unfold norm_step. destruct (fst e =? snd e); [exact Hd|apply insert_desc, Hd]. }
  assert (Hf' : Forall (edge_ok n) (norm_step el e)).
  { unfold norm_step. destruct (Z.eqb_spec (fst e) (snd e)); [exact Hf|].
    apply Forall_forall. intros x Hx. destruct (insert_in _ _ _ Hx) as [->|Hx'].
    - unfold edge_ok. cbn [fst snd]. lia.
    - rewrite Forall_forall in Hf. apply Hf, Hx'. }
  assert (Hl' : (length (norm_step el e) <= S (length el))%nat).
  { unfold norm_step. destruct (fst e =? snd e); [lia|apply insert_length]. }
  destruct (IH _ H2 Hd' Hf') as (A & B & C). repeat split; try assumption. cbn [length]. lia.
Qed.

(* ------------------------------------------------------------------ totality *)
(* the edge set of a well-formed SparseGraph on n vertices: pairs (v,x), 0 <= x < v < n, strictly
   ascending (no loop, no repeated edge) *)
Definition wf_sparse (n : Z) (el : list (Z * Z)) : Prop :=
  0 <= n /\ Forall (edge_ok n) el /\ asc el.

(* the vertex count a sparse6 string declares *)
Definition s6_declared (s : list Z) : option Z :=
  match s with
  | c :: r => if c =? 58 then declared r else None
  | [] => None
  end.

Lemma s6_result_cases : forall s,
  s6_result s = Err \/
  exists n el, s6_result s = Ok (n, el) /\ wf_sparse n el /\ s6_declared s = Some n /\
               (length el <= 6 * length s)%nat.
Proof.
  intros s. unfold s6_result, s6_spec_decode, s6_declared, declared.
  destruct s as [|c r]; [left; reflexivity|].
  destruct (c =? 58); cbn [negb]; [|left; reflexivity].
  destruct (forallb in_range r) eqn:Hr; cbn [negb]; [|left; reflexivity].
  apply forallb_in_range in Hr.
  destruct (spec_read_N r) as [[n d]|] eqn:ER; [|left; reflexivity].
  right. eexists. eexists. split; [reflexivity|].
  assert (Hne : r <> []) by (intros ->; discriminate).
  pose proof (dec_size_refines false r Hr Hne) as HD. rewrite ER in HD. destruct HD as [Hn HD].
  cbn [andb] in HD. destruct HD as (i & _ & Hd & _).
  set (ps := s6_pairs (s6_k n) (unpack6 d)).
  assert (Hps : Forall (fun p => 0 <= snd p) ps) by apply s6_pairs_fuel_nonneg.
  pose proof (s6_edges_range n ps 0 ltac:(lia) Hps) as He.
  destruct (fold_norm_inv n (s6_edges n 0 ps) [] He ltac:(constructor) ltac:(constructor)) as (A & B & C).
  split; [|split; [reflexivity|]].
  - split; [lia|]. unfold norm. split; [apply Forall_rev, B|apply desc_rev_asc, A].
  - unfold norm. rewrite rev_length.
    pose proof (s6_edges_length n ps 0). pose proof (s6_pairs_fuel_length (s6_k n) (length (unpack6 d)) (unpack6 d)).
    fold (s6_pairs (s6_k n) (unpack6 d)) in H0. fold ps in H0.
    rewrite unpack6_length in H0. rewrite Hd, skipn_length in H0. cbn [length] in *. lia.
Qed.

(* Sparse6Decode: an error or a well-formed graph on the declared number of vertices, for every
   string (the property's bound n <= 4096 is needed for bounded allocation only, which the model
   does not represent). *)
Theorem sparse6_decode_total : forall s0, let s := strip hdr_sparse6 s0 in
  sparse6_decode s0 = Err \/
  exists n el, sparse6_decode s0 = Ok (n, el) /\ wf_sparse n el /\ s6_declared s = Some n /\
               (length el <= 6 * length s0)%nat.
Proof.
  intros s0 s. rewrite sparse6_decode_refines. fold s.
  destruct (s6_result_cases s) as [E|(n & el & E & W & D & L)]; [left; exact E|].
  right. exists n, el. repeat split; try assumption; try apply W.
  pose proof (strip_len hdr_sparse6 s0). fold s in H. unfold len in H. lia.
Qed.

Theorem sparse6_decode_no_panic : forall s0,
  sparse6_decode s0 <> Panic /\ sparse6_decode s0 <> OutOfFuel.
Proof.
  intros s0. destruct (sparse6_decode_total s0) as [E|(n & el & E & _)]; rewrite E; split; discriminate.
Qed.
