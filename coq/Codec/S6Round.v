(* Sparse6Encode, part 2: read by the format text, the string Sparse6Encode returns denotes
   exactly the edges of the graph, in order — in particular the padding is never read as an
   edge or a loop (the n = 2,4,8,16 exception) — and Sparse6Decode gives the graph back. *)
From Coq Require Import List ZArith Bool Arith Lia.
From Mamba Require Import Codec.Model Codec.Spec Codec.BitLemmas Codec.G6Header Codec.G6Proofs
  Codec.S6Decode Codec.S6Encode.
Import ListNotations.
Open Scope Z_scope.

Local Ltac dm := Z.div_mod_to_equations.

Definition zpair (e : nat * nat) : Z * Z := (Z.of_nat (fst e), Z.of_nat (snd e)).
(* the edges {i,u}, u < i, in the order (1,0),(2,0),(2,1),(3,0),... *)
Definition edgesZ (g : graph) : list (Z * Z) := map zpair (edges_lt g).

(* ------------------------------------------------------------------ reading ':' N(n) R(B) by the format *)
Lemma s6_spec_decode_bits : forall n B, 0 <= n <= 68719476735 -> (length B mod 6 = 0)%nat ->
  s6_spec_decode (58 :: spec_N n ++ pack6 B) = Some (n, s6_edges n 0 (s6_pairs (s6_k n) B)).
Proof.
  intros n B Hn HB. unfold s6_spec_decode. change (58 =? 58) with true. cbn [negb].
  assert (Hr : forallb in_range (spec_N n ++ pack6 B) = true).
  { apply forallb_in_range, Forall_app. split; [apply spec_N_range; lia|apply pack6_range]. }
  rewrite Hr. cbn [negb]. rewrite spec_read_N_spec_N by lia.
  rewrite unpack6_pack6. unfold pad6. rewrite HB. cbn [Nat.sub Nat.modulo Nat.divmod fst snd repeat].
  rewrite app_nil_r. reflexivity.
Qed.

(* ------------------------------------------------------------------ the pairs of a token sequence *)
Lemma s6_pairs_toks : forall k toks rest, Forall (fun t => 0 <= snd t < 2 ^ Z.of_nat k) toks ->
  s6_pairs k (flat_map (tok_bits k) toks ++ rest) = toks ++ s6_pairs k rest.
Proof.
  intros k. induction toks as [|t toks IH]; intros rest H; [reflexivity|].
  inversion H as [|? ? Ht Hts]; subst. cbn [flat_map]. unfold tok_bits at 1. cbn [app].
  rewrite s6_pairs_cons, <- app_assoc.
  destruct (Nat.ltb_spec (length (bits_be k (snd t) ++ flat_map (tok_bits k) toks ++ rest)) k) as [Hlt|_].
  { rewrite app_length, bits_be_length in Hlt. lia. }
  rewrite firstn_app_exact, skipn_app_exact by apply bits_be_length.
  rewrite val_bits_be_small by exact Ht. rewrite IH by exact Hts.
  destruct t; reflexivity.
Qed.

(* ------------------------------------------------------------------ the edges of a token sequence *)
Fixpoint rows_ok (n v : nat) (es : list (nat * nat)) : Prop :=
  match es with
  | [] => True
  | e :: r => (v <= fst e)%nat /\ (snd e < fst e)%nat /\ (fst e < n)%nat /\ rows_ok n (fst e) r
  end.

Lemma rows_ok_app : forall n l1 l2 v, rows_ok n v l1 -> rows_ok n (final_v v l1) l2 -> rows_ok n v (l1 ++ l2).
Proof.
  intros n. induction l1 as [|e l1 IH]; intros l2 v H1 H2; [exact H2|].
  cbn [app rows_ok] in *. destruct H1 as (A & B & C & D). repeat split; try assumption.
  apply IH; [exact D|]. rewrite final_v_cons in H2. exact H2.
Qed.

Lemma rows_ok_row : forall n i us v, (v <= i)%nat -> (i < n)%nat -> Forall (fun u => (u < i)%nat) us ->
  rows_ok n v (map (fun u => (i, u)) us).
Proof.
  intros n i. induction us as [|u us IH]; intros v Hv Hi Hu; [exact I|].
  inversion Hu; subst. cbn [map rows_ok fst snd]. repeat split; try lia. apply IH; [lia|exact Hi|assumption].
Qed.

Lemma final_v_row : forall i us v, final_v v (map (fun u => (i, u)) us) = match us with [] => v | _ => i end.
Proof.
  intros i. induction us as [|u us IH]; intros v; [reflexivity|].
  cbn [map]. rewrite final_v_cons, IH. cbn [fst]. destruct us; reflexivity.
Qed.

Definition rows_from (g : graph) (a len : nat) : list (nat * nat) :=
  flat_map (fun i => map (fun u => (i, u)) (row g i)) (seq a len).

Lemma row_lt : forall g i, Forall (fun u => (u < i)%nat) (row g i).
Proof.
  intros g i. apply Forall_forall. intros u Hu. apply filter_In in Hu. destruct Hu as [Hu _]. apply in_seq in Hu. lia.
Qed.

Lemma rows_from_S : forall g a len, rows_from g a (S len) = map (fun u => (a, u)) (row g a) ++ rows_from g (S a) len.
Proof. reflexivity. Qed.

Lemma rows_from_snoc : forall g a len,
  rows_from g a (S len) = rows_from g a len ++ map (fun u => ((a + len)%nat, u)) (row g (a + len)).
Proof.
  intros g a len. unfold rows_from. rewrite seq_S, flat_map_app. cbn [flat_map]. rewrite app_nil_r. reflexivity.
Qed.

Lemma rows_ok_from : forall g len a v, (v <= a)%nat -> (a + len <= gn g)%nat ->
  rows_ok (gn g) v (rows_from g a len).
Proof.
  intros g. induction len as [|len IH]; intros a v Hv Ha; [exact I|].
  rewrite rows_from_S. apply rows_ok_app.
  - apply rows_ok_row; [exact Hv|lia|apply row_lt].
  - apply IH; [|lia]. rewrite final_v_row. destruct (row g a); lia.
Qed.

(* the last row with an edge: either the initial pointer or a row of the range *)
Lemma final_v_from : forall g len a v,
  final_v v (rows_from g a len) = v \/ (a <= final_v v (rows_from g a len) < a + len)%nat.
Proof.
  intros g. induction len as [|len IH]; intros a v; [left; reflexivity|].
  rewrite rows_from_snoc, final_v_app, final_v_row.
  destruct (row g (a + len)); [|right; lia].
  destruct (IH a v) as [E|E]; [left; exact E|right; lia].
Qed.

Lemma toks_bound : forall n es v, rows_ok n v es ->
  Forall (fun t => 0 <= snd t < Z.of_nat n) (enc_toks v es).
Proof.
  intros n. induction es as [|e r IH]; intros v H; [constructor|].
  cbn [rows_ok] in H. destruct H as (A & B & C & D). cbn [enc_toks]. apply Forall_app. split; [|apply IH, D].
  unfold edge_toks. destruct (fst e =? v)%nat; [|destruct (fst e =? v + 1)%nat];
    repeat constructor; cbn [snd]; lia.
Qed.

Lemma s6_edges_toks : forall n es v tail, rows_ok n v es ->
  s6_edges (Z.of_nat n) (Z.of_nat v) (enc_toks v es ++ tail) =
  map zpair es ++ s6_edges (Z.of_nat n) (Z.of_nat (final_v v es)) tail.
Proof.
  intros n. induction es as [|e r IH]; intros v tail H; [reflexivity|].
  cbn [rows_ok] in H. destruct H as (A & B & C & D).
  cbn [enc_toks map]. rewrite final_v_cons, <- app_assoc. unfold edge_toks, zpair at 1.
  destruct (Nat.eqb_spec (fst e) v) as [Ev|Nv].
  { cbn [app s6_edges].
    destruct (Z.ltb_spec (Z.of_nat v) (Z.of_nat (snd e))); [lia|].
    destruct (Z.ltb_spec (Z.of_nat v) (Z.of_nat n)); [|lia].
    rewrite <- Ev at 1. rewrite <- Ev at 1. rewrite (IH _ _ D). rewrite Ev. reflexivity. }
  destruct (Nat.eqb_spec (fst e) (v + 1)) as [Ev|Nv1].
  { cbn [app s6_edges].
    replace (Z.of_nat v + 1) with (Z.of_nat (fst e)) by lia.
    destruct (Z.ltb_spec (Z.of_nat (fst e)) (Z.of_nat (snd e))); [lia|].
    destruct (Z.ltb_spec (Z.of_nat (fst e)) (Z.of_nat n)); [|lia].
    rewrite (IH _ _ D). reflexivity. }
  cbn [app s6_edges].
  destruct (Z.ltb_spec (Z.of_nat v + 1) (Z.of_nat (fst e))); [|lia].
  destruct (Z.ltb_spec (Z.of_nat (fst e)) (Z.of_nat (snd e))); [lia|].
  destruct (Z.ltb_spec (Z.of_nat (fst e)) (Z.of_nat n)); [|lia].
  rewrite (IH _ _ D). reflexivity.
Qed.

(* ------------------------------------------------------------------ the padding is not an edge *)
(* pairs all of whose bits are 1 *)
Lemma s6_edges_ones : forall n X ps v, Forall (fun p => p = (true, X)) ps -> n - 1 <= v -> n - 1 <= X ->
  s6_edges n v ps = [].
Proof.
  intros n X. induction ps as [|p ps IH]; intros v Hp Hv HX; [reflexivity|].
  inversion Hp; subst. cbn [s6_edges].
  destruct (Z.ltb_spec (v + 1) X).
  - apply IH; [assumption|lia|lia].
  - destruct (Z.ltb_spec (v + 1) n); [lia|]. apply IH; [assumption|lia|lia].
Qed.

Lemma val_bits_ones : forall k acc, val_bits (repeat true k) acc = (acc + 1) * 2 ^ Z.of_nat k - 1.
Proof.
  induction k as [|k IH]; intros acc.
  - cbn [repeat val_bits]. change (2 ^ Z.of_nat 0) with 1. lia.
  - cbn [repeat val_bits]. rewrite IH, Nat2Z.inj_succ, Z.pow_succ_r by lia. ring.
Qed.

Lemma firstn_repeat : forall {A} (a : A) k m, (k <= m)%nat -> firstn k (repeat a m) = repeat a k.
Proof.
  intros A a. induction k as [|k IH]; intros m H; [reflexivity|].
  destruct m as [|m]; [lia|]. cbn [repeat firstn]. f_equal. apply IH. lia.
Qed.

Lemma skipn_repeat : forall {A} (a : A) k m, skipn k (repeat a m) = repeat a (m - k).
Proof.
  intros A a. induction k as [|k IH]; intros m; [rewrite Nat.sub_0_r; reflexivity|].
  destruct m as [|m]; [reflexivity|]. cbn [repeat skipn Nat.sub]. apply IH.
Qed.

(* the pairs of a run of 1-bits *)
Lemma s6_pairs_ones : forall k m, Forall (fun p => p = (true, 2 ^ Z.of_nat k - 1)) (s6_pairs k (repeat true m)).
Proof.
  intros k m. induction m as [m IH] using lt_wf_ind.
  destruct m as [|m]; [constructor|]. cbn [repeat]. rewrite s6_pairs_cons, repeat_length.
  destruct (Nat.ltb_spec m k); [constructor|].
  rewrite firstn_repeat, skipn_repeat, val_bits_ones by lia. constructor.
  - f_equal. lia.
  - apply IH. lia.
Qed.

Lemma neighbours_row : forall g i, simple g -> (i < gn g)%nat ->
  exists rest, neighbours g i = row g i ++ rest /\ Forall (fun u => (i < u)%nat) rest.
Proof.
  intros g i [_ Hirr] Hi. unfold neighbours, row.
  replace (gn g) with (i + (1 + (gn g - i - 1)))%nat by lia.
  rewrite seq_app, filter_app, (seq_app 1), filter_app. cbn [seq filter Nat.add]. rewrite Hirr. cbn [app].
  eexists. split; [reflexivity|].
  apply Forall_forall. intros u Hu. apply filter_In in Hu. destruct Hu as [Hu _]. apply in_seq in Hu. lia.
Qed.

(* the last vertex has no neighbour and the one before it has: the vertex pointer ends on n-2 *)
Lemma final_v_exc : forall g, simple g -> (2 <= gn g)%nat ->
  (0 <? len (neighbours g (gn g - 2))) && (len (neighbours g (gn g - 1)) =? 0) = true ->
  final_v 0 (edges_lt g) = (gn g - 2)%nat.
Proof.
  intros g Hs Hn H. apply andb_true_iff in H. destruct H as [H2 H1].
  apply Z.ltb_lt in H2. apply Z.eqb_eq in H1.
  destruct (neighbours_row g (gn g - 1) Hs ltac:(lia)) as (r1 & E1 & _).
  destruct (neighbours_row g (gn g - 2) Hs ltac:(lia)) as (r2 & E2 & F2).
  assert (R1 : row g (gn g - 1) = []).
  { rewrite E1 in H1. unfold len in H1. rewrite app_length in H1. destruct (row g (gn g - 1)); [reflexivity|cbn [length] in H1; lia]. }
  (* a neighbour of n-2 is below n-2: it is not n-1, which has no neighbour *)
  assert (R2 : row g (gn g - 2) <> []).
  { intros R2. rewrite R2 in E2. cbn [app] in E2. rewrite E2 in H2.
    destruct r2 as [|u r2]; [cbn in H2; lia|].
    inversion F2; subst.
    assert (Hu : In u (neighbours g (gn g - 2))) by (rewrite E2; left; reflexivity).
    apply filter_In in Hu. destruct Hu as [Hu Ha]. apply in_seq in Hu.
    assert (u = gn g - 1)%nat by lia. subst u.
    destruct Hs as [Hsym _]. rewrite Hsym in Ha.
    assert (Hin : In (gn g - 2)%nat (neighbours g (gn g - 1))).
    { apply filter_In. split; [apply in_seq; lia|exact Ha]. }
    destruct (neighbours g (gn g - 1)); [destruct Hin|cbn in H1; lia]. }
  rewrite edges_lt_rows. change (flat_map _ (seq 0 (gn g))) with (rows_from g 0 (gn g)).
  replace (gn g) with (S (S (gn g - 2))) at 1 by lia.
  rewrite rows_from_snoc, final_v_app, final_v_row.
  replace (0 + S (gn g - 2))%nat with (gn g - 1)%nat by lia. rewrite R1.
  rewrite rows_from_snoc, final_v_app, final_v_row. cbn [Nat.add].
  destruct (row g (gn g - 2)); [congruence|reflexivity].
Qed.

(* conversely: the pointer ends on n-2 only in that situation *)
Lemma final_v_exc_inv : forall g, simple g -> (2 <= gn g)%nat -> edges_lt g <> [] ->
  final_v 0 (edges_lt g) = (gn g - 2)%nat ->
  (0 <? len (neighbours g (gn g - 2))) && (len (neighbours g (gn g - 1)) =? 0) = true.
Proof.
  intros g Hs Hn Hne Hf.
  rewrite edges_lt_rows in Hf, Hne. change (flat_map _ (seq 0 (gn g))) with (rows_from g 0 (gn g)) in Hf, Hne.
  replace (gn g) with (S (S (gn g - 2))) in Hf at 1 by lia.
  replace (gn g) with (S (S (gn g - 2))) in Hne at 1 by lia.
  rewrite rows_from_snoc, final_v_app, final_v_row in Hf.
  rewrite rows_from_snoc in Hne.
  replace (0 + S (gn g - 2))%nat with (gn g - 1)%nat in * by lia.
  destruct (row g (gn g - 1)) as [|x r] eqn:R1; [|lia].
  rewrite rows_from_snoc, final_v_app, final_v_row in Hf. rewrite rows_from_snoc in Hne. cbn [Nat.add] in *.
  destruct (row g (gn g - 2)) as [|y r'] eqn:R2.
  { exfalso. cbn [map] in Hne. rewrite !app_nil_r in Hne.
    destruct (final_v_from g (gn g - 2) 0 0) as [E|E]; [|lia].
    (* no row below n-2 either: then there is no edge at all *)
    destruct (rows_from g 0 (gn g - 2)) as [|e es] eqn:Er; [congruence|].
    assert (Hok : rows_ok (gn g) 0 (e :: es)) by (rewrite <- Er; apply rows_ok_from; lia).
    rewrite Hf in E. rewrite <- Er in Hf.
    (* final_v of a non-empty valid list is at least 1 *)
    assert (Hpos : forall l v, rows_ok (gn g) v l -> l <> [] -> (1 <= final_v v l)%nat).
    { induction l as [|a l IHl]; intros v Hl Hl0; [congruence|].
      cbn [rows_ok] in Hl. destruct Hl as (A & B & C & D). rewrite final_v_cons.
      destruct l as [|a' l']; [cbn; lia|]. apply IHl; [exact D|discriminate]. }
    specialize (Hpos _ 0%nat Hok ltac:(discriminate)). rewrite Er in Hf. lia. }
  destruct (neighbours_row g (gn g - 1) Hs ltac:(lia)) as (r1 & E1 & F1).
  destruct (neighbours_row g (gn g - 2) Hs ltac:(lia)) as (r2 & E2 & F2).
  apply andb_true_iff. split.
  - apply Z.ltb_lt. rewrite E2, R2. unfold len. cbn [app length]. lia.
  - apply Z.eqb_eq. rewrite E1, R1. cbn [app].
    destruct r1 as [|u r1]; [reflexivity|]. exfalso. inversion F1; subst.
    assert (Hu : In u (neighbours g (gn g - 1))) by (rewrite E1, R1; left; reflexivity).
    apply filter_In in Hu. destruct Hu as [Hu _]. apply in_seq in Hu. lia.
Qed.

Lemma pow2_small : forall k : nat, (1 <= k <= 4)%nat ->
  2 ^ Z.of_nat k = 2 \/ 2 ^ Z.of_nat k = 4 \/ 2 ^ Z.of_nat k = 8 \/ 2 ^ Z.of_nat k = 16.
Proof.
  intros k H. destruct k as [|[|[|[|[|k]]]]]; try lia; cbn; auto.
Qed.

Lemma s6_toks_nil : forall g, edges_lt g = [] -> s6_toks g = [].
Proof. intros g H. unfold s6_toks. rewrite H. reflexivity. Qed.

(* read from the final vertex pointer, the padding yields no edge *)
Lemma pad_no_edge : forall g, simple g -> 2 <= Z.of_nat (gn g) <= 68719476735 ->
  let n := Z.of_nat (gn g) in
  let L := flat_map (tok_bits (s6_k n)) (s6_toks g) in
  s6_edges n (Z.of_nat (final_v 0 (edges_lt g))) (s6_pairs (s6_k n) (s6_pad g L)) = [].
Proof.
  intros g Hs Hn n L. unfold s6_pad.
  destruct (Nat.eqb_spec (length L mod 6) 0) as [|Hr]; [reflexivity|].
  assert (Hne : edges_lt g <> []).
  { intros E. apply Hr. unfold L. rewrite (s6_toks_nil g E). reflexivity. }
  pose proof (Nat.mod_upper_bound (length L) 6 ltac:(lia)) as Hr6.
  set (r := (length L mod 6)%nat) in *.
  destruct (s6_k_bound n ltac:(lia)) as [[_ Hk2] Hk].
  set (k := s6_k n) in *. set (X := 2 ^ Z.of_nat k - 1).
  set (vf := final_v 0 (edges_lt g)).
  destruct (s6_exc g r) eqn:Eexc.
  - (* the exception: 0 then 1s *)
    unfold s6_exc in Eexc. fold n in Eexc. fold k in Eexc.
    apply andb_true_iff in Eexc. destruct Eexc as [E12 E3].
    apply andb_true_iff in E12. destruct E12 as [E1 E2]. apply Z.leb_le in E2.
    rewrite s6_pairs_cons, repeat_length.
    destruct (Nat.ltb_spec (6 - r - 1) k); [lia|].
    rewrite firstn_repeat, skipn_repeat, val_bits_ones by lia.
    replace ((0 + 1) * 2 ^ Z.of_nat k - 1) with X by (unfold X; lia).
    assert (HX : X = n - 1).
    { unfold X.
      assert (En : n = 2 \/ n = 4 \/ n = 8 \/ n = 16).
      { rewrite !orb_true_iff, !Z.eqb_eq in E1. tauto. }
      unfold k. destruct En as [En|[En|[En|En]]]; rewrite En; reflexivity. }
    assert (Hvf : vf = (gn g - 2)%nat) by (apply final_v_exc; [exact Hs|lia|exact E3]).
    cbn [s6_edges]. rewrite Hvf.
    destruct (Z.ltb_spec (Z.of_nat (gn g - 2)) X); [|lia].
    apply (s6_edges_ones n X); [apply s6_pairs_ones|lia|lia].
  - (* 1s only *)
    replace (6 - r)%nat with (S (6 - r - 1)) by lia. cbn [repeat].
    rewrite s6_pairs_cons, repeat_length.
    destruct (Nat.ltb_spec (6 - r - 1) k) as [|Hfit]; [reflexivity|].
    rewrite firstn_repeat, skipn_repeat, val_bits_ones by lia.
    replace ((0 + 1) * 2 ^ Z.of_nat k - 1) with X by (unfold X; lia).
    cbn [s6_edges].
    destruct (Z.ltb_spec (Z.of_nat vf + 1) X).
    { apply (s6_edges_ones n X); [apply s6_pairs_ones|lia|unfold X; lia]. }
    destruct (Z.ltb_spec (Z.of_nat vf + 1) n) as [Hbad|].
    2:{ apply (s6_edges_ones n X); [apply s6_pairs_ones|lia|unfold X; lia]. }
    (* v = n-2 and n = 2^k with room for a pair: the exception would have applied *)
    exfalso.
    assert (HX : X = n - 1) by (unfold X in *; lia).
    assert (Hpow : 2 ^ Z.of_nat k = n) by (unfold X in HX; lia).
    assert (Hk4 : (1 <= k <= 4)%nat) by lia.
    assert (Hvf : vf = (gn g - 2)%nat) by lia.
    pose proof (final_v_exc_inv g Hs ltac:(lia) Hne Hvf) as E3.
    unfold s6_exc in Eexc. fold n in Eexc. fold k in Eexc. rewrite E3 in Eexc.
    assert (E1 : (n =? 2) || (n =? 4) || (n =? 8) || (n =? 16) = true).
    { rewrite !orb_true_iff, !Z.eqb_eq. destruct (pow2_small k Hk4) as [Hq|[Hq|[Hq|Hq]]]; lia. }
    rewrite E1 in Eexc.
    assert (E2 : (Z.of_nat k + 1 <=? 6 - Z.of_nat r) = true) by (apply Z.leb_le; lia).
    rewrite E2 in Eexc. discriminate.
Qed.

(* ------------------------------------------------------------------ the string denotes the graph *)
Lemma edges_lt_small : forall g, (gn g <= 1)%nat -> edges_lt g = [].
Proof.
  intros g H. rewrite edges_lt_rows. destruct (gn g) as [|[|m]]; [reflexivity|reflexivity|lia].
Qed.

(* Read by the format text, the string Sparse6Encode returns is a sparse6 string for exactly
   the graph g: n and the edges {i,u}, each once, in ascending order. *)
Theorem sparse6_encode_valid : forall g s, simple g -> Z.of_nat (gn g) <= 68719476735 ->
  gm g < 100000000000000000 -> sparse6_encode g = Ok s ->
  s6_spec_decode s = Some (Z.of_nat (gn g), edgesZ g).
Proof.
  intros g s Hs Hn Hm E.
  destruct (Z.leb_spec (Z.of_nat (gn g)) 1) as [H1|H1].
  { unfold edgesZ. rewrite edges_lt_small by lia. unfold sparse6_encode in E.
    destruct (Z.leb_spec (Z.of_nat (gn g)) 1); [|lia]. injection E as <-.
    destruct (gn g) as [|[|m]]; [reflexivity|reflexivity|lia]. }
  destruct (sparse6_encode_bits g Hs ltac:(lia) Hm) as [E' Hmod]. rewrite E' in E. injection E as <-.
  rewrite s6_spec_decode_bits by (try exact Hmod; lia). do 2 f_equal.
  set (n := Z.of_nat (gn g)) in *. unfold s6_bits. fold n.
  destruct (s6_k_bound n ltac:(lia)) as [[_ Hk2] _].
  assert (Hok : rows_ok (gn g) 0 (edges_lt g)).
  { rewrite edges_lt_rows. apply (rows_ok_from g (gn g) 0 0); lia. }
  rewrite s6_pairs_toks.
  2:{ unfold s6_toks. eapply Forall_impl; [|apply (toks_bound _ _ _ Hok)]. cbn beta. intros t Ht. fold n in Ht. lia. }
  unfold s6_toks. change 0 with (Z.of_nat 0). unfold n at 1.
  rewrite (s6_edges_toks _ _ _ _ Hok). fold n.
  pose proof (pad_no_edge g Hs ltac:(lia)) as Hp. cbv zeta in Hp. fold n in Hp. unfold s6_toks in Hp.
  rewrite Hp, app_nil_r. reflexivity.
Qed.

Theorem sparse6_encode_ok : forall g, simple g -> Z.of_nat (gn g) <= 68719476735 ->
  gm g < 100000000000000000 ->
  exists s, sparse6_encode g = Ok s /\ Forall (fun c => 63 <= c <= 126) (tl s) /\ hd 0 s = 58.
Proof.
  intros g Hs Hn Hm.
  destruct (Z.leb_spec (Z.of_nat (gn g)) 1) as [H1|H1].
  { unfold sparse6_encode. destruct (Z.leb_spec (Z.of_nat (gn g)) 1); [|lia].
    eexists. split; [reflexivity|]. cbn [tl hd]. split; [|reflexivity].
    destruct (gn g) as [|[|m]]; [repeat constructor; cbn; lia|repeat constructor; cbn; lia|lia]. }
  destruct (sparse6_encode_bits g Hs ltac:(lia) Hm) as [E' _].
  eexists. split; [exact E'|]. cbn [tl hd]. split; [|reflexivity].
  apply Forall_app. split; [apply spec_N_range; lia|apply pack6_range].
Qed.

Theorem sparse6_encode_panic : forall g, 68719476735 < Z.of_nat (gn g) -> sparse6_encode g = Panic.
Proof.
  intros g Hn. unfold sparse6_encode.
  destruct (Z.leb_spec (Z.of_nat (gn g)) 1); [lia|]. rewrite enc_size_panic by lia. reflexivity.
Qed.

(* ------------------------------------------------------------------ the edge list is already normal *)
Fixpoint asc_from (p : Z * Z) (es : list (Z * Z)) : Prop :=
  match es with
  | [] => True
  | e :: r => pair_lt p e = true /\ asc_from e r
  end.

Lemma asc_app : forall l1 l2 p, asc_from p l1 -> asc_from (last l1 p) l2 -> asc_from p (l1 ++ l2).
Proof.
  induction l1 as [|e l1 IH]; intros l2 p H1 H2; [exact H2|].
  cbn [app asc_from] in *. destruct H1 as [A B]. split; [exact A|]. apply IH; [exact B|].
  rewrite last_cons in H2. exact H2.
Qed.

Lemma pair_lt_spec : forall a b, pair_lt a b = true <-> (fst a < fst b \/ (fst a = fst b /\ snd a < snd b)).
Proof.
  intros a b. unfold pair_lt. rewrite orb_true_iff, andb_true_iff, !Z.ltb_lt, Z.eqb_eq. reflexivity.
Qed.

Lemma asc_filter_seq : forall (f : nat -> bool) (i : nat) len a p,
  (fst p < Z.of_nat i \/ (fst p = Z.of_nat i /\ snd p < Z.of_nat a)) ->
  asc_from p (map zpair (map (fun u => (i, u)) (filter f (seq a len)))).
Proof.
  intros f i. induction len as [|len IH]; intros a p H; [exact I|].
  cbn [seq filter]. destruct (f a).
  - cbn [map asc_from]. split.
    + apply pair_lt_spec. unfold zpair. cbn [fst snd]. exact H.
    + apply IH. right. unfold zpair. cbn [fst snd]. lia.
  - apply IH. destruct H as [H|[H1 H2]]; [left; exact H|right; lia].
Qed.

Lemma last_in : forall {A} (l : list A) d, last l d = d \/ In (last l d) l.
Proof.
  intros A l. induction l as [|a l IH]; intros d; [left; reflexivity|].
  rewrite last_cons. destruct (IH a) as [E|E]; right; [rewrite E; left; reflexivity|right; exact E].
Qed.

Lemma asc_rows_from : forall g len a p, fst p < Z.of_nat a -> asc_from p (map zpair (rows_from g a len)).
Proof.
  intros g. induction len as [|len IH]; intros a p H; [exact I|].
  rewrite rows_from_S, map_app. apply asc_app.
  - apply asc_filter_seq. left. exact H.
  - apply IH. destruct (last_in (map zpair (map (fun u => (a, u)) (row g a))) p) as [E|E]; [rewrite E; lia|].
    apply in_map_iff in E. destruct E as (e & <- & E). apply in_map_iff in E. destruct E as (u & <- & _).
    unfold zpair. cbn [fst]. lia.
Qed.

Lemma fold_norm_asc : forall es el p, asc_from p es -> Forall (fun e => snd e < fst e) es ->
  (el = [] \/ exists t, el = p :: t) ->
  fold_left norm_step es el = rev es ++ el.
Proof.
  induction es as [|e r IH]; intros el p Ha Hf Hel; [reflexivity|].
  cbn [asc_from] in Ha. destruct Ha as [A B]. inversion Hf as [|? ? He Hr]; subst.
  cbn [fold_left rev]. rewrite <- app_assoc. cbn [app].
  assert (Hstep : norm_step el e = e :: el).
  { unfold norm_step. destruct (Z.eqb_spec (fst e) (snd e)); [lia|].
    rewrite Z.max_l, Z.min_r by lia. rewrite <- surjective_pairing.
    destruct Hel as [->|[t ->]]; [reflexivity|]. cbn [insert]. rewrite A. reflexivity. }
  rewrite Hstep. apply (IH _ e); [exact B|exact Hr|right; eauto].
Qed.

Lemma edgesZ_lt : forall g, Forall (fun e => 0 <= snd e < fst e /\ fst e < Z.of_nat (gn g)) (edgesZ g).
Proof.
  intros g. unfold edgesZ.
  assert (Hok : rows_ok (gn g) 0 (edges_lt g)).
  { rewrite edges_lt_rows. apply (rows_ok_from g (gn g) 0 0); lia. }
  revert Hok. generalize 0%nat. induction (edges_lt g) as [|e r IH]; intros v H; [constructor|].
  cbn [rows_ok] in H. destruct H as (A & B & C & D). cbn [map]. constructor; [|apply (IH _ D)].
  unfold zpair. cbn [fst snd]. lia.
Qed.

Lemma edgesZ_asc : forall g, asc_from (-1, -1) (edgesZ g).
Proof.
  intros g. unfold edgesZ. rewrite edges_lt_rows. apply (asc_rows_from g (gn g) 0). cbn. lia.
Qed.

Lemma norm_edgesZ : forall g, norm (edgesZ g) = edgesZ g.
Proof.
  intros g. unfold norm. rewrite (fold_norm_asc _ [] (-1, -1)).
  - rewrite app_nil_r. apply rev_involutive.
  - apply edgesZ_asc.
  - eapply Forall_impl; [|apply edgesZ_lt]. cbn beta. intros e H. lia.
  - left. reflexivity.
Qed.

(* ------------------------------------------------------------------ round trip *)
Lemma strip_sparse : forall s, strip hdr_sparse6 (58 :: s) = 58 :: s.
Proof. reflexivity. Qed.

Lemma strip_sparse_hdr : forall s, strip hdr_sparse6 (hdr_sparse6 ++ s) = s.
Proof. intros s. apply strip_app. Qed.

(* Sparse6Decode(Sparse6Encode(g)) = g, with and without the optional header *)
Theorem sparse6_roundtrip : forall g s, simple g -> Z.of_nat (gn g) <= 68719476735 ->
  gm g < 100000000000000000 -> sparse6_encode g = Ok s ->
  sparse6_decode s = Ok (Z.of_nat (gn g), edgesZ g) /\
  sparse6_decode (hdr_sparse6 ++ s) = Ok (Z.of_nat (gn g), edgesZ g).
Proof.
  intros g s Hs Hn Hm E.
  pose proof (sparse6_encode_valid g s Hs Hn Hm E) as V.
  destruct (sparse6_encode_ok g Hs Hn Hm) as (s' & E' & _ & Hhd). rewrite E in E'. injection E' as <-.
  destruct s as [|c s]; [discriminate|]. cbn [hd] in Hhd. subst c.
  split.
  - rewrite sparse6_decode_refines, strip_sparse. unfold s6_result. rewrite V, norm_edgesZ. reflexivity.
  - rewrite sparse6_decode_refines, strip_sparse_hdr. unfold s6_result. rewrite V, norm_edgesZ. reflexivity.
Qed.
