(* The expected layout of the size headers, in the abstract forms of HeaderGenEnc / HeaderGenDec,
   and the proofs that this layout IS the hand-written model of Codec/Model.v:
     [x_g6_model], [x_s6_model]:  for all n >= 0 the expected encoder chain gives the first branch
        of graph6_encode / sparse6_encode (n <= 1) or [enc_size n] (58 :: enc_size n for sparse6);
     [x_dec_model]:  on every string of bytes in 63..126 the expected decoder tree is [dec_size].
   Also: the models of the four codec functions written with the header computation as a
   parameter ([graph6_encode_from] ...), so that "the model with the regenerated header code in
   the place of enc_size / dec_size is the model" can be stated.  Nothing here depends on the
   generated file. *)
From Coq Require Import List ZArith Bool Lia.
From Mamba Require Import Codec.Model Codec.G6Header Codec.HeaderGenSyntax Codec.HeaderGenEnc Codec.HeaderGenDec.
Import ListNotations.
Open Scope Z_scope.

(* ------------------------------------------------------------------ encoders *)
Definition f63 (sh : Z) : av := (sh, 6, 63).        (* ((n >> sh) & 63) + 63 *)
Definition k126 : av := (0, 0, 126).
Definition k58 : av := (0, 0, 58).

Definition x_g6 : list xbranch :=
  [ (1, true, [(0, 1, 63)]);
    (62, false, [f63 0]);
    (258047, false, [k126; f63 12; f63 6; f63 0]);
    (68719476735, false, [k126; k126; f63 30; f63 24; f63 18; f63 12; f63 6; f63 0]) ].

Definition x_s6 : list xbranch :=
  [ (1, true, [k58; (0, 1, 63)]);
    (62, false, [k58; f63 0]);
    (258047, false, [k58; k126; f63 12; f63 6; f63 0]);
    (68719476735, false, [k58; k126; k126; f63 30; f63 24; f63 18; f63 12; f63 6; f63 0]) ].

(* what the model does at the place of the chain *)
Definition model_g6_hdr (n : Z) : eout :=
  if n <=? 1 then ORet [n + 63]
  else match enc_size n with Ok h => OHdr h | _ => OPanic end.

Definition model_s6_hdr (n : Z) : eout :=
  if n <=? 1 then ORet [58; byte_of (n + 63)]
  else match enc_size n with Ok h => OHdr (58 :: h) | _ => OPanic end.

Lemma f63_val : forall n sh, 0 <= n -> 0 <= sh -> av_val (f63 sh) n = g63 n sh.
Proof.
  intros n sh Hn Hs. unfold f63, g63, badd, byte_of. cbn [av_val]. change (Z.ones 6) with 63.
  pose proof (land_ones_bounds (Z.shiftr n sh) 6 ltac:(lia)) as H. change (Z.ones 6) with 63 in H.
  change (2 ^ 6 - 1) with 63 in H.
  rewrite (Z.mod_small (Z.land (Z.shiftr n sh) 63)) by lia. rewrite Z.mod_small by lia. reflexivity.
Qed.

Lemma f63_0_small : forall n, 0 <= n <= 62 -> av_val (f63 0) n = byte_of (n + 63).
Proof.
  intros n Hn. unfold f63, byte_of. cbn [av_val]. rewrite Z.shiftr_0_r, Z.land_ones by lia.
  change (2 ^ 6) with 64. rewrite !Z.mod_small by lia. reflexivity.
Qed.

Lemma k_val : forall c n, av_val (0, 0, c) n = c.
Proof. intros c n. cbn [av_val]. rewrite land_ones_0. reflexivity. Qed.

Lemma bit1_val : forall n, 0 <= n <= 1 -> av_val (0, 1, 63) n = n + 63.
Proof.
  intros n Hn. cbn [av_val]. rewrite Z.shiftr_0_r, Z.land_ones by lia. change (2 ^ 1) with 2.
  rewrite Z.mod_small by lia. reflexivity.
Qed.

Lemma x_enc_model : forall n, 0 <= n ->
  eval_xbranches n x_g6 = model_g6_hdr n /\ eval_xbranches n x_s6 = model_s6_hdr n.
Proof.
  intros n Hn. unfold model_g6_hdr, model_s6_hdr, enc_size, x_g6, x_s6, k58, k126. cbn [eval_xbranches].
  destruct (Z.leb_spec n 1).
  { unfold xout. cbn [map]. rewrite bit1_val, !k_val by lia. unfold byte_of.
    rewrite Z.mod_small by lia. split; reflexivity. }
  destruct (Z.leb_spec n 62).
  { unfold xout. cbn [map]. rewrite f63_0_small, !k_val by lia. split; reflexivity. }
  destruct (Z.leb_spec n 258047).
  { unfold xout. cbn [map]. rewrite !f63_val, !k_val by lia. split; reflexivity. }
  destruct (Z.leb_spec n 68719476735).
  { unfold xout. cbn [map]. rewrite !f63_val, !k_val by lia. split; reflexivity. }
  split; reflexivity.
Qed.

(* the encoders' models with the header computation as a parameter *)
Definition graph6_encode_from (hdr : Z -> eout) (g : graph) : res (list Z) :=
  let n := Z.of_nat (gn g) in
  match hdr n with
  | ORet l => Ok l
  | OHdr hdr =>
    do u <- mk_cap (len hdr) (Z.quot (wrap64 (n * (n - 1))) 2);
    let w := fold_left (fun w i => fold_left (fun w j => bw_put false w (gadj g i j)) (seq 0 i) w)
                       (seq 1 (gn g - 1)) bw0 in
    let s := if (bw_pos w =? 0)%nat then bw_s w else badd (bw_b w) 63 :: bw_s w in
    Ok (hdr ++ rev s)
  | OPanic | OBad => Panic
  end.

Lemma enc_size_ok_or_panic : forall n, (exists h, enc_size n = Ok h) \/ enc_size n = Panic.
Proof.
  intros n. unfold enc_size.
  destruct (n <=? 62); [eauto|]. destruct (n <=? 258047); [eauto|]. destruct (n <=? 68719476735); eauto.
Qed.

Lemma graph6_encode_from_model : forall g, graph6_encode g = graph6_encode_from model_g6_hdr g.
Proof.
  intros g. unfold graph6_encode, graph6_encode_from, model_g6_hdr.
  destruct (Z.of_nat (gn g) <=? 1); [reflexivity|].
  destruct (enc_size_ok_or_panic (Z.of_nat (gn g))) as [[h E]|E]; rewrite E; reflexivity.
Qed.

Definition sparse6_encode_from (hdr : Z -> eout) (g : graph) : res (list Z) :=
  let n := Z.of_nat (gn g) in
  let k := Z.to_nat (bitlen (u64 (n - 1))) in
  match hdr n with
  | ORet l => Ok l
  | OHdr hdr =>
    do u <- mk_cap (len hdr) (wrap64 (wrap64 ((Z.of_nat k + 1) * 2) * gm g));
    let '(v, w) := fold_left (fun st i => s6_row k st i (neighbours g i)) (seq 1 (gn g - 1)) (O, bw0) in
    if (bw_pos w =? 0)%nat then Ok (hdr ++ rev (bw_s w)) else
    do pos <-
      (if ((n =? 2) || (n =? 4) || (n =? 8) || (n =? 16)) && (Z.of_nat k + 1 <=? 6 - Z.of_nat (bw_pos w)) then
         let d := degrees g in
         do d2 <- at_ d (n - 2);
         do d1 <- at_ d (n - 1);
         if (0 <? d2) && (d1 =? 0) then Ok (S (bw_pos w)) else Ok (bw_pos w)
       else Ok (bw_pos w));
    let b := fold_left (fun b j => badd b (byte_of (Z.shiftl 1 (5 - Z.of_nat j)))) (seq pos (6 - pos)) (bw_b w) in
    Ok (hdr ++ rev (badd b 63 :: bw_s w))
  | OPanic | OBad => Panic
  end.

Lemma len_cons : forall (a : Z) l, len (a :: l) = 1 + len l.
Proof. intros a l. unfold len. cbn [length]. lia. Qed.

Lemma sparse6_encode_from_model : forall g, sparse6_encode g = sparse6_encode_from model_s6_hdr g.
Proof.
  intros g. unfold sparse6_encode, sparse6_encode_from, model_s6_hdr.
  destruct (Z.of_nat (gn g) <=? 1); [reflexivity|].
  destruct (enc_size_ok_or_panic (Z.of_nat (gn g))) as [[h E]|E]; rewrite E; [|reflexivity].
  cbn [bind]. rewrite len_cons. reflexivity.
Qed.

(* ------------------------------------------------------------------ decoders *)
Definition x_dec (chk : bool) : xtree :=
  XIf (AByteNe 0 126)
    (XSet (-63) [1] 0 1 false)
    (XIf (ALenLt 4) XErr
      (XIf (AByteNe 1 126)
        (XSet (-63 * (4096 + 64 + 1)) [0; 4096; 64; 1] 3 4 false)
        (XIf (ALenLt 8) XErr
          (XSet (-63 * (1073741824 + 16777216 + 262144 + 4096 + 64 + 1))
                [0; 0; 1073741824; 16777216; 262144; 4096; 64; 1] 7 8 chk)))).

Lemma at_nth : forall s i, at_ s i = match nth_z s i with Some v => Ok v | None => Panic end.
Proof. intros s i. unfold at_, nth_z. destruct (i <? 0); reflexivity. Qed.

Lemma nth_z_0' : forall (a : Z) l i, i = 0 -> nth_z (a :: l) i = Some a.
Proof. intros a l i ->. reflexivity. Qed.

Lemma nth_z_S : forall (a : Z) l i, 0 < i -> nth_z (a :: l) i = nth_z l (i - 1).
Proof.
  intros a l i Hi. unfold nth_z.
  destruct (Z.ltb_spec i 0); [lia|]. destruct (Z.ltb_spec (i - 1) 0); [lia|].
  replace (Z.to_nat i) with (S (Z.to_nat (i - 1))) by lia. reflexivity.
Qed.

Ltac nz := repeat match goal with
  | |- context [nth_z (?a :: ?l) ?i] =>
    first [ rewrite (nth_z_0' a l i) by lia | rewrite (nth_z_S a l i) by lia ]
  end.

Ltac leb_len := match goal with
  | |- context [len ?s <=? ?k] =>
    let HL := fresh "HL" in
    destruct (Z.leb_spec (len s) k) as [HL|HL]; unfold len in HL; cbn [length] in HL; try (exfalso; lia); cbv iota
  end.

Ltac inv_range := repeat match goal with H : Forall _ (_ :: _) |- _ => inversion H; clear H; subst end.

Lemma x_dec_model : forall chk s, Forall inr s -> eval_xtree s (x_dec chk) = dec_size chk s.
Proof.
  intros chk s Hs. unfold x_dec, dec_size, inr in *.
  destruct s as [|c0 r]; [reflexivity|].
  cbn [eval_xtree eval_atom]. rewrite at_nth. nz. cbn [obind bind].
  destruct (Z.eqb_spec c0 126) as [E0|N0]; cbn [negb].
  2:{ leb_len. cbn [dot andb]. inv_range. rewrite bsub63 by lia. f_equal. f_equal. lia. }
  subst c0. len_case; [reflexivity|].
  destruct r as [|c1 [|c2 [|c3 r3]]]; try (exfalso; cbn [length] in HL; lia).
  rewrite at_nth. nz. cbn [obind bind].
  destruct (Z.eqb_spec c1 126) as [E1|N1]; cbn [negb].
  - subst c1. len_case; [reflexivity|].
    destruct r3 as [|c4 [|c5 [|c6 [|c7 r7]]]]; try (exfalso; cbn [length] in *; lia).
    repeat (rewrite at_nth; nz; cbn [obind bind]).
    leb_len. cbn [dot]. inv_range.
    rewrite !v6_val, !bsub63 by lia.
    change (2 ^ 30) with 1073741824. change (2 ^ 24) with 16777216. change (2 ^ 18) with 262144.
    change (2 ^ 12) with 4096. change (2 ^ 6) with 64.
    match goal with |- context [u64 (u64 ?a + ?b)] =>
      replace (u64 (u64 a + b)) with
        (-63 * (1073741824 + 16777216 + 262144 + 4096 + 64 + 1) +
         (0 * 126 + (0 * 126 + (1073741824 * c2 + (16777216 * c3 + (262144 * c4 + (4096 * c5 + (64 * c6 + (1 * c7 + 0))))))))) end.
    2:{ unfold u64. Z.div_mod_to_equations. lia. }
    reflexivity.
  - repeat (rewrite at_nth; nz; cbn [obind bind]).
    leb_len. cbn [dot andb]. inv_range.
    rewrite !v6_val, !bsub63 by lia.
    change (2 ^ 12) with 4096. change (2 ^ 6) with 64.
    f_equal. f_equal. unfold u64. Z.div_mod_to_equations. lia.
Qed.

(* the decoders' models with the header computation as a parameter *)
Definition graph6_decode_from (hdr : list Z -> res (Z * Z)) (s0 : list Z) : res (Z * list bool) :=
  let s := strip hdr_graph6 s0 in
  if negb (forallb in_range s) then Err else
  match s with
  | [] => Ok (0, [])
  | _ =>
    do ni <- hdr s;
    let (n, i) := ni in
    let t := u64 (n * u64 (n - 1)) / 2 in
    if len s <? i + Z.quot (s64 (u64 (t + 5))) 6 then Err else
    do edges <- g6_read s i (Z.to_nat t) 0;
    if negb (len edges =? Z.quot (s64 (u64 (s64 n * (s64 n - 1)))) 2) then Panic else
    Ok (n, edges)
  end.

Definition sparse6_decode_fuel_from (hdr : list Z -> res (Z * Z)) (fuel : nat) (s0 : list Z)
  : res (Z * list (Z * Z)) :=
  let s := strip hdr_sparse6 s0 in
  match s with
  | [] => Err
  | c :: s1 =>
    if negb (c =? 58) then Err else
    if negb (forallb in_range s1) then Err else
    match s1 with
    | [] => Err
    | _ =>
      do ni <- hdr s1;
      let (n, i) := ni in
      let k := if 1 <? n then Z.to_nat (bitlen (u64 (n - 1))) else O in
      do el <- s6_loop fuel s1 n k (6 * len s1) (6 * i) 0 [];
      Ok (n, rev el)
    end
  end.

Definition sparse6_decode_from (hdr : list Z -> res (Z * Z)) (s0 : list Z) : res (Z * list (Z * Z)) :=
  sparse6_decode_fuel_from hdr (6 * length s0 + 8) s0.

(* the header computation is only ever applied to strings of bytes in 63..126 *)
Lemma graph6_decode_from_ext : forall h1 h2 s0,
  (forall s, Forall inr s -> h1 s = h2 s) -> graph6_decode_from h1 s0 = graph6_decode_from h2 s0.
Proof.
  intros h1 h2 s0 H. unfold graph6_decode_from.
  destruct (forallb in_range (strip hdr_graph6 s0)) eqn:E; [|reflexivity]. cbn [negb].
  apply forallb_in_range in E. rewrite (H _ E). reflexivity.
Qed.

Lemma sparse6_decode_from_ext : forall h1 h2 s0,
  (forall s, Forall inr s -> h1 s = h2 s) -> sparse6_decode_from h1 s0 = sparse6_decode_from h2 s0.
Proof.
  intros h1 h2 s0 H. unfold sparse6_decode_from, sparse6_decode_fuel_from.
  destruct (strip hdr_sparse6 s0) as [|c s1]; [reflexivity|].
  destruct (negb (c =? 58)); [reflexivity|].
  destruct (forallb in_range s1) eqn:E; [|reflexivity]. cbn [negb].
  apply forallb_in_range in E. rewrite (H _ E). reflexivity.
Qed.

Lemma graph6_decode_from_model : forall s0, graph6_decode s0 = graph6_decode_from (dec_size true) s0.
Proof. reflexivity. Qed.

Lemma sparse6_decode_from_model : forall s0, sparse6_decode s0 = sparse6_decode_from (dec_size false) s0.
Proof. reflexivity. Qed.
