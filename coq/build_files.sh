#!/bin/sh
# usage: build_files.sh File1.v File2.v ...   (paths relative to coq/)
# Compiles the given files and whatever they depend on inside this development, in dependency
# order, with plain coqc (full .vo).  Safe to run while other people edit other areas.
cd "$(dirname "$0")"
all=$(find . -name '*.v' ! -path './Extract/*' | sed 's|^\./||')
order=$(coqdep -Q . Mamba -sort $all 2>/dev/null | tr ' ' '\n' | sed 's|^\./||')
# closure of the requested files
want=$(python3 - "$@" <<'PY'
import re,sys,os
seen=[];todo=list(sys.argv[1:])
while todo:
    f=todo.pop()
    if f in seen or not os.path.exists(f): continue
    seen.append(f)
    src=open(f).read()
    for m in re.finditer(r"From\s+Mamba\s+Require\s+(?:Import\s+|Export\s+)?((?:[\w']+(?:\.[\w']+)*\s+)*[\w']+(?:\.[\w']+)*)\s*\.(?=\s)",src):
        for mod in m.group(1).split(): todo.append(mod.replace(".","/")+".v")
print("\n".join(seen))
PY
)
rebuilt=""
for f in $order; do
  echo "$want" | grep -qx "$f" || continue
  vo="${f%.v}.vo"; stale=0
  [ -f "$vo" ] && [ ! "$f" -nt "$vo" ] || stale=1
  for r in $rebuilt; do grep -q "$(echo ${r%.v} | tr '/' '.')" "$f" && stale=1; done
  if [ $stale = 1 ]; then
    echo "COQC $f"
    timeout 3000 coqc -Q . Mamba -w -deprecated,-notation-overridden "$f" || exit 1
    rebuilt="$rebuilt $f"
  fi
done
