(* Complement, Range, NewSortedInts and Remove.

   complement_spec     Complement(n, a), every n and every strictly increasing a (elements anywhere):
                       never panics, returns the strictly increasing list of {0..n-1} \ a
   range_spec          Range(start, end, step) for all int64 arguments, on the uint64 arithmetic of the
                       code: Panic exactly when [range_infinite] or when the number of elements
                       exceeds MaxInt (make), otherwise the strictly increasing list of the
                       start + k*step, k >= 0, inside [start, end) resp. (end, start]
   new_sorted_ints_spec  NewSortedInts(xs...) = canon xs for every argument list
   remove_m_spec       Remove on the backing array: the view loses exactly x, the array keeps its
                       length and the cells beyond the old length *)
From Coq Require Import List ZArith Lia Bool.
From Mamba Require Import Sortints.Base Sortints.Model Sortints.Spec Sortints.Merge.
Import ListNotations.
Open Scope Z_scope.

(* ---------------------------------------------------------------- Complement *)
Lemma compl_loop_eq : forall fuel n i a, compl_loop fuel n i a =
  if i <? n then
    match fuel with
    | O => OutOfFuel
    | S f =>
      match a with
      | [] => do r <- compl_loop f n (i + 1) []; Ret (i :: r)
      | x :: a' => if i >? x then compl_loop f n i a'
                   else if i =? x then compl_loop f n (i + 1) a'
                   else do r <- compl_loop f n (i + 1) a; Ret (i :: r)
      end
    end
  else Ret [].
Proof. destruct fuel; reflexivity. Qed.

Lemma compl_loop_spec : forall fuel n i a, SInc a -> (Z.to_nat (n - i) + length a <= fuel)%nat ->
  exists r, compl_loop fuel n i a = Ret r /\ SInc r /\ (forall z, In z r <-> (i <= z < n /\ ~ In z a)).
Proof.
  induction fuel as [|f IH]; intros n i a Ha Hf; rewrite compl_loop_eq.
  - destruct (Z.ltb_spec i n) as [Hlt|Hge]; [lia|].
    exists []. split; [reflexivity|]. split; [apply SInc_nil|]. intros z. simpl. split; [tauto|lia].
  - destruct (Z.ltb_spec i n) as [Hlt|Hge].
    2:{ exists []. split; [reflexivity|]. split; [apply SInc_nil|]. intros z. simpl. split; [tauto|lia]. }
    destruct a as [|x a'].
    + destruct (IH n (i + 1) [] Ha) as [r [E [S I]]]; [simpl in *; lia|].
      rewrite E. cbn [bind]. exists (i :: r). split; [reflexivity|]. split.
      * apply SInc_cons; [exact S|]. intros y Hy. apply I in Hy. lia.
      * intros z. simpl. rewrite I. simpl. intuition lia.
    + pose proof (SInc_inv _ _ Ha) as [Sa La].
      destruct (Z.gtb_spec i x) as [Hgt|Hle].
      * destruct (IH n i a' Sa) as [r [E [S I]]]; [simpl in *; lia|].
        exists r. split; [exact E|]. split; [exact S|].
        intros z. rewrite I. simpl. pose proof (La z). intuition lia.
      * destruct (Z.eqb_spec i x) as [Heq|Hne].
        -- subst x. destruct (IH n (i + 1) a' Sa) as [r [E [S I]]]; [simpl in *; lia|].
           exists r. split; [exact E|]. split; [exact S|].
           intros z. rewrite I. simpl. pose proof (La z). intuition lia.
        -- destruct (IH n (i + 1) (x :: a') Ha) as [r [E [S I]]]; [simpl in *; lia|].
           rewrite E. cbn [bind]. exists (i :: r). split; [reflexivity|]. split.
           ++ apply SInc_cons; [exact S|]. intros y Hy. apply I in Hy. lia.
           ++ intros z. simpl In at 1. rewrite I. simpl. pose proof (La z). destruct (Z.eq_dec i z); intuition lia.
Qed.

Theorem complement_spec : forall n a, SInc a ->
  exists r, complement n a = Ret r /\ SInc r /\ forall z, In z r <-> (0 <= z < n /\ ~ In z a).
Proof.
  intros n a Ha. unfold complement. cbv zeta. rewrite with_cap_nonneg.
  - apply compl_loop_spec; [exact Ha|]. lia.
  - destruct (Z.ltb_spec (n - len a) 0); lia.
Qed.

(* ---------------------------------------------------------------- Range *)
Ltac Zify.zify_post_hook ::= Z.div_mod_to_equations.

Definition int64 (x : Z) : Prop := min_int <= x <= max_int.

(* "Infinite set": the progression start, start+step, ... never passes end *)
Definition range_infinite (start e step : Z) : Prop :=
  (e < start /\ step > 0) \/ (e > start /\ step < 0) \/ (e <> start /\ step = 0).

(* the mathematical result *)
Definition in_range (start e step z : Z) : Prop :=
  exists k, 0 <= k /\ z = start + k * step /\
            ((start <= e /\ start <= z < e) \/ (e < start /\ e < z <= start)).

(* the number of elements of the result *)
Definition range_count (start e step : Z) : Z :=
  if e =? start then 0 else (Z.abs (e - start) - 1) / Z.abs step + 1.

Lemma range_cond : forall start e step,
  (((e <? start) && (step >? 0)) || ((e >? start) && (step <? 0)) || (negb (e =? start) && (step =? 0))) = true
  <-> range_infinite start e step.
Proof.
  intros start e step. unfold range_infinite.
  rewrite !orb_true_iff, !andb_true_iff, negb_true_iff, Z.eqb_neq, Z.eqb_eq.
  rewrite !Z.ltb_lt. rewrite !Z.gtb_ltb, !Z.ltb_lt. lia.
Qed.

(* int(x) of a uint64 sum that is congruent to a representable value is that value *)
Lemma s64_sum : forall m p, min_int <= m + p <= max_int ->
  s64 (u64 (m mod W64 + u64 p)) = m + p.
Proof.
  intros m p H. unfold s64, u64, W64, min_int, max_int in *. cbv zeta.
  rewrite Z.mod_mod by lia. rewrite <- Z.add_mod by lia.
  destruct (Z.ltb_spec ((m + p) mod 18446744073709551616) 9223372036854775808); lia.
Qed.

Lemma range_fill_spec : forall n i m stp,
  0 < stp -> 0 <= i -> min_int <= m -> m + (i + Z.of_nat n - 1) * stp <= max_int \/ n = O ->
  Z.of_nat n + i <= W64 ->
  SInc (range_fill n i (m mod W64) stp) /\
  forall z, In z (range_fill n i (m mod W64) stp) <-> exists j, i <= j < i + Z.of_nat n /\ z = m + j * stp.
Proof.
  induction n as [|n IH]; intros i m stp Hs Hi Hm Hmax Hw.
  - split; [apply SInc_nil|]. intros z. simpl. split; [tauto|]. intros [j [Hj _]]. lia.
  - destruct Hmax as [Hmax|]; [|discriminate].
    assert (Hi64 : u64 i = i) by (unfold u64, W64 in *; lia).
    assert (Hel : s64 (u64 (m mod W64 + u64 (u64 i * stp))) = m + i * stp).
    { rewrite Hi64. apply s64_sum. unfold min_int, max_int in *. nia. }
    destruct (IH (i + 1) m stp Hs ltac:(lia) Hm) as [S I].
    + destruct n; [right; reflexivity|left]. replace (i + 1 + Z.of_nat (S n) - 1) with (i + Z.of_nat (S (S n)) - 1) by lia. exact Hmax.
    + lia.
    + cbn [range_fill]. rewrite Hel. split.
      * apply SInc_cons; [exact S|]. intros y Hy. apply I in Hy. destruct Hy as [j [Hj Ey]]. nia.
      * intros z. simpl In. rewrite I. split.
        -- intros [Ez|[j [Hj Ez]]]; [exists i; split; [lia|lia]|exists j; split; [lia|exact Ez]].
        -- intros [j [Hj Ez]]. destruct (Z.eq_dec j i) as [->|N]; [left; lia|right; exists j; split; [lia|exact Ez]].
Qed.

Theorem range_spec : forall start e step, int64 start -> int64 e -> int64 step ->
  (range_infinite start e step -> range start e step = Panic) /\
  (~ range_infinite start e step -> range_count start e step > max_int -> range start e step = Panic) /\
  (~ range_infinite start e step -> range_count start e step <= max_int ->
     exists r, range start e step = Ret r /\ SInc r /\ forall z, In z r <-> in_range start e step z).
Proof.
  intros start e step Is Ie It. unfold range.
  destruct (((e <? start) && (step >? 0)) || ((e >? start) && (step <? 0)) || (negb (e =? start) && (step =? 0))) eqn:C.
  { apply range_cond in C. split; [reflexivity|]. split; tauto. }
  assert (NI : ~ range_infinite start e step) by (rewrite <- range_cond, C; discriminate).
  split; [tauto|]. unfold range_infinite in NI. unfold range_count.
  destruct (Z.eqb_spec e start) as [Ees|Nes].
  { split; [intros _ H; unfold max_int in H; lia|]. intros _ _.
    exists []. split; [reflexivity|]. split; [apply SInc_nil|]. intros z. simpl. split; [tauto|].
    intros [k [Hk [Ez HH]]]. lia. }
  unfold int64, min_int, max_int in Is, Ie, It.
  destruct (Z.gtb_spec e start) as [Hasc|Hdesc].
  - (* ascending *)
    assert (Hst : 0 < step) by lia.
    assert (Ed : u64 (u64 e - u64 start) = e - start) by (unfold u64, W64; lia).
    assert (Es : u64 step = step) by (unfold u64, W64; lia).
    rewrite Ed, Es. cbv beta iota zeta.
    assert (Ed1 : u64 (e - start - 1) = e - start - 1) by (unfold u64, W64; lia).
    rewrite Ed1.
    assert (Hq0 : 0 <= (e - start - 1) / step) by (apply Z.div_pos; lia).
    assert (Hq1 : (e - start - 1) / step <= e - start - 1) by (apply Z.div_le_upper_bound; nia).
    assert (Ec : u64 ((e - start - 1) / step + 1) = (e - start - 1) / step + 1) by (unfold u64, W64; lia).
    rewrite Ec. rewrite Z.abs_eq by lia. rewrite (Z.abs_eq step) by lia.
    destruct (Z.ltb_spec e start); [lia|].
    set (q := (e - start - 1) / step) in *.
    assert (Hqm : q * step <= e - start - 1 < (q + 1) * step).
    { pose proof (Z.mul_div_le (e - start - 1) step Hst). pose proof (Z.mul_succ_div_gt (e - start - 1) step Hst).
      fold q in H0, H1. lia. }
    destruct (Z.gtb_spec (q + 1) max_int) as [Big|Small].
    { split; [reflexivity|]. intros _ H'. unfold max_int in *. lia. }
    split; [intros _ H'; unfold max_int in *; lia|]. intros _ _.
    destruct (range_fill_spec (Z.to_nat (q + 1)) 0 start step Hst ltac:(lia)) as [S I].
    + unfold min_int. lia.
    + left. unfold max_int. nia.
    + unfold W64, max_int in *. lia.
    + unfold u64 at 1. exists (range_fill (Z.to_nat (q + 1)) 0 (start mod W64) step).
      split; [reflexivity|]. split; [exact S|]. intros z. rewrite I. unfold in_range. split.
      * intros [j [Hj Ez]]. exists j. split; [lia|]. split; [lia|]. left.
        assert (0 <= j * step <= q * step) by (split; [apply Z.mul_nonneg_nonneg; lia | apply Z.mul_le_mono_nonneg_r; lia]).
        lia.
      * intros [k [Hk [Ez [[_ Bz]|[? ?]]]]]; [|lia]. exists k.
        assert (k < q + 1) by (apply (Zmult_lt_reg_r _ _ step); lia).
        split; lia.
  - (* descending *)
    assert (Hlt : e < start) by lia. assert (Hst : 0 < - step) by lia.
    assert (Ed : u64 (u64 start - u64 e) = start - e) by (unfold u64, W64; lia).
    assert (Es : u64 (- u64 step) = - step) by (unfold u64, W64; lia).
    rewrite Ed, Es. cbv beta iota zeta.
    assert (Ed1 : u64 (start - e - 1) = start - e - 1) by (unfold u64, W64; lia).
    rewrite Ed1.
    assert (Hq0 : 0 <= (start - e - 1) / - step) by (apply Z.div_pos; lia).
    assert (Hq1 : (start - e - 1) / - step <= start - e - 1) by (apply Z.div_le_upper_bound; nia).
    assert (Ec : u64 ((start - e - 1) / - step + 1) = (start - e - 1) / - step + 1) by (unfold u64, W64; lia).
    rewrite Ec. rewrite Z.abs_neq by lia. rewrite (Z.abs_neq step) by lia.
    replace (- (e - start) - 1) with (start - e - 1) by lia.
    destruct (Z.ltb_spec e start); [|lia].
    set (st := - step) in *. set (q := (start - e - 1) / st) in *.
    assert (Hqm : q * st <= start - e - 1 < (q + 1) * st).
    { pose proof (Z.mul_div_le (start - e - 1) st Hst). pose proof (Z.mul_succ_div_gt (start - e - 1) st Hst).
      fold q in H0, H1. lia. }
    destruct (Z.gtb_spec (q + 1) max_int) as [Big|Small].
    { split; [reflexivity|]. intros _ H'. unfold max_int in *. lia. }
    split; [intros _ H'; unfold max_int in *; lia|]. intros _ _.
    replace (q + 1 - 1) with q by lia.
    assert (Ef : u64 (u64 start - u64 (u64 q * st)) = (start - q * st) mod W64).
    { unfold u64. rewrite (Z.mod_small q) by (unfold W64, max_int in *; lia).
      rewrite <- Zminus_mod. reflexivity. }
    rewrite Ef.
    destruct (range_fill_spec (Z.to_nat (q + 1)) 0 (start - q * st) st Hst ltac:(lia)) as [S I].
    + unfold min_int. nia.
    + left. unfold max_int. nia.
    + unfold W64, max_int in *. lia.
    + exists (range_fill (Z.to_nat (q + 1)) 0 ((start - q * st) mod W64) st).
      split; [reflexivity|]. split; [exact S|]. intros z. rewrite I. unfold in_range. split.
      * intros [j [Hj Ez]]. exists (q - j). split; [lia|]. split; [unfold st in *; nia|]. right. split; [exact Hlt|].
        assert (0 <= j * st <= q * st) by (split; [apply Z.mul_nonneg_nonneg; lia | apply Z.mul_le_mono_nonneg_r; lia]).
        lia.
      * intros [k [Hk [Ez [[? ?]|[_ Bz]]]]]; [lia|].
        assert (Hks : k * st = - (k * step)) by (unfold st; ring).
        assert (k <= q) by (apply Z.lt_succ_r; apply (Zmult_lt_reg_r _ _ st); [lia|]; unfold Z.succ; lia).
        exists (q - k). split; [lia|]. unfold st in *. nia.
Qed.

(* the div/mod preprocessing of lia is needed for the Range proofs only (it is slow elsewhere) *)
Ltac Zify.zify_post_hook ::= idtac.

(* ---------------------------------------------------------------- arrays: nat-indexed facts *)
Lemma upd_length : forall (l : list Z) i v, length (upd l i v) = length l.
Proof. induction l as [|h t IH]; intros [|i] v; simpl; try reflexivity. rewrite IH. reflexivity. Qed.

Lemma nth_upd_same : forall (l : list Z) i v, (i < length l)%nat -> nth i (upd l i v) 0 = v.
Proof. induction l as [|h t IH]; intros [|i] v H; simpl in *; try lia. apply IH; lia. Qed.

Lemma nth_upd_other : forall (l : list Z) i j v, i <> j -> nth j (upd l i v) 0 = nth j l 0.
Proof.
  induction l as [|h t IH]; intros [|i] [|j] v H; simpl; try reflexivity; try lia. apply IH. lia.
Qed.

Lemma firstn_upd_ge : forall (l : list Z) i k v, (k <= i)%nat -> firstn k (upd l i v) = firstn k l.
Proof.
  induction l as [|h t IH]; intros [|i] [|k] v H; simpl; try reflexivity; try lia.
  rewrite IH by lia. reflexivity.
Qed.

Lemma skipn_upd_lt : forall (l : list Z) i k v, (i < k)%nat -> skipn k (upd l i v) = skipn k l.
Proof.
  induction l as [|h t IH]; intros [|i] [|k] v H; simpl; try reflexivity; try lia. apply IH. lia.
Qed.

Lemma skipn_upd_at : forall (l : list Z) i v, (i < length l)%nat ->
  skipn i (upd l i v) = v :: skipn (S i) l.
Proof.
  induction l as [|h t IH]; intros [|i] v H; simpl in *; try lia; try reflexivity. apply IH. lia.
Qed.

Lemma firstn_S_upd : forall (l : list Z) i v, (i < length l)%nat ->
  firstn (S i) (upd l i v) = firstn i l ++ [v].
Proof.
  induction l as [|h t IH]; intros [|i] v H; simpl in *; try lia; try reflexivity.
  rewrite IH by lia. reflexivity.
Qed.

Lemma firstn_S_nth : forall (l : list Z) i, (i < length l)%nat ->
  firstn (S i) l = firstn i l ++ [nth i l 0].
Proof.
  induction l as [|h t IH]; intros [|i] H; simpl in *; try lia; try reflexivity.
  rewrite IH by lia. reflexivity.
Qed.

Lemma rd_nat : forall l i, (i < length l)%nat -> rd l (Z.of_nat i) = Ret (nth i l 0).
Proof.
  intros l i H. unfold rd, len.
  destruct (Z.leb_spec 0 (Z.of_nat i)); [|lia].
  destruct (Z.ltb_spec (Z.of_nat i) (Z.of_nat (length l))); [|lia].
  cbn [andb]. rewrite Nat2Z.id. reflexivity.
Qed.

Lemma wr_nat : forall l i v, (i < length l)%nat -> wr l (Z.of_nat i) v = Ret (upd l i v).
Proof.
  intros l i v H. unfold wr, len.
  destruct (Z.leb_spec 0 (Z.of_nat i)); [|lia].
  destruct (Z.ltb_spec (Z.of_nat i) (Z.of_nat (length l))); [|lia].
  cbn [andb]. rewrite Nat2Z.id. reflexivity.
Qed.

Lemma slice_nat : forall l p q, (p <= q <= length l)%nat ->
  slice l (Z.of_nat p) (Z.of_nat q) = Ret (firstn (q - p) (skipn p l)).
Proof.
  intros l p q H. unfold slice, len.
  destruct (Z.leb_spec 0 (Z.of_nat p)); [|lia].
  destruct (Z.leb_spec (Z.of_nat p) (Z.of_nat q)); [|lia].
  destruct (Z.leb_spec (Z.of_nat q) (Z.of_nat (length l))); [|lia].
  cbn [andb]. rewrite Nat2Z.id. replace (Z.to_nat (Z.of_nat q - Z.of_nat p)) with (q - p)%nat by lia.
  reflexivity.
Qed.

Lemma slice_nat0 : forall l q, (q <= length l)%nat -> slice l 0 (Z.of_nat q) = Ret (firstn q l).
Proof.
  intros l q H. change 0 with (Z.of_nat 0) at 1. rewrite slice_nat by lia.
  rewrite Nat.sub_0_r. reflexivity.
Qed.

(* ---------------------------------------------------------------- NewSortedInts *)
Lemma dedup_cons2 : forall a b t, dedup (a :: b :: t) = if a =? b then dedup (b :: t) else a :: dedup (b :: t).
Proof. reflexivity. Qed.

Lemma dedup_snoc : forall l a b,
  dedup ((l ++ [a]) ++ [b]) = if a =? b then dedup (l ++ [a]) else dedup (l ++ [a]) ++ [b].
Proof.
  induction l as [|h l IH]; intros a b.
  - simpl. destruct (Z.eqb_spec a b); [subst|]; reflexivity.
  - destruct l as [|h2 l'].
    + specialize (IH a b). simpl app in *. rewrite (dedup_cons2 h a [b]), (dedup_cons2 h a []). rewrite IH.
      destruct (h =? a), (a =? b); reflexivity.
    + specialize (IH a b). simpl app in *.
      rewrite (dedup_cons2 h h2 ((l' ++ [a]) ++ [b])), (dedup_cons2 h h2 (l' ++ [a])). rewrite IH.
      destruct (h =? h2), (a =? b); reflexivity.
Qed.

Lemma dedupe_loop_eq : forall fuel tmp i reps, dedupe_loop fuel tmp i reps =
  if i <? len tmp then
    match fuel with
    | O => OutOfFuel
    | S f =>
      do x <- rd tmp (i - 1);
      do y <- rd tmp i;
      if x =? y then dedupe_loop f tmp (i + 1) (reps + 1)
      else do t' <- wr tmp (i - reps) y; dedupe_loop f t' (i + 1) reps
    end
  else Ret (tmp, reps).
Proof. destruct fuel; reflexivity. Qed.

Lemma dedupe_loop_spec : forall fuel o tmp i r,
  (1 <= i <= length o)%nat -> (r < i)%nat -> length tmp = length o ->
  firstn (i - r) tmp = dedup (firstn i o) ->
  (forall j, (i - 1 <= j)%nat -> nth j tmp 0 = nth j o 0) ->
  (length o - i <= fuel)%nat ->
  exists t r', dedupe_loop fuel tmp (Z.of_nat i) (Z.of_nat r) = Ret (t, Z.of_nat r') /\
     length t = length o /\ (r' < length o)%nat /\ firstn (length o - r') t = dedup o.
Proof.
  induction fuel as [|f IH]; intros o tmp i r Hi Hr Hl Hd Hn Hf; rewrite dedupe_loop_eq; unfold len.
  - destruct (Z.ltb_spec (Z.of_nat i) (Z.of_nat (length tmp))) as [Hlt|Hge]; [lia|].
    assert (i = length o) by lia. subst i.
    exists tmp, r. split; [reflexivity|]. split; [exact Hl|]. split; [lia|].
    rewrite Hd. rewrite firstn_all. reflexivity.
  - destruct (Z.ltb_spec (Z.of_nat i) (Z.of_nat (length tmp))) as [Hlt|Hge].
    2:{ assert (i = length o) by lia. subst i.
        exists tmp, r. split; [reflexivity|]. split; [exact Hl|]. split; [lia|].
        rewrite Hd. rewrite firstn_all. reflexivity. }
    replace (Z.of_nat i - 1) with (Z.of_nat (i - 1)) by lia.
    rewrite (rd_nat tmp (i - 1)) by lia. rewrite (rd_nat tmp i) by lia. cbn [bind].
    rewrite (Hn (i - 1)%nat) by lia. rewrite (Hn i) by lia.
    assert (Hsplit : firstn (S i) o = (firstn (i - 1) o ++ [nth (i - 1) o 0]) ++ [nth i o 0]).
    { rewrite (firstn_S_nth o i) by lia. f_equal.
      replace i with (S (i - 1)) at 1 by lia. apply firstn_S_nth. lia. }
    assert (Hprev : firstn i o = firstn (i - 1) o ++ [nth (i - 1) o 0]).
    { replace i with (S (i - 1)) at 1 by lia. apply firstn_S_nth. lia. }
    pose proof (dedup_snoc (firstn (i - 1) o) (nth (i - 1) o 0) (nth i o 0)) as Hds.
    rewrite <- Hsplit, <- Hprev in Hds.
    destruct (nth (i - 1) o 0 =? nth i o 0) eqn:Eq.
    + replace (Z.of_nat i + 1) with (Z.of_nat (S i)) by lia.
      replace (Z.of_nat r + 1) with (Z.of_nat (S r)) by lia.
      apply IH; try lia.
      * replace (S i - S r)%nat with (i - r)%nat by lia. rewrite Hd, Hds. reflexivity.
      * intros j Hj. apply Hn. lia.
    + replace (Z.of_nat i - Z.of_nat r) with (Z.of_nat (i - r)) by lia.
      rewrite wr_nat by lia. cbn [bind].
      replace (Z.of_nat i + 1) with (Z.of_nat (S i)) by lia.
      apply IH; try lia.
      * rewrite upd_length. exact Hl.
      * replace (S i - r)%nat with (S (i - r)) by lia. rewrite firstn_S_upd by lia.
        rewrite Hd, Hds. reflexivity.
      * intros j Hj. destruct (Nat.eq_dec (i - r) j) as [E|N].
        -- subst j. assert (r = O) by lia. subst r. replace (i - 0)%nat with i in * by lia.
           rewrite nth_upd_same by lia. reflexivity.
        -- rewrite nth_upd_other by exact N. apply Hn. lia.
Qed.

Theorem new_sorted_ints_spec : forall xs, new_sorted_ints xs = Ret (canon xs).
Proof.
  intros xs. unfold new_sorted_ints, canon. generalize (isort xs). intros o.
  destruct o as [|h t]; [reflexivity|].
  remember (h :: t) as o eqn:Eo.
  assert (Hlen : (1 <= length o)%nat) by (rewrite Eo; simpl; lia).
  assert (H1 : firstn (1 - 0) o = dedup (firstn 1 o)) by (rewrite Eo; reflexivity).
  assert (H2 : forall j, (1 - 1 <= j)%nat -> nth j o 0 = nth j o 0) by reflexivity.
  destruct (dedupe_loop_spec (length o) o o 1 0 ltac:(lia) ltac:(lia) eq_refl H1 H2 ltac:(lia))
    as [t' [r' [E [Hl [Hr Hd]]]]].
  change 1 with (Z.of_nat 1). change 0 with (Z.of_nat 0) at 1. rewrite E. cbn [bind].
  unfold len. rewrite Hl.
  replace (Z.of_nat (length o) - Z.of_nat r') with (Z.of_nat (length o - r')) by lia.
  change 0 with (Z.of_nat 0). rewrite slice_nat by lia.
  rewrite Nat.sub_0_r. simpl skipn. rewrite Hd. reflexivity.
Qed.

(* ---------------------------------------------------------------- Remove *)
Lemma skipn_skipn' : forall (l : list Z) a b, skipn a (skipn b l) = skipn (b + a) l.
Proof.
  intros l a b. revert l. induction b as [|b IH]; intros l; [reflexivity|].
  destruct l as [|h t]; [rewrite !skipn_nil; reflexivity|]. simpl. apply IH.
Qed.

(* the receiver value: its length fits its backing array and its elements increase strictly *)
Definition wf (s : sl) : Prop := (snd s <= length (fst s))%nat /\ SInc (view s).

Lemma SInc_remove_mid : forall l1 x l2, SInc (l1 ++ x :: l2) ->
  SInc (l1 ++ l2) /\ forall z, In z (l1 ++ l2) <-> In z (l1 ++ x :: l2) /\ z <> x.
Proof.
  intros l1 x l2 H. apply SInc_app_inv in H. destruct H as [S1 [S2 L]].
  apply SInc_inv in S2. destruct S2 as [S2 L2]. split.
  - apply SInc_app; [exact S1|exact S2|]. intros a b Ha Hb. apply L; [exact Ha|right; exact Hb].
  - intros z. rewrite !in_app_iff. simpl. split.
    + intros [Hz|Hz].
      * split; [left; exact Hz|]. specialize (L z x Hz (or_introl eq_refl)). lia.
      * split; [right; right; exact Hz|]. specialize (L2 z Hz). lia.
    + intros [[Hz|[Hz|Hz]] N]; [left; exact Hz|congruence|right; exact Hz].
Qed.

Theorem remove_m_spec : forall s x, wf s ->
  wf (remove_m s x) /\
  (forall z, In z (view (remove_m s x)) <-> In z (view s) /\ z <> x) /\
  length (fst (remove_m s x)) = length (fst s) /\
  skipn (snd s) (fst (remove_m s x)) = skipn (snd s) (fst s).
Proof.
  intros [arr n] x [Hn Hs]. unfold view in Hs. cbn [fst snd] in *. unfold remove_m.
  set (a := firstn n arr) in *.
  assert (Hla : length a = n) by (unfold a; rewrite firstn_length; lia).
  pose proof (search_ints_found a x (SInc_Inc _ Hs)) as Hfound.
  destruct (nth_error a (search_ints a x)) as [v|] eqn:En.
  2:{ assert (Hx : ~ In x a) by (intros Hin; apply Hfound in Hin; destruct Hin as [w [E _]]; discriminate).
      split; [split; assumption|]. split; [|split; reflexivity].
      intros z. unfold view. cbn [fst snd]. fold a. split; [|tauto]. intros Hz. split; [exact Hz|congruence]. }
  destruct (Z.eqb_spec v x) as [E|N].
  2:{ assert (Hx : ~ In x a).
      { intros Hin. apply Hfound in Hin. destruct Hin as [w [E1 E2]]. congruence. }
      split; [split; assumption|]. split; [|split; reflexivity].
      intros z. unfold view. cbn [fst snd]. fold a. split; [|tauto]. intros Hz. split; [exact Hz|congruence]. }
  subst v. set (i := search_ints a x) in *.
  destruct (nth_error_split a i En) as [l1 [l2 [Ea Hl1]]].
  assert (Hi : (i < n)%nat) by (rewrite <- Hla; apply nth_error_Some; congruence).
  assert (F1 : firstn i arr = l1).
  { replace (firstn i arr) with (firstn i a).
    - rewrite Ea, <- Hl1. rewrite firstn_app, Nat.sub_diag, firstn_all. simpl. apply app_nil_r.
    - unfold a. rewrite firstn_firstn. f_equal. lia. }
  assert (F2 : skipn (S i) a = l2).
  { rewrite Ea, <- Hl1. rewrite skipn_app. rewrite skipn_all2 by lia.
    replace (S (length l1) - length l1)%nat with 1%nat by lia. reflexivity. }
  rewrite F1, F2.
  assert (Hl12 : length (l1 ++ l2) = (n - 1)%nat).
  { rewrite <- Hla, Ea. rewrite !app_length. simpl. lia. }
  assert (Hview : view (l1 ++ l2 ++ skipn (n - 1) arr, (n - 1)%nat) = l1 ++ l2).
  { unfold view. cbn [fst snd]. rewrite app_assoc. rewrite firstn_app.
    rewrite Hl12, Nat.sub_diag. simpl firstn at 2. rewrite app_nil_r.
    rewrite <- Hl12. apply firstn_all. }
  rewrite Ea in Hs. destruct (SInc_remove_mid _ _ _ Hs) as [S12 I12].
  split; [|split; [|split]].
  - split; [|rewrite Hview; exact S12]. cbn [fst snd].
    rewrite app_assoc, app_length, Hl12, skipn_length. lia.
  - intros z. rewrite Hview. unfold view at 1. cbn [fst snd]. fold a. rewrite Ea. apply I12.
  - cbn [fst snd]. rewrite app_assoc, app_length, Hl12, skipn_length. lia.
  - cbn [fst snd]. rewrite app_assoc. rewrite skipn_app. rewrite Hl12.
    rewrite skipn_all2 by lia. replace (n - (n - 1))%nat with 1%nat by lia.
    rewrite skipn_skipn'. replace (n - 1 + 1)%nat with n by lia. reflexivity.
Qed.

Theorem new_sorted_ints_set : forall xs,
  exists r, new_sorted_ints xs = Ret r /\ SInc r /\ forall z, In z r <-> In z xs.
Proof.
  intros xs. exists (canon xs). split; [apply new_sorted_ints_spec|].
  split; [apply canon_SInc|apply canon_In].
Qed.
