(* Model of /repo/sortints/sorted_ints.go as it is written now (definitions only).

   Non-mutating functions work on lists (a SortedInts value = the list of its elements); the
   two-pointer loops `for i < len(a) && j < len(b)` are structural recursions on the two
   suffixes a[i:], b[j:].  The mutators work on [sl] = backing array up to its capacity plus
   the length, because the Union method merges backwards into the receiver's own array
   when the capacity suffices and Remove shifts inside the array. *)
From Coq Require Import List ZArith Bool.
From Mamba Require Import Sortints.Base.
Import ListNotations.
Open Scope Z_scope.

(* ---------------------------------------------------------------- IntersectionSize *)
Fixpoint isize (a b : list Z) : nat :=
  match a with
  | [] => O
  | x :: a' =>
    (fix go (b : list Z) : nat :=
       match b with
       | [] => O
       | y :: b' => if x =? y then S (isize a' b')
                    else if x >? y then go b'
                    else isize a' (y :: b')
       end) b
  end.

(* ---------------------------------------------------------------- Union (function) *)
Fixpoint union_loop (a b : list Z) : list Z :=
  match a with
  | [] => b                                   (* else if j < len(b) { append b[j:] } *)
  | x :: a' =>
    (fix go (b : list Z) : list Z :=
       match b with
       | [] => x :: a'                        (* if i < len(a) { append a[i:] } *)
       | y :: b' => if x =? y then x :: union_loop a' b'
                    else if x >? y then y :: go b'
                    else x :: union_loop a' (y :: b')
       end) b
  end.
Definition union (a b : list Z) : res (list Z) :=
  with_cap (len a + len b - Z.of_nat (isize a b)) (Ret (union_loop a b)).

(* ---------------------------------------------------------------- SetMinus *)
Fixpoint set_minus_loop (a b : list Z) : list Z :=
  match a with
  | [] => []                                  (* append a[i:] with i = len(a) *)
  | x :: a' =>
    (fix go (b : list Z) : list Z :=
       match b with
       | [] => x :: a'                        (* r = append(r, a[i:]...) *)
       | y :: b' => if x =? y then set_minus_loop a' b'
                    else if x >? y then go b'
                    else x :: set_minus_loop a' (y :: b')
       end) b
  end.
Definition set_minus (a b : list Z) : res (list Z) :=
  with_cap (len a - Z.of_nat (isize a b)) (Ret (set_minus_loop a b)).

(* ---------------------------------------------------------------- Intersection *)
Fixpoint inter_loop (a b : list Z) : list Z :=
  match a with
  | [] => []
  | x :: a' =>
    (fix go (b : list Z) : list Z :=
       match b with
       | [] => []
       | y :: b' => if x =? y then x :: inter_loop a' b'
                    else if x >? y then go b'
                    else inter_loop a' (y :: b')
       end) b
  end.
Definition intersection (a b : list Z) : res (list Z) :=
  with_cap (Z.of_nat (isize a b)) (Ret (inter_loop a b)).

(* ---------------------------------------------------------------- XOR *)
Fixpoint xor_loop (a b : list Z) : list Z :=
  match a with
  | [] => b
  | x :: a' =>
    (fix go (b : list Z) : list Z :=
       match b with
       | [] => x :: a'
       | y :: b' => if x =? y then xor_loop a' b'
                    else if x >? y then y :: go b'
                    else x :: xor_loop a' (y :: b')
       end) b
  end.
Definition xor (a b : list Z) : res (list Z) :=
  with_cap (len a + len b - Z.of_nat (isize a b)) (Ret (xor_loop a b)).

(* ---------------------------------------------------------------- ContainsSorted / ContainsSingle *)
Fixpoint contains_sorted (a b : list Z) : bool :=
  match a, b with
  | _, [] => true                             (* return j >= len(b) *)
  | [], _ :: _ => false
  | x :: a', y :: b' => if x =? y then contains_sorted a' b'
                        else if x >? y then false
                        else contains_sorted a' (y :: b')
  end.

Definition contains_single (a : list Z) (x : Z) : bool :=
  match nth_error a (search_ints a x) with      (* index < len(a) && a[index] == x *)
  | Some v => v =? x
  | None => false
  end.

(* ---------------------------------------------------------------- Complement *)
(* Both loops of Complement in one: the second loop is the first with a exhausted. *)
Fixpoint compl_loop (fuel : nat) (n i : Z) (a : list Z) : res (list Z) :=
  if i <? n then
    match fuel with
    | O => OutOfFuel
    | S f =>
      match a with
      | [] => do r <- compl_loop f n (i + 1) []; Ret (i :: r)
      | x :: a' => if i >? x then compl_loop f n i a'
                   else if i =? x then compl_loop f n (i + 1) a'
                   else do r <- compl_loop f n (i + 1) a; Ret (i :: r)
      end
    end
  else Ret [].
(* size := n - len(a); if size < 0 { size = 0 }; make([]int, 0, size) *)
Definition complement (n : Z) (a : list Z) : res (list Z) :=
  let size := n - len a in
  let size := if size <? 0 then 0 else size in
  with_cap size (compl_loop (Z.to_nat n + length a) n 0 a).

(* ---------------------------------------------------------------- Range *)
(* The arguments are int64 values.  After the panic test and the empty case Range works with
   uint64 magnitudes: [u64] is the wrap-around of uint64 arithmetic (every intermediate below is
   written with it explicitly), [s64] the conversion int(x) of a uint64. *)
Definition W64 : Z := 18446744073709551616.       (* 2^64 *)
Definition max_int : Z := 9223372036854775807.     (* 2^63 - 1 *)
Definition min_int : Z := -9223372036854775808.
Definition u64 (x : Z) : Z := x mod W64.
Definition s64 (x : Z) : Z :=
  let y := x mod W64 in if y <? 9223372036854775808 then y else y - W64.

(* for i := range tmp { tmp[i] = int(first + uint64(i)*size) } *)
Fixpoint range_fill (n : nat) (i first size : Z) : list Z :=
  match n with
  | O => []
  | S n' => s64 (u64 (first + u64 (u64 i * size))) :: range_fill n' (i + 1) first size
  end.

Definition range (start e step : Z) : res (list Z) :=
  if ((e <? start) && (step >? 0)) || ((e >? start) && (step <? 0)) || (negb (e =? start) && (step =? 0))
  then Panic                                   (* panic("Infinite set") *)
  else if e =? start then Ret []
  else
    let '(dist, size) :=
      if e >? start then (u64 (u64 e - u64 start), u64 step)
      else (u64 (u64 start - u64 e), u64 (- u64 step)) in
    let count := u64 (u64 (dist - 1) / size + 1) in
    let first := if e <? start then u64 (u64 start - u64 (u64 (count - 1) * size)) else u64 start in
    if count >? max_int then Panic             (* make([]int, count): len out of range *)
    else Ret (range_fill (Z.to_nat count) 0 first size).

(* ---------------------------------------------------------------- NewSortedInts *)
(* in-place removal of repeats from the sorted copy tmp *)
Fixpoint dedupe_loop (fuel : nat) (tmp : list Z) (i reps : Z) : res (list Z * Z) :=
  if i <? len tmp then
    match fuel with
    | O => OutOfFuel
    | S f =>
      do x <- rd tmp (i - 1);
      do y <- rd tmp i;
      if x =? y then dedupe_loop f tmp (i + 1) (reps + 1)
      else do t' <- wr tmp (i - reps) y; dedupe_loop f t' (i + 1) reps
    end
  else Ret (tmp, reps).

Definition new_sorted_ints (xs : list Z) : res (list Z) :=
  let tmp := isort xs in
  do (t, reps) <- dedupe_loop (length tmp) tmp 1 0;
  slice t 0 (len t - reps).

(* ---------------------------------------------------------------- Add *)
(* indices[i] of the first loop: -1 when x[i] is already in s *)
Definition add_index (s : list Z) (xi : Z) : Z :=
  let idx := search_ints s xi in
  match nth_error s idx with
  | Some v => if v =? xi then -1 else Z.of_nat idx
  | None => Z.of_nat idx
  end.

(* first loop: the pairs (x[i], indices[i]) and numberAlreadySeen *)
Fixpoint add_pass1 (s x : list Z) : list (Z * Z) * Z :=
  match x with
  | [] => ([], 0)
  | xi :: t =>
    let '(p, seen) := add_pass1 s t in
    let k := add_index s xi in
    ((xi, k) :: p, if k =? -1 then seen + 1 else seen)
  end.

(* second loop ("check for duplicates"): entry i+1 becomes -1 when x[i] == x[i+1] *)
Fixpoint add_pass2_from (prev : Z) (p : list (Z * Z)) (seen : Z) : list (Z * Z) * Z :=
  match p with
  | [] => ([], seen)
  | (xj, kj) :: t =>
    let dup := (prev =? xj) && negb (kj =? -1) in
    let '(r, sn) := add_pass2_from xj t (if dup then seen + 1 else seen) in
    ((xj, if dup then -1 else kj) :: r, sn)
  end.
Definition add_pass2 (p : list (Z * Z)) (seen : Z) : list (Z * Z) * Z :=
  match p with
  | [] => ([], seen)
  | (x0, k0) :: t => let '(r, sn) := add_pass2_from x0 t seen in ((x0, k0) :: r, sn)
  end.

(* third loop, i from len(x)-1 down to 0; the state is (tmp, numberNowSeen, indices[i+1]);
   off0 = len(x) - numberAlreadySeen *)
Fixpoint add_back (s : list Z) (off0 : Z) (p : list (Z * Z)) (tmp : list Z) : res (list Z * Z * Z) :=
  match p with
  | [] => Ret (tmp, 0, len s)                  (* indices[len(x)] = lens *)
  | (xi, ki) :: t =>
    do (st, nxt) <- add_back s off0 t tmp;
    let '(tmp1, now) := st in
    if ki =? -1 then Ret (tmp1, now, nxt)      (* indices[i] = indices[i+1] *)
    else
      let off := off0 - now in
      do blk <- slice s ki nxt;                (* s[indices[i]:indices[i+1]] *)
      do tmp2 <- blit tmp1 (ki + off) blk;     (* copy(tmp[indices[i]+off : indices[i+1]+off], ...) *)
      do tmp3 <- wr tmp2 (ki + off - 1) xi;
      Ret (tmp3, now + 1, ki)
  end.

Definition add (s xs : list Z) : res (list Z) :=
  let x := isort xs in
  let '(p1, seen1) := add_pass1 s x in
  let '(p, seen) := add_pass2 p1 seen1 in
  do tmp <- make (len s + len x - seen);
  do (st, nxt) <- add_back s (len x - seen) p tmp;
  let '(tmp1, _) := st in
  do pre <- slice s 0 nxt;                     (* copy(tmp[:indices[0]], s[:indices[0]]) *)
  blit tmp1 0 pre.

(* ---------------------------------------------------------------- mutators on a backing array *)
Definition sl := (list Z * nat)%type.            (* backing array up to cap, and len *)
Definition view (s : sl) : list Z := firstn (snd s) (fst s).
Definition fresh (l : list Z) : sl := (l, length l).

Definition add_m (s : sl) (xs : list Z) : res sl :=
  do r <- add (view s) xs; Ret (fresh r).       (* tmp = make([]int, n): cap = len *)

(* *s = s[:index+copy(s[index:], s[index+1:])]: the tail moves down by one inside
   the array, the last cell keeps its old value *)
Definition remove_m (s : sl) (x : Z) : sl :=
  let '(arr, n) := s in
  let a := firstn n arr in
  let i := search_ints a x in
  match nth_error a i with
  | Some v => if v =? x
              then (firstn i arr ++ skipn (S i) a ++ skipn (n - 1) arr, (n - 1)%nat)
              else s
  | None => s
  end.

(* the merge loop of the Union method, from the back.  [D] is the backing array of dst
   (dst = D[:dlen]); when [alias] is set dst shares its array with a, so a[i] is read from D. *)
Fixpoint um_loop (fuel : nat) (alias : bool) (A B D : list Z) (alen dlen : Z) (i j k : Z)
  : res (list Z * Z * Z) :=
  if (0 <=? i) && (0 <=? j) then
    match fuel with
    | O => OutOfFuel
    | S f =>
      do ai <- rdl (if alias then D else A) alen i;
      do bj <- rd B j;
      if ai =? bj then
        do D' <- wrl D dlen k ai; um_loop f alias A B D' alen dlen (i - 1) (j - 1) (k - 1)
      else if ai >? bj then
        do D' <- wrl D dlen k ai; um_loop f alias A B D' alen dlen (i - 1) j (k - 1)
      else
        do D' <- wrl D dlen k bj; um_loop f alias A B D' alen dlen i (j - 1) (k - 1)
    end
  else Ret (D, i, j).

(* copy(dst, src) with dst = D[:dlen] *)
Definition copy_pre (D : list Z) (dlen : nat) (src : list Z) : list Z :=
  let n := Nat.min dlen (length src) in firstn n src ++ skipn n D.

Definition union_m (s : sl) (b : list Z) : res sl :=
  let '(arr, n) := s in
  let a := firstn n arr in
  let new_size := len a + len b - Z.of_nat (isize a b) in
  let alias := new_size <=? len arr in           (* cap(a) >= newSize *)
  do D0 <- (if alias then Ret arr else make new_size);
  do (st, j) <- um_loop (length a + length b) alias arr b D0 (Z.of_nat n) new_size
                        (len a - 1) (len b - 1) (new_size - 1);
  let '(D, i) := st in
  let dl := Z.to_nat new_size in
  if 0 <=? i then
    do src <- slice (if alias then D else arr) 0 (i + 1);   (* copy(dst, a[:i+1]) *)
    Ret (copy_pre D dl src, dl)
  else if 0 <=? j then
    do src <- slice b 0 (j + 1);                            (* copy(dst, b[:j+1]) *)
    Ret (copy_pre D dl src, dl)
  else Ret (D, dl).

Inductive mop := MAdd (xs : list Z) | MRemove (x : Z) | MUnion (b : list Z).

Definition mstep (s : sl) (o : mop) : res sl :=
  match o with
  | MAdd xs => add_m s xs
  | MRemove x => Ret (remove_m s x)
  | MUnion b => union_m s b
  end.

Fixpoint mrun (s : sl) (ops : list mop) : res sl :=
  match ops with
  | [] => Ret s
  | o :: rest => do s' <- mstep s o; mrun s' rest
  end.
