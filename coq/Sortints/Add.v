(* Add: binary-search insertion points, duplicate suppression, back-to-front block copy.

   add_spec   for a strictly increasing receiver s and EVERY argument list xs (unsorted, with
              repeats, with elements already present) Add returns (never panics) the strictly
              increasing list whose elements are those of s and of xs.

   Stage A (array level): with the entries after the two marking loops abstracted as
   q : list (value * option insertion-index) ("marked" = Some), the third loop and the final copy
   produce  firstn (nxt q) s ++ U s q  where U lists, from the back, each marked value followed
   by the block of s between its insertion point and the next one ([add_result]).
   Stage B (list level): that list is strictly increasing with elements s ∪ marked values
   ([U_spec]), and the marked values are exactly the first occurrences of the arguments that
   are not in s ([mvals_q2], [cover_q2]). *)
From Coq Require Import List ZArith Lia Bool.
From Mamba Require Import Sortints.Base Sortints.Model Sortints.Spec Sortints.Merge Sortints.Simple.
Import ListNotations.
Open Scope Z_scope.

Definition entry := (Z * option nat)%type.
Definition enc1 (e : entry) : Z * Z :=
  (fst e, match snd e with Some i => Z.of_nat i | None => -1 end).
Definition enc (q : list entry) : list (Z * Z) := map enc1 q.

Fixpoint cnt (q : list entry) : nat :=
  match q with
  | [] => O
  | (_, Some _) :: t => S (cnt t)
  | (_, None) :: t => cnt t
  end.
Fixpoint nxt (ls : nat) (q : list entry) : nat :=
  match q with
  | [] => ls
  | (_, Some i) :: _ => i
  | (_, None) :: t => nxt ls t
  end.
Fixpoint mvals (q : list entry) : list Z :=
  match q with
  | [] => []
  | (x, Some _) :: t => x :: mvals t
  | (_, None) :: t => mvals t
  end.
Fixpoint U (s : list Z) (q : list entry) : list Z :=
  match q with
  | [] => []
  | (x, Some i) :: t => x :: firstn (nxt (length s) t - i) (skipn i s) ++ U s t
  | (_, None) :: t => U s t
  end.
Fixpoint kwf (ls : nat) (q : list entry) : Prop :=
  match q with
  | [] => True
  | (_, Some i) :: t => (i <= nxt ls t)%nat /\ kwf ls t
  | (_, None) :: t => kwf ls t
  end.

Lemma nxt_le : forall ls q, kwf ls q -> (nxt ls q <= ls)%nat.
Proof.
  induction q as [|[x [i|]] t IH]; cbn [kwf nxt]; intros H; [lia| |apply IH; exact H].
  destruct H as [H1 H2]. specialize (IH H2). lia.
Qed.

(* ---------------------------------------------------------------- stage A: the third loop *)
Lemma blit_nat : forall tmp lo src, (lo + length src <= length tmp)%nat ->
  blit tmp (Z.of_nat lo) src = Ret (firstn lo tmp ++ src ++ skipn (lo + length src) tmp).
Proof.
  intros tmp lo src H. unfold blit, len.
  destruct (Z.leb_spec 0 (Z.of_nat lo)); [|lia].
  destruct (Z.leb_spec (Z.of_nat lo + Z.of_nat (length src)) (Z.of_nat (length tmp))); [|lia].
  cbn [andb]. rewrite Nat2Z.id. reflexivity.
Qed.

Lemma add_back_spec : forall s off0 q tmp,
  kwf (length s) q -> (cnt q <= off0)%nat -> length tmp = (length s + off0)%nat ->
  exists tmp', add_back s (Z.of_nat off0) (enc q) tmp
               = Ret (tmp', Z.of_nat (cnt q), Z.of_nat (nxt (length s) q)) /\
    length tmp' = length tmp /\
    skipn (nxt (length s) q + off0 - cnt q) tmp' = U s q.
Proof.
  intros s off0. induction q as [|[x [i|]] t IH]; intros tmp Hk Hc Hl.
  - exists tmp. split; [reflexivity|]. split; [reflexivity|]. cbn [nxt cnt U]. apply skipn_all2. lia.
  - cbn [kwf] in Hk. destruct Hk as [Hi Hk]. cbn [cnt] in Hc.
    destruct (IH tmp Hk ltac:(lia) Hl) as [tmp1 [E [L1 Sk]]].
    pose proof (nxt_le _ _ Hk) as Hn.
    cbn [enc map enc1 fst snd add_back]. fold (enc t). rewrite E. cbn [bind].
    destruct (Z.eqb_spec (Z.of_nat i) (-1)); [lia|].
    rewrite slice_nat by lia. cbn [bind].
    set (blk := firstn (nxt (length s) t - i) (skipn i s)).
    assert (Lb : length blk = (nxt (length s) t - i)%nat).
    { unfold blk. rewrite firstn_length, skipn_length. lia. }
    replace (Z.of_nat i + (Z.of_nat off0 - Z.of_nat (cnt t))) with (Z.of_nat (i + off0 - cnt t)) by lia.
    set (lo := (i + off0 - cnt t)%nat).
    rewrite blit_nat by lia. cbn [bind].
    replace (Z.of_nat lo - 1) with (Z.of_nat (lo - 1)) by lia.
    assert (Ll : length (firstn lo tmp1) = lo) by (rewrite firstn_length; lia).
    rewrite wr_nat by (rewrite !app_length, Ll; lia). cbn [bind].
    replace (Z.of_nat (cnt t) + 1) with (Z.of_nat (S (cnt t))) by lia.
    eexists. split; [reflexivity|]. split.
    + rewrite upd_length, !app_length, Ll, skipn_length. lia.
    + cbn [nxt cnt U]. replace (i + off0 - S (cnt t))%nat with (lo - 1)%nat by lia.
      rewrite skipn_upd_at by (rewrite !app_length, Ll; lia).
      replace (S (lo - 1)) with lo by lia. f_equal.
      rewrite skipn_app, Ll, Nat.sub_diag. rewrite skipn_all2 by lia. cbn [skipn app].
      fold blk. f_equal. rewrite Lb. rewrite <- Sk. f_equal. lia.
  - cbn [kwf] in Hk. cbn [cnt] in Hc.
    destruct (IH tmp Hk Hc Hl) as [tmp1 [E [L1 Sk]]].
    cbn [enc map enc1 fst snd add_back]. fold (enc t). rewrite E. cbn [bind].
    change (-1 =? -1) with true. cbv iota.
    exists tmp1. split; [reflexivity|]. split; [exact L1|exact Sk].
Qed.

(* ---------------------------------------------------------------- the two marking loops *)
Definition idx_opt (s : list Z) (xi : Z) : option nat :=
  let idx := search_ints s xi in
  match nth_error s idx with
  | Some v => if v =? xi then None else Some idx
  | None => Some idx
  end.
Definition q1 (s x : list Z) : list entry := map (fun xi => (xi, idx_opt s xi)) x.
Fixpoint q2_from (prev : Z) (q : list entry) : list entry :=
  match q with
  | [] => []
  | (xj, o) :: t => (xj, if prev =? xj then None else o) :: q2_from xj t
  end.
Definition q2 (q : list entry) : list entry :=
  match q with
  | [] => []
  | (x0, o) :: t => (x0, o) :: q2_from x0 t
  end.

Lemma add_index_enc : forall s xi,
  add_index s xi = match idx_opt s xi with Some i => Z.of_nat i | None => -1 end.
Proof.
  intros s xi. unfold add_index, idx_opt. cbv zeta.
  destruct (nth_error s (search_ints s xi)) as [v|]; [destruct (v =? xi)|]; reflexivity.
Qed.

Lemma pass1_enc : forall s x,
  add_pass1 s x = (enc (q1 s x), Z.of_nat (length x) - Z.of_nat (cnt (q1 s x))).
Proof.
  intros s. induction x as [|xi t IH]; [reflexivity|].
  cbn [add_pass1]. rewrite IH. cbv zeta. rewrite add_index_enc.
  cbn [q1 map enc enc1 fst snd cnt length]. fold (q1 s t). fold (enc (q1 s t)).
  destruct (idx_opt s xi) as [i|].
  - destruct (Z.eqb_spec (Z.of_nat i) (-1)); [lia|]. f_equal. lia.
  - change (-1 =? -1) with true. cbv iota. f_equal. lia.
Qed.

Lemma cnt_q2_from_le : forall q prev, (cnt (q2_from prev q) <= cnt q)%nat.
Proof.
  induction q as [|[xj o] t IH]; intros prev; cbn [q2_from cnt]; [lia|].
  specialize (IH xj). destruct o, (prev =? xj); cbn [cnt]; lia.
Qed.

Lemma pass2_from_enc : forall q prev seen,
  add_pass2_from prev (enc q) seen =
  (enc (q2_from prev q), seen + Z.of_nat (cnt q) - Z.of_nat (cnt (q2_from prev q))).
Proof.
  induction q as [|[xj o] t IH]; intros prev seen.
  - cbn. f_equal. lia.
  - cbn [enc map enc1 fst snd add_pass2_from q2_from]. fold (enc t). fold (enc (q2_from xj t)).
    destruct (Z.eqb_spec prev xj) as [E|N].
    + destruct o as [i|].
      * destruct (Z.eqb_spec (Z.of_nat i) (-1)); [lia|]. cbn [andb negb]. rewrite IH. cbn [cnt].
        f_equal. lia.
      * change (-1 =? -1) with true. cbn [andb negb]. rewrite IH. cbn [cnt]. reflexivity.
    + cbn [andb]. rewrite IH. destruct o as [i|]; cbn [cnt]; f_equal; lia.
Qed.

Lemma pass2_enc : forall q seen,
  add_pass2 (enc q) seen = (enc (q2 q), seen + Z.of_nat (cnt q) - Z.of_nat (cnt (q2 q))).
Proof.
  intros [|[x0 o] t] seen.
  - cbn. f_equal. lia.
  - cbn [enc map enc1 fst snd add_pass2 q2]. fold (enc t). rewrite pass2_from_enc.
    fold (enc (q2_from x0 t)). destruct o as [i|]; cbn [cnt]; f_equal; lia.
Qed.

Lemma cnt_le_length : forall q, (cnt q <= length q)%nat.
Proof. induction q as [|[x [i|]] t IH]; cbn [cnt length]; lia. Qed.

Lemma blit_nat0 : forall tmp src, (length src <= length tmp)%nat ->
  blit tmp 0 src = Ret (src ++ skipn (length src) tmp).
Proof. intros tmp src H. change 0 with (Z.of_nat 0). rewrite blit_nat by lia. reflexivity. Qed.

Theorem add_result : forall s xs,
  let q := q2 (q1 s (isort xs)) in
  kwf (length s) q -> add s xs = Ret (firstn (nxt (length s) q) s ++ U s q).
Proof.
  intros s xs q Hk. unfold add. rewrite pass1_enc. cbv iota. rewrite pass2_enc. cbv iota. fold q.
  set (x := isort xs) in *. unfold len.
  pose proof (cnt_q2_from_le) as _.
  assert (Hseen : Z.of_nat (length x) - Z.of_nat (cnt (q1 s x)) + Z.of_nat (cnt (q1 s x)) - Z.of_nat (cnt q)
                  = Z.of_nat (length x) - Z.of_nat (cnt q)) by lia.
  rewrite Hseen.
  replace (Z.of_nat (length s) + Z.of_nat (length x) - (Z.of_nat (length x) - Z.of_nat (cnt q)))
    with (Z.of_nat (length s + cnt q)) by lia.
  replace (Z.of_nat (length x) - (Z.of_nat (length x) - Z.of_nat (cnt q))) with (Z.of_nat (cnt q)) by lia.
  unfold make. destruct (Z.ltb_spec (Z.of_nat (length s + cnt q)) 0); [lia|]. cbn [bind].
  rewrite Nat2Z.id.
  destruct (add_back_spec s (cnt q) q (repeat 0 (length s + cnt q)) Hk (le_n _))
    as [tmp1 [E [L1 Sk]]]; [apply repeat_length|].
  rewrite E. cbn [bind]. pose proof (nxt_le _ _ Hk) as Hn.
  rewrite slice_nat0 by exact Hn. cbn [bind].
  assert (Lp : length (firstn (nxt (length s) q) s) = nxt (length s) q) by (rewrite firstn_length; lia).
  rewrite blit_nat0 by (rewrite Lp, L1, repeat_length; lia).
  rewrite Lp. f_equal. f_equal. rewrite <- Sk. f_equal. lia.
Qed.

(* ---------------------------------------------------------------- stage B: the list result *)
Definition mk_ok (s : list Z) (q : list entry) : Prop :=
  forall x i, In (x, Some i) q -> i = search_ints s x /\ ~ In x s.

Lemma mk_ok_tail : forall s e t, mk_ok s (e :: t) -> mk_ok s t.
Proof. intros s e t H x i Hin. apply H. right. exact Hin. Qed.

Lemma search_ints_mono : forall s a b, a <= b -> (search_ints s a <= search_ints s b)%nat.
Proof.
  induction s as [|h t IH]; intros a b H; cbn [search_ints]; [lia|].
  destruct (Z.ltb_spec h a), (Z.ltb_spec h b); try lia. apply le_n_S. apply IH. exact H.
Qed.

Lemma nxt_cases : forall s q, mk_ok s q ->
  (mvals q = [] /\ nxt (length s) q = length s) \/
  (exists xk rest, mvals q = xk :: rest /\ nxt (length s) q = search_ints s xk).
Proof.
  intros s. induction q as [|[x [i|]] t IH]; intros H; cbn [mvals nxt].
  - left. split; reflexivity.
  - right. exists x, (mvals t). split; [reflexivity|]. apply (H x i). left. reflexivity.
  - apply IH. eapply mk_ok_tail. exact H.
Qed.

Lemma firstn_split : forall (l : list Z) i n, (i <= n)%nat ->
  firstn n l = firstn i l ++ firstn (n - i) (skipn i l).
Proof.
  intros l i. revert l. induction i as [|i IH]; intros l n H.
  - cbn. rewrite Nat.sub_0_r. reflexivity.
  - destruct l as [|h t]; [rewrite !firstn_nil; reflexivity|].
    destruct n as [|n]; [lia|]. cbn [firstn skipn app Nat.sub]. f_equal. apply IH. lia.
Qed.

Lemma SInc_firstn : forall l n, SInc l -> SInc (firstn n l).
Proof.
  intros l n H. rewrite <- (firstn_skipn n l) in H. apply SInc_app_inv in H. tauto.
Qed.

Lemma U_spec : forall s q, SInc s -> mk_ok s q -> SInc (mvals q) ->
  kwf (length s) q /\ SInc (U s q) /\
  (forall z, In z (U s q) <-> In z (skipn (nxt (length s) q) s) \/ In z (mvals q)) /\
  (forall y z, In y (firstn (nxt (length s) q) s) -> In z (U s q) -> y < z).
Proof.
  intros s. induction q as [|[x [i|]] t IH]; intros Hs Hok Hm.
  - cbn [kwf U nxt mvals]. split; [exact I|]. split; [apply SInc_nil|]. split.
    + intros z. rewrite skipn_all. simpl. tauto.
    + intros y z _ [].
  - cbn [mvals] in Hm. apply SInc_inv in Hm. destruct Hm as [Sm Lm].
    pose proof (mk_ok_tail _ _ _ Hok) as Hokt.
    destruct (IH Hs Hokt Sm) as [K [SU [IU LU]]].
    destruct (Hok x i (or_introl eq_refl)) as [Ei Nx].
    pose proof (search_ints_split s x (SInc_Inc _ Hs)) as [Lo Hi]. rewrite <- Ei in Lo, Hi.
    set (n' := nxt (length s) t) in *.
    assert (Hin' : (i <= n')%nat).
    { destruct (nxt_cases s t Hokt) as [[_ E]|[xk [rest [Em En]]]]; fold n' in E || fold n' in En.
      - rewrite E, Ei. apply search_ints_le.
      - rewrite En, Ei. apply search_ints_mono.
        assert (x < xk) by (apply Lm; rewrite Em; left; reflexivity). lia. }
    pose proof (nxt_le _ _ K) as Hn'. fold n' in Hn'.
    assert (Hsplit : skipn i s = firstn (n' - i) (skipn i s) ++ skipn n' s).
    { rewrite <- (firstn_skipn (n' - i) (skipn i s)) at 1. f_equal. rewrite skipn_skipn'. f_equal. lia. }
    assert (Hgt : forall z, In z (skipn i s) -> x < z).
    { intros z Hz. specialize (Hi z Hz). assert (z <> x).
      { intros ->. apply Nx. rewrite <- (firstn_skipn i s). apply in_or_app. right. exact Hz. }
      lia. }
    cbn [kwf U nxt mvals]. fold n'. set (blk := firstn (n' - i) (skipn i s)) in *.
    assert (Hall : forall z, In z (blk ++ U s t) -> In z (skipn i s) \/ In z (mvals t)).
    { intros z Hz. apply in_app_or in Hz. destruct Hz as [Hz|Hz].
      - left. rewrite Hsplit. apply in_or_app. left. exact Hz.
      - apply IU in Hz. destruct Hz as [Hz|Hz]; [left|right; exact Hz].
        rewrite Hsplit. apply in_or_app. right. exact Hz. }
    assert (Hx_lt : forall z, In z (blk ++ U s t) -> x < z).
    { intros z Hz. destruct (Hall z Hz) as [H|H]; [apply Hgt|apply Lm]; exact H. }
    assert (Hblk_first : forall y, In y blk -> In y (firstn n' s)).
    { intros y Hy. rewrite (firstn_split s i n' Hin'). apply in_or_app. right. exact Hy. }
    split; [split; [exact Hin'|exact K]|]. split; [|split].
    + apply SInc_cons; [|exact Hx_lt]. apply SInc_app; [|exact SU|].
      * pose proof Hs as Hs'. rewrite <- (firstn_skipn i s) in Hs'. rewrite Hsplit in Hs'.
        apply SInc_app_inv in Hs'. destruct Hs' as [_ [S2 _]].
        apply SInc_app_inv in S2. tauto.
      * intros y z Hy Hz. apply LU; [apply Hblk_first; exact Hy|exact Hz].
    + intros z. split.
      * intros [E|Hz]; [right; left; exact E|].
        destruct (Hall z Hz) as [H|H]; [left; exact H|right; right; exact H].
      * intros [Hz|[E|Hz]].
        -- right. rewrite Hsplit in Hz. apply in_app_or in Hz. apply in_or_app.
           destruct Hz as [Hz|Hz]; [left; exact Hz|right; apply IU; left; exact Hz].
        -- left. exact E.
        -- right. apply in_or_app. right. apply IU. right. exact Hz.
    + intros y z Hy [E|Hz]; [subst z; apply Lo; exact Hy|].
      specialize (Lo y Hy). specialize (Hx_lt z Hz). lia.
  - cbn [kwf U nxt mvals] in *. apply IH; [exact Hs|eapply mk_ok_tail; exact Hok|exact Hm].
Qed.

(* ---------------------------------------------------------------- what the marking loops mark *)
Lemma idx_opt_some : forall s x i, Inc s -> idx_opt s x = Some i -> i = search_ints s x /\ ~ In x s.
Proof.
  intros s x i Hs H. unfold idx_opt in H. cbv zeta in H.
  pose proof (search_ints_found s x Hs) as F.
  destruct (nth_error s (search_ints s x)) as [v|] eqn:En.
  - destruct (Z.eqb_spec v x) as [E|N]; [discriminate|]. inversion H. split; [reflexivity|].
    intros Hin. apply F in Hin. destruct Hin as [w [E1 E2]]. congruence.
  - inversion H. split; [reflexivity|]. intros Hin. apply F in Hin. destruct Hin as [w [E1 _]]. discriminate.
Qed.

Lemma idx_opt_none : forall s x, idx_opt s x = None -> In x s.
Proof.
  intros s x H. unfold idx_opt in H. cbv zeta in H.
  destruct (nth_error s (search_ints s x)) as [v|] eqn:En; [|discriminate].
  destruct (Z.eqb_spec v x) as [E|N]; [|discriminate]. subst v. eapply nth_error_In. exact En.
Qed.

Lemma q2_from_some : forall q prev x i, In (x, Some i) (q2_from prev q) -> In (x, Some i) q.
Proof.
  induction q as [|[xj o] t IH]; intros prev x i H; [exact H|].
  cbn [q2_from] in H. destruct H as [E|H]; [|right; eapply IH; exact H].
  left. destruct (prev =? xj); [discriminate|exact E].
Qed.

Lemma mk_ok_q2 : forall s x, Inc s -> mk_ok s (q2 (q1 s x)).
Proof.
  intros s x Hs y i Hin.
  assert (H1 : In (y, Some i) (q1 s x)).
  { destruct (q1 s x) as [|[x0 o] t]; [exact Hin|]. cbn [q2] in Hin.
    destruct Hin as [E|H]; [left; exact E|right; eapply q2_from_some; exact H]. }
  unfold q1 in H1. apply in_map_iff in H1. destruct H1 as [xi [E _]]. inversion E. subst xi.
  apply idx_opt_some; assumption.
Qed.

Lemma map_fst_q1 : forall s x, map fst (q1 s x) = x.
Proof. intros s x. unfold q1. rewrite map_map. cbn [fst]. apply map_id. Qed.

Lemma mvals_q2_from : forall q prev, Inc (prev :: map fst q) ->
  SInc (mvals (q2_from prev q)) /\ forall z, In z (mvals (q2_from prev q)) -> prev < z.
Proof.
  induction q as [|[xj o] t IH]; intros prev H.
  - cbn. split; [apply SInc_nil|]. intros z [].
  - cbn [map fst] in H. apply Inc_inv in H. destruct H as [H1 L].
    assert (Hle : prev <= xj) by (apply L; left; reflexivity).
    destruct (IH xj H1) as [S Lz]. cbn [q2_from].
    destruct (Z.eqb_spec prev xj) as [E|N].
    + cbn [mvals]. split; [exact S|]. intros z Hz. specialize (Lz z Hz). lia.
    + destruct o as [i|]; cbn [mvals].
      * split; [apply SInc_cons; [exact S|exact Lz]|].
        intros z [Ez|Hz]; [lia|]. specialize (Lz z Hz). lia.
      * split; [exact S|]. intros z Hz. specialize (Lz z Hz). lia.
Qed.

Lemma mvals_q2 : forall q, Inc (map fst q) -> SInc (mvals (q2 q)).
Proof.
  intros [|[x0 o] t] H; [apply SInc_nil|]. cbn [q2]. cbn [map fst] in H.
  destruct (mvals_q2_from t x0 H) as [S L].
  destruct o as [i|]; cbn [mvals]; [apply SInc_cons; [exact S|exact L]|exact S].
Qed.

Lemma mvals_in_fst : forall q z, In z (mvals q) -> In z (map fst q).
Proof.
  induction q as [|[x [i|]] t IH]; intros z H; cbn [mvals map fst] in *; [exact H| |right; apply IH; exact H].
  destruct H as [E|H]; [left; exact E|right; apply IH; exact H].
Qed.

Lemma map_fst_q2_from : forall q prev, map fst (q2_from prev q) = map fst q.
Proof. induction q as [|[xj o] t IH]; intros prev; [reflexivity|]. cbn [q2_from map fst]. rewrite IH. reflexivity. Qed.

Lemma map_fst_q2 : forall q, map fst (q2 q) = map fst q.
Proof. intros [|[x0 o] t]; [reflexivity|]. cbn [q2 map fst]. rewrite map_fst_q2_from. reflexivity. Qed.

Lemma mvals_cons_incl : forall e t z, In z (mvals t) -> In z (mvals (e :: t)).
Proof. intros [x [i|]] t z H; cbn [mvals]; [right|]; exact H. Qed.

Lemma cover_q2_from : forall s q prev z,
  (forall x, In (x, None) q -> In x s) -> In z (map fst q) ->
  In z s \/ z = prev \/ In z (mvals (q2_from prev q)).
Proof.
  intros s. induction q as [|[xj o] t IH]; intros prev z Hnone Hz; [destruct Hz|].
  cbn [q2_from].
  assert (Hhead : In xj s \/ xj = prev \/ In xj (mvals ((xj, if prev =? xj then None else o) :: q2_from xj t))).
  { destruct (Z.eqb_spec prev xj) as [E|N]; [right; left; symmetry; exact E|].
    destruct o as [i|]; [right; right; left; reflexivity|].
    left. apply Hnone. left. reflexivity. }
  cbn [map fst] in Hz. destruct Hz as [E|Hz]; [subst z; exact Hhead|].
  destruct (IH xj z (fun x H => Hnone x (or_intror H)) Hz) as [A|[B|C]].
  - left. exact A.
  - subst z. exact Hhead.
  - right. right. apply mvals_cons_incl. exact C.
Qed.

Lemma cover_q2 : forall s q z, (forall x, In (x, None) q -> In x s) -> In z (map fst q) ->
  In z s \/ In z (mvals (q2 q)).
Proof.
  intros s [|[x0 o] t] z Hnone Hz; [destruct Hz|]. cbn [q2].
  assert (Hhead : In x0 s \/ In x0 (mvals ((x0, o) :: q2_from x0 t))).
  { destruct o as [i|]; [right; left; reflexivity|left; apply Hnone; left; reflexivity]. }
  cbn [map fst] in Hz. destruct Hz as [E|Hz]; [subst z; exact Hhead|].
  destruct (cover_q2_from s t x0 z (fun x H => Hnone x (or_intror H)) Hz) as [A|[B|C]].
  - left. exact A.
  - subst z. exact Hhead.
  - right. apply mvals_cons_incl. exact C.
Qed.

(* ---------------------------------------------------------------- Add *)
Theorem add_spec : forall s xs, SInc s ->
  exists r, add s xs = Ret r /\ SInc r /\ forall z, In z r <-> In z s \/ In z xs.
Proof.
  intros s xs Hs. set (x := isort xs). set (q := q2 (q1 s x)).
  pose proof (SInc_Inc _ Hs) as Is.
  assert (Hok : mk_ok s q) by (apply mk_ok_q2; exact Is).
  assert (Hm : SInc (mvals q)).
  { apply mvals_q2. rewrite map_fst_q1. apply isort_Inc. }
  destruct (U_spec s q Hs Hok Hm) as [K [SU [IU LU]]].
  exists (firstn (nxt (length s) q) s ++ U s q).
  split; [apply (add_result s xs); exact K|]. split.
  - apply SInc_app; [apply SInc_firstn; exact Hs|exact SU|exact LU].
  - intros z. rewrite in_app_iff, IU. split.
    + intros [H|[H|H]].
      * left. rewrite <- (firstn_skipn (nxt (length s) q) s). apply in_or_app. left. exact H.
      * left. rewrite <- (firstn_skipn (nxt (length s) q) s). apply in_or_app. right. exact H.
      * right. apply mvals_in_fst in H. unfold q in H. rewrite map_fst_q2, map_fst_q1 in H.
        apply isort_In. exact H.
    + intros [H|H].
      * rewrite <- (firstn_skipn (nxt (length s) q) s) in H. apply in_app_or in H. tauto.
      * assert (Hx : In z (map fst (q1 s x))) by (rewrite map_fst_q1; apply isort_In; exact H).
        destruct (cover_q2 s (q1 s x) z) as [A|B]; [|exact Hx| |].
        -- intros y Hy. unfold q1 in Hy. apply in_map_iff in Hy. destruct Hy as [xi [E _]].
           inversion E. subst xi. apply idx_opt_none. assumption.
        -- rewrite <- (firstn_skipn (nxt (length s) q) s) in A. apply in_app_or in A. tauto.
        -- right. right. exact B.
Qed.
