(* The two-pointer functions of sortints: IntersectionSize, Union, SetMinus, Intersection, XOR,
   ContainsSorted, ContainsSingle. *)
From Coq Require Import List ZArith Lia Bool.
From Mamba Require Import Sortints.Base Sortints.Model Sortints.Spec.
Import ListNotations.
Open Scope Z_scope.

Lemma gtb_case : forall x y, x <> y -> (x >? y) = true /\ y < x \/ (x >? y) = false /\ x < y.
Proof. intros x y N. destruct (Z.gtb_spec x y); [left|right]; split; try reflexivity; lia. Qed.

Ltac cmp x y :=
  let E := fresh "E" in let N := fresh "N" in let G := fresh "G" in let L := fresh "L" in
  destruct (Z.eqb_spec x y) as [E|N];
  [subst|destruct (gtb_case x y N) as [[G L]|[G L]]; rewrite G; clear G].

(* ---------------------------------------------------------------- unfolding equations *)
Lemma isize_nil_r : forall a, isize a [] = O. Proof. destruct a; reflexivity. Qed.
Lemma isize_cons : forall x a y b, isize (x :: a) (y :: b) =
  if x =? y then S (isize a b) else if x >? y then isize (x :: a) b else isize a (y :: b).
Proof. reflexivity. Qed.

Lemma union_nil_r : forall a, union_loop a [] = a. Proof. destruct a; reflexivity. Qed.
Lemma union_cons : forall x a y b, union_loop (x :: a) (y :: b) =
  if x =? y then x :: union_loop a b
  else if x >? y then y :: union_loop (x :: a) b else x :: union_loop a (y :: b).
Proof. reflexivity. Qed.

Lemma minus_nil_r : forall a, set_minus_loop a [] = a. Proof. destruct a; reflexivity. Qed.
Lemma minus_cons : forall x a y b, set_minus_loop (x :: a) (y :: b) =
  if x =? y then set_minus_loop a b
  else if x >? y then set_minus_loop (x :: a) b else x :: set_minus_loop a (y :: b).
Proof. reflexivity. Qed.

Lemma inter_nil_r : forall a, inter_loop a [] = []. Proof. destruct a; reflexivity. Qed.
Lemma inter_cons : forall x a y b, inter_loop (x :: a) (y :: b) =
  if x =? y then x :: inter_loop a b
  else if x >? y then inter_loop (x :: a) b else inter_loop a (y :: b).
Proof. reflexivity. Qed.

Lemma xor_nil_r : forall a, xor_loop a [] = a. Proof. destruct a; reflexivity. Qed.
Lemma xor_cons : forall x a y b, xor_loop (x :: a) (y :: b) =
  if x =? y then xor_loop a b
  else if x >? y then y :: xor_loop (x :: a) b else x :: xor_loop a (y :: b).
Proof. reflexivity. Qed.

Lemma cs_nil_r : forall a, contains_sorted a [] = true. Proof. destruct a; reflexivity. Qed.
Lemma cs_cons : forall x a y b, contains_sorted (x :: a) (y :: b) =
  if x =? y then contains_sorted a b
  else if x >? y then false else contains_sorted a (y :: b).
Proof. reflexivity. Qed.

(* a uniform nested induction over the two suffixes *)
Lemma two_pointer_ind : forall P : list Z -> list Z -> Prop,
  (forall b, P [] b) -> (forall a, P a []) ->
  (forall x a y b, P a b -> P (x :: a) b -> P a (y :: b) -> P (x :: a) (y :: b)) ->
  forall a b, P a b.
Proof.
  intros P H1 H2 H3. induction a as [|x a IHa]; [exact H1|].
  induction b as [|y b IHb]; [apply H2|]. apply H3; [apply IHa|exact IHb|apply IHa].
Qed.

(* ---------------------------------------------------------------- sizes (all lists) *)
Lemma isize_inter : forall a b, isize a b = length (inter_loop a b).
Proof.
  apply (two_pointer_ind (fun a b => isize a b = length (inter_loop a b))).
  - reflexivity.
  - intros a. rewrite isize_nil_r, inter_nil_r. reflexivity.
  - intros x a y b H1 H2 H3. rewrite isize_cons, inter_cons.
    cmp x y; [simpl; rewrite H1; reflexivity|exact H2|exact H3].
Qed.

Lemma isize_union : forall a b, (length (union_loop a b) + isize a b = length a + length b)%nat.
Proof.
  apply (two_pointer_ind (fun a b => (length (union_loop a b) + isize a b = length a + length b)%nat)).
  - intros b. simpl. lia.
  - intros a. rewrite isize_nil_r, union_nil_r. simpl. lia.
  - intros x a y b H1 H2 H3. rewrite isize_cons, union_cons.
    cmp x y; simpl length in *; lia.
Qed.

Lemma isize_minus : forall a b, (length (set_minus_loop a b) + isize a b = length a)%nat.
Proof.
  apply (two_pointer_ind (fun a b => (length (set_minus_loop a b) + isize a b = length a)%nat)).
  - intros b. simpl. lia.
  - intros a. rewrite isize_nil_r, minus_nil_r. lia.
  - intros x a y b H1 H2 H3. rewrite isize_cons, minus_cons.
    cmp x y; simpl length in *; lia.
Qed.

Lemma isize_le : forall a b, (isize a b <= length a)%nat /\ (isize a b <= length b)%nat.
Proof.
  intros a b. pose proof (isize_minus a b). pose proof (isize_union a b).
  pose proof (isize_minus b a). split; [lia|].
  (* isize a b <= length b: by the same induction *)
  clear. revert a b.
  apply (two_pointer_ind (fun a b => (isize a b <= length b)%nat)).
  - intros b. simpl. lia.
  - intros a. rewrite isize_nil_r. lia.
  - intros x a y b H1 H2 H3. rewrite isize_cons. cmp x y; simpl length in *; lia.
Qed.

(* ---------------------------------------------------------------- Union *)
Lemma union_In : forall a b z, In z (union_loop a b) <-> In z a \/ In z b.
Proof.
  apply (two_pointer_ind (fun a b => forall z, In z (union_loop a b) <-> In z a \/ In z b)).
  - intros b z. simpl. tauto.
  - intros a z. rewrite union_nil_r. simpl. tauto.
  - intros x a y b H1 H2 H3 z. rewrite union_cons.
    cmp x y; simpl In at 1; [rewrite H1|rewrite H2|rewrite H3]; simpl; tauto.
Qed.

Lemma union_SInc : forall a b, SInc a -> SInc b -> SInc (union_loop a b).
Proof.
  apply (two_pointer_ind (fun a b => SInc a -> SInc b -> SInc (union_loop a b))).
  - intros b _ H. exact H.
  - intros a H _. rewrite union_nil_r. exact H.
  - intros x a y b H1 H2 H3 Ha Hb. rewrite union_cons.
    pose proof (SInc_inv _ _ Ha) as [Sa La]. pose proof (SInc_inv _ _ Hb) as [Sb Lb].
    cmp x y.
    + apply SInc_cons; [apply H1; assumption|]. intros z Hz. apply union_In in Hz.
      destruct Hz as [Hz|Hz]; [apply La|apply Lb]; exact Hz.
    + apply SInc_cons; [apply H2; assumption|]. intros z Hz. apply union_In in Hz.
      destruct Hz as [[E|Hz]|Hz]; [subst z; exact L|specialize (La _ Hz); lia|apply Lb; exact Hz].
    + apply SInc_cons; [apply H3; assumption|]. intros z Hz. apply union_In in Hz.
      destruct Hz as [Hz|[E|Hz]]; [apply La; exact Hz|subst z; exact L|specialize (Lb _ Hz); lia].
Qed.

(* ---------------------------------------------------------------- Intersection *)
Lemma inter_In : forall a b, SInc a -> SInc b -> forall z, In z (inter_loop a b) <-> In z a /\ In z b.
Proof.
  apply (two_pointer_ind (fun a b => SInc a -> SInc b -> forall z, In z (inter_loop a b) <-> In z a /\ In z b)).
  - intros b _ _ z. simpl. tauto.
  - intros a _ _ z. rewrite inter_nil_r. simpl. tauto.
  - intros x a y b H1 H2 H3 Ha Hb z. rewrite inter_cons.
    pose proof (SInc_inv _ _ Ha) as [Sa La]. pose proof (SInc_inv _ _ Hb) as [Sb Lb].
    pose proof (La z) as Laz. pose proof (Lb z) as Lbz.
    cmp x y.
    + simpl In. rewrite (H1 Sa Sb). intuition (try subst; try lia).
    + rewrite (H2 Ha Sb). simpl In. intuition (try subst; try lia).
    + rewrite (H3 Sa Hb). simpl In. intuition (try subst; try lia).
Qed.

Lemma inter_SInc : forall a b, SInc a -> SInc b -> SInc (inter_loop a b).
Proof.
  apply (two_pointer_ind (fun a b => SInc a -> SInc b -> SInc (inter_loop a b))).
  - intros b _ _. apply SInc_nil.
  - intros a _ _. rewrite inter_nil_r. apply SInc_nil.
  - intros x a y b H1 H2 H3 Ha Hb. rewrite inter_cons.
    pose proof (SInc_inv _ _ Ha) as [Sa La]. pose proof (SInc_inv _ _ Hb) as [Sb Lb].
    cmp x y; [|apply H2; assumption|apply H3; assumption].
    apply SInc_cons; [apply H1; assumption|]. intros z Hz.
    apply (inter_In a b Sa Sb) in Hz. apply La. tauto.
Qed.

(* ---------------------------------------------------------------- SetMinus *)
Lemma minus_In : forall a b, SInc a -> SInc b -> forall z, In z (set_minus_loop a b) <-> In z a /\ ~ In z b.
Proof.
  apply (two_pointer_ind (fun a b => SInc a -> SInc b -> forall z, In z (set_minus_loop a b) <-> In z a /\ ~ In z b)).
  - intros b _ _ z. simpl. tauto.
  - intros a _ _ z. rewrite minus_nil_r. simpl. tauto.
  - intros x a y b H1 H2 H3 Ha Hb z. rewrite minus_cons.
    pose proof (SInc_inv _ _ Ha) as [Sa La]. pose proof (SInc_inv _ _ Hb) as [Sb Lb].
    pose proof (La z) as Laz. pose proof (Lb z) as Lbz.
    cmp x y.
    + rewrite (H1 Sa Sb). simpl In. intuition (try subst; try lia).
    + rewrite (H2 Ha Sb). simpl In. intuition (try subst; try lia).
    + simpl In. rewrite (H3 Sa Hb). simpl In. intuition (try subst; try lia).
Qed.

Lemma minus_SInc : forall a b, SInc a -> SInc b -> SInc (set_minus_loop a b).
Proof.
  apply (two_pointer_ind (fun a b => SInc a -> SInc b -> SInc (set_minus_loop a b))).
  - intros b _ _. apply SInc_nil.
  - intros a H _. rewrite minus_nil_r. exact H.
  - intros x a y b H1 H2 H3 Ha Hb. rewrite minus_cons.
    pose proof (SInc_inv _ _ Ha) as [Sa La]. pose proof (SInc_inv _ _ Hb) as [Sb Lb].
    cmp x y; [apply H1; assumption|apply H2; assumption|].
    apply SInc_cons; [apply H3; assumption|]. intros z Hz.
    apply (minus_In a (y :: b) Sa Hb) in Hz. apply La. tauto.
Qed.

(* ---------------------------------------------------------------- XOR *)
Lemma xor_In : forall a b, SInc a -> SInc b -> forall z,
  In z (xor_loop a b) <-> (In z a /\ ~ In z b) \/ (In z b /\ ~ In z a).
Proof.
  apply (two_pointer_ind (fun a b => SInc a -> SInc b -> forall z,
    In z (xor_loop a b) <-> (In z a /\ ~ In z b) \/ (In z b /\ ~ In z a))).
  - intros b _ _ z. simpl. tauto.
  - intros a _ _ z. rewrite xor_nil_r. simpl. tauto.
  - intros x a y b H1 H2 H3 Ha Hb z. rewrite xor_cons.
    pose proof (SInc_inv _ _ Ha) as [Sa La]. pose proof (SInc_inv _ _ Hb) as [Sb Lb].
    pose proof (La z) as Laz. pose proof (Lb z) as Lbz.
    cmp x y.
    + rewrite (H1 Sa Sb). simpl In. intuition (try subst; try lia).
    + simpl In. rewrite (H2 Ha Sb). simpl In. intuition (try subst; try lia).
    + simpl In. rewrite (H3 Sa Hb). simpl In. intuition (try subst; try lia).
Qed.

Lemma xor_SInc : forall a b, SInc a -> SInc b -> SInc (xor_loop a b).
Proof.
  apply (two_pointer_ind (fun a b => SInc a -> SInc b -> SInc (xor_loop a b))).
  - intros b _ H. exact H.
  - intros a H _. rewrite xor_nil_r. exact H.
  - intros x a y b H1 H2 H3 Ha Hb. rewrite xor_cons.
    pose proof (SInc_inv _ _ Ha) as [Sa La]. pose proof (SInc_inv _ _ Hb) as [Sb Lb].
    cmp x y; [apply H1; assumption| |].
    + apply SInc_cons; [apply H2; assumption|]. intros z Hz.
      apply (xor_In (x :: a) b Ha Sb) in Hz. pose proof (La z). pose proof (Lb z).
      simpl In in Hz. intuition (try subst; try lia).
    + apply SInc_cons; [apply H3; assumption|]. intros z Hz.
      apply (xor_In a (y :: b) Sa Hb) in Hz. pose proof (La z). pose proof (Lb z).
      simpl In in Hz. intuition (try subst; try lia).
Qed.

(* ---------------------------------------------------------------- ContainsSorted *)
Lemma contains_sorted_spec : forall a b, SInc a -> SInc b ->
  (contains_sorted a b = true <-> forall z, In z b -> In z a).
Proof.
  apply (two_pointer_ind (fun a b => SInc a -> SInc b ->
    (contains_sorted a b = true <-> forall z, In z b -> In z a))).
  - intros b _ _. destruct b as [|y b]; simpl.
    + split; [intros _ z []|reflexivity].
    + split; [discriminate|]. intros H. destruct (H y (or_introl eq_refl)).
  - intros a _ _. rewrite cs_nil_r. split; [intros _ z []|reflexivity].
  - intros x a y b H1 H2 H3 Ha Hb. rewrite cs_cons.
    pose proof (SInc_inv _ _ Ha) as [Sa La]. pose proof (SInc_inv _ _ Hb) as [Sb Lb].
    cmp x y.
    + rewrite (H1 Sa Sb). split; intros H z Hz.
      * destruct Hz as [E|Hz]; [left; exact E|right; apply H; exact Hz].
      * destruct (H z (or_intror Hz)) as [E|Hin]; [|exact Hin]. specialize (Lb _ Hz). lia.
    + split; [discriminate|]. intros H. exfalso.
      destruct (H y (or_introl eq_refl)) as [E|Hin]; [lia|]. specialize (La _ Hin). lia.
    + rewrite (H3 Sa Hb). split; intros H z Hz.
      * right. apply H. exact Hz.
      * destruct (H z Hz) as [E|Hin]; [|exact Hin]. subst z.
        destruct Hz as [E|Hz]; [lia|]. specialize (Lb _ Hz). lia.
Qed.

(* ---------------------------------------------------------------- ContainsSingle *)
Lemma contains_single_spec : forall a x, SInc a -> (contains_single a x = true <-> In x a).
Proof.
  intros a x H. unfold contains_single. rewrite <- (search_ints_found a x (SInc_Inc _ H)).
  destruct (nth_error a (search_ints a x)) as [v|].
  - rewrite Z.eqb_eq. split; [intros E; exists v; split; [reflexivity|exact E]|].
    intros [w [E1 E2]]. inversion E1. subst. reflexivity.
  - split; [discriminate|]. intros [w [E1 _]]. discriminate.
Qed.

(* ---------------------------------------------------------------- the API functions *)
Lemma with_cap_nonneg : forall (A : Type) c (r : res A), 0 <= c -> with_cap c r = r.
Proof. intros A c r H. unfold with_cap. destruct (Z.ltb_spec c 0); [lia|reflexivity]. Qed.

Theorem union_spec : forall a b, SInc a -> SInc b ->
  exists r, union a b = Ret r /\ SInc r /\ forall z, In z r <-> In z a \/ In z b.
Proof.
  intros a b Ha Hb. exists (union_loop a b). split; [|split; [apply union_SInc; assumption|apply union_In]].
  unfold union. apply with_cap_nonneg. pose proof (isize_le a b). unfold len. lia.
Qed.

Theorem intersection_spec : forall a b, SInc a -> SInc b ->
  exists r, intersection a b = Ret r /\ SInc r /\ forall z, In z r <-> In z a /\ In z b.
Proof.
  intros a b Ha Hb. exists (inter_loop a b).
  split; [|split; [apply inter_SInc; assumption|apply inter_In; assumption]].
  unfold intersection. apply with_cap_nonneg. lia.
Qed.

Theorem set_minus_spec : forall a b, SInc a -> SInc b ->
  exists r, set_minus a b = Ret r /\ SInc r /\ forall z, In z r <-> In z a /\ ~ In z b.
Proof.
  intros a b Ha Hb. exists (set_minus_loop a b).
  split; [|split; [apply minus_SInc; assumption|apply minus_In; assumption]].
  unfold set_minus. apply with_cap_nonneg. pose proof (isize_le a b). unfold len. lia.
Qed.

Theorem xor_spec : forall a b, SInc a -> SInc b ->
  exists r, xor a b = Ret r /\ SInc r /\
    forall z, In z r <-> (In z a /\ ~ In z b) \/ (In z b /\ ~ In z a).
Proof.
  intros a b Ha Hb. exists (xor_loop a b).
  split; [|split; [apply xor_SInc; assumption|apply xor_In; assumption]].
  unfold xor. apply with_cap_nonneg. pose proof (isize_le a b). unfold len. lia.
Qed.

(* IntersectionSize is the cardinality of the intersection: the length of the (duplicate-free)
   list of common elements *)
Theorem isize_spec : forall a b, SInc a -> SInc b ->
  exists r, isize a b = length r /\ NoDup r /\ forall z, In z r <-> In z a /\ In z b.
Proof.
  intros a b Ha Hb. exists (inter_loop a b). split; [apply isize_inter|].
  split; [apply SInc_NoDup; apply inter_SInc; assumption|apply inter_In; assumption].
Qed.
