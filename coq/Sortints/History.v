(* Sequences of mutations on one value (Add / Remove / the Union method on a backing array).

   mstep_spec  one mutator call on a well-formed receiver returns a well-formed receiver whose
               elements are the mathematical result
   mrun_spec   the same for every history: no call panics and the final elements are the fold of
               the set operations over the initial elements *)
From Coq Require Import List ZArith Lia Bool.
From Mamba Require Import Sortints.Base Sortints.Model Sortints.Spec Sortints.Merge Sortints.Simple
  Sortints.UnionM Sortints.Add.
Import ListNotations.
Open Scope Z_scope.

Definition mop_ok (o : mop) : Prop :=
  match o with MUnion b => SInc b | _ => True end.

Definition mop_sem (o : mop) (S : Z -> Prop) : Z -> Prop :=
  match o with
  | MAdd xs => fun z => S z \/ In z xs
  | MRemove x => fun z => S z /\ z <> x
  | MUnion b => fun z => S z \/ In z b
  end.

Fixpoint hist_sem (ops : list mop) (S : Z -> Prop) : Z -> Prop :=
  match ops with
  | [] => S
  | o :: r => hist_sem r (mop_sem o S)
  end.

Lemma mop_sem_ext : forall o (S S' : Z -> Prop), (forall z, S z <-> S' z) ->
  forall z, mop_sem o S z <-> mop_sem o S' z.
Proof. intros [xs|x|b] S S' H z; cbn [mop_sem]; rewrite (H z); tauto. Qed.

Lemma hist_sem_ext : forall ops (S S' : Z -> Prop), (forall z, S z <-> S' z) ->
  forall z, hist_sem ops S z <-> hist_sem ops S' z.
Proof.
  induction ops as [|o r IH]; intros S S' H z; cbn [hist_sem]; [apply H|].
  apply IH. apply mop_sem_ext. exact H.
Qed.

Lemma view_fresh : forall r, view (fresh r) = r.
Proof. intros r. unfold view, fresh. cbn [fst snd]. apply firstn_all. Qed.

Theorem mstep_spec : forall s o, wf s -> mop_ok o ->
  exists s', mstep s o = Ret s' /\ wf s' /\
             forall z, In z (view s') <-> mop_sem o (fun y => In y (view s)) z.
Proof.
  intros s [xs|x|b] Hw Ho; cbn [mstep mop_sem].
  - destruct Hw as [_ Hs]. destruct (add_spec (view s) xs Hs) as [r [E [Sr Ir]]].
    unfold add_m. rewrite E. cbn [bind]. exists (fresh r). split; [reflexivity|].
    split; [|rewrite view_fresh; exact Ir].
    split; [unfold fresh; cbn [fst snd]; lia|rewrite view_fresh; exact Sr].
  - destruct (remove_m_spec s x Hw) as [W [I _]].
    exists (remove_m s x). split; [reflexivity|]. split; [exact W|exact I].
  - cbn [mop_ok] in Ho. destruct (union_m_spec s b Hw Ho) as [s' [E [W [V _]]]].
    exists s'. split; [exact E|]. split; [exact W|]. intros z. rewrite V. apply union_In.
Qed.

Theorem mrun_spec : forall ops s, wf s -> Forall mop_ok ops ->
  exists s', mrun s ops = Ret s' /\ wf s' /\
             forall z, In z (view s') <-> hist_sem ops (fun y => In y (view s)) z.
Proof.
  induction ops as [|o r IH]; intros s Hw Hops.
  - exists s. split; [reflexivity|]. split; [exact Hw|]. intros z. cbn [hist_sem]. tauto.
  - inversion Hops as [|? ? Ho Hr]; subst.
    destruct (mstep_spec s o Hw Ho) as [s1 [E1 [W1 I1]]].
    destruct (IH s1 W1 Hr) as [s2 [E2 [W2 I2]]].
    exists s2. cbn [mrun]. rewrite E1. cbn [bind]. split; [exact E2|]. split; [exact W2|].
    intros z. rewrite I2. cbn [hist_sem]. apply hist_sem_ext. exact I1.
Qed.

(* ---------------------------------------------------------------- which cells a mutator touches *)
(* Remove: inside the receiver's own array only the cells from the position of x up to the old
   last cell (exclusive) change; the array keeps its length (remove_m_spec). *)
Theorem remove_m_frame : forall s x, wf s ->
  let i := search_ints (view s) x in
  firstn i (fst (remove_m s x)) = firstn i (fst s) /\
  skipn (snd s - 1) (fst (remove_m s x)) = skipn (snd s - 1) (fst s).
Proof.
  intros [arr n] x [Hn Hs] i. unfold view in *. cbn [fst snd] in *. unfold remove_m.
  set (a := firstn n arr) in *. fold i.
  assert (Hla : length a = n) by (unfold a; rewrite firstn_length; lia).
  destruct (nth_error a i) as [v|] eqn:En; [|split; reflexivity].
  destruct (v =? x); [|split; reflexivity]. cbn [fst].
  assert (Hi : (i < n)%nat) by (rewrite <- Hla; apply nth_error_Some; congruence).
  assert (L1 : length (firstn i arr) = i) by (rewrite firstn_length; lia).
  assert (L2 : length (skipn (S i) a) = (n - S i)%nat) by (rewrite skipn_length; lia).
  split.
  - rewrite firstn_app, L1, Nat.sub_diag. simpl firstn at 2. rewrite app_nil_r.
    rewrite firstn_firstn. f_equal. lia.
  - rewrite app_assoc. rewrite skipn_app. rewrite skipn_all2 by (rewrite app_length, L1, L2; lia).
    rewrite app_length, L1, L2. replace (n - 1 - (i + (n - S i)))%nat with 0%nat by lia. reflexivity.
Qed.

(* Add: the new value lives in a freshly made array without spare capacity (tmp = make(n));
   nothing of the receiver's old backing array is part of it, the old array is not written
   (the model of Add has no write to it). *)
Theorem add_m_fresh : forall s xs s', add_m s xs = Ret s' ->
  fst s' = view s' /\ snd s' = length (fst s').
Proof.
  intros s xs s' H. unfold add_m in H. destruct (add (view s) xs) as [r| |]; try discriminate.
  cbn [bind] in H. inversion H. subst s'. split; [symmetry; apply view_fresh|reflexivity].
Qed.

(* The spare capacity of the receiver is never read by Add: only the view matters. *)
Theorem add_m_view_only : forall arr1 arr2 n1 n2 xs,
  view (arr1, n1) = view (arr2, n2) -> add_m (arr1, n1) xs = add_m (arr2, n2) xs.
Proof. intros arr1 arr2 n1 n2 xs H. unfold add_m. rewrite H. reflexivity. Qed.
