(* Specification vocabulary of C17: strictly increasing lists as canonical representations of
   finite sets of integers, and the facts about the modelled library functions. *)
From Coq Require Import List ZArith Lia Bool Sorting.Sorted Sorting.Permutation.
From Mamba Require Import Sortints.Base.
Import ListNotations.
Open Scope Z_scope.

Definition SInc (l : list Z) : Prop := StronglySorted Z.lt l.
Definition Inc (l : list Z) : Prop := StronglySorted Z.le l.

Lemma SInc_nil : SInc [].
Proof. constructor. Qed.

Lemma SInc_cons : forall x l, SInc l -> (forall y, In y l -> x < y) -> SInc (x :: l).
Proof. intros x l H1 H2. constructor; [exact H1|]. apply Forall_forall. exact H2. Qed.

Lemma SInc_inv : forall x l, SInc (x :: l) -> SInc l /\ (forall y, In y l -> x < y).
Proof.
  intros x l H. inversion H as [|? ? H1 H2]; subst. split; [exact H1|].
  intros y Hy. rewrite Forall_forall in H2. exact (H2 y Hy).
Qed.

Lemma SInc_single : forall x, SInc [x].
Proof. intros x. apply SInc_cons; [apply SInc_nil|]. intros y []. Qed.

(* closes [SInc l] for a concrete list l (used by the non-vacuity examples) *)
Ltac sinc :=
  repeat (apply SInc_cons; [|simpl; intros ?y ?Hy;
    repeat match goal with H : _ \/ _ |- _ => destruct H as [<-|H]; [reflexivity|] end;
    match goal with H : False |- _ => destruct H end]);
  apply SInc_nil.

(* a strictly increasing list is determined by its set of elements *)
Lemma SInc_unique : forall l1 l2, SInc l1 -> SInc l2 -> (forall x, In x l1 <-> In x l2) -> l1 = l2.
Proof.
  induction l1 as [|x l1 IH]; intros l2 H1 H2 Heq.
  - destruct l2 as [|y l2]; [reflexivity|]. exfalso. apply (proj2 (Heq y)). left; reflexivity.
  - destruct l2 as [|y l2].
    + exfalso. apply (proj1 (Heq x)). left; reflexivity.
    + apply SInc_inv in H1. destruct H1 as [S1 L1]. apply SInc_inv in H2. destruct H2 as [S2 L2].
      assert (Hxy : x = y).
      { destruct (proj1 (Heq x) (or_introl eq_refl)) as [E|Hin]; [symmetry; exact E|].
        destruct (proj2 (Heq y) (or_introl eq_refl)) as [E|Hin2]; [exact E|].
        specialize (L2 _ Hin). specialize (L1 _ Hin2). lia. }
      subst y. f_equal. apply IH; [exact S1|exact S2|].
      intros z. split; intros Hz.
      * destruct (proj1 (Heq z) (or_intror Hz)) as [E|Hin]; [|exact Hin].
        specialize (L1 _ Hz). lia.
      * destruct (proj2 (Heq z) (or_intror Hz)) as [E|Hin]; [|exact Hin].
        specialize (L2 _ Hz). lia.
Qed.

Lemma SInc_NoDup : forall l, SInc l -> NoDup l.
Proof.
  induction l as [|x l IH]; intros H; [constructor|].
  apply SInc_inv in H. destruct H as [S L]. constructor; [|apply IH; exact S].
  intros Hin. specialize (L _ Hin). lia.
Qed.

Lemma SInc_app : forall l1 l2, SInc l1 -> SInc l2 ->
  (forall x y, In x l1 -> In y l2 -> x < y) -> SInc (l1 ++ l2).
Proof.
  induction l1 as [|a l1 IH]; intros l2 H1 H2 H; simpl; [exact H2|].
  apply SInc_inv in H1. destruct H1 as [S L].
  apply SInc_cons.
  - apply IH; [exact S|exact H2|]. intros x y Hx Hy. apply H; [right; exact Hx|exact Hy].
  - intros y Hy. apply in_app_or in Hy. destruct Hy as [Hy|Hy]; [apply L; exact Hy|].
    apply H; [left; reflexivity|exact Hy].
Qed.

Lemma SInc_app_inv : forall l1 l2, SInc (l1 ++ l2) ->
  SInc l1 /\ SInc l2 /\ (forall x y, In x l1 -> In y l2 -> x < y).
Proof.
  induction l1 as [|a l1 IH]; intros l2 H; simpl in H.
  - split; [apply SInc_nil|]. split; [exact H|]. intros x y [].
  - apply SInc_inv in H. destruct H as [S L]. destruct (IH _ S) as [S1 [S2 HH]].
    split; [|split; [exact S2|]].
    + apply SInc_cons; [exact S1|]. intros y Hy. apply L. apply in_or_app. left; exact Hy.
    + intros x y [Hx|Hx] Hy; [subst x; apply L; apply in_or_app; right; exact Hy|].
      apply HH; [exact Hx|exact Hy].
Qed.

(* ---------------------------------------------------------------- sort.Ints *)
Lemma insert_perm : forall x l, Permutation (x :: l) (insert x l).
Proof.
  intros x l. induction l as [|h t IH]; simpl; [apply Permutation_refl|].
  destruct (x <=? h); [apply Permutation_refl|].
  eapply Permutation_trans; [apply perm_swap|]. apply perm_skip. exact IH.
Qed.

Lemma isort_perm : forall l, Permutation l (isort l).
Proof.
  induction l as [|h t IH]; simpl; [apply Permutation_refl|].
  eapply Permutation_trans; [apply perm_skip; exact IH|]. apply insert_perm.
Qed.

Lemma isort_In : forall l x, In x (isort l) <-> In x l.
Proof.
  intros l x. split; intros H.
  - eapply Permutation_in; [apply Permutation_sym; apply isort_perm|exact H].
  - eapply Permutation_in; [apply isort_perm|exact H].
Qed.

Lemma isort_length : forall l, length (isort l) = length l.
Proof. intros l. symmetry. apply Permutation_length. apply isort_perm. Qed.

Lemma Inc_cons : forall x l, Inc l -> (forall y, In y l -> x <= y) -> Inc (x :: l).
Proof. intros x l H1 H2. constructor; [exact H1|]. apply Forall_forall. exact H2. Qed.

Lemma Inc_inv : forall x l, Inc (x :: l) -> Inc l /\ (forall y, In y l -> x <= y).
Proof.
  intros x l H. inversion H as [|? ? H1 H2]; subst. split; [exact H1|].
  intros y Hy. rewrite Forall_forall in H2. exact (H2 y Hy).
Qed.

Lemma insert_Inc : forall x l, Inc l -> Inc (insert x l).
Proof.
  intros x l. induction l as [|h t IH]; intros H; simpl.
  - apply Inc_cons; [constructor|]. intros y [].
  - apply Inc_inv in H. destruct H as [S L]. destruct (Z.leb_spec x h) as [Hle|Hgt].
    + apply Inc_cons; [apply Inc_cons; [exact S|exact L]|].
      intros y [E|Hy]; [subst y; exact Hle|]. specialize (L _ Hy). lia.
    + apply Inc_cons; [apply IH; exact S|].
      intros y Hy. apply (Permutation_in _ (Permutation_sym (insert_perm x t))) in Hy.
      destruct Hy as [E|Hy]; [subst y; lia|apply L; exact Hy].
Qed.

Lemma isort_Inc : forall l, Inc (isort l).
Proof. induction l as [|h t IH]; simpl; [constructor|apply insert_Inc; exact IH]. Qed.

Lemma SInc_Inc : forall l, SInc l -> Inc l.
Proof.
  induction l as [|x l IH]; intros H; [constructor|].
  apply SInc_inv in H. destruct H as [S L]. apply Inc_cons; [apply IH; exact S|].
  intros y Hy. specialize (L _ Hy). lia.
Qed.

(* a weakly increasing list is determined by its multiset of elements *)
Lemma Inc_perm_unique : forall l1 l2, Inc l1 -> Inc l2 -> Permutation l1 l2 -> l1 = l2.
Proof.
  induction l1 as [|x l1 IH]; intros l2 H1 H2 P.
  - apply Permutation_nil in P. symmetry; exact P.
  - destruct l2 as [|y l2]; [apply Permutation_sym, Permutation_nil in P; discriminate|].
    apply Inc_inv in H1. destruct H1 as [S1 L1]. apply Inc_inv in H2. destruct H2 as [S2 L2].
    assert (Hxy : x = y).
    { assert (Hx : In x (y :: l2)) by (eapply Permutation_in; [exact P|left; reflexivity]).
      assert (Hy : In y (x :: l1)) by (eapply Permutation_in; [apply Permutation_sym; exact P|left; reflexivity]).
      destruct Hx as [E|Hx]; [symmetry; exact E|]. destruct Hy as [E|Hy]; [exact E|].
      specialize (L2 _ Hx). specialize (L1 _ Hy). lia. }
    subst y. f_equal. apply IH; [exact S1|exact S2|]. eapply Permutation_cons_inv; exact P.
Qed.

(* ---------------------------------------------------------------- the canonical form *)
(* remove adjacent repeats (specification only) *)
Fixpoint dedup (l : list Z) : list Z :=
  match l with
  | [] => []
  | x :: t => match t with
              | [] => [x]
              | y :: _ => if x =? y then dedup t else x :: dedup t
              end
  end.

Definition canon (l : list Z) : list Z := dedup (isort l).

Lemma dedup_In : forall l x, In x (dedup l) <-> In x l.
Proof.
  induction l as [|a t IH]; intros x; [tauto|].
  destruct t as [|b t']; [simpl; tauto|].
  change (dedup (a :: b :: t')) with (if a =? b then dedup (b :: t') else a :: dedup (b :: t')).
  destruct (Z.eqb_spec a b) as [E|N].
  - subst b. rewrite IH. simpl. tauto.
  - simpl In at 1. rewrite IH. simpl. tauto.
Qed.

Lemma dedup_SInc : forall l, Inc l -> SInc (dedup l).
Proof.
  induction l as [|a t IH]; intros H; [apply SInc_nil|].
  destruct t as [|b t']; [apply SInc_single|].
  change (dedup (a :: b :: t')) with (if a =? b then dedup (b :: t') else a :: dedup (b :: t')).
  apply Inc_inv in H. destruct H as [S L].
  destruct (Z.eqb_spec a b) as [E|N]; [apply IH; exact S|].
  apply SInc_cons; [apply IH; exact S|].
  intros y Hy. apply (proj1 (dedup_In _ _)) in Hy.
  assert (a <= b) by (apply L; left; reflexivity).
  destruct Hy as [E|Hy]; [subst y; lia|].
  apply Inc_inv in S. destruct S as [_ L']. specialize (L' _ Hy). lia.
Qed.

Lemma canon_SInc : forall l, SInc (canon l).
Proof. intros l. apply dedup_SInc. apply isort_Inc. Qed.

Lemma canon_In : forall l x, In x (canon l) <-> In x l.
Proof. intros l x. unfold canon. rewrite dedup_In. apply isort_In. Qed.

(* the canonical form is the only strictly increasing list with the elements of l *)
Lemma canon_unique : forall l r, SInc r -> (forall x, In x r <-> In x l) -> r = canon l.
Proof.
  intros l r H1 H2. apply SInc_unique; [exact H1|apply canon_SInc|].
  intros x. rewrite canon_In. apply H2.
Qed.

Lemma canon_id : forall l, SInc l -> canon l = l.
Proof. intros l H. symmetry. apply canon_unique; [exact H|tauto]. Qed.

(* ---------------------------------------------------------------- sort.SearchInts *)
Lemma search_ints_le : forall s x, (search_ints s x <= length s)%nat.
Proof. induction s as [|h t IH]; intros x; simpl; [lia|]. destruct (h <? x); [specialize (IH x)|]; lia. Qed.

(* on a strictly increasing list: everything before the index is < x, everything from it on is >= x *)
Lemma search_ints_split : forall s x, Inc s ->
  (forall y, In y (firstn (search_ints s x) s) -> y < x) /\
  (forall y, In y (skipn (search_ints s x) s) -> x <= y).
Proof.
  induction s as [|h t IH]; intros x H; simpl.
  - split; intros y [].
  - apply Inc_inv in H. destruct H as [S L]. destruct (Z.ltb_spec h x) as [Hlt|Hge].
    + destruct (IH x S) as [I1 I2]. split.
      * simpl. intros y [E|Hy]; [subst y; exact Hlt|apply I1; exact Hy].
      * simpl. exact I2.
    + split; [intros y []|]. simpl. intros y [E|Hy]; [subst y; exact Hge|].
      specialize (L _ Hy). lia.
Qed.

Lemma search_ints_found : forall s x, Inc s ->
  (exists v, nth_error s (search_ints s x) = Some v /\ v = x) <-> In x s.
Proof.
  intros s x H. destruct (search_ints_split s x H) as [I1 I2]. split.
  - intros [v [Hn E]]. subst v. eapply nth_error_In; exact Hn.
  - intros Hin. rewrite <- (firstn_skipn (search_ints s x) s) in Hin.
    apply in_app_or in Hin. destruct Hin as [Hin|Hin]; [specialize (I1 _ Hin); lia|].
    remember (search_ints s x) as k eqn:Ek.
    assert (Hs : skipn k s = match nth_error s k with Some v => v :: skipn (S k) s | None => [] end).
    { clear. revert k. induction s as [|h t IH]; intros [|k]; simpl; try reflexivity. apply IH. }
    destruct (nth_error s k) as [v|] eqn:En; [|rewrite Hs in Hin; destruct Hin].
    exists v. split; [reflexivity|].
    assert (Hv : x <= v). { apply I2. rewrite Hs. left; reflexivity. }
    rewrite Hs in Hin. destruct Hin as [E|Hin]; [exact E|].
    (* x is further right: but the list is increasing and v >= x, so v <= x as well *)
    assert (Hvx : v <= x).
    { rewrite <- (firstn_skipn k s) in H. rewrite Hs in H.
      clear - H Hin. induction (firstn k s) as [|a l IHl]; simpl in H.
      - apply Inc_inv in H. destruct H as [_ L]. apply L; exact Hin.
      - apply Inc_inv in H. destruct H as [S _]. apply IHl; exact S. }
    lia.
Qed.
