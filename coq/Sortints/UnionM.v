(* The Union method: the backwards merge into the receiver's own backing array (when the
   capacity suffices) or into a fresh array.

   union_m_spec   for a well-formed receiver (arr, n) and a strictly increasing b the call returns,
                  in both capacity branches, a well-formed value whose view is [union_loop a b]
                  (the strictly increasing list of a ∪ b, see Merge.union_SInc/union_In); in place
                  the array keeps its length and every cell from the new length on, otherwise the
                  new array is exactly the result.

   The loop is read as a forward merge [rmerge] of the two reversed (strictly decreasing)
   prefixes; what it has written is the reverse of the output of [rmerge].  The aliasing
   argument is [rmerge_length_l]: the write position k never drops below the read position i
   (and is strictly above it when b[j] is written). *)
From Coq Require Import List ZArith Lia Bool.
From Mamba Require Import Sortints.Base Sortints.Model Sortints.Spec Sortints.Merge Sortints.Simple.
Import ListNotations.
Open Scope Z_scope.

Fixpoint rmerge (ra rb : list Z) : list Z :=
  match ra with
  | [] => rb
  | x :: ra' =>
    (fix go (rb : list Z) : list Z :=
       match rb with
       | [] => x :: ra'
       | y :: rb' => if x =? y then x :: rmerge ra' rb'
                     else if x >? y then x :: rmerge ra' (y :: rb')
                     else y :: go rb'
       end) rb
  end.

Lemma rmerge_nil_r : forall ra, rmerge ra [] = ra. Proof. destruct ra; reflexivity. Qed.
Lemma rmerge_cons : forall x ra y rb, rmerge (x :: ra) (y :: rb) =
  if x =? y then x :: rmerge ra rb
  else if x >? y then x :: rmerge ra (y :: rb) else y :: rmerge (x :: ra) rb.
Proof. reflexivity. Qed.

Lemma rmerge_length_l : forall ra rb, (length ra <= length (rmerge ra rb))%nat.
Proof.
  apply (two_pointer_ind (fun ra rb => (length ra <= length (rmerge ra rb))%nat)).
  - intros b. simpl. lia.
  - intros a. rewrite rmerge_nil_r. lia.
  - intros x a y b H1 H2 H3. rewrite rmerge_cons.
    destruct (x =? y); [simpl; lia|]. destruct (x >? y); simpl in *; lia.
Qed.

Lemma rmerge_length_r : forall ra rb, (length rb <= length (rmerge ra rb))%nat.
Proof.
  apply (two_pointer_ind (fun ra rb => (length rb <= length (rmerge ra rb))%nat)).
  - intros b. simpl. lia.
  - intros a. rewrite rmerge_nil_r. simpl. lia.
  - intros x a y b H1 H2 H3. rewrite rmerge_cons.
    destruct (x =? y); [simpl; lia|]. destruct (x >? y); simpl in *; lia.
Qed.

Lemma rmerge_In : forall ra rb z, In z (rmerge ra rb) <-> In z ra \/ In z rb.
Proof.
  apply (two_pointer_ind (fun ra rb => forall z, In z (rmerge ra rb) <-> In z ra \/ In z rb)).
  - intros b z. simpl. tauto.
  - intros a z. rewrite rmerge_nil_r. simpl. tauto.
  - intros x a y b H1 H2 H3 z. rewrite rmerge_cons.
    cmp x y; simpl In at 1; [rewrite H1|rewrite H3|rewrite H2]; simpl; tauto.
Qed.

(* strictly decreasing = the reverse increases strictly *)
Definition SDec (l : list Z) : Prop := SInc (rev l).

Lemma SDec_inv : forall x l, SDec (x :: l) -> SDec l /\ forall y, In y l -> y < x.
Proof.
  intros x l H. unfold SDec in *. simpl in H. apply SInc_app_inv in H. destruct H as [S1 [_ L]].
  split; [exact S1|]. intros y Hy. apply L; [apply in_rev in Hy; exact Hy|left; reflexivity].
Qed.

Lemma SDec_cons : forall x l, SDec l -> (forall y, In y l -> y < x) -> SDec (x :: l).
Proof.
  intros x l H L. unfold SDec in *. simpl. apply SInc_app; [exact H|apply SInc_single|].
  intros a b Ha [Hb|[]]. subst b. apply L. apply in_rev. exact Ha.
Qed.

Lemma rmerge_SDec : forall ra rb, SDec ra -> SDec rb -> SDec (rmerge ra rb).
Proof.
  apply (two_pointer_ind (fun ra rb => SDec ra -> SDec rb -> SDec (rmerge ra rb))).
  - intros b _ H. exact H.
  - intros a H _. rewrite rmerge_nil_r. exact H.
  - intros x a y b H1 H2 H3 Ha Hb. rewrite rmerge_cons.
    pose proof (SDec_inv _ _ Ha) as [Sa La]. pose proof (SDec_inv _ _ Hb) as [Sb Lb].
    cmp x y.
    + apply SDec_cons; [apply H1; assumption|]. intros z Hz. apply rmerge_In in Hz.
      destruct Hz as [Hz|Hz]; [apply La|apply Lb]; exact Hz.
    + apply SDec_cons; [apply H3; assumption|]. intros z Hz. apply rmerge_In in Hz.
      destruct Hz as [Hz|[E|Hz]]; [apply La; exact Hz|subst z; exact L|specialize (Lb _ Hz); lia].
    + apply SDec_cons; [apply H2; assumption|]. intros z Hz. apply rmerge_In in Hz.
      destruct Hz as [[E|Hz]|Hz]; [subst z; exact L|specialize (La _ Hz); lia|apply Lb; exact Hz].
Qed.

Lemma rmerge_rev : forall a b, SInc a -> SInc b -> rev (rmerge (rev a) (rev b)) = union_loop a b.
Proof.
  intros a b Ha Hb. apply SInc_unique.
  - apply rmerge_SDec; unfold SDec; rewrite rev_involutive; assumption.
  - apply union_SInc; assumption.
  - intros z. rewrite <- in_rev, rmerge_In, union_In, <- !in_rev. tauto.
Qed.

(* ---------------------------------------------------------------- the loop *)
Definition um_finish (alias : bool) (arr b : list Z) (dl : nat) (r : list Z * Z * Z) : res sl :=
  let '(st, j) := r in
  let '(D, i) := st in
  if 0 <=? i then
    do src <- slice (if alias then D else arr) 0 (i + 1);
    Ret (copy_pre D dl src, dl)
  else if 0 <=? j then
    do src <- slice b 0 (j + 1);
    Ret (copy_pre D dl src, dl)
  else Ret (D, dl).

Lemma union_m_unfold : forall arr n b,
  union_m (arr, n) b =
  let a := firstn n arr in
  let new_size := len a + len b - Z.of_nat (isize a b) in
  let alias := new_size <=? len arr in
  do D0 <- (if alias then Ret arr else make new_size);
  do r <- um_loop (length a + length b) alias arr b D0 (Z.of_nat n) new_size
                  (len a - 1) (len b - 1) (new_size - 1);
  um_finish alias arr b (Z.to_nat new_size) r.
Proof.
  intros arr n b. unfold union_m. cbv zeta.
  destruct (len (firstn n arr) + len b - Z.of_nat (isize (firstn n arr) b) <=? len arr);
    [|destruct (make _)]; cbn [bind]; try reflexivity;
    match goal with |- context [um_loop ?f ?al ?A ?B ?D ?x ?y ?i ?j ?k] =>
      destruct (um_loop f al A B D x y i j k) as [[[D1 i1] j1]| |] end; reflexivity.
Qed.

Lemma um_loop_eq : forall fuel alias A B D alen dlen i j k,
  um_loop fuel alias A B D alen dlen i j k =
  if (0 <=? i) && (0 <=? j) then
    match fuel with
    | O => OutOfFuel
    | S f =>
      do ai <- rdl (if alias then D else A) alen i;
      do bj <- rd B j;
      if ai =? bj then
        do D' <- wrl D dlen k ai; um_loop f alias A B D' alen dlen (i - 1) (j - 1) (k - 1)
      else if ai >? bj then
        do D' <- wrl D dlen k ai; um_loop f alias A B D' alen dlen (i - 1) j (k - 1)
      else
        do D' <- wrl D dlen k bj; um_loop f alias A B D' alen dlen i (j - 1) (k - 1)
    end
  else Ret (D, i, j).
Proof. destruct fuel; reflexivity. Qed.

Lemma nth_of_firstn_snoc : forall (l m : list Z) x, firstn (S (length m)) l = m ++ [x] -> nth (length m) l 0 = x.
Proof.
  intros l m x H. rewrite <- (firstn_skipn (S (length m)) l), H.
  rewrite <- app_assoc. rewrite app_nth2 by lia. rewrite Nat.sub_diag. reflexivity.
Qed.

Lemma firstn_of_firstn_snoc : forall (l m : list Z) x, firstn (S (length m)) l = m ++ [x] -> firstn (length m) l = m.
Proof.
  intros l m x H. replace (firstn (length m) l) with (firstn (length m) (firstn (S (length m)) l)).
  - rewrite H. rewrite firstn_app, Nat.sub_diag, firstn_all. simpl. apply app_nil_r.
  - rewrite firstn_firstn. f_equal. lia.
Qed.

Lemma length_of_firstn : forall (l m : list Z) n, firstn n l = m -> length m = n -> (n <= length l)%nat.
Proof.
  intros l m n H Hl. subst m. rewrite firstn_length in Hl. lia.
Qed.

Lemma rdl_nat : forall l lim i, (i < lim <= length l)%nat ->
  rdl l (Z.of_nat lim) (Z.of_nat i) = Ret (nth i l 0).
Proof.
  intros l lim i H. unfold rdl, len.
  destruct (Z.leb_spec 0 (Z.of_nat i)); [|lia].
  destruct (Z.ltb_spec (Z.of_nat i) (Z.of_nat lim)); [|lia].
  destruct (Z.leb_spec (Z.of_nat lim) (Z.of_nat (length l))); [|lia].
  cbn [andb]. rewrite Nat2Z.id. reflexivity.
Qed.

Lemma wrl_nat : forall l lim i v, (i < lim <= length l)%nat ->
  wrl l (Z.of_nat lim) (Z.of_nat i) v = Ret (upd l i v).
Proof.
  intros l lim i v H. unfold wrl, len.
  destruct (Z.leb_spec 0 (Z.of_nat i)); [|lia].
  destruct (Z.ltb_spec (Z.of_nat i) (Z.of_nat lim)); [|lia].
  destruct (Z.leb_spec (Z.of_nat lim) (Z.of_nat (length l))); [|lia].
  cbn [andb]. rewrite Nat2Z.id. reflexivity.
Qed.

Lemma copy_pre_fits : forall D dl src, (length src <= dl)%nat ->
  copy_pre D dl src = src ++ skipn (length src) D.
Proof.
  intros D dl src H. unfold copy_pre. rewrite Nat.min_r by exact H. rewrite firstn_all. reflexivity.
Qed.

Lemma um_loop_spec : forall fuel (alias : bool) (A B ra rb D : list Z) alen dl i j k,
  (length ra + length rb <= fuel)%nat ->
  firstn (length ra) (if alias then D else A) = rev ra ->
  firstn (length rb) B = rev rb ->
  (length ra <= alen)%nat -> (alen <= length (if alias then D else A))%nat ->
  (length (rmerge ra rb) <= dl)%nat -> (dl <= length D)%nat ->
  i = Z.of_nat (length ra) - 1 -> j = Z.of_nat (length rb) - 1 ->
  k = Z.of_nat (length (rmerge ra rb)) - 1 ->
  (do r <- um_loop fuel alias A B D (Z.of_nat alen) (Z.of_nat dl) i j k; um_finish alias A B dl r)
  = Ret (rev (rmerge ra rb) ++ skipn (length (rmerge ra rb)) D, dl).
Proof.
  induction fuel as [|f IH]; intros alias A B ra rb D alen dl i j k Hf Ha Hb Hal1 Hal2 Hd1 Hd2 Ei Ej Ek;
    rewrite um_loop_eq.
  - (* no fuel: both lists are empty *)
    destruct ra; [|simpl in Hf; lia]. destruct rb; [|simpl in Hf; lia]. subst. reflexivity.
  - destruct ra as [|x ra'].
    { (* a exhausted *)
      assert (Ei' : i = -1) by (cbn [length] in Ei; lia). clear Ei. subst i.
      change (0 <=? -1) with false. cbn [andb bind um_finish]. change (0 <=? -1) with false. cbv iota.
      destruct rb as [|y rb']; [subst; reflexivity|].
      destruct (Z.leb_spec 0 j); [|cbn [length] in *; lia].
      replace (j + 1) with (Z.of_nat (length (y :: rb'))) by lia.
      rewrite slice_nat0.
      2:{ eapply length_of_firstn; [exact Hb|rewrite rev_length; reflexivity]. }
      rewrite Hb. cbn [bind].
      simpl rmerge in *. rewrite copy_pre_fits by (rewrite rev_length; exact Hd1).
      rewrite rev_length. reflexivity. }
    destruct rb as [|y rb'].
    { (* b exhausted *)
      rewrite rmerge_nil_r in *.
      assert (Ej' : j = -1) by (cbn [length] in Ej; lia). clear Ej. subst j.
      change (0 <=? -1) with false. rewrite andb_false_r. cbn [bind um_finish].
      destruct (Z.leb_spec 0 i); [|cbn [length] in *; lia].
      replace (i + 1) with (Z.of_nat (length (x :: ra'))) by lia.
      rewrite slice_nat0.
      2:{ eapply length_of_firstn; [exact Ha|rewrite rev_length; reflexivity]. }
      rewrite Ha. cbn [bind].
      rewrite copy_pre_fits by (rewrite rev_length; exact Hd1).
      rewrite rev_length. reflexivity. }
    (* both non-empty: one step *)
    destruct (Z.leb_spec 0 i); [|cbn [length] in *; lia].
    destruct (Z.leb_spec 0 j); [|cbn [length] in *; lia].
    cbn [andb].
    pose proof Ha as Ha0. pose proof Hb as Hb0.
    simpl rev in Ha, Hb. cbn [length] in Ha, Hb.
    rewrite <- (rev_length ra') in Ha. rewrite <- (rev_length rb') in Hb.
    pose proof (nth_of_firstn_snoc _ _ _ Ha) as Nx. pose proof (nth_of_firstn_snoc _ _ _ Hb) as Ny.
    pose proof (firstn_of_firstn_snoc _ _ _ Ha) as Fa. pose proof (firstn_of_firstn_snoc _ _ _ Hb) as Fb.
    rewrite !rev_length in *.
    assert (LB : (S (length rb') <= length B)%nat).
    { eapply length_of_firstn; [exact Hb|]. rewrite app_length, rev_length. simpl. lia. }
    cbn [length] in Hal1, Hf, Ei, Ej.
    replace i with (Z.of_nat (length ra')) by lia.
    replace j with (Z.of_nat (length rb')) by lia.
    rewrite rdl_nat by lia. rewrite rd_nat by lia. cbn [bind]. rewrite Nx, Ny.
    rewrite rmerge_cons in *.
    pose proof (rmerge_length_l ra' rb') as G1. pose proof (rmerge_length_l ra' (y :: rb')) as G2.
    pose proof (rmerge_length_l (x :: ra') rb') as G3. cbn [length] in G3.
    destruct (x =? y) eqn:Exy; [|destruct (x >? y) eqn:Gxy].
    + (* equal: dst[k] = a[i]; i--, j--, k-- *)
      cbn [length] in Hd1, Ek |- *.
      replace k with (Z.of_nat (length (rmerge ra' rb'))) by lia.
      rewrite wrl_nat by lia. cbn [bind].
      rewrite (IH alias A B ra' rb' (upd D (length (rmerge ra' rb')) x) alen dl); try lia.
      * rewrite skipn_upd_at by lia. simpl rev. rewrite <- app_assoc. reflexivity.
      * destruct alias; [rewrite firstn_upd_ge by lia|]; exact Fa.
      * exact Fb.
      * destruct alias; [rewrite upd_length|]; exact Hal2.
      * rewrite upd_length. exact Hd2.
    + (* a[i] > b[j]: dst[k] = a[i]; i--, k-- *)
      cbn [length] in Hd1, Ek |- *.
      replace k with (Z.of_nat (length (rmerge ra' (y :: rb')))) by lia.
      rewrite wrl_nat by lia. cbn [bind].
      rewrite (IH alias A B ra' (y :: rb') (upd D (length (rmerge ra' (y :: rb'))) x) alen dl); try (cbn [length]; lia).
      * rewrite skipn_upd_at by lia. simpl rev. rewrite <- app_assoc. reflexivity.
      * destruct alias; [rewrite firstn_upd_ge by lia|]; exact Fa.
      * exact Hb0.
      * destruct alias; [rewrite upd_length|]; exact Hal2.
      * rewrite upd_length. exact Hd2.
    + (* a[i] < b[j]: dst[k] = b[j]; j--, k-- *)
      cbn [length] in Hd1, Ek |- *.
      replace k with (Z.of_nat (length (rmerge (x :: ra') rb'))) by lia.
      rewrite wrl_nat by lia. cbn [bind].
      rewrite (IH alias A B (x :: ra') rb' (upd D (length (rmerge (x :: ra') rb')) y) alen dl); try (cbn [length]; lia).
      * rewrite skipn_upd_at by lia. simpl rev. rewrite <- app_assoc. reflexivity.
      * destruct alias; [rewrite firstn_upd_ge by (cbn [length]; lia)|]; exact Ha0.
      * exact Fb.
      * destruct alias; [rewrite upd_length|]; exact Hal2.
      * rewrite upd_length. exact Hd2.
Qed.

(* ---------------------------------------------------------------- the method *)
Theorem union_m_spec : forall s b, wf s -> SInc b ->
  let r := union_loop (view s) b in
  exists s', union_m s b = Ret s' /\ wf s' /\ view s' = r /\ snd s' = length r /\
    (if (length r <=? length (fst s))%nat
     then length (fst s') = length (fst s) /\ skipn (length r) (fst s') = skipn (length r) (fst s)
     else fst s' = r).
Proof.
  intros [arr n] b [Hn Hs] Hb r. unfold view in r, Hs. cbn [fst snd] in *.
  rewrite union_m_unfold. cbv zeta. set (a := firstn n arr) in *.
  assert (Hla : length a = n) by (unfold a; rewrite firstn_length; lia).
  pose proof (isize_union a b) as Hsz. pose proof (isize_le a b) as [Hle1 Hle2].
  assert (Hns : len a + len b - Z.of_nat (isize a b) = Z.of_nat (length r)) by (unfold len, r; lia).
  rewrite Hns. clear Hsz Hle1 Hle2.
  pose proof (rmerge_rev a b Hs Hb) as Hrev. fold r in Hrev.
  assert (Hlr : length (rmerge (rev a) (rev b)) = length r) by (rewrite <- Hrev, rev_length; reflexivity).
  assert (Sr : SInc r) by (apply union_SInc; assumption).
  assert (Hfin : forall D, (length r <= length D)%nat ->
            wf (r ++ skipn (length r) D, length r) /\ view (r ++ skipn (length r) D, length r) = r).
  { intros D HD. assert (V : view (r ++ skipn (length r) D, length r) = r).
    { unfold view. cbn [fst snd]. rewrite firstn_app, Nat.sub_diag, firstn_all. simpl. apply app_nil_r. }
    split; [|exact V]. split; [|rewrite V; exact Sr]. cbn [fst snd]. rewrite app_length. lia. }
  unfold len. rewrite Nat2Z.id. destruct (Z.leb_spec (Z.of_nat (length r)) (Z.of_nat (length arr))) as [Hcap|Hcap].
  - (* in place *)
    cbn [bind].
    rewrite (um_loop_spec (length a + length b) true arr b (rev a) (rev b) arr n (length r));
      try (rewrite ?rev_length; unfold len; lia).
    + rewrite Hrev, Hlr.
      exists (r ++ skipn (length r) arr, length r). split; [reflexivity|].
      destruct (Hfin arr ltac:(lia)) as [W V]. split; [exact W|]. split; [exact V|]. split; [reflexivity|].
      destruct (Nat.leb_spec (length r) (length arr)); [|lia]. cbn [fst snd].
      split.
      * rewrite app_length, skipn_length. lia.
      * rewrite skipn_app, Nat.sub_diag. rewrite skipn_all2 by lia. reflexivity.
    + rewrite rev_length, Hla, rev_involutive. reflexivity.
    + rewrite rev_length, rev_involutive. apply firstn_all.
  - (* fresh array *)
    unfold make. destruct (Z.ltb_spec (Z.of_nat (length r)) 0); [lia|]. cbn [bind].
    rewrite Nat2Z.id.
    rewrite (um_loop_spec (length a + length b) false arr b (rev a) (rev b) (repeat 0 (length r)) n (length r));
      try (rewrite ?rev_length, ?repeat_length; unfold len; lia).
    + rewrite Hrev, Hlr.
      rewrite skipn_all2 by (rewrite repeat_length; lia). rewrite app_nil_r.
      exists (r, length r). split; [reflexivity|].
      assert (V : view (r, length r) = r) by (unfold view; cbn [fst snd]; apply firstn_all).
      split; [split; [cbn [fst snd]; lia|rewrite V; exact Sr]|]. split; [exact V|]. split; [reflexivity|].
      destruct (Nat.leb_spec (length r) (length arr)); [lia|]. reflexivity.
    + rewrite rev_length, Hla, rev_involutive. reflexivity.
    + rewrite rev_length, rev_involutive. apply firstn_all.
Qed.
