(* Shared definitions of the C17 models (definitions only).

   [res] is the result of a modelled Go call: a value, a Go panic (index out of range, slice
   bounds out of range, negative capacity in make, explicit panic) or exhausted fuel.
   Slices are Coq lists; indices are [Z] and every access is checked: out of range is [Panic],
   never a default value.  Library functions are modelled, not verified (DESIGN.md 3.6):
   [isort] stands for sort.Ints, [search_ints] for sort.SearchInts (the smallest index whose
   element is >= x; for a sorted slice this is what the binary search returns), [copy_to]
   for the builtin copy. *)
From Coq Require Import List ZArith Bool.
Import ListNotations.
Open Scope Z_scope.

Inductive res (A : Type) : Type :=
| Ret (a : A)
| Panic
| OutOfFuel.
Arguments Ret {A} a.
Arguments Panic {A}.
Arguments OutOfFuel {A}.

Definition bind {A B : Type} (m : res A) (f : A -> res B) : res B :=
  match m with
  | Ret a => f a
  | Panic => Panic
  | OutOfFuel => OutOfFuel
  end.

Notation "'do' x <- m ; k" := (bind m (fun x => k))
  (at level 200, x pattern, m at level 100, k at level 200, right associativity).

Definition len {A : Type} (l : list A) : Z := Z.of_nat (length l).

Fixpoint upd {A : Type} (l : list A) (i : nat) (v : A) : list A :=
  match l, i with
  | [], _ => []
  | _ :: t, O => v :: t
  | h :: t, S j => h :: upd t j v
  end.

(* data[i] on a slice of length [length l] *)
Definition rd (l : list Z) (i : Z) : res Z :=
  if (0 <=? i) && (i <? len l) then Ret (nth (Z.to_nat i) l 0) else Panic.

(* data[i] = v *)
Definition wr (l : list Z) (i : Z) (v : Z) : res (list Z) :=
  if (0 <=? i) && (i <? len l) then Ret (upd l (Z.to_nat i) v) else Panic.

(* data[i] resp. data[i] = v where the slice is the first [lim] cells of the backing array [l] *)
Definition rdl (l : list Z) (lim : Z) (i : Z) : res Z :=
  if (0 <=? i) && (i <? lim) && (lim <=? len l) then Ret (nth (Z.to_nat i) l 0) else Panic.
Definition wrl (l : list Z) (lim : Z) (i : Z) (v : Z) : res (list Z) :=
  if (0 <=? i) && (i <? lim) && (lim <=? len l) then Ret (upd l (Z.to_nat i) v) else Panic.

(* s[p:q] (the elements only) *)
Definition slice (l : list Z) (p q : Z) : res (list Z) :=
  if (0 <=? p) && (p <=? q) && (q <=? len l)
  then Ret (firstn (Z.to_nat (q - p)) (skipn (Z.to_nat p) l)) else Panic.

(* copy(dst, src) where dst is the whole list: min(len dst, len src) cells are overwritten *)
Definition copy_to (dst src : list Z) : list Z :=
  firstn (length dst) src ++ skipn (length src) dst.

(* copy(tmp[lo:hi], src) with hi - lo = len src, as used by Add: the slice expression panics
   when the bounds are out of range *)
Definition blit (tmp : list Z) (lo : Z) (src : list Z) : res (list Z) :=
  if (0 <=? lo) && (lo + len src <=? len tmp)
  then Ret (firstn (Z.to_nat lo) tmp ++ src ++ skipn (Z.to_nat lo + length src) tmp) else Panic.

(* make([]int, n): panics for negative n *)
Definition make (n : Z) : res (list Z) := if n <? 0 then Panic else Ret (repeat 0 (Z.to_nat n)).
(* make([]int, 0, c) followed by appends: only the capacity check can fail *)
Definition with_cap {A : Type} (c : Z) (r : res A) : res A := if c <? 0 then Panic else r.

(* sort.Ints *)
Fixpoint insert (x : Z) (l : list Z) : list Z :=
  match l with
  | [] => [x]
  | h :: t => if x <=? h then x :: l else h :: insert x t
  end.
Fixpoint isort (l : list Z) : list Z :=
  match l with
  | [] => []
  | h :: t => insert h (isort t)
  end.

(* sort.SearchInts(s, x) *)
Fixpoint search_ints (s : list Z) (x : Z) : nat :=
  match s with
  | [] => O
  | h :: t => if h <? x then S (search_ints t x) else O
  end.
