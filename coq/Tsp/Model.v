(* Model of /repo/tsp/tsplib.go (definitions only).

   LIB issues a sequence of Write calls on the underlying writer:
     0: "TYPE: TSP\n"   1: "DIMENSION: n\n"   2: the four fixed header lines
     3 .. 3+c-1: the writes text/tabwriter issues when the buffered weight section is flushed
     3+c: "EOF\n"
   and returns at the first call that reports an error.  The weight function is called while
   the rows are buffered, i.e. after the three header writes succeeded and before the flush.

   text/tabwriter is not modelled: [chunks] stands for the sequence of writes its Flush issues
   for the buffered cells (a Section variable; the theorems hold for every chunking).  What is
   assumed of it (documented behaviour, checked by the harness on every run): Flush stops at
   the first failing write and returns that error. *)
From Coq Require Import List ZArith Arith Bool.
Import ListNotations.

(* outcome of one Write call: [true] = wrote everything, nil error; [false] = non-nil error
   (with or without a short count, transient or permanent: the writer is any function) *)
Definition writer := nat -> bool.

(* a line of output as the list of its whitespace separated tokens *)
Inductive token := TWord (w : nat) | TNum (z : Z).
(* words: 0 TYPE: 1 TSP 2 DIMENSION: 3 DISPLAY_DATA_TYPE: 4 NO_DISPLAY 5 EDGE_WEIGHT_TYPE:
   6 EXPLICIT 7 EDGE_WEIGHT_FORMAT: 8 LOWER_DIAG_ROW 9 EDGE_WEIGHT_SECTION 10 EOF *)
Definition line := list token.

Definition header1 : list line := [[TWord 0; TWord 1]].
Definition header2 (n : nat) : list line := [[TWord 2; TNum (Z.of_nat n)]].
Definition header3 : list line :=
  [[TWord 3; TWord 4]; [TWord 5; TWord 6]; [TWord 7; TWord 8]; [TWord 9]].
Definition footer : list line := [[TWord 10]].

(* row i of the weight section: weights(i,0) ... weights(i,i-1) 0 *)
Definition row (weights : nat -> nat -> Z) (i : nat) : line :=
  map (fun j => TNum (weights i j)) (seq 0 i) ++ [TNum 0].
Definition rows (weights : nat -> nat -> Z) (n : nat) : list line := map (row weights) (seq 0 n).

(* the calls of the weight function, in order *)
Definition calls (n : nat) : list (nat * nat) :=
  flat_map (fun i => map (fun j => (i, j)) (seq 0 i)) (seq 0 n).

Record result := { err : bool; wcalls : list (nat * nat); attempted : nat }.

Section Lib.
  (* number of Write calls the tabwriter's Flush issues for these rows (when none fails) *)
  Variable chunks : list line -> nat.

  (* first failing index in [from, from+len), if any *)
  Fixpoint first_fail (w : writer) (from len : nat) : option nat :=
    match len with
    | O => None
    | S l => if w from then first_fail w (S from) l else Some from
    end.

  Definition lib (w : writer) (n : nat) (weights : nat -> nat -> Z) : result :=
    if negb (w 0) then {| err := true; wcalls := []; attempted := 1 |}
    else if negb (w 1) then {| err := true; wcalls := []; attempted := 2 |}
    else if negb (w 2) then {| err := true; wcalls := []; attempted := 3 |}
    else
      let c := chunks (rows weights n) in
      match first_fail w 3 c with
      | Some k => {| err := true; wcalls := calls n; attempted := S k |}
      | None =>
        if negb (w (3 + c)) then {| err := true; wcalls := calls n; attempted := 4 + c |}
        else {| err := false; wcalls := calls n; attempted := 4 + c |}
      end.

  (* the complete output when no write fails, as lines of tokens *)
  Definition output (n : nat) (weights : nat -> nat -> Z) : list line :=
    header1 ++ header2 n ++ header3 ++ rows weights n ++ footer.
End Lib.
