(* Proofs about the model of tsp.LIB (C20). *)
From Coq Require Import List ZArith Arith Bool Lia FinFun.
From Mamba Require Import Tsp.Model.
Import ListNotations.

Section LibProofs.
  Variable chunks : list line -> nat.

  Lemma first_fail_none w from len :
    first_fail w from len = None <-> forall k, from <= k < from + len -> w k = true.
  Proof.
    revert from; induction len as [|l IH]; intros from; simpl.
    - split; auto. intros _ k Hk; lia.
    - destruct (w from) eqn:E.
      + rewrite IH. split; intros H k Hk.
        * destruct (Nat.eq_dec k from) as [->|]; auto. apply H; lia.
        * apply H; lia.
      + split; [discriminate|]. intros H. rewrite H in E by lia. discriminate.
  Qed.

  Lemma first_fail_some w from len k :
    first_fail w from len = Some k ->
    from <= k < from + len /\ w k = false /\ forall j, from <= j < k -> w j = true.
  Proof.
    revert from; induction len as [|l IH]; intros from; simpl; [discriminate|].
    destruct (w from) eqn:E.
    - intros H. destruct (IH _ H) as (A & B & C). repeat split; auto; try lia.
      intros j Hj. destruct (Nat.eq_dec j from) as [->|]; auto. apply C; lia.
    - intros H; inversion H; subst. split; [lia|]. split; [exact E|]. intros j Hj; lia.
  Qed.

  (* LIB attempts the writes 0 .. attempted-1, in order, and all but possibly the last succeed *)
  Lemma lib_attempts w n wt :
    1 <= attempted (lib chunks w n wt) <= 4 + chunks (rows wt n) /\
    (forall k, k + 1 < attempted (lib chunks w n wt) -> w k = true) /\
    (err (lib chunks w n wt) = true <-> w (attempted (lib chunks w n wt) - 1) = false).
  Proof.
    unfold lib.
    destruct (w 0) eqn:E0; cbn [negb err attempted wcalls].
    2:{ split; [lia|]. split; [intros k Hk; lia|]. simpl. tauto. }
    destruct (w 1) eqn:E1; cbn [negb err attempted wcalls].
    2:{ split; [lia|]. split; [intros k Hk; destruct k as [|k]; auto; lia|]. simpl. tauto. }
    destruct (w 2) eqn:E2; cbn [negb err attempted wcalls].
    2:{ split; [lia|]. split; [intros k Hk; destruct k as [|[|k]]; auto; lia|].
        simpl. tauto. }
    assert (Hdr : forall k, k < 3 -> w k = true).
    { intros k Hk. destruct k as [|[|[|k]]]; auto; lia. }
    destruct (first_fail w 3 (chunks (rows wt n))) as [k|] eqn:F; cbn [negb err attempted wcalls].
    - apply first_fail_some in F. destruct F as (A & B & C).
      split; [lia|]. split.
      + intros j Hj. destruct (Nat.lt_ge_cases j 3); [auto | apply C; lia].
      + replace (S k - 1) with k by lia. tauto.
    - pose proof (proj1 (first_fail_none _ _ _) F) as G.
      assert (All : forall j, j < 3 + chunks (rows wt n) -> w j = true).
      { intros j Hj. destruct (Nat.lt_ge_cases j 3); [auto | apply G; lia]. }
      destruct (w (3 + chunks (rows wt n))) eqn:E; cbn [negb err attempted wcalls].
      + split; [lia|]. split; [intros j Hj; apply All; lia|].
        replace (4 + chunks (rows wt n) - 1) with (3 + chunks (rows wt n)) by lia.
        rewrite E. split; discriminate.
      + split; [lia|]. split; [intros j Hj; apply All; lia|].
        replace (4 + chunks (rows wt n) - 1) with (3 + chunks (rows wt n)) by lia. tauto.
  Qed.

  (* C20, error clause: success is reported only if every write of the complete output was
     attempted and succeeded; so a failing write at ANY position among the 4 + c writes of the
     complete output (transient or permanent) yields a non-nil error. *)
  Theorem lib_reports_failure w n wt :
    err (lib chunks w n wt) = false <->
    forall k, k < 4 + chunks (rows wt n) -> w k = true.
  Proof.
    pose proof (lib_attempts w n wt) as (A & B & C).
    split.
    - intros E k Hk.
      assert (Last : w (attempted (lib chunks w n wt) - 1) = true).
      { apply Bool.not_false_iff_true. intro X. apply C in X. congruence. }
      (* when err = false the run went through all writes *)
      assert (Full : attempted (lib chunks w n wt) = 4 + chunks (rows wt n)).
      { revert E. unfold lib.
        destruct (w 0); cbn [negb err attempted]; [|discriminate].
        destruct (w 1); cbn [negb err attempted]; [|discriminate].
        destruct (w 2); cbn [negb err attempted]; [|discriminate].
        destruct (first_fail w 3 (chunks (rows wt n))); cbn [negb err attempted]; [discriminate|].
        destruct (w (3 + chunks (rows wt n))); cbn [negb err attempted]; intros;
          [reflexivity | discriminate]. }
      destruct (Nat.eq_dec (k + 1) (attempted (lib chunks w n wt))) as [Eq|Ne].
      + replace k with (attempted (lib chunks w n wt) - 1) by lia. exact Last.
      + apply B. lia.
    - intros All. apply Bool.not_true_iff_false. intro E.
      apply C in E. rewrite All in E; [discriminate | lia].
  Qed.

  Corollary lib_failing_write_gives_error w n wt k :
    k < 4 + chunks (rows wt n) -> w k = false -> err (lib chunks w n wt) = true.
  Proof.
    intros Hk Hf. destruct (err (lib chunks w n wt)) eqn:E; auto.
    rewrite (proj1 (lib_reports_failure w n wt) E k Hk) in Hf. discriminate.
  Qed.

  (* C20, domain clause: weights is only ever called with 0 <= j < i < n ... *)
  Lemma calls_domain n i j : In (i, j) (calls n) <-> j < i < n.
  Proof.
    unfold calls. rewrite in_flat_map. split.
    - intros (x & Hx & Hin). apply in_seq in Hx. apply in_map_iff in Hin.
      destruct Hin as (y & Heq & Hy). inversion Heq; subst. apply in_seq in Hy. lia.
    - intros H. exists i. split; [apply in_seq; lia|]. apply in_map_iff. exists j.
      split; auto. apply in_seq; lia.
  Qed.

  (* ... each such pair exactly once ... *)
  Lemma NoDup_app_disjoint {A} (l1 l2 : list A) :
    NoDup l1 -> NoDup l2 -> (forall x, In x l1 -> ~ In x l2) -> NoDup (l1 ++ l2).
  Proof.
    induction 1 as [|a l1 Ha Hl IH]; intros N2 D; simpl; auto.
    constructor.
    - intros H. apply in_app_or in H. destruct H; [auto | apply (D a); simpl; auto].
    - apply IH; auto. intros x Hx. apply D; simpl; auto.
  Qed.

  Lemma calls_nodup n : NoDup (calls n).
  Proof.
    induction n as [|n IH]; [constructor|].
    assert (E : calls (S n) = calls n ++ map (fun j => (n, j)) (seq 0 n)).
    { unfold calls. rewrite seq_S, flat_map_app. simpl. now rewrite app_nil_r. }
    rewrite E. apply NoDup_app_disjoint; auto.
    - apply Injective_map_NoDup; [|apply seq_NoDup]. intros a b H; inversion H; auto.
    - intros [i j] H1 H2. apply calls_domain in H1. apply in_map_iff in H2.
      destruct H2 as (y & Heq & _). inversion Heq; subst. lia.
  Qed.

  Theorem lib_weights_domain w n wt i j :
    In (i, j) (wcalls (lib chunks w n wt)) -> j < i < n.
  Proof.
    unfold lib.
    destruct (w 0); cbn [negb wcalls]; [|contradiction].
    destruct (w 1); cbn [negb wcalls]; [|contradiction].
    destruct (w 2); cbn [negb wcalls]; [|contradiction].
    destruct (first_fail w 3 (chunks (rows wt n))); cbn [negb wcalls].
    - apply calls_domain.
    - destruct (w (3 + chunks (rows wt n))); cbn [negb wcalls]; apply calls_domain.
  Qed.

  (* ... and, once the header is out, all of them in row order, whatever fails later *)
  Theorem lib_weights_calls w n wt :
    w 0 = true -> w 1 = true -> w 2 = true -> wcalls (lib chunks w n wt) = calls n.
  Proof.
    intros E0 E1 E2. unfold lib. rewrite E0, E1, E2. cbn [negb wcalls].
    destruct (first_fail w 3 (chunks (rows wt n))); cbn [negb wcalls]; auto.
    destruct (w (3 + chunks (rows wt n))); auto.
  Qed.

  (* C20, content clause (on the lines-of-tokens view of the output; tabwriter only pads
     cells with blanks, which the token view ignores): DIMENSION is n, the weight section has
     n rows, row i is weights(i,0) .. weights(i,i-1) followed by 0, then EOF. *)
  Theorem output_shape n wt :
    exists rs, output n wt = [[TWord 0; TWord 1]; [TWord 2; TNum (Z.of_nat n)]] ++ header3 ++ rs ++ [[TWord 10]] /\
      length rs = n /\
      forall i, i < n -> nth i rs [] = map (fun j => TNum (wt i j)) (seq 0 i) ++ [TNum 0].
  Proof.
    exists (rows wt n). split; [reflexivity|]. unfold rows. split.
    - now rewrite map_length, seq_length.
    - intros i Hi. rewrite nth_indep with (d' := row wt 0) by (now rewrite map_length, seq_length).
      rewrite map_nth. rewrite seq_nth by auto. reflexivity.
  Qed.
End LibProofs.
