(* RestrictedPrefixPermutations agrees with filtering the unrestricted enumeration: the list it
   yields is the sublist of the list yielded by LexicographicPermutations(n) (theorem
   [lexperm_enumerates] of Iter/PermEnum.v) of the permutations passing all prefix tests. *)
From Coq Require Import List ZArith Lia Arith Bool Sorted Permutation.
From Mamba Require Import Iter.Model Iter.Enum Iter.Lex Iter.Product Iter.ProductRP Iter.AlgX Iter.AlgXRun
  Iter.Pattern Iter.PatternRun Iter.PermUtil Iter.PermEnum.
Import ListNotations.
Open Scope Z_scope.

Theorem rpperm_is_filter : forall f n,
  exists l e lp ep,
    drain (rpperm_next f) rpperm_value (S (length l)) (rpperm_init n) = Some (l, e) /\
    drain lexperm_next lexperm_value (S (length lp)) (lexperm_init n) = Some (lp, ep) /\
    l = filter (allok f) lp /\ exhausted (rpperm_next f) e.
Proof.
  intros f n.
  destruct (rpperm_enumerates_exact f n) as (l & e & Hd & Hs & _ & Hin & Hex).
  destruct (lexperm_enumerates n) as (lp & ep & Hdp & Hsp & _ & Hinp & _).
  exists l, e, lp, ep. split; [exact Hd|]. split; [apply Hdp; lia|]. split; [|exact Hex].
  apply (sorted_unique (list Z) lex_lt (fun z => Permutation z (iota n))); auto.
  - intros x _. apply lex_irrefl.
  - intros x y z Hx Hy _. apply lex_trans.
    rewrite (Permutation_length Hx), (Permutation_length Hy). auto.
  - apply sorted_filter; auto.
  - intros x Hx. apply Hin in Hx. apply Hx.
  - intros x. rewrite Hin, filter_In, Hinp. unfold in_rpperm. tauto.
Qed.

(* PermutationsByPattern yields, in its own (depth-first) order, exactly the members of the
   enumeration of LexicographicPermutations(n) all of whose standardised prefixes are accepted *)
Theorem pattern_is_filter : forall f n,
  exists l e lp ep,
    drain (pattern_next f) pattern_value (S (length l)) (pattern_init n) = Some (l, e) /\
    drain lexperm_next lexperm_value (S (length lp)) (lexperm_init n) = Some (lp, ep) /\
    Permutation l (filter (patok f) lp) /\ exhausted (pattern_next f) e.
Proof.
  intros f n.
  destruct (pattern_enumerates f n) as (l & e & Hd & Hnd & Hin & Hex & _).
  destruct (lexperm_enumerates n) as (lp & ep & Hdp & _ & Hndp & Hinp & _).
  exists l, e, lp, ep. split; [exact Hd|]. split; [apply Hdp; lia|]. split; [|exact Hex].
  apply NoDup_Permutation; auto.
  - apply NoDup_filter. auto.
  - intros x. rewrite Hin, filter_In, Hinp. unfold in_pattern. tauto.
Qed.
