(* itertools.TopologicalSorts (Algorithm V): for every n and every [less] that is a sub-relation
   of the natural order on 0..n-1 (not necessarily transitive), the iterator yields exactly the
   permutations of 0..n-1 in which u stands before v whenever less u v, each once (in the
   lexicographic order of their inversion tables), and then reports exhaustion for ever. *)
From Coq Require Import List ZArith Lia Arith Bool Sorted Permutation.
From Mamba Require Import Iter.Model Iter.Enum Iter.Lex Iter.PermUtil Iter.TopoOrder Iter.TopoStep Iter.TopoLoop.
Import ListNotations.
Open Scope Z_scope.

Section Fixed.
Variable n : nat.
Variable less : Z -> Z -> bool.
Hypothesis less_sub : forall u v, (u < n)%nat -> (v < n)%nat -> lessn less u v = true -> (u < v)%nat.

Notation t_inv := (t_inv n).
Notation resp := (resp n less).
Notation home := (home n).
Notation max_at := (max_at n less).

Lemma rot_resp : forall st st2 k jn, perm n st -> perm n st2 -> (k < n)%nat ->
  P st k = jn -> (jn <= k)%nat -> (forall v, (k < v < n)%nat -> P st v = v) ->
  P st2 k = k ->
  (forall v, (v < n)%nat -> v <> k ->
     P st2 v = if (jn <? P st v)%nat && (P st v <=? k)%nat then (P st v - 1)%nat else P st v) ->
  resp st -> resp st2.
Proof.
  intros st st2 k jn Hp Hp2 Hk Pk Hjk Hhome Qk Qo R u v Hu Hv Hless.
  pose proof (R u v Hu Hv Hless) as Hlt. pose proof (less_sub u v Hu Hv Hless) as Huv.
  assert (Hne : forall w, (w < n)%nat -> w <> k -> P st w <> jn).
  { intros w Hw N E. rewrite <- Pk in E. apply (P_inj n st) in E; auto. }
  destruct (Nat.eq_dec u k) as [->|Nu]; destruct (Nat.eq_dec v k) as [->|Nv]; try lia.
  - rewrite Qk, (Qo v) by auto. rewrite (Hhome v) by lia.
    destruct (Nat.ltb_spec jn v); destruct (Nat.leb_spec v k); simpl; lia.
  - rewrite Qk, (Qo u) by auto.
    destruct (Nat.ltb_spec jn (P st u)); destruct (Nat.leb_spec (P st u) k); simpl; lia.
  - rewrite (Qo u), (Qo v) by auto. pose proof (Hne u Hu Nu). pose proof (Hne v Hv Nv).
    destruct (Nat.ltb_spec jn (P st u)); destruct (Nat.leb_spec (P st u) k);
    destruct (Nat.ltb_spec jn (P st v)); destruct (Nat.leb_spec (P st v) k); simpl; lia.
Qed.

(* a blocked k goes home and the loop continues below it *)
Lemma blocked_code : forall st inv k st1 inv1, t_inv st inv -> home st (S k) -> (k < n)%nat ->
  (sv inv k = O \/ less (nth (sv inv k - 1) st 0) (Z.of_nat k) = true) ->
  ts_shift (k - sv inv k) (sv inv k) st inv = Some (st1, inv1) -> length st1 = n -> length inv1 = n ->
  ts_loop (S k) less st inv = ts_loop k less (upd st1 k (Z.of_nat k)) (upd inv1 k (Z.of_nat k)).
Proof.
  intros st inv k st1 inv1 T H Hk Hb E L1 L1'.
  pose proof (rot_facts n st inv k T H Hk) as (Hjk & Ek & Ejn).
  pose proof T as (Ls & Li & Hs & Hv).
  cbn [ts_loop]. rewrite (get_nth inv k) by lia. rewrite Ejn.
  set (jn := sv inv k) in *.
  assert (Esw : (if Z.of_nat jn >? 0
           then l <- getZ st (Z.of_nat jn - 1);;
                (if negb (less l (Z.of_nat k))
                 then st0 <- setZ st (Z.of_nat jn - 1) (Z.of_nat k);;
                      st2 <- setZ st0 (Z.of_nat jn) l;;
                      inv0 <- set inv k (Z.of_nat jn - 1);;
                      inv2 <- setZ inv0 l (Z.of_nat jn);; Some (Some (st2, inv2))
                 else Some None)
           else Some None) = Some None).
  { destruct (Z.gtb_spec (Z.of_nat jn) 0) as [Hpos|]; auto.
    replace (Z.of_nat jn - 1) with (Z.of_nat (jn - 1)) by lia.
    rewrite getZ_nat, (get_nth st (jn - 1)) by lia.
    destruct Hb as [H0|Hl]; [lia|]. rewrite Hl. reflexivity. }
  rewrite Esw. rewrite idx_nat. rewrite E. rewrite set_upd by lia. rewrite set_upd by lia. reflexivity.
Qed.

Lemma ts_loop_spec : forall c st inv, (c <= n)%nat -> t_inv st inv -> resp st -> home st c ->
  (exists st' inv' k0, ts_loop c less st inv = Some (st', inv', true) /\ t_inv st' inv' /\ resp st' /\
      home st' (S k0) /\ (k0 < c)%nat /\ (forall k, (k < k0)%nat -> r st' k = r st k) /\
      r st' k0 = S (r st k0) /\ (forall i, (k0 < i < c)%nat -> max_at st i))
  \/ (exists st' inv', ts_loop c less st inv = Some (st', inv', false) /\ forall i, (i < c)%nat -> max_at st i).
Proof.
  induction c as [|k IH]; intros st inv Hc T R H.
  - right. exists st, inv. split; [reflexivity|]. intros; lia.
  - assert (Hk : (k < n)%nat) by lia.
    pose proof (tinv_perm n st inv T) as Hp.
    pose proof (rot_facts n st inv k T H Hk) as (Hjk & Ek & Ejn).
    set (jn := sv inv k) in *.
    assert (Pk : P st k = jn) by (apply (tinv_P n st inv); auto).
    assert (Hdec : ((1 <= jn)%nat /\ less (nth (jn - 1) st 0) (Z.of_nat k) = false) \/
                   (jn = O \/ less (nth (jn - 1) st 0) (Z.of_nat k) = true)).
    { destruct (Nat.eq_dec jn 0); [right; left; auto|].
      destruct (less (nth (jn - 1) st 0) (Z.of_nat k)); [right; right; auto|left; split; [lia|auto]]. }
    destruct Hdec as [[Hj1 Hnl]|Hb].
    + (* exchange with the left neighbour *)
      left.
      pose proof (swap_facts n st inv k T H Hk Hj1) as (Hjn & _ & Hrl & El & Hlk).
      pose proof (swap_tinv n st inv k T H Hk Hj1) as T2.
      pose proof (swap_P n st inv k T H Hk Hj1) as (P1 & P2 & Q1 & Q2 & Qo).
      pose proof (swap_resp n less less_sub st inv k T R H Hk Hj1 Hnl) as R2.
      pose proof (swap_home n st inv k T H Hk Hj1) as H2.
      pose proof (swap_code n less st inv k T H Hk Hj1 Hnl) as Ecode.
      fold jn in Hjn, Hrl, El, Hlk, T2, P1, P2, Q1, Q2, Qo, R2, H2, Ecode.
      set (ln := Z.to_nat (nth (jn - 1) st 0)) in *.
      set (st2 := upd (upd st (jn - 1) (Z.of_nat k)) jn (nth (jn - 1) st 0)) in *.
      set (inv2 := upd (upd inv k (Z.of_nat jn - 1)) ln (Z.of_nat jn)) in *.
      pose proof (tinv_perm n st2 inv2 T2) as Hp2.
      destruct (r_swap n st st2 Hp k ln (jn - 1)%nat Hlk Hk) as [Hoth Hk0]; auto; try lia.
      exists st2, inv2, k. split; [exact Ecode|]. split; auto. split; auto. split; auto. split; [lia|].
      split; [intros k' Hk'; apply Hoth; lia|]. split; auto. intros; lia.
    + (* blocked: k returns home *)
      assert (Hmax : max_at st k).
      { apply blocked_max; auto. rewrite Pk. destruct Hb as [H0|Hl]; [left; auto|].
        destruct (Nat.eq_dec jn 0); [left; auto|right].
        pose proof (swap_facts n st inv k T H Hk ltac:(fold jn; lia)) as (Hjn & _ & Hrl & El & Hlk).
        pose proof (swap_P n st inv k T H Hk ltac:(fold jn; lia)) as (_ & P2 & _).
        fold jn in Hrl, El, Hlk, P2.
        exists (Z.to_nat (nth (jn - 1) st 0)). split; [auto|]. split; [rewrite P2; lia|].
        unfold lessn. rewrite Z2Nat.id by lia. exact Hl. }
      destruct (rot_exists n st inv k T H Hk) as (st1 & inv1 & Eshift & T2 & H2 & Qk & Qo).
      cbv zeta in T2, H2, Qk, Qo. fold jn in Eshift, Qo.
      set (st2 := upd st1 k (Z.of_nat k)) in *. set (inv2 := upd inv1 k (Z.of_nat k)) in *.
      pose proof (tinv_perm n st2 inv2 T2) as Hp2.
      assert (L1 : length st1 = n).
      { destruct T2 as (L & _). unfold st2 in L. rewrite upd_length in L. auto. }
      assert (L1' : length inv1 = n).
      { destruct T2 as (_ & L & _). unfold inv2 in L. rewrite upd_length in L. auto. }
      assert (Hhome : forall v, (k < v < n)%nat -> P st v = v).
      { intros v Hv. apply (home_P n st inv (S k)); auto; lia. }
      assert (R2 : resp st2).
      { apply (rot_resp st st2 k jn); auto. }
      destruct (r_rotate n st st2 Hp k jn Hk Pk Hjk Hhome Qk Qo) as [Hoth Hk0].
      rewrite (blocked_code st inv k st1 inv1 T H Hk Hb Eshift L1 L1'). fold st2 inv2.
      destruct (IH st2 inv2 ltac:(lia) T2 R2 H2)
        as [(st' & inv' & k0 & E & T' & R' & H' & Hk0' & Hlow & Hinc & Hmx)|(st' & inv' & E & Hmx)].
      * left. exists st', inv', k0. split; [exact E|]. split; auto. split; auto. split; auto. split; [lia|].
        split; [intros k' Hk'; rewrite Hlow by auto; apply Hoth; lia|].
        split; [rewrite Hinc; f_equal; apply Hoth; lia|].
        intros i Hi. destruct (Nat.eq_dec i k) as [->|]; auto.
        apply (max_at_ext n less st2 st); [intros k' Hk'; apply Hoth; lia|]. apply Hmx. lia.
      * right. exists st', inv'. split; [exact E|].
        intros i Hi. destruct (Nat.eq_dec i k) as [->|]; auto.
        apply (max_at_ext n less st2 st); [intros k' Hk'; apply Hoth; lia|]. apply Hmx. lia.
Qed.

(* ------------------------------------------------------------------ the enumeration *)

Definition topo_lt (x y : list Z) : Prop := lex_lt (tau n x) (tau n y).

Definition topo_live (s : ts_st) : Prop :=
  ts_n s = n /\ ts_first s = false /\ ts_done s = false /\ t_inv (ts_state s) (ts_inv s) /\ resp (ts_state s).

Definition topo_fin (s : ts_st) : Prop := ts_done s = true.

Definition tau_F (t : list Z) : Prop := exists z, topo_F n less z /\ t = tau n z.

Lemma tau_F_length : forall t, tau_F t -> length t = n.
Proof. intros t (z & _ & ->). apply tau_length. Qed.

Lemma topo_fin_step : forall s, topo_fin s -> exists s', topo_next less s = Some (s', false) /\ topo_fin s'.
Proof. intros s H. exists s. unfold topo_next. rewrite H. auto. Qed.

Lemma topo_live_step : forall s, topo_live s ->
  topo_F n less (topo_value s) /\
  ((exists s', topo_next less s = Some (s', true) /\ topo_live s' /\
      topo_lt (topo_value s) (topo_value s') /\
      forall z, topo_F n less z -> topo_lt (topo_value s) z -> topo_lt z (topo_value s') -> False)
   \/ (exists s', topo_next less s = Some (s', false) /\ topo_fin s' /\
         forall z, topo_F n less z -> ~ topo_lt (topo_value s) z)).
Proof.
  intros [st inv sn fi dn] (Hn & Hf & Hd & T & R). cbn [ts_n ts_first ts_done ts_state ts_inv] in *. subst.
  unfold topo_value. cbn [ts_state].
  pose proof (tinv_perm n st inv T) as Hp.
  split; [split; auto|].
  unfold topo_next. cbn [ts_n ts_first ts_done ts_state ts_inv].
  destruct (ts_loop_spec n st inv (le_n n) T R ltac:(intros i Hi; lia))
    as [(st' & inv' & k0 & E & T' & R' & H' & Hk0 & Hlow & Hinc & Hmx)|(st' & inv' & E & Hmx)].
  - left. rewrite E. eexists. split; [reflexivity|]. cbn [ts_state negb].
    split; [split; [reflexivity|split; [reflexivity|split; [reflexivity|split; [exact T'|exact R']]]]|].
    pose proof (tinv_perm n st' inv' T') as Hp'.
    assert (Hzero : forall i, (k0 < i < n)%nat -> r st' i = O).
    { intros i Hi. apply (r_home n); auto; try lia. intros v Hv. apply (home_P n st' inv' (S k0)); auto. lia. }
    cbn [ts_state]. split.
    + exists k0. rewrite tau_length. split; [auto|]. split.
      * intros i Hi. rewrite !nth_tau by lia. rewrite Hlow by auto. reflexivity.
      * rewrite !nth_tau by lia. lia.
    + intros z Fz H1 H2.
      apply (lex_no_between tau_F n (tau n st) (tau n st') k0) with (z := tau n z); auto;
        try apply tau_length; try exact tau_F_length.
      * intros i Hi. rewrite !nth_tau by lia. rewrite Hlow by auto. reflexivity.
      * rewrite !nth_tau by lia. lia.
      * intros t (w & Fw & ->) _. rewrite !nth_tau by lia. lia.
      * intros t i (w & Fw & ->) Hi A. rewrite !nth_tau by lia.
        apply inj_le. apply Hmx; auto. intros k Hk.
        specialize (A k Hk). rewrite !nth_tau in A by lia. lia.
      * intros t i (w & Fw & ->) Hi A. rewrite !nth_tau by lia. rewrite Hzero by lia. lia.
      * exists z. auto.
  - right. rewrite E. eexists. split; [reflexivity|]. split; [reflexivity|].
    intros z Fz Hlt.
    apply (lex_greatest tau_F (tau n st)) with (z := tau n z); auto; [|exists z; auto].
    intros t i (w & Fw & ->) Hi A. rewrite tau_length in Hi. rewrite !nth_tau by lia.
    apply inj_le. apply Hmx; auto. intros k Hk.
    specialize (A k Hk). rewrite !nth_tau in A by lia. lia.
Qed.

Lemma topo_finite : exists all : list (list Z), forall z, topo_F n less z -> In z all.
Proof.
  exists (lists_over n (iota n)). intros z [Hp _]. apply lists_over_complete.
  - apply perm_length. auto.
  - intros v Hv. eapply Permutation_in; eauto.
Qed.

Lemma iota_tinv : t_inv (iota n) (iota n).
Proof.
  split; [apply iota_length|]. split; [apply iota_length|].
  split; intros i Hi; unfold sv; rewrite !nth_iota by auto; rewrite Nat2Z.id; rewrite nth_iota by auto; lia.
Qed.

Theorem topo_enumerates_sorted :
  exists fuel l e, drain (topo_next less) topo_value fuel (topo_init n) = Some (l, e) /\
    StronglySorted topo_lt l /\ (forall x, In x l <-> topo_F n less x) /\ exhausted (topo_next less) e.
Proof.
  apply (enumerates_sorted ts_st (list Z) (topo_next less) topo_value topo_lt (topo_F n less) topo_live topo_fin).
  - intros x _. apply lex_irrefl.
  - intros x y z _ _ _. apply lex_trans. rewrite !tau_length. auto.
  - intros x y [Hx _] [Hy _]. destruct (lex_total (tau n x) (tau n y)) as [E|[H|H]]; auto.
    + rewrite !tau_length. auto.
    + left. apply (tau_inj n); auto.
  - exact topo_finite.
  - exact topo_live_step.
  - exact topo_fin_step.
  - left. eexists. split; [reflexivity|]. cbn [topo_init ts_state ts_inv ts_n].
    pose proof iota_tinv as T.
    assert (HP : forall v, (v < n)%nat -> P (iota n) v = v).
    { intros v Hv. rewrite (tinv_P n (iota n) (iota n)) by auto. unfold sv. rewrite nth_iota by auto. lia. }
    split.
    + split; [reflexivity|]. split; [reflexivity|]. split; [reflexivity|]. split; [exact T|].
      intros u v Hu Hv Hless. rewrite !HP by auto. apply less_sub; auto.
    + unfold topo_value. cbn [ts_state]. intros z Fz Hlt.
      apply (lex_least tau_F (tau n (iota n))) with (z := tau n z); auto; [|exists z; auto].
      intros t i (w & Fw & ->) Hi _. rewrite tau_length in Hi. rewrite !nth_tau by lia.
      rewrite (r_home n (iota n) i); [lia|apply (tinv_perm n _ _ T)|auto|intros; apply HP; lia].
Qed.

End Fixed.

Theorem topo_enumerates : forall n less,
  (forall u v, (u < n)%nat -> (v < n)%nat -> less (Z.of_nat u) (Z.of_nat v) = true -> (u < v)%nat) ->
  enumerates (topo_next less) topo_value (topo_lt n) (topo_F n less) (topo_init n).
Proof.
  intros n less H. apply enumerates_of_sorted.
  - intros x _. apply lex_irrefl.
  - apply topo_enumerates_sorted. exact H.
Qed.
