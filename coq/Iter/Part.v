(* itertools.Partitions(n), n >= 1: the model of Next() runs through all restricted growth
   strings of length n (a[0] = 0, 0 <= a[j] <= 1 + max(a[0..j-1])), each once, in lexicographic
   order, and then reports exhaustion for ever.  (Partitions(0) panics by design: parts_init 0 =
   None.)  The blocks returned by Value() are treated in PartBlocks.v. *)
From Coq Require Import List ZArith Lia Arith Bool Sorted.
From Mamba Require Import Iter.Model Iter.Enum Iter.Lex Iter.PermUtil.
Import ListNotations.
Open Scope Z_scope.

(* ------------------------------------------------------------------ restricted growth strings *)

(* maximum of the first j entries; -1 for the empty prefix, so that a[0] <= pmax a 0 + 1 = 0 *)
Fixpoint pmax (a : list Z) (j : nat) : Z :=
  match j with
  | O => -1
  | S j' => Z.max (pmax a j') (nth j' a 0)
  end.

Definition is_rgs (a : list Z) : Prop :=
  forall j, (j < length a)%nat -> 0 <= nth j a 0 <= pmax a j + 1.

Lemma pmax_ext : forall a a' j, (forall i, (i < j)%nat -> nth i a 0 = nth i a' 0) -> pmax a j = pmax a' j.
Proof.
  induction j as [|j IH]; intros H; [reflexivity|].
  cbn [pmax]. rewrite IH by (intros; apply H; lia). rewrite (H j) by lia. reflexivity.
Qed.

Lemma pmax_ge_m1 : forall a j, -1 <= pmax a j.
Proof. induction j; cbn [pmax]; lia. Qed.

Lemma pmax_mono : forall a j k, (j <= k)%nat -> pmax a j <= pmax a k.
Proof. induction k as [|k IH]; intros H; [assert (j = O) by lia; subst; lia|].
  destruct (Nat.eq_dec j (S k)) as [->|]; [lia|]. cbn [pmax]. specialize (IH ltac:(lia)). lia. Qed.

Lemma pmax_ge_nth : forall a i j, (i < j)%nat -> nth i a 0 <= pmax a j.
Proof.
  intros a i j H. pose proof (pmax_mono a (S i) j H). cbn [pmax] in H0. lia.
Qed.

(* entries that do not exceed the maximum so far do not change it *)
Lemma pmax_flat : forall a k i, (k <= i)%nat -> (forall t, (k <= t < i)%nat -> nth t a 0 <= pmax a k) ->
  pmax a i = pmax a k.
Proof.
  induction i as [|i IH]; intros Hk H; [assert (k = O) by lia; subst; reflexivity|].
  destruct (Nat.eq_dec k (S i)) as [->|]; [reflexivity|].
  cbn [pmax]. rewrite IH by (try lia; intros; apply H; lia). specialize (H i ltac:(lia)). lia.
Qed.

Lemma rgs_pmax_bound : forall a, is_rgs a -> forall j, (j <= length a)%nat -> pmax a j <= Z.of_nat j - 1.
Proof.
  intros a R. induction j as [|j IH]; intros Hj; [simpl; lia|].
  cbn [pmax]. specialize (IH ltac:(lia)). specialize (R j ltac:(lia)). lia.
Qed.

Definition rgs_F (n : nat) (x : list Z) : Prop := length x = n /\ is_rgs x.

Lemma rgs_finite : forall n, exists all : list (list Z), forall x, rgs_F n x -> In x all.
Proof.
  intros n. exists (all_lists n n). intros x [Hl R]. apply all_lists_complete; auto.
  intros i Hi. pose proof (R i ltac:(lia)). pose proof (rgs_pmax_bound x R i ltac:(lia)). lia.
Qed.

(* ------------------------------------------------------------------ the loops *)

Lemma pt_fill_spec : forall cnt k m a b, (k + cnt <= length a)%nat -> (k + cnt <= length b)%nat ->
  exists a' b', pt_fill cnt k m a b = Some (a', b') /\ length a' = length a /\ length b' = length b /\
    (forall i, nth i a' 0 = if (k <=? i)%nat && (i <? k + cnt)%nat then 0 else nth i a 0) /\
    (forall i, nth i b' 0 = if (k <=? i)%nat && (i <? k + cnt)%nat then m else nth i b 0).
Proof.
  induction cnt as [|c IH]; intros k m a b Ha Hb.
  - exists a, b. split; [reflexivity|]. split; auto. split; auto.
    split; intros i; destruct (Nat.leb_spec k i); destruct (Nat.ltb_spec i (k + 0)); simpl; auto; lia.
  - cbn [pt_fill]. rewrite set_upd by lia. rewrite set_upd by lia.
    destruct (IH (S k) m (upd a k 0) (upd b k m)) as (a' & b' & E & La & Lb & Na & Nb);
      try (rewrite upd_length; lia).
    exists a', b'. split; [exact E|]. rewrite upd_length in La, Lb. split; auto. split; auto.
    split; intros i.
    + rewrite Na. rewrite nth_upd by lia.
      destruct (Nat.leb_spec (S k) i); destruct (Nat.ltb_spec i (S k + c));
      destruct (Nat.leb_spec k i); destruct (Nat.ltb_spec i (k + S c)); destruct (Nat.eqb_spec k i);
      simpl; auto; lia.
    + rewrite Nb. rewrite nth_upd by lia.
      destruct (Nat.leb_spec (S k) i); destruct (Nat.ltb_spec i (S k + c));
      destruct (Nat.leb_spec k i); destruct (Nat.ltb_spec i (k + S c)); destruct (Nat.eqb_spec k i);
      simpl; auto; lia.
Qed.

Definition pt_newm (a b : list Z) (j : nat) : Z :=
  if nth j a 0 + 1 =? nth j b 0 then nth j b 0 + 1 else nth j b 0.

Lemma pt_loop_found : forall c n a b j, length a = n -> length b = n ->
  (1 <= j <= c)%nat -> (S c < n)%nat -> nth j a 0 <> nth j b 0 ->
  (forall i, (j < i <= c)%nat -> nth i a 0 = nth i b 0) ->
  exists a' b', pt_loop c n a b = Some (Some (pt_newm a b j, a', b')) /\
    length a' = n /\ length b' = n /\
    (forall i, (i < n)%nat -> nth i a' 0 =
       if (i <? j)%nat then nth i a 0 else if (i =? j)%nat then nth j a 0 + 1 else 0) /\
    (forall i, nth i b' 0 = if (j <? i)%nat && (i <? n - 1)%nat then pt_newm a b j else nth i b 0).
Proof.
  induction c as [|c IH]; intros n a b j Ha Hb Hj Hc Hne Heq; [lia|].
  cbn [pt_loop]. rewrite (get_nth a (S c)), (get_nth b (S c)) by lia.
  destruct (Nat.eq_dec j (S c)) as [->|Hjc].
  - destruct (Z.eqb_spec (nth (S c) a 0) (nth (S c) b 0)); [lia|]. cbn [negb].
    rewrite set_upd by lia.
    set (a1 := upd a (S c) (nth (S c) a 0 + 1)).
    destruct (pt_fill_spec (n - 1 - S (S c)) (S (S c)) (pt_newm a b (S c)) a1 b) as (a2 & b2 & E & La & Lb & Na & Nb).
    { unfold a1. rewrite upd_length. lia. }
    { lia. }
    fold (pt_newm a b (S c)). rewrite E.
    unfold a1 in La. rewrite upd_length in La.
    rewrite set_upd by lia.
    exists (upd a2 (n - 1) 0), b2. split; [reflexivity|]. split; [rewrite upd_length; lia|]. split; [lia|].
    split.
    + intros i Hi. rewrite nth_upd by lia. rewrite Na. unfold a1. rewrite nth_upd by lia.
      destruct (Nat.eqb_spec (n - 1) i); destruct (Nat.leb_spec (S (S c)) i);
      destruct (Nat.ltb_spec i (S (S c) + (n - 1 - S (S c)))); destruct (Nat.eqb_spec (S c) i);
      destruct (Nat.ltb_spec i (S c)); destruct (Nat.eqb_spec i (S c)); simpl; auto; try lia.
    + intros i. rewrite Nb.
      destruct (Nat.leb_spec (S (S c)) i); destruct (Nat.ltb_spec i (S (S c) + (n - 1 - S (S c))));
      destruct (Nat.ltb_spec (S c) i); destruct (Nat.ltb_spec i (n - 1)); simpl; auto; lia.
  - destruct (Z.eqb_spec (nth (S c) a 0) (nth (S c) b 0)) as [_|C].
    + cbn [negb]. apply IH; auto; try lia. intros i Hi. apply Heq. lia.
    + specialize (Heq (S c) ltac:(lia)). lia.
Qed.

Lemma pt_loop_none : forall c n a b, length a = n -> length b = n -> (c = 0 \/ S c < n)%nat ->
  (forall i, (1 <= i <= c)%nat -> nth i a 0 = nth i b 0) -> pt_loop c n a b = Some None.
Proof.
  induction c as [|c IH]; intros n a b Ha Hb Hc Heq; [reflexivity|].
  cbn [pt_loop]. rewrite (get_nth a (S c)), (get_nth b (S c)) by lia.
  destruct (Z.eqb_spec (nth (S c) a 0) (nth (S c) b 0)) as [_|C].
  - cbn [negb]. apply IH; auto; try lia. intros i Hi. apply Heq. lia.
  - specialize (Heq (S c) ltac:(lia)). lia.
Qed.

(* every array either agrees with b on 1..c or has a last position of disagreement *)
Lemma last_diff : forall (a b : list Z) c,
  (forall i, (1 <= i <= c)%nat -> nth i a 0 = nth i b 0) \/
  exists j, (1 <= j <= c)%nat /\ nth j a 0 <> nth j b 0 /\ forall i, (j < i <= c)%nat -> nth i a 0 = nth i b 0.
Proof.
  intros a b. induction c as [|c [IH|(j & Hj & Hne & Heq)]].
  - left. intros; lia.
  - destruct (Z.eq_dec (nth (S c) a 0) (nth (S c) b 0)) as [E|E].
    + left. intros i Hi. destruct (Nat.eq_dec i (S c)) as [->|]; auto. apply IH. lia.
    + right. exists (S c). split; [lia|]. split; auto. intros; lia.
  - destruct (Z.eq_dec (nth (S c) a 0) (nth (S c) b 0)) as [E|E].
    + right. exists j. split; [lia|]. split; auto. intros i Hi.
      destruct (Nat.eq_dec i (S c)) as [->|]; auto. apply Heq. lia.
    + right. exists (S c). split; [lia|]. split; auto. intros; lia.
Qed.

(* ------------------------------------------------------------------ invariant and steps *)

Section Fixed.
Variable n' : nat.
Let n := S n'.

Definition pt_mk (a b : list Z) (m : Z) : pt_st := {| pt_n := n; pt_m := m; pt_a := a; pt_b := b |}.

Definition pt_inv (a b : list Z) (m : Z) : Prop :=
  length a = n /\ length b = n /\ is_rgs a /\
  (forall j, (1 <= j)%nat -> (S j < n)%nat -> nth j b 0 = pmax a j + 1) /\
  m = pmax a n' + 1.

Definition pt_last (a b : list Z) (m : Z) : Prop :=
  (forall i, (1 <= i)%nat -> (S i < n)%nat -> nth i a 0 = nth i b 0) /\ nth n' a 0 = m.

Definition pt_live (s : pt_st) : Prop := exists a b m, s = pt_mk a b m /\ pt_inv a b m.
Definition pt_done (s : pt_st) : Prop := exists a b m, s = pt_mk a b m /\ pt_inv a b m /\ pt_last a b m.

Lemma rgs_F_length : forall z, rgs_F n z -> length z = n.
Proof. intros z [H _]. exact H. Qed.

(* a member that agrees with a before i is at most pmax a i + 1 at i *)
Lemma rgs_upper : forall a z i, rgs_F n z -> (i < n)%nat -> agree a z i -> nth i z 0 <= pmax a i + 1.
Proof.
  intros a z i [Hl R] Hi A. rewrite (pmax_ext a z i A). apply R. lia.
Qed.

Lemma pt_live_step : forall s, pt_live s ->
  rgs_F n (parts_rgs s) /\
  ((exists s', parts_next s = Some (s', true) /\ pt_live s' /\
      lex_lt (parts_rgs s) (parts_rgs s') /\
      forall z, rgs_F n z -> lex_lt (parts_rgs s) z -> lex_lt z (parts_rgs s') -> False)
   \/ (exists s', parts_next s = Some (s', false) /\ pt_done s' /\
         forall z, rgs_F n z -> ~ lex_lt (parts_rgs s) z)).
Proof.
  intros s (a & b & m & -> & Hinv).
  pose proof Hinv as (Ha & Hb & R & Hbv & Hm).
  unfold parts_rgs, pt_mk. cbn [pt_a].
  split; [split; auto|].
  unfold parts_next. cbn [pt_n pt_m pt_a pt_b].
  replace (n - 1)%nat with n' by (unfold n; lia).
  rewrite (get_nth a n') by (unfold n in *; lia).
  pose proof (R n' ltac:(unfold n in *; lia)) as Rlast. rewrite <- Hm in Rlast.
  destruct (Z.eqb_spec (nth n' a 0) m) as [Elast|Nlast].
  - destruct (last_diff a b (n - 2)) as [Hall|(j & Hj & Hne & Heq)].
    + (* the last string *)
      right. rewrite (pt_loop_none (n - 2) n a b) by (auto; unfold n; lia).
      exists (pt_mk a b m). split; [reflexivity|].
      assert (Hlast : pt_last a b m).
      { split; auto. intros i Hi Hi'. apply Hall. lia. }
      split; [exists a, b, m; auto|].
      apply lex_greatest. intros z i Fz Hi A. rewrite Ha in Hi.
      pose proof (rgs_upper a z i Fz Hi A) as Hu.
      destruct (Nat.eq_dec i n') as [->|Hin]; [lia|].
      destruct i as [|i]; [simpl in Hu; pose proof (R O ltac:(lia)); lia|].
      rewrite (Hall (S i)) by (unfold n in *; lia). rewrite Hbv by (unfold n in *; lia). exact Hu.
    + (* increase a[j], reset what follows *)
      left.
      destruct (pt_loop_found (n - 2) n a b j Ha Hb Hj ltac:(unfold n in *; lia) Hne Heq)
        as (a' & b' & E & La & Lb & Na & Nb).
      rewrite E.
      assert (Hjn : (S j < n)%nat) by (unfold n in *; lia).
      pose proof (Hbv j ltac:(lia) Hjn) as Hbj.
      pose proof (R j ltac:(lia)) as Rj.
      assert (Hlt : nth j a 0 + 1 <= nth j b 0) by lia.
      assert (Hpre : forall i, (i < j)%nat -> nth i a' 0 = nth i a 0).
      { intros i Hi. rewrite Na by lia. destruct (Nat.ltb_spec i j); [auto|lia]. }
      assert (Hat : nth j a' 0 = nth j a 0 + 1).
      { rewrite Na by lia. destruct (Nat.ltb_spec j j); [lia|]. rewrite Nat.eqb_refl. auto. }
      assert (Hpost : forall i, (j < i < n)%nat -> nth i a' 0 = 0).
      { intros i Hi. rewrite Na by lia. destruct (Nat.ltb_spec i j); [lia|].
        destruct (Nat.eqb_spec i j); [lia|auto]. }
      assert (Hpm : pmax a' j = pmax a j).
      { apply pmax_ext. intros i Hi. apply Hpre. auto. }
      assert (Hnewm : pt_newm a b j = pmax a' (S j) + 1).
      { unfold pt_newm. cbn [pmax]. rewrite Hpm, Hat.
        destruct (Z.eqb_spec (nth j a 0 + 1) (nth j b 0)); lia. }
      assert (Hflat : forall i, (S j <= i <= n)%nat -> pmax a' i = pmax a' (S j)).
      { intros i Hi. apply pmax_flat; [lia|]. intros t Ht. rewrite Hpost by lia.
        pose proof (pmax_ge_nth a' j (S j) ltac:(lia)). lia. }
      assert (Hinv' : pt_inv a' b' (pt_newm a b j)).
      { split; auto. split; auto. split; [|split].
        - intros i Hi. rewrite La in Hi. destruct (lt_eq_lt_dec i j) as [[C|C]|C].
          + rewrite Hpre by auto. rewrite (pmax_ext a' a i) by (intros; apply Hpre; lia).
            apply R. lia.
          + subst i. rewrite Hat, Hpm. lia.
          + rewrite Hpost by lia. pose proof (pmax_ge_m1 a' i). lia.
        - intros i Hi Hi'. rewrite Nb.
          destruct (Nat.ltb_spec j i); destruct (Nat.ltb_spec i (n - 1)); simpl; try lia.
          + rewrite Hflat by lia. auto.
          + rewrite Hbv by lia. f_equal. apply pmax_ext. intros t Ht. symmetry. apply Hpre. lia.
        - rewrite Hnewm. f_equal. symmetry. apply Hflat. unfold n in *. lia. }
      exists (pt_mk a' b' (pt_newm a b j)). split; [reflexivity|].
      split; [exists a', b', (pt_newm a b j); auto|]. cbn [pt_mk pt_a].
      split.
      * exists j. split; [lia|]. split; [|lia]. intros i Hi. symmetry. auto.
      * apply (lex_no_between (rgs_F n) n a a' j); auto; try lia.
        -- exact rgs_F_length.
        -- intros i Hi. symmetry. auto.
        -- intros z i Fz Hi A. pose proof (rgs_upper a z i Fz ltac:(lia) A) as Hu.
           destruct (Nat.eq_dec i n') as [->|Hin]; [lia|].
           rewrite (Heq i) by (unfold n in *; lia). rewrite Hbv by (unfold n in *; lia). exact Hu.
        -- intros z i [Hl Rz] Hi A. rewrite Hpost by lia. apply (Rz i). lia.
  - (* a[n-1] < m: increase it *)
    left. rewrite set_upd by (unfold n in *; lia).
    set (a' := upd a n' (nth n' a 0 + 1)).
    assert (Hpre : forall i, (i < n')%nat -> nth i a' 0 = nth i a 0).
    { intros i Hi. unfold a'. apply nth_upd_neq. lia. }
    assert (Hat : nth n' a' 0 = nth n' a 0 + 1).
    { unfold a'. apply nth_upd_eq. unfold n in *. lia. }
    assert (Hpm : forall i, (i <= n')%nat -> pmax a' i = pmax a i).
    { intros i Hi. apply pmax_ext. intros t Ht. apply Hpre. lia. }
    assert (Hinv' : pt_inv a' b m).
    { split; [unfold a'; rewrite upd_length; auto|]. split; auto. split; [|split].
      - intros i Hi. unfold a' in Hi. rewrite upd_length in Hi.
        destruct (Nat.eq_dec i n') as [->|Hin].
        + rewrite Hat, Hpm by lia. lia.
        + rewrite Hpre, Hpm by (unfold n in *; lia). apply R. lia.
      - intros i Hi Hi'. rewrite Hpm by (unfold n in *; lia). apply Hbv; auto.
      - rewrite Hpm by lia. auto. }
    exists (pt_mk a' b m). split; [reflexivity|].
    split; [exists a', b, m; auto|]. cbn [pt_mk pt_a].
    split.
    * exists n'. split; [unfold n in *; lia|]. split; [|lia]. intros i Hi. symmetry. auto.
    * apply (lex_no_between (rgs_F n) n a a' n'); auto; try lia.
      -- exact rgs_F_length.
      -- destruct Hinv' as [H _]. exact H.
      -- intros i Hi. symmetry. auto.
Qed.

Lemma pt_done_step : forall s, pt_done s -> exists s', parts_next s = Some (s', false) /\ pt_done s'.
Proof.
  intros s (a & b & m & -> & Hinv & Hlast).
  pose proof Hinv as (Ha & Hb & R & Hbv & Hm). destruct Hlast as [Hall Hend].
  exists (pt_mk a b m). split; [|exists a, b, m; split; [reflexivity|split; [exact Hinv|split; auto]]].
  unfold parts_next, pt_mk. cbn [pt_n pt_m pt_a pt_b].
  replace (n - 1)%nat with n' by (unfold n; lia).
  rewrite (get_nth a n') by (unfold n in *; lia).
  destruct (Z.eqb_spec (nth n' a 0) m); [|lia].
  rewrite (pt_loop_none (n - 2) n a b);
    [reflexivity|auto|auto|unfold n; lia|intros i Hi; apply Hall; unfold n in *; lia].
Qed.

End Fixed.

Lemma pmax_zeros : forall a j, (forall i, (i < j)%nat -> nth i a 0 = 0) -> (1 <= j)%nat -> pmax a j = 0.
Proof.
  induction j as [|j IH]; intros H Hj; [lia|]. cbn [pmax]. rewrite (H j) by lia.
  destruct j as [|j]; [reflexivity|]. rewrite IH by (try lia; intros; apply H; lia). reflexivity.
Qed.

Lemma nth_rep1 : forall k i, (i < k)%nat -> nth i (repeat 1 k) 0 = 1.
Proof. induction k; intros [|i] H; simpl; try lia; auto. apply IHk. lia. Qed.

Theorem parts_enumerates_sorted : forall n', exists s0, parts_init (S n') = Some s0 /\
  exists fuel l e, drain parts_next parts_rgs fuel s0 = Some (l, e) /\
    StronglySorted lex_lt l /\ (forall x, In x l <-> rgs_F (S n') x) /\ exhausted parts_next e.
Proof.
  intros n'. eexists. split; [reflexivity|]. set (n := S n').
  apply (enumerates_sorted pt_st (list Z) parts_next parts_rgs lex_lt (rgs_F n) (pt_live n') (pt_done n')).
  - intros x _. apply lex_irrefl.
  - intros x y z [Hx _] [Hy _] _. apply lex_trans. lia.
  - intros x y [Hx _] [Hy _]. apply lex_total. lia.
  - apply rgs_finite.
  - apply pt_live_step.
  - apply pt_done_step.
  - left.
    set (a0 := repeat 0 n' ++ [-1]). set (b0 := repeat 1 n). set (m0 := if (n =? 1)%nat then 0 else 1).
    assert (La : length a0 = n) by (unfold a0; rewrite app_length, repeat_length; simpl; unfold n; lia).
    exists (pt_mk n' (upd a0 n' 0) b0 m0). split.
    + unfold parts_next. cbn [pt_n pt_m pt_a pt_b]. fold a0. fold n.
      replace (n - 1)%nat with n' by (unfold n; lia).
      rewrite (get_nth a0 n') by (unfold n in *; lia).
      assert (E : nth n' a0 0 = -1).
      { unfold a0. rewrite app_nth2 by (rewrite repeat_length; lia). rewrite repeat_length, Nat.sub_diag. reflexivity. }
      rewrite E. fold m0. destruct (Z.eqb_spec (-1) m0); [unfold m0 in *; destruct (n =? 1)%nat; lia|].
      rewrite set_upd by (unfold n in *; lia). reflexivity.
    + assert (Hz : forall i, (i < n)%nat -> nth i (upd a0 n' 0) 0 = 0).
      { intros i Hi. rewrite nth_upd by (unfold n in *; lia). destruct (Nat.eqb_spec n' i); auto.
        unfold a0. rewrite app_nth1 by (rewrite repeat_length; unfold n in *; lia). apply nth_repeat0. }
      split.
      * exists (upd a0 n' 0), b0, m0. split; [reflexivity|].
        split; [rewrite upd_length; auto|]. split; [unfold b0; apply repeat_length|]. split; [|split].
        -- intros i Hi. rewrite upd_length, La in Hi. rewrite Hz by auto.
           pose proof (pmax_ge_m1 (upd a0 n' 0) i). lia.
        -- intros j Hj Hj'. rewrite pmax_zeros by (auto; intros; apply Hz; lia).
           unfold b0. rewrite nth_rep1 by lia. reflexivity.
        -- unfold m0. destruct n' as [|k]; [reflexivity|].
           rewrite pmax_zeros by (try lia; intros; apply Hz; unfold n; lia).
           reflexivity.
      * unfold parts_rgs, pt_mk. cbn [pt_a]. apply lex_least. intros z i [Hl Rz] Hi _.
        rewrite Hz by lia. apply (Rz i). lia.
Qed.

Theorem parts_enumerates : forall n', exists s0, parts_init (S n') = Some s0 /\
  enumerates parts_next parts_rgs lex_lt (rgs_F (S n')) s0.
Proof.
  intros n'. destruct (parts_enumerates_sorted n') as (s0 & E & H).
  exists s0. split; auto. apply enumerates_of_sorted; auto. intros x _. apply lex_irrefl.
Qed.
