(* itertools.LexicographicPermutations and itertools.MultisetPermutations (the same Next):
   array-level specification of one call.  If the array has an ascent, with j the rightmost
   one and l the rightmost position holding a value larger than a[j], the call returns true and
   leaves a[l] at j followed by the reversal of the tail in which a[j] took the place of a[l];
   otherwise (non-increasing array) it returns false and changes nothing. *)
From Coq Require Import List ZArith Lia Arith Bool.
From Mamba Require Import Iter.Model Iter.Lex Iter.PermUtil.
Import ListNotations.
Open Scope Z_scope.

(* where the entry at i of the new array comes from *)
Definition np_sigma (n j l i : nat) : nat :=
  if (i <? j)%nat then i else if (i =? j)%nat then l else
  let p := (n + j - i)%nat in if (p =? l)%nat then j else p.

Ltac nat_cases := repeat (match goal with
  | |- context[Nat.eqb ?a ?b] => destruct (Nat.eqb_spec a b)
  | |- context[Nat.ltb ?a ?b] => destruct (Nat.ltb_spec a b)
  | |- context[Nat.leb ?a ?b] => destruct (Nat.leb_spec a b)
  end; try (exfalso; lia)).

Ltac fin := cbn [andb orb negb]; try lia; try (f_equal; lia).

Lemma lp_rev_spec : forall fuel k l a, (k <= l + 1)%nat -> (l < length a)%nat -> (l - k <= 2 * fuel)%nat ->
  exists a', lp_rev fuel k l a = Some a' /\ length a' = length a /\
    forall i, nth i a' 0 = if (k <=? i)%nat && (i <=? l)%nat then nth (k + l - i) a 0 else nth i a 0.
Proof.
  induction fuel as [|f IH]; intros k l a Hkl Hl Hf.
  - cbn [lp_rev]. destruct (Nat.ltb_spec k l); [lia|].
    exists a. split; [reflexivity|]. split; [reflexivity|]. intros i. nat_cases; fin.
  - cbn [lp_rev]. destruct (Nat.ltb_spec k l) as [Hlt|Hge].
    + rewrite swap_swp by lia.
      destruct (IH (S k) (l - 1)%nat (swp a k l)) as (a' & E & Hlen & Hnth); try lia.
      { rewrite swp_length. lia. }
      exists a'. split; [exact E|]. split; [rewrite Hlen; apply swp_length|].
      intros i. rewrite Hnth. rewrite !nth_swp by lia. nat_cases; fin.
    + exists a. split; [reflexivity|]. split; [reflexivity|]. intros i. nat_cases; fin.
Qed.

Lemma lp_find_spec : forall l0 j n a lt, (j < length a)%nat -> (l0 < length a)%nat ->
  (1 <= lt <= l0)%nat -> nth j a 0 < nth lt a 0 ->
  (forall i, (lt < i <= l0)%nat -> nth i a 0 <= nth j a 0) ->
  lp_find l0 j n a = (a1 <- swap a j lt ;; swap a1 (n - 1) (S j)).
Proof.
  induction l0 as [|l' IH]; intros j n a lt Hj Hl Hlt Hgt Hle; [lia|].
  cbn [lp_find]. rewrite (get_nth a j Hj), (get_nth a (S l') Hl).
  destruct (Nat.eq_dec lt (S l')) as [->|Hne].
  - destruct (Z.geb_spec (nth j a 0) (nth (S l') a 0)); [lia|]. reflexivity.
  - destruct (Z.geb_spec (nth j a 0) (nth (S l') a 0)) as [_|C].
    + apply IH; auto; try lia. intros i Hi. apply Hle. lia.
    + specialize (Hle (S l') ltac:(lia)). lia.
Qed.

(* j is the rightmost ascent and l the rightmost position with a larger value than a[j] *)
Definition asc_at (a : list Z) (n j l : nat) : Prop :=
  (S j < n)%nat /\ nth j a 0 < nth (S j) a 0 /\
  (forall i, (j < i)%nat -> (S i < n)%nat -> nth (S i) a 0 <= nth i a 0) /\
  (j < l < n)%nat /\ nth j a 0 < nth l a 0 /\
  (forall i, (l < i < n)%nat -> nth i a 0 <= nth j a 0).

Definition nonincr (a : list Z) (n : nat) : Prop :=
  forall i, (S i < n)%nat -> nth (S i) a 0 <= nth i a 0.

Definition np_result (a a' : list Z) (n j l : nat) : Prop :=
  length a' = n /\ forall i, (i < n)%nat -> nth i a' 0 = nth (np_sigma n j l i) a 0.

Lemma lp_loop_spec : forall c n a j l, length a = n -> asc_at a n j l -> (j < c)%nat -> (c + 3 <= n)%nat ->
  exists a', lp_loop c n a = Some (Some a') /\ np_result a a' n j l.
Proof.
  induction c as [|c IH]; intros n a j l Hlen Hasc Hjc Hcn; [lia|].
  pose proof Hasc as (H1 & Hup & Hdesc & Hl & Hlgt & Hlmax).
  cbn [lp_loop]. rewrite (get_nth a c), (get_nth a (S c)) by lia.
  destruct (Nat.eq_dec c j) as [->|Hne].
  - destruct (Z.geb_spec (nth j a 0) (nth (S j) a 0)); [lia|].
    rewrite (get_nth a (n - 1)) by lia.
    destruct (Z.ltb_spec (nth j a 0) (nth (n - 1) a 0)) as [Hlast|Hlast].
    + (* the last entry is already larger: l = n-1 *)
      assert (l = (n - 1)%nat).
      { destruct (Nat.eq_dec l (n - 1)); auto. specialize (Hlmax (n - 1)%nat ltac:(lia)). lia. }
      subst l.
      rewrite set_upd by lia. rewrite set_upd by (rewrite ?upd_length; lia).
      rewrite set_upd by (rewrite ?upd_length; lia).
      set (b := upd (upd (upd a j (nth (n - 1) a 0)) (S j) (nth j a 0)) (n - 1) (nth (S j) a 0)).
      destruct (lp_rev_spec n (j + 2) (n - 2) b) as (a' & E & Hl' & Hnth); try lia.
      { unfold b. rewrite !upd_length. lia. }
      rewrite E. exists a'. split; [reflexivity|]. split.
      * rewrite Hl'. unfold b. rewrite !upd_length. auto.
      * intros i Hi. rewrite Hnth. unfold b, np_sigma.
        rewrite !nth_upd by (rewrite ?upd_length; lia).
        clear - H1 Hi Hcn Hjc. nat_cases; fin.
    + (* search for l from n-2 downwards *)
      assert (l <> (n - 1)%nat) by (intros ->; lia).
      rewrite (lp_find_spec (n - 2) j n a l) by (auto; try lia; intros i Hi; apply Hlmax; lia).
      rewrite swap_swp by lia. rewrite swap_swp by (rewrite swp_length; lia).
      set (b := swp (swp a j l) (n - 1) (S j)).
      destruct (lp_rev_spec n (j + 2) (n - 2) b) as (a' & E & Hl' & Hnth); try lia.
      { unfold b. rewrite !swp_length. lia. }
      rewrite E. exists a'. split; [reflexivity|]. split.
      * rewrite Hl'. unfold b. rewrite !swp_length. auto.
      * intros i Hi. rewrite Hnth. unfold b, np_sigma.
        rewrite !nth_swp by (rewrite ?swp_length; lia).
        clear - H1 Hl H Hi Hcn Hjc. nat_cases; fin.
  - destruct (Z.geb_spec (nth c a 0) (nth (S c) a 0)) as [_|C].
    + apply IH; auto; lia.
    + specialize (Hdesc c ltac:(lia) ltac:(lia)). lia.
Qed.

Lemma lp_loop_none : forall c n a, length a = n -> nonincr a n -> (c + 3 <= n \/ c = 0)%nat ->
  lp_loop c n a = Some None.
Proof.
  induction c as [|c IH]; intros n a Hlen Hd Hc; [reflexivity|].
  cbn [lp_loop]. rewrite (get_nth a c), (get_nth a (S c)) by lia.
  destruct (Z.geb_spec (nth c a 0) (nth (S c) a 0)) as [_|C].
  - apply IH; auto. lia.
  - specialize (Hd c ltac:(lia)). lia.
Qed.

Definition lp_mk (n : nat) (a : list Z) : lp_st := {| lp_n := n; lp_a := a; lp_first := false |}.

Lemma lexperm_next_asc : forall n a j l, length a = n -> asc_at a n j l ->
  exists a', lexperm_next (lp_mk n a) = Some (lp_mk n a', true) /\ np_result a a' n j l.
Proof.
  intros n a j l Hlen Hasc.
  pose proof Hasc as (H1 & Hup & Hdesc & Hl & Hlgt & Hlmax).
  unfold lexperm_next, lp_mk, lp_with. cbn [lp_n lp_a lp_first].
  destruct (Nat.ltb_spec 1 n); [|lia].
  rewrite (get_nth a (n - 2)), (get_nth a (n - 1)) by lia.
  destruct (Nat.eq_dec (j + 2) n) as [Hj2|Hj2].
  - (* the ascent is at n-2 *)
    replace (n - 2)%nat with j by lia. replace (n - 1)%nat with (S j) by lia.
    destruct (Z.ltb_spec (nth j a 0) (nth (S j) a 0)); [|lia].
    rewrite swap_swp by lia. eexists. split; [reflexivity|]. split; [rewrite swp_length; auto|].
    intros i Hi. unfold np_sigma. rewrite nth_swp by lia. nat_cases; fin.
  - pose proof (Hdesc (n - 2)%nat ltac:(lia) ltac:(lia)) as Hd2.
    replace (S (n - 2)) with (n - 1)%nat in Hd2 by lia.
    destruct (Z.ltb_spec (nth (n - 2) a 0) (nth (n - 1) a 0)); [lia|].
    destruct (Nat.ltb_spec 2 n); [|lia].
    rewrite (get_nth a (n - 3)) by lia.
    destruct (Nat.eq_dec (j + 3) n) as [Hj3|Hj3].
    + (* the ascent is at n-3 *)
      replace (n - 3)%nat with j by lia. replace (n - 2)%nat with (S j) in * by lia.
      replace (n - 1)%nat with (S (S j)) in * by lia.
      destruct (Z.ltb_spec (nth j a 0) (nth (S j) a 0)); [|lia].
      destruct (Z.ltb_spec (nth j a 0) (nth (S (S j)) a 0)) as [Hlast|Hlast].
      * assert (l = S (S j)).
        { destruct (Nat.eq_dec l (S (S j))); auto. specialize (Hlmax (S (S j)) ltac:(lia)). lia. }
        subst l.
        rewrite set_upd by lia. rewrite set_upd by (rewrite ?upd_length; lia).
        rewrite set_upd by (rewrite ?upd_length; lia).
        eexists. split; [reflexivity|]. split; [rewrite !upd_length; auto|].
        intros i Hi. unfold np_sigma. rewrite !nth_upd by (rewrite ?upd_length; lia). nat_cases; fin.
      * assert (l = S j).
        { destruct (Nat.eq_dec l (S j)); auto. assert (l = S (S j)) by lia. subst l. lia. }
        subst l.
        rewrite set_upd by lia. rewrite set_upd by (rewrite ?upd_length; lia).
        rewrite set_upd by (rewrite ?upd_length; lia).
        eexists. split; [reflexivity|]. split; [rewrite !upd_length; auto|].
        intros i Hi. unfold np_sigma. rewrite !nth_upd by (rewrite ?upd_length; lia). nat_cases; fin.
    + pose proof (Hdesc (n - 3)%nat ltac:(lia) ltac:(lia)) as Hd3.
      replace (S (n - 3)) with (n - 2)%nat in Hd3 by lia.
      destruct (Z.ltb_spec (nth (n - 3) a 0) (nth (n - 2) a 0)); [lia|].
      destruct (lp_loop_spec (n - 3) n a j l) as (a' & E & R); auto; try lia.
      rewrite E. exists a'. split; [reflexivity|exact R].
Qed.

Lemma lexperm_next_last : forall n a, length a = n -> nonincr a n ->
  lexperm_next (lp_mk n a) = Some (lp_mk n a, false).
Proof.
  intros n a Hlen Hd.
  unfold lexperm_next, lp_mk, lp_with. cbn [lp_n lp_a lp_first].
  assert (E1 : (if (1 <? n)%nat then (x <- get a (n - 2) ;; y <- get a (n - 1) ;; Some (x <? y)) else Some false) = Some false).
  { destruct (Nat.ltb_spec 1 n); auto.
    rewrite (get_nth a (n - 2)), (get_nth a (n - 1)) by lia.
    pose proof (Hd (n - 2)%nat ltac:(lia)) as Hd2. replace (S (n - 2)) with (n - 1)%nat in Hd2 by lia.
    destruct (Z.ltb_spec (nth (n - 2) a 0) (nth (n - 1) a 0)); auto. lia. }
  rewrite E1.
  assert (E2 : (if (2 <? n)%nat then (x <- get a (n - 3) ;; y <- get a (n - 2) ;; Some (x <? y)) else Some false) = Some false).
  { destruct (Nat.ltb_spec 2 n); auto.
    rewrite (get_nth a (n - 3)), (get_nth a (n - 2)) by lia.
    pose proof (Hd (n - 3)%nat ltac:(lia)) as Hd3. replace (S (n - 3)) with (n - 2)%nat in Hd3 by lia.
    destruct (Z.ltb_spec (nth (n - 3) a 0) (nth (n - 2) a 0)); auto. lia. }
  rewrite E2.
  rewrite lp_loop_none; auto. lia.
Qed.

(* every array is either non-increasing or has a rightmost ascent with its rightmost larger entry *)
Lemma rightmost_ascent : forall (a : list Z) n c,
  (forall i, (S i < n)%nat -> (n <= S i + c)%nat -> nth (S i) a 0 <= nth i a 0) \/
  exists j, (S j < n)%nat /\ nth j a 0 < nth (S j) a 0 /\
    forall i, (j < i)%nat -> (S i < n)%nat -> nth (S i) a 0 <= nth i a 0.
Proof.
  intros a n. induction c as [|c [IH|IH]]; [left; intros; lia| |right; exact IH].
  destruct (le_lt_dec (c + 2) n) as [Hc|Hc].
  - destruct (Z_le_gt_dec (nth (S (n - c - 2)) a 0) (nth (n - c - 2) a 0)) as [Hle|Hgt].
    + left. intros i Hi Hn. destruct (Nat.eq_dec i (n - c - 2)) as [->|]; auto. apply IH; lia.
    + right. exists (n - c - 2)%nat. split; [lia|]. split; [lia|]. intros i Hi Hn. apply IH; lia.
  - left. intros i Hi Hn. apply IH; lia.
Qed.

Lemma rightmost_larger : forall (a : list Z) n j c,
  (forall i, (j < i < n)%nat -> (n <= i + c)%nat -> nth i a 0 <= nth j a 0) \/
  exists l, (j < l < n)%nat /\ nth j a 0 < nth l a 0 /\ forall i, (l < i < n)%nat -> nth i a 0 <= nth j a 0.
Proof.
  intros a n j. induction c as [|c [IH|IH]]; [left; intros; lia| |right; exact IH].
  destruct (le_lt_dec (c + 1) n) as [Hc|Hc].
  - destruct (le_lt_dec (n - c - 1) j) as [Hj|Hj].
    + left. intros i Hi Hn. apply IH; lia.
    + destruct (Z_le_gt_dec (nth (n - c - 1) a 0) (nth j a 0)) as [Hle|Hgt].
      * left. intros i Hi Hn. destruct (Nat.eq_dec i (n - c - 1)) as [->|]; auto. apply IH; lia.
      * right. exists (n - c - 1)%nat. split; [lia|]. split; [lia|]. intros i Hi. apply IH; lia.
  - left. intros i Hi Hn. apply IH; lia.
Qed.

Lemma ascent_or_last : forall (a : list Z) n, nonincr a n \/ exists j l, asc_at a n j l.
Proof.
  intros a n. destruct (rightmost_ascent a n n) as [H|(j & Hj & Hup & Hdesc)].
  - left. intros i Hi. apply H; lia.
  - right. destruct (rightmost_larger a n j n) as [H|(l & Hl & Hgt & Hmax)].
    + specialize (H (S j) ltac:(lia) ltac:(lia)). lia.
    + exists j, l. repeat split; auto; lia.
Qed.
