(* itertools.TopologicalSorts (Algorithm V): the two moves on the arrays (exchange of k with its
   left neighbour; return of a blocked k to its home position) and the specification of the loop
   of Next. *)
From Coq Require Import List ZArith Lia Arith Bool Permutation.
From Mamba Require Import Iter.Model Iter.Lex Iter.PermUtil Iter.TopoOrder Iter.TopoStep.
Import ListNotations.
Open Scope Z_scope.

Section Arrays.
Variable n : nat.
Variable less : Z -> Z -> bool.
Hypothesis less_sub : forall u v, (u < n)%nat -> (v < n)%nat -> lessn less u v = true -> (u < v)%nat.

Notation t_inv := (t_inv n).
Notation resp := (resp n less).
Notation home := (home n).

(* with the values above k at home, the positions up to k hold the values up to k *)
Lemma home_small : forall st inv k, t_inv st inv -> home st (S k) -> (k < n)%nat ->
  forall i, (i <= k)%nat -> (sv st i <= k)%nat.
Proof.
  intros st inv k T H Hk i Hi. pose proof T as (Ls & Li & Hs & Hv).
  destruct (le_lt_dec (sv st i) k); auto. exfalso.
  destruct (Hs i ltac:(lia)) as [Hr E].
  assert (Hlt : (sv st i < n)%nat) by (unfold sv; lia).
  pose proof (home_P n st inv (S k) T H (sv st i) ltac:(lia)) as E1.
  rewrite (tinv_P n st inv _ T Hlt) in E1. unfold sv in E1 at 1. rewrite E in E1. lia.
Qed.

(* ------------------------------------------------------------------ the exchange *)

Section Swap.
Variables st inv : list Z.
Variable k : nat.
Hypothesis T : t_inv st inv.
Hypothesis R : resp st.
Hypothesis H : home st (S k).
Hypothesis Hk : (k < n)%nat.
Let jn := sv inv k.
Hypothesis Hj : (1 <= jn)%nat.
Let l := nth (jn - 1) st 0.
Let ln := Z.to_nat l.
Hypothesis Hnl : less l (Z.of_nat k) = false.

Let st2 := upd (upd st (jn - 1) (Z.of_nat k)) jn l.
Let inv2 := upd (upd inv k (Z.of_nat jn - 1)) ln (Z.of_nat jn).

Lemma swap_facts : (jn < n)%nat /\ nth jn st 0 = Z.of_nat k /\ 0 <= l < Z.of_nat n /\
  nth ln inv 0 = Z.of_nat jn - 1 /\ (ln < k)%nat.
Proof.
  pose proof T as (Ls & Li & Hs & Hv).
  destruct (Hv k Hk) as [Hr Ek]. fold jn in Ek.
  assert (Hjn : (jn < n)%nat) by (unfold jn, sv; lia).
  destruct (Hs (jn - 1)%nat ltac:(lia)) as [Hrl El]. fold l in Hrl. unfold sv in El. fold l in El. fold ln in El.
  split; auto. split; auto. split; auto. split; [rewrite El; lia|].
  assert (Hjk : (jn <= k)%nat).
  { destruct (le_lt_dec jn k); auto. exfalso.
    pose proof (H jn ltac:(lia)) as E. rewrite Ek in E. lia. }
  pose proof (home_small st inv k T H Hk (jn - 1)%nat ltac:(lia)) as Hle. unfold sv in Hle. fold l in Hle. fold ln in Hle.
  assert (ln <> k).
  { intro E. rewrite E in El. assert (Z.of_nat jn = nth k inv 0) by (unfold jn, sv; lia). lia. }
  lia.
Qed.

Lemma swap_tinv : t_inv st2 inv2.
Proof.
  pose proof swap_facts as (Hjn & Ek & Hrl & El & Hlk).
  pose proof T as (Ls & Li & Hs & Hv).
  assert (Ejn : nth k inv 0 = Z.of_nat jn) by (destruct (Hv k Hk); unfold jn, sv; lia).
  assert (L1 : length st2 = n) by (unfold st2; rewrite !upd_length; auto).
  assert (L2 : length inv2 = n) by (unfold inv2; rewrite !upd_length; auto).
  assert (S2 : forall i, nth i st2 0 = if (jn =? i)%nat then l else if (jn - 1 =? i)%nat then Z.of_nat k else nth i st 0).
  { intros i. unfold st2. rewrite nth_upd by (rewrite upd_length; lia). rewrite nth_upd by lia. reflexivity. }
  assert (I2 : forall v, nth v inv2 0 = if (ln =? v)%nat then Z.of_nat jn else if (k =? v)%nat then Z.of_nat jn - 1 else nth v inv 0).
  { intros v. unfold inv2. rewrite nth_upd by (rewrite upd_length; lia). rewrite nth_upd by lia. reflexivity. }
  split; auto. split; auto. split.
  - intros i Hi. unfold sv. rewrite S2.
    destruct (Nat.eqb_spec jn i) as [<-|N1].
    + split; auto. fold ln. rewrite I2. rewrite Nat.eqb_refl. auto.
    + destruct (Nat.eqb_spec (jn - 1) i) as [<-|N2].
      * split; [lia|]. rewrite Nat2Z.id, I2.
        destruct (Nat.eqb_spec ln k); [lia|]. rewrite Nat.eqb_refl. lia.
      * destruct (Hs i Hi) as [Hr E]. split; auto. rewrite I2. unfold sv in E.
        destruct (Nat.eqb_spec ln (Z.to_nat (nth i st 0))) as [E1|_]; [rewrite <- E1 in E; lia|].
        destruct (Nat.eqb_spec k (Z.to_nat (nth i st 0))) as [E1|_]; [rewrite <- E1 in E; lia|]. exact E.
  - intros v Hvn. unfold sv. rewrite I2.
    destruct (Nat.eqb_spec ln v) as [<-|N1].
    + split; [lia|]. rewrite Nat2Z.id, S2, Nat.eqb_refl. unfold ln. lia.
    + destruct (Nat.eqb_spec k v) as [<-|N2].
      * split; [lia|]. replace (Z.to_nat (Z.of_nat jn - 1)) with (jn - 1)%nat by lia. rewrite S2.
        destruct (Nat.eqb_spec jn (jn - 1)); [lia|]. rewrite Nat.eqb_refl. auto.
      * destruct (Hv v Hvn) as [Hr E]. split; auto. rewrite S2. unfold sv in E.
        destruct (Nat.eqb_spec jn (Z.to_nat (nth v inv 0))) as [E1|_].
        { exfalso. rewrite <- E1, Ek in E. lia. }
        destruct (Nat.eqb_spec (jn - 1) (Z.to_nat (nth v inv 0))) as [E1|_].
        { exfalso. rewrite <- E1 in E. fold l in E. unfold ln in N1. lia. }
        exact E.
Qed.

Lemma swap_P : P st k = jn /\ P st ln = (jn - 1)%nat /\ P st2 k = (jn - 1)%nat /\ P st2 ln = jn /\
  forall v, (v < n)%nat -> v <> k -> v <> ln -> P st2 v = P st v.
Proof.
  pose proof swap_facts as (Hjn & Ek & Hrl & El & Hlk).
  pose proof swap_tinv as T2.
  rewrite !(tinv_P n st inv) by (auto; lia). rewrite !(tinv_P n st2 inv2) by (auto; lia).
  assert (I2 : forall v, nth v inv2 0 = if (ln =? v)%nat then Z.of_nat jn else if (k =? v)%nat then Z.of_nat jn - 1 else nth v inv 0).
  { intros v. destruct T as (Ls & Li & _). unfold inv2. rewrite nth_upd by (rewrite upd_length; lia). rewrite nth_upd by lia. reflexivity. }
  unfold sv. rewrite !I2. rewrite Nat.eqb_refl. destruct (Nat.eqb_spec ln k); [lia|]. rewrite Nat.eqb_refl.
  split; [reflexivity|]. split; [rewrite El; lia|]. split; [lia|]. split; [lia|].
  intros v Hv N1 N2. rewrite (tinv_P n st inv) by auto. rewrite (tinv_P n st2 inv2) by auto.
  unfold sv. rewrite I2. destruct (Nat.eqb_spec ln v); [lia|]. destruct (Nat.eqb_spec k v); [lia|]. reflexivity.
Qed.

Lemma swap_resp : resp st2.
Proof.
  pose proof swap_facts as (Hjn & Ek & Hrl & El & Hlk).
  pose proof swap_P as (P1 & P2 & Q1 & Q2 & Qo).
  pose proof (tinv_perm n st inv T) as Hp.
  intros u v Hu Hv Hless. pose proof (R u v Hu Hv Hless) as Hlt.
  pose proof (less_sub u v Hu Hv Hless) as Huv.
  assert (Hne1 : forall w, (w < n)%nat -> w <> k -> P st w <> jn).
  { intros w Hw N E. rewrite <- P1 in E. apply (P_inj n st) in E; auto. }
  assert (Hne2 : forall w, (w < n)%nat -> w <> ln -> P st w <> (jn - 1)%nat).
  { intros w Hw N E. rewrite <- P2 in E. apply (P_inj n st) in E; auto. lia. }
  destruct (Nat.eq_dec u k) as [->|Nuk]; destruct (Nat.eq_dec v k) as [->|Nvk]; try lia.
  - (* u = k *)
    destruct (Nat.eq_dec v ln) as [->|Nvl]; [lia|]. rewrite Q1, (Qo v) by auto. lia.
  - destruct (Nat.eq_dec u ln) as [->|Nul].
    + exfalso. unfold lessn in Hless. unfold ln in Hless. rewrite Z2Nat.id in Hless by lia. congruence.
    + rewrite Q1, (Qo u) by auto. pose proof (Hne2 u Hu Nul). lia.
  - destruct (Nat.eq_dec u ln) as [->|Nul]; destruct (Nat.eq_dec v ln) as [->|Nvl]; try lia.
    + rewrite Q2, (Qo v) by auto. pose proof (Hne1 v Hv Nvk). lia.
    + rewrite Q2, (Qo u) by auto. lia.
    + rewrite !Qo by auto. lia.
Qed.

Lemma swap_home : home st2 (S k).
Proof.
  pose proof swap_facts as (Hjn & Ek & Hrl & El & Hlk).
  pose proof T as (Ls & Li & Hs & Hv).
  assert (Hjk : (jn <= k)%nat).
  { destruct (le_lt_dec jn k); auto. exfalso. pose proof (H jn ltac:(lia)) as E. rewrite Ek in E. lia. }
  intros i Hi. unfold st2. rewrite nth_upd_neq by lia. rewrite nth_upd_neq by lia. apply H. auto.
Qed.

Lemma swap_code : ts_loop (S k) less st inv = Some (st2, inv2, true).
Proof.
  pose proof swap_facts as (Hjn & Ek & Hrl & El & Hlk).
  pose proof T as (Ls & Li & Hs & Hv).
  assert (Ejn : nth k inv 0 = Z.of_nat jn) by (destruct (Hv k Hk); unfold jn, sv; lia).
  cbn [ts_loop]. rewrite (get_nth inv k) by lia. rewrite Ejn.
  destruct (Z.gtb_spec (Z.of_nat jn) 0); [|lia].
  replace (Z.of_nat jn - 1) with (Z.of_nat (jn - 1)) by lia.
  rewrite getZ_nat, (get_nth st (jn - 1)) by lia. fold l. rewrite Hnl. cbn [negb].
  rewrite setZ_nat, set_upd by lia. rewrite setZ_nat, set_upd by (rewrite upd_length; lia).
  rewrite set_upd by lia.
  unfold setZ, idx. destruct (Z.ltb_spec l 0); [lia|]. fold ln. cbn.
  rewrite set_upd by (rewrite upd_length; lia).
  unfold st2, inv2. replace (Z.of_nat (jn - 1)) with (Z.of_nat jn - 1) by lia. reflexivity.
Qed.

End Swap.

(* ------------------------------------------------------------------ the return home *)

Section Rotate.
Variables st inv : list Z.
Variable k : nat.
Hypothesis T : t_inv st inv.
Hypothesis R : resp st.
Hypothesis H : home st (S k).
Hypothesis Hk : (k < n)%nat.
Let jn := sv inv k.

Lemma rot_facts : (jn <= k)%nat /\ nth jn st 0 = Z.of_nat k /\ nth k inv 0 = Z.of_nat jn.
Proof.
  pose proof T as (Ls & Li & Hs & Hv).
  destruct (Hv k Hk) as [Hr Ek]. fold jn in Ek.
  assert (Hjn : (jn < n)%nat) by (unfold jn, sv; lia).
  split; [|split; [auto|unfold jn, sv; lia]].
  destruct (le_lt_dec jn k); auto. exfalso. pose proof (H jn ltac:(lia)) as E. rewrite Ek in E. lia.
Qed.

Lemma rot_exists : exists st1 inv1, ts_shift (k - jn) jn st inv = Some (st1, inv1) /\
  let st2 := upd st1 k (Z.of_nat k) in let inv2 := upd inv1 k (Z.of_nat k) in
  t_inv st2 inv2 /\ home st2 k /\
  P st2 k = k /\
  (forall v, (v < n)%nat -> v <> k ->
     P st2 v = if (jn <? P st v)%nat && (P st v <=? k)%nat then (P st v - 1)%nat else P st v).
Proof.
  pose proof rot_facts as (Hjk & Ek & Ejn).
  pose proof T as (Ls & Li & Hs & Hv).
  destruct (ts_shift_spec n (k - jn) jn st inv Ls Li ltac:(lia))
    as (st1 & inv1 & E & L1 & L1' & S1 & S1' & I1 & I1').
  { intros t Ht. apply Hs. lia. }
  replace (jn + (k - jn))%nat with k in * by lia.
  exists st1, inv1. split; [exact E|]. cbv zeta.
  set (st2 := upd st1 k (Z.of_nat k)). set (inv2 := upd inv1 k (Z.of_nat k)).
  assert (S2 : forall i, nth i st2 0 = if (k =? i)%nat then Z.of_nat k else
                 if (jn <=? i)%nat && (i <? k)%nat then nth (S i) st 0 else nth i st 0).
  { intros i. unfold st2. rewrite nth_upd by lia. destruct (Nat.eqb_spec k i); auto.
    destruct (Nat.leb_spec jn i); destruct (Nat.ltb_spec i k); simpl; try (apply S1'; lia). apply S1. lia. }
  (* the values moved are those at the positions jn+1 .. k *)
  assert (Hmoved : forall v, (v < n)%nat -> (jn < sv inv v <= k)%nat -> nth v inv1 0 = nth v inv 0 - 1).
  { intros v Hvn Hr. destruct (Hv v Hvn) as [Hrv Ev].
    specialize (I1 (sv inv v) ltac:(lia)). unfold sv in I1 at 1. rewrite Ev, Nat2Z.id in I1.
    rewrite I1. unfold sv. lia. }
  assert (Hstay : forall v, (v < n)%nat -> ~ (jn < sv inv v <= k)%nat -> nth v inv1 0 = nth v inv 0).
  { intros v Hvn Hr. apply I1'; auto. intros t Ht Et. apply Hr.
    destruct (Hs t ltac:(lia)) as [_ E1]. rewrite Et in E1. unfold sv. rewrite E1. lia. }
  assert (I2 : forall v, (v < n)%nat -> nth v inv2 0 = if (k =? v)%nat then Z.of_nat k else
                 if (jn <? sv inv v)%nat && (sv inv v <=? k)%nat then nth v inv 0 - 1 else nth v inv 0).
  { intros v Hvn. unfold inv2. rewrite nth_upd by lia. destruct (Nat.eqb_spec k v); auto.
    destruct (Nat.ltb_spec jn (sv inv v)); destruct (Nat.leb_spec (sv inv v) k); simpl;
      try (apply Hstay; auto; lia). apply Hmoved; auto. }
  assert (T2 : t_inv st2 inv2).
  { split; [unfold st2; rewrite upd_length; auto|]. split; [unfold inv2; rewrite upd_length; auto|]. split.
    - intros i Hi. unfold sv. rewrite S2. destruct (Nat.eqb_spec k i) as [<-|N1].
      + split; [lia|]. rewrite Nat2Z.id, I2 by auto. rewrite Nat.eqb_refl. auto.
      + destruct (Nat.leb_spec jn i); destruct (Nat.ltb_spec i k); simpl.
        * destruct (Hs (S i) ltac:(lia)) as [Hr E1]. split; auto.
          assert (Hvn : (sv st (S i) < n)%nat) by (unfold sv; lia).
          fold (sv st (S i)). rewrite I2 by auto.
          assert (Einv : sv inv (sv st (S i)) = S i) by (unfold sv at 1; rewrite E1; lia).
          destruct (Nat.eqb_spec k (sv st (S i))) as [E2|_].
          { exfalso. rewrite <- E2 in Einv. fold jn in Einv. lia. }
          rewrite Einv. destruct (Nat.ltb_spec jn (S i)); [|lia]. destruct (Nat.leb_spec (S i) k); [|lia].
          simpl. rewrite E1. lia.
        * destruct (Hs i Hi) as [Hr E1]. split; auto.
          assert (Hvn : (sv st i < n)%nat) by (unfold sv; lia).
          fold (sv st i). rewrite I2 by auto.
          assert (Einv : sv inv (sv st i) = i) by (unfold sv at 1; rewrite E1; lia).
          destruct (Nat.eqb_spec k (sv st i)) as [E2|_].
          { exfalso. rewrite <- E2 in Einv. fold jn in Einv. lia. }
          rewrite Einv. destruct (Nat.ltb_spec jn i); destruct (Nat.leb_spec i k); simpl; try lia; try exact E1.
        * destruct (Hs i Hi) as [Hr E1]. split; auto.
          assert (Hvn : (sv st i < n)%nat) by (unfold sv; lia).
          fold (sv st i). rewrite I2 by auto.
          assert (Einv : sv inv (sv st i) = i) by (unfold sv at 1; rewrite E1; lia).
          destruct (Nat.eqb_spec k (sv st i)) as [E2|_].
          { exfalso. rewrite <- E2 in Einv. fold jn in Einv. lia. }
          rewrite Einv. destruct (Nat.ltb_spec jn i); destruct (Nat.leb_spec i k); simpl; try lia; try exact E1.
        * destruct (Hs i Hi) as [Hr E1]. split; auto.
          assert (Hvn : (sv st i < n)%nat) by (unfold sv; lia).
          fold (sv st i). rewrite I2 by auto.
          assert (Einv : sv inv (sv st i) = i) by (unfold sv at 1; rewrite E1; lia).
          destruct (Nat.eqb_spec k (sv st i)) as [E2|_].
          { exfalso. rewrite <- E2 in Einv. fold jn in Einv. lia. }
          rewrite Einv. destruct (Nat.ltb_spec jn i); destruct (Nat.leb_spec i k); simpl; try lia; try exact E1.
    - intros v Hvn. unfold sv. rewrite I2 by auto. destruct (Nat.eqb_spec k v) as [<-|N1].
      + split; [lia|]. rewrite Nat2Z.id, S2, Nat.eqb_refl. auto.
      + destruct (Hv v Hvn) as [Hr E1]. fold (sv inv v) in E1.
        assert (Hnj : sv inv v <> jn).
        { intro E2. rewrite E2, Ek in E1. lia. }
        destruct (Nat.ltb_spec jn (sv inv v)); destruct (Nat.leb_spec (sv inv v) k); simpl.
        * split; [unfold sv in *; lia|].
          replace (Z.to_nat (nth v inv 0 - 1)) with (sv inv v - 1)%nat by (unfold sv; lia).
          rewrite S2. destruct (Nat.eqb_spec k (sv inv v - 1)); [lia|].
          destruct (Nat.leb_spec jn (sv inv v - 1)); [|lia]. destruct (Nat.ltb_spec (sv inv v - 1) k); [|lia].
          simpl. replace (S (sv inv v - 1)) with (sv inv v) by lia. exact E1.
        * split; auto. fold (sv inv v). rewrite S2. destruct (Nat.eqb_spec k (sv inv v)); [lia|].
          destruct (Nat.leb_spec jn (sv inv v)); destruct (Nat.ltb_spec (sv inv v) k); simpl; try lia; exact E1.
        * split; auto. fold (sv inv v). rewrite S2.
          destruct (Nat.eqb_spec k (sv inv v)) as [E2|_].
          { exfalso. assert (sv inv v < jn)%nat by lia. lia. }
          destruct (Nat.leb_spec jn (sv inv v)); destruct (Nat.ltb_spec (sv inv v) k); simpl; try lia; exact E1.
        * split; auto. fold (sv inv v). rewrite S2.
          destruct (Nat.eqb_spec k (sv inv v)); [lia|].
          destruct (Nat.leb_spec jn (sv inv v)); destruct (Nat.ltb_spec (sv inv v) k); simpl; try lia; exact E1. }
  split; [exact T2|]. split.
  - intros i Hi. rewrite S2. destruct (Nat.eqb_spec k i) as [<-|]; auto.
    destruct (Nat.leb_spec jn i); destruct (Nat.ltb_spec i k); simpl; try lia; apply H; lia.
  - split.
    + rewrite (tinv_P n st2 inv2) by auto. unfold sv. rewrite I2, Nat.eqb_refl by auto. lia.
    + intros v Hvn Nk. rewrite (tinv_P n st2 inv2) by auto. rewrite (tinv_P n st inv) by auto.
      unfold sv at 1. rewrite I2 by auto. destruct (Nat.eqb_spec k v); [lia|].
      destruct (Nat.ltb_spec jn (sv inv v)); destruct (Nat.leb_spec (sv inv v) k); simpl; unfold sv; lia.
Qed.

End Rotate.

End Arrays.
