(* itertools.Permutations (Heap's algorithm), the safety half: no call of Next panics, after
   every call that returns true the array is a permutation of 0..n-1, and once Next has
   returned false it returns false for ever.  (That every permutation is produced exactly once
   is not proved here.) *)
From Coq Require Import List ZArith Lia Arith Bool Permutation.
From Mamba Require Import Iter.Model Iter.Enum Iter.Lex Iter.PermUtil.
Import ListNotations.
Open Scope Z_scope.

Section Fixed.
Variable n : nat.

Definition hp_ok (c p : list Z) : Prop :=
  length c = n /\ length p = n /\ Permutation p (iota n) /\
  forall i, (i < n)%nat -> 0 <= nth i c 0 <= Z.of_nat i.

Lemma heap_loop_spec : forall cnt i c p, (i + cnt = n)%nat -> hp_ok c p ->
  exists i' c' p' b, heap_loop cnt i c p = Some (i', c', p', b) /\ hp_ok c' p' /\
    (b = true -> i' = O) /\ (b = false -> i' = n).
Proof.
  induction cnt as [|cnt IH]; intros i c p Hi (Hc & Hp & HP & Hb).
  - exists i, c, p, false. split; [reflexivity|]. split; [exact (conj Hc (conj Hp (conj HP Hb)))|]. split; [discriminate|lia].
  - cbn [heap_loop]. rewrite (get_nth c i) by lia.
    pose proof (Hb i ltac:(lia)) as Hci.
    destruct (Z.ltb_spec (nth i c 0) (Z.of_nat i)) as [Hlt|Hge].
    + assert (E : exists p', (if Nat.even i then swap p 0 i else (j <- idx (nth i c 0) ;; swap p j i)) = Some p' /\
                    length p' = n /\ Permutation p' (iota n)).
      { destruct (Nat.even i).
        - rewrite swap_swp by lia. eexists. split; [reflexivity|]. split; [rewrite swp_length; auto|].
          eapply Permutation_trans; [apply Permutation_sym, swp_perm; lia|exact HP].
        - unfold idx. destruct (Z.ltb_spec (nth i c 0) 0); [lia|].
          rewrite swap_swp by lia. eexists. split; [reflexivity|]. split; [rewrite swp_length; auto|].
          eapply Permutation_trans; [apply Permutation_sym, swp_perm; lia|exact HP]. }
      destruct E as (p' & -> & Hp' & HP').
      rewrite set_upd by lia.
      eexists _, _, _, _. split; [reflexivity|]. split; [|split; [reflexivity|discriminate]].
      split; [rewrite upd_length; auto|]. split; auto. split; auto.
      intros k Hk. rewrite nth_upd by lia. destruct (Nat.eqb_spec i k); [subst; lia|apply Hb; auto].
    + rewrite set_upd by lia.
      destruct (IH (S i) (upd c i 0) p ltac:(lia)) as (i' & c' & p' & b & E & Hok & H1 & H2).
      { split; [rewrite upd_length; auto|]. split; auto. split; auto.
        intros k Hk. rewrite nth_upd by lia. destruct (Nat.eqb_spec i k); [lia|apply Hb; auto]. }
      exists i', c', p', b. auto.
Qed.

Definition hp_inv (s : heap_st) : Prop :=
  hp_n s = Z.of_nat n /\ -1 <= hp_i s <= Z.of_nat n /\ hp_ok (hp_c s) (hp_p s).

Lemma heap_step : forall s, hp_inv s ->
  exists s' b, heap_next s = Some (s', b) /\ hp_inv s' /\
    (b = true -> Permutation (heap_value s') (iota n)) /\ (b = false -> exhausted heap_next s').
Proof.
  intros [hn hi c p] (Hn & Hi & Hok). cbn [hp_n hp_i hp_c hp_p] in *. subst hn.
  unfold heap_next. cbn [hp_n hp_i hp_c hp_p].
  destruct (Z.eqb_spec hi (Z.of_nat n)) as [E|E].
  - eexists _, false. split; [reflexivity|]. split; [split; [reflexivity|split; [cbn; lia|exact Hok]]|]. split; [discriminate|].
    intros _. apply fixpoint_exhausted. unfold heap_next. cbn [hp_n hp_i].
    rewrite (proj2 (Z.eqb_eq hi (Z.of_nat n)) E). reflexivity.
  - destruct (Z.eqb_spec hi (-1)) as [E1|E1].
    + eexists _, true. split; [reflexivity|]. split; [split; [reflexivity|split; [cbn; lia|exact Hok]]|].
      split; [intros _; apply Hok|discriminate].
    + destruct (heap_loop_spec (Z.to_nat (Z.of_nat n - hi)) (Z.to_nat hi) c p ltac:(lia) Hok)
        as (i' & c' & p' & b & EL & Hok' & H1 & H2).
      rewrite EL. eexists _, b. split; [reflexivity|].
      assert (Hi' : (i' <= n)%nat) by (destruct b; [rewrite H1 by auto|rewrite H2 by auto]; lia).
      split; [split; [reflexivity|split; [cbn; lia|exact Hok']]|].
      split; [intros _; apply Hok'|].
      intros Hb. apply fixpoint_exhausted. unfold heap_next. cbn [hp_n hp_i].
      rewrite (H2 Hb). rewrite Z.eqb_refl. reflexivity.
Qed.

End Fixed.

Theorem heap_safe : forall n, safe heap_next heap_value (fun x => Permutation x (iota n)) (heap_init n).
Proof.
  intros n. apply (safe_of_inv heap_st (list Z) heap_next heap_value _ (hp_inv n)).
  - split; [reflexivity|]. split; [cbn; lia|]. cbn [heap_init hp_c hp_p].
    split; [apply repeat_length|]. split; [apply iota_length|]. split; [apply Permutation_refl|].
    intros i Hi. rewrite nth_repeat0. lia.
  - apply heap_step.
Qed.
