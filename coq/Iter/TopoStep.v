(* itertools.TopologicalSorts (Algorithm V): array-level specification of one call of Next.
   The state array and its inverse stay mutually inverse permutations that respect [less]; a call
   either moves some k one place to the left (its inversion count grows by one, the counts of the
   smaller values are unchanged, those of the larger values become 0), or every value is blocked. *)
From Coq Require Import List ZArith Lia Arith Bool Permutation.
From Mamba Require Import Iter.Model Iter.Lex Iter.PermUtil Iter.TopoOrder.
Import ListNotations.
Open Scope Z_scope.

Lemma filter_false_len : forall (p : nat -> bool) s, (forall l, In l s -> p l = false) -> length (filter p s) = O.
Proof.
  induction s as [|a s IH]; intros H; [reflexivity|]. simpl. rewrite (H a) by (left; auto).
  apply IH. intros l Hl. apply H. right; auto.
Qed.

(* ------------------------------------------------------------------ effect of the two moves on the table *)

Section Moves.
Variable n : nat.
Variables x y : list Z.
Hypothesis Hx : perm n x.
Hypothesis Hy : perm n y.

(* k0 and its left neighbour l0 < k0 exchange places *)
Lemma r_swap : forall k0 l0 j', (l0 < k0)%nat -> (k0 < n)%nat ->
  P x k0 = S j' -> P x l0 = j' -> P y k0 = j' -> P y l0 = S j' ->
  (forall v, (v < n)%nat -> v <> k0 -> v <> l0 -> P y v = P x v) ->
  (forall k, (k < n)%nat -> k <> k0 -> r y k = r x k) /\ r y k0 = S (r x k0).
Proof.
  intros k0 l0 j' Hl0 Hk0 Pk Pl Qk Ql Hoth.
  assert (Hne : forall v, (v < n)%nat -> v <> k0 -> P x v <> S j').
  { intros v Hv Hvk E. rewrite <- Pk in E. apply (P_inj n x) in E; auto. }
  assert (Hne' : forall v, (v < n)%nat -> v <> l0 -> P x v <> j').
  { intros v Hv Hvl E. rewrite <- Pl in E. apply (P_inj n x) in E; auto; lia. }
  split.
  - intros k Hk Hkk. unfold r. apply filter_len_ext. intros l Hl. apply in_seq in Hl.
    assert (Py : forall v, (v < n)%nat -> P y v = if (v =? k0)%nat then j' else if (v =? l0)%nat then S j' else P x v).
    { intros v Hv. destruct (Nat.eqb_spec v k0) as [->|]; auto. destruct (Nat.eqb_spec v l0) as [->|]; auto. }
    rewrite (Py k), (Py l) by lia.
    destruct (Nat.eqb_spec k k0); [lia|].
    pose proof (Hne k Hk ltac:(auto)).
    destruct (Nat.eqb_spec k l0) as [->|Hkl].
    + destruct (Nat.eqb_spec l k0); [lia|]. destruct (Nat.eqb_spec l l0); [lia|].
      pose proof (Hne l ltac:(lia) ltac:(auto)). pose proof (Hne' l ltac:(lia) ltac:(auto)). rewrite Pl.
      destruct (Nat.ltb_spec (S j') (P x l)); destruct (Nat.ltb_spec j' (P x l)); auto; lia.
    + pose proof (Hne' k Hk Hkl).
      destruct (Nat.eqb_spec l k0) as [->|].
      * rewrite Pk. destruct (Nat.ltb_spec (P x k) j'); destruct (Nat.ltb_spec (P x k) (S j')); auto; lia.
      * destruct (Nat.eqb_spec l l0) as [->|]; auto.
        rewrite Pl. destruct (Nat.ltb_spec (P x k) j'); destruct (Nat.ltb_spec (P x k) (S j')); auto; lia.
  - unfold r. apply filter_len_plus1 with (a := l0).
    + apply seq_NoDup.
    + apply in_seq. lia.
    + rewrite Pk, Pl. apply Nat.ltb_ge. lia.
    + rewrite Qk, Ql. apply Nat.ltb_lt. lia.
    + intros l Hl Hll. apply in_seq in Hl. rewrite Pk, Qk. rewrite (Hoth l) by lia.
      pose proof (Hne l ltac:(lia) ltac:(lia)).
      destruct (Nat.ltb_spec (S j') (P x l)); destruct (Nat.ltb_spec j' (P x l)); auto; lia.
Qed.

(* k0, with all larger values at home, goes from position j to its home position k0 *)
Lemma r_rotate : forall k0 j, (k0 < n)%nat -> P x k0 = j -> (j <= k0)%nat ->
  (forall v, (k0 < v < n)%nat -> P x v = v) ->
  P y k0 = k0 ->
  (forall v, (v < n)%nat -> v <> k0 ->
     P y v = if (j <? P x v)%nat && (P x v <=? k0)%nat then (P x v - 1)%nat else P x v) ->
  (forall k, (k < n)%nat -> k <> k0 -> r y k = r x k) /\ r y k0 = O.
Proof.
  intros k0 j Hk0 Pk Hj Hhome Qk Hoth.
  assert (Hsmall : forall v, (v < k0)%nat -> (P x v <= k0)%nat).
  { intros v Hv. destruct (le_lt_dec (P x v) k0); auto. exfalso.
    pose proof (P_lt n x v Hx ltac:(lia)).
    pose proof (Hhome (P x v) ltac:(lia)) as E. apply (P_inj n x) in E; auto; lia. }
  assert (Hnej : forall v, (v < n)%nat -> v <> k0 -> P x v <> j).
  { intros v Hv Hvk E. rewrite <- Pk in E. apply (P_inj n x) in E; auto. }
  split.
  - intros k Hk Hkk. unfold r. apply filter_len_ext. intros l Hl. apply in_seq in Hl.
    rewrite (Hoth k) by auto. pose proof (Hnej k Hk Hkk).
    destruct (Nat.eq_dec l k0) as [->|Hlk].
    + (* k > k0 is at home *)
      rewrite Qk, Pk. rewrite (Hhome k) by lia.
      destruct (Nat.ltb_spec j k); destruct (Nat.leb_spec k k0); simpl; try lia.
      destruct (Nat.ltb_spec k k0); destruct (Nat.ltb_spec k j); auto; lia.
    + rewrite (Hoth l) by lia. pose proof (Hnej l ltac:(lia) Hlk).
      assert (P x k <> P x l) by (intro E; apply (P_inj n x) in E; auto; lia).
      destruct (Nat.ltb_spec j (P x k)); destruct (Nat.leb_spec (P x k) k0);
      destruct (Nat.ltb_spec j (P x l)); destruct (Nat.leb_spec (P x l) k0); simpl;
      match goal with |- (?a <? ?b)%nat = (?c <? ?d)%nat =>
        destruct (Nat.ltb_spec a b); destruct (Nat.ltb_spec c d); auto; lia end.
  - unfold r. apply filter_false_len. intros l Hl. apply in_seq in Hl.
    rewrite Qk. rewrite (Hoth l) by lia. pose proof (Hsmall l ltac:(lia)).
    destruct (Nat.ltb_spec j (P x l)); destruct (Nat.leb_spec (P x l) k0); simpl; apply Nat.ltb_ge; lia.
Qed.

End Moves.

(* all values from k on at home: the count of k is 0 *)
Lemma r_home : forall n x k, perm n x -> (k < n)%nat -> (forall v, (k <= v < n)%nat -> P x v = v) -> r x k = O.
Proof.
  intros n x k Hx Hk Hhome. unfold r. apply filter_false_len. intros l Hl. apply in_seq in Hl.
  rewrite (Hhome k) by lia. apply Nat.ltb_ge.
  destruct (le_lt_dec (P x l) k); auto. exfalso.
  pose proof (P_lt n x l Hx ltac:(lia)).
  pose proof (Hhome (P x l) ltac:(lia)) as E. apply (P_inj n x) in E; auto; lia.
Qed.

(* ------------------------------------------------------------------ the family and maximal digits *)

Section Family.
Variable n : nat.
Variable less : Z -> Z -> bool.
Definition lessn (u v : nat) : bool := less (Z.of_nat u) (Z.of_nat v).

Definition topo_F (z : list Z) : Prop :=
  perm n z /\ forall u v, (u < n)%nat -> (v < n)%nat -> lessn u v = true -> (P z u < P z v)%nat.

(* no member with the same smaller digits has a larger digit i *)
Definition max_at (x : list Z) (i : nat) : Prop :=
  forall z, topo_F z -> (forall k, (k < i)%nat -> r z k = r x k) -> (r z i <= r x i)%nat.

Lemma max_at_ext : forall x y i, (forall k, (k <= i)%nat -> r x k = r y k) -> max_at x i -> max_at y i.
Proof.
  intros x y i H M z Fz Hz. rewrite <- (H i) by lia. apply M; auto.
  intros k Hk. rewrite (H k) by lia. apply Hz. auto.
Qed.

(* i is blocked: it stands first, or its left neighbour l0 must precede it *)
Lemma blocked_max : forall x i, perm n x -> (i < n)%nat ->
  (P x i = O \/ exists l0, (l0 < i)%nat /\ S (P x l0) = P x i /\ lessn l0 i = true) ->
  max_at x i.
Proof.
  intros x i Hx Hi Hb z [Hz Hresp] Hr. unfold r. apply filter_len_le.
  intros l Hl Hzl. apply in_seq in Hl. apply Nat.ltb_lt in Hzl. apply Nat.ltb_lt.
  assert (Hne : P x l <> P x i) by (intro E; apply (P_inj n x) in E; auto; lia).
  destruct Hb as [H0|(l0 & Hl0 & Hp & Hless)]; [lia|].
  destruct (lt_dec (P x i) (P x l)); auto. exfalso.
  pose proof (Hresp l0 i ltac:(lia) Hi Hless) as Hz0.
  destruct (Nat.eq_dec l l0) as [->|Hll]; [lia|].
  assert (Hlt : (P x l < P x l0)%nat).
  { assert (P x l <> P x l0) by (intro E; apply (P_inj n x) in E; auto; lia). lia. }
  pose proof (tau_order n i ltac:(lia) x z Hx Hz ltac:(intros; symmetry; apply Hr; auto) l l0 ltac:(lia) Hl0 Hlt).
  lia.
Qed.

End Family.

(* ------------------------------------------------------------------ arrays *)

Section Arrays.
Variable n : nat.
Variable less : Z -> Z -> bool.
Hypothesis less_sub : forall u v, (u < n)%nat -> (v < n)%nat -> lessn less u v = true -> (u < v)%nat.

Definition sv (st : list Z) (i : nat) : nat := Z.to_nat (nth i st 0).

Definition t_inv (st inv : list Z) : Prop :=
  length st = n /\ length inv = n /\
  (forall i, (i < n)%nat -> 0 <= nth i st 0 < Z.of_nat n /\ nth (sv st i) inv 0 = Z.of_nat i) /\
  (forall v, (v < n)%nat -> 0 <= nth v inv 0 < Z.of_nat n /\ nth (sv inv v) st 0 = Z.of_nat v).

Lemma tinv_perm : forall st inv, t_inv st inv -> perm n st.
Proof.
  intros st inv (Ls & Li & Hs & Hi). unfold perm.
  apply NoDup_Permutation_bis.
  - apply (NoDup_nth st 0). intros i j Hi' Hj' E. rewrite Ls in *.
    destruct (Hs i Hi') as [_ E1]. destruct (Hs j Hj') as [_ E2]. unfold sv in *. rewrite E in E1.
    rewrite E1 in E2. lia.
  - rewrite iota_length. lia.
  - intros v Hv. destruct (In_nth _ _ 0 Hv) as (i & Hi' & <-). rewrite Ls in Hi'.
    apply in_iota. apply Hs. auto.
Qed.

Lemma tinv_P : forall st inv v, t_inv st inv -> (v < n)%nat -> P st v = sv inv v.
Proof.
  intros st inv v T Hv. pose proof (tinv_perm st inv T) as Hp.
  destruct T as (Ls & Li & Hs & Hi). destruct (Hi v Hv) as [Hr E].
  unfold P. rewrite <- E. apply pos_nth; [eapply perm_nodup; eauto|]. unfold sv. lia.
Qed.

Definition resp (st : list Z) : Prop :=
  forall u v, (u < n)%nat -> (v < n)%nat -> lessn less u v = true -> (P st u < P st v)%nat.

Definition home (st : list Z) (c : nat) : Prop := forall i, (c <= i < n)%nat -> nth i st 0 = Z.of_nat i.

Lemma home_P : forall st inv c, t_inv st inv -> home st c -> forall v, (c <= v < n)%nat -> P st v = v.
Proof.
  intros st inv c T H v Hv. pose proof (tinv_perm st inv T) as Hp.
  unfold P. rewrite <- (H v Hv). apply pos_nth; [eapply perm_nodup; eauto|].
  rewrite (perm_length n st Hp). lia.
Qed.

(* ---- the inner loop: shift one place to the left *)
Lemma ts_shift_spec : forall cnt j st inv, length st = n -> length inv = n -> (j + cnt < n)%nat ->
  (forall t, (j < t <= j + cnt)%nat -> 0 <= nth t st 0 < Z.of_nat n /\ nth (sv st t) inv 0 = Z.of_nat t) ->
  exists st' inv', ts_shift cnt j st inv = Some (st', inv') /\ length st' = n /\ length inv' = n /\
    (forall t, (j <= t < j + cnt)%nat -> nth t st' 0 = nth (S t) st 0) /\
    (forall t, (t < j \/ j + cnt <= t)%nat -> nth t st' 0 = nth t st 0) /\
    (forall t, (j < t <= j + cnt)%nat -> nth (sv st t) inv' 0 = Z.of_nat t - 1) /\
    (forall v, (v < n)%nat -> (forall t, (j < t <= j + cnt)%nat -> sv st t <> v) -> nth v inv' 0 = nth v inv 0).
Proof.
  induction cnt as [|c IH]; intros j st inv Ls Li Hj Hr.
  - exists st, inv. split; [reflexivity|]. split; auto. split; auto. split; [|split; [|split]].
    + intros; lia.
    + auto.
    + intros; lia.
    + auto.
  - cbn [ts_shift]. rewrite (get_nth st (S j)) by lia.
    destruct (Hr (S j) ltac:(lia)) as [Hl El].
    set (l := nth (S j) st 0) in *. rewrite set_upd by lia.
    unfold setZ, idx. destruct (Z.ltb_spec l 0); [lia|]. cbn. rewrite set_upd by lia.
    set (st1 := upd st j l). set (inv1 := upd inv (Z.to_nat l) (Z.of_nat j)).
    assert (Hst1 : forall t, t <> j -> nth t st1 0 = nth t st 0) by (intros; unfold st1; apply nth_upd_neq; lia).
    destruct (IH (S j) st1 inv1) as (st' & inv' & E & Ls' & Li' & Hs' & Hs'' & Hin' & Hout'); try lia.
    { unfold st1. rewrite upd_length. auto. }
    { unfold inv1. rewrite upd_length. auto. }
    { intros t Ht. unfold sv. rewrite Hst1 by lia. destruct (Hr t ltac:(lia)) as [Ht1 Ht2]. split; auto.
      unfold inv1. rewrite nth_upd_neq; [exact Ht2|].
      intro E. unfold sv in Ht2, El. fold l in El. rewrite E in El. rewrite El in Ht2. lia. }
    exists st', inv'. split; [exact E|]. split; auto. split; auto. split; [|split; [|split]].
    + intros t Ht. destruct (Nat.eq_dec t j) as [->|Hne].
      * rewrite Hs'' by lia. unfold st1. rewrite nth_upd_eq by lia. reflexivity.
      * rewrite Hs' by lia. apply Hst1. lia.
    + intros t Ht. rewrite Hs'' by lia. apply Hst1. lia.
    + intros t Ht. destruct (Nat.eq_dec t (S j)) as [->|Hne].
      * unfold sv. fold l. rewrite Hout'.
        -- unfold inv1. rewrite nth_upd_eq by lia. lia.
        -- lia.
        -- intros t' Ht' E'. unfold sv in E'. rewrite Hst1 in E' by lia.
           destruct (Hr t' ltac:(lia)) as [_ E2]. unfold sv in E2, El. fold l in El. rewrite E' in E2. lia.
      * specialize (Hin' t ltac:(lia)). unfold sv in *. rewrite Hst1 in Hin' by lia. exact Hin'.
    + intros v Hv Hnot. rewrite Hout'; auto.
      * unfold inv1. apply nth_upd_neq. specialize (Hnot (S j) ltac:(lia)). unfold sv in Hnot. fold l in Hnot. auto.
      * intros t Ht. unfold sv. rewrite Hst1 by lia. apply Hnot. lia.
Qed.

End Arrays.
