(* Arrays as lists (checked get/set against nth/upd), the lexicographic order on arrays of equal
   length, the generic "immediate successor" lemma for lexicographic families, and finiteness of
   families of bounded arrays. *)
From Coq Require Import List ZArith Lia Arith Bool Sorted.
From Mamba Require Import Iter.Model.
Import ListNotations.
Open Scope Z_scope.

(* ------------------------------------------------------------------ get / set *)

Fixpoint upd (l : list Z) (i : nat) (v : Z) : list Z :=
  match l, i with
  | [], _ => []
  | _ :: t, O => v :: t
  | h :: t, S j => h :: upd t j v
  end.

Lemma get_nth : forall l i, (i < length l)%nat -> get l i = Some (nth i l 0).
Proof.
  unfold get. induction l as [|a l IH]; intros [|i] H; simpl in *; try lia; auto. apply IH. lia.
Qed.

Lemma get_Some_inv : forall l i x, get l i = Some x -> (i < length l)%nat /\ x = nth i l 0.
Proof.
  unfold get. induction l as [|a l IH]; intros [|i] x H; simpl in *; try discriminate.
  - inversion H. split; [lia|auto].
  - destruct (IH _ _ H). split; [lia|auto].
Qed.

Lemma get_None_inv : forall l i, get l i = None -> (length l <= i)%nat.
Proof. unfold get. intros l i H. apply nth_error_None. exact H. Qed.

Lemma set_upd : forall l i v, (i < length l)%nat -> set l i v = Some (upd l i v).
Proof.
  induction l as [|a l IH]; intros [|i] v H; simpl in *; try lia; auto. rewrite IH by lia. auto.
Qed.

Lemma set_Some_inv : forall l i v l', set l i v = Some l' -> (i < length l)%nat /\ l' = upd l i v.
Proof.
  induction l as [|a l IH]; intros [|i] v l' H; simpl in *; try discriminate.
  - inversion H. split; [lia|auto].
  - destruct (set l i v) eqn:E; [|discriminate]. inversion H. destruct (IH _ _ _ E). subst. split; [lia|auto].
Qed.

Lemma upd_length : forall l i v, length (upd l i v) = length l.
Proof. induction l; destruct i; simpl; auto. Qed.

Lemma nth_upd_eq : forall l i v, (i < length l)%nat -> nth i (upd l i v) 0 = v.
Proof. induction l; destruct i; simpl; intros; try lia; auto. apply IHl. lia. Qed.

Lemma nth_upd_neq : forall l i j v, i <> j -> nth j (upd l i v) 0 = nth j l 0.
Proof. induction l; destruct i, j; simpl; intros; try lia; auto. Qed.

Lemma nth_upd : forall l i j v, (i < length l)%nat ->
  nth j (upd l i v) 0 = if (i =? j)%nat then v else nth j l 0.
Proof.
  intros. destruct (Nat.eqb_spec i j).
  - subst. apply nth_upd_eq; auto.
  - apply nth_upd_neq; auto.
Qed.

Lemma idx_nat : forall i : nat, idx (Z.of_nat i) = Some i.
Proof. intros. unfold idx. destruct (Z.ltb_spec (Z.of_nat i) 0); [lia|]. rewrite Nat2Z.id. auto. Qed.

Lemma getZ_nat : forall l (i : nat), getZ l (Z.of_nat i) = get l i.
Proof. intros. unfold getZ. rewrite idx_nat. auto. Qed.

Lemma setZ_nat : forall l (i : nat) v, setZ l (Z.of_nat i) v = set l i v.
Proof. intros. unfold setZ. rewrite idx_nat. auto. Qed.

Lemma nth_repeat0 : forall n i, nth i (repeat 0 n) 0 = 0.
Proof. induction n; destruct i; simpl; auto. Qed.

Lemma nth_iota : forall k i, (i < k)%nat -> nth i (iota k) 0 = Z.of_nat i.
Proof.
  intros. unfold iota. change 0 with (Z.of_nat 0). rewrite map_nth. rewrite seq_nth by lia. auto.
Qed.

Lemma iota_length : forall k, length (iota k) = k.
Proof. intros. unfold iota. rewrite map_length, seq_length. auto. Qed.

Lemma in_iota : forall k v, In v (iota k) <-> 0 <= v < Z.of_nat k.
Proof.
  intros. unfold iota. rewrite in_map_iff. split.
  - intros (i & <- & Hi). apply in_seq in Hi. lia.
  - intros H. exists (Z.to_nat v). split; [lia|]. apply in_seq. lia.
Qed.

(* ------------------------------------------------------------------ the lexicographic order *)

Definition agree (x y : list Z) (j : nat) : Prop := forall i, (i < j)%nat -> nth i x 0 = nth i y 0.

Definition lex_lt (x y : list Z) : Prop :=
  exists j, (j < length x)%nat /\ agree x y j /\ nth j x 0 < nth j y 0.

Lemma agree_sym : forall x y j, agree x y j -> agree y x j.
Proof. intros x y j H i Hi. symmetry. auto. Qed.

Lemma agree_le : forall x y j j', agree x y j -> (j' <= j)%nat -> agree x y j'.
Proof. intros x y j j' H Hle i Hi. apply H. lia. Qed.

Lemma lex_irrefl : forall x, ~ lex_lt x x.
Proof. intros x (j & _ & _ & H). lia. Qed.

Lemma lex_trans : forall x y z, length x = length y -> lex_lt x y -> lex_lt y z -> lex_lt x z.
Proof.
  intros x y z Hlen (j1 & L1 & A1 & H1) (j2 & L2 & A2 & H2).
  destruct (lt_eq_lt_dec j1 j2) as [[Hc|Hc]|Hc].
  - exists j1. split; [auto|]. split.
    + intros i Hi. rewrite A1 by lia. apply A2. lia.
    + rewrite <- A2 by lia. auto.
  - subst j2. exists j1. split; [auto|]. split.
    + intros i Hi. rewrite A1 by lia. apply A2. lia.
    + lia.
  - exists j2. split; [lia|]. split.
    + intros i Hi. rewrite A1 by lia. apply A2. lia.
    + rewrite A1 by lia. auto.
Qed.

Lemma first_diff : forall x y : list Z, length x = length y ->
  x = y \/ exists j, (j < length x)%nat /\ agree x y j /\ nth j x 0 <> nth j y 0.
Proof.
  induction x as [|a x IH]; intros [|b y] H; simpl in *; try discriminate; auto.
  destruct (Z.eq_dec a b) as [->|Hab].
  - destruct (IH y) as [->|(j & Hj & A & D)]; [lia|auto|].
    right. exists (S j). split; [lia|]. split; auto.
    intros [|i] Hi; simpl; auto. apply A. lia.
  - right. exists O. split; [lia|]. split; auto. intros i Hi. lia.
Qed.

Lemma lex_total : forall x y, length x = length y -> x = y \/ lex_lt x y \/ lex_lt y x.
Proof.
  intros x y H. destruct (first_diff x y H) as [->|(j & Hj & A & D)]; auto.
  right. destruct (Z.lt_total (nth j x 0) (nth j y 0)) as [Hc|[Hc|Hc]]; try lia.
  - left. exists j. auto.
  - right. exists j. split; [lia|]. split; [apply agree_sym; auto|auto].
Qed.

(* The generic successor lemma.  In a family of arrays of length m, let x and y agree before
   position j with x[j] < y[j], and suppose that
   (a) no member that agrees with x before j has a value strictly between x[j] and y[j] at j,
   (b) after j, x is greedily maximal: a member agreeing with x before i > j is <= x[i] at i,
   (c) after j, y is greedily minimal: a member agreeing with y before i > j is >= y[i] at i.
   Then no member lies strictly between x and y. *)
Lemma lex_no_between : forall (F : list Z -> Prop) (m : nat) (x y : list Z) (j : nat),
  (forall z, F z -> length z = m) -> length x = m -> length y = m ->
  (j < m)%nat -> agree x y j -> nth j x 0 < nth j y 0 ->
  (forall z, F z -> agree x z j -> nth j x 0 < nth j z 0 -> nth j z 0 < nth j y 0 -> False) ->
  (forall z i, F z -> (j < i < m)%nat -> agree x z i -> nth i z 0 <= nth i x 0) ->
  (forall z i, F z -> (j < i < m)%nat -> agree y z i -> nth i y 0 <= nth i z 0) ->
  forall z, F z -> lex_lt x z -> lex_lt z y -> False.
Proof.
  intros F m x y j HF Lx Ly Hj Axy Hlt Ha Hb Hc z Fz (i1 & L1 & A1 & H1) (i2 & L2 & A2 & H2).
  pose proof (HF z Fz) as Lz.
  destruct (lt_eq_lt_dec i1 j) as [[C1|C1]|C1].
  - (* x and z differ before j *)
    destruct (lt_eq_lt_dec i2 i1) as [[C2|C2]|C2].
    + rewrite <- A1 in H2 by lia. rewrite Axy in H2 by lia. lia.
    + subst i2. rewrite <- Axy in H2 by lia. lia.
    + rewrite A2 in H1 by lia. rewrite <- Axy in H1 by lia. lia.
  - subst i1.
    destruct (lt_eq_lt_dec i2 j) as [[C2|C2]|C2].
    + rewrite <- A1 in H2 by lia. rewrite Axy in H2 by lia. lia.
    + subst i2. eapply Ha; eauto.
    + assert (nth i2 y 0 <= nth i2 z 0); [|lia].
      apply Hc; auto; [lia|]. apply agree_sym; auto.
  - assert (nth i1 z 0 <= nth i1 x 0); [|lia].
    apply Hb; auto. lia.
Qed.

(* x is the least member when it is greedily minimal everywhere, the greatest when greedily maximal *)
Lemma lex_least : forall (F : list Z -> Prop) (x : list Z),
  (forall z i, F z -> (i < length z)%nat -> agree x z i -> nth i x 0 <= nth i z 0) ->
  forall z, F z -> ~ lex_lt z x.
Proof.
  intros F x H z Fz (i & L & A & Hi). assert (nth i x 0 <= nth i z 0); [|lia].
  apply H; auto. apply agree_sym; auto.
Qed.

Lemma lex_greatest : forall (F : list Z -> Prop) (x : list Z),
  (forall z i, F z -> (i < length x)%nat -> agree x z i -> nth i z 0 <= nth i x 0) ->
  forall z, F z -> ~ lex_lt x z.
Proof.
  intros F x H z Fz (i & L & A & Hi). assert (nth i z 0 <= nth i x 0); [|lia].
  apply H; auto.
Qed.

Lemma nth_ext0 : forall x y : list Z, length x = length y ->
  (forall i, (i < length x)%nat -> nth i x 0 = nth i y 0) -> x = y.
Proof. intros. apply nth_ext with (d := 0) (d' := 0); auto. Qed.

(* ------------------------------------------------------------------ finiteness *)

Fixpoint all_lists (m B : nat) : list (list Z) :=
  match m with
  | O => [[]]
  | S m' => flat_map (fun v => map (cons v) (all_lists m' B)) (iota B)
  end.

Lemma all_lists_complete : forall m B x, length x = m ->
  (forall i, (i < m)%nat -> 0 <= nth i x 0 < Z.of_nat B) -> In x (all_lists m B).
Proof.
  induction m as [|m IH]; intros B x Hl Hb.
  - destruct x; [left; auto|discriminate].
  - destruct x as [|a x]; [discriminate|]. simpl. apply in_flat_map. exists a. split.
    + apply in_iota. apply (Hb O). lia.
    + apply in_map. apply IH; [simpl in Hl; lia|]. intros i Hi. apply (Hb (S i)). lia.
Qed.

(* lists of length at most m *)
Fixpoint all_lists_upto (m B : nat) : list (list Z) :=
  match m with
  | O => all_lists O B
  | S m' => all_lists (S m') B ++ all_lists_upto m' B
  end.

Lemma all_lists_upto_complete : forall m B x, (length x <= m)%nat ->
  (forall i, (i < length x)%nat -> 0 <= nth i x 0 < Z.of_nat B) -> In x (all_lists_upto m B).
Proof.
  induction m as [|m IH]; intros B x Hl Hb.
  - simpl. destruct x; [left; auto|simpl in Hl; lia].
  - cbn [all_lists_upto]. apply in_or_app.
    destruct (Nat.eq_dec (length x) (S m)) as [E|E].
    + left. apply all_lists_complete; auto. rewrite <- E. auto.
    + right. apply IH; auto. lia.
Qed.

(* a strictly sorted list has no repetition *)
Lemma strict_sorted_nodup : forall (lt : list Z -> list Z -> Prop), (forall x, ~ lt x x) ->
  forall l, StronglySorted lt l -> NoDup l.
Proof.
  intros lt Hirr l H. induction H as [|a l Hs IH Hall]; constructor; auto.
  intro Hin. rewrite Forall_forall in Hall. apply (Hirr a). apply Hall, Hin.
Qed.
