(* Heap's algorithm on index functions.  A complete run over the first k positions applies a
   fixed rearrangement pi k to the array (independent of its contents): the exchange of the
   positions 0 and k-1 for odd k, an irregular rotation rho for even k.  Between the rounds of
   level L the array is the original one rearranged by Phi (pi L) L d, and the values standing
   at position L in the rounds d = 0..L are pairwise different.  (Classical analysis of Heap's
   algorithm, here for the iterative form used by itertools.Permutations.) *)
From Coq Require Import List Arith Bool Lia Permutation.
Import ListNotations.

Definition tr (a b p : nat) : nat := if p =? a then b else if p =? b then a else p.
Definition sidx (L d : nat) : nat := if Nat.even L then 0 else d.

(* rearrangement in force at the beginning of round d of level L: array_d[p] = array_0[Phi .. d p] *)
Fixpoint Phi (piL : nat -> nat) (L d p : nat) : nat :=
  match d with
  | 0 => p
  | S d' => Phi piL L d' (piL (tr (sidx L d') L p))
  end.

(* rearrangement applied by a complete run over the first k positions *)
Fixpoint pi (k p : nat) : nat :=
  match k with
  | 0 => p
  | S L => Phi (pi L) L L (pi L p)
  end.

Definition rho (j p : nat) : nat :=
  if p =? 0 then j - 2 else if p =? 1 then j - 1 else if p <=? j - 2 then p - 1
  else if p =? j - 1 then j else if p =? j then 0 else p.

Definition pispec (L p : nat) : nat :=
  if Nat.even L then tr 0 L p else if L =? 1 then tr 0 1 p else rho L p.

Ltac noif t := lazymatch t with context[if _ then _ else _] => fail | _ => idtac end.

Ltac ncases := repeat (match goal with
  | |- context[Nat.eqb ?a ?b] => noif a; noif b; destruct (Nat.eqb_spec a b)
  | |- context[Nat.ltb ?a ?b] => noif a; noif b; destruct (Nat.ltb_spec a b)
  | |- context[Nat.leb ?a ?b] => noif a; noif b; destruct (Nat.leb_spec a b)
  end; try (exfalso; lia)).

Lemma even_S : forall c, Nat.even (S c) = negb (Nat.even c).
Proof.
  induction c as [|c IH]; [reflexivity|]. rewrite Nat.even_succ_succ. rewrite IH. destruct (Nat.even c); reflexivity.
Qed.

Lemma even_SS : forall c, Nat.even (S (S c)) = Nat.even c.
Proof. reflexivity. Qed.

Lemma tr_le : forall a b p m, a <= m -> b <= m -> p <= m -> tr a b p <= m.
Proof. intros. unfold tr. ncases; lia. Qed.

Lemma tr_invol : forall a b p, tr a b (tr a b p) = p.
Proof. intros. unfold tr. ncases; lia. Qed.

Lemma sidx_le : forall L d, d <= L -> sidx L d <= L.
Proof. intros. unfold sidx. destruct (Nat.even L); lia. Qed.

Lemma Phi_ext : forall f g L d p, (forall q, q <= L -> f q = g q) -> (forall q, q <= L -> f q <= L) ->
  d <= S L -> p <= L -> Phi f L d p = Phi g L d p /\ Phi f L d p <= L.
Proof.
  intros f g L d. induction d as [|d IH]; intros p Hfg Hf Hd Hp; [simpl; auto|].
  cbn [Phi].
  assert (Hq : tr (sidx L d) L p <= L) by (apply tr_le; auto; apply sidx_le; lia).
  rewrite <- (Hfg _ Hq). apply IH; auto. lia.
Qed.

Lemma Phi_fix : forall f L d p, (forall q, L < q -> f q = q) -> d <= S L -> L < p -> Phi f L d p = p.
Proof.
  intros f L d. induction d as [|d IH]; intros p Hf Hd Hp; [reflexivity|].
  cbn [Phi]. assert (E : tr (sidx L d) L p = p).
  { unfold tr. pose proof (sidx_le L d ltac:(lia)). ncases; lia. }
  rewrite E, Hf by auto. apply IH; auto. lia.
Qed.

Lemma pi_fix : forall k p, k <= p -> pi k p = p.
Proof.
  induction k as [|L IH]; intros p Hp; [reflexivity|].
  cbn [pi]. rewrite IH by lia. apply Phi_fix; auto; try lia. intros q Hq. apply IH. lia.
Qed.

(* ------------------------------------------------------------------ odd level i >= 3 *)

Definition alt (i c : nat) : nat := if Nat.even c then 0 else i.

Definition cfo (i c p : nat) : nat :=
  if c =? 0 then p
  else if c =? 1 then (if p =? 0 then i else if p =? i - 1 then 0 else if p =? i then i - 1 else p)
  else if c =? i then (if p =? 0 then i else if p =? 1 then i - 1 else if p =? i then 0
                       else if p <=? i - 1 then p - 1 else p)
  else (if p =? 0 then alt i c else if p =? 1 then i - 1 else if p <? c then p - 1
        else if p <=? i - 2 then p else if p =? i - 1 then alt i (S c) else if p =? i then c - 1 else p).

Lemma cfo_step : forall i c p, Nat.even i = false -> 3 <= i -> c < i -> p <= i ->
  cfo i c (tr 0 (i - 1) (tr c i p)) = cfo i (S c) p.
Proof.
  intros i c p Hi H3 Hc Hp.
  assert (Hpar : c = i - 1 -> Nat.even c = true).
  { intros E. assert (E2 : i = S c) by lia. rewrite E2, even_S in Hi. destruct (Nat.even c); auto; try discriminate. }
  destruct c as [|[|c]].
  - unfold cfo, tr, alt. cbn [Nat.even negb]. ncases; lia.
  - unfold cfo, tr, alt. cbn [Nat.even negb]. ncases; lia.
  - unfold cfo, tr, alt. repeat rewrite even_SS. rewrite ?even_S.
    destruct (Nat.eq_dec (S (S c)) (i - 1)) as [E|E].
    + pose proof (Hpar E) as Hc'. rewrite even_SS in Hc'. rewrite Hc'. cbn [negb]. ncases; lia.
    + destruct (Nat.even c); cbn [negb]; ncases; lia.
Qed.

Lemma cfo_correct : forall i, Nat.even i = false -> 3 <= i -> forall c p, c <= i -> p <= i ->
  Phi (tr 0 (i - 1)) i c p = cfo i c p.
Proof.
  intros i Hi H3. induction c as [|c IH]; intros p Hc Hp; [reflexivity|].
  cbn [Phi]. unfold sidx. rewrite Hi.
  rewrite IH by (try lia; repeat apply tr_le; lia).
  apply cfo_step; auto.
Qed.

(* ------------------------------------------------------------------ even level i >= 4 *)

Definition yy (i t : nat) : nat :=
  if t =? 0 then i else if t <=? i - 3 then i - 2 - t else if t =? i - 2 then i - 2
  else if t =? i - 1 then i - 1 else 0.

Definition yinv (i p : nat) : nat :=
  if p =? i then 0 else if p =? 0 then i else if p =? i - 1 then i - 1 else if p =? i - 2 then i - 2
  else i - 2 - p.

Definition wrap (i q : nat) : nat := if q <=? i then q else q - S i.

Lemma yy_le : forall i t, 4 <= i -> yy i t <= i.
Proof. intros. unfold yy. ncases; lia. Qed.

Lemma yy_yinv : forall i p, 4 <= i -> p <= i -> yy i (yinv i p) = p /\ yinv i p <= i.
Proof. intros. unfold yy, yinv. ncases; lia. Qed.

Lemma yy_inj : forall i t t', 4 <= i -> t <= i -> t' <= i -> yy i t = yy i t' -> t = t'.
Proof. intros i t t' H Ht Ht'. unfold yy. ncases; lia. Qed.

Lemma tau_yy : forall i t, 4 <= i -> t <= i ->
  rho (i - 1) (tr 0 i (yy i t)) = yy i (if t <? i then S t else 0).
Proof. intros i t H Ht. unfold rho, tr, yy. ncases; lia. Qed.

Lemma Phi_yy : forall i, Nat.even i = true -> 4 <= i -> forall d t, d <= S i -> t <= i ->
  Phi (rho (i - 1)) i d (yy i t) = yy i (wrap i (t + d)).
Proof.
  intros i Hi H4. induction d as [|d IH]; intros t Hd Ht.
  - cbn [Phi]. rewrite Nat.add_0_r. unfold wrap. destruct (Nat.leb_spec t i); [auto|lia].
  - cbn [Phi]. unfold sidx. rewrite Hi. rewrite tau_yy by auto.
    destruct (Nat.ltb_spec t i).
    + rewrite IH by lia. f_equal. f_equal. lia.
    + rewrite IH by lia. f_equal. unfold wrap. ncases; lia.
Qed.

(* ------------------------------------------------------------------ the net rearrangement *)

Lemma pispec_le : forall L p, p <= L -> pispec L p <= L.
Proof. intros. unfold pispec, tr, rho. destruct (Nat.even L); ncases; lia. Qed.

Lemma pi_small : forall L p, L < 3 -> p <= L -> pi (S L) p = pispec L p.
Proof.
  intros L p HL Hp.
  destruct L as [|[|[|L]]]; try lia;
  destruct p as [|[|[|p]]]; try lia; vm_compute; reflexivity.
Qed.

Theorem pi_spec : forall L p, pi (S L) p = pispec L p.
Proof.
  induction L as [L IH] using lt_wf_ind. intros p.
  destruct (le_lt_dec p L) as [Hp|Hp].
  2:{ rewrite pi_fix by lia. unfold pispec, tr, rho. destruct (Nat.even L) eqn:Ev; [ncases; lia|].
      assert (L <> 0) by (intros ->; discriminate). ncases; lia. }
  destruct (le_lt_dec 3 L) as [H3|H3]; [|apply pi_small; auto].
  assert (Hprev : forall q, pi L q = pispec (L - 1) q).
  { intros q. replace L with (S (L - 1)) at 1 by lia. apply IH. lia. }
  cbn [pi].
  destruct (Nat.even L) eqn:Ev.
  - (* even level, L >= 4: the rounds repeat one rearrangement, a cycle of length L+1 *)
    assert (H4 : 4 <= L) by (destruct (Nat.eq_dec L 3) as [->|]; [discriminate|lia]).
    assert (Eprev : forall q, pispec (L - 1) q = rho (L - 1) q).
    { intros q. unfold pispec. assert (Nat.even (L - 1) = false).
      { replace L with (S (L - 1)) in Ev by lia. rewrite even_S in Ev. destruct (Nat.even (L - 1)); auto; try discriminate. }
      rewrite H. destruct (Nat.eqb_spec (L - 1) 1); [lia|]. reflexivity. }
    assert (Hext : forall d q, d <= S L -> q <= L -> Phi (pi L) L d q = Phi (rho (L - 1)) L d q).
    { intros d q Hd Hq. apply Phi_ext; auto.
      - intros q' Hq'. rewrite Hprev. apply Eprev.
      - intros q' Hq'. rewrite Hprev. destruct (Nat.eq_dec q' L) as [->|].
        + rewrite Eprev. unfold rho. ncases; lia.
        + pose proof (pispec_le (L - 1) q' ltac:(lia)). lia. }
    rewrite Hprev, Eprev.
    (* pi L p = tau (tr 0 L p), hence Phi .. L (pi L p) = Phi .. (S L) (tr 0 L p) *)
    set (q := tr 0 L p). assert (Hq : q <= L) by (apply tr_le; lia).
    assert (E : rho (L - 1) p = rho (L - 1) (tr (sidx L L) L q)).
    { unfold sidx. rewrite Ev. unfold q. rewrite tr_invol. reflexivity. }
    rewrite E. rewrite Hext; [|lia|].
    2:{ unfold sidx. rewrite Ev. unfold q. rewrite tr_invol. unfold rho. ncases; lia. }
    change (Phi (rho (L - 1)) L L (rho (L - 1) (tr (sidx L L) L q))) with (Phi (rho (L - 1)) L (S L) q).
    destruct (yy_yinv L q H4 Hq) as [Ey Hy]. rewrite <- Ey at 1.
    rewrite Phi_yy by auto.
    replace (wrap L (yinv L q + S L)) with (yinv L q) by (unfold wrap; ncases; lia).
    rewrite Ey. unfold pispec. rewrite Ev. reflexivity.
  - (* odd level, L >= 3 *)
    assert (Eprev : forall q, pispec (L - 1) q = tr 0 (L - 1) q).
    { intros q. unfold pispec. assert (Nat.even (L - 1) = true).
      { replace L with (S (L - 1)) in Ev by lia. rewrite even_S in Ev. destruct (Nat.even (L - 1)); auto; try discriminate. }
      rewrite H. reflexivity. }
    rewrite Hprev, Eprev.
    assert (Hq : tr 0 (L - 1) p <= L) by (apply tr_le; lia).
    destruct (Phi_ext (pi L) (tr 0 (L - 1)) L L (tr 0 (L - 1) p)) as [E _]; auto.
    { intros q' Hq'. rewrite Hprev. apply Eprev. }
    { intros q' Hq'. rewrite Hprev, Eprev. apply tr_le; lia. }
    rewrite E. rewrite cfo_correct by (auto; lia).
    unfold pispec. rewrite Ev. destruct (Nat.eqb_spec L 1); [lia|].
    unfold cfo, tr, rho. ncases; lia.
Qed.

(* ------------------------------------------------------------------ the values standing at position L *)

Definition atL (L d : nat) : nat := Phi (pi L) L d L.

Lemma pi_eq_prev : forall L q, 1 <= L -> pi L q = pispec (L - 1) q.
Proof. intros L q H. replace L with (S (L - 1)) at 1 by lia. apply pi_spec. Qed.

Lemma pi_le : forall L q, q <= L -> pi L q <= L.
Proof.
  intros L q Hq. destruct L as [|L]; [simpl; lia|].
  rewrite pi_spec. destruct (Nat.eq_dec q (S L)) as [->|].
  - rewrite <- pi_spec. rewrite pi_fix; lia.
  - pose proof (pispec_le L q ltac:(lia)). lia.
Qed.

Lemma atL_closed : forall L d, 3 <= L -> d <= L ->
  atL L d = if Nat.even L then yy L d
            else if d =? 0 then L else if d =? 1 then L - 1 else if d =? L then 0 else d - 1.
Proof.
  intros L d H3 Hd. unfold atL.
  destruct (Nat.even L) eqn:Ev.
  - assert (H4 : 4 <= L) by (destruct (Nat.eq_dec L 3) as [->|]; [discriminate|lia]).
    destruct (Phi_ext (pi L) (rho (L - 1)) L d L) as [E _]; auto; try lia.
    { intros q Hq. rewrite pi_eq_prev by lia. unfold pispec.
      assert (Nat.even (L - 1) = false).
      { replace L with (S (L - 1)) in Ev by lia. rewrite even_S in Ev. destruct (Nat.even (L - 1)); auto; try discriminate. }
      rewrite H. destruct (Nat.eqb_spec (L - 1) 1); [lia|]. reflexivity. }
    { intros q Hq. apply pi_le. auto. }
    rewrite E. replace L with (yy L 0) at 3 by (unfold yy; ncases; lia).
    rewrite Phi_yy by (auto; lia). f_equal. unfold wrap. ncases; lia.
  - destruct (Phi_ext (pi L) (tr 0 (L - 1)) L d L) as [E _]; auto; try lia.
    { intros q Hq. rewrite pi_eq_prev by lia. unfold pispec.
      assert (Nat.even (L - 1) = true).
      { replace L with (S (L - 1)) in Ev by lia. rewrite even_S in Ev. destruct (Nat.even (L - 1)); auto; try discriminate. }
      rewrite H. reflexivity. }
    { intros q Hq. apply pi_le. auto. }
    rewrite E. rewrite cfo_correct by (auto; lia). unfold cfo. ncases; lia.
Qed.

Definition atL_small_ok (L : nat) : bool :=
  forallb (fun d => forallb (fun d' => negb (atL L d =? atL L d') || (d =? d')) (seq 0 (S L))) (seq 0 (S L)) &&
  forallb (fun v => existsb (fun d => atL L d =? v) (seq 0 (S L))) (seq 0 (S L)).

Lemma atL_small : forall L, L < 3 -> atL_small_ok L = true.
Proof. intros L H. destruct L as [|[|[|L]]]; try lia; vm_compute; reflexivity. Qed.

Theorem atL_inj : forall L d d', d <= L -> d' <= L -> atL L d = atL L d' -> d = d'.
Proof.
  intros L d d' Hd Hd' E. destruct (le_lt_dec 3 L) as [H3|H3].
  - rewrite !atL_closed in E by auto. destruct (Nat.even L) eqn:Ev.
    + assert (H4 : 4 <= L) by (destruct (Nat.eq_dec L 3) as [->|]; [discriminate|lia]).
      apply (yy_inj L); auto.
    + revert E. ncases; lia.
  - pose proof (atL_small L H3) as H. unfold atL_small_ok in H. apply andb_true_iff in H. destruct H as [H _].
    rewrite forallb_forall in H. specialize (H d ltac:(apply in_seq; lia)).
    rewrite forallb_forall in H. specialize (H d' ltac:(apply in_seq; lia)).
    rewrite E, Nat.eqb_refl in H. simpl in H. apply Nat.eqb_eq. auto.
Qed.

Theorem atL_surj : forall L v, v <= L -> exists d, d <= L /\ atL L d = v.
Proof.
  intros L v Hv. destruct (le_lt_dec 3 L) as [H3|H3].
  - destruct (Nat.even L) eqn:Ev.
    + assert (H4 : 4 <= L) by (destruct (Nat.eq_dec L 3) as [->|]; [discriminate|lia]).
      destruct (yy_yinv L v H4 Hv) as [E Hle]. exists (yinv L v). split; auto.
      rewrite atL_closed by auto. rewrite Ev. auto.
    + exists (if v =? L then 0 else if v =? L - 1 then 1 else if v =? 0 then L else S v).
      split; [ncases; lia|]. rewrite atL_closed by (auto; ncases; lia). rewrite Ev. ncases; lia.
  - pose proof (atL_small L H3) as H. unfold atL_small_ok in H. apply andb_true_iff in H. destruct H as [_ H].
    rewrite forallb_forall in H. specialize (H v ltac:(apply in_seq; lia)).
    apply existsb_exists in H. destruct H as (d & Hd & E). apply in_seq in Hd. apply Nat.eqb_eq in E.
    exists d. split; [lia|auto].
Qed.

(* ------------------------------------------------------------------ the tables of a complete run *)

(* T n k: the arrays (as tables of indices into the initial array, length n) visited by a complete
   run over the first k positions, in order of generation, the initial arrangement first *)
Fixpoint T (n k : nat) : list (list nat) :=
  match k with
  | 0 => [seq 0 n]
  | S L => flat_map (fun d => map (map (Phi (pi L) L d)) (T n L)) (seq 0 (S L))
  end.

Definition kperm (n k : nat) (t : list nat) : Prop :=
  Permutation t (seq 0 n) /\ forall p, k <= p < n -> nth p t 0 = p.
