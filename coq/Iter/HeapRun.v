(* itertools.Permutations (Heap's algorithm): the model of Next(), started by the constructor,
   visits exactly the arrays [map Z.of_nat t] for t in the list of tables T n n of HeapIndex.v, in
   that order, and then reports exhaustion for ever.  (That T n n lists every permutation exactly
   once is HeapTables.T_enum.) *)
From Coq Require Import List ZArith Lia Arith Bool Permutation.
From Mamba Require Import Iter.Model Iter.Enum Iter.Lex Iter.PermUtil Iter.HeapIndex.
Import ListNotations.
Local Open Scope nat_scope.

(* ------------------------------------------------------------------ a fixed number of successful calls *)

Section Steps.
Variables St Obj : Type.
Variable next : St -> option (St * bool).
Variable value : St -> Obj.

Fixpoint steps (k : nat) (s : St) : option (list Obj * St) :=
  match k with
  | O => Some ([], s)
  | S k' =>
    match next s with
    | Some (s', true) =>
      match steps k' s' with Some (l, e) => Some (value s' :: l, e) | None => None end
    | _ => None
    end
  end.

Lemma steps_app : forall k1 k2 s l1 s1 l2 s2,
  steps k1 s = Some (l1, s1) -> steps k2 s1 = Some (l2, s2) -> steps (k1 + k2) s = Some (l1 ++ l2, s2).
Proof.
  induction k1 as [|k1 IH]; intros k2 s l1 s1 l2 s2 H1 H2.
  - simpl in H1. inversion H1; subst. exact H2.
  - simpl in *. destruct (next s) as [[s' [|]]|]; try discriminate.
    destruct (steps k1 s') as [[l e]|] eqn:E; [|discriminate]. inversion H1; subst.
    rewrite (IH k2 s' l s1 l2 s2 E H2). reflexivity.
Qed.

Lemma steps_one : forall s s', next s = Some (s', true) -> steps 1 s = Some ([value s'], s').
Proof. intros s s' H. simpl. rewrite H. reflexivity. Qed.

Lemma steps_drain : forall k s l s1 e, steps k s = Some (l, s1) -> next s1 = Some (e, false) ->
  drain next value (S k) s = Some (l, e).
Proof.
  induction k as [|k IH]; intros s l s1 e H1 H2.
  - simpl in H1. inversion H1; subst. simpl. rewrite H2. reflexivity.
  - cbn [steps] in H1. remember (S k) as k1 eqn:Ek. cbn [drain].
    destruct (next s) as [[s' [|]]|]; try discriminate.
    destruct (steps k s') as [[l' e']|] eqn:E; [|discriminate]. inversion H1; subst.
    rewrite (IH s' l' s1 e E H2). reflexivity.
Qed.

Lemma drain_first : forall k s0 s1 l e, next s0 = Some (s1, true) ->
  drain next value (S k) s1 = Some (l, e) -> drain next value (S (S k)) s0 = Some (value s1 :: l, e).
Proof.
  intros k s0 s1 l e H1 H2. remember (S k) as k1 eqn:Ek. cbn [drain]. rewrite H1, H2. reflexivity.
Qed.

End Steps.

Arguments steps {St Obj}.

(* ------------------------------------------------------------------ tables *)

Definition tab (n : nat) (f : nat -> nat) : list nat := map f (seq 0 n).
Definition sub (a t : list nat) : list nat := map (fun q => nth q a 0) t.
Definition zl (t : list nat) : list Z := map Z.of_nat t.

Lemma tab_length : forall n f, length (tab n f) = n.
Proof. intros. unfold tab. rewrite map_length, seq_length. auto. Qed.

Lemma nth_tab : forall n f q, q < n -> nth q (tab n f) 0 = f q.
Proof.
  intros n f q H. unfold tab. rewrite (nth_indep _ 0 (f 0)) by (rewrite map_length, seq_length; auto).
  rewrite map_nth, seq_nth by auto. reflexivity.
Qed.

Lemma sub_length : forall a t, length (sub a t) = length t.
Proof. intros. unfold sub. apply map_length. Qed.

Lemma sub_id : forall a n, length a = n -> sub a (seq 0 n) = a.
Proof.
  intros a n H. apply nth_ext with (d := 0) (d' := 0).
  - rewrite sub_length, seq_length. auto.
  - intros q Hq. rewrite sub_length, seq_length in Hq. unfold sub.
    rewrite (nth_indep _ 0 (nth 0 a 0)) by (rewrite map_length, seq_length; auto).
    rewrite (map_nth (fun q => nth q a 0)). rewrite seq_nth by auto. reflexivity.
Qed.

Lemma sub_comp : forall n a f t, (forall q, In q t -> q < n) -> sub (sub a (tab n f)) t = sub a (map f t).
Proof.
  intros n a f t H. unfold sub. rewrite map_map. apply map_ext_in. intros q Hq.
  specialize (H q Hq).
  rewrite (nth_indep _ 0 (nth 0 a 0)) by (rewrite map_length, tab_length; auto).
  rewrite (map_nth (fun q => nth q a 0)). rewrite nth_tab by auto. reflexivity.
Qed.

Lemma nth_sub_tab : forall n a f q, q < n -> nth q (sub a (tab n f)) 0 = nth (f q) a 0.
Proof.
  intros n a f q H. unfold sub.
  rewrite (nth_indep _ 0 (nth 0 a 0)) by (rewrite map_length, tab_length; auto).
  rewrite (map_nth (fun q => nth q a 0)). rewrite nth_tab by auto. reflexivity.
Qed.

Lemma nth_zl : forall t q, nth q (zl t) 0%Z = Z.of_nat (nth q t 0).
Proof. intros. unfold zl. change 0%Z with (Z.of_nat 0). apply map_nth. Qed.

Section Fixed.
Variable n : nat.

Definition Tt (k : nat) : list (list nat) := tl (T n k).

Lemma Phi_lt : forall L d q, L < n -> d <= S L -> q < n -> Phi (pi L) L d q < n.
Proof.
  intros L d q HL Hd Hq. destruct (le_lt_dec q L).
  - destruct (Phi_ext (pi L) (pi L) L d q) as [_ H]; auto; try lia. intros; apply pi_le; auto.
  - rewrite Phi_fix; auto. intros q' Hq'. apply pi_fix. lia.
Qed.

Lemma pi_lt : forall k q, q < n -> k <= n -> pi k q < n.
Proof.
  intros k q Hq Hk. destruct (le_lt_dec k q); [rewrite pi_fix; auto|].
  destruct k as [|L]; [lia|]. rewrite pi_spec. pose proof (pispec_le L q ltac:(lia)). lia.
Qed.

Lemma T_bound : forall k, k <= n -> forall t, In t (T n k) -> length t = n /\ forall q, In q t -> q < n.
Proof.
  induction k as [|L IH]; intros Hk t Ht.
  - simpl in Ht. destruct Ht as [<-|[]]. split; [apply seq_length|]. intros q Hq. apply in_seq in Hq. lia.
  - cbn [T] in Ht. apply in_flat_map in Ht. destruct Ht as (d & Hd & Ht). apply in_seq in Hd.
    apply in_map_iff in Ht. destruct Ht as (t0 & <- & Ht0).
    destruct (IH ltac:(lia) t0 Ht0) as [Hl Hb]. split; [rewrite map_length; auto|].
    intros q Hq. apply in_map_iff in Hq. destruct Hq as (q0 & <- & Hq0). apply Phi_lt; auto; lia.
Qed.

Lemma T_head : forall k, T n k = seq 0 n :: Tt k.
Proof.
  induction k as [|L IH]; [reflexivity|].
  assert (H : exists r, T n (S L) = seq 0 n :: r).
  { cbn [T]. change (seq 0 (S L)) with (0 :: seq 1 L). cbn [flat_map]. rewrite IH. cbn [map app].
    replace (map (Phi (pi L) L 0) (seq 0 n)) with (seq 0 n); [eexists; reflexivity|].
    rewrite <- map_id at 1. apply map_ext. intros q. reflexivity. }
  destruct H as [r E]. unfold Tt. rewrite E. reflexivity.
Qed.

(* the arrays after the initial one in the rounds d, d+1, .., d+cnt of level L *)
Fixpoint rest (L d cnt : nat) : list (list nat) :=
  match cnt with
  | O => map (map (Phi (pi L) L d)) (Tt L)
  | S c => map (map (Phi (pi L) L d)) (Tt L) ++ [tab n (Phi (pi L) L (S d))] ++ rest L (S d) c
  end.

Lemma flat_rest : forall L cnt d,
  flat_map (fun d => map (map (Phi (pi L) L d)) (T n L)) (seq d (S cnt)) =
  tab n (Phi (pi L) L d) :: rest L d cnt.
Proof.
  intros L. induction cnt as [|c IH]; intros d.
  - cbn [seq flat_map rest]. rewrite app_nil_r. rewrite T_head. reflexivity.
  - change (seq d (S (S c))) with (d :: seq (S d) (S c)). cbn [flat_map]. rewrite IH.
    rewrite T_head. cbn [map rest]. reflexivity.
Qed.

Lemma Tt_rest : forall L, Tt (S L) = rest L 0 L.
Proof.
  intros L. unfold Tt. cbn [T]. rewrite flat_rest. reflexivity.
Qed.

(* ------------------------------------------------------------------ the loop of Next *)

Lemma hl_skip : forall m i c p cnt, i + m <= length c ->
  (forall j, i <= j < i + m -> nth j c 0%Z = Z.of_nat j) ->
  exists c', heap_loop (m + cnt) i c p = heap_loop cnt (i + m) c' p /\ length c' = length c /\
    forall j, nth j c' 0%Z = if (i <=? j) && (j <? i + m) then 0%Z else nth j c 0%Z.
Proof.
  induction m as [|m IH]; intros i c p cnt Hlen Hc.
  - exists c. rewrite Nat.add_0_r. split; [reflexivity|]. split; auto.
    intros j. destruct (Nat.leb_spec i j); destruct (Nat.ltb_spec j i); simpl; auto; lia.
  - cbn [Nat.add heap_loop]. rewrite (get_nth c i) by lia. rewrite (Hc i) by lia.
    rewrite Z.ltb_irrefl. rewrite set_upd by lia.
    destruct (IH (S i) (upd c i 0%Z) p cnt) as (c' & E & Hl & Hn).
    { rewrite upd_length. lia. }
    { intros j Hj. rewrite nth_upd_neq by lia. apply Hc. lia. }
    exists c'. replace (i + S m) with (S i + m) by lia. split; [exact E|].
    rewrite upd_length in Hl. split; auto.
    intros j. rewrite Hn. rewrite nth_upd by lia.
    destruct (Nat.leb_spec (S i) j); destruct (Nat.ltb_spec j (S i + m));
    destruct (Nat.leb_spec i j); destruct (Nat.eqb_spec i j); simpl; auto; lia.
Qed.

Lemma hl_swap : forall cnt L c p d, L < length c -> L < length p -> d < L ->
  nth L c 0%Z = Z.of_nat d ->
  heap_loop (S cnt) L c p = Some (O, upd c L (Z.of_nat d + 1)%Z, swp p (sidx L d) L, true).
Proof.
  intros cnt L c p d Hc Hp Hd Hn. cbn [heap_loop]. rewrite (get_nth c L) by auto. rewrite Hn.
  destruct (Z.ltb_spec (Z.of_nat d) (Z.of_nat L)); [|lia].
  unfold sidx. destruct (Nat.even L).
  - rewrite swap_swp by lia. rewrite set_upd by auto. reflexivity.
  - rewrite idx_nat. rewrite swap_swp by lia. rewrite set_upd by auto. reflexivity.
Qed.

Definition mkst (c : list Z) (t : list nat) : heap_st :=
  {| hp_n := Z.of_nat n; hp_i := 0%Z; hp_c := c; hp_p := zl t |}.

(* the call that ends round d of level L *)
Lemma swap_call : forall L d c b, L < n -> d < L -> length c = n -> length b = n ->
  (forall j, j < L -> nth j c 0%Z = Z.of_nat j) -> nth L c 0%Z = Z.of_nat d ->
  exists c', heap_next (mkst c b) =
      Some ({| hp_n := Z.of_nat n; hp_i := 0%Z; hp_c := c'; hp_p := swp (zl b) (sidx L d) L |}, true) /\
    length c' = n /\ (forall j, j < L -> nth j c' 0%Z = 0%Z) /\ nth L c' 0%Z = Z.of_nat (S d) /\
    (forall j, L < j -> nth j c' 0%Z = nth j c 0%Z).
Proof.
  intros L d c b HL Hd Hc Hb Hlow HLd.
  unfold heap_next, mkst. cbn [hp_n hp_i hp_c hp_p].
  destruct (Z.eqb_spec 0%Z (Z.of_nat n)); [lia|]. cbn [Z.eqb].
  replace (Z.to_nat (Z.of_nat n - 0)) with (L + S (n - L - 1)) by lia. cbn [Z.to_nat].
  destruct (hl_skip L 0 c (zl b) (S (n - L - 1))) as (c1 & E & Hl1 & Hn1); [lia|intros; apply Hlow; lia|].
  rewrite E. cbn [Nat.add].
  rewrite (hl_swap (n - L - 1) L c1 (zl b) d); try lia.
  - exists (upd c1 L (Z.of_nat d + 1)%Z). split; [reflexivity|].
    split; [rewrite upd_length; lia|]. split; [|split].
    + intros j Hj. rewrite nth_upd_neq by lia. rewrite Hn1.
      destruct (Nat.leb_spec 0 j); destruct (Nat.ltb_spec j (0 + L)); simpl; auto; lia.
    + rewrite nth_upd_eq by lia. lia.
    + intros j Hj. rewrite nth_upd_neq by lia. rewrite Hn1.
      destruct (Nat.leb_spec 0 j); destruct (Nat.ltb_spec j (0 + L)); simpl; auto; lia.
  - unfold zl. rewrite map_length. lia.
  - rewrite Hn1. destruct (Nat.leb_spec 0 L); destruct (Nat.ltb_spec L (0 + L)); simpl; auto; lia.
Qed.

(* the call after the last array *)
Lemma final_call : forall c t, length c = n -> (forall j, j < n -> nth j c 0%Z = Z.of_nat j) ->
  exists e, heap_next (mkst c t) = Some (e, false) /\ exhausted heap_next e.
Proof.
  intros c t Hc Hmax. unfold heap_next, mkst. cbn [hp_n hp_i hp_c hp_p].
  destruct (Z.eqb_spec 0%Z (Z.of_nat n)) as [E0|E0].
  - eexists. split; [reflexivity|]. apply fixpoint_exhausted. unfold heap_next. cbn [hp_n hp_i].
    rewrite <- E0. reflexivity.
  - cbn [Z.eqb]. replace (Z.to_nat (Z.of_nat n - 0)) with (n + 0) by lia. cbn [Z.to_nat].
    destruct (hl_skip n 0 c (zl t) 0) as (c1 & E & Hl1 & Hn1); [lia|intros; apply Hmax; lia|].
    rewrite E. cbn [heap_loop Nat.add]. eexists. split; [reflexivity|].
    apply fixpoint_exhausted. unfold heap_next. cbn [hp_n hp_i]. rewrite Z.eqb_refl. reflexivity.
Qed.

(* ------------------------------------------------------------------ a complete run over the first k positions *)

Definition outs (a : list nat) (ts : list (list nat)) : list (list Z) := map (fun t => zl (sub a t)) ts.

Lemma outs_comp : forall a f ts, (forall t, In t ts -> forall q, In q t -> q < n) ->
  outs (sub a (tab n f)) ts = outs a (map (map f) ts).
Proof.
  intros a f ts H. unfold outs. rewrite map_map. apply map_ext_in. intros t Ht.
  rewrite (sub_comp n) by (apply H; auto). reflexivity.
Qed.

Lemma Tt_bound : forall k, k <= n -> forall t, In t (Tt k) -> forall q, In q t -> q < n.
Proof.
  intros k Hk t Ht. apply (T_bound k Hk). rewrite T_head. right. auto.
Qed.

Lemma swp_tables : forall a L d, L < n -> d <= L -> length a = n ->
  swp (zl (sub (sub a (tab n (Phi (pi L) L d))) (tab n (pi L)))) (sidx L d) L =
  zl (sub a (tab n (Phi (pi L) L (S d)))).
Proof.
  intros a L d HL Hd Ha.
  pose proof (sidx_le L d Hd) as Hs.
  assert (Len : forall u, length (zl (sub u (tab n (pi L)))) = n).
  { intros u. unfold zl. rewrite map_length, sub_length, tab_length. auto. }
  apply nth_ext0.
  - rewrite swp_length, Len. unfold zl. rewrite map_length, sub_length, tab_length. auto.
  - intros x Hx. rewrite swp_length, Len in Hx.
    rewrite nth_swp by (rewrite Len; lia). rewrite !nth_zl.
    assert (Hval : forall y, y < n ->
      nth y (sub (sub a (tab n (Phi (pi L) L d))) (tab n (pi L))) 0 = nth (Phi (pi L) L d (pi L y)) a 0).
    { intros y Hy. rewrite (nth_sub_tab n) by auto. rewrite (nth_sub_tab n) by (apply pi_lt; lia). reflexivity. }
    rewrite !Hval by lia. rewrite (nth_sub_tab n) by auto. cbn [Phi]. unfold tr.
    destruct (Nat.eqb_spec L x) as [<-|N1].
    + destruct (Nat.eqb_spec L (sidx L d)) as [E|N2]; [rewrite <- E; reflexivity|].
      rewrite Nat.eqb_refl. reflexivity.
    + destruct (Nat.eqb_spec (sidx L d) x) as [<-|N2].
      * rewrite Nat.eqb_refl. reflexivity.
      * destruct (Nat.eqb_spec x (sidx L d)); [lia|]. destruct (Nat.eqb_spec x L); [lia|]. reflexivity.
Qed.

Lemma run_k : forall k, k <= n -> forall c a, length c = n -> length a = n ->
  (forall j, j < k -> nth j c 0%Z = 0%Z) ->
  exists c', steps heap_next heap_value (length (Tt k)) (mkst c a) =
      Some (outs a (Tt k), mkst c' (sub a (tab n (pi k)))) /\
    length c' = n /\ (forall j, j < k -> nth j c' 0%Z = Z.of_nat j) /\
    (forall j, k <= j -> nth j c' 0%Z = nth j c 0%Z).
Proof.
  induction k as [|L IH]; intros Hk c a Hc Ha Hlow.
  - exists c. unfold Tt. cbn [T tl length steps outs map pi]. unfold tab. rewrite map_id, (sub_id a n Ha).
    split; [reflexivity|]. split; auto. split; [intros; lia|auto].
  - assert (HL : L < n) by lia.
    (* the rounds d .. L *)
    assert (Rounds : forall cnt d c, d + cnt = L -> length c = n ->
      (forall j, j < L -> nth j c 0%Z = 0%Z) -> nth L c 0%Z = Z.of_nat d ->
      exists c', steps heap_next heap_value (length (rest L d cnt)) (mkst c (sub a (tab n (Phi (pi L) L d)))) =
          Some (outs a (rest L d cnt), mkst c' (sub a (tab n (pi (S L))))) /\
        length c' = n /\ (forall j, j <= L -> nth j c' 0%Z = Z.of_nat j) /\
        (forall j, L < j -> nth j c' 0%Z = nth j c 0%Z)).
    { induction cnt as [|cnt IHr]; intros d c0 Hd Hc0 Hlow0 HL0.
      - assert (d = L) by lia. subst d.
        destruct (IH ltac:(lia) c0 (sub a (tab n (Phi (pi L) L L)))) as (c' & E & Hl' & Hmax & Hkeep); auto.
        { rewrite sub_length, tab_length. auto. }
        exists c'. cbn [rest]. rewrite map_length.
        rewrite E. split.
        + f_equal. f_equal.
          * apply outs_comp. apply Tt_bound. lia.
          * f_equal. rewrite (sub_comp n) by (intros q Hq; apply in_map_iff in Hq;
              destruct Hq as (q0 & <- & Hq0); apply in_seq in Hq0; apply pi_lt; lia).
            unfold tab. rewrite map_map. reflexivity.
        + split; auto. split; [|intros; apply Hkeep; lia].
          intros j Hj. destruct (Nat.eq_dec j L) as [->|]; [rewrite Hkeep by lia; auto|apply Hmax; lia].
      - assert (Hdl : d < L) by lia.
        destruct (IH ltac:(lia) c0 (sub a (tab n (Phi (pi L) L d)))) as (c1 & E1 & Hl1 & Hmax1 & Hkeep1); auto.
        { rewrite sub_length, tab_length. auto. }
        destruct (swap_call L d c1 (sub (sub a (tab n (Phi (pi L) L d))) (tab n (pi L)))) as (c2 & E2 & Hl2 & Hz2 & HL2 & Hk2); auto.
        { rewrite sub_length, tab_length. auto. }
        { rewrite Hkeep1 by lia. auto. }
        rewrite swp_tables in E2 by (auto; lia).
        fold (mkst c2 (sub a (tab n (Phi (pi L) L (S d))))) in E2.
        destruct (IHr (S d) c2) as (c3 & E3 & Hl3 & Hmax3 & Hkeep3); auto; try lia.
        exists c3. split.
        + cbn [rest]. rewrite !app_length, map_length. cbn [length].
          unfold outs at 1. rewrite !map_app. fold (outs a (map (map (Phi (pi L) L d)) (Tt L))).
          fold (outs a (rest L (S d) cnt)). cbn [map].
          rewrite (outs_comp a (Phi (pi L) L d)) in E1 by (apply Tt_bound; lia).
          eapply steps_app; [exact E1|].
          change (S (length (rest L (S d) cnt))) with (1 + length (rest L (S d) cnt)).
          eapply steps_app; [exact (steps_one _ _ heap_next heap_value _ _ E2)|exact E3].
        + split; auto. split; auto. intros j Hj. rewrite Hkeep3 by auto. rewrite Hk2 by auto. apply Hkeep1. lia. }
    destruct (Rounds L 0 c ltac:(lia) Hc ltac:(intros; apply Hlow; lia)
                ltac:(rewrite Hlow by lia; reflexivity)) as (c' & E & Hl' & Hmax & Hkeep).
    exists c'. rewrite Tt_rest.
    assert (E0 : sub a (tab n (Phi (pi L) L 0)) = a).
    { unfold tab. cbn [Phi]. rewrite map_id. apply sub_id. auto. }
    rewrite E0 in E. split; [exact E|]. split; auto. split; [intros; apply Hmax; lia|intros; apply Hkeep; lia].
Qed.

End Fixed.

Theorem heap_run : forall n, exists e,
  drain heap_next heap_value (S (length (T n n))) (heap_init n) = Some (map zl (T n n), e) /\
  exhausted heap_next e.
Proof.
  intros n.
  assert (First : heap_next (heap_init n) = Some (mkst n (repeat 0%Z n) (seq 0 n), true)).
  { unfold heap_next, heap_init, mkst. cbn [hp_n hp_i hp_c hp_p].
    destruct (Z.eqb_spec (-1) (Z.of_nat n)); [lia|]. reflexivity. }
  destruct (run_k n n (le_n n) (repeat 0%Z n) (seq 0 n)) as (c' & E & Hl & Hmax & _).
  { apply repeat_length. } { apply seq_length. } { intros. apply nth_repeat0. }
  destruct (final_call n c' (sub (seq 0 n) (tab n (pi n))) Hl Hmax) as (e & Ef & Hex).
  exists e. split; [|exact Hex].
  rewrite (T_head n n). cbn [length map].
  assert (Eo : outs (seq 0 n) (Tt n n) = map zl (Tt n n)).
  { unfold outs. apply map_ext_in. intros t Ht. f_equal.
    pose proof (T_bound n n (le_n n) t) as Hb. rewrite T_head in Hb. destruct (Hb ltac:(right; auto)) as [Hlen Hq].
    unfold sub. rewrite <- map_id. apply map_ext_in. intros q Hq'. apply seq_nth. apply Hq. auto. }
  rewrite Eo in E.
  exact (drain_first _ _ heap_next heap_value _ _ _ _ _ First
           (steps_drain _ _ heap_next heap_value _ _ _ _ e E Ef)).
Qed.

