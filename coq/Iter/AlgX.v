(* itertools.RestrictedPrefixPermutations (Knuth 7.2.1.2, Algorithm X): foundations.
   The linked list l of the elements not yet used (head at index n, ascending, end marker n),
   the undo array u, the invariant tying them to the prefix a[0..k-1], and the proof that
   deleting and undeleting an element maintain it.  Also the counting lemmas used by the fuel
   measure. *)
From Coq Require Import List ZArith Lia Arith Bool Sorted Permutation.
From Mamba Require Import Iter.Model Iter.Enum Iter.Lex Iter.Product Iter.ProductRP.
Import ListNotations.
Open Scope Z_scope.

(* ------------------------------------------------------------------ Z-indexed access *)

Definition zn (l : list Z) (x : Z) : Z := nth (Z.to_nat x) l 0.

Lemma getZ_zn : forall l x, 0 <= x < zlen l -> getZ l x = Some (zn l x).
Proof.
  intros l x H. unfold getZ, idx, zlen, zn in *. destruct (Z.ltb_spec x 0); [lia|].
  apply get_nth. lia.
Qed.

Lemma setZ_upd : forall l x v, 0 <= x < zlen l -> setZ l x v = Some (upd l (Z.to_nat x) v).
Proof.
  intros l x v H. unfold setZ, idx, zlen in *. destruct (Z.ltb_spec x 0); [lia|].
  apply set_upd. lia.
Qed.

Lemma zn_upd : forall l x y v, 0 <= x < zlen l -> 0 <= y ->
  zn (upd l (Z.to_nat x) v) y = if x =? y then v else zn l y.
Proof.
  intros l x y v Hx Hy. unfold zn, zlen in *. rewrite nth_upd by lia.
  destruct (Nat.eqb_spec (Z.to_nat x) (Z.to_nat y)); destruct (Z.eqb_spec x y); auto; lia.
Qed.

Lemma firstn_upd_ge : forall (a : list Z) j k v, (k <= j)%nat -> firstn k (upd a j v) = firstn k a.
Proof.
  induction a as [|x a IH]; intros j k v H; destruct k, j; simpl; auto; try lia.
  rewrite IH by lia. auto.
Qed.

Lemma firstn_S_nth : forall (a : list Z) k, (k < length a)%nat -> firstn (S k) a = firstn k a ++ [nth k a 0].
Proof.
  induction a as [|x a IH]; intros k H; simpl in *; [lia|]. destruct k; simpl; auto.
  rewrite <- IH by lia. auto.
Qed.

Lemma nth_upd_same : forall (a : list Z) k v, (k < length a)%nat -> nth k (upd a k v) 0 = v.
Proof. intros. apply nth_upd_eq. auto. Qed.

Lemma iota_NoDup : forall n, NoDup (iota n).
Proof.
  intros n. unfold iota. apply FinFun.Injective_map_NoDup.
  - intros x y H. lia.
  - apply seq_NoDup.
Qed.

(* a duplicate-free list of n values in [0,n) is a permutation of 0..n-1 *)
Lemma range_nodup_perm : forall (n : nat) (x : list Z), length x = n -> NoDup x ->
  (forall v, In v x -> 0 <= v < Z.of_nat n) -> Permutation x (iota n).
Proof.
  intros n x Hl Hnd Hr. apply NoDup_Permutation; auto; [apply iota_NoDup|].
  intros v. split.
  - intros H. apply in_iota. auto.
  - revert v. apply NoDup_length_incl; auto.
    + rewrite iota_length. lia.
    + intros v H. apply in_iota. auto.
Qed.

Lemma perm_facts : forall (n : nat) (x : list Z), Permutation x (iota n) ->
  length x = n /\ NoDup x /\ forall v, In v x -> 0 <= v < Z.of_nat n.
Proof.
  intros n x H. split; [|split].
  - rewrite (Permutation_length H). apply iota_length.
  - apply (Permutation_NoDup (Permutation_sym H)). apply iota_NoDup.
  - intros v Hv. apply in_iota. eapply Permutation_in; eauto.
Qed.

(* ------------------------------------------------------------------ counting with filter *)

Lemma filter_length_le_one : forall (A : Type) (f g : A -> bool) (L : list A) (q : A),
  NoDup L -> In q L -> f q = true -> g q = false ->
  (forall x, In x L -> x <> q -> f x = g x) ->
  length (filter f L) = S (length (filter g L)).
Proof.
  intros A f g L q Hnd. induction Hnd as [|a L Hna Hnd IH]; intros Hin Hf Hg Heq; [destruct Hin|].
  destruct Hin as [->|Hin].
  - simpl. rewrite Hf, Hg. simpl. f_equal.
    assert (E : forall x, In x L -> f x = g x).
    { intros x Hx. apply Heq; [right; auto|]. intro; subst. auto. }
    clear -E. induction L as [|b L IH]; simpl; auto.
    rewrite (E b) by (left; auto). destruct (g b); simpl; rewrite IH; auto; intros; apply E; right; auto.
  - simpl. assert (a <> q) by (intro; subst; auto).
    rewrite (Heq a) by (auto; left; auto).
    destruct (g a); simpl; rewrite IH; auto; intros; apply Heq; auto; right; auto.
Qed.

Lemma filter_nil_all : forall (A : Type) (f : A -> bool) (L : list A),
  (forall x, In x L -> f x = false) -> filter f L = [].
Proof.
  intros A f L. induction L as [|a L IH]; intros H; simpl; auto.
  rewrite (H a) by (left; auto). apply IH. intros; apply H; right; auto.
Qed.

Lemma filter_length_split : forall (A : Type) (f : A -> bool) (L : list A),
  (length (filter f L) + length (filter (fun x => negb (f x)) L) = length L)%nat.
Proof. intros A f L. induction L as [|a L IH]; simpl; auto. destruct (f a); simpl; lia. Qed.

Lemma filter_length_le : forall (A : Type) (f g : A -> bool) (L : list A),
  (forall x, g x = true -> f x = true) -> (length (filter g L) <= length (filter f L))%nat.
Proof.
  intros A f g L H. induction L as [|a L IH]; simpl; auto.
  destruct (g a) eqn:G; [rewrite (H a G); simpl; lia|]. destruct (f a); simpl; lia.
Qed.

Lemma filter_length_lt : forall (A : Type) (f g : A -> bool) (L : list A) (q : A),
  In q L -> f q = true -> g q = false -> (forall x, g x = true -> f x = true) ->
  (length (filter g L) < length (filter f L))%nat.
Proof.
  intros A f g L q Hin Hf Hg H. induction L as [|a L IH]; [destruct Hin|].
  destruct Hin as [->|Hin]; simpl.
  - rewrite Hf, Hg. simpl. pose proof (filter_length_le A f g L H). lia.
  - specialize (IH Hin). destruct (g a) eqn:G; [rewrite (H a G); simpl; lia|].
    destruct (f a); simpl; lia.
Qed.

Lemma nodup_snoc : forall (us : list Z) q, NoDup us -> ~ In q us -> NoDup (us ++ [q]).
Proof.
  induction us as [|a us IH]; intros q Hnd Hq; simpl.
  - constructor; auto; constructor.
  - inversion Hnd; subst. constructor.
    + rewrite in_app_iff. simpl. intros [H|[H|[]]]; auto. subst. apply Hq. left; auto.
    + apply IH; auto. intro. apply Hq. right; auto.
Qed.

Lemma nodup_snoc_inv : forall (us : list Z) q, NoDup (us ++ [q]) -> NoDup us /\ ~ In q us.
Proof.
  induction us as [|a us IH]; intros q Hnd; simpl in *.
  - split; [constructor|auto].
  - inversion Hnd; subst. destruct (IH q H2) as [H3 H4]. split.
    + constructor; auto. intro. apply H1. apply in_app_iff. auto.
    + intros [->|H]; auto. apply H1. apply in_app_iff. right. left. auto.
Qed.

Definition memb (x : Z) (us : list Z) : bool := existsb (Z.eqb x) us.

Lemma memb_In : forall x us, memb x us = true <-> In x us.
Proof.
  intros x us. unfold memb. rewrite existsb_exists. split.
  - intros (y & Hy & E). apply Z.eqb_eq in E. subst. auto.
  - intros H. exists x. split; auto. apply Z.eqb_refl.
Qed.

Lemma memb_false : forall x us, memb x us = false <-> ~ In x us.
Proof.
  intros x us. split.
  - intros H Hin. apply memb_In in Hin. congruence.
  - intros H. destruct (memb x us) eqn:E; auto. exfalso. apply H. apply memb_In. auto.
Qed.

(* ------------------------------------------------------------------ the prefix in use *)

Definition used (k : nat) (a : list Z) : list Z := firstn k a.

Lemma used_S : forall k a, (k < length a)%nat -> used (S k) a = used k a ++ [nth k a 0].
Proof. intros. apply firstn_S_nth. auto. Qed.

Lemma used_upd : forall k a j v, (k <= j)%nat -> used k (upd a j v) = used k a.
Proof. intros. apply firstn_upd_ge. auto. Qed.

Lemma used_length : forall k a, (k <= length a)%nat -> length (used k a) = k.
Proof. intros. unfold used. rewrite firstn_length. lia. Qed.

Lemma used_in_earlier : forall i k a, (i < k)%nat -> (k <= length a)%nat -> In (nth i a 0) (used k a).
Proof.
  intros i k a Hi Hk. unfold used. rewrite <- (nth_firstn_lt a i k Hi).
  apply nth_In. rewrite firstn_length. lia.
Qed.

(* ------------------------------------------------------------------ the list of free elements *)

Section X.
Variable n : nat.
Let N := Z.of_nat n.

Definition free (us : list Z) (x : Z) : Prop := 0 <= x < N /\ ~ In x us.
Definition pos (p : Z) : Z := if p =? N then -1 else p.
Definition node (us : list Z) (p : Z) : Prop := p = N \/ free us p.

(* q is the node after p: the least free element above p, or the end marker *)
Definition Nxt (us : list Z) (p q : Z) : Prop :=
  node us q /\ pos p < q /\ forall x, free us x -> pos p < x -> q <= x.

Lemma pos_free : forall us x, free us x -> pos x = x.
Proof. intros us x [H _]. unfold pos. destruct (Z.eqb_spec x N); lia. Qed.

Lemma pos_head : pos N = -1.
Proof. unfold pos. rewrite Z.eqb_refl. auto. Qed.

Lemma node_range : forall us p, node us p -> 0 <= p <= N.
Proof. intros us p [->|[H _]]; unfold N; lia. Qed.

Lemma node_pos_inj : forall us x p, node us x -> node us p -> pos x = pos p -> x = p.
Proof.
  intros us x p Hx Hp. unfold pos.
  destruct (Z.eqb_spec x N), (Z.eqb_spec p N); try lia.
  - destruct Hp as [|[H _]]; lia.
  - destruct Hx as [|[H _]]; lia.
Qed.

Lemma node_pos_ge : forall us x, node us x -> -1 <= pos x.
Proof. intros us x [->|H]; [rewrite pos_head; lia|]. rewrite (pos_free us x H). destruct H. lia. Qed.

Lemma node_pos_free : forall us p x, node us p -> pos x < pos p -> -1 <= pos x -> free us p.
Proof.
  intros us p x [->|H] Hlt Hge; auto. rewrite pos_head in Hlt. lia.
Qed.

Lemma free_app : forall us q x, free (us ++ [q]) x <-> free us x /\ x <> q.
Proof.
  intros us q x. unfold free. rewrite in_app_iff. simpl. split.
  - intros [H1 H2]. split; [split; auto|]. intro; subst. apply H2. auto.
  - intros [[H1 H2] H3]. split; auto. intros [H|[H|[]]]; auto.
Qed.

Lemma node_app : forall us q x, q < N -> (node (us ++ [q]) x <-> node us x /\ x <> q).
Proof.
  intros us q x Hq. unfold node. rewrite free_app. split.
  - intros [->|[H1 H2]]; [split; [left; auto|lia]|split; auto].
  - intros [[->|H] H2]; auto.
Qed.

(* two different nodes cannot have the same successor *)
Lemma Nxt_pred_lt : forall us x p q, node us x -> node us p -> Nxt us x q -> Nxt us p q ->
  pos x < pos p -> False.
Proof.
  intros us x p q Hx Hp (_ & _ & Hmin) (_ & Hpq & _) Hlt.
  assert (Fp : free us p) by (eapply node_pos_free; eauto; eapply node_pos_ge; eauto).
  rewrite (pos_free us p Fp) in *. specialize (Hmin p Fp Hlt). lia.
Qed.

Lemma Nxt_pred_unique : forall us x p q, node us x -> node us p -> Nxt us x q -> Nxt us p q -> x = p.
Proof.
  intros us x p q Hx Hp H1 H2. apply (node_pos_inj us); auto.
  destruct (Z.lt_total (pos x) (pos p)) as [C|[C|C]]; auto; exfalso.
  - eapply (Nxt_pred_lt us x p q); eauto.
  - eapply (Nxt_pred_lt us p x q); eauto.
Qed.

(* some element is free as long as fewer than n are used *)
Lemma exists_free : forall us, NoDup us -> (forall x, In x us -> 0 <= x < N) -> (length us < n)%nat ->
  exists x, free us x.
Proof.
  intros us Hnd Hr Hl.
  destruct (filter (fun x => negb (memb x us)) (iota n)) as [|x rest] eqn:E.
  - exfalso. assert (Hincl : incl (iota n) us).
    { intros x Hx. apply memb_In. destruct (memb x us) eqn:M; auto. exfalso.
      assert (In x (filter (fun x => negb (memb x us)) (iota n))) by (apply filter_In; rewrite M; auto).
      rewrite E in H. destruct H. }
    pose proof (NoDup_incl_length (iota_NoDup n) Hincl) as H. rewrite iota_length in H. lia.
  - exists x. assert (H : In x (filter (fun x => negb (memb x us)) (iota n))) by (rewrite E; left; auto).
    apply filter_In in H. destruct H as [H1 H2]. apply in_iota in H1. split; [exact H1|].
    apply memb_false. destruct (memb x us); auto; discriminate.
Qed.

(* ------------------------------------------------------------------ counting the free elements above a node *)

Definition cnt (us : list Z) (p : Z) : nat :=
  length (filter (fun x => (pos p <? x) && negb (memb x us)) (iota n)).

Lemma cnt_pred_true : forall us p x, In x (iota n) ->
  ((pos p <? x) && negb (memb x us) = true <-> free us x /\ pos p < x).
Proof.
  intros us p x Hx. apply in_iota in Hx. rewrite andb_true_iff, Z.ltb_lt, negb_true_iff, memb_false.
  unfold free. fold N in Hx. tauto.
Qed.

Lemma cnt_step : forall us p q, Nxt us p q -> q <> N -> cnt us p = S (cnt us q).
Proof.
  intros us p q (Hq & Hpq & Hmin) HqN. destruct Hq as [|Fq]; [contradiction|].
  unfold cnt. apply filter_length_le_one with (q := q).
  - apply iota_NoDup.
  - apply in_iota. destruct Fq. auto.
  - apply cnt_pred_true; [apply in_iota; destruct Fq; auto|]. auto.
  - rewrite (pos_free us q Fq). rewrite Z.ltb_irrefl. auto.
  - intros x Hx Hne. rewrite (pos_free us q Fq).
    destruct ((pos p <? x) && negb (memb x us)) eqn:E1.
    + apply cnt_pred_true in E1; auto. destruct E1 as [Fx Hx1]. specialize (Hmin x Fx Hx1).
      symmetry. apply cnt_pred_true with (p := q) (us := us) in Hx. rewrite (pos_free us q Fq) in Hx.
      apply Hx. split; auto. lia.
    + destruct ((q <? x) && negb (memb x us)) eqn:E2; auto. exfalso.
      pose proof (cnt_pred_true us q x Hx) as H. rewrite (pos_free us q Fq) in H.
      apply H in E2. destruct E2 as [Fx Hx2].
      assert (E3 : (pos p <? x) && negb (memb x us) = true) by (apply cnt_pred_true; auto; split; auto; lia).
      congruence.
Qed.

Lemma cnt_end : forall us p, Nxt us p N -> cnt us p = 0%nat.
Proof.
  intros us p (_ & _ & Hmin). unfold cnt. rewrite filter_nil_all; auto.
  intros x Hx. destruct ((pos p <? x) && negb (memb x us)) eqn:E; auto. exfalso.
  apply cnt_pred_true in E; auto. destruct E as [Fx Hx1]. specialize (Hmin x Fx Hx1).
  destruct Fx. lia.
Qed.

Lemma cnt_head : forall us, NoDup us -> (forall x, In x us -> 0 <= x < N) ->
  (cnt us N + length us = n)%nat.
Proof.
  intros us Hnd Hr. unfold cnt. rewrite pos_head.
  assert (E : filter (fun x => (-1 <? x) && negb (memb x us)) (iota n)
              = filter (fun x => negb (memb x us)) (iota n)).
  { apply filter_ext_in. intros x Hx. apply in_iota in Hx.
    destruct (Z.ltb_spec (-1) x); [auto|lia]. }
  rewrite E. pose proof (filter_length_split Z (fun x => memb x us) (iota n)) as H.
  rewrite iota_length in H.
  assert (P : Permutation (filter (fun x => memb x us) (iota n)) us).
  { apply NoDup_Permutation; auto.
    - apply NoDup_filter. apply iota_NoDup.
    - intros x. rewrite filter_In, memb_In, in_iota. split; [tauto|]. intros Hx. split; auto. }
  rewrite (Permutation_length P) in H. lia.
Qed.

Lemma cnt_lt_head : forall us q, free us q -> (cnt us q < cnt us N)%nat.
Proof.
  intros us q Fq. unfold cnt. rewrite pos_head, (pos_free us q Fq).
  apply filter_length_lt with (q := q).
  - apply in_iota. destruct Fq. auto.
  - destruct Fq as [Hq1 Hq2]. apply memb_false in Hq2. rewrite Hq2.
    destruct (Z.ltb_spec (-1) q); [auto|lia].
  - rewrite Z.ltb_irrefl. auto.
  - intros x Hx. apply andb_true_iff in Hx. destruct Hx as [H1 H2]. rewrite H2.
    apply Z.ltb_lt in H1. destruct Fq as [Hq1 _]. destruct (Z.ltb_spec (-1) x); [auto|lia].
Qed.

(* ------------------------------------------------------------------ the invariant *)

Definition Inv (k : nat) (a l u : list Z) : Prop :=
  length a = n /\ length l = S n /\ length u = n /\ (k < n)%nat /\
  NoDup (used k a) /\ (forall x, In x (used k a) -> 0 <= x < N) /\
  (forall p, node (used k a) p -> Nxt (used k a) p (zn l p)) /\
  (forall i, (i < k)%nat ->
     node (used i a) (nth i u 0) /\ Nxt (used i a) (nth i u 0) (nth i a 0) /\
     Nxt (used i a) (nth i a 0) (zn l (nth i a 0))).

(* writing a candidate at position k or later does not disturb the invariant at level k *)
Lemma Inv_upd_a : forall k a l u j v, Inv k a l u -> (k <= j)%nat -> Inv k (upd a j v) l u.
Proof.
  intros k a l u j v (La & Ll & Lu & Hk & Hnd & Hr & H2 & H3) Hj.
  unfold Inv. rewrite upd_length, used_upd by auto.
  split; [auto|]. split; [auto|]. split; [auto|]. split; [auto|]. split; [auto|].
  split; [auto|]. split; [auto|].
  intros i Hi. destruct (H3 i Hi) as (A & B & C).
  rewrite used_upd by lia. rewrite !nth_upd_neq by lia. auto.
Qed.

Lemma Inv_delete : forall k a l u p q, Inv k a l u -> (S k < n)%nat ->
  free (used k a) q -> node (used k a) p -> Nxt (used k a) p q ->
  Inv (S k) (upd a k q) (upd l (Z.to_nat p) (zn l q)) (upd u k p).
Proof.
  intros k a l u p q (La & Ll & Lu & Hk & Hnd & Hr & H2 & H3) Hk' Fq Np Hpq.
  set (us := used k a) in *.
  assert (Hus : used (S k) (upd a k q) = us ++ [q]).
  { rewrite used_S by (rewrite upd_length; lia). rewrite used_upd by lia.
    rewrite nth_upd_same by lia. auto. }
  pose proof (node_range us p Np) as Rp.
  assert (Rq : 0 <= q < N) by (destruct Fq; auto).
  assert (Hqp : q <> p).
  { destruct Hpq as (_ & Hlt & _). destruct Np as [->|Fp]; [lia|]. rewrite (pos_free us p Fp) in Hlt. lia. }
  unfold Inv. rewrite !upd_length, Hus.
  split; [auto|]. split; [auto|]. split; [auto|]. split; [auto|].
  split; [|split; [|split]].
  - apply nodup_snoc; auto. destruct Fq. auto.
  - intros x Hx. apply in_app_iff in Hx. destruct Hx as [Hx|[<-|[]]]; auto.
  - (* the list without q *)
    intros x Hx. apply node_app in Hx; [|lia]. destruct Hx as [Nx Hxq].
    pose proof (node_range us x Nx) as Rx.
    rewrite zn_upd by (unfold zlen; lia).
    destruct (Z.eqb_spec p x) as [->|Hpx].
    + (* the predecessor now points to the successor of q *)
      destruct (H2 q (or_intror Fq)) as (Ny & Hqy & Hmin).
      rewrite (pos_free us q Fq) in *.
      destruct Hpq as (_ & Hxq' & Hminq).
      split; [|split].
      * apply node_app; [lia|]. split; auto. lia.
      * lia.
      * intros x' Fx' Hx'. apply free_app in Fx'. destruct Fx' as [Fx' Hne].
        specialize (Hminq x' Fx' Hx'). apply Hmin; auto. lia.
    + destruct (H2 x Nx) as (Ny & Hxy & Hmin).
      assert (Hyq : zn l x <> q).
      { intro E. apply Hpx. symmetry. apply (Nxt_pred_unique us x p q); auto.
        rewrite <- E. apply H2. auto. }
      split; [|split]; auto.
      * apply node_app; [lia|]. auto.
      * intros x' Fx' Hx'. apply free_app in Fx'. apply Hmin; tauto.
  - intros i Hi. destruct (Nat.eq_dec i k) as [->|Hne].
    + rewrite used_upd by lia. rewrite !nth_upd_same by lia. fold us.
      split; [auto|]. split; [auto|].
      rewrite zn_upd by (unfold zlen; lia). destruct (Z.eqb_spec p q); [lia|].
      apply H2. right. auto.
    + destruct (H3 i ltac:(lia)) as (A & B & C).
      rewrite used_upd by lia. rewrite !nth_upd_neq by lia.
      split; [auto|]. split; [auto|].
      rewrite zn_upd; [|unfold zlen; lia|].
      * destruct (Z.eqb_spec p (nth i a 0)) as [E|]; auto. exfalso.
        (* p is a node of level k, a[i] is used at level k *)
        assert (Hin : In (nth i a 0) us) by (apply used_in_earlier; lia).
        destruct Np as [->|[_ Hnin]]; [specialize (Hr _ Hin); lia|]. apply Hnin. rewrite E. auto.
      * assert (Hin : In (nth i a 0) us) by (apply used_in_earlier; lia). specialize (Hr _ Hin). lia.
Qed.

Lemma Inv_undelete : forall k a l u, Inv (S k) a l u ->
  Inv k a (upd l (Z.to_nat (nth k u 0)) (nth k a 0)) u /\ free (used k a) (nth k a 0).
Proof.
  intros k a l u (La & Ll & Lu & Hk & Hnd & Hr & H2 & H3).
  rewrite used_S in * by lia. set (us := used k a) in *. set (q := nth k a 0) in *. set (p := nth k u 0) in *.
  destruct (H3 k ltac:(lia)) as (Np & Hpq & Hqy). fold us p q in Np, Hpq, Hqy.
  assert (Rq : 0 <= q < N) by (apply Hr; apply in_app_iff; right; left; auto).
  assert (Fq : free us q).
  { split; auto. apply nodup_snoc_inv in Hnd. tauto. }
  pose proof (node_range us p Np) as Rp.
  assert (Hqp : q <> p).
  { destruct Hpq as (_ & Hlt & _). destruct Np as [E|Fp]; [lia|]. rewrite (pos_free us p Fp) in Hlt. lia. }
  split; [|exact Fq].
  unfold Inv. rewrite upd_length. fold us.
  split; [auto|]. split; [auto|]. split; [auto|]. split; [lia|].
  split; [|split; [|split]].
  - apply nodup_snoc_inv in Hnd. tauto.
  - intros x Hx. apply Hr. apply in_app_iff. auto.
  - intros x Nx. pose proof (node_range us x Nx) as Rx.
    rewrite zn_upd by (unfold zlen; lia).
    destruct (Z.eqb_spec p x) as [<-|Hpx]; auto.
    destruct (Z.eq_dec x q) as [->|Hxq]; auto.
    assert (Nx' : node (us ++ [q]) x) by (apply node_app; [lia|auto]).
    destruct (H2 x Nx') as (Ny & Hxy & Hmin).
    apply node_app in Ny; [|lia]. destruct Ny as [Ny Hyq].
    split; [auto|]. split; [auto|].
    intros x' Fx' Hx'. destruct (Z.eq_dec x' q) as [->|Hne].
    + (* q itself: it cannot lie between x and its recorded successor *)
      destruct (Z_le_gt_dec (zn l x) q) as [|Hgt]; auto. exfalso.
      destruct Hpq as (_ & Hpq & Hminq).
      destruct (Z.lt_total (pos x) (pos p)) as [C|[C|C]].
      * assert (Fp : free us p) by (eapply node_pos_free; eauto; eapply node_pos_ge; eauto).
        rewrite (pos_free us p Fp) in *.
        assert (Fp' : free (us ++ [q]) p) by (apply free_app; split; auto).
        specialize (Hmin p Fp' C). lia.
      * apply Hpx. symmetry. apply (node_pos_inj us); auto.
      * assert (Fx : free us x) by (eapply node_pos_free; eauto; eapply node_pos_ge; eauto).
        rewrite (pos_free us x Fx) in *. specialize (Hminq x Fx C). lia.
    + apply Hmin; auto. apply free_app. auto.
  - intros i Hi. destruct (H3 i ltac:(lia)) as (A & B & C).
    split; [auto|]. split; [auto|].
    assert (Hin : In (nth i a 0) us) by (apply used_in_earlier; lia).
    assert (Ri : 0 <= nth i a 0 < N) by (apply Hr; apply in_app_iff; auto).
    rewrite zn_upd by (unfold zlen; lia).
    destruct (Z.eqb_spec p (nth i a 0)) as [E|]; auto. exfalso.
    destruct Np as [E'|[_ Hnin]]; [lia|]. apply Hnin. rewrite E. auto.
Qed.

(* the state built by the constructor *)
Lemma Inv_init : forall a u, (0 < n)%nat -> length a = n -> length u = n ->
  Inv 0 a (map (fun i => Z.of_nat i + 1) (seq 0 n) ++ [0]) u.
Proof.
  intros a u Hn La Lu. unfold Inv, used. simpl.
  split; [auto|]. split; [rewrite app_length, map_length, seq_length; simpl; lia|].
  split; [auto|]. split; [auto|]. split; [constructor|]. split; [intros x []|]. split; [|intros; lia].
  intros p Np. pose proof (node_range [] p Np) as Rp.
  assert (E : zn (map (fun i => Z.of_nat i + 1) (seq 0 n) ++ [0]) p = if p =? N then 0 else p + 1).
  { unfold zn. destruct (Z.eqb_spec p N) as [->|Hne].
    - rewrite app_nth2 by (rewrite map_length, seq_length; unfold N; lia).
      rewrite map_length, seq_length. unfold N. rewrite Nat2Z.id, Nat.sub_diag. auto.
    - rewrite app_nth1 by (rewrite map_length, seq_length; unfold N in *; lia).
      set (g := fun i : nat => Z.of_nat i + 1).
      rewrite nth_indep with (d' := g 0%nat)
        by (rewrite map_length, seq_length; unfold N in *; lia).
      rewrite map_nth. rewrite seq_nth by (unfold N in *; lia). unfold g. lia. }
  rewrite E. unfold Nxt, pos. destruct (Z.eqb_spec p N) as [->|Hne].
  - split; [right; split; [unfold N; lia|intros []]|]. split; [lia|]. intros x [Hx _] _. lia.
  - split; [|split; [lia|intros x [Hx _] Hlt; lia]].
    destruct (Z.eq_dec (p + 1) N); [left; auto|right; split; [lia|intros []]].
Qed.

End X.
