(* Model of the iterators of /repo/itertools (definitions only; proofs are in the other files
   of this directory).

   Every iterator is a state record, an [init] (the constructor) and a [next] mirroring Go's
   [Next() bool]: [next s = Some (s', b)] is "the state becomes s' and Next returns b";
   [None] stands for a Go panic (index out of range) or exhausted fuel — the theorems show that
   neither happens.  The slices held by the iterator are Coq lists of [Z] accessed through the
   checked [get]/[set]; indices are [nat] where the Go loop variable is structurally bounded
   and [Z] where the code stores them in an int that may be negative.  The goto-structured
   methods (RestrictedPrefixProduct, RestrictedPrefixPermutations, PermutationsByPattern) are
   explicit state machines over their labels, run on fuel. *)
From Coq Require Import List ZArith Bool Arith.
Import ListNotations.
Open Scope Z_scope.

Notation "x <- e ;; k" := (match e with Some x => k | None => None end)
  (at level 61, e at next level, right associativity, only parsing).

Definition get (l : list Z) (i : nat) : option Z := nth_error l i.

Fixpoint set (l : list Z) (i : nat) (v : Z) : option (list Z) :=
  match l, i with
  | [], _ => None
  | _ :: t, O => Some (v :: t)
  | h :: t, S j => match set t j v with Some t' => Some (h :: t') | None => None end
  end.

(* an int used as an index *)
Definition idx (z : Z) : option nat := if z <? 0 then None else Some (Z.to_nat z).
Definition getZ (l : list Z) (i : Z) : option Z := j <- idx i ;; get l j.
Definition setZ (l : list Z) (i : Z) (v : Z) : option (list Z) := j <- idx i ;; set l j v.

Definition swap (l : list Z) (i j : nat) : option (list Z) :=
  x <- get l i ;; y <- get l j ;; l1 <- set l i y ;; set l1 j x.

Definition iota (k : nat) : list Z := map Z.of_nat (seq 0 k).
Definition zlen (l : list Z) : Z := Z.of_nat (length l).

(* ------------------------------------------------------------------ Product *)

Record prod_st := { p_state : list Z; p_n : list Z; p_empty : bool }.

Definition product_init (ns : list Z) : prod_st :=
  {| p_state := match length ns with O => [] | S m => repeat 0 m ++ [-1] end;
     p_n := ns;
     p_empty := existsb (fun v => v <? 1) ns |}.

(* for k := j + 1; k < n; k++ { p.state[k] = 0 } *)
Definition zero_from (k : nat) (st : list Z) : list Z := firstn k st ++ repeat 0 (length st - k).

(* for j := n - 1; j >= 0; j-- : [c] is j+1.  Result: the new state if some coordinate was increased. *)
Fixpoint prod_loop (c : nat) (st ns : list Z) : option (option (list Z)) :=
  match c with
  | O => Some None
  | S j =>
    sj <- get st j ;; nj <- get ns j ;;
    if sj <? nj - 1 then st1 <- set st j (sj + 1) ;; Some (Some (zero_from (S j) st1))
    else prod_loop j st ns
  end.

Definition product_next (s : prod_st) : option (prod_st * bool) :=
  let n := length (p_state s) in
  r <- prod_loop n (p_state s) (p_n s) ;;
  match r with
  | Some st' => Some ({| p_state := st'; p_n := p_n s; p_empty := p_empty s |}, negb (p_empty s))
  | None =>
    if (n =? 0)%nat && negb (p_empty s)
    then Some ({| p_state := p_state s; p_n := p_n s; p_empty := true |}, true)
    else Some (s, false)
  end.

Definition product_value (s : prod_st) : list Z := p_state s.

(* ------------------------------------------------------------------ Combinations *)

Record comb_st := { cb_n : Z; cb_k : Z; cb_data : list Z }.

(* data[i] = i, then data[k-1]-- when k > 0 *)
Definition comb_data0 (k : nat) : list Z :=
  match k with O => [] | S k' => iota k' ++ [Z.of_nat k' - 1] end.

Definition comb_init (n : Z) (k : nat) : comb_st :=
  {| cb_n := n; cb_k := Z.of_nat k; cb_data := comb_data0 k |}.

(* for j := i + 1; j < b.k; j++ { b.data[j] = b.data[j-1] + 1 } *)
Fixpoint comb_ramp (cnt j : nat) (d : list Z) : option (list Z) :=
  match cnt with
  | O => Some d
  | S c => p <- get d (j - 1) ;; d' <- set d j (p + 1) ;; comb_ramp c (S j) d'
  end.

(* for i := b.k - 1; i >= 0; i-- : [c] is i+1 *)
Fixpoint comb_loop (c : nat) (n k : Z) (d : list Z) : option (option (list Z)) :=
  match c with
  | O => Some None
  | S i =>
    di <- get d i ;;
    if di <? n + Z.of_nat i - k then
      d1 <- set d i (di + 1) ;;
      d2 <- comb_ramp (Z.to_nat k - S i) (S i) d1 ;;
      Some (Some d2)
    else comb_loop i n k d
  end.

Definition comb_next (s : comb_st) : option (comb_st * bool) :=
  if cb_k s =? 0 then Some ({| cb_n := cb_n s; cb_k := cb_k s - 1; cb_data := cb_data s |}, true)
  else
    r <- comb_loop (Z.to_nat (cb_k s)) (cb_n s) (cb_k s) (cb_data s) ;;
    match r with
    | Some d => Some ({| cb_n := cb_n s; cb_k := cb_k s; cb_data := d |}, true)
    | None => Some (s, false)
    end.

Definition comb_value (s : comb_st) : list Z := cb_data s.

(* ------------------------------------------------------------------ CombinationsColex *)

Record colex_st := { cx_n : Z; cx_k : Z; cx_j : Z; cx_data : list Z; cx_done : bool }.

Definition colex_init (n : Z) (k : nat) : colex_st :=
  {| cx_n := n; cx_k := Z.of_nat k; cx_j := Z.of_nat k; cx_data := comb_data0 k; cx_done := false |}.

(* for j := 0; j < b.k-1; j++ { if data[j] < data[j+1]-1 { data[j]++; b.j = j-1; return true }; data[j] = j }
   Result: the data and the j at which the loop returned, if it did. *)
Fixpoint colex_loop (cnt j : nat) (d : list Z) : option (list Z * option nat) :=
  match cnt with
  | O => Some (d, None)
  | S c =>
    dj <- get d j ;; dj1 <- get d (S j) ;;
    if dj <? dj1 - 1 then d' <- set d j (dj + 1) ;; Some (d', Some j)
    else d' <- set d j (Z.of_nat j) ;; colex_loop c (S j) d'
  end.

Definition colex_with (s : colex_st) (j : Z) (d : list Z) (done : bool) : colex_st :=
  {| cx_n := cx_n s; cx_k := cx_k s; cx_j := j; cx_data := d; cx_done := done |}.

(* if data[k-1] >= n-1 { done = true; return false }; data[k-1]++; j = newj; return true *)
Definition colex_bump (s : colex_st) (d : list Z) (newj : Z) : option (colex_st * bool) :=
  last <- getZ d (cx_k s - 1) ;;
  if last >=? cx_n s - 1 then Some (colex_with s (cx_j s) d true, false)
  else d' <- setZ d (cx_k s - 1) (last + 1) ;; Some (colex_with s newj d' false, true).

Definition colex_next (s : colex_st) : option (colex_st * bool) :=
  if cx_k s <=? 0 then
    Some ({| cx_n := cx_n s; cx_k := cx_k s - 1; cx_j := cx_j s; cx_data := cx_data s; cx_done := cx_done s |},
          cx_k s - 1 =? -1)
  else if cx_done s then Some (s, false)
  else if cx_j s >=? cx_k s - 1 then colex_bump s (cx_data s) (cx_j s - 1)
  else if negb (cx_j s =? -1) then
    dj <- getZ (cx_data s) (cx_j s) ;;
    d' <- setZ (cx_data s) (cx_j s) (dj + 1) ;;
    Some (colex_with s (cx_j s - 1) d' false, true)
  else
    r <- colex_loop (Z.to_nat (cx_k s - 1)) 0 (cx_data s) ;;
    match r with
    | (d, Some j) => Some (colex_with s (Z.of_nat j - 1) d false, true)
    | (d, None) => colex_bump s d (cx_k s - 2)
    end.

Definition colex_value (s : colex_st) : list Z := cx_data s.

(* ------------------------------------------------------------------ MultisetCombinations *)

(* mc_state = None is Go's nil slice (before the first call) *)
Record mc_st := { mc_state : option (list Z); mc_m : list Z; mc_k : Z; mc_done : bool }.

Definition mcomb_init (m : list Z) (k : Z) : mc_st :=
  {| mc_state := None; mc_m := m; mc_k := k; mc_done := false |}.

(* for j := 0; j < len(m) && x > 0; j++ { if x > m[j] { state[j] = m[j]; x -= m[j]; continue }; state[j] = x; x = 0 } *)
Fixpoint mc_fill (cnt j : nat) (x : Z) (m st : list Z) : option (list Z * Z) :=
  match cnt with
  | O => Some (st, x)
  | S c =>
    if x >? 0 then
      mj <- get m j ;;
      if x >? mj then st' <- set st j mj ;; mc_fill c (S j) (x - mj) m st'
      else st' <- set st j x ;; mc_fill c (S j) 0 m st'
    else Some (st, x)
  end.

(* for i := 0; i < j; i++ { if x > m[i] { state[i] = m[i]; x -= m[i]; continue }; state[i] = x; x = 0 } *)
Fixpoint mc_refill (cnt i : nat) (x : Z) (m st : list Z) : option (list Z) :=
  match cnt with
  | O => Some st
  | S c =>
    mi <- get m i ;;
    if x >? mi then st' <- set st i mi ;; mc_refill c (S i) (x - mi) m st'
    else st' <- set st i x ;; mc_refill c (S i) 0 m st'
  end.

(* for j := 0; j < len(m); j++ { if x > 0 && state[j] < m[j] { ...; return true }; x += state[j] } *)
Fixpoint mc_scan (cnt j : nat) (x : Z) (m st : list Z) : option (option (list Z)) :=
  match cnt with
  | O => Some None
  | S c =>
    sj <- get st j ;; mj <- get m j ;;
    if (x >? 0) && (sj <? mj) then
      st1 <- set st j (sj + 1) ;;
      st2 <- mc_refill j 0 (x - 1) m st1 ;;
      Some (Some st2)
    else mc_scan c (S j) (x + sj) m st
  end.

Definition mc_with (s : mc_st) (st : option (list Z)) (done : bool) : mc_st :=
  {| mc_state := st; mc_m := mc_m s; mc_k := mc_k s; mc_done := done |}.

Definition mcomb_next (s : mc_st) : option (mc_st * bool) :=
  if mc_done s then Some (s, false)
  else match mc_state s with
  | None =>
    if mc_k s <? 0 then None (* make([]int, k) panics *) else
    r <- mc_fill (length (mc_m s)) 0 (mc_k s) (mc_m s) (repeat 0 (length (mc_m s))) ;;
    let '(st, x) := r in
    if x >? 0 then Some (mc_with s (Some st) true, false) else Some (mc_with s (Some st) false, true)
  | Some st =>
    r <- mc_scan (length (mc_m s)) 0 0 (mc_m s) st ;;
    match r with
    | Some st' => Some (mc_with s (Some st') false, true)
    | None => Some (mc_with s (Some st) true, false)
    end
  end.

(* FreqValue *)
Definition mcomb_freq (s : mc_st) : list Z := match mc_state s with Some st => st | None => [] end.

(* Value: i repeated state[i] times, for i = 0, 1, .. *)
Fixpoint expand (i : Z) (st : list Z) : list Z :=
  match st with
  | [] => []
  | v :: t => repeat i (Z.to_nat v) ++ expand (i + 1) t
  end.
Definition mcomb_value (s : mc_st) : list Z := expand 0 (mcomb_freq s).

(* ------------------------------------------------------------------ Permutations (Heap) *)

Record heap_st := { hp_n : Z; hp_i : Z; hp_c : list Z; hp_p : list Z }.

Definition heap_init (n : nat) : heap_st :=
  {| hp_n := Z.of_nat n; hp_i := -1; hp_c := repeat 0 n; hp_p := iota n |}.

(* for p.i < p.n { ... } : [cnt] is n - i.  Result: i, c, p and whether the loop returned true. *)
Fixpoint heap_loop (cnt i : nat) (c p : list Z) : option (nat * list Z * list Z * bool) :=
  match cnt with
  | O => Some (i, c, p, false)
  | S cn =>
    ci <- get c i ;;
    if ci <? Z.of_nat i then
      p' <- (if Nat.even i then swap p 0 i else (j <- idx ci ;; swap p j i)) ;;
      c' <- set c i (ci + 1) ;;
      Some (O, c', p', true)
    else c' <- set c i 0 ;; heap_loop cn (S i) c' p
  end.

Definition heap_next (s : heap_st) : option (heap_st * bool) :=
  if hp_i s =? hp_n s then Some (s, false)
  else if hp_i s =? -1 then Some ({| hp_n := hp_n s; hp_i := 0; hp_c := hp_c s; hp_p := hp_p s |}, true)
  else
    r <- heap_loop (Z.to_nat (hp_n s - hp_i s)) (Z.to_nat (hp_i s)) (hp_c s) (hp_p s) ;;
    let '(i, c, p, b) := r in
    Some ({| hp_n := hp_n s; hp_i := Z.of_nat i; hp_c := c; hp_p := p |}, b).

Definition heap_value (s : heap_st) : list Z := hp_p s.

(* ------------------------------------------------------------------ LexicographicPermutations, MultisetPermutations *)

Record lp_st := { lp_n : nat; lp_a : list Z; lp_first : bool }.

Definition lexperm_init (n : nat) : lp_st := {| lp_n := n; lp_a := iota n; lp_first := true |}.

(* a = 0 freq[0] times, 1 freq[1] times, ..; n = ints.Sum(freq) *)
Definition mperm_init (freq : list Z) : lp_st :=
  {| lp_n := Z.to_nat (fold_right Z.add 0 freq); lp_a := expand 0 freq; lp_first := true |}.

(* for l := n - 2; l > 0; l-- { if a[j] >= a[l] { continue }; swap a[j],a[l]; swap a[n-1],a[j+1]; break } *)
Fixpoint lp_find (l j n : nat) (a : list Z) : option (list Z) :=
  match l with
  | O => Some a
  | S l' =>
    aj <- get a j ;; al <- get a l ;;
    if aj >=? al then lp_find l' j n a
    else a1 <- swap a j l ;; swap a1 (n - 1) (S j)
  end.

(* for k < l { swap a[k],a[l]; k++; l-- } ; [fuel] bounds the number of rounds *)
Fixpoint lp_rev (fuel k l : nat) (a : list Z) : option (list Z) :=
  if (k <? l)%nat then
    match fuel with
    | O => None
    | S f => a' <- swap a k l ;; lp_rev f (S k) (l - 1) a'
    end
  else Some a.

(* for j := n - 4; j >= 0; j-- : [c] is j+1 *)
Fixpoint lp_loop (c n : nat) (a : list Z) : option (option (list Z)) :=
  match c with
  | O => Some None
  | S j =>
    aj <- get a j ;; aj1 <- get a (S j) ;;
    if aj >=? aj1 then lp_loop j n a
    else
      an1 <- get a (n - 1) ;;
      a1 <- (if aj <? an1
             then (b1 <- set a j an1 ;; b2 <- set b1 (S j) aj ;; set b2 (n - 1) aj1)
             else lp_find (n - 2) j n a) ;;
      a2 <- lp_rev n (j + 2) (n - 2) a1 ;;
      Some (Some a2)
  end.

Definition lp_with (s : lp_st) (a : list Z) : lp_st := {| lp_n := lp_n s; lp_a := a; lp_first := false |}.

Definition lexperm_next (s : lp_st) : option (lp_st * bool) :=
  let n := lp_n s in
  let a := lp_a s in
  if lp_first s then Some (lp_with s a, true)
  else
    (* n > 1 && a[n-2] < a[n-1] *)
    c1 <- (if (1 <? n)%nat then (x <- get a (n - 2) ;; y <- get a (n - 1) ;; Some (x <? y)) else Some false) ;;
    if c1 then a' <- swap a (n - 2) (n - 1) ;; Some (lp_with s a', true)
    else
      (* n > 2 && a[n-3] < a[n-2] *)
      c2 <- (if (2 <? n)%nat then (x <- get a (n - 3) ;; y <- get a (n - 2) ;; Some (x <? y)) else Some false) ;;
      if c2 then
        x <- get a (n - 3) ;; y <- get a (n - 2) ;; z <- get a (n - 1) ;;
        a' <- (if x <? z
               then (b1 <- set a (n - 3) z ;; b2 <- set b1 (n - 2) x ;; set b2 (n - 1) y)
               else (b1 <- set a (n - 3) y ;; b2 <- set b1 (n - 2) z ;; set b2 (n - 1) x)) ;;
        Some (lp_with s a', true)
      else
        r <- lp_loop (n - 3) n a ;;
        match r with
        | Some a' => Some (lp_with s a', true)
        | None => Some (s, false)
        end.

Definition lexperm_value (s : lp_st) : list Z := lp_a s.

(* ------------------------------------------------------------------ Partitions *)

Record pt_st := { pt_n : nat; pt_m : Z; pt_a : list Z; pt_b : list Z }.

(* Partitions(n) panics for n < 1 *)
Definition parts_init (n : nat) : option pt_st :=
  match n with
  | O => None
  | S n' => Some {| pt_n := n; pt_m := (if (n =? 1)%nat then 0 else 1);
                    pt_a := repeat 0 n' ++ [-1]; pt_b := repeat 1 n |}
  end.

(* for k := j + 1; k < n - 1; k++ { a[k] = 0; b[k] = m } *)
Fixpoint pt_fill (cnt k : nat) (m : Z) (a b : list Z) : option (list Z * list Z) :=
  match cnt with
  | O => Some (a, b)
  | S c => a' <- set a k 0 ;; b' <- set b k m ;; pt_fill c (S k) m a' b'
  end.

(* for j := n - 2; j >= 1; j-- : [c] is j *)
Fixpoint pt_loop (c n : nat) (a b : list Z) : option (option (Z * list Z * list Z)) :=
  match c with
  | O => Some None
  | S c' =>
    let j := c in
    aj <- get a j ;; bj <- get b j ;;
    if negb (aj =? bj) then
      a1 <- set a j (aj + 1) ;;
      let m := if aj + 1 =? bj then bj + 1 else bj in
      r <- pt_fill (n - 1 - S j) (S j) m a1 b ;;
      let '(a2, b2) := r in
      a3 <- set a2 (n - 1) 0 ;;
      Some (Some (m, a3, b2))
    else pt_loop c' n a b
  end.

Definition parts_next (s : pt_st) : option (pt_st * bool) :=
  let n := pt_n s in
  an <- get (pt_a s) (n - 1) ;;
  if an =? pt_m s then
    r <- pt_loop (n - 2) n (pt_a s) (pt_b s) ;;
    match r with
    | Some (m, a, b) => Some ({| pt_n := n; pt_m := m; pt_a := a; pt_b := b |}, true)
    | None => Some (s, false)
    end
  else
    a' <- set (pt_a s) (n - 1) (an + 1) ;;
    Some ({| pt_n := n; pt_m := pt_m s; pt_a := a'; pt_b := pt_b s |}, true).

(* the restricted growth string held by the iterator *)
Definition parts_rgs (s : pt_st) : list Z := pt_a s.

(* partitionFromRestrictedGrowthString: block v holds the positions i with rgs[i] = v, for
   v = 0..max; indexing sizes[v] panics when v is outside [0,n) *)
Definition rgs_blocks (r : list Z) : option (list (list Z)) :=
  let n := length r in
  if forallb (fun v => (0 <=? v) && (v <? Z.of_nat n)) r then
    let mx := fold_right Z.max 0 r in
    Some (map (fun v => filter (fun i => nth (Z.to_nat i) r 0 =? v) (iota n)) (iota (S (Z.to_nat mx))))
  else None.

Definition parts_value (s : pt_st) : option (list (list Z)) := rgs_blocks (pt_a s).

(* ------------------------------------------------------------------ IntegerPartitions *)

Record ip_st := { ip_a : list Z; ip_m : Z; ip_q : Z }.

Definition intparts_init (n : nat) : ip_st :=
  match n with
  | O => {| ip_a := []; ip_m := 0; ip_q := -2 |}
  | S n' => {| ip_a := Z.of_nat n :: repeat 1 n'; ip_m := 1; ip_q := -2 |}
  end.

(* for tailSum > x { q++; tailSum -= x; a[q] = x } *)
Fixpoint ip_loop (fuel : nat) (q tail x : Z) (a : list Z) : option (Z * Z * list Z) :=
  if tail >? x then
    match fuel with
    | O => None
    | S f => a' <- setZ a (q + 1) x ;; ip_loop f (q + 1) (tail - x) x a'
    end
  else Some (q, tail, a).

Definition intparts_next (s : ip_st) : option (ip_st * bool) :=
  let a := ip_a s in
  if ip_q s =? -2 then
    c <- (if (length a =? 0)%nat then Some true else (a0 <- get a 0 ;; Some (a0 =? 1))) ;;
    Some ({| ip_a := a; ip_m := ip_m s; ip_q := (if c then -1 else 0) |}, true)
  else if ip_q s =? -1 then Some (s, false)
  else
    aq <- getZ a (ip_q s) ;;
    if aq =? 2 then
      a' <- setZ a (ip_q s) 1 ;;
      Some ({| ip_a := a'; ip_m := ip_m s + 1; ip_q := ip_q s - 1 |}, true)
    else
      a1 <- setZ a (ip_q s) (aq - 1) ;;
      let x := aq - 1 in
      r <- ip_loop (length a) (ip_q s) (ip_m s - ip_q s) x a1 ;;
      let '(q, tail, a2) := r in
      a3 <- setZ a2 (q + 1) tail ;;
      Some ({| ip_a := a3; ip_m := q + 2; ip_q := (if tail >? 1 then q + 1 else q) |}, true).

(* a[:m] panics when m exceeds the capacity *)
Definition intparts_value (s : ip_st) : option (list Z) :=
  if (ip_m s <? 0) || (zlen (ip_a s) <? ip_m s) then None else Some (firstn (Z.to_nat (ip_m s)) (ip_a s)).

(* ------------------------------------------------------------------ RestrictedPrefixProduct *)

(* rp_fuel0 is not a field of the Go struct: it is the fuel for the goto loop of one call of
   Next, computed once by the constructor *)
Record rp_st := { rp_state : list Z; rp_n : list Z; rp_empty : bool; rp_fuel0 : nat }.



Inductive rp_label := RX1 | RX2 | RX3.

(* the labelled blocks of Next; the result is the state slice and the value returned *)
Fixpoint rp_run (fuel : nat) (t : list Z -> bool) (ns : list Z) (lbl : rp_label) (st : list Z)
  : option (list Z * bool) :=
  match fuel with
  | O => None
  | S f =>
    match lbl with
    | RX1 => rp_run f t ns RX3 (st ++ [0])
    | RX2 =>
      let i := (length st - 1)%nat in
      if (length st =? 0)%nat then None else
      last <- get st i ;; ni <- get ns i ;;
      if last <? ni - 1 then st' <- set st i (last + 1) ;; rp_run f t ns RX3 st'
      else if (length st =? 1)%nat then Some (st, false)
      else rp_run f t ns RX2 (removelast st)
    | RX3 =>
      if negb (t st) then rp_run f t ns RX2 st
      else if (length st <? length ns)%nat then rp_run f t ns RX1 st
      else Some (st, true)
    end
  end.

(* number of nodes of the product tree below a prefix, as fuel: 1 + n0 + n0*n1 + .. *)
Fixpoint tree_nodes (ns : list Z) : nat :=
  match ns with
  | [] => 1
  | n :: rest => S (Z.to_nat n * tree_nodes rest)
  end.

Definition rp_fuel (ns : list Z) : nat := 3 * tree_nodes ns + 3.

Definition rpprod_init (ns : list Z) : rp_st :=
  {| rp_state := []; rp_n := ns; rp_empty := existsb (fun v => v <? 1) ns; rp_fuel0 := rp_fuel ns |}.

Definition rpprod_next (t : list Z -> bool) (s : rp_st) : option (rp_st * bool) :=
  if rp_empty s then Some (s, false)
  else if (length (rp_state s) =? 0)%nat then
    if (length (rp_n s) =? 0)%nat then Some ({| rp_state := rp_state s; rp_n := rp_n s; rp_empty := true; rp_fuel0 := rp_fuel0 s |}, true)
    else
      r <- rp_run (rp_fuel0 s) t (rp_n s) RX1 (rp_state s) ;;
      Some ({| rp_state := fst r; rp_n := rp_n s; rp_empty := false; rp_fuel0 := rp_fuel0 s |}, snd r)
  else
    r <- rp_run (rp_fuel0 s) t (rp_n s) RX2 (rp_state s) ;;
    Some ({| rp_state := fst r; rp_n := rp_n s; rp_empty := false; rp_fuel0 := rp_fuel0 s |}, snd r).

Definition rpprod_value (s : rp_st) : list Z := rp_state s.

(* ------------------------------------------------------------------ RestrictedPrefixPermutations (Algorithm X) *)

(* rx_a = None is the nil slice before the first call *)
Record rx_st := { rx_n : nat; rx_a : option (list Z); rx_l : list Z; rx_u : list Z; rx_done : bool;
                  rx_fuel0 : nat (* fuel of one call of Next; not a field of the Go struct *) }.

Inductive rx_label := XX2 | XX3 | XX5 | XX6.

Record rx_regs := { xr_k : Z; xr_p : Z; xr_q : Z; xr_a : list Z; xr_l : list Z; xr_u : list Z }.

Definition rx_mk k p q a l u := {| xr_k := k; xr_p := p; xr_q := q; xr_a := a; xr_l := l; xr_u := u |}.

(* Result: the registers and Some b when Next returns b (done is set exactly when b = false). *)
Fixpoint rx_run (fuel : nat) (f : list Z -> bool) (n : Z) (lbl : rx_label) (r : rx_regs)
  : option (rx_regs * bool) :=
  match fuel with
  | O => None
  | S fu =>
    let '(k, p, q, a, l, u) := (xr_k r, xr_p r, xr_q r, xr_a r, xr_l r, xr_u r) in
    match lbl with
    | XX2 => q' <- getZ l n ;; rx_run fu f n XX3 (rx_mk k n q' a l u)
    | XX3 =>
      a' <- setZ a k q ;;
      if (k + 1 <? 0) || (zlen a' <? k + 1) then None else
      if negb (f (firstn (Z.to_nat (k + 1)) a')) then rx_run fu f n XX5 (rx_mk k p q a' l u)
      else if k =? n - 1 then Some (rx_mk k p q a' l u, true)
      else
        u' <- setZ u k p ;;
        lq <- getZ l q ;;
        l' <- setZ l p lq ;;
        rx_run fu f n XX2 (rx_mk (k + 1) p q a' l' u')
    | XX5 =>
      q' <- getZ l q ;;
      if negb (q' =? n) then rx_run fu f n XX3 (rx_mk k q q' a l u)
      else rx_run fu f n XX6 (rx_mk k q q' a l u)
    | XX6 =>
      let k' := k - 1 in
      if k' <? 0 then Some (rx_mk k' p q a l u, false)
      else
        p' <- getZ u k' ;;
        q' <- getZ a k' ;;
        l' <- setZ l p' q' ;;
        rx_run fu f n XX5 (rx_mk k' p' q' a l' u)
    end
  end.

(* fuel: every prefix of a permutation is entered and left a bounded number of times *)
Fixpoint falling_nodes (d n : nat) : nat :=
  match d with
  | O => 1
  | S d' => S (n * falling_nodes d' (n - 1))
  end.

Definition rx_fuel (n : nat) : nat := 4 * falling_nodes n n + 4.

Definition rpperm_init (n : nat) : rx_st :=
  {| rx_n := n; rx_a := None; rx_l := map (fun i => Z.of_nat i + 1) (seq 0 n) ++ [0];
     rx_u := repeat 0 n; rx_done := false; rx_fuel0 := rx_fuel n |}.

Definition rpperm_next (f : list Z -> bool) (s : rx_st) : option (rx_st * bool) :=
  let n := Z.of_nat (rx_n s) in
  if rx_done s then Some (s, false)
  else
    let fin (r : rx_regs * bool) :=
      Some ({| rx_n := rx_n s; rx_a := Some (xr_a (fst r)); rx_l := xr_l (fst r); rx_u := xr_u (fst r);
               rx_done := negb (snd r); rx_fuel0 := rx_fuel0 s |}, snd r) in
    match rx_a s with
    | None =>
      let a := repeat 0 (rx_n s) in
      if (rx_n s =? 0)%nat
      then Some ({| rx_n := rx_n s; rx_a := Some a; rx_l := rx_l s; rx_u := rx_u s; rx_done := false; rx_fuel0 := rx_fuel0 s |}, true)
      else r <- rx_run (rx_fuel0 s) f n XX2 (rx_mk 0 0 0 a (rx_l s) (rx_u s)) ;; fin r
    | Some a => r <- rx_run (rx_fuel0 s) f n XX6 (rx_mk (n - 1) 0 0 a (rx_l s) (rx_u s)) ;; fin r
    end.

Definition rpperm_value (s : rx_st) : list Z := match rx_a s with Some a => a | None => [] end.

(* ------------------------------------------------------------------ PermutationsByPattern *)

(* pb_a = None is the nil slice before the first call; the field `first` of the Go struct is
   never set and is left out *)
Record pb_st := { pb_n : nat; pb_a : option (list Z);
                  pb_fuel0 : nat (* fuel of one call of Next; not a field of the Go struct *) }.


Inductive pb_label := PX1 | PX2 | PX3.

(* for i := range a { if a[i] == y { a[i]++; break } } *)
Fixpoint incr_first (y : Z) (a : list Z) : list Z :=
  match a with
  | [] => []
  | v :: t => if v =? y then (v + 1) :: t else v :: incr_first y t
  end.

Fixpoint pb_run (fuel : nat) (f : list Z -> bool) (n : nat) (lbl : pb_label) (a : list Z)
  : option (list Z * bool) :=
  match fuel with
  | O => None
  | S fu =>
    match lbl with
    | PX1 => pb_run fu f n PX2 (a ++ [zlen a])
    | PX2 =>
      if f a then (if (length a =? n)%nat then Some (a, true) else pb_run fu f n PX1 a)
      else pb_run fu f n PX3 a
    | PX3 =>
      if (length a =? 0)%nat then Some (a, false) else
      x <- get a (length a - 1) ;;
      if x =? 0 then
        pb_run fu f n PX3 (map (fun v => if v >? x then v - 1 else v) (removelast a))
      else
        let a1 := incr_first (x - 1) a in
        y <- get a1 (length a1 - 1) ;;
        a2 <- set a1 (length a1 - 1) (y - 1) ;;
        pb_run fu f n PX2 a2
    end
  end.

Fixpoint rising_nodes (d k : nat) : nat :=
  match d with
  | O => 1
  | S d' => S (k * rising_nodes d' (S k))
  end.

Definition pb_fuel (n : nat) : nat := 4 * rising_nodes n 1 + 4.

Definition pattern_init (n : nat) : pb_st := {| pb_n := n; pb_a := None; pb_fuel0 := pb_fuel n |}.

Definition pattern_next (f : list Z -> bool) (s : pb_st) : option (pb_st * bool) :=
  match pb_a s with
  | None =>
    if (pb_n s =? 0)%nat then Some ({| pb_n := pb_n s; pb_a := Some []; pb_fuel0 := pb_fuel0 s |}, true)
    else r <- pb_run (pb_fuel0 s) f (pb_n s) PX1 [] ;; Some ({| pb_n := pb_n s; pb_a := Some (fst r); pb_fuel0 := pb_fuel0 s |}, snd r)
  | Some a =>
    r <- pb_run (pb_fuel0 s) f (pb_n s) PX3 a ;; Some ({| pb_n := pb_n s; pb_a := Some (fst r); pb_fuel0 := pb_fuel0 s |}, snd r)
  end.

Definition pattern_value (s : pb_st) : list Z := match pb_a s with Some a => a | None => [] end.

(* ------------------------------------------------------------------ TopologicalSorts (Algorithm V) *)

Record ts_st := { ts_state : list Z; ts_inv : list Z; ts_n : nat; ts_first : bool; ts_done : bool }.

Definition topo_init (n : nat) : ts_st :=
  {| ts_state := iota n; ts_inv := iota n; ts_n := n; ts_first := true; ts_done := false |}.

(* for j < k { l := state[j+1]; state[j] = l; invState[l] = j; j++ } : [cnt] is k - j *)
Fixpoint ts_shift (cnt j : nat) (st inv : list Z) : option (list Z * list Z) :=
  match cnt with
  | O => Some (st, inv)
  | S c =>
    l <- get st (S j) ;;
    st' <- set st j l ;;
    inv' <- setZ inv l (Z.of_nat j) ;;
    ts_shift c (S j) st' inv'
  end.

(* for k := n - 1; k >= 0; k-- : [c] is k+1.  Result: the arrays and whether the loop returned true. *)
Fixpoint ts_loop (c : nat) (less : Z -> Z -> bool) (st inv : list Z) : option (list Z * list Z * bool) :=
  match c with
  | O => Some (st, inv, false)
  | S k =>
    let kz := Z.of_nat k in
    j <- get inv k ;;
    sw <- (if j >? 0 then
             (l <- getZ st (j - 1) ;;
              if negb (less l kz) then
                st1 <- setZ st (j - 1) kz ;; st2 <- setZ st1 j l ;;
                inv1 <- set inv k (j - 1) ;; inv2 <- setZ inv1 l j ;;
                Some (Some (st2, inv2))
              else Some None)
           else Some None) ;;
    match sw with
    | Some (st2, inv2) => Some (st2, inv2, true)
    | None =>
      jn <- idx j ;;
      r <- ts_shift (k - jn) jn st inv ;;
      let '(st1, inv1) := r in
      st2 <- set st1 k kz ;; inv2 <- set inv1 k kz ;;
      ts_loop k less st2 inv2
    end
  end.

Definition topo_next (less : Z -> Z -> bool) (s : ts_st) : option (ts_st * bool) :=
  if ts_done s then Some (s, false)
  else if ts_first s then
    Some ({| ts_state := ts_state s; ts_inv := ts_inv s; ts_n := ts_n s; ts_first := false; ts_done := false |}, true)
  else
    r <- ts_loop (ts_n s) less (ts_state s) (ts_inv s) ;;
    let '(st, inv, b) := r in
    Some ({| ts_state := st; ts_inv := inv; ts_n := ts_n s; ts_first := false; ts_done := negb b |}, b).

Definition topo_value (s : ts_st) : list Z := ts_state s.
Definition topo_inverse (s : ts_st) : list Z := ts_inv s.

(* ------------------------------------------------------------------ constructors with a caller-chosen fuel *)

(* The fuel of the goto loops is not part of the Go structs; the constructors above fix it to a
   bound proved sufficient (a Peano numeral of the size of the whole search tree).  For
   parameters whose search tree is astronomically large but is pruned to a small part by the
   predicate, the correspondence driver builds the same initial state with a smaller fuel that
   still exceeds the number of steps of the run (4 per node visited); running out of it would
   show as a model panic. *)
Definition rpprod_init_with (fuel : nat) (ns : list Z) : rp_st :=
  {| rp_state := []; rp_n := ns; rp_empty := existsb (fun v => v <? 1) ns; rp_fuel0 := fuel |}.

Definition rpperm_init_with (fuel : nat) (n : nat) : rx_st :=
  {| rx_n := n; rx_a := None; rx_l := map (fun i => Z.of_nat i + 1) (seq 0 n) ++ [0];
     rx_u := repeat 0 n; rx_done := false; rx_fuel0 := fuel |}.

Definition pattern_init_with (fuel : nat) (n : nat) : pb_st :=
  {| pb_n := n; pb_a := None; pb_fuel0 := fuel |}.
