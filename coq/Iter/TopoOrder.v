(* Order-theoretic part of the proof for itertools.TopologicalSorts (Algorithm V): positions,
   the inversion table of a permutation (r z k = number of smaller values standing to the right
   of k), and the fact that the table determines the permutation. *)
From Coq Require Import List ZArith Lia Arith Bool Permutation.
From Mamba Require Import Iter.Model Iter.Lex Iter.PermUtil.
Import ListNotations.
Open Scope Z_scope.

(* ------------------------------------------------------------------ positions *)

Fixpoint pos (x : list Z) (v : Z) : nat :=
  match x with
  | [] => O
  | a :: t => if a =? v then O else S (pos t v)
  end.

Lemma pos_lt : forall x v, In v x -> (pos x v < length x)%nat.
Proof.
  induction x as [|a t IH]; intros v H; [destruct H|]. simpl.
  destruct (Z.eqb_spec a v); [lia|]. destruct H as [H|H]; [congruence|]. specialize (IH v H). lia.
Qed.

Lemma nth_pos : forall x v, In v x -> nth (pos x v) x 0 = v.
Proof.
  induction x as [|a t IH]; intros v H; [destruct H|]. simpl.
  destruct (Z.eqb_spec a v); [auto|]. destruct H as [H|H]; [congruence|]. apply IH. auto.
Qed.

Lemma pos_nth : forall x i, NoDup x -> (i < length x)%nat -> pos x (nth i x 0) = i.
Proof.
  induction x as [|a t IH]; intros i Hnd Hi; [simpl in Hi; lia|].
  inversion Hnd; subst. destruct i as [|i]; simpl.
  - rewrite Z.eqb_refl. auto.
  - destruct (Z.eqb_spec a (nth i t 0)) as [E|E].
    + exfalso. apply H1. rewrite E. apply nth_In. simpl in Hi. lia.
    + f_equal. apply IH; auto. simpl in Hi. lia.
Qed.

Lemma pos_inj : forall x u v, In u x -> In v x -> pos x u = pos x v -> u = v.
Proof.
  intros x u v Hu Hv E. rewrite <- (nth_pos x u Hu), <- (nth_pos x v Hv), E. reflexivity.
Qed.

(* ------------------------------------------------------------------ permutations of 0..n-1 *)

Definition perm (n : nat) (z : list Z) : Prop := Permutation z (iota n).

Lemma iota_nodup' : forall k, NoDup (iota k).
Proof.
  intros. unfold iota. apply FinFun.Injective_map_NoDup; [|apply seq_NoDup]. intros x y H. lia.
Qed.

Lemma perm_length : forall n z, perm n z -> length z = n.
Proof. intros n z H. apply Permutation_length in H. rewrite iota_length in H. auto. Qed.

Lemma perm_nodup : forall n z, perm n z -> NoDup z.
Proof. intros n z H. eapply Permutation_NoDup; [apply Permutation_sym; exact H|apply iota_nodup']. Qed.

Lemma perm_in : forall n z v, perm n z -> (In v z <-> 0 <= v < Z.of_nat n).
Proof.
  intros n z v H. rewrite <- in_iota. split; apply Permutation_in; [exact H|apply Permutation_sym; exact H].
Qed.

Definition P (z : list Z) (v : nat) : nat := pos z (Z.of_nat v).

Lemma P_lt : forall n z v, perm n z -> (v < n)%nat -> (P z v < n)%nat.
Proof.
  intros n z v H Hv. unfold P. rewrite <- (perm_length n z H). apply pos_lt. apply (perm_in n z _ H). lia.
Qed.

Lemma P_inj : forall n z u v, perm n z -> (u < n)%nat -> (v < n)%nat -> P z u = P z v -> u = v.
Proof.
  intros n z u v H Hu Hv E. unfold P in E.
  apply pos_inj in E; [lia| |]; apply (perm_in n z _ H); lia.
Qed.

Lemma nth_P : forall n z v, perm n z -> (v < n)%nat -> nth (P z v) z 0 = Z.of_nat v.
Proof. intros n z v H Hv. unfold P. apply nth_pos. apply (perm_in n z _ H). lia. Qed.

Lemma P_nth : forall n z i, perm n z -> (i < n)%nat -> P z (Z.to_nat (nth i z 0)) = i.
Proof.
  intros n z i H Hi. unfold P.
  assert (Hin : In (nth i z 0) z) by (apply nth_In; rewrite (perm_length n z H); auto).
  apply (perm_in n z _ H) in Hin. rewrite Z2Nat.id by lia.
  apply pos_nth; [eapply perm_nodup; eauto|rewrite (perm_length n z H); auto].
Qed.

(* ------------------------------------------------------------------ counting with filter *)

Lemma filter_len_le : forall (p q : nat -> bool) s,
  (forall l, In l s -> p l = true -> q l = true) -> (length (filter p s) <= length (filter q s))%nat.
Proof.
  induction s as [|a s IH]; intros H; [simpl; lia|]. simpl.
  specialize (IH ltac:(intros l Hl; apply H; right; auto)).
  pose proof (H a ltac:(left; auto)) as Ha.
  destruct (p a), (q a); simpl; try lia; try (specialize (Ha eq_refl); discriminate).
Qed.

Lemma filter_len_lt : forall (p q : nat -> bool) s a,
  (forall l, In l s -> p l = true -> q l = true) -> In a s -> q a = true -> p a = false ->
  (length (filter p s) < length (filter q s))%nat.
Proof.
  induction s as [|b s IH]; intros a H Ha Hq Hp; [destruct Ha|]. simpl.
  pose proof (filter_len_le p q s ltac:(intros l Hl; apply H; right; auto)) as Hle.
  pose proof (H b ltac:(left; auto)) as Hb.
  destruct Ha as [->|Ha].
  - rewrite Hq, Hp. simpl. lia.
  - specialize (IH a ltac:(intros l Hl; apply H; right; auto) Ha Hq Hp).
    destruct (p b), (q b); simpl; try lia; try (specialize (Hb eq_refl); discriminate).
Qed.

Lemma filter_len_ext : forall (p q : nat -> bool) s,
  (forall l, In l s -> p l = q l) -> length (filter p s) = length (filter q s).
Proof. intros p q s H. rewrite (filter_ext_in p q s H). reflexivity. Qed.

Lemma filter_len_plus1 : forall (p q : nat -> bool) s a, NoDup s -> In a s ->
  p a = false -> q a = true -> (forall l, In l s -> l <> a -> p l = q l) ->
  length (filter q s) = S (length (filter p s)).
Proof.
  induction s as [|b s IH]; intros a Hnd Ha Hp Hq H; [destruct Ha|].
  inversion Hnd; subst. simpl. destruct Ha as [->|Ha].
  - rewrite Hp, Hq. simpl. f_equal. symmetry. apply filter_len_ext.
    intros l Hl. apply H; [right; auto|]. intros ->. auto.
  - assert (b <> a) by (intros ->; auto).
    rewrite (H b ltac:(left; auto) H0).
    specialize (IH a H3 Ha Hp Hq ltac:(intros l Hl; apply H; right; auto)).
    destruct (q b); simpl; lia.
Qed.

(* ------------------------------------------------------------------ inversion tables *)

Definition r (z : list Z) (k : nat) : nat :=
  length (filter (fun l => (P z k <? P z l)%nat) (seq 0 k)).

Definition tau (n : nat) (z : list Z) : list Z := map (fun k => Z.of_nat (r z k)) (seq 0 n).

Lemma tau_length : forall n z, length (tau n z) = n.
Proof. intros. unfold tau. rewrite map_length, seq_length. auto. Qed.

Lemma nth_tau : forall n z k, (k < n)%nat -> nth k (tau n z) 0 = Z.of_nat (r z k).
Proof.
  intros n z k H. unfold tau. set (f := fun k => Z.of_nat (r z k)).
  rewrite (nth_indep (map f (seq 0 n)) 0 (f O)) by (rewrite map_length, seq_length; auto).
  rewrite map_nth. rewrite seq_nth by auto. reflexivity.
Qed.

Lemma filter_le_len : forall (p : nat -> bool) s, (length (filter p s) <= length s)%nat.
Proof. induction s as [|a s IH]; simpl; [lia|]. destruct (p a); simpl; lia. Qed.

Lemma r_le : forall z k, (r z k <= k)%nat.
Proof.
  intros. unfold r. etransitivity; [apply filter_le_len|]. rewrite seq_length. auto.
Qed.

(* equal tables up to i: the values below i stand in the same relative order *)
Lemma tau_order : forall n i, (i <= n)%nat -> forall x z, perm n x -> perm n z ->
  (forall k, (k < i)%nat -> r x k = r z k) ->
  forall l l', (l < i)%nat -> (l' < i)%nat -> (P x l < P x l')%nat -> (P z l < P z l')%nat.
Proof.
  intros n. induction i as [|i IH]; intros Hi x z Hx Hz Hr l l' Hl Hl' Hlt; [lia|].
  assert (IHxz : forall l l', (l < i)%nat -> (l' < i)%nat -> (P x l < P x l')%nat -> (P z l < P z l')%nat).
  { apply IH; auto; try lia. }
  assert (IHzx : forall l l', (l < i)%nat -> (l' < i)%nat -> (P z l < P z l')%nat -> (P x l < P x l')%nat).
  { apply IH; auto; try lia. intros k Hk. symmetry. apply Hr. lia. }
  (* the set of values right of i is the same in x and z *)
  assert (Key : forall x z, perm n x -> perm n z -> r x i = r z i ->
            (forall l l', (l < i)%nat -> (l' < i)%nat -> (P x l < P x l')%nat -> (P z l < P z l')%nat) ->
            forall a, (a < i)%nat -> (P x i < P x a)%nat -> (P z i < P z a)%nat).
  { clear - Hi. intros x z Hx Hz Hr IHxz a Ha Hxa.
    destruct (lt_dec (P z i) (P z a)) as [|Hn]; auto. exfalso.
    assert (Hza : (P z a < P z i)%nat).
    { assert (P z a <> P z i) by (intro E; apply (P_inj n z) in E; auto; lia). lia. }
    assert (Hlt : (r z i < r x i)%nat); [|lia].
    unfold r. apply filter_len_lt with (a := a).
    - intros b Hb Hzb. apply in_seq in Hb. apply Nat.ltb_lt in Hzb. apply Nat.ltb_lt.
      destruct (lt_eq_lt_dec (P x a) (P x b)) as [[C|C]|C].
      + lia.
      + apply (P_inj n x) in C; auto; try lia. subst b. lia.
      + specialize (IHxz b a ltac:(lia) Ha C). lia.
    - apply in_seq. lia.
    - apply Nat.ltb_lt. auto.
    - apply Nat.ltb_ge. lia. }
  destruct (Nat.eq_dec l i) as [->|Hli]; destruct (Nat.eq_dec l' i) as [->|Hl'i].
  - lia.
  - apply (Key x z); auto. lia.
  - (* l' = i, l < i: otherwise l would be right of i in z, hence in x *)
    destruct (lt_dec (P z l) (P z i)) as [|Hn]; auto. exfalso.
    assert (Hzl : (P z i < P z l)%nat).
    { assert (P z l <> P z i) by (intro E; apply (P_inj n z) in E; auto; lia). lia. }
    assert ((P x i < P x l)%nat); [|lia].
    apply (Key z x); auto; try lia. symmetry. apply Hr. lia.
  - apply IHxz; auto; lia.
Qed.

Lemma incr_ge : forall (f : nat -> nat) n, (forall i i', (i < i' < n)%nat -> (f i < f i')%nat) ->
  forall i, (i < n)%nat -> (i <= f i)%nat.
Proof.
  intros f n H. induction i as [|i IH]; intros Hi; [lia|].
  specialize (IH ltac:(lia)). specialize (H i (S i) ltac:(lia)). lia.
Qed.

Lemma order_eq : forall n x z, perm n x -> perm n z ->
  (forall l l', (l < n)%nat -> (l' < n)%nat -> (P x l < P x l')%nat -> (P z l < P z l')%nat) -> x = z.
Proof.
  intros n x z Hx Hz H.
  pose proof (perm_length n x Hx) as Lx. pose proof (perm_length n z Hz) as Lz.
  set (f := fun i => P z (Z.to_nat (nth i x 0))).
  assert (Hval : forall i, (i < n)%nat -> (Z.to_nat (nth i x 0%Z) < n)%nat).
  { intros i Hi. assert (In (nth i x 0) x) by (apply nth_In; lia). apply (perm_in n x _ Hx) in H0. lia. }
  assert (Hinc : forall i i', (i < i' < n)%nat -> (f i < f i')%nat).
  { intros i i' Hi. unfold f. apply H; try (apply Hval; lia).
    rewrite !(P_nth n x) by (auto; lia). lia. }
  assert (Hfn : forall i, (i < n)%nat -> (f i < n)%nat).
  { intros i Hi. unfold f. apply (P_lt n z); auto. }
  assert (Hfi : forall i, (i < n)%nat -> f i = i).
  { intros i Hi. pose proof (incr_ge f n Hinc i Hi) as H1.
    pose proof (incr_ge (fun d => n - 1 - f (n - 1 - d))%nat n) as H2. cbv beta in H2.
    specialize (H2 ltac:(intros d d' Hd;
      pose proof (Hinc (n - 1 - d')%nat (n - 1 - d)%nat ltac:(lia));
      pose proof (Hfn (n - 1 - d)%nat ltac:(lia)); lia) (n - 1 - i)%nat ltac:(lia)).
    replace (n - 1 - (n - 1 - i))%nat with i in H2 by lia. pose proof (Hfn i Hi). lia. }
  apply nth_ext0; [lia|]. intros i Hi. rewrite Lx in Hi.
  specialize (Hfi i Hi). unfold f in Hfi.
  pose proof (nth_P n z _ Hz (Hval i Hi)) as E. rewrite Hfi in E.
  assert (In (nth i x 0) x) by (apply nth_In; lia). apply (perm_in n x _ Hx) in H0.
  rewrite Z2Nat.id in E by lia. auto.
Qed.

Theorem tau_inj : forall n x z, perm n x -> perm n z -> tau n x = tau n z -> x = z.
Proof.
  intros n x z Hx Hz E. apply (order_eq n); auto.
  apply (tau_order n n); auto.
  intros k Hk. pose proof (f_equal (fun t => nth k t 0) E) as H. cbv beta in H.
  rewrite !nth_tau in H by auto. lia.
Qed.
