(* itertools.LexicographicPermutations / MultisetPermutations: started on a non-decreasing
   array a0 the iterator yields every arrangement of the multiset a0 exactly once, in
   lexicographic order, and then reports exhaustion for ever. *)
From Coq Require Import List ZArith Lia Arith Bool Sorted Permutation FinFun.
From Mamba Require Import Iter.Model Iter.Enum Iter.Lex Iter.PermUtil Iter.PermLex.
Import ListNotations.
Open Scope Z_scope.

Lemma np_sigma_bound : forall n j l i, (j < l < n)%nat -> (i < n)%nat -> (np_sigma n j l i < n)%nat.
Proof. intros. unfold np_sigma. nat_cases; lia. Qed.

Lemma np_sigma_inj : forall n j l i1 i2, (j < l < n)%nat -> (i1 < n)%nat -> (i2 < n)%nat ->
  np_sigma n j l i1 = np_sigma n j l i2 -> i1 = i2.
Proof. intros n j l i1 i2 H H1 H2. unfold np_sigma. nat_cases; lia. Qed.

Lemma np_result_perm : forall a a' n j l, length a = n -> (j < l < n)%nat ->
  np_result a a' n j l -> Permutation a a'.
Proof.
  intros a a' n j l Hlen Hjl [Hl' Hnth].
  apply (Permutation_nth a a' 0). cbv zeta. rewrite Hlen. split; [exact Hl'|].
  exists (np_sigma n j l). split; [|split].
  - intros i Hi. apply np_sigma_bound; auto.
  - intros i1 i2 H1 H2. apply np_sigma_inj; auto.
  - exact Hnth.
Qed.

Definition nondecr (a : list Z) : Prop :=
  forall i, (S i < length a)%nat -> nth i a 0 <= nth (S i) a 0.

Section Fixed.
Variable a0 : list Z.
Hypothesis a0_sorted : nondecr a0.
Let n := length a0.

Definition pm_F (z : list Z) : Prop := Permutation z a0.
Definition pm_live (s : lp_st) : Prop := exists a, s = lp_mk n a /\ Permutation a a0.
Definition pm_done (s : lp_st) : Prop := exists a, s = lp_mk n a /\ Permutation a a0 /\ nonincr a n.

Lemma pm_F_length : forall z, pm_F z -> length z = n.
Proof. intros z H. apply Permutation_length in H. exact H. Qed.

Lemma pm_live_step : forall s, pm_live s ->
  pm_F (lexperm_value s) /\
  ((exists s', lexperm_next s = Some (s', true) /\ pm_live s' /\
      lex_lt (lexperm_value s) (lexperm_value s') /\
      forall z, pm_F z -> lex_lt (lexperm_value s) z -> lex_lt z (lexperm_value s') -> False)
   \/ (exists s', lexperm_next s = Some (s', false) /\ pm_done s' /\
         forall z, pm_F z -> ~ lex_lt (lexperm_value s) z)).
Proof.
  intros s (a & -> & HP). cbn [lexperm_value lp_mk lp_a].
  split; [exact HP|].
  pose proof (Permutation_length HP) as Hlen. fold n in Hlen.
  destruct (ascent_or_last a n) as [Hd|(j & l & Hasc)].
  - right. exists (lp_mk n a). split; [apply lexperm_next_last; auto|]. split.
    + exists a. auto.
    + apply lex_greatest. intros z i Fz Hi A.
      destruct (perm_agree_nth a z i) as (k & Hk & ->); auto.
      { eapply Permutation_trans; [exact Fz|apply Permutation_sym; exact HP]. }
      apply (chain_ge (fun p => nth p a 0) O n); try lia. intros p _ Hp. apply Hd. auto.
  - left. destruct (lexperm_next_asc n a j l Hlen Hasc) as (a' & E & R).
    pose proof Hasc as (H1 & Hup & Hdesc & Hl & Hlgt & Hlmax).
    pose proof (np_result_perm a a' n j l Hlen Hl R) as HP'.
    destruct R as [Hl' Hnth].
    exists (lp_mk n a'). split; [exact E|]. cbn [lexperm_value lp_mk lp_a].
    assert (Fa' : pm_F a').
    { eapply Permutation_trans; [apply Permutation_sym; exact HP'|exact HP]. }
    assert (Hpre : agree a a' j).
    { intros i Hi. rewrite Hnth by lia. unfold np_sigma. destruct (Nat.ltb_spec i j); [auto|lia]. }
    assert (Hat : nth j a' 0 = nth l a 0).
    { rewrite Hnth by lia. unfold np_sigma. destruct (Nat.ltb_spec j j); [lia|]. rewrite Nat.eqb_refl. auto. }
    (* the new tail is non-decreasing *)
    assert (Hinc : forall p, (S j <= p)%nat -> (S p < n)%nat -> nth p a' 0 <= nth (S p) a' 0).
    { intros p Hp Hp'. rewrite !Hnth by lia. unfold np_sigma.
      destruct (Nat.ltb_spec p j); [lia|]. destruct (Nat.ltb_spec (S p) j); [lia|].
      destruct (Nat.eqb_spec p j); [lia|]. destruct (Nat.eqb_spec (S p) j); [lia|]. cbv zeta.
      pose proof (Hdesc (n + j - S p)%nat ltac:(lia) ltac:(lia)) as D.
      replace (S (n + j - S p)) with (n + j - p)%nat in D by lia.
      destruct (Nat.eqb_spec (n + j - p) l) as [e1|e1]; destruct (Nat.eqb_spec (n + j - S p) l) as [e2|e2]; try lia.
      - rewrite e1 in D. lia.
      - rewrite e2 in D. specialize (Hlmax (n + j - p)%nat ltac:(lia)). lia.
    }
    split; [exists a'; auto|]. split.
    + exists j. split; [lia|]. split; [exact Hpre|]. lia.
    + apply (lex_no_between pm_F n a a' j); auto; try lia.
      * exact pm_F_length.
      * intros z Fz A Hlo Hhi.
        destruct (perm_agree_nth a z j) as (k & Hk & Ek); auto; try lia.
        { eapply Permutation_trans; [exact Fz|apply Permutation_sym; exact HP]. }
        rewrite Ek, Hat in *.
        destruct (lt_eq_lt_dec k l) as [[C|C]|C].
        -- assert (k <> j) by (intros ->; lia).
           assert (nth l a 0 <= nth k a 0); [|lia].
           apply (chain_ge (fun p => nth p a 0) (S j) n); try lia. intros p Hp Hp'. apply Hdesc; lia.
        -- subst k. lia.
        -- specialize (Hlmax k ltac:(lia)). lia.
      * intros z i Fz Hi A.
        destruct (perm_agree_nth a z i) as (k & Hk & ->); auto; try lia.
        { eapply Permutation_trans; [exact Fz|apply Permutation_sym; exact HP]. }
        apply (chain_ge (fun p => nth p a 0) (S j) n); try lia. intros p Hp Hp'. apply Hdesc; lia.
      * intros z i Fz Hi A.
        destruct (perm_agree_nth a' z i) as (k & Hk & ->); auto; try lia.
        { eapply Permutation_trans; [exact Fz|apply Permutation_sym; exact Fa']. }
        apply (chain_le (fun p => nth p a' 0) (S j) n); try lia. exact Hinc.
Qed.

Lemma pm_done_step : forall s, pm_done s -> exists s', lexperm_next s = Some (s', false) /\ pm_done s'.
Proof.
  intros s (a & -> & HP & Hd). exists (lp_mk n a). split.
  - apply lexperm_next_last; auto. apply Permutation_length in HP. exact HP.
  - exists a. auto.
Qed.

Lemma pm_finite : exists all : list (list Z), forall z, pm_F z -> In z all.
Proof.
  exists (lists_over n a0). intros z Fz. apply lists_over_complete.
  - apply pm_F_length; auto.
  - intros v Hv. eapply Permutation_in; eauto.
Qed.

Theorem nextperm_enumerates_sorted :
  exists fuel l e,
    drain lexperm_next lexperm_value fuel {| lp_n := n; lp_a := a0; lp_first := true |} = Some (l, e) /\
    StronglySorted lex_lt l /\ (forall x, In x l <-> Permutation x a0) /\ exhausted lexperm_next e.
Proof.
  apply (enumerates_sorted lp_st (list Z) lexperm_next lexperm_value lex_lt pm_F pm_live pm_done).
  - intros x _. apply lex_irrefl.
  - intros x y z Hx Hy _. apply lex_trans. rewrite (pm_F_length x Hx), (pm_F_length y Hy). auto.
  - intros x y Hx Hy. apply lex_total. rewrite (pm_F_length x Hx), (pm_F_length y Hy). auto.
  - exact pm_finite.
  - exact pm_live_step.
  - exact pm_done_step.
  - left. exists (lp_mk n a0). split; [reflexivity|]. split.
    + exists a0. split; auto.
    + cbn [lexperm_value lp_mk lp_a]. apply lex_least. intros z i Fz Hi A.
      pose proof (pm_F_length z Fz) as Hz.
      destruct (perm_agree_nth a0 z i) as (k & Hk & ->); auto; try (fold n; lia).
      fold n in Hk. apply (chain_le (fun p => nth p a0 0) O n); try lia.
      intros p _ Hp. apply a0_sorted. exact Hp.
Qed.

End Fixed.

Theorem nextperm_enumerates : forall a0, nondecr a0 ->
  enumerates lexperm_next lexperm_value lex_lt (fun z => Permutation z a0)
    {| lp_n := length a0; lp_a := a0; lp_first := true |}.
Proof.
  intros a0 H. apply enumerates_of_sorted.
  - intros x _. apply lex_irrefl.
  - apply nextperm_enumerates_sorted. exact H.
Qed.

(* ------------------------------------------------------------------ the two constructors *)

Lemma sorted_nondecr : forall l, StronglySorted Z.le l -> nondecr l.
Proof.
  induction l as [|a l IH]; intros Hs i Hi; [simpl in Hi; lia|].
  inversion Hs as [|? ? Hs' Hall]; subst.
  destruct i as [|i].
  - destruct l as [|b l]; [simpl in Hi; lia|]. simpl. inversion Hall; auto.
  - change (nth i l 0 <= nth (S i) l 0). apply IH; auto. simpl in Hi. lia.
Qed.

Lemma repeat_app_sorted : forall k i l, StronglySorted Z.le l -> Forall (Z.le i) l ->
  StronglySorted Z.le (repeat i k ++ l) /\ Forall (Z.le i) (repeat i k ++ l).
Proof.
  induction k as [|k IH]; intros i l Hs Hf; [simpl; auto|].
  destruct (IH i l Hs Hf) as [Hs' Hf']. simpl. split; constructor; auto. lia.
Qed.

Lemma expand_sorted : forall freq i, StronglySorted Z.le (expand i freq) /\ Forall (Z.le i) (expand i freq).
Proof.
  induction freq as [|v t IH]; intros i; [simpl; split; constructor|].
  cbn [expand]. destruct (IH (i + 1)) as [Hs Hf]. apply repeat_app_sorted; auto.
  eapply Forall_impl; [|exact Hf]. intros; lia.
Qed.

Lemma expand_length : forall freq i, Forall (fun v => 0 <= v) freq ->
  length (expand i freq) = Z.to_nat (fold_right Z.add 0 freq).
Proof.
  induction freq as [|v t IH]; intros i Hf; [reflexivity|].
  inversion Hf; subst. cbn [expand fold_right]. rewrite app_length, repeat_length, (IH (i + 1)) by auto.
  assert (0 <= fold_right Z.add 0 t).
  { clear - H2. induction t; simpl; [lia|]. inversion H2; subst. specialize (IHt H3). lia. }
  lia.
Qed.

Lemma iota_nondecr : forall k, nondecr (iota k).
Proof.
  intros k i Hi. rewrite iota_length in Hi. rewrite !nth_iota by lia. lia.
Qed.

Theorem lexperm_enumerates : forall n,
  enumerates lexperm_next lexperm_value lex_lt (fun z => Permutation z (iota n)) (lexperm_init n).
Proof.
  intros n. pose proof (nextperm_enumerates (iota n) (iota_nondecr n)) as H.
  rewrite iota_length in H. exact H.
Qed.

Theorem mperm_enumerates : forall freq, Forall (fun v => 0 <= v) freq ->
  enumerates lexperm_next lexperm_value lex_lt (fun z => Permutation z (expand 0 freq)) (mperm_init freq).
Proof.
  intros freq Hf.
  pose proof (nextperm_enumerates (expand 0 freq) (sorted_nondecr _ (proj1 (expand_sorted freq 0)))) as H.
  rewrite expand_length in H by auto. exact H.
Qed.
