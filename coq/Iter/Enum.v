(* The common frame of C15: an iterator is a state type with [next : St -> option (St * bool)]
   (Go's Next() bool; None = panic / out of fuel) and [value : St -> Obj].

   [drain] calls next until it returns false and collects the values; [exhausted s] says that
   every further call from s returns false.

   [enumerates_sorted]: if the first call yields the least object of the family (or reports
   exhaustion on an empty family), every call on a live state yields the immediate successor of
   the current object in the strict order (or reports exhaustion at the greatest object), and
   exhaustion is absorbing, then draining gives the sorted list of all objects of the family,
   each once, and every later call reports exhaustion. *)
From Coq Require Import List Arith Lia Sorted.
Import ListNotations.

Section Enum.
Variables St Obj : Type.
Variable next : St -> option (St * bool).
Variable value : St -> Obj.

Fixpoint drain (fuel : nat) (s : St) : option (list Obj * St) :=
  match fuel with
  | O => None
  | S f =>
    match next s with
    | None => None
    | Some (s', false) => Some ([], s')
    | Some (s', true) =>
      match drain f s' with
      | Some (l, e) => Some (value s' :: l, e)
      | None => None
      end
    end
  end.

(* k further calls, all of which must return false *)
Fixpoint after (k : nat) (s : St) : option St :=
  match k with
  | O => Some s
  | S k' =>
    match next s with
    | Some (s', false) => after k' s'
    | _ => None
    end
  end.

Definition exhausted (s : St) : Prop := forall k, after k s <> None.

Lemma drain_mono : forall f f' s r, drain f s = Some r -> f <= f' -> drain f' s = Some r.
Proof.
  induction f as [|f IH]; intros f' s r H Hle; [discriminate|].
  destruct f' as [|f']; [lia|]. simpl in *.
  destruct (next s) as [[s' [|]]|]; auto; try discriminate.
  destruct (drain f s') as [[l e]|] eqn:E; [|discriminate].
  rewrite (IH f' s' (l, e) E) by lia. exact H.
Qed.

(* the fuel needed is exactly one call per object plus the call that reports exhaustion *)
Lemma drain_fuel_length : forall f s l e, drain f s = Some (l, e) -> drain (S (length l)) s = Some (l, e).
Proof.
  induction f as [|f IH]; intros s l e H; [discriminate|]. cbn [drain] in H.
  destruct (next s) as [[s' [|]]|] eqn:E; try discriminate.
  - destruct (drain f s') as [[l' e']|] eqn:D; [|discriminate]. inversion H; subst.
    apply IH in D. cbn [drain length] in *. rewrite E, D. reflexivity.
  - inversion H; subst. cbn [drain length]. rewrite E. reflexivity.
Qed.

Section Sorted.
Variable lt : Obj -> Obj -> Prop.
Variable F : Obj -> Prop.
Variables Live Done : St -> Prop.

Hypothesis lt_irrefl : forall x, F x -> ~ lt x x.
Hypothesis lt_trans : forall x y z, F x -> F y -> F z -> lt x y -> lt y z -> lt x z.
Hypothesis lt_total : forall x y, F x -> F y -> x = y \/ lt x y \/ lt y x.
Hypothesis F_finite : exists all : list Obj, forall x, F x -> In x all.

Hypothesis live_step : forall s, Live s ->
  F (value s) /\
  ((exists s', next s = Some (s', true) /\ Live s' /\ lt (value s) (value s') /\
               forall z, F z -> lt (value s) z -> lt z (value s') -> False)
   \/ (exists s', next s = Some (s', false) /\ Done s' /\ forall z, F z -> ~ lt (value s) z)).
Hypothesis done_step : forall s, Done s -> exists s', next s = Some (s', false) /\ Done s'.

Lemma done_exhausted : forall s, Done s -> exhausted s.
Proof.
  intros s H k. revert s H. induction k as [|k IH]; intros s H; simpl; [discriminate|].
  destruct (done_step s H) as (s' & E & D). rewrite E. apply IH, D.
Qed.

Lemma sorted_chain_nodup : forall c, StronglySorted lt c -> (forall x, In x c -> F x) -> NoDup c.
Proof.
  induction c as [|a c IH]; intros Hs HF; [constructor|].
  inversion Hs as [|? ? Hs' Hall]; subst. constructor.
  - intro Hin. rewrite Forall_forall in Hall. apply (lt_irrefl a); [apply HF; left; auto|apply Hall, Hin].
  - apply IH; auto. intros x Hx. apply HF. right; auto.
Qed.

Lemma live_drain : forall n s, Live s ->
  (forall c, StronglySorted lt c -> (forall x, In x c -> F x /\ lt (value s) x) -> length c <= n) ->
  exists fuel l e, drain fuel s = Some (l, e) /\ Done e /\
    StronglySorted lt (value s :: l) /\ (forall x, In x l -> F x) /\
    (forall z, F z -> lt (value s) z -> In z l).
Proof.
  induction n as [|n IH]; intros s HL Hb.
  - destruct (live_step s HL) as (HF & [(s' & E & HL' & Hlt & _) | (s' & E & HD & Hmax)]).
    + exfalso. destruct (live_step s' HL') as (HF' & _).
      assert (H : length [value s'] <= 0).
      { apply Hb. repeat constructor. intros x [<-|[]]. auto. }
      simpl in H. lia.
    + exists 1, [], s'. simpl. rewrite E.
      split; [reflexivity|]. split; [exact HD|]. split; [repeat constructor|].
      split; [intros x []|]. intros z Hz Hl. exfalso. eapply Hmax; eauto.
  - destruct (live_step s HL) as (HF & [(s' & E & HL' & Hlt & Hbetween) | (s' & E & HD & Hmax)]).
    + destruct (live_step s' HL') as (HF' & _).
      destruct (IH s' HL') as (fuel & l & e & Hd & HDe & Hs & HFl & Hcomp).
      { intros c Hc Hin.
        assert (H : length (value s' :: c) <= S n).
        { apply Hb.
          - constructor; auto. apply Forall_forall. intros x Hx. apply Hin, Hx.
          - intros x [<-|Hx]; [split; assumption|]. destruct (Hin x Hx) as [Fx Lx]. split; auto.
            apply lt_trans with (y := value s'); assumption. }
        simpl in H. lia. }
      exists (S fuel), (value s' :: l), e. simpl. rewrite E, Hd.
      split; [reflexivity|]. split; [exact HDe|]. split; [|split].
      * constructor; auto. constructor; auto.
        inversion Hs as [|? ? _ Hall]; subst. rewrite Forall_forall in *.
        intros x Hx. apply lt_trans with (y := value s'); auto.
      * intros x [<-|Hx]; auto.
      * intros z Hz Hl. destruct (lt_total z (value s') Hz HF') as [->|[H|H]].
        -- left; auto.
        -- exfalso. eapply Hbetween; eauto.
        -- right. apply Hcomp; auto.
    + exists 1, [], s'. simpl. rewrite E.
      split; [reflexivity|]. split; [exact HD|]. split; [repeat constructor|].
      split; [intros x []|]. intros z Hz Hl. exfalso. eapply Hmax; eauto.
Qed.

Theorem enumerates_sorted : forall s0,
  ((exists s1, next s0 = Some (s1, true) /\ Live s1 /\ forall z, F z -> ~ lt z (value s1))
   \/ (exists s1, next s0 = Some (s1, false) /\ Done s1 /\ forall z, ~ F z)) ->
  exists fuel l e, drain fuel s0 = Some (l, e) /\
    StronglySorted lt l /\ (forall x, In x l <-> F x) /\ exhausted e.
Proof.
  intros s0 [(s1 & E & HL & Hmin) | (s1 & E & HD & Hempty)].
  - destruct F_finite as [all Hall].
    destruct (live_step s1 HL) as (HF1 & _).
    destruct (live_drain (length all) s1 HL) as (fuel & l & e & Hd & HDe & Hs & HFl & Hcomp).
    { intros c Hc Hin. apply NoDup_incl_length.
      - apply sorted_chain_nodup; auto. intros x Hx. apply Hin, Hx.
      - intros x Hx. apply Hall, Hin, Hx. }
    exists (S fuel), (value s1 :: l), e. simpl. rewrite E, Hd.
    split; [reflexivity|]. split; [exact Hs|]. split; [intros x; split|].
    + intros [<-|Hx]; auto.
    + intros Hx. destruct (lt_total x (value s1) Hx HF1) as [->|[H|H]].
      * left; auto.
      * exfalso. eapply Hmin; eauto.
      * right. apply Hcomp; auto.
    + apply done_exhausted; auto.
  - exists 1, [], s1. simpl. rewrite E.
    split; [reflexivity|]. split; [constructor|]. split; [intros x; split|].
    + intros [].
    + intros Hx. exfalso. eapply Hempty; eauto.
    + apply done_exhausted; auto.
Qed.

(* A strictly sorted list is determined by its set of elements: two enumerations of the same
   family in the same order are the same list (used for "agrees with filtering"). *)
Lemma sorted_unique : forall l1 l2,
  StronglySorted lt l1 -> StronglySorted lt l2 ->
  (forall x, In x l1 -> F x) -> (forall x, In x l1 <-> In x l2) -> l1 = l2.
Proof.
  induction l1 as [|a l1 IH]; intros l2 H1 H2 HF Heq.
  - destruct l2 as [|b l2]; auto. exfalso. apply (Heq b). left; auto.
  - destruct l2 as [|b l2]. { exfalso. apply (Heq a). left; auto. }
    inversion H1 as [|? ? H1' A1]; subst. inversion H2 as [|? ? H2' A2]; subst.
    rewrite Forall_forall in A1, A2.
    assert (Fa : F a) by (apply HF; left; auto).
    assert (Fb : F b) by (apply HF, Heq; left; auto).
    assert (a = b).
    { destruct (proj1 (Heq a) (or_introl eq_refl)) as [->|Ha]; auto.
      destruct (proj2 (Heq b) (or_introl eq_refl)) as [->|Hb]; auto.
      exfalso. apply (lt_irrefl a Fa). eapply lt_trans with (y := b); eauto. }
    subst b. f_equal. apply IH; auto.
    + intros x Hx. apply HF. right; auto.
    + intros x. split; intros Hx.
      * destruct (proj1 (Heq x) (or_intror Hx)) as [<-|]; auto.
        exfalso. apply (lt_irrefl a Fa), A1, Hx.
      * destruct (proj2 (Heq x) (or_intror Hx)) as [<-|]; auto.
        exfalso. apply (lt_irrefl a Fa), A2, Hx.
Qed.

End Sorted.
End Enum.

Arguments drain {St Obj}.
Arguments after {St}.
Arguments exhausted {St}.

(* an enumeration statement with some fuel holds with the exact fuel: one call per object and
   one for the report of exhaustion *)
Lemma drain_exact_fuel : forall (St Obj : Type) (next : St -> option (St * bool)) (value : St -> Obj)
  (s0 : St) (Q : list Obj -> St -> Prop),
  (exists fuel l e, drain next value fuel s0 = Some (l, e) /\ Q l e) ->
  exists l e, drain next value (S (length l)) s0 = Some (l, e) /\ Q l e.
Proof.
  intros St Obj next value s0 Q (fuel & l & e & H & HQ). exists l, e. split; auto.
  eapply drain_fuel_length; eauto.
Qed.
