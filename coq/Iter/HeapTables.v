(* T n k lists every table that permutes the first k positions exactly once. *)
From Coq Require Import List Arith Bool Lia Permutation.
From Mamba Require Import Iter.HeapIndex.
Import ListNotations.

(* ------------------------------------------------------------------ inverses *)

Fixpoint Phiinv (piLinv : nat -> nat) (L d q : nat) : nat :=
  match d with
  | 0 => q
  | S d' => tr (sidx L d') L (piLinv (Phiinv piLinv L d' q))
  end.

Fixpoint piinv (k q : nat) : nat :=
  match k with
  | 0 => q
  | S L => piinv L (Phiinv (piinv L) L L q)
  end.

Lemma Phi_inv_l : forall f g L d p, (forall q, g (f q) = q) -> Phiinv g L d (Phi f L d p) = p.
Proof.
  intros f g L d. induction d as [|d IH]; intros p H; [reflexivity|].
  cbn [Phi Phiinv]. rewrite IH by auto. rewrite H. apply tr_invol.
Qed.

Lemma Phi_inv_r : forall f g L d q, (forall q, f (g q) = q) -> Phi f L d (Phiinv g L d q) = q.
Proof.
  intros f g L d. induction d as [|d IH]; intros q H; [reflexivity|].
  cbn [Phi Phiinv]. rewrite tr_invol. rewrite H. apply IH. auto.
Qed.

Lemma pi_inv : forall k, (forall q, piinv k (pi k q) = q) /\ (forall q, pi k (piinv k q) = q).
Proof.
  induction k as [|L [IH1 IH2]]; [split; reflexivity|]. split; intros q; cbn [pi piinv].
  - rewrite Phi_inv_l by auto. apply IH1.
  - rewrite IH2. apply Phi_inv_r. auto.
Qed.

Definition Ph (L d : nat) : nat -> nat := Phi (pi L) L d.
Definition Ps (L d : nat) : nat -> nat := Phiinv (piinv L) L d.

Lemma Ps_Ph : forall L d p, Ps L d (Ph L d p) = p.
Proof. intros. apply Phi_inv_l. apply (pi_inv L). Qed.

Lemma Ph_Ps : forall L d q, Ph L d (Ps L d q) = q.
Proof. intros. apply Phi_inv_r. apply (pi_inv L). Qed.

Lemma Ph_inj : forall L d p q, Ph L d p = Ph L d q -> p = q.
Proof. intros L d p q H. rewrite <- (Ps_Ph L d p), <- (Ps_Ph L d q), H. reflexivity. Qed.

Lemma Ps_inj : forall L d p q, Ps L d p = Ps L d q -> p = q.
Proof. intros L d p q H. rewrite <- (Ph_Ps L d p), <- (Ph_Ps L d q), H. reflexivity. Qed.

Lemma Ph_fix : forall L d p, d <= S L -> L < p -> Ph L d p = p.
Proof. intros. apply Phi_fix; auto. intros q Hq. apply pi_fix. lia. Qed.

Lemma Ph_le : forall L d p, d <= S L -> p <= L -> Ph L d p <= L.
Proof.
  intros L d p Hd Hp. destruct (Phi_ext (pi L) (pi L) L d p) as [_ H]; auto. intros; apply pi_le; auto.
Qed.

Lemma Ps_fix : forall L d p, d <= S L -> L < p -> Ps L d p = p.
Proof. intros L d p Hd Hp. rewrite <- (Ph_fix L d p Hd Hp) at 1. apply Ps_Ph. Qed.

Lemma Ps_le : forall L d p, d <= S L -> p <= L -> Ps L d p <= L.
Proof.
  intros L d p Hd Hp. destruct (le_lt_dec (Ps L d p) L); auto. exfalso.
  pose proof (Ph_fix L d (Ps L d p) Hd l) as H. rewrite Ph_Ps in H. lia.
Qed.

(* ------------------------------------------------------------------ list facts *)

Lemma nodup_app : forall (A : Type) (a b : list A), NoDup a -> NoDup b ->
  (forall x, In x a -> ~ In x b) -> NoDup (a ++ b).
Proof.
  induction a as [|x a IH]; intros b Ha Hb H; [exact Hb|].
  inversion Ha; subst. simpl. constructor.
  - intro Hin. apply in_app_or in Hin. destruct Hin as [Hin|Hin]; [auto|]. apply (H x); [left; auto|auto].
  - apply IH; auto. intros y Hy. apply H. right; auto.
Qed.

Lemma nodup_flat_map : forall (A B : Type) (f : A -> list B) (ds : list A), NoDup ds ->
  (forall d, In d ds -> NoDup (f d)) ->
  (forall d d' x, In d ds -> In d' ds -> In x (f d) -> In x (f d') -> d = d') ->
  NoDup (flat_map f ds).
Proof.
  induction ds as [|d ds IH]; intros Hnd Hf Hdis; [constructor|].
  inversion Hnd; subst. simpl. apply nodup_app.
  - apply Hf. left; auto.
  - apply IH; auto.
    + intros d' Hd'. apply Hf. right; auto.
    + intros d1 d2 x H1' H2'. apply Hdis; right; auto.
  - intros x Hx Hin. apply in_flat_map in Hin. destruct Hin as (d' & Hd' & Hx').
    assert (d = d') by (apply (Hdis d d' x); [left; auto|right; auto|auto|auto]). subst. auto.
Qed.

Lemma map_inj : forall (f : nat -> nat), (forall p q, f p = f q -> p = q) ->
  forall a b : list nat, map f a = map f b -> a = b.
Proof.
  intros f Hf. induction a as [|x a IH]; intros [|y b] H; simpl in H; try discriminate; auto.
  inversion H. f_equal; auto.
Qed.

Lemma nth_map0 : forall (f : nat -> nat) t p, p < length t -> nth p (map f t) 0 = f (nth p t 0).
Proof.
  intros f t p H. rewrite (nth_indep _ 0 (f 0)) by (rewrite map_length; auto). apply map_nth.
Qed.

(* a bijection of 0..n-1 carries permutation tables to permutation tables *)
Lemma perm_map_bij : forall n (f : nat -> nat) t, (forall p q, f p = f q -> p = q) ->
  (forall p, p < n -> f p < n) -> Permutation t (seq 0 n) -> Permutation (map f t) (seq 0 n).
Proof.
  intros n f t Hinj Hb Hp.
  eapply Permutation_trans; [apply Permutation_map; exact Hp|].
  apply NoDup_Permutation_bis.
  - apply FinFun.Injective_map_NoDup; [intros p q; apply Hinj|apply seq_NoDup].
  - rewrite map_length. lia.
  - intros v Hv. apply in_map_iff in Hv. destruct Hv as (p & <- & Hp'). apply in_seq in Hp'.
    apply in_seq. specialize (Hb p ltac:(lia)). lia.
Qed.

(* ------------------------------------------------------------------ the enumeration *)

Section Fixed.
Variable n : nat.

Lemma kperm_length : forall k t, kperm n k t -> length t = n.
Proof. intros k t [H _]. apply Permutation_length in H. rewrite seq_length in H. auto. Qed.

Lemma kperm_step : forall L d t, L < n -> d <= L -> kperm n L t -> kperm n (S L) (map (Ph L d) t).
Proof.
  intros L d t HL Hd [Hp Ht]. split.
  - apply perm_map_bij; auto.
    + intros p q. apply Ph_inj.
    + intros p Hpn. destruct (le_lt_dec p L); [pose proof (Ph_le L d p ltac:(lia) l); lia|].
      rewrite Ph_fix; auto; lia.
  - intros p Hpr. pose proof (kperm_length L t (conj Hp Ht)) as Hlen.
    rewrite nth_map0 by lia. rewrite Ht by lia. apply Ph_fix; lia.
Qed.

Lemma kperm_atL : forall L d t, L < n -> kperm n L t -> nth L (map (Ph L d) t) 0 = atL L d.
Proof.
  intros L d t HL [Hp Ht]. pose proof (kperm_length L t (conj Hp Ht)) as Hlen.
  rewrite nth_map0 by lia. rewrite Ht by lia. reflexivity.
Qed.

Lemma kperm_back : forall L d h, L < n -> d <= L -> kperm n (S L) h -> nth L h 0 = atL L d ->
  kperm n L (map (Ps L d) h) /\ map (Ph L d) (map (Ps L d) h) = h.
Proof.
  intros L d h HL Hd [Hp Ht] Hv. pose proof (kperm_length (S L) h (conj Hp Ht)) as Hlen. split; [split|].
  - apply perm_map_bij; auto.
    + intros p q. apply Ps_inj.
    + intros p Hpn. destruct (le_lt_dec p L); [pose proof (Ps_le L d p ltac:(lia) l); lia|].
      rewrite Ps_fix; auto; lia.
  - intros p Hpr. rewrite nth_map0 by lia. destruct (Nat.eq_dec p L) as [->|].
    + rewrite Hv. unfold atL. apply Ps_Ph.
    + rewrite Ht by lia. apply Ps_fix; lia.
  - rewrite map_map. rewrite <- map_id. apply map_ext. intros q. apply Ph_Ps.
Qed.

Lemma kperm_val_le : forall L h, L < n -> kperm n (S L) h -> nth L h 0 <= L.
Proof.
  intros L h HL [Hp Ht]. pose proof (kperm_length (S L) h (conj Hp Ht)) as Hlen.
  destruct (le_lt_dec (nth L h 0) L); auto. exfalso.
  assert (Hin : In (nth L h 0) h) by (apply nth_In; lia).
  apply (Permutation_in _ Hp) in Hin. apply in_seq in Hin.
  assert (Hnd : NoDup h) by (eapply Permutation_NoDup; [apply Permutation_sym; exact Hp|apply seq_NoDup]).
  pose proof (Ht (nth L h 0) ltac:(lia)) as E.
  rewrite (NoDup_nth h 0) in Hnd. specialize (Hnd (nth L h 0) L ltac:(lia) ltac:(lia) E). lia.
Qed.

Theorem T_enum_n : forall k, k <= n -> NoDup (T n k) /\ forall t, In t (T n k) <-> kperm n k t.
Proof.
  induction k as [|L IH]; intros Hk.
  - split; [repeat constructor; intros []|]. intros t. simpl. split.
    + intros [<-|[]]. split; [apply Permutation_refl|]. intros p Hp. apply seq_nth. lia.
    + intros [Hp Ht]. left. apply nth_ext with (d := 0) (d' := 0).
      * rewrite seq_length. symmetry. apply (kperm_length 0 t (conj Hp Ht)).
      * intros p Hp'. rewrite seq_length in Hp'. rewrite seq_nth by auto. symmetry. apply Ht. lia.
  - destruct (IH ltac:(lia)) as [Hnd Hin]. assert (HL : L < n) by lia.
    assert (Hmem : forall t, In t (T n (S L)) <-> exists d t0, d <= L /\ In t0 (T n L) /\ t = map (Ph L d) t0).
    { intros t. cbn [T]. rewrite in_flat_map. split.
      - intros (d & Hd & Ht). apply in_seq in Hd. apply in_map_iff in Ht. destruct Ht as (t0 & <- & Ht0).
        exists d, t0. split; [lia|]. split; auto.
      - intros (d & t0 & Hd & Ht0 & ->). exists d. split; [apply in_seq; lia|]. apply in_map. auto. }
    split.
    + cbn [T]. apply nodup_flat_map.
      * apply seq_NoDup.
      * intros d Hd. apply FinFun.Injective_map_NoDup; auto.
        intros a b. apply map_inj. intros p q. apply Ph_inj.
      * intros d d' x Hd Hd' Hx Hx'. apply in_seq in Hd, Hd'.
        apply in_map_iff in Hx, Hx'. destruct Hx as (t & <- & Ht). destruct Hx' as (t' & E & Ht').
        apply Hin in Ht, Ht'.
        pose proof (kperm_atL L d t HL Ht) as E1. pose proof (kperm_atL L d' t' HL Ht') as E2.
        unfold Ph in E1, E2. rewrite <- E in E1. rewrite E2 in E1.
        symmetry. apply (atL_inj L); auto; lia.
    + intros t. rewrite Hmem. split.
      * intros (d & t0 & Hd & Ht0 & ->). apply kperm_step; auto. apply Hin. auto.
      * intros Hk'. destruct (atL_surj L (nth L t 0) (kperm_val_le L t HL Hk')) as (d & Hd & Ed).
        destruct (kperm_back L d t HL Hd Hk' (eq_sym Ed)) as [Hb Hr].
        exists d, (map (Ps L d) t). split; auto. split; [apply Hin; auto|auto].
Qed.

End Fixed.

Theorem T_enum : forall n k, k <= n -> NoDup (T n k) /\ forall t, In t (T n k) <-> kperm n k t.
Proof. exact T_enum_n. Qed.
