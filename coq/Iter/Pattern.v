(* itertools.PermutationsByPattern: the tree of permutations by insertion.
   A permutation P of 0..l-1 has the children ins P x (x = l, l-1, .., 0): append x and increase
   by one every entry of P that is >= x.  A path from the root is coded by the list c with
   c[i] = i - x_i in [0,i]; [dec c] is the permutation reached.  This file proves that dec is a
   bijection between the codes of length n and the permutations of 0..n-1 and that the nodes on
   the path to dec c are the standardised prefixes of dec c. *)
From Coq Require Import List ZArith Lia Arith Bool Sorted Permutation.
From Mamba Require Import Iter.Model Iter.Enum Iter.Lex Iter.Product Iter.ProductRP Iter.AlgX.
Import ListNotations.
Open Scope Z_scope.

Definition bump (x v : Z) : Z := if v >=? x then v + 1 else v.
Definition ins (P : list Z) (x : Z) : list Z := map (bump x) P ++ [x].

Fixpoint dec_rev (rc : list Z) : list Z :=
  match rc with
  | [] => []
  | y :: rc' => ins (dec_rev rc') (zlen rc' - y)
  end.
Definition dec (c : list Z) : list Z := dec_rev (rev c).

Lemma dec_nil : dec [] = [].
Proof. reflexivity. Qed.

Lemma dec_snoc : forall c y, dec (c ++ [y]) = ins (dec c) (zlen c - y).
Proof. intros. unfold dec. rewrite rev_unit. simpl. unfold zlen. rewrite rev_length. reflexivity. Qed.

Lemma ins_length : forall P x, length (ins P x) = S (length P).
Proof. intros. unfold ins. rewrite app_length, map_length. simpl. lia. Qed.

Lemma dec_length : forall c, length (dec c) = length c.
Proof.
  intros c. induction c as [|y c IH] using rev_ind; auto.
  rewrite dec_snoc, ins_length, app_length, IH. simpl. lia.
Qed.

Definition code_ok (c : list Z) : Prop := forall i, (i < length c)%nat -> 0 <= nth i c 0 <= Z.of_nat i.

Lemma code_ok_snoc : forall c y, code_ok (c ++ [y]) <-> code_ok c /\ 0 <= y <= zlen c.
Proof.
  intros c y. unfold code_ok, zlen. split.
  - intros H. split.
    + intros i Hi. specialize (H i). rewrite app_length in H. simpl in H.
      rewrite app_nth1 in H by lia. apply H. lia.
    + specialize (H (length c)). rewrite app_length in H. simpl in H.
      rewrite nth_app_last in H. apply H. lia.
  - intros [H1 H2] i Hi. rewrite app_length in Hi. simpl in Hi.
    destruct (Nat.eq_dec i (length c)) as [->|Hne].
    + rewrite nth_app_last. auto.
    + rewrite app_nth1 by lia. apply H1. lia.
Qed.

Lemma bump_inj : forall x u v, bump x u = bump x v -> u = v.
Proof. intros x u v. unfold bump. destruct (Z.geb_spec u x), (Z.geb_spec v x); lia. Qed.

Lemma bump_neq : forall x v, bump x v <> x.
Proof. intros x v. unfold bump. destruct (Z.geb_spec v x); lia. Qed.

Lemma bump_mono : forall x u v, (bump x u <? bump x v) = (u <? v).
Proof.
  intros x u v. unfold bump. destruct (Z.geb_spec u x), (Z.geb_spec v x);
    destruct (Z.ltb_spec u v); cbv iota beta; try reflexivity; try (apply Z.ltb_lt; lia); try (apply Z.ltb_ge; lia).
Qed.

Lemma map_inj : forall (g : Z -> Z) a b, (forall u v, g u = g v -> u = v) -> map g a = map g b -> a = b.
Proof.
  intros g. induction a as [|x a IH]; intros [|y b] Hg H; simpl in *; try discriminate; auto.
  inversion H. f_equal; auto.
Qed.

Lemma ins_perm : forall P (l : nat) x, Permutation P (iota l) -> 0 <= x <= Z.of_nat l ->
  Permutation (ins P x) (iota (S l)).
Proof.
  intros P l x HP Hx. destruct (perm_facts l P HP) as (Hl & Hnd & Hr).
  apply range_nodup_perm.
  - rewrite ins_length. lia.
  - unfold ins. apply nodup_snoc.
    + apply FinFun.Injective_map_NoDup; auto. intros u v. apply bump_inj.
    + intros H. apply in_map_iff in H. destruct H as (v & E & _). apply (bump_neq x v). auto.
  - intros v Hv. unfold ins in Hv. apply in_app_iff in Hv. destruct Hv as [Hv|[<-|[]]]; [|lia].
    apply in_map_iff in Hv. destruct Hv as (u & <- & Hu). specialize (Hr u Hu).
    unfold bump. destruct (Z.geb_spec u x); lia.
Qed.

Lemma dec_perm : forall c, code_ok c -> Permutation (dec c) (iota (length c)).
Proof.
  intros c. induction c as [|y c IH] using rev_ind; intros Hc.
  - simpl. constructor.
  - apply code_ok_snoc in Hc. destruct Hc as [Hc Hy]. rewrite dec_snoc, app_length. simpl.
    replace (length c + 1)%nat with (S (length c)) by lia. apply ins_perm; auto. unfold zlen in *. lia.
Qed.

Lemma dec_inj : forall c c', length c = length c' -> dec c = dec c' -> c = c'.
Proof.
  intros c. induction c as [|y c IH] using rev_ind; intros c' Hl H.
  - destruct c'; auto. discriminate.
  - destruct c' as [|a0 c0]; [rewrite app_length in Hl; simpl in Hl; lia|].
    destruct (exists_last (l := a0 :: c0)) as (c' & y' & Ep); [discriminate|]. rewrite Ep in *. clear Ep.
    rewrite !app_length in Hl. simpl in Hl. rewrite !dec_snoc in H. unfold ins in H.
    apply app_inj_tail in H. destruct H as [H1 H2].
    assert (y = y') by (unfold zlen in *; lia). subst y'.
    rewrite <- H2 in H1. apply map_inj in H1; [|intros u v; apply bump_inj].
    rewrite (IH c'); auto. lia.
Qed.

(* ------------------------------------------------------------------ standardisation *)

Definition cntlt (a : list Z) (w : Z) : Z := Z.of_nat (length (filter (fun u => u <? w) a)).
Definition std (a : list Z) : list Z := map (cntlt a) a.

Lemma cntlt_app : forall a b w, cntlt (a ++ b) w = cntlt a w + cntlt b w.
Proof. intros. unfold cntlt. rewrite filter_app, app_length. lia. Qed.

Lemma cntlt_range : forall a w, 0 <= cntlt a w <= zlen a.
Proof.
  intros a w. unfold cntlt, zlen.
  assert (H : (length (filter (fun u => (u <? w)%Z) a) <= length a)%nat).
  { induction a as [|v a IH]; simpl; auto. destruct (v <? w); simpl; lia. }
  lia.
Qed.

Lemma filter_length_perm : forall (g : Z -> bool) a b, Permutation a b ->
  length (filter g a) = length (filter g b).
Proof.
  intros g a b H. induction H; simpl; auto.
  - destruct (g x); simpl; lia.
  - destruct (g x), (g y); simpl; lia.
  - lia.
Qed.

Lemma cntlt_perm : forall a b w, Permutation a b -> cntlt a w = cntlt b w.
Proof. intros. unfold cntlt. f_equal. apply filter_length_perm. auto. Qed.

Lemma iota_S : forall l, iota (S l) = iota l ++ [Z.of_nat l].
Proof. intros. unfold iota. rewrite seq_S, map_app. reflexivity. Qed.

Lemma cntlt_iota : forall l v, 0 <= v -> cntlt (iota l) v = Z.min v (Z.of_nat l).
Proof.
  induction l as [|l IH]; intros v Hv.
  - unfold cntlt. simpl. lia.
  - rewrite iota_S, cntlt_app, IH by auto. unfold cntlt. simpl.
    destruct (Z.ltb_spec (Z.of_nat l) v); simpl; lia.
Qed.

Lemma std_perm : forall P l, Permutation P (iota l) -> std P = P.
Proof.
  intros P l HP. destruct (perm_facts l P HP) as (_ & _ & Hr). unfold std.
  rewrite <- (map_id P) at 3. apply map_ext_in. intros v Hv. specialize (Hr v Hv).
  rewrite (cntlt_perm P (iota l) v HP). rewrite cntlt_iota by lia. lia.
Qed.

(* appending a new value w: the old ranks at or above the rank of w move up by one *)
Lemma std_snoc : forall a w, ~ In w a -> std (a ++ [w]) = ins (std a) (cntlt a w).
Proof.
  intros a w Hw. unfold std, ins. rewrite map_app, map_map. simpl. f_equal.
  - apply map_ext_in. intros u Hu. rewrite cntlt_app. unfold bump.
    assert (Huw : u <> w) by (intro; subst; auto).
    unfold cntlt at 2. simpl.
    destruct (Z.ltb_spec w u) as [Hlt|Hge]; simpl.
    + (* w < u: everything below w is below u *)
      assert (H : (length (filter (fun v => (v <? w)%Z) a) <= length (filter (fun v => (v <? u)%Z) a))%nat).
      { apply filter_length_le. intros v Hv. apply Z.ltb_lt in Hv. apply Z.ltb_lt. lia. }
      unfold cntlt. destruct (Z.geb_spec (Z.of_nat (length (filter (fun v => v <? u) a)))
                                         (Z.of_nat (length (filter (fun v => v <? w) a)))); lia.
    + assert (H : (length (filter (fun v => (v <? u)%Z) a) < length (filter (fun v => (v <? w)%Z) a))%nat).
      { apply filter_length_lt with (q := u); auto.
        - apply Z.ltb_lt. lia.
        - apply Z.ltb_irrefl.
        - intros v Hv. apply Z.ltb_lt in Hv. apply Z.ltb_lt. lia. }
      unfold cntlt. destruct (Z.geb_spec (Z.of_nat (length (filter (fun v => v <? u) a)))
                                         (Z.of_nat (length (filter (fun v => v <? w) a)))); lia.
  - f_equal. rewrite cntlt_app. unfold cntlt at 2. simpl. rewrite Z.ltb_irrefl. simpl. lia.
Qed.

(* a strictly monotone relabelling does not change the pattern *)
Lemma std_bump : forall x a, std (map (bump x) a) = std a.
Proof.
  intros x a. unfold std. rewrite map_map. apply map_ext. intros u. unfold cntlt. f_equal.
  induction a as [|v a IH]; simpl; auto. rewrite bump_mono. destruct (v <? u); simpl; rewrite IH; auto.
Qed.

(* the nodes on the path to dec c are the standardised prefixes of dec c *)
Lemma std_firstn_dec : forall c, code_ok c -> forall j, (j <= length c)%nat ->
  std (firstn j (dec c)) = dec (firstn j c).
Proof.
  intros c. induction c as [|y c IH] using rev_ind; intros Hc j Hj.
  - simpl in Hj. assert (j = 0%nat) by lia. subst. reflexivity.
  - pose proof Hc as Hc0. apply code_ok_snoc in Hc. destruct Hc as [Hc Hy].
    rewrite app_length in Hj. simpl in Hj.
    destruct (Nat.eq_dec j (length c + 1)) as [->|Hne].
    + rewrite !firstn_all2 by (rewrite ?dec_length, app_length; simpl; lia).
      apply std_perm with (l := length (c ++ [y])). apply dec_perm. auto.
    + rewrite firstn_app_l by lia. rewrite dec_snoc. unfold ins.
      rewrite firstn_app. rewrite map_length, dec_length.
      replace (j - length c)%nat with 0%nat by lia. simpl. rewrite app_nil_r.
      rewrite firstn_map. rewrite std_bump. apply IH; auto. lia.
Qed.

(* ------------------------------------------------------------------ the code of a permutation *)

Fixpoint enc_rev (rz : list Z) : list Z :=
  match rz with
  | [] => []
  | w :: rz' => (zlen rz' - cntlt rz' w) :: enc_rev rz'
  end.
Definition enc (z : list Z) : list Z := rev (enc_rev (rev z)).

Lemma enc_snoc : forall z w, enc (z ++ [w]) = enc z ++ [zlen z - cntlt z w].
Proof.
  intros. unfold enc. rewrite rev_unit. simpl. unfold zlen. rewrite rev_length.
  rewrite (cntlt_perm (rev z) z w) by (apply Permutation_sym, Permutation_rev). reflexivity.
Qed.

Lemma enc_length : forall z, length (enc z) = length z.
Proof.
  intros z. induction z as [|w z IH] using rev_ind; auto.
  rewrite enc_snoc, !app_length, IH. reflexivity.
Qed.

Lemma enc_ok : forall z, code_ok (enc z).
Proof.
  intros z. induction z as [|w z IH] using rev_ind; [intros i Hi; simpl in Hi; lia|].
  rewrite enc_snoc. apply code_ok_snoc. split; auto.
  pose proof (cntlt_range z w). unfold zlen in *. rewrite enc_length. lia.
Qed.

Lemma dec_enc_std : forall z, NoDup z -> dec (enc z) = std z.
Proof.
  intros z. induction z as [|w z IH] using rev_ind; intros Hnd; auto.
  apply nodup_snoc_inv in Hnd. destruct Hnd as [Hnd Hw].
  rewrite enc_snoc, dec_snoc, IH by auto. rewrite std_snoc by auto. f_equal.
  unfold zlen. rewrite enc_length. lia.
Qed.

Lemma dec_enc : forall z l, Permutation z (iota l) -> dec (enc z) = z.
Proof.
  intros z l Hz. destruct (perm_facts l z Hz) as (_ & Hnd & _).
  rewrite dec_enc_std by auto. apply std_perm with (l := l). auto.
Qed.
