(* itertools.CombinationsColex: the model of Next() enumerates the k-subsets of {0..n-1}, as
   strictly increasing arrays, in colexicographic order (compare the largest elements first),
   each once, and then reports exhaustion for ever; for every n and k (k > n yields nothing). *)
From Coq Require Import List ZArith Lia Arith Bool Sorted.
From Mamba Require Import Iter.Model Iter.Enum Iter.Lex Iter.Comb.
Import ListNotations.
Open Scope Z_scope.

(* ------------------------------------------------------------------ the colexicographic order *)

Definition colex_lt (x y : list Z) : Prop :=
  exists j, (j < length x)%nat /\
    (forall i, (j < i < length x)%nat -> nth i x 0 = nth i y 0) /\ nth j x 0 < nth j y 0.

Lemma colex_irrefl : forall x, ~ colex_lt x x.
Proof. intros x (j & _ & _ & H). lia. Qed.

Lemma colex_trans : forall x y z, length x = length y -> colex_lt x y -> colex_lt y z -> colex_lt x z.
Proof.
  intros x y z Hlen (j1 & L1 & A1 & H1) (j2 & L2 & A2 & H2).
  destruct (lt_eq_lt_dec j1 j2) as [[Hc|Hc]|Hc].
  - exists j2. split; [lia|]. split.
    + intros i Hi. rewrite A1 by lia. apply A2. lia.
    + rewrite A1 by lia. auto.
  - subst j2. exists j1. split; [auto|]. split.
    + intros i Hi. rewrite A1 by lia. apply A2. lia.
    + lia.
  - exists j1. split; [auto|]. split.
    + intros i Hi. rewrite A1 by lia. apply A2. lia.
    + rewrite <- A2 by lia. auto.
Qed.

Lemma last_diff : forall x y : list Z, length x = length y ->
  x = y \/ exists j, (j < length x)%nat /\
    (forall i, (j < i < length x)%nat -> nth i x 0 = nth i y 0) /\ nth j x 0 <> nth j y 0.
Proof.
  induction x as [|a x IH]; intros [|b y] H; simpl in *; try discriminate; auto.
  destruct (IH y ltac:(lia)) as [->|(j & Hj & A & D)].
  - destruct (Z.eq_dec a b) as [->|Hab]; auto.
    right. exists O. split; [lia|]. split; auto. intros [|i] Hi; [lia|reflexivity].
  - right. exists (S j). split; [lia|]. split; auto.
    intros [|i] Hi; [lia|]. apply A. lia.
Qed.

Lemma colex_total : forall x y, length x = length y -> x = y \/ colex_lt x y \/ colex_lt y x.
Proof.
  intros x y H. destruct (last_diff x y H) as [->|(j & Hj & A & D)]; auto.
  right. destruct (Z.lt_total (nth j x 0) (nth j y 0)) as [Hc|[Hc|Hc]]; try lia.
  - left. exists j. auto.
  - right. exists j. split; [lia|]. split; [|auto]. intros i Hi. symmetry. apply A. lia.
Qed.

(* mirror image of [lex_no_between] *)
Lemma colex_no_between : forall (F : list Z -> Prop) (m : nat) (x y : list Z) (j : nat),
  (forall z, F z -> length z = m) -> length x = m -> length y = m ->
  (j < m)%nat -> (forall i, (j < i < m)%nat -> nth i x 0 = nth i y 0) -> nth j x 0 < nth j y 0 ->
  (forall z, F z -> nth j x 0 < nth j z 0 -> nth j z 0 < nth j y 0 -> False) ->
  (forall z i, F z -> (i < j)%nat -> (forall u, (i < u < m)%nat -> nth u x 0 = nth u z 0) -> nth i z 0 <= nth i x 0) ->
  (forall z i, F z -> (i < j)%nat -> (forall u, (i < u < m)%nat -> nth u y 0 = nth u z 0) -> nth i y 0 <= nth i z 0) ->
  forall z, F z -> colex_lt x z -> colex_lt z y -> False.
Proof.
  intros F m x y j HF Lx Ly Hj Axy Hlt Ha Hb Hc z Fz (i1 & L1 & A1 & H1) (i2 & L2 & A2 & H2).
  pose proof (HF z Fz) as Lz. rewrite Lx in *. rewrite Lz in *.
  destruct (lt_eq_lt_dec i1 j) as [[C1|C1]|C1].
  - assert (nth i1 z 0 <= nth i1 x 0); [|lia]. apply Hb; auto.
  - subst i1. destruct (lt_eq_lt_dec i2 j) as [[C2|C2]|C2].
    + assert (nth i2 y 0 <= nth i2 z 0); [|lia]. apply Hc; auto.
      intros u Hu. symmetry. apply A2. lia.
    + subst i2. eapply Ha; eauto.
    + rewrite <- A1 in H2 by lia. rewrite Axy in H2 by lia. lia.
  - destruct (lt_eq_lt_dec i2 i1) as [[C2|C2]|C2].
    + rewrite A2 in H1 by lia. rewrite <- Axy in H1 by lia. lia.
    + subst i2. rewrite <- Axy in H2 by lia. lia.
    + rewrite <- A1 in H2 by lia. rewrite Axy in H2 by lia. lia.
Qed.

(* ------------------------------------------------------------------ successor and maximum in colex order *)

Section Fixed.
Variable n : Z.
Variable k : nat.

Lemma colex_succ_in : forall x y p, in_comb n k x -> (p < k)%nat -> length y = k ->
  (forall i, (p < i < k)%nat -> nth i y 0 = nth i x 0) -> nth p y 0 = nth p x 0 + 1 ->
  (forall i, (i < p)%nat -> nth i y 0 = Z.of_nat i) ->
  ((S p < k)%nat -> nth p x 0 + 1 < nth (S p) x 0) -> (S p = k -> nth p x 0 + 1 < n) ->
  in_comb n k y.
Proof.
  intros x y p Hx Hp Hl Hafter Hat Hbefore Hroom Hroom'.
  pose proof (in_comb_lower n k x Hx) as Hlow. destruct Hx as (Hxl & Hxr & Hxi).
  assert (Hpn : nth p x 0 + 1 < n).
  { destruct (Nat.eq_dec (S p) k) as [E|E]; auto.
    specialize (Hroom ltac:(lia)). specialize (Hxr (S p) ltac:(lia)). lia. }
  split; [auto|]. split.
  - intros i Hi. destruct (lt_eq_lt_dec i p) as [[C|C]|C].
    + rewrite Hbefore by auto. specialize (Hlow p Hp). lia.
    + subst i. rewrite Hat. specialize (Hlow p Hp). lia.
    + rewrite Hafter by lia. auto.
  - intros i Hi. destruct (lt_eq_lt_dec (S i) p) as [[C|C]|C].
    + rewrite !Hbefore by lia. lia.
    + subst p. rewrite Hbefore by lia. rewrite Hat. specialize (Hlow (S i) Hp). lia.
    + destruct (Nat.eq_dec i p) as [->|Hne].
      * rewrite Hat. rewrite Hafter by lia. apply Hroom. lia.
      * rewrite !Hafter by lia. auto.
Qed.

Lemma colex_succ : forall x y p, in_comb n k x -> in_comb n k y -> (p < k)%nat ->
  (forall i, (p < i < k)%nat -> nth i y 0 = nth i x 0) -> nth p y 0 = nth p x 0 + 1 ->
  (forall i, (i < p)%nat -> nth i y 0 = Z.of_nat i) ->
  (forall i, (i < p)%nat -> nth (S i) x 0 <= nth i x 0 + 1) ->
  colex_lt x y /\ forall z, in_comb n k z -> colex_lt x z -> colex_lt z y -> False.
Proof.
  intros x y p Hx Hy Hp Hafter Hat Hbefore Htight.
  pose proof (in_comb_length n k x Hx) as Lx. pose proof (in_comb_length n k y Hy) as Ly.
  split.
  - exists p. split; [lia|]. split; [|lia]. intros i Hi. symmetry. apply Hafter. lia.
  - apply (colex_no_between (in_comb n k) k x y p); auto; try lia.
    + apply in_comb_length.
    + intros i Hi. symmetry. apply Hafter. lia.
    + intros z i Hz Hi A. destruct Hz as (_ & _ & Hzi). specialize (Hzi i ltac:(lia)).
      rewrite <- (A (S i)) in Hzi by lia. specialize (Htight i Hi). lia.
    + intros z i Hz Hi _. rewrite Hbefore by auto. apply (in_comb_lower n k z Hz). lia.
Qed.

Lemma colex_max : forall x, in_comb n k x -> (0 < k)%nat -> n - 1 <= nth (k - 1) x 0 ->
  (forall i, (S i < k)%nat -> nth (S i) x 0 <= nth i x 0 + 1) ->
  forall z, in_comb n k z -> ~ colex_lt x z.
Proof.
  intros x Hx Hk Hlast Htight z Hz (i & Hi & A & H).
  rewrite (in_comb_length n k x Hx) in *. destruct Hz as (_ & Hzr & Hzi).
  destruct (Nat.eq_dec (S i) k) as [E|E].
  - specialize (Hzr i Hi). replace (k - 1)%nat with i in Hlast by lia. lia.
  - specialize (Hzi i ltac:(lia)). rewrite <- (A (S i)) in Hzi by lia.
    specialize (Htight i ltac:(lia)). lia.
Qed.

(* ------------------------------------------------------------------ the loops *)

Lemma colex_loop_spec : forall cnt j d, length d = k -> (j + cnt + 1 = k)%nat ->
  (exists j0 d', colex_loop cnt j d = Some (d', Some j0) /\ (j <= j0)%nat /\ (S j0 < k)%nat /\
      nth j0 d 0 + 1 < nth (S j0) d 0 /\
      (forall i, (j <= i < j0)%nat -> nth (S i) d 0 <= nth i d 0 + 1) /\
      length d' = k /\ (forall i, (j <= i < j0)%nat -> nth i d' 0 = Z.of_nat i) /\
      nth j0 d' 0 = nth j0 d 0 + 1 /\
      (forall i, (i < j \/ j0 < i)%nat -> nth i d' 0 = nth i d 0))
  \/ (exists d', colex_loop cnt j d = Some (d', None) /\
      (forall i, (j <= i)%nat -> (S i < k)%nat -> nth (S i) d 0 <= nth i d 0 + 1) /\
      length d' = k /\ (forall i, (j <= i)%nat -> (S i < k)%nat -> nth i d' 0 = Z.of_nat i) /\
      (forall i, (i < j \/ k <= S i)%nat -> nth i d' 0 = nth i d 0)).
Proof.
  induction cnt as [|cnt IH]; intros j d Hl Hc.
  - right. exists d. split; [reflexivity|]. split; [intros; lia|]. split; [auto|].
    split; [intros; lia|auto].
  - cbn [colex_loop]. rewrite (get_nth d j) by lia. rewrite (get_nth d (S j)) by lia.
    destruct (Z.ltb_spec (nth j d 0) (nth (S j) d 0 - 1)) as [Hlt|Hge].
    + left. rewrite set_upd by lia. exists j, (upd d j (nth j d 0 + 1)).
      split; [reflexivity|]. split; [lia|]. split; [lia|]. split; [lia|].
      split; [intros; lia|]. split; [rewrite upd_length; auto|]. split; [intros; lia|].
      split; [apply nth_upd_eq; lia|]. intros i Hi. apply nth_upd_neq. lia.
    + rewrite set_upd by lia. set (d1 := upd d j (Z.of_nat j)).
      assert (Hd1 : forall i, i <> j -> nth i d1 0 = nth i d 0) by (intros; unfold d1; apply nth_upd_neq; lia).
      assert (Hd1j : nth j d1 0 = Z.of_nat j) by (unfold d1; apply nth_upd_eq; lia).
      destruct (IH (S j) d1) as [(j0 & d' & E & Hj0 & Hj0k & Hroom & Htight & Hl' & Hreset & Hat & Hrest)
                                |(d' & E & Htight & Hl' & Hreset & Hrest)];
        [unfold d1; rewrite upd_length; auto|lia| |].
      * left. exists j0, d'. split; [exact E|]. split; [lia|]. split; [lia|].
        split; [rewrite !Hd1 in Hroom by lia; auto|]. split; [|split; [auto|split; [|split]]].
        -- intros i Hi. destruct (Nat.eq_dec i j) as [->|Hne]; [lia|].
           specialize (Htight i ltac:(lia)). rewrite !Hd1 in Htight by lia. auto.
        -- intros i Hi. destruct (Nat.eq_dec i j) as [->|Hne].
           ++ rewrite Hrest by lia. auto.
           ++ apply Hreset. lia.
        -- rewrite Hat. rewrite Hd1 by lia. auto.
        -- intros i Hi. rewrite Hrest by lia. apply Hd1. lia.
      * right. exists d'. split; [exact E|]. split; [|split; [auto|split]].
        -- intros i Hi Hik. destruct (Nat.eq_dec i j) as [->|Hne]; [lia|].
           specialize (Htight i ltac:(lia) Hik). rewrite !Hd1 in Htight by lia. auto.
        -- intros i Hi Hik. destruct (Nat.eq_dec i j) as [->|Hne].
           ++ rewrite Hrest by lia. auto.
           ++ apply Hreset; lia.
        -- intros i Hi. rewrite Hrest by lia. apply Hd1. lia.
Qed.

Lemma colex_bump_eq : forall s d newj, (0 < k)%nat -> cx_k s = Z.of_nat k -> length d = k ->
  colex_bump s d newj =
    if nth (k - 1) d 0 >=? cx_n s - 1 then Some (colex_with s (cx_j s) d true, false)
    else Some (colex_with s newj (upd d (k - 1) (nth (k - 1) d 0 + 1)) false, true).
Proof.
  intros s d newj Hk Hsk Hl. unfold colex_bump. rewrite Hsk.
  replace (Z.of_nat k - 1) with (Z.of_nat (k - 1)) by lia.
  rewrite getZ_nat, get_nth by lia. destruct (_ >=? _); auto.
  rewrite setZ_nat, set_upd by lia. reflexivity.
Qed.

(* ------------------------------------------------------------------ live and exhausted states *)

(* jj = j + 1: the first jj entries are 0..jj-1 and entry jj, if any, is not jj *)
Definition colex_live (s : colex_st) : Prop :=
  (k = 0%nat /\ cx_k s = -1 /\ cx_data s = []) \/
  ((0 < k)%nat /\ cx_n s = n /\ cx_k s = Z.of_nat k /\ cx_done s = false /\ in_comb n k (cx_data s) /\
   exists jj, (jj <= k)%nat /\ cx_j s = Z.of_nat jj - 1 /\
     (forall i, (i < jj)%nat -> nth i (cx_data s) 0 = Z.of_nat i) /\
     ((0 < jj < k)%nat -> Z.of_nat jj < nth jj (cx_data s) 0)).

Definition colex_done (s : colex_st) : Prop :=
  cx_k s < -1 \/ (0 < cx_k s /\ cx_done s = true).

Lemma colex_done_step : forall s, colex_done s -> exists s', colex_next s = Some (s', false) /\ colex_done s'.
Proof.
  intros s [H|[H1 H2]]; unfold colex_next.
  - destruct (Z.leb_spec (cx_k s) 0); [|lia]. destruct (Z.eqb_spec (cx_k s - 1) (-1)); [lia|].
    eexists. split; [reflexivity|]. left. simpl. lia.
  - destruct (Z.leb_spec (cx_k s) 0); [lia|]. rewrite H2. exists s. split; auto. right. auto.
Qed.

Lemma colex_live_step : forall s, colex_live s ->
  in_comb n k (colex_value s) /\
  ((exists s', colex_next s = Some (s', true) /\ colex_live s' /\
      colex_lt (colex_value s) (colex_value s') /\
      forall z, in_comb n k z -> colex_lt (colex_value s) z -> colex_lt z (colex_value s') -> False)
   \/ (exists s', colex_next s = Some (s', false) /\ colex_done s' /\
         forall z, in_comb n k z -> ~ colex_lt (colex_value s) z)).
Proof.
  intros s [(Hk & Hsk & Hd) | (Hk & Hsn & Hsk & Hsd & HF & jj & Hjj & Hsj & Hfirst & Hnext)];
    unfold colex_value.
  - (* k = 0 *)
    rewrite Hd. split.
    + split; [simpl; lia|]. split; intros i Hi; lia.
    + right. unfold colex_next. rewrite Hsk. simpl. eexists. split; [reflexivity|]. split.
      * left. simpl. lia.
      * intros z _ (i & Hi & _). simpl in Hi. lia.
  - split; [exact HF|]. set (x := cx_data s) in *.
    pose proof (in_comb_length n k x HF) as Lx.
    pose proof (in_comb_lower n k x HF) as Hlow.
    unfold colex_next. rewrite Hsk, Hsd, Hsj. fold x.
    destruct (Z.leb_spec (Z.of_nat k) 0) as [C|_]; [lia|].
    (* what remains to be shown once the successor y at position p is identified *)
    assert (Hgoal : forall (y : list Z) (p jj' : nat) (s' : colex_st),
      cx_n s' = n -> cx_k s' = Z.of_nat k -> cx_done s' = false -> cx_data s' = y ->
      cx_j s' = Z.of_nat jj' - 1 -> (jj' = p) ->
      (p < k)%nat -> length y = k ->
      (forall i, (p < i < k)%nat -> nth i y 0 = nth i x 0) -> nth p y 0 = nth p x 0 + 1 ->
      (forall i, (i < p)%nat -> nth i y 0 = Z.of_nat i) ->
      ((S p < k)%nat -> nth p x 0 + 1 < nth (S p) x 0) -> (S p = k -> nth p x 0 + 1 < n) ->
      (forall i, (i < p)%nat -> nth (S i) x 0 <= nth i x 0 + 1) ->
      colex_live s' /\ colex_lt x (cx_data s') /\
      forall z, in_comb n k z -> colex_lt x z -> colex_lt z (cx_data s') -> False).
    { intros y p jj' s' E1 E2 E3 E4 E5 E6 Hp Hl Hafter Hat Hbefore Hroom Hroom' Htight.
      assert (Hy : in_comb n k y) by (eapply colex_succ_in; eauto).
      destruct (colex_succ x y p HF Hy Hp Hafter Hat Hbefore Htight) as [H1 H2].
      rewrite E4. split; [|split; auto].
      right. split; [auto|]. split; [auto|]. split; [auto|]. split; [auto|]. rewrite E4.
      split; [auto|]. exists jj'. subst jj'. split; [lia|]. split; [auto|]. split; [auto|].
      intros Hpp. rewrite Hat. specialize (Hlow p Hp). lia. }
    destruct (Z.geb_spec (Z.of_nat jj - 1) (Z.of_nat k - 1)) as [Hge|Hlt].
    + (* j = k-1: the state is 0..k-1 *)
      assert (jj = k) by lia. subst jj.
      rewrite (colex_bump_eq s x _ Hk Hsk Lx). rewrite Hsn.
      destruct (Z.geb_spec (nth (k - 1) x 0) (n - 1)) as [Hlast|Hlast].
      * right. eexists. split; [reflexivity|]. split.
        -- right. simpl. split; [lia|auto].
        -- apply colex_max; auto. intros i Hi. rewrite !Hfirst by lia. lia.
      * left. eexists. split; [reflexivity|].
        apply (Hgoal (upd x (k - 1) (nth (k - 1) x 0 + 1)) (k - 1)%nat (k - 1)%nat); auto; try lia.
        -- simpl. lia.
        -- rewrite upd_length. auto.
        -- apply nth_upd_eq. lia.
        -- intros i Hi. rewrite nth_upd_neq by lia. apply Hfirst. lia.
        -- intros i Hi. rewrite !Hfirst by lia. lia.
    + destruct (Z.eqb_spec (Z.of_nat jj - 1) (-1)) as [Hj0|Hj0]; cbn [negb].
      * (* j = -1: scan for the first position that can be increased *)
        assert (jj = 0%nat) by lia. subst jj.
        replace (Z.to_nat (Z.of_nat k - 1)) with (k - 1)%nat by lia.
        destruct (colex_loop_spec (k - 1) 0 x Lx ltac:(lia))
          as [(j0 & d' & E & _ & Hj0k & Hroom & Htight & Hl' & Hreset & Hat & Hrest)
             |(d' & E & Htight & Hl' & Hreset & Hrest)]; rewrite E.
        -- left. eexists. split; [reflexivity|].
           apply (Hgoal d' j0 j0); auto; try lia.
           ++ intros i Hi. apply Hrest. lia.
           ++ intros i Hi. apply Hreset. lia.
           ++ intros i Hi. apply Htight. lia.
        -- rewrite (colex_bump_eq s d' _ Hk Hsk Hl'). rewrite Hsn.
           rewrite (Hrest (k - 1)%nat) by lia.
           destruct (Z.geb_spec (nth (k - 1) x 0) (n - 1)) as [Hlast|Hlast].
           ++ right. eexists. split; [reflexivity|]. split.
              ** right. simpl. split; [lia|auto].
              ** apply colex_max; auto. intros i Hi. apply Htight; lia.
           ++ left. eexists. split; [reflexivity|].
              apply (Hgoal (upd d' (k - 1) (nth (k - 1) x 0 + 1)) (k - 1)%nat (k - 1)%nat); auto; try lia.
              ** simpl. lia.
              ** rewrite upd_length. auto.
              ** apply nth_upd_eq. lia.
              ** intros i Hi. rewrite nth_upd_neq by lia. apply Hreset; lia.
              ** intros i Hi. apply Htight; lia.
      * (* 0 <= j < k-1: position j can be increased at once *)
        replace (Z.of_nat jj - 1) with (Z.of_nat (jj - 1)) by lia.
        rewrite getZ_nat, get_nth by lia. rewrite setZ_nat, set_upd by lia.
        left. eexists. split; [reflexivity|].
        apply (Hgoal (upd x (jj - 1) (nth (jj - 1) x 0 + 1)) (jj - 1)%nat (jj - 1)%nat); auto; try lia.
        -- rewrite upd_length. auto.
        -- intros i Hi. apply nth_upd_neq. lia.
        -- apply nth_upd_eq. lia.
        -- intros i Hi. rewrite nth_upd_neq by lia. apply Hfirst. lia.
        -- intros Hp. replace (S (jj - 1)) with jj by lia. rewrite Hfirst by lia.
           specialize (Hnext ltac:(lia)). lia.
        -- intros i Hi. rewrite !Hfirst by lia. lia.
Qed.

End Fixed.

Theorem colex_enumerates : forall n k,
  exists fuel l e, drain colex_next colex_value fuel (colex_init n k) = Some (l, e) /\
    StronglySorted colex_lt l /\ (forall x, In x l <-> in_comb n k x) /\ exhausted colex_next e.
Proof.
  intros n k.
  apply (enumerates_sorted colex_st (list Z) colex_next colex_value colex_lt (in_comb n k)
           (colex_live n k) colex_done).
  - intros x _. apply colex_irrefl.
  - intros x y z [Hx _] [Hy _] _. apply colex_trans. lia.
  - intros x y [Hx _] [Hy _]. apply colex_total. lia.
  - apply in_comb_finite.
  - apply colex_live_step.
  - apply colex_done_step.
  - (* the first call *)
    unfold colex_init, colex_next. cbn [cx_n cx_k cx_j cx_data cx_done].
    destruct k as [|k].
    + left. simpl. eexists. split; [reflexivity|]. split.
      * left. auto.
      * intros z [Hz _] (i & Hi & _). rewrite Hz in Hi. lia.
    + destruct (Z.leb_spec (Z.of_nat (S k)) 0) as [C|_]; [lia|].
      destruct (Z.geb_spec (Z.of_nat (S k)) (Z.of_nat (S k) - 1)) as [_|C]; [|lia].
      pose proof (comb_data0_length (S k)) as Hlen.
      rewrite colex_bump_eq with (k := S k); [|lia|reflexivity|exact Hlen].
      cbn [cx_n cx_j]. replace (S k - 1)%nat with k by lia.
      rewrite comb_data0_nth by lia. rewrite Nat.eqb_refl.
      destruct (Z.geb_spec (Z.of_nat k - 1) (n - 1)) as [Hbig|Hsmall].
      * (* k > n *)
        right. eexists. split; [reflexivity|]. split.
        -- right. simpl. split; [lia|auto].
        -- intros z Hz. pose proof (in_comb_k_le_n n (S k) z Hz ltac:(lia)). lia.
      * left. eexists. split; [reflexivity|].
        set (y := upd (comb_data0 (S k)) k (Z.of_nat k - 1 + 1)).
        assert (Hy : forall i, (i < S k)%nat -> nth i y 0 = Z.of_nat i).
        { intros i Hi. unfold y. destruct (Nat.eq_dec i k) as [->|Hne].
          - rewrite nth_upd_eq by lia. lia.
          - rewrite nth_upd_neq by lia. rewrite comb_data0_nth by lia.
            destruct (Nat.eqb_spec i k); [lia|auto]. }
        assert (Ly : length y = S k) by (unfold y; rewrite upd_length; auto).
        assert (HF : in_comb n (S k) y).
        { split; [auto|]. split.
          - intros i Hi. rewrite Hy by auto. lia.
          - intros i Hi. rewrite !Hy by lia. lia. }
        split.
        -- right. cbn [cx_n cx_k cx_j cx_data cx_done colex_with]. fold y.
           split; [lia|]. split; [auto|]. split; [auto|]. split; [auto|]. split; [auto|].
           exists (S k). split; [lia|]. split; [lia|]. split; [auto|]. intros; lia.
        -- intros z Hz (i & Hi & _ & H). unfold colex_value in H.
           cbn [cx_data colex_with] in H. fold y in H.
           rewrite (in_comb_length _ _ _ Hz) in Hi. rewrite Hy in H by auto.
           pose proof (in_comb_lower n (S k) z Hz i Hi). lia.
Qed.

Theorem colex_enumerates_exact : forall n k,
  exists l e, drain colex_next colex_value (S (length l)) (colex_init n k) = Some (l, e) /\
    (StronglySorted colex_lt l /\ NoDup l /\ (forall x, In x l <-> in_comb n k x) /\
     exhausted colex_next e).
Proof.
  intros n k. apply drain_exact_fuel with (Q := fun l e => _).
  destruct (colex_enumerates n k) as (fuel & l & e & H1 & H2 & H3 & H4).
  exists fuel, l, e. split; [exact H1|]. split; [exact H2|].
  split; [apply (strict_sorted_nodup colex_lt colex_irrefl); auto|]. split; [exact H3|exact H4].
Qed.

(* k > n: nothing is produced *)
Corollary colex_k_gt_n : forall n k, 0 <= n < Z.of_nat k ->
  exists e, drain colex_next colex_value 1 (colex_init n k) = Some ([], e) /\ exhausted colex_next e.
Proof.
  intros n k Hk. destruct (colex_enumerates_exact n k) as (l & e & H1 & _ & _ & H3 & H4).
  destruct l as [|x l].
  - exists e. auto.
  - exfalso. assert (Hx : in_comb n k x) by (apply H3; left; auto).
    pose proof (in_comb_k_le_n n k x Hx ltac:(lia)). lia.
Qed.
