(* itertools.MultisetCombinations(m, k) (as repaired in /repo: direct successor rule): for all
   multiplicity vectors m with non-negative entries and all k >= 0, the frequency vectors
   returned by FreqValue() are exactly the vectors v of length len(m) with 0 <= v[i] <= m[i] and
   sum k, each once, in colexicographic order; k > sum(m) yields nothing; exhaustion is absorbing. *)
From Coq Require Import List ZArith Lia Arith Bool Sorted.
From Mamba Require Import Iter.Model Iter.Enum Iter.Lex Iter.Colex Iter.PermUtil Iter.PermEnum Iter.IntPartOrder Iter.IntPart Iter.PartBlocks.
Import ListNotations.
Open Scope Z_scope.

(* ------------------------------------------------------------------ prefix sums *)

Definition psum (x : list Z) (i : nat) : Z := zsum (firstn i x).

Lemma psum_0 : forall x, psum x 0 = 0.
Proof. reflexivity. Qed.

Lemma psum_S : forall x i, (i < length x)%nat -> psum x (S i) = psum x i + nth i x 0.
Proof. intros. apply zsum_firstn_S. auto. Qed.

Lemma psum_upd_ge : forall x i j v, (i <= j)%nat -> psum (upd x j v) i = psum x i.
Proof. intros. unfold psum. rewrite firstn_upd_ge by auto. reflexivity. Qed.

Lemma psum_all : forall x, psum x (length x) = zsum x.
Proof. intros. unfold psum. rewrite firstn_all. reflexivity. Qed.

Lemma psum_range_ext : forall x y i j, (i <= j)%nat -> (j <= length x)%nat -> (j <= length y)%nat ->
  (forall t, (i <= t < j)%nat -> nth t x 0 = nth t y 0) -> psum x j - psum x i = psum y j - psum y i.
Proof.
  intros x y i. induction j as [|j IH]; intros Hij Hx Hy H.
  - assert (i = O) by lia. subst. lia.
  - destruct (Nat.eq_dec i (S j)) as [->|]; [lia|].
    rewrite !psum_S by lia. rewrite (H j) by lia.
    specialize (IH ltac:(lia) ltac:(lia) ltac:(lia) ltac:(intros; apply H; lia)). lia.
Qed.

Lemma psum_range_le : forall x y i j, (i <= j)%nat -> (j <= length x)%nat -> (j <= length y)%nat ->
  (forall t, (i <= t < j)%nat -> nth t x 0 <= nth t y 0) -> psum x j - psum x i <= psum y j - psum y i.
Proof.
  intros x y i. induction j as [|j IH]; intros Hij Hx Hy H.
  - assert (i = O) by lia. subst. lia.
  - destruct (Nat.eq_dec i (S j)) as [->|]; [lia|].
    rewrite !psum_S by lia. specialize (H j ltac:(lia)) as Hj.
    specialize (IH ltac:(lia) ltac:(lia) ltac:(lia) ltac:(intros; apply H; lia)). lia.
Qed.

Lemma psum_range_zero : forall x i j, (i <= j)%nat -> (j <= length x)%nat ->
  (forall t, (i <= t < j)%nat -> nth t x 0 = 0) -> psum x j = psum x i.
Proof.
  intros x i. induction j as [|j IH]; intros Hij Hx H.
  - assert (i = O) by lia. subst. lia.
  - destruct (Nat.eq_dec i (S j)) as [->|]; [lia|].
    rewrite psum_S by lia. rewrite (H j) by lia. rewrite IH by (try lia; intros; apply H; lia). lia.
Qed.

Lemma psum_mono : forall x i j, (i <= j)%nat -> (j <= length x)%nat ->
  (forall t, 0 <= nth t x 0) -> psum x i <= psum x j.
Proof.
  intros x i. induction j as [|j IH]; intros Hij Hx H.
  - assert (i = O) by lia. subst. lia.
  - destruct (Nat.eq_dec i (S j)) as [->|]; [lia|].
    rewrite psum_S by lia. pose proof (H j). specialize (IH ltac:(lia) ltac:(lia) H). lia.
Qed.

Section Fixed.
Variable m : list Z.
Variable k : Z.
Hypothesis m_nonneg : forall i, 0 <= nth i m 0.
Hypothesis k_nonneg : 0 <= k.
Let L := length m.

Definition mc_F (x : list Z) : Prop :=
  length x = L /\ (forall i, (i < L)%nat -> 0 <= nth i x 0 <= nth i m 0) /\ zsum x = k.

(* "as far forward as possible" on the positions i .. p *)
Definition greedy_at (i : nat) (y : list Z) (p : nat) : Prop :=
  (forall t, (i <= t < p)%nat -> nth t y 0 = nth t m 0) \/ nth p y 0 = 0.

(* ------------------------------------------------------------------ the loops *)

Lemma mc_refill_spec : forall cnt i x st, 0 <= x -> (i + cnt <= L)%nat -> length st = L ->
  x <= psum m (i + cnt) - psum m i ->
  exists st', mc_refill cnt i x m st = Some st' /\ length st' = L /\
    (forall p, (p < i \/ i + cnt <= p)%nat -> nth p st' 0 = nth p st 0) /\
    (forall p, (i <= p < i + cnt)%nat -> 0 <= nth p st' 0 <= nth p m 0) /\
    psum st' (i + cnt) = psum st i + x /\
    (x = 0 -> forall p, (i <= p < i + cnt)%nat -> nth p st' 0 = 0) /\
    (forall p, (i <= p < i + cnt)%nat -> greedy_at i st' p).
Proof.
  induction cnt as [|c IH]; intros i x st Hx Hic Hlen Hcap.
  - rewrite Nat.add_0_r in *. exists st. split; [reflexivity|]. split; auto.
    split; [auto|]. split; [intros; lia|]. split; [lia|]. split; intros; lia.
  - replace (i + S c)%nat with (S i + c)%nat in * by lia.
    cbn [mc_refill]. rewrite (get_nth m i) by (fold L; lia).
    pose proof (psum_S m i ltac:(fold L; lia)) as HmS.
    pose proof (m_nonneg i) as Hmi.
    destruct (Z.gtb_spec x (nth i m 0)) as [Hgt|Hle].
    + rewrite set_upd by lia. set (st1 := upd st i (nth i m 0)).
      destruct (IH (S i) (x - nth i m 0) st1) as (st' & E & Hl' & Hout & Hin & Hsum & Hzero & Hgr);
        try lia.
      { unfold st1. rewrite upd_length. auto. }
      exists st'. split; [exact E|]. split; [auto|].
      assert (Hi' : nth i st' 0 = nth i m 0).
      { rewrite Hout by lia. unfold st1. apply nth_upd_eq. lia. }
      split; [|split; [|split; [|split]]].
      * intros p Hp. rewrite Hout by lia. unfold st1. apply nth_upd_neq. lia.
      * intros p Hp. destruct (Nat.eq_dec p i) as [->|]; [rewrite Hi'; lia|]. apply Hin. lia.
      * rewrite Hsum. unfold st1. rewrite psum_S by (rewrite upd_length; lia).
        rewrite psum_upd_ge by lia. rewrite nth_upd_eq by lia. lia.
      * intros; lia.
      * intros p Hp. destruct (Nat.eq_dec p i) as [->|]; [left; intros; lia|].
        destruct (Hgr p ltac:(lia)) as [H|H]; [left|right; auto].
        intros t Ht. destruct (Nat.eq_dec t i) as [->|]; auto. apply H. lia.
    + rewrite set_upd by lia. set (st1 := upd st i x).
      destruct (IH (S i) 0 st1) as (st' & E & Hl' & Hout & Hin & Hsum & Hzero & Hgr); try lia.
      { unfold st1. rewrite upd_length. auto. }
      { pose proof (psum_mono m (S i) (S i + c) ltac:(lia) ltac:(fold L; lia) m_nonneg). lia. }
      exists st'. split; [exact E|]. split; [auto|].
      assert (Hi' : nth i st' 0 = x).
      { rewrite Hout by lia. unfold st1. apply nth_upd_eq. lia. }
      split; [|split; [|split; [|split]]].
      * intros p Hp. rewrite Hout by lia. unfold st1. apply nth_upd_neq. lia.
      * intros p Hp. destruct (Nat.eq_dec p i) as [->|]; [rewrite Hi'; lia|]. apply Hin. lia.
      * rewrite Hsum. unfold st1. rewrite psum_S by (rewrite upd_length; lia).
        rewrite psum_upd_ge by lia. rewrite nth_upd_eq by lia. lia.
      * intros H0 p Hp. destruct (Nat.eq_dec p i) as [->|]; [lia|]. apply Hzero; auto. lia.
      * intros p Hp. destruct (Nat.eq_dec p i) as [->|]; [left; intros; lia|].
        right. apply Hzero; auto. lia.
Qed.

Lemma mc_fill_spec : forall cnt j x st, 0 <= x -> (j + cnt = L)%nat -> length st = L ->
  (forall p, (j <= p < L)%nat -> nth p st 0 = 0) ->
  exists st' x', mc_fill cnt j x m st = Some (st', x') /\ length st' = L /\
    (forall p, (p < j)%nat -> nth p st' 0 = nth p st 0) /\
    ((0 < x' /\ psum m L - psum m j < x) \/
     (x' = 0 /\ x <= psum m L - psum m j /\
      (forall p, (j <= p < L)%nat -> 0 <= nth p st' 0 <= nth p m 0) /\
      psum st' L = psum st j + x /\
      (x = 0 -> forall p, (j <= p < L)%nat -> nth p st' 0 = 0) /\
      (forall p, (j <= p < L)%nat -> greedy_at j st' p))).
Proof.
  induction cnt as [|c IH]; intros j x st Hx Hjc Hlen Hz.
  - assert (j = L) by lia. subst j. exists st, x. split; [reflexivity|]. split; auto. split; auto.
    destruct (Z_lt_dec 0 x); [left; lia|right].
    split; [lia|]. split; [lia|]. split; [intros; lia|]. split; [lia|]. split; intros; lia.
  - cbn [mc_fill].
    pose proof (psum_S m j ltac:(fold L; lia)) as HmS.
    pose proof (m_nonneg j) as Hmj.
    pose proof (psum_mono m (S j) L ltac:(lia) ltac:(fold L; lia) m_nonneg) as Hmono.
    destruct (Z.gtb_spec x 0) as [Hpos|Hnpos].
    + rewrite (get_nth m j) by (fold L; lia).
      destruct (Z.gtb_spec x (nth j m 0)) as [Hgt|Hle].
      * rewrite set_upd by lia. set (st1 := upd st j (nth j m 0)).
        destruct (IH (S j) (x - nth j m 0) st1) as (st' & x' & E & Hl' & Hpre & Hres); try lia.
        { unfold st1. rewrite upd_length. auto. }
        { intros p Hp. unfold st1. rewrite nth_upd_neq by lia. apply Hz. lia. }
        exists st', x'. split; [exact E|]. split; [auto|].
        assert (Hj' : nth j st' 0 = nth j m 0).
        { rewrite Hpre by lia. unfold st1. apply nth_upd_eq. lia. }
        split; [intros p Hp; rewrite Hpre by lia; unfold st1; apply nth_upd_neq; lia|].
        destruct Hres as [[H1 H2]|(H1 & H2 & Hin & Hsum & Hzero & Hgr)]; [left; lia|right].
        split; [auto|]. split; [lia|]. split; [|split; [|split]].
        -- intros p Hp. destruct (Nat.eq_dec p j) as [->|]; [rewrite Hj'; lia|]. apply Hin. lia.
        -- rewrite Hsum. unfold st1. rewrite psum_S by (rewrite upd_length; lia).
           rewrite psum_upd_ge by lia. rewrite nth_upd_eq by lia. lia.
        -- intros; lia.
        -- intros p Hp. destruct (Nat.eq_dec p j) as [->|]; [left; intros; lia|].
           destruct (Hgr p ltac:(lia)) as [H|H]; [left|right; auto].
           intros t Ht. destruct (Nat.eq_dec t j) as [->|]; auto. apply H. lia.
      * rewrite set_upd by lia. set (st1 := upd st j x).
        destruct (IH (S j) 0 st1) as (st' & x' & E & Hl' & Hpre & Hres); try lia.
        { unfold st1. rewrite upd_length. auto. }
        { intros p Hp. unfold st1. rewrite nth_upd_neq by lia. apply Hz. lia. }
        exists st', x'. split; [exact E|]. split; [auto|].
        assert (Hj' : nth j st' 0 = x).
        { rewrite Hpre by lia. unfold st1. apply nth_upd_eq. lia. }
        split; [intros p Hp; rewrite Hpre by lia; unfold st1; apply nth_upd_neq; lia|].
        destruct Hres as [[H1 H2]|(H1 & H2 & Hin & Hsum & Hzero & Hgr)]; [lia|right].
        split; [auto|]. split; [lia|]. split; [|split; [|split]].
        -- intros p Hp. destruct (Nat.eq_dec p j) as [->|]; [rewrite Hj'; lia|]. apply Hin. lia.
        -- rewrite Hsum. unfold st1. rewrite psum_S by (rewrite upd_length; lia).
           rewrite psum_upd_ge by lia. rewrite nth_upd_eq by lia. lia.
        -- intros; lia.
        -- intros p Hp. destruct (Nat.eq_dec p j) as [->|]; [left; intros; lia|].
           right. apply Hzero; auto. lia.
    + exists st, x. split; [reflexivity|]. split; auto. split; auto. right.
      assert (x = 0) by lia. subst x.
      split; [auto|]. split; [lia|]. split; [|split; [|split]].
      * intros p Hp. rewrite Hz by lia. pose proof (m_nonneg p). lia.
      * rewrite (psum_range_zero st j L) by (auto; lia). lia.
      * intros _ p Hp. apply Hz. lia.
      * intros p Hp. right. apply Hz. lia.
Qed.

(* the scan condition of Next at position t *)
Definition mc_can (st : list Z) (t : nat) : Prop := 0 < psum st t /\ nth t st 0 < nth t m 0.

Lemma mc_scan_found : forall cnt j st j0, (j + cnt = L)%nat -> length st = L -> (j <= j0 < L)%nat ->
  mc_can st j0 -> (forall t, (j <= t < j0)%nat -> ~ mc_can st t) ->
  mc_scan cnt j (psum st j) m st =
    (st1 <- set st j0 (nth j0 st 0 + 1) ;; st2 <- mc_refill j0 0 (psum st j0 - 1) m st1 ;; Some (Some st2)).
Proof.
  induction cnt as [|c IH]; intros j st j0 Hjc Hlen Hj0 Hcan Hnot; [lia|].
  cbn [mc_scan]. rewrite (get_nth st j), (get_nth m j) by (fold L; lia).
  destruct (Nat.eq_dec j j0) as [->|Hne].
  - destruct Hcan as [H1 H2].
    destruct (Z.gtb_spec (psum st j0) 0); [|lia]. destruct (Z.ltb_spec (nth j0 st 0) (nth j0 m 0)); [|lia].
    reflexivity.
  - assert (Hn : ~ mc_can st j) by (apply Hnot; lia).
    assert (E : (psum st j >? 0) && (nth j st 0 <? nth j m 0) = false).
    { destruct (Z.gtb_spec (psum st j) 0); auto. destruct (Z.ltb_spec (nth j st 0) (nth j m 0)); auto.
      exfalso. apply Hn. split; lia. }
    rewrite E. rewrite <- psum_S by lia. apply IH; auto; try lia. intros t Ht. apply Hnot. lia.
Qed.

Lemma mc_scan_none : forall cnt j st, (j + cnt = L)%nat -> length st = L ->
  (forall t, (j <= t < L)%nat -> ~ mc_can st t) ->
  mc_scan cnt j (psum st j) m st = Some None.
Proof.
  induction cnt as [|c IH]; intros j st Hjc Hlen Hnot; [reflexivity|].
  cbn [mc_scan]. rewrite (get_nth st j), (get_nth m j) by (fold L; lia).
  assert (Hn : ~ mc_can st j) by (apply Hnot; lia).
  assert (E : (psum st j >? 0) && (nth j st 0 <? nth j m 0) = false).
  { destruct (Z.gtb_spec (psum st j) 0); auto. destruct (Z.ltb_spec (nth j st 0) (nth j m 0)); auto.
    exfalso. apply Hn. split; lia. }
  rewrite E. rewrite <- psum_S by lia. apply IH; auto; try lia. intros t Ht. apply Hnot. lia.
Qed.

Lemma mc_first_can : forall (st : list Z) c j, (j + c = L)%nat ->
  (forall t, (j <= t < L)%nat -> ~ mc_can st t) \/
  exists j0, (j <= j0 < L)%nat /\ mc_can st j0 /\ forall t, (j <= t < j0)%nat -> ~ mc_can st t.
Proof.
  intros st. induction c as [|c IH]; intros j Hj.
  - left. intros; lia.
  - destruct (Z_lt_dec 0 (psum st j)) as [H1|H1]; [destruct (Z_lt_dec (nth j st 0) (nth j m 0)) as [H2|H2]|].
    + right. exists j. split; [lia|]. split; [split; auto|]. intros; lia.
    + destruct (IH (S j) ltac:(lia)) as [H|(j0 & Hj0 & Hc & Hn)].
      * left. intros t Ht. destruct (Nat.eq_dec t j) as [->|]; [intros [_ ?]; lia|]. apply H. lia.
      * right. exists j0. split; [lia|]. split; auto. intros t Ht.
        destruct (Nat.eq_dec t j) as [->|]; [intros [_ ?]; lia|]. apply Hn. lia.
    + destruct (IH (S j) ltac:(lia)) as [H|(j0 & Hj0 & Hc & Hn)].
      * left. intros t Ht. destruct (Nat.eq_dec t j) as [->|]; [intros [? _]; lia|]. apply H. lia.
      * right. exists j0. split; [lia|]. split; auto. intros t Ht.
        destruct (Nat.eq_dec t j) as [->|]; [intros [? _]; lia|]. apply Hn. lia.
Qed.

(* ------------------------------------------------------------------ order facts *)

Lemma mc_F_length : forall z, mc_F z -> length z = L.
Proof. intros z [H _]. exact H. Qed.

Lemma mc_F_psum_nonneg : forall z i, mc_F z -> (i <= L)%nat -> 0 <= psum z i.
Proof.
  intros z i (Hl & Hb & _). induction i as [|i IH]; intros Hi; [unfold psum; simpl; lia|].
  rewrite psum_S by lia. specialize (IH ltac:(lia)). specialize (Hb i ltac:(lia)). lia.
Qed.

Lemma mc_psum_agree_above : forall x z i, mc_F x -> mc_F z -> (i < L)%nat ->
  (forall u, (i < u < L)%nat -> nth u x 0 = nth u z 0) -> psum x (S i) = psum z (S i).
Proof.
  intros x z i (Hx & _ & Sx) (Hz & _ & Sz) Hi A.
  pose proof (psum_range_ext x z (S i) L ltac:(lia) ltac:(lia) ltac:(lia) ltac:(intros; apply A; lia)) as H.
  assert (psum x L = zsum x) by (rewrite <- Hx; apply psum_all).
  assert (psum z L = zsum z) by (rewrite <- Hz; apply psum_all). lia.
Qed.

(* where the scan condition fails, no member with the same upper part is larger at i *)
Lemma mc_upper : forall st z i, mc_F st -> mc_F z -> (i < L)%nat ->
  (forall u, (i < u < L)%nat -> nth u st 0 = nth u z 0) -> ~ mc_can st i -> nth i z 0 <= nth i st 0.
Proof.
  intros st z i Fs Fz Hi A Hn.
  pose proof (mc_psum_agree_above st z i Fs Fz Hi A) as HS.
  pose proof Fs as (Hls & Hbs & _). pose proof Fz as (Hlz & Hbz & _).
  rewrite !psum_S in HS by lia.
  destruct (Z_lt_dec (nth i st 0) (nth i m 0)) as [Hlt|Hge].
  - assert (psum st i <= 0) by (destruct (Z_lt_dec 0 (psum st i)); [exfalso; apply Hn; split; auto|lia]).
    pose proof (mc_F_psum_nonneg z i Fz ltac:(lia)). pose proof (mc_F_psum_nonneg st i Fs ltac:(lia)). lia.
  - specialize (Hbz i Hi). lia.
Qed.

(* a greedy position is minimal among the members with the same upper part *)
Lemma mc_lower : forall y z i, mc_F y -> mc_F z -> (i < L)%nat ->
  (forall u, (i < u < L)%nat -> nth u y 0 = nth u z 0) -> greedy_at O y i -> nth i y 0 <= nth i z 0.
Proof.
  intros y z i Fy Fz Hi A G.
  pose proof (mc_psum_agree_above y z i Fy Fz Hi A) as HS.
  pose proof Fy as (Hly & Hby & _). pose proof Fz as (Hlz & Hbz & _).
  rewrite !psum_S in HS by lia.
  destruct G as [G|G].
  - assert (psum z i <= psum y i); [|lia].
    pose proof (psum_range_le z y O i ltac:(lia) ltac:(lia) ltac:(lia)) as H.
    rewrite !psum_0 in H. cut (psum z i - 0 <= psum y i - 0); [lia|]. apply H.
    intros t Ht. rewrite G by lia. apply Hbz. lia.
  - rewrite G. apply Hbz. auto.
Qed.

(* ------------------------------------------------------------------ states *)

Definition mc_mk (st : list Z) (done : bool) : mc_st :=
  {| mc_state := Some st; mc_m := m; mc_k := k; mc_done := done |}.

Definition mc_live (s : mc_st) : Prop := exists st, s = mc_mk st false /\ mc_F st.
Definition mc_fin (s : mc_st) : Prop := mc_done s = true.

Lemma mc_fin_step : forall s, mc_fin s -> exists s', mcomb_next s = Some (s', false) /\ mc_fin s'.
Proof. intros s H. exists s. unfold mcomb_next. rewrite H. auto. Qed.

Lemma mc_live_step : forall s, mc_live s ->
  mc_F (mcomb_freq s) /\
  ((exists s', mcomb_next s = Some (s', true) /\ mc_live s' /\
      colex_lt (mcomb_freq s) (mcomb_freq s') /\
      forall z, mc_F z -> colex_lt (mcomb_freq s) z -> colex_lt z (mcomb_freq s') -> False)
   \/ (exists s', mcomb_next s = Some (s', false) /\ mc_fin s' /\
         forall z, mc_F z -> ~ colex_lt (mcomb_freq s) z)).
Proof.
  intros s (st & -> & Fs). unfold mcomb_freq, mc_mk. cbn [mc_state].
  split; [exact Fs|].
  pose proof Fs as (Hlen & Hb & Hsum).
  unfold mcomb_next, mc_with. cbn [mc_done mc_state mc_m mc_k]. fold L.
  change (mc_scan L 0 0 m st) with (mc_scan L 0 (psum st O) m st).
  destruct (mc_first_can st L O ltac:(lia)) as [Hnone|(j0 & Hj0 & Hcan & Hnot)].
  - right. rewrite mc_scan_none by (auto; lia).
    eexists. split; [reflexivity|]. split; [reflexivity|].
    intros z Fz (j & Hj & A & Hlt). rewrite Hlen in *.
    pose proof (mc_upper st z j Fs Fz Hj A (Hnone j ltac:(lia))). lia.
  - left. rewrite (mc_scan_found L O st j0) by (auto; lia).
    rewrite set_upd by lia. set (st1 := upd st j0 (nth j0 st 0 + 1)).
    destruct Hcan as [Hpos Hroom].
    destruct (mc_refill_spec j0 O (psum st j0 - 1) st1) as (y & E & Hly & Hout & Hin & Hps & _ & Hgr); try lia.
    { unfold st1. rewrite upd_length. auto. }
    { simpl. pose proof (psum_range_le st m O j0 ltac:(lia) ltac:(lia) ltac:(fold L; lia)) as H.
      specialize (H ltac:(intros t Ht; apply Hb; lia)). rewrite ?psum_0 in *. lia. }
    rewrite E. simpl in Hout, Hin, Hps, Hgr.
    assert (Hy0 : nth j0 y 0 = nth j0 st 0 + 1).
    { rewrite Hout by lia. unfold st1. apply nth_upd_eq. lia. }
    assert (Hyabove : forall u, (j0 < u < L)%nat -> nth u y 0 = nth u st 0).
    { intros u Hu. rewrite Hout by lia. unfold st1. apply nth_upd_neq. lia. }
    assert (Hpsy : psum y j0 = psum st j0 - 1).
    { rewrite Hps. rewrite ?psum_0. lia. }
    assert (Fy : mc_F y).
    { split; [auto|]. split.
      - intros i Hi. destruct (lt_eq_lt_dec i j0) as [[C|C]|C].
        + apply Hin. lia.
        + subst i. rewrite Hy0. specialize (Hb j0 Hi). lia.
        + rewrite Hyabove by lia. apply Hb. auto.
      - rewrite <- psum_all, Hly.
        pose proof (psum_range_ext y st (S j0) L ltac:(lia) ltac:(lia) ltac:(lia)
                      ltac:(intros; apply Hyabove; lia)) as H.
        rewrite !psum_S in H by lia. rewrite <- Hsum, <- psum_all, Hlen. lia. }
    eexists. split; [reflexivity|]. cbn [mc_state].
    split; [exists y; split; [reflexivity|exact Fy]|].
    split.
    + exists j0. split; [lia|]. split; [|lia]. intros i Hi. rewrite Hlen in Hi. symmetry. apply Hyabove. lia.
    + apply (colex_no_between mc_F L st y j0); auto; try lia.
      * exact mc_F_length.
      * intros i Hi. symmetry. apply Hyabove. lia.
      * intros z i Fz Hi A. apply (mc_upper st z i Fs Fz); auto; try lia. apply Hnot. lia.
      * intros z i Fz Hi A. apply (mc_lower y z i Fy Fz); auto; try lia. apply Hgr. lia.
Qed.

Lemma mc_finite : exists all : list (list Z), forall z, mc_F z -> In z all.
Proof.
  exists (all_lists L (Z.to_nat k + 1)). intros z (Hl & Hb & Hs). apply all_lists_complete; auto.
  intros i Hi. pose proof (Hb i Hi).
  assert (Hnn : forall v, In v z -> 0 <= v).
  { intros v Hv. destruct (In_nth _ _ 0 Hv) as (t & Ht & <-). apply Hb. lia. }
  pose proof (nth_le_tsum i z Hnn). pose proof (zsum_split i z).
  assert (0 <= zsum (firstn i z)).
  { apply zsum_nonneg. intros v Hv. apply Hnn. rewrite <- (firstn_skipn i z). apply in_or_app. left; auto. }
  lia.
Qed.

Theorem mcomb_enumerates_sorted :
  exists fuel l e, drain mcomb_next mcomb_freq fuel (mcomb_init m k) = Some (l, e) /\
    StronglySorted colex_lt l /\ (forall x, In x l <-> mc_F x) /\ exhausted mcomb_next e.
Proof.
  apply (enumerates_sorted mc_st (list Z) mcomb_next mcomb_freq colex_lt mc_F mc_live mc_fin).
  - intros x _. apply colex_irrefl.
  - intros x y z [Hx _] [Hy _] _. apply colex_trans. lia.
  - intros x y [Hx _] [Hy _]. apply colex_total. lia.
  - exact mc_finite.
  - exact mc_live_step.
  - exact mc_fin_step.
  - unfold mcomb_init, mcomb_next, mc_with. cbn [mc_done mc_state mc_m mc_k]. fold L.
    destruct (Z.ltb_spec k 0); [lia|].
    destruct (mc_fill_spec L O k (repeat 0 L)) as (st & x' & E & Hl & _ & Hres); auto; try lia.
    { apply repeat_length. }
    { intros. apply nth_repeat0. }
    rewrite E.
    destruct Hres as [[Hx' Hbig]|(Hx' & Hcap & Hin & Hps & _ & Hgr)].
    + right. destruct (Z.gtb_spec x' 0); [|lia].
      eexists. split; [reflexivity|]. split; [reflexivity|].
      intros z (Hlz & Hbz & Hsz).
      pose proof (psum_range_le z m O L ltac:(lia) ltac:(lia) ltac:(fold L; lia)
                    ltac:(intros t Ht; apply Hbz; lia)) as Hle.
      assert (psum z L = zsum z) by (rewrite <- Hlz; apply psum_all).
      rewrite ?psum_0 in *. lia.
    + left. subst x'. simpl.
      eexists. split; [reflexivity|].
      assert (Fst : mc_F st).
      { split; [auto|]. split; [intros; apply Hin; lia|].
        rewrite <- psum_all, Hl, Hps, ?psum_0. lia. }
      split; [exists st; split; [reflexivity|exact Fst]|].
      unfold mcomb_freq. cbn [mc_state].
      intros z Fz (j & Hj & A & Hlt). rewrite (mc_F_length z Fz) in *.
      pose proof (mc_lower st z j Fst Fz Hj ltac:(intros; symmetry; apply A; lia) (Hgr j ltac:(lia))). lia.
Qed.

End Fixed.

Lemma forall_nonneg_nth : forall m : list Z, Forall (fun v => 0 <= v) m -> forall i, 0 <= nth i m 0.
Proof.
  intros m H i. destruct (le_lt_dec (length m) i).
  - rewrite nth_overflow by auto. lia.
  - rewrite Forall_forall in H. apply H. apply nth_In. auto.
Qed.

Theorem mcomb_enumerates : forall m k, Forall (fun v => 0 <= v) m -> 0 <= k ->
  enumerates mcomb_next mcomb_freq colex_lt (mc_F m k) (mcomb_init m k).
Proof.
  intros m k Hm Hk. apply enumerates_of_sorted.
  - intros x _. apply colex_irrefl.
  - apply mcomb_enumerates_sorted; auto. apply forall_nonneg_nth. auto.
Qed.

(* ------------------------------------------------------------------ Value(): the multiset itself *)

Lemma repeat_app_inj : forall (i : Z) p q r1 r2, Forall (fun v => i < v) r1 -> Forall (fun v => i < v) r2 ->
  repeat i p ++ r1 = repeat i q ++ r2 -> p = q /\ r1 = r2.
Proof.
  induction p as [|p IH]; intros [|q] r1 r2 F1 F2 E; simpl in E.
  - auto.
  - subst r1. inversion F1; subst. lia.
  - subst r2. inversion F2; subst. lia.
  - inversion E as [E']. destruct (IH q r1 r2 F1 F2 E'). split; [lia|auto].
Qed.

Lemma expand_inj : forall x y i, length x = length y ->
  (forall v, In v x -> 0 <= v) -> (forall v, In v y -> 0 <= v) -> expand i x = expand i y -> x = y.
Proof.
  induction x as [|a x IH]; intros [|b y] i Hl Hx Hy E; simpl in Hl; try discriminate; auto.
  cbn [expand] in E.
  assert (Fx : Forall (fun v => i < v) (expand (i + 1) x)).
  { eapply Forall_impl; [|apply (proj2 (expand_sorted x (i + 1)))]. intros; lia. }
  assert (Fy : Forall (fun v => i < v) (expand (i + 1) y)).
  { eapply Forall_impl; [|apply (proj2 (expand_sorted y (i + 1)))]. intros; lia. }
  destruct (repeat_app_inj i _ _ _ _ Fx Fy E) as [E1 E2].
  pose proof (Hx a ltac:(left; auto)). pose proof (Hy b ltac:(left; auto)).
  f_equal; [lia|]. apply (IH y (i + 1)); auto.
  - intros v Hv. apply Hx. right; auto.
  - intros v Hv. apply Hy. right; auto.
Qed.

Theorem mcomb_value_enumerates : forall m k, Forall (fun v => 0 <= v) m -> 0 <= k ->
  exists lf e,
    (forall fuel, (length lf < fuel)%nat ->
       drain mcomb_next mcomb_value fuel (mcomb_init m k) = Some (map (expand 0) lf, e)) /\
    (forall x, In x lf <-> mc_F m k x) /\ NoDup lf /\ NoDup (map (expand 0) lf) /\
    exhausted mcomb_next e.
Proof.
  intros m k Hm Hk. destruct (mcomb_enumerates m k Hm Hk) as (lf & e & Hd & _ & Hnd & Hin & Hex).
  exists lf, e. split; [|split; [|split; [|split]]]; auto.
  - intros fuel Hf. apply (drain_map_value _ _ _ mcomb_next mcomb_freq (expand 0)). apply Hd. auto.
  - apply nodup_map_inj_on; auto. intros x y Hx Hy E. apply Hin in Hx, Hy.
    destruct Hx as (Lx & Bx & _). destruct Hy as (Ly & By & _).
    apply (expand_inj x y 0); auto; try lia.
    + intros v Hv. destruct (In_nth _ _ 0 Hv) as (i & Hi & <-). apply Bx. lia.
    + intros v Hv. destruct (In_nth _ _ 0 Hv) as (i & Hi & <-). apply By. lia.
Qed.
