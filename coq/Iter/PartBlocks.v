(* itertools.Partitions: the value returned by Value() (partitionFromRestrictedGrowthString).
   For a restricted growth string r of length n >= 1, [rgs_blocks r] does not panic, is a set
   partition of {0..n-1} (non-empty duplicate-free blocks inside the range, covering it, pairwise
   disjoint, no block listed twice), and distinct strings give distinct partitions. *)
From Coq Require Import List ZArith Lia Arith Bool Sorted.
From Mamba Require Import Iter.Model Iter.Enum Iter.Lex Iter.PermUtil Iter.Part.
Import ListNotations.
Open Scope Z_scope.

Definition is_setpart (n : nat) (p : list (list Z)) : Prop :=
  (forall b, In b p -> b <> [] /\ NoDup b /\ forall i, In i b -> 0 <= i < Z.of_nat n) /\
  (forall i, 0 <= i < Z.of_nat n -> exists b, In b p /\ In i b) /\
  (forall b1 b2 i, In b1 p -> In b2 p -> In i b1 -> In i b2 -> b1 = b2) /\
  NoDup p.

(* the block of value v *)
Definition blk (r : list Z) (v : Z) : list Z :=
  filter (fun i => nth (Z.to_nat i) r 0 =? v) (iota (length r)).

Lemma in_blk : forall r v i, In i (blk r v) <-> 0 <= i < Z.of_nat (length r) /\ nth (Z.to_nat i) r 0 = v.
Proof.
  intros. unfold blk. rewrite filter_In, in_iota. split; intros [H1 H2]; split; auto.
  - apply Z.eqb_eq. auto.
  - apply Z.eqb_eq. auto.
Qed.

Lemma iota_nodup : forall k, NoDup (iota k).
Proof.
  intros. unfold iota. apply FinFun.Injective_map_NoDup; [|apply seq_NoDup].
  intros x y H. lia.
Qed.

Lemma fold_max_spec : forall r : list Z,
  (forall v, In v r -> v <= fold_right Z.max 0 r) /\ 0 <= fold_right Z.max 0 r /\
  (fold_right Z.max 0 r = 0 \/ In (fold_right Z.max 0 r) r).
Proof.
  induction r as [|a r (IH1 & IH2 & IH3)]; [simpl; split; [intros v []|split; [lia|auto]]|].
  cbn [fold_right]. split; [|split].
  - intros v [<-|Hv]; [lia|]. specialize (IH1 v Hv). lia.
  - lia.
  - destruct (Z.max_spec a (fold_right Z.max 0 r)) as [[_ ->]|[_ ->]].
    + destruct IH3 as [H|H]; [left; auto|right; right; auto].
    + right. left. auto.
Qed.

(* in a restricted growth string every value up to the running maximum has occurred *)
Lemma rgs_values : forall r, is_rgs r -> forall j, (j <= length r)%nat ->
  forall v, 0 <= v <= pmax r j -> exists i, (i < j)%nat /\ nth i r 0 = v.
Proof.
  intros r R. induction j as [|j IH]; intros Hj v Hv; [simpl in Hv; lia|].
  cbn [pmax] in Hv. pose proof (R j ltac:(lia)) as Rj.
  destruct (Z_le_gt_dec v (pmax r j)) as [Hle|Hgt].
  - destruct (IH ltac:(lia) v ltac:(lia)) as (i & Hi & E). exists i. split; [lia|auto].
  - exists j. split; [lia|]. lia.
Qed.

Lemma nth_map_iota : forall (A : Type) (f : Z -> A) (d : A) k v, (v < k)%nat ->
  nth v (map f (iota k)) d = f (Z.of_nat v).
Proof.
  intros A f d k v H. rewrite (nth_indep _ d (f 0)) by (rewrite map_length, iota_length; auto).
  rewrite map_nth. rewrite nth_iota by auto. reflexivity.
Qed.

Lemma nodup_map_inj_on : forall (A B : Type) (f : A -> B) (l : list A),
  (forall x y, In x l -> In y l -> f x = f y -> x = y) -> NoDup l -> NoDup (map f l).
Proof.
  induction l as [|a l IH]; intros Hinj Hnd; [constructor|].
  inversion Hnd; subst. simpl. constructor.
  - intro Hin. apply in_map_iff in Hin. destruct Hin as (x & E & Hx).
    assert (x = a) by (apply Hinj; [right; auto|left; auto|auto]). subst. auto.
  - apply IH; auto. intros x y Hx Hy. apply Hinj; right; auto.
Qed.

Section Rgs.
Variable r : list Z.
Hypothesis R : is_rgs r.
Hypothesis Hn : (1 <= length r)%nat.
Let n := length r.
Local Notation mx := (fold_right Z.max 0 r).

Lemma rgs_entry_range : forall i, (i < n)%nat -> 0 <= nth i r 0 < Z.of_nat n.
Proof.
  intros i Hi. pose proof (R i Hi). pose proof (rgs_pmax_bound r R i ltac:(fold n; lia)). lia.
Qed.

Lemma rgs_blocks_eq : rgs_blocks r = Some (map (blk r) (iota (S (Z.to_nat mx)))).
Proof.
  unfold rgs_blocks. fold n.
  assert (E : forallb (fun v => (0 <=? v) && (v <? Z.of_nat n)) r = true).
  { apply forallb_forall. intros v Hv. destruct (In_nth _ _ 0 Hv) as (i & Hi & <-).
    pose proof (rgs_entry_range i Hi). apply andb_true_iff. split; [apply Z.leb_le|apply Z.ltb_lt]; lia. }
  rewrite E. reflexivity.
Qed.

Lemma mx_occurs : forall v, 0 <= v <= mx -> exists i, (i < n)%nat /\ nth i r 0 = v.
Proof.
  intros v Hv. destruct (fold_max_spec r) as (_ & _ & [H0|Hin]).
  - exists O. split; [unfold n; lia|]. pose proof (R O ltac:(lia)) as R0. simpl in R0. lia.
  - destruct (In_nth _ _ 0 Hin) as (i0 & Hi0 & E0).
    pose proof (pmax_ge_nth r i0 n Hi0).
    destruct (rgs_values r R n ltac:(unfold n; lia) v ltac:(lia)) as (i & Hi & E). exists i. auto.
Qed.

Lemma rgs_blocks_setpart : is_setpart n (map (blk r) (iota (S (Z.to_nat mx)))).
Proof.
  pose proof (fold_max_spec r) as (Hmax & Hmx0 & _).
  assert (Hblk : forall b, In b (map (blk r) (iota (S (Z.to_nat mx)))) <-> exists v, 0 <= v <= mx /\ b = blk r v).
  { intros b. rewrite in_map_iff. split.
    - intros (v & <- & Hv). apply in_iota in Hv. exists v. split; [lia|auto].
    - intros (v & Hv & ->). exists v. split; auto. apply in_iota. lia. }
  split; [|split; [|split]].
  - intros b Hb. apply Hblk in Hb. destruct Hb as (v & Hv & ->). split; [|split].
    + destruct (mx_occurs v Hv) as (i & Hi & E). intro Hnil.
      assert (Hin : In (Z.of_nat i) (blk r v)).
      { apply in_blk. rewrite Nat2Z.id. fold n. split; [lia|auto]. }
      rewrite Hnil in Hin. destruct Hin.
    + unfold blk. apply NoDup_filter. apply iota_nodup.
    + intros i Hi. apply in_blk in Hi. fold n in Hi. tauto.
  - intros i Hi. exists (blk r (nth (Z.to_nat i) r 0)). split.
    + apply Hblk. exists (nth (Z.to_nat i) r 0). split; auto.
      assert (Hi' : (Z.to_nat i < length r)%nat) by (fold n; lia).
      pose proof (rgs_entry_range (Z.to_nat i) Hi').
      specialize (Hmax (nth (Z.to_nat i) r 0) (nth_In r 0 Hi')). lia.
    + apply in_blk. fold n. auto.
  - intros b1 b2 i H1 H2 I1 I2. apply Hblk in H1, H2.
    destruct H1 as (v1 & _ & ->). destruct H2 as (v2 & _ & ->).
    apply in_blk in I1, I2. destruct I1 as [_ <-]. destruct I2 as [_ <-]. reflexivity.
  - apply nodup_map_inj_on; [|apply iota_nodup].
    intros v1 v2 H1 H2 E. apply in_iota in H1, H2.
    destruct (mx_occurs v1 ltac:(lia)) as (i & Hi & Ei).
    assert (Hin : In (Z.of_nat i) (blk r v1)).
    { apply in_blk. rewrite Nat2Z.id. fold n. split; [lia|auto]. }
    rewrite E in Hin. apply in_blk in Hin. rewrite Nat2Z.id in Hin. destruct Hin as [_ Hin]. lia.
Qed.

End Rgs.

Lemma rgs_blocks_inj : forall r r', is_rgs r -> is_rgs r' -> length r = length r' -> (1 <= length r)%nat ->
  rgs_blocks r = rgs_blocks r' -> r = r'.
Proof.
  intros r r' R R' Hl Hn E.
  rewrite (rgs_blocks_eq r R Hn), (rgs_blocks_eq r' R' ltac:(lia)) in E.
  assert (E' : map (blk r) (iota (S (Z.to_nat (fold_right Z.max 0 r)))) =
               map (blk r') (iota (S (Z.to_nat (fold_right Z.max 0 r'))))) by congruence.
  clear E.
  assert (Hk : Z.to_nat (fold_right Z.max 0 r) = Z.to_nat (fold_right Z.max 0 r')).
  { apply (f_equal (@length _)) in E'. rewrite !map_length, !iota_length in E'. lia. }
  apply nth_ext0; auto. intros i Hi.
  pose proof (rgs_entry_range r R Hn i Hi) as Hri.
  pose proof (fold_max_spec r) as (Hmax & Hmx0 & _).
  pose proof (Hmax (nth i r 0) (nth_In _ _ Hi)) as Hle.
  set (v := nth i r 0) in *.
  assert (Hin : In (Z.of_nat i) (blk r v)).
  { apply in_blk. rewrite Nat2Z.id. split; [lia|reflexivity]. }
  assert (Hb : blk r v = blk r' v).
  { pose proof (f_equal (fun p => nth (Z.to_nat v) p []) E') as H. cbv beta in H.
    rewrite !nth_map_iota in H by lia. rewrite Z2Nat.id in H by lia. exact H. }
  rewrite Hb in Hin. apply in_blk in Hin. rewrite Nat2Z.id in Hin. destruct Hin as [_ Hin]. auto.
Qed.

(* the values observed through Value() are the images of the strings *)
Lemma drain_map_value : forall (St A B : Type) (next : St -> option (St * bool)) (value : St -> A)
  (f : A -> B) fuel s l e,
  drain next value fuel s = Some (l, e) -> drain next (fun s => f (value s)) fuel s = Some (map f l, e).
Proof.
  induction fuel as [|fuel IH]; intros s l e H; [discriminate|].
  simpl in *. destruct (next s) as [[s' [|]]|]; try discriminate.
  - destruct (drain next value fuel s') as [[l' e']|] eqn:E; [|discriminate].
    inversion H; subst. rewrite (IH s' l' e E). reflexivity.
  - inversion H; subst. reflexivity.
Qed.

Theorem parts_value_enumerates : forall n', exists s0, parts_init (S n') = Some s0 /\
  exists lr e,
    (forall fuel, (length lr < fuel)%nat ->
       drain parts_next parts_value fuel s0 = Some (map rgs_blocks lr, e)) /\
    (forall r, In r lr <-> rgs_F (S n') r) /\ NoDup lr /\
    (forall o, In o (map rgs_blocks lr) -> exists p, o = Some p /\ is_setpart (S n') p) /\
    NoDup (map rgs_blocks lr) /\
    exhausted parts_next e.
Proof.
  intros n'. destruct (parts_enumerates n') as (s0 & E0 & lr & e & Hd & _ & Hnd & Hin & Hex).
  exists s0. split; auto. exists lr, e. split; [|split; [|split; [|split; [|split]]]]; auto.
  - intros fuel Hf. apply (drain_map_value _ _ _ parts_next parts_rgs rgs_blocks). apply Hd. auto.
  - intros o Ho. apply in_map_iff in Ho. destruct Ho as (r & <- & Hr). apply Hin in Hr.
    destruct Hr as [Hl R]. eexists. split; [apply rgs_blocks_eq; auto; lia|].
    rewrite <- Hl. apply rgs_blocks_setpart; auto. lia.
  - apply nodup_map_inj_on; auto. intros x y Hx Hy E. apply Hin in Hx, Hy.
    destruct Hx as [Lx Rx]. destruct Hy as [Ly Ry]. apply rgs_blocks_inj; auto; lia.
Qed.
