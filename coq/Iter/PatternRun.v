(* itertools.PermutationsByPattern: the goto machine x1/x2/x3 of Next, working on the permutation
   dec c, moves in lockstep with the machine of RestrictedPrefixProduct working on the code c over
   the factors 1, 2, .., n with the predicate f o dec.  Hence (Iter/ProductRP.v, Iter/Pattern.v)
   the iterator yields, each once, exactly the permutations of 0..n-1 all of whose standardised
   prefixes are accepted, in the order of the depth-first search of its documentation, never
   panics or exhausts its fuel, and exhaustion is absorbing. *)
From Coq Require Import List ZArith Lia Arith Bool Sorted Permutation.
From Mamba Require Import Iter.Model Iter.Enum Iter.Lex Iter.Product Iter.ProductRP Iter.AlgX Iter.Pattern.
Import ListNotations.
Open Scope Z_scope.

(* all standardised non-empty prefixes of z are accepted *)
Definition patok (f : list Z -> bool) (z : list Z) : bool :=
  forallb (fun l => f (std (firstn l z))) (seq 1 (length z)).

Definition in_pattern (f : list Z -> bool) (n : nat) (z : list Z) : Prop :=
  Permutation z (iota n) /\ patok f z = true.

Lemma patok_spec : forall f z, patok f z = true <->
  forall l, (1 <= l <= length z)%nat -> f (std (firstn l z)) = true.
Proof.
  intros f z. unfold patok. rewrite forallb_forall. split.
  - intros H l Hl. apply H. apply in_seq. lia.
  - intros H l Hl. apply in_seq in Hl. apply H. lia.
Qed.

(* ------------------------------------------------------------------ generic lockstep simulation *)

Section Sim.
Variables St St' Obj Obj' : Type.
Variable next : St -> option (St * bool).
Variable value : St -> Obj.
Variable next' : St' -> option (St' * bool).
Variable value' : St' -> Obj'.
Variable g : Obj -> Obj'.
Variable Sim : St -> St' -> Prop.
Hypothesis step : forall s s' s1 b, Sim s s' -> next s = Some (s1, b) ->
  exists s1', next' s' = Some (s1', b) /\ Sim s1 s1' /\ (b = true -> value' s1' = g (value s1)).

Lemma drain_sim : forall fuel s s' l e, Sim s s' -> drain next value fuel s = Some (l, e) ->
  exists e', drain next' value' fuel s' = Some (map g l, e') /\ Sim e e'.
Proof.
  induction fuel as [|fuel IH]; intros s s' l e HS H; [discriminate|]. cbn [drain] in *.
  destruct (next s) as [[s1 b]|] eqn:E; [|discriminate].
  destruct (step s s' s1 b HS E) as (s1' & E' & HS1 & Hv). rewrite E'. destruct b.
  - destruct (drain next value fuel s1) as [[l1 e1]|] eqn:D; [|discriminate]. inversion H; subst.
    destruct (IH s1 s1' l1 e HS1 D) as (e' & D' & HSe). rewrite D'. exists e'. split; auto.
    simpl. rewrite Hv by auto. reflexivity.
  - inversion H; subst. exists s1'. split; auto.
Qed.

Lemma exhausted_sim : forall e e', Sim e e' -> exhausted next e -> exhausted next' e'.
Proof.
  intros e e' HS Hex k. revert e e' HS Hex. induction k as [|k IH]; intros e e' HS Hex; [simpl; discriminate|].
  pose proof (Hex (S k)) as H. cbn [after] in *.
  destruct (next e) as [[e1 [|]]|] eqn:E; try congruence.
  destruct (step e e' e1 false HS E) as (e1' & E' & HS1 & _). rewrite E'.
  apply (IH e1 e1' HS1). intros j. pose proof (Hex (S j)) as Hj. cbn [after] in Hj. rewrite E in Hj. auto.
Qed.

End Sim.

(* ------------------------------------------------------------------ the factors 1..n and the fuel *)

Definition pns (n : nat) : list Z := map (fun i => Z.of_nat i + 1) (seq 0 n).

Lemma pns_length : forall n, length (pns n) = n.
Proof. intros. unfold pns. rewrite map_length, seq_length. auto. Qed.

Lemma pns_nth : forall n i, (i < n)%nat -> nth i (pns n) 0 = Z.of_nat i + 1.
Proof.
  intros n i Hi. unfold pns. set (g := fun i : nat => Z.of_nat i + 1).
  rewrite nth_indep with (d' := g 0%nat) by (rewrite map_length, seq_length; lia).
  rewrite map_nth, seq_nth by lia. reflexivity.
Qed.

Lemma tree_nodes_rising : forall d k,
  tree_nodes (map (fun i => Z.of_nat i + 1) (seq k d)) = rising_nodes d (S k).
Proof.
  induction d as [|d IH]; intros k; simpl; auto. rewrite IH.
  replace (Z.to_nat (Z.of_nat k + 1)) with (S k) by lia. reflexivity.
Qed.

Lemma fuel_le : forall n, (S (S (rp_fuel (pns n))) <= pb_fuel n)%nat.
Proof.
  intros n. unfold rp_fuel, pb_fuel, pns. rewrite tree_nodes_rising.
  assert (1 <= rising_nodes n 1)%nat by (destruct n; simpl; lia). lia.
Qed.

Lemma pb_run_mono : forall f n fuel fuel' lbl a r, pb_run fuel f n lbl a = Some r -> (fuel <= fuel')%nat ->
  pb_run fuel' f n lbl a = Some r.
Proof.
  intros f n. induction fuel as [|fuel IH]; intros fuel' lbl a r H Hle; [discriminate|].
  destruct fuel' as [|fuel']; [lia|]. cbn [pb_run] in *.
  destruct lbl.
  - apply IH; auto. lia.
  - destruct (f a); [destruct (length a =? n)%nat; auto|]; apply IH; auto; lia.
  - destruct (length a =? 0)%nat; auto.
    destruct (get a (length a - 1)) as [x|]; [|discriminate].
    destruct (x =? 0); [apply IH; auto; lia|].
    destruct (get (incr_first (x - 1) a) _) as [y|]; [|discriminate].
    destruct (set (incr_first (x - 1) a) _ _) as [a2|]; [|discriminate]. apply IH; auto. lia.
Qed.

(* ------------------------------------------------------------------ the machines move in lockstep *)

Lemma incr_first_ins : forall P x, NoDup P -> In (x - 1) P ->
  incr_first (x - 1) (map (bump x) P ++ [x]) = map (bump (x - 1)) P ++ [x].
Proof.
  induction P as [|a P IH]; intros x Hnd Hin; [destruct Hin|]. inversion Hnd as [|? ? Ha Hnd']; subst.
  simpl. destruct (Z.eq_dec a (x - 1)) as [E|E].
  - assert (B1 : bump x a = x - 1) by (unfold bump; destruct (Z.geb_spec a x); lia).
    assert (B2 : bump (x - 1) a = x) by (unfold bump; destruct (Z.geb_spec a (x - 1)); lia).
    rewrite B1, B2, Z.eqb_refl. f_equal; [lia|]. f_equal. apply map_ext_in. intros v Hv.
    assert (v <> x - 1) by (intro; subst; auto).
    unfold bump. destruct (Z.geb_spec v x), (Z.geb_spec v (x - 1)); lia.
  - assert (B : bump x a = bump (x - 1) a).
    { unfold bump. destruct (Z.geb_spec a x), (Z.geb_spec a (x - 1)); lia. }
    assert (B' : bump x a <> x - 1) by (unfold bump; destruct (Z.geb_spec a x); lia).
    destruct (Z.eqb_spec (bump x a) (x - 1)); [contradiction|]. rewrite B. f_equal.
    apply IH; auto. destruct Hin; [congruence|auto].
Qed.

Lemma get_app_last_at : forall (M : list Z) v k, length M = k -> get (M ++ [v]) k = Some v.
Proof. intros M v k <-. apply get_app_last. Qed.

Lemma set_app_last_at : forall (M : list Z) v w k, length M = k -> set (M ++ [v]) k w = Some (M ++ [w]).
Proof. intros M v w k <-. apply set_app_last. Qed.

Definition lab (l : rp_label) : pb_label :=
  match l with RX1 => PX1 | RX2 => PX3 | RX3 => PX2 end.

Section Run.
Variable f : list Z -> bool.
Variable n : nat.
Hypothesis Hn : (0 < n)%nat.

Definition pt (c : list Z) : bool := f (dec c).
Notation ns := (pns n).

Lemma sim_run : forall fuel lbl c r, code_ok c -> (length c <= n)%nat ->
  match lbl with RX1 => (length c < n)%nat | _ => (1 <= length c)%nat end ->
  rp_run fuel pt ns lbl c = Some r ->
  pb_run (S fuel) f n (lab lbl) (dec c) = Some (if snd r then dec (fst r) else [], snd r) /\
  (if snd r then code_ok (fst r) /\ length (fst r) = n else done_shape ns (fst r)).
Proof.
  induction fuel as [|fuel IH]; intros lbl c r Hc Hl Hlbl H; [discriminate|].
  pose proof (dec_perm c Hc) as HP. destruct (perm_facts _ _ HP) as (LP & NP & RP).
  destruct lbl; cbn [rp_run lab] in *.
  - (* x1 *)
    assert (Hc' : code_ok (c ++ [0])) by (apply code_ok_snoc; split; auto; unfold zlen; lia).
    destruct (IH RX3 (c ++ [0]) r Hc') as [E Hr]; auto; try (rewrite app_length; simpl; lia).
    split; auto. cbn [pb_run]. cbn [lab] in E.
    assert (Ed : dec (c ++ [0]) = dec c ++ [zlen (dec c)]).
    { rewrite dec_snoc. unfold ins.
      assert (Ez : zlen (dec c) = zlen c) by (unfold zlen; rewrite dec_length; auto). rewrite Ez.
      replace (zlen c - 0) with (zlen c) by lia. f_equal.
      rewrite <- (map_id (dec c)) at 2. apply map_ext_in. intros v Hv. specialize (RP v Hv).
      unfold bump, zlen. destruct (Z.geb_spec v (Z.of_nat (length c))); lia. }
    rewrite <- Ed. exact E.
  - (* x2 of the product = x3 of the pattern machine *)
    destruct (exists_last (l := c)) as (p & y & ->). { intro; subst; simpl in Hlbl; lia. }
    rewrite app_length in *. cbn [length] in *.
    replace (length p + 1 - 1)%nat with (length p) in H by lia.
    destruct (Nat.eqb_spec (length p + 1) 0) as [C|_]; [lia|].
    rewrite get_app_last in H. rewrite (get_nth ns (length p)) in H by (rewrite pns_length; lia).
    rewrite pns_nth in H by lia.
    apply code_ok_snoc in Hc. destruct Hc as [Hp Hy]. unfold zlen in Hy.
    pose proof (dec_perm p Hp) as HPp. destruct (perm_facts _ _ HPp) as (LPp & NPp & RPp).
    set (x := zlen p - y) in *.
    assert (Ea : dec (p ++ [y]) = map (bump x) (dec p) ++ [x]) by (rewrite dec_snoc; reflexivity).
    cbn [pb_run]. rewrite Ea. rewrite app_length, map_length, dec_length. cbn [length].
    destruct (Nat.eqb_spec (length p + 1) 0) as [C|_]; [lia|].
    replace (length p + 1 - 1)%nat with (length p) by lia.
    rewrite get_app_last_at by (rewrite map_length, dec_length; auto).
    destruct (Z.ltb_spec y (Z.of_nat (length p) + 1 - 1)) as [Hlt|Hge].
    + (* the next child: x becomes x - 1 *)
      rewrite set_app_last in H.
      assert (Hx : x =? 0 = false) by (apply Z.eqb_neq; unfold x, zlen; lia). rewrite Hx.
      rewrite incr_first_ins; auto; [|apply (Permutation_in _ (Permutation_sym HPp)); apply in_iota; unfold x, zlen; lia].
      rewrite app_length, map_length, dec_length. cbn [length].
      replace (length p + 1 - 1)%nat with (length p) by lia.
      rewrite get_app_last_at by (rewrite map_length, dec_length; auto).
      rewrite set_app_last_at by (rewrite map_length, dec_length; auto).
      assert (Hc' : code_ok (p ++ [y + 1])) by (apply code_ok_snoc; split; auto; unfold zlen; lia).
      destruct (IH RX3 (p ++ [y + 1]) r Hc') as [E Hr]; auto; try (rewrite app_length; simpl; lia).
      split; auto. cbn [lab] in E. rewrite dec_snoc in E. unfold ins in E.
      replace (zlen p - (y + 1)) with (x - 1) in E by (unfold x; lia). exact E.
    + assert (Hx : x = 0) by (unfold x, zlen; lia). rewrite Hx, Z.eqb_refl.
      rewrite removelast_last.
      assert (Eu : map (fun v => if v >? 0 then v - 1 else v) (map (bump 0) (dec p)) = dec p).
      { rewrite map_map. rewrite <- (map_id (dec p)) at 2. apply map_ext_in. intros v Hv.
        specialize (RPp v Hv). unfold bump. destruct (Z.geb_spec v 0); [|lia].
        destruct (Z.gtb_spec (v + 1) 0); lia. }
      rewrite Eu.
      destruct (Nat.eqb_spec (length p + 1) 1) as [C|C].
      * (* the root's last child is finished *)
        inversion H; subst r. cbn [fst snd].
        assert (p = []) by (destruct p; simpl in C; auto; lia). subst p. simpl.
        split; [reflexivity|]. split; [reflexivity|]. simpl. rewrite pns_nth by lia. simpl in *. lia.
      * rewrite removelast_last in H.
        destruct (IH RX2 p r Hp) as [E Hr]; auto; try lia.
    - (* x3 of the product = x2 of the pattern machine *)
    cbn [pb_run]. unfold pt in H at 1. destruct (f (dec c)) eqn:Ef; cbn [negb] in H.
    + rewrite pns_length in H. rewrite dec_length.
      destruct (Nat.ltb_spec (length c) n) as [Hlt|Hge].
      * destruct (Nat.eqb_spec (length c) n); [lia|].
        destruct (IH RX1 c r Hc) as [E Hr]; auto.
      * destruct (Nat.eqb_spec (length c) n); [|lia].
        inversion H; subst r. cbn [fst snd]. split; auto.
    + destruct (IH RX2 c r Hc) as [E Hr]; auto.
Qed.

(* ------------------------------------------------------------------ the two iterators in lockstep *)

Definition psim (s : rp_st) (s' : pb_st) : Prop :=
  rp_n s = ns /\ rp_fuel0 s = rp_fuel ns /\ rp_empty s = false /\
  pb_n s' = n /\ pb_fuel0 s' = pb_fuel n /\
  ((rp_state s = [] /\ pb_a s' = None)
   \/ (code_ok (rp_state s) /\ length (rp_state s) = n /\ pb_a s' = Some (dec (rp_state s)))
   \/ (done_shape ns (rp_state s) /\ pb_a s' = Some [])).

Lemma psim_step : forall s s' s1 b, psim s s' -> rpprod_next pt s = Some (s1, b) ->
  exists s1', pattern_next f s' = Some (s1', b) /\ psim s1 s1' /\
    (b = true -> pattern_value s1' = dec (rpprod_value s1)).
Proof.
  intros [st n0 em fu] [n1 oa fu1] s1 b (H1 & H2 & H3 & H4 & H5 & Hcase) Hnext.
  cbn [rp_state rp_n rp_empty rp_fuel0 pb_n pb_a pb_fuel0] in *. subst n0 fu em n1 fu1.
  unfold rpprod_next in Hnext. cbn [rp_state rp_n rp_empty rp_fuel0] in Hnext.
  unfold pattern_next. cbn [pb_n pb_a pb_fuel0].
  pose proof (fuel_le n) as Hfuel.
  assert (Hfin : forall lbl c r, rp_run (rp_fuel ns) pt ns lbl c = Some r ->
     pb_run (S (rp_fuel ns)) f n (lab lbl) (dec c) = Some (if snd r then dec (fst r) else [], snd r) /\
     (if snd r then code_ok (fst r) /\ length (fst r) = n else done_shape ns (fst r)) ->
     exists s1', (r' <- pb_run (pb_fuel n) f n (lab lbl) (dec c) ;;
                  Some ({| pb_n := n; pb_a := Some (fst r'); pb_fuel0 := pb_fuel n |}, snd r'))
                 = Some (s1', snd r) /\
       psim {| rp_state := fst r; rp_n := ns; rp_empty := false; rp_fuel0 := rp_fuel ns |} s1' /\
       (snd r = true -> pattern_value s1' = dec (fst r))).
  { intros lbl c r _ [E Hr]. apply pb_run_mono with (fuel' := pb_fuel n) in E; [|lia]. rewrite E.
    eexists. split; [reflexivity|]. cbn [fst snd]. split.
    - split; [reflexivity|]. split; [reflexivity|]. split; [reflexivity|]. split; [reflexivity|].
      split; [reflexivity|]. cbn [rp_state pb_a]. destruct (snd r).
      + right. left. destruct Hr. auto.
      + right. right. auto.
    - intros Ht. rewrite Ht. reflexivity. }
  destruct Hcase as [[Hst Ha]|[(Hc & Hl & Ha)|[Hd Ha]]]; subst oa.
  - (* the first call *)
    subst st. cbn [length Nat.eqb] in Hnext. rewrite pns_length in Hnext.
    destruct (Nat.eqb_spec n 0); [lia|].
    destruct (rp_run (rp_fuel ns) pt ns RX1 []) as [r|] eqn:E; [|discriminate].
    inversion Hnext; subst s1 b.
    assert (Hc0 : code_ok []) by (intros i Hi; simpl in Hi; lia).
    pose proof (sim_run (rp_fuel ns) RX1 [] r Hc0 ltac:(simpl; lia) ltac:(simpl; lia) E) as HS.
    apply (Hfin RX1 [] r E HS).
  - rewrite Hl in Hnext. destruct (Nat.eqb_spec n 0); [lia|].
    destruct (rp_run (rp_fuel ns) pt ns RX2 st) as [r|] eqn:E; [|discriminate].
    inversion Hnext; subst s1 b.
    pose proof (sim_run (rp_fuel ns) RX2 st r Hc ltac:(lia) ltac:(simpl; lia) E) as HS.
    apply (Hfin RX2 st r E HS).
  - (* exhausted *)
    assert (HD : rp_done ns {| rp_state := st; rp_n := ns; rp_empty := false; rp_fuel0 := rp_fuel ns |}).
    { split; [reflexivity|]. split; [reflexivity|]. split; [reflexivity|]. exact Hd. }
    destruct (rp_done_step pt ns ltac:(rewrite pns_length; lia) _ HD) as (s2 & E2 & HD2).
    unfold rpprod_next in E2. cbn [rp_state rp_n rp_empty rp_fuel0] in E2. rewrite E2 in Hnext.
    inversion Hnext; subst s1 b.
    assert (Hpf : exists k, pb_fuel n = S k) by (exists (pb_fuel n - 1)%nat; lia).
    destruct Hpf as [k Hk]. rewrite Hk. cbn [pb_run length Nat.eqb]. rewrite <- Hk.
    eexists. split; [reflexivity|]. cbn [fst snd]. split; [|discriminate].
    destruct HD2 as (D1 & D2 & D3 & D4).
    split; [auto|]. split; [auto|]. split; [auto|]. split; [reflexivity|]. split; [reflexivity|].
    right. right. auto.
Qed.

End Run.

(* ------------------------------------------------------------------ the theorem *)

Lemma pns_pos : forall n, existsb (fun v => v <? 1) (pns n) = false.
Proof.
  intros n. destruct (existsb (fun v => v <? 1) (pns n)) eqn:E; auto. exfalso.
  apply existsb_exists in E. destruct E as (v & Hv & Hlt). unfold pns in Hv.
  apply in_map_iff in Hv. destruct Hv as (i & <- & _). apply Z.ltb_lt in Hlt. lia.
Qed.

Lemma in_pattern_iff : forall f n z, (0 < n)%nat ->
  (in_pattern f n z <-> exists c, in_rpp (pt f) (pns n) c /\ z = dec c).
Proof.
  intros f n z Hn. split.
  - intros [Hz Hok]. destruct (perm_facts n z Hz) as (Lz & _ & _).
    exists (enc z). split; [|symmetry; apply (dec_enc z n Hz)].
    pose proof (enc_ok z) as Hc. pose proof (enc_length z) as Le.
    split.
    + split; [rewrite pns_length; lia|]. intros i Hi. rewrite pns_length in Hi.
      rewrite pns_nth by auto. specialize (Hc i ltac:(lia)). lia.
    + apply allok_spec. intros l Hl. unfold pt.
      rewrite <- (std_firstn_dec (enc z) Hc l) by lia. rewrite (dec_enc z n Hz).
      rewrite patok_spec in Hok. apply Hok. lia.
  - intros (c & [[Lc Rc] Hok] & ->). rewrite pns_length in *.
    assert (Hc : code_ok c).
    { intros i Hi. specialize (Rc i ltac:(lia)). rewrite pns_nth in Rc by lia. lia. }
    split.
    + rewrite <- Lc. apply dec_perm. auto.
    + apply patok_spec. intros l Hl. rewrite dec_length in Hl.
      rewrite std_firstn_dec by (auto; lia). rewrite allok_spec in Hok. apply (Hok l). lia.
Qed.

Lemma nodup_map_in : forall (A B : Type) (g : A -> B) (l : list A),
  (forall x y, In x l -> In y l -> g x = g y -> x = y) -> NoDup l -> NoDup (map g l).
Proof.
  intros A B g l Hinj Hnd. induction Hnd as [|a l Ha Hnd IH]; simpl; constructor.
  - intros H. apply in_map_iff in H. destruct H as (y & E & Hy).
    assert (y = a) by (apply Hinj; auto; [right; auto|left; auto]). subst. auto.
  - apply IH. intros x y Hx Hy. apply Hinj; right; auto.
Qed.

Theorem pattern_enumerates : forall f n,
  exists l e, drain (pattern_next f) pattern_value (S (length l)) (pattern_init n) = Some (l, e) /\
    (NoDup l /\ (forall x, In x l <-> in_pattern f n x) /\ exhausted (pattern_next f) e /\
     exists lc, l = map dec lc /\ StronglySorted lex_lt lc).
Proof.
  intros f n. apply drain_exact_fuel with (Q := fun l e => _).
  destruct n as [|n'] eqn:En.
  - (* n = 0: the empty permutation once *)
    exists 2%nat, [[]], {| pb_n := 0; pb_a := Some []; pb_fuel0 := pb_fuel 0 |}.
    split; [reflexivity|]. split; [repeat constructor; auto|]. split; [|split].
    + intros x. split.
      * intros [<-|[]]. split; [constructor|reflexivity].
      * intros [Hx _]. apply Permutation_sym, Permutation_nil in Hx. left. auto.
    + intros k. induction k as [|k IH]; [simpl; discriminate|]. exact IH.
    + exists [[]]. split; [reflexivity|repeat constructor].
  - rewrite <- En. assert (Hn : (0 < n)%nat) by lia. clear En n'.
    destruct (rpprod_enumerates (pt f) (pns n)) as (fuel & lc & e & Hd & Hs & Hin & Hex).
    assert (HS0 : psim n (rpprod_init (pns n)) (pattern_init n)).
    { unfold rpprod_init, pattern_init. split; [reflexivity|]. split; [reflexivity|].
      split; [apply pns_pos|]. split; [reflexivity|]. split; [reflexivity|]. left. auto. }
    destruct (drain_sim _ _ _ _ (rpprod_next (pt f)) rpprod_value (pattern_next f) pattern_value dec
                (psim n) (psim_step f n Hn) fuel _ _ lc e HS0 Hd) as (e' & Hd' & HSe).
    exists fuel, (map dec lc), e'. split; [exact Hd'|]. split; [|split; [|split]].
    + (* dec is injective on the codes *)
      apply nodup_map_in.
      * intros c c' Hc Hc' E. apply Hin in Hc. apply Hin in Hc'.
        destruct Hc as [[Lc _] _]. destruct Hc' as [[Lc' _] _]. apply dec_inj; auto. lia.
      * apply (strict_sorted_nodup lex_lt lex_irrefl); auto.
    + intros x. rewrite in_pattern_iff by auto. rewrite in_map_iff. split.
      * intros (c & <- & Hc). exists c. split; auto. apply Hin. auto.
      * intros (c & Hc & ->). exists c. split; auto. apply Hin. auto.
    + eapply exhausted_sim; [apply (psim_step f n Hn)|exact HSe|exact Hex].
    + exists lc. auto.
Qed.

(* the constructors with a caller-chosen fuel (used by the correspondence driver for large
   parameters) build the same state as the real ones when given the proved bound *)
Lemma init_with_bound : forall ns n,
  rpprod_init ns = rpprod_init_with (rp_fuel ns) ns /\
  rpperm_init n = rpperm_init_with (rx_fuel n) n /\
  pattern_init n = pattern_init_with (pb_fuel n) n.
Proof. intros. repeat split. Qed.
