(* itertools.Permutations (Heap's algorithm): for every n the iterator yields every permutation
   of 0..n-1 exactly once (no particular order is documented) and then reports exhaustion for
   ever.  Assembly of HeapRun.heap_run (the model visits the tables T n n in order) and
   HeapTables.T_enum (T n n lists every permutation table exactly once). *)
From Coq Require Import List ZArith Lia Arith Bool Permutation.
From Mamba Require Import Iter.Model Iter.Enum Iter.Lex Iter.PermUtil Iter.HeapIndex Iter.HeapRun Iter.HeapTables.
Import ListNotations.
Local Open Scope nat_scope.

Lemma zl_inj : forall a b, zl a = zl b -> a = b.
Proof.
  induction a as [|x a IH]; intros [|y b] H; simpl in H; try discriminate; auto.
  inversion H. f_equal; [lia|auto].
Qed.

Theorem heap_enumerates : forall n, exists l e,
  (forall fuel, length l < fuel -> drain heap_next heap_value fuel (heap_init n) = Some (l, e)) /\
  NoDup l /\ (forall x, In x l <-> Permutation x (iota n)) /\ exhausted heap_next e.
Proof.
  intros n. destruct (heap_run n) as (e & Hd & Hex).
  destruct (T_enum n n (le_n n)) as [Hnd Hin].
  exists (map zl (T n n)), e. split; [|split; [|split]]; auto.
  - intros fuel Hf. eapply drain_fuel_exact; eauto.
  - apply FinFun.Injective_map_NoDup; auto. intros a b. apply zl_inj.
  - intros x. split.
    + intros Hx. apply in_map_iff in Hx. destruct Hx as (t & <- & Ht). apply Hin in Ht. destruct Ht as [Hp _].
      unfold zl, iota. apply Permutation_map. exact Hp.
    + intros Hp. apply in_map_iff. exists (map Z.to_nat x). split.
      * unfold zl. rewrite map_map. rewrite <- map_id. apply map_ext_in. intros v Hv.
        apply (Permutation_in _ Hp) in Hv. apply in_iota in Hv. lia.
      * apply Hin. split; [|intros; lia].
        apply (Permutation_map Z.to_nat) in Hp. unfold iota in Hp. rewrite map_map in Hp.
        rewrite (map_ext _ (fun v => v)) in Hp by (intros; apply Nat2Z.id). rewrite map_id in Hp. exact Hp.
Qed.
