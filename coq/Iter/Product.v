(* itertools.Product: the model of Next() enumerates {0..n0-1} x .. x {0..n(m-1)-1} in
   lexicographic order, each tuple once, and then reports exhaustion for ever. *)
From Coq Require Import List ZArith Lia Arith Bool Sorted.
From Mamba Require Import Iter.Model Iter.Enum Iter.Lex.
Import ListNotations.
Open Scope Z_scope.

Definition in_product (ns x : list Z) : Prop :=
  length x = length ns /\ forall i, (i < length ns)%nat -> 0 <= nth i x 0 < nth i ns 0.

Lemma nth_firstn_lt : forall (l : list Z) i k, (i < k)%nat -> nth i (firstn k l) 0 = nth i l 0.
Proof.
  induction l as [|a l IH]; intros [|i] [|k] H; simpl; try lia; auto. apply IH. lia.
Qed.

Lemma zero_from_length : forall k st, (k <= length st)%nat -> length (zero_from k st) = length st.
Proof. intros. unfold zero_from. rewrite app_length, firstn_length, repeat_length. lia. Qed.

Lemma zero_from_nth : forall k st i, (k <= length st)%nat ->
  nth i (zero_from k st) 0 = if (i <? k)%nat then nth i st 0 else 0.
Proof.
  intros k st i Hk. unfold zero_from. destruct (Nat.ltb_spec i k).
  - rewrite app_nth1 by (rewrite firstn_length; lia). apply nth_firstn_lt; auto.
  - rewrite app_nth2 by (rewrite firstn_length; lia). apply nth_repeat0.
Qed.

Lemma prod_loop_spec : forall c st ns, length st = length ns -> (c <= length st)%nat ->
  (forall i, (c <= i < length st)%nat -> nth i ns 0 - 1 <= nth i st 0) ->
  (prod_loop c st ns = Some None /\ forall i, (i < length st)%nat -> nth i ns 0 - 1 <= nth i st 0)
  \/ exists j st', prod_loop c st ns = Some (Some st') /\ (j < c)%nat /\
       nth j st 0 < nth j ns 0 - 1 /\
       (forall i, (j < i < length st)%nat -> nth i ns 0 - 1 <= nth i st 0) /\
       length st' = length st /\
       (forall i, (i < j)%nat -> nth i st' 0 = nth i st 0) /\
       nth j st' 0 = nth j st 0 + 1 /\
       (forall i, (j < i < length st)%nat -> nth i st' 0 = 0).
Proof.
  induction c as [|c IH]; intros st ns Hl Hc Hmax.
  - left. split; [reflexivity|]. intros i Hi. apply Hmax. lia.
  - cbn [prod_loop]. rewrite (get_nth st c) by lia. rewrite (get_nth ns c) by lia.
    destruct (Z.ltb_spec (nth c st 0) (nth c ns 0 - 1)) as [Hlt|Hge].
    + right. rewrite set_upd by lia. set (st1 := upd st c (nth c st 0 + 1)).
      exists c, (zero_from (S c) st1).
      assert (Hk : (S c <= length st1)%nat) by (unfold st1; rewrite upd_length; lia).
      split; [reflexivity|]. split; [lia|]. split; [auto|]. split; [intros; apply Hmax; lia|].
      split; [rewrite zero_from_length by auto; unfold st1; rewrite upd_length; auto|].
      split; [|split].
      * intros i Hi. rewrite zero_from_nth by auto. destruct (Nat.ltb_spec i (S c)); [|lia].
        unfold st1. apply nth_upd_neq. lia.
      * rewrite zero_from_nth by auto. destruct (Nat.ltb_spec c (S c)); [|lia].
        unfold st1. apply nth_upd_eq. lia.
      * intros i Hi. rewrite zero_from_nth by auto. destruct (Nat.ltb_spec i (S c)); [lia|auto].
    + destruct (IH st ns Hl) as [[E Hall]|(j & st' & E & Hj & rest)]; [lia| |auto|].
      * intros i Hi. destruct (Nat.eq_dec i c) as [->|]; [lia|]. apply Hmax. lia.
      * right. exists j, st'. split; [auto|]. split; [lia|]. exact rest.
Qed.

Section Fixed.
Variable ns : list Z.
Let m := length ns.

Definition prod_live (s : prod_st) : Prop :=
  p_n s = ns /\ in_product ns (p_state s) /\ p_empty s = (m =? 0)%nat.

Definition prod_done (s : prod_st) : Prop :=
  p_n s = ns /\ length (p_state s) = m /\
  (p_empty s = true \/ ((0 < m)%nat /\ forall i, (i < m)%nat -> nth i ns 0 - 1 <= nth i (p_state s) 0)).

Lemma in_product_length : forall z, in_product ns z -> length z = m.
Proof. intros z [H _]. exact H. Qed.

Lemma prod_live_step : forall s, prod_live s ->
  in_product ns (product_value s) /\
  ((exists s', product_next s = Some (s', true) /\ prod_live s' /\
      lex_lt (product_value s) (product_value s') /\
      forall z, in_product ns z -> lex_lt (product_value s) z -> lex_lt z (product_value s') -> False)
   \/ (exists s', product_next s = Some (s', false) /\ prod_done s' /\
         forall z, in_product ns z -> ~ lex_lt (product_value s) z)).
Proof.
  intros [st n em] (Hn & HF & Hem). simpl in Hn, HF, Hem. subst n. unfold product_value. simpl.
  split; [exact HF|]. destruct HF as [Hlen Hrange]. fold m in Hlen, Hrange.
  unfold product_next. cbn [p_state p_n p_empty].
  destruct (prod_loop_spec (length st) st ns Hlen (le_n _)) as [[E Hall]|(j & st' & E & Hj & Hlt & Hmax & Hl' & Hpre & Hat & Hpost)].
  { intros i Hi. lia. }
  - (* no coordinate can be increased: the last tuple *)
    rewrite E. right. destruct (Nat.eqb_spec m 0) as [Hm0|Hm0].
    + rewrite Hlen. rewrite (proj2 (Nat.eqb_eq m 0) Hm0). subst em. simpl.
      eexists. split; [reflexivity|]. split.
      * repeat split; simpl; auto.
      * intros z Hz (i & Hi & _). simpl in Hi. rewrite Hlen in Hi. lia.
    + rewrite Hlen. rewrite (proj2 (Nat.eqb_neq m 0) Hm0). simpl.
      eexists. split; [reflexivity|]. split.
      * repeat split; simpl; auto. right. split; [lia|]. intros i Hi. apply Hall. lia.
      * apply lex_greatest. intros z i [Hzl Hz] Hi _. rewrite Hlen in Hi.
        specialize (Hz i Hi). specialize (Hall i). lia.
  - rewrite E. left.
    assert (Hm0 : m <> 0%nat) by lia. subst em. rewrite (proj2 (Nat.eqb_neq m 0) Hm0). simpl.
    eexists. split; [reflexivity|]. simpl.
    assert (HF' : in_product ns st').
    { split; [lia|]. intros i Hi. fold m in Hi.
      destruct (lt_eq_lt_dec i j) as [[C|C]|C].
      - rewrite Hpre by auto. auto.
      - subst i. rewrite Hat. specialize (Hrange j Hi). lia.
      - rewrite Hpost by lia. specialize (Hrange i Hi). lia. }
    split; [|split].
    + split; [reflexivity|]. split; [exact HF'|]. simpl. symmetry. apply Nat.eqb_neq. auto.
    + exists j. split; [lia|]. split; [|lia]. intros i Hi. symmetry. auto.
    + apply (lex_no_between (in_product ns) m st st' j); auto; try lia.
      * exact in_product_length.
      * intros i Hi. symmetry. auto.
      * intros z i [_ Hz] Hi _. specialize (Hz i). specialize (Hmax i). lia.
      * intros z i [_ Hz] Hi _. rewrite Hpost by lia. specialize (Hz i). lia.
Qed.

Lemma prod_done_step : forall s, prod_done s -> exists s', product_next s = Some (s', false) /\ prod_done s'.
Proof.
  intros [st n em] (Hn & Hlen & Hcase). simpl in Hn, Hlen, Hcase. subst n.
  unfold product_next. cbn [p_state p_n p_empty].
  destruct (prod_loop_spec (length st) st ns) as [[E Hall]|(j & st' & E & Hj & Hlt & Hmax & Hl' & _)]; auto; try lia.
  - rewrite E. destruct Hcase as [->|[Hm Hmaxed]].
    + rewrite andb_false_r. eexists. split; [reflexivity|]. repeat split; auto.
    + rewrite Hlen. rewrite (proj2 (Nat.eqb_neq m 0)) by lia. simpl.
      eexists. split; [reflexivity|]. repeat split; auto.
  - rewrite E. destruct Hcase as [->|[Hm Hmaxed]].
    + simpl. eexists. split; [reflexivity|]. repeat split; simpl; auto. lia.
    + exfalso. specialize (Hmaxed j). lia.
Qed.

End Fixed.

Lemma nth_le_max : forall (l : list Z) i, nth i l 0 <= fold_right Z.max 0 l.
Proof.
  induction l as [|a l IH]; intros [|i]; simpl; try lia. specialize (IH i). lia.
Qed.

Lemma in_product_finite : forall ns, exists all, forall x, in_product ns x -> In x all.
Proof.
  intros ns. exists (all_lists (length ns) (Z.to_nat (fold_right Z.max 0 ns))).
  intros x [Hl Hr]. apply all_lists_complete; auto.
  intros i Hi. specialize (Hr i Hi). pose proof (nth_le_max ns i). lia.
Qed.

Lemma product_init_state_nth : forall k i, (i < S k)%nat ->
  nth i (repeat 0 k ++ [-1]) 0 = if (i =? k)%nat then -1 else 0.
Proof.
  intros k i Hi. destruct (Nat.eqb_spec i k).
  - subst. rewrite app_nth2 by (rewrite repeat_length; lia). rewrite repeat_length, Nat.sub_diag. auto.
  - rewrite app_nth1 by (rewrite repeat_length; lia). apply nth_repeat0.
Qed.

Lemma existsb_lt1_false : forall ns, existsb (fun v => v <? 1) ns = false ->
  forall i, (i < length ns)%nat -> 1 <= nth i ns 0.
Proof.
  induction ns as [|a ns IH]; intros H [|i] Hi; simpl in *; try lia.
  apply orb_false_elim in H. destruct H as [_ H]. apply IH; auto. lia.
Qed.

Lemma existsb_lt1_true : forall ns, existsb (fun v => v <? 1) ns = true ->
  exists i, (i < length ns)%nat /\ nth i ns 0 < 1.
Proof.
  induction ns as [|a ns IH]; intros H; simpl in *; [discriminate|].
  apply orb_true_elim in H. destruct H as [H|H].
  - exists O. split; [lia|]. apply Z.ltb_lt in H. simpl. lia.
  - destruct (IH H) as (i & Hi & Hlt). exists (S i). split; [lia|auto].
Qed.

Theorem product_enumerates : forall ns,
  exists fuel l e, drain product_next product_value fuel (product_init ns) = Some (l, e) /\
    StronglySorted lex_lt l /\ (forall x, In x l <-> in_product ns x) /\ exhausted product_next e.
Proof.
  intros ns.
  apply (enumerates_sorted prod_st (list Z) product_next product_value lex_lt (in_product ns)
           (prod_live ns) (prod_done ns)).
  - intros x _. apply lex_irrefl.
  - intros x y z [Hx _] [Hy _] _. apply lex_trans. lia.
  - intros x y [Hx _] [Hy _]. apply lex_total. lia.
  - apply in_product_finite.
  - apply prod_live_step.
  - apply prod_done_step.
  - (* the first call *)
    unfold product_init, product_next. cbn [p_state p_n p_empty].
    destruct ns as [|n0 ns'] eqn:Ens.
    + left. simpl. eexists. split; [reflexivity|]. split.
      * repeat split; simpl; auto; simpl in H; lia.
      * intros z [Hz _] (i & Hi & _). simpl in Hz. lia.
    + set (k := length ns').
      change (match length (n0 :: ns') with O => [] | S m => repeat 0 m ++ [-1] end)
        with (repeat 0 k ++ [-1]).
      rewrite <- Ens.
      assert (Hlen : length (repeat 0 k ++ [-1]) = length ns).
      { rewrite app_length, repeat_length. subst ns. simpl. lia. }
      assert (Hm : length ns = S k) by (subst ns; reflexivity).
      destruct (prod_loop_spec (length (repeat 0 k ++ [-1])) (repeat 0 k ++ [-1]) ns Hlen (le_n _))
        as [[E Hall]|(j & st' & E & Hj & Hlt & Hmax & Hl' & Hpre & Hat & Hpost)].
      { intros i Hi. lia. }
      * (* nothing to increase: some factor is below 1 *)
        rewrite E. rewrite Hlen, Hm. simpl. right.
        eexists. split; [reflexivity|].
        assert (Hex : exists i, (i < length ns)%nat /\ nth i ns 0 < 1).
        { exists k. split; [lia|]. specialize (Hall k). rewrite Hlen in Hall.
          rewrite product_init_state_nth in Hall by lia. rewrite Nat.eqb_refl in Hall. lia. }
        destruct Hex as (i & Hi & Hi1).
        split.
        -- repeat split; simpl; auto. left. destruct (existsb (fun v => v <? 1) ns) eqn:Ex; auto.
           pose proof (existsb_lt1_false ns Ex i Hi). lia.
        -- intros z [_ Hz]. specialize (Hz i Hi). lia.
      * rewrite E. destruct (existsb (fun v => v <? 1) ns) eqn:Ex.
        -- right. simpl. eexists. split; [reflexivity|].
           destruct (existsb_lt1_true ns Ex) as (i & Hi & Hi1). split.
           ++ repeat split; simpl; auto. lia.
           ++ intros z [_ Hz]. specialize (Hz i Hi). lia.
        -- left. simpl. eexists. split; [reflexivity|].
           pose proof (existsb_lt1_false ns Ex) as Hpos.
           rewrite Hlen in *.
           (* the coordinate increased is the last one: all others are 0 < n_i - 1 or stay 0 *)
           assert (Hst : forall i, (i < length ns)%nat -> nth i st' 0 = 0).
           { intros i Hi. destruct (lt_eq_lt_dec i j) as [[C|C]|C].
             - rewrite Hpre by auto. rewrite product_init_state_nth by lia.
               destruct (Nat.eqb_spec i k); auto. lia.
             - subst i. rewrite Hat. rewrite product_init_state_nth by lia.
               destruct (Nat.eqb_spec j k); auto.
               (* j < k: then position k > j was already maximal, but it holds -1 *)
               exfalso. specialize (Hmax k). rewrite product_init_state_nth in Hmax by lia.
               rewrite Nat.eqb_refl in Hmax. specialize (Hpos k). lia.
             - apply Hpost. lia. }
           split.
           ++ split; [reflexivity|]. split.
              ** split; [simpl; lia|]. intros i Hi. simpl. rewrite Hst by auto.
                 specialize (Hpos i Hi). lia.
              ** simpl. rewrite Hm. reflexivity.
           ++ apply lex_least. intros z i [Hzl Hz] Hi _. unfold product_value. simpl.
              rewrite Hst by lia. specialize (Hz i). lia.
Qed.

(* the same with the exact fuel and the absence of repetitions made explicit *)
Theorem product_enumerates_exact : forall ns,
  exists l e, drain product_next product_value (S (length l)) (product_init ns) = Some (l, e) /\
    (StronglySorted lex_lt l /\ NoDup l /\ (forall x, In x l <-> in_product ns x) /\
     exhausted product_next e).
Proof.
  intros ns. apply drain_exact_fuel with (Q := fun l e => _).
  destruct (product_enumerates ns) as (fuel & l & e & H1 & H2 & H3 & H4).
  exists fuel, l, e. split; [exact H1|]. split; [exact H2|].
  split; [apply (strict_sorted_nodup lex_lt lex_irrefl); auto|]. split; [exact H3|exact H4].
Qed.
