(* itertools.Partitions: every set partition of {0..n-1} is produced, exactly once.
   Iter/Part.v shows that the iterator runs through all restricted growth strings and
   Iter/PartBlocks.v that Value() turns each into a set partition, different strings giving
   different block lists.  Here: every set partition p (in any representation: blocks in any
   order, elements in any order) is, as a partition, the value of exactly one restricted growth
   string.  "The same partition" is expressed through the equivalence relation
   [together p i j] = "some block of p contains both i and j". *)
From Coq Require Import List ZArith Lia Arith Bool Sorted.
From Mamba Require Import Iter.Model Iter.Enum Iter.Lex Iter.Product Iter.ProductRP Iter.AlgX Iter.PermUtil Iter.Part
  Iter.PartBlocks.
Import ListNotations.
Open Scope Z_scope.

Definition together (p : list (list Z)) (i j : Z) : Prop := exists b, In b p /\ In i b /\ In j b.

Definition same_partition (n : nat) (p p' : list (list Z)) : Prop :=
  forall i j, 0 <= i < Z.of_nat n -> 0 <= j < Z.of_nat n -> (together p i j <-> together p' i j).

(* the blocks of a restricted growth string: together = equal entries *)
Lemma together_blocks : forall r p, is_rgs r -> (1 <= length r)%nat -> rgs_blocks r = Some p ->
  forall i j, (i < length r)%nat -> (j < length r)%nat ->
  (together p (Z.of_nat i) (Z.of_nat j) <-> nth i r 0 = nth j r 0).
Proof.
  intros r p R Hn E i j Hi Hj. rewrite (rgs_blocks_eq r R Hn) in E.
  assert (Ep : p = map (blk r) (iota (S (Z.to_nat (fold_right Z.max 0 r))))) by congruence.
  subst p. clear E.
  split.
  - intros (b & Hb & Hib & Hjb). apply in_map_iff in Hb. destruct Hb as (v & <- & _).
    apply in_blk in Hib. apply in_blk in Hjb. rewrite !Nat2Z.id in *. destruct Hib, Hjb. congruence.
  - intros Eij. exists (blk r (nth i r 0)). split; [|split].
    + apply in_map. apply in_iota.
      pose proof (rgs_entry_range r R Hn i Hi) as Hr.
      destruct (fold_max_spec r) as (Hmax & _ & _). specialize (Hmax (nth i r 0) ltac:(apply nth_In; auto)).
      lia.
    + apply in_blk. rewrite Nat2Z.id. split; [lia|auto].
    + apply in_blk. rewrite Nat2Z.id. split; [lia|auto].
Qed.

(* a restricted growth string is determined by which of its entries are equal *)
Lemma rgs_determined : forall r1 r2, is_rgs r1 -> is_rgs r2 -> length r1 = length r2 ->
  (forall i j, (i < length r1)%nat -> (j < length r1)%nat ->
     (nth i r1 0 = nth j r1 0 <-> nth i r2 0 = nth j r2 0)) ->
  r1 = r2.
Proof.
  intros r1 r2 R1 R2 Hl Heq.
  assert (H : forall k, (k <= length r1)%nat -> forall i, (i < k)%nat -> nth i r1 0 = nth i r2 0).
  { induction k as [|k IH]; intros Hk i Hi; [lia|].
    specialize (IH ltac:(lia)).
    destruct (Nat.eq_dec i k) as [->|Hne]; [|apply IH; lia].
    assert (Hp : pmax r1 k = pmax r2 k) by (apply pmax_ext; auto).
    pose proof (R1 k ltac:(lia)) as B1. pose proof (R2 k ltac:(lia)) as B2.
    destruct (Z_le_gt_dec (nth k r1 0) (pmax r1 k)) as [C1|C1].
    - destruct (rgs_values r1 R1 k ltac:(lia) (nth k r1 0) ltac:(lia)) as (j & Hj & E).
      pose proof (proj1 (Heq j k ltac:(lia) ltac:(lia)) E) as E2. rewrite <- E, <- E2. apply IH. auto.
    - destruct (Z_le_gt_dec (nth k r2 0) (pmax r2 k)) as [C2|C2]; [|lia].
      exfalso. destruct (rgs_values r2 R2 k ltac:(lia) (nth k r2 0) ltac:(lia)) as (j & Hj & E).
      pose proof (proj2 (Heq j k ltac:(lia) ltac:(lia)) E) as E1.
      pose proof (pmax_ge_nth r1 j k Hj). lia. }
  apply nth_ext0; auto. intros i Hi. apply (H (length r1)); auto.
Qed.

Theorem setpart_unique : forall n r1 r2 p1 p2, (1 <= n)%nat -> rgs_F n r1 -> rgs_F n r2 ->
  rgs_blocks r1 = Some p1 -> rgs_blocks r2 = Some p2 -> same_partition n p1 p2 -> r1 = r2.
Proof.
  intros n r1 r2 p1 p2 Hn [L1 R1] [L2 R2] E1 E2 Hs.
  apply rgs_determined; auto; [lia|]. intros i j Hi Hj.
  rewrite <- (together_blocks r1 p1 R1 ltac:(lia) E1 i j Hi Hj).
  rewrite <- (together_blocks r2 p2 R2 ltac:(lia) E2 i j ltac:(lia) ltac:(lia)).
  apply Hs; lia.
Qed.

(* ------------------------------------------------------------------ from a partition to its string *)

Section Build.
Variable n : nat.
Variable p : list (list Z).
Hypothesis Hp : is_setpart n p.

Definition tog (i j : Z) : bool := existsb (fun b => memb i b && memb j b) p.

Lemma tog_spec : forall i j, tog i j = true <-> together p i j.
Proof.
  intros i j. unfold tog, together. rewrite existsb_exists. split.
  - intros (b & Hb & H). apply andb_true_iff in H. destruct H as [H1 H2].
    apply memb_In in H1. apply memb_In in H2. exists b. auto.
  - intros (b & Hb & H1 & H2). exists b. split; auto. apply andb_true_iff. split; apply memb_In; auto.
Qed.

Lemma together_refl : forall i, 0 <= i < Z.of_nat n -> together p i i.
Proof. intros i Hi. destruct Hp as (_ & Hcov & _). destruct (Hcov i Hi) as (b & Hb & Hib). exists b. auto. Qed.

Lemma together_sym : forall i j, together p i j -> together p j i.
Proof. intros i j (b & Hb & H1 & H2). exists b. auto. Qed.

Lemma together_trans : forall i j k, together p i j -> together p j k -> together p i k.
Proof.
  intros i j k (b1 & Hb1 & Hi & Hj) (b2 & Hb2 & Hj' & Hk). destruct Hp as (_ & _ & Hdis & _).
  assert (b1 = b2) by (apply (Hdis b1 b2 j); auto). subst. exists b2. auto.
Qed.

Fixpoint build (k : nat) : list Z :=
  match k with
  | O => []
  | S k' =>
    let r := build k' in
    r ++ [match find (fun j => tog (Z.of_nat j) (Z.of_nat k')) (seq 0 k') with
          | Some j => nth j r 0
          | None => pmax r k' + 1
          end]
  end.

Lemma build_spec : forall k, (k <= n)%nat ->
  length (build k) = k /\ is_rgs (build k) /\
  forall i j, (i < k)%nat -> (j < k)%nat ->
    (nth i (build k) 0 = nth j (build k) 0 <-> together p (Z.of_nat i) (Z.of_nat j)).
Proof.
  induction k as [|k IH]; intros Hk.
  - split; [reflexivity|]. split; [intros j Hj; simpl in Hj; lia|intros; lia].
  - destruct (IH ltac:(lia)) as (Lr & Rr & Er). cbn [build]. set (r := build k) in *.
    set (e := match find (fun j => tog (Z.of_nat j) (Z.of_nat k)) (seq 0 k) with
              | Some j => nth j r 0 | None => pmax r k + 1 end).
    assert (Hold : forall i, (i < k)%nat -> nth i (r ++ [e]) 0 = nth i r 0) by (intros; apply app_nth1; lia).
    assert (Hnew : nth k (r ++ [e]) 0 = e) by (rewrite <- Lr; apply nth_app_last).
    assert (Hpm : forall j, (j <= k)%nat -> pmax (r ++ [e]) j = pmax r j).
    { intros j Hj. apply pmax_ext. intros i Hi. apply Hold. lia. }
    (* the new entry against the old ones *)
    assert (He : 0 <= e <= pmax r k + 1 /\
                 forall j, (j < k)%nat -> (e = nth j r 0 <-> together p (Z.of_nat k) (Z.of_nat j))).
    { unfold e. destruct (find _ (seq 0 k)) as [j0|] eqn:F.
      - apply find_some in F. destruct F as [Hj0 T0]. apply in_seq in Hj0. apply tog_spec in T0.
        split.
        + pose proof (Rr j0 ltac:(lia)). pose proof (pmax_ge_nth r j0 k ltac:(lia)). lia.
        + intros j Hj. rewrite (Er j0 j ltac:(lia) Hj). split; intros H.
          * eapply together_trans; [apply together_sym; exact T0|exact H].
          * eapply together_trans; [exact T0|exact H].
      - split; [pose proof (pmax_ge_m1 r k); lia|]. intros j Hj. split.
        + intros H. pose proof (pmax_ge_nth r j k Hj). lia.
        + intros H. exfalso. pose proof (find_none _ _ F j ltac:(apply in_seq; lia)) as Fj.
          apply together_sym, tog_spec in H. simpl in Fj. congruence. }
    destruct He as [He1 He2].
    split; [rewrite app_length, Lr; simpl; lia|]. split.
    + intros j Hj. rewrite app_length in Hj. simpl in Hj.
      destruct (Nat.eq_dec j k) as [->|Hne].
      * rewrite Hnew, Hpm by lia. exact He1.
      * rewrite Hold, Hpm by lia. apply Rr. lia.
    + intros i j Hi Hj.
      destruct (Nat.eq_dec i k) as [->|Hi']; destruct (Nat.eq_dec j k) as [->|Hj'].
      * split; auto. intros _. apply together_refl. lia.
      * rewrite Hnew, Hold by lia. apply He2. lia.
      * rewrite Hnew, Hold by lia. split.
        -- intros H. apply together_sym. apply He2; [lia|auto].
        -- intros H. symmetry. apply He2; [lia|]. apply together_sym. auto.
      * rewrite !Hold by lia. apply Er; lia.
Qed.

End Build.

Theorem setpart_surjective : forall n p, (1 <= n)%nat -> is_setpart n p ->
  exists r p', rgs_F n r /\ rgs_blocks r = Some p' /\ same_partition n p p'.
Proof.
  intros n p Hn Hp. destruct (build_spec n p Hp n (le_n _)) as (L & R & E).
  set (r := build p n) in *.
  pose proof (rgs_blocks_eq r R ltac:(lia)) as Eb.
  eexists r, _. split; [split; auto|]. split; [exact Eb|].
  intros i j Hi Hj.
  pose proof (together_blocks r _ R ltac:(lia) Eb (Z.to_nat i) (Z.to_nat j) ltac:(lia) ltac:(lia)) as T.
  rewrite !Z2Nat.id in T by lia. rewrite T.
  rewrite (E (Z.to_nat i) (Z.to_nat j)) by lia. rewrite !Z2Nat.id by lia. tauto.
Qed.

(* Partitions(n), n >= 1: for every set partition p of {0..n-1} exactly one of the restricted
   growth strings run through by the iterator has p (as a partition) as its value. *)
Theorem parts_every_setpart_once : forall n', exists s0, parts_init (S n') = Some s0 /\
  exists lr e,
    (forall fuel, (length lr < fuel)%nat ->
       drain parts_next parts_value fuel s0 = Some (map rgs_blocks lr, e)) /\
    NoDup lr /\ exhausted parts_next e /\
    forall p, is_setpart (S n') p ->
      exists r, In r lr /\ (exists p', rgs_blocks r = Some p' /\ same_partition (S n') p p') /\
        forall r2 p2, In r2 lr -> rgs_blocks r2 = Some p2 -> same_partition (S n') p p2 -> r2 = r.
Proof.
  intros n'. destruct (parts_value_enumerates n') as (s0 & Hs0 & lr & e & Hd & Hin & Hnd & _ & _ & Hex).
  exists s0. split; auto. exists lr, e. split; auto. split; auto. split; auto.
  intros p Hp. destruct (setpart_surjective (S n') p ltac:(lia) Hp) as (r & p' & Hr & Eb & Hs).
  exists r. split; [apply Hin; auto|]. split; [exists p'; auto|].
  intros r2 p2 Hr2 E2 Hs2. apply (setpart_unique (S n') r2 r p2 p'); auto; [lia|apply Hin; auto|].
  intros i j Hi Hj. rewrite <- (Hs2 i j Hi Hj). apply Hs; auto.
Qed.
