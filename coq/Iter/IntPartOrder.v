(* Integer partitions as non-increasing lists of positive integers, the lexicographic order on
   lists of positive integers of any length, and the order-theoretic successor lemma used for
   itertools.IntegerPartitions (which runs through them in reverse lexicographic order). *)
From Coq Require Import List ZArith Lia Arith Bool.
From Mamba Require Import Iter.Model Iter.Lex Iter.PermUtil.
Import ListNotations.
Open Scope Z_scope.

(* ------------------------------------------------------------------ lexicographic order *)

(* [nth _ _ 0] pads with zeros; on lists of positive entries this is the usual lexicographic
   order (a proper prefix is smaller): see [plt_std]. *)
Definition plt (x y : list Z) : Prop := exists j, agree x y j /\ nth j x 0 < nth j y 0.

Definition positive (x : list Z) : Prop := forall v, In v x -> 1 <= v.

Inductive std_lex : list Z -> list Z -> Prop :=
| std_nil : forall b y, std_lex [] (b :: y)
| std_lt : forall a b x y, a < b -> std_lex (a :: x) (b :: y)
| std_eq : forall a x y, std_lex x y -> std_lex (a :: x) (a :: y).

Lemma plt_std : forall x y, positive x -> positive y -> (plt x y <-> std_lex x y).
Proof.
  induction x as [|a x IH]; intros y Px Py.
  - split.
    + intros (j & A & H). destruct y as [|b y]; [destruct j; simpl in H; lia|constructor].
    + intros H. inversion H; subst. exists O. split; [intros i Hi; lia|].
      simpl. specialize (Py b ltac:(left; auto)). lia.
  - assert (Px' : positive x) by (intros v Hv; apply Px; right; auto).
    split.
    + intros (j & A & H). destruct y as [|b y].
      * exfalso. destruct j as [|j].
        -- simpl in H. specialize (Px a ltac:(left; auto)). lia.
        -- specialize (A O ltac:(lia)). simpl in A. specialize (Px a ltac:(left; auto)). lia.
      * assert (Py' : positive y) by (intros v Hv; apply Py; right; auto).
        destruct j as [|j].
        -- simpl in H. apply std_lt. auto.
        -- pose proof (A O ltac:(lia)) as A0. simpl in A0. subst b. apply std_eq.
           apply IH; auto. exists j. split; [|exact H].
           intros i Hi. apply (A (S i)). lia.
    + intros H. inversion H; subst.
      * exists O. split; [intros i Hi; lia|simpl; auto].
      * assert (Py' : positive y0) by (intros v Hv; apply Py; right; auto).
        apply IH in H3; auto. destruct H3 as (j & A & Hj). exists (S j). split; [|exact Hj].
        intros [|i] Hi; simpl; auto. apply A. lia.
Qed.

Lemma plt_irrefl : forall x, ~ plt x x.
Proof. intros x (j & _ & H). lia. Qed.

Lemma plt_trans : forall x y z, plt x y -> plt y z -> plt x z.
Proof.
  intros x y z (j1 & A1 & H1) (j2 & A2 & H2).
  destruct (lt_eq_lt_dec j1 j2) as [[Hc|Hc]|Hc].
  - exists j1. split.
    + intros i Hi. rewrite A1 by lia. apply A2. lia.
    + rewrite <- A2 by lia. auto.
  - subst j2. exists j1. split.
    + intros i Hi. rewrite A1 by lia. apply A2. lia.
    + lia.
  - exists j2. split.
    + intros i Hi. rewrite A1 by lia. apply A2. lia.
    + rewrite A1 by lia. auto.
Qed.

Lemma first_diff0 : forall x y : list Z,
  (forall i, nth i x 0 = nth i y 0) \/ exists j, agree x y j /\ nth j x 0 <> nth j y 0.
Proof.
  assert (Hnil : forall y : list Z,
    (forall i, nth i (@nil Z) 0 = nth i y 0) \/ exists j, agree [] y j /\ nth j (@nil Z) 0 <> nth j y 0).
  { induction y as [|b y IH]; [left; auto|].
    destruct (Z.eq_dec b 0) as [->|Hb].
    - destruct IH as [IH|(j & A & D)].
      + left. intros [|i]; auto. simpl. rewrite <- IH. destruct i; auto.
      + right. exists (S j). split.
        * intros [|i] Hi; auto. specialize (A i ltac:(lia)). simpl. rewrite <- A. destruct i; auto.
        * simpl. destruct j; auto.
    - right. exists O. split; [intros i Hi; lia|simpl; auto]. }
  induction x as [|a x IH]; intros y; [apply Hnil|].
  destruct y as [|b y].
  - destruct (Hnil (a :: x)) as [H|(j & A & D)].
    + left. intros i. symmetry. apply H.
    + right. exists j. split; [apply agree_sym; auto|auto].
  - destruct (Z.eq_dec a b) as [->|Hab].
    + destruct (IH y) as [H|(j & A & D)].
      * left. intros [|i]; simpl; auto.
      * right. exists (S j). split; auto. intros [|i] Hi; simpl; auto. apply A. lia.
    + right. exists O. split; [intros i Hi; lia|simpl; auto].
Qed.

Lemma positive_ext : forall x y, positive x -> positive y -> (forall i, nth i x 0 = nth i y 0) -> x = y.
Proof.
  induction x as [|a x IH]; intros [|b y] Px Py H; auto.
  - specialize (H O). simpl in H. specialize (Py b ltac:(left; auto)). lia.
  - specialize (H O). simpl in H. specialize (Px a ltac:(left; auto)). lia.
  - f_equal; [apply (H O)|]. apply IH.
    + intros v Hv. apply Px. right; auto.
    + intros v Hv. apply Py. right; auto.
    + intros i. apply (H (S i)).
Qed.

Lemma plt_total : forall x y, positive x -> positive y -> x = y \/ plt x y \/ plt y x.
Proof.
  intros x y Px Py. destruct (first_diff0 x y) as [H|(j & A & D)].
  - left. apply positive_ext; auto.
  - right. destruct (Z.lt_total (nth j x 0) (nth j y 0)) as [Hc|[Hc|Hc]]; try lia.
    + left. exists j. auto.
    + right. exists j. split; [apply agree_sym; auto|auto].
Qed.

Lemma plt_no_between : forall (F : list Z -> Prop) (x y : list Z) (j : nat),
  agree x y j -> nth j x 0 < nth j y 0 ->
  (forall z, F z -> agree x z j -> nth j x 0 < nth j z 0 -> nth j z 0 < nth j y 0 -> False) ->
  (forall z i, F z -> (j < i)%nat -> agree x z i -> nth i z 0 <= nth i x 0) ->
  (forall z i, F z -> (j < i)%nat -> agree y z i -> nth i y 0 <= nth i z 0) ->
  forall z, F z -> plt x z -> plt z y -> False.
Proof.
  intros F x y j Axy Hlt Ha Hb Hc z Fz (i1 & A1 & H1) (i2 & A2 & H2).
  destruct (lt_eq_lt_dec i1 j) as [[C1|C1]|C1].
  - destruct (lt_eq_lt_dec i2 i1) as [[C2|C2]|C2].
    + rewrite <- A1 in H2 by lia. rewrite Axy in H2 by lia. lia.
    + subst i2. rewrite <- Axy in H2 by lia. lia.
    + rewrite A2 in H1 by lia. rewrite <- Axy in H1 by lia. lia.
  - subst i1.
    destruct (lt_eq_lt_dec i2 j) as [[C2|C2]|C2].
    + rewrite <- A1 in H2 by lia. rewrite Axy in H2 by lia. lia.
    + subst i2. eapply Ha; eauto.
    + assert (nth i2 y 0 <= nth i2 z 0); [|lia].
      apply Hc; auto. apply agree_sym; auto.
  - assert (nth i1 z 0 <= nth i1 x 0); [|lia].
    apply Hb; auto.
Qed.

(* ------------------------------------------------------------------ tail sums *)

Definition tsum (z : list Z) (i : nat) : Z := zsum (skipn i z).

Lemma zsum_firstn_agree : forall i (z w : list Z), agree z w i -> zsum (firstn i z) = zsum (firstn i w).
Proof.
  induction i as [|i IH]; intros z w A; [reflexivity|].
  destruct z as [|a z], w as [|b w].
  - reflexivity.
  - pose proof (A O ltac:(lia)) as A0. simpl in A0. subst b.
    cbn [firstn]. rewrite zsum_cons. rewrite <- (IH [] w).
    + destruct i; reflexivity.
    + intros k Hk. specialize (A (S k) ltac:(lia)). simpl in A. rewrite <- A. destruct k; auto.
  - pose proof (A O ltac:(lia)) as A0. simpl in A0. subst a.
    cbn [firstn]. rewrite zsum_cons. rewrite (IH z []).
    + destruct i; reflexivity.
    + intros k Hk. specialize (A (S k) ltac:(lia)). simpl in A. rewrite A. destruct k; auto.
  - pose proof (A O ltac:(lia)) as A0. simpl in A0. subst b.
    cbn [firstn]. rewrite !zsum_cons. rewrite (IH z w); auto.
    intros k Hk. apply (A (S k)). lia.
Qed.

Lemma zsum_split : forall i (z : list Z), zsum z = zsum (firstn i z) + tsum z i.
Proof. intros. unfold tsum. rewrite <- zsum_app, firstn_skipn. reflexivity. Qed.

Lemma tsum_agree : forall i z w, agree z w i -> zsum z = zsum w -> tsum z i = tsum w i.
Proof.
  intros i z w A H. rewrite (zsum_split i z), (zsum_split i w) in H.
  rewrite (zsum_firstn_agree i z w A) in H. lia.
Qed.

Lemma nth_le_tsum : forall i (z : list Z), (forall v, In v z -> 0 <= v) -> nth i z 0 <= tsum z i.
Proof.
  intros i z Hz. unfold tsum.
  assert (Hs : forall v, In v (skipn i z) -> 0 <= v).
  { intros v Hv. apply Hz. rewrite <- (firstn_skipn i z). apply in_or_app. right; auto. }
  replace (nth i z 0) with (nth O (skipn i z) 0) by (rewrite nth_skipn0; f_equal; lia).
  destruct (skipn i z) as [|b t]; [simpl; lia|].
  rewrite zsum_cons. simpl nth.
  assert (0 <= zsum t) by (apply zsum_nonneg; intros v Hv; apply Hs; right; auto). lia.
Qed.

Lemma tsum_pos_nth : forall i (z : list Z), positive z -> 0 < tsum z i -> 1 <= nth i z 0.
Proof.
  intros i z Pz H. unfold tsum in H.
  destruct (le_lt_dec (length z) i) as [Hl|Hl].
  - rewrite skipn_all2 in H by auto. simpl in H. lia.
  - apply Pz. apply nth_In. auto.
Qed.

Lemma tsum_beyond : forall i (z : list Z), (length z <= i)%nat -> tsum z i = 0.
Proof. intros. unfold tsum. rewrite skipn_all2 by auto. reflexivity. Qed.

Lemma tsum_last : forall i (z : list Z), length z = S i -> tsum z i = nth i z 0.
Proof.
  intros i z H. unfold tsum.
  replace (nth i z 0) with (nth O (skipn i z) 0) by (rewrite nth_skipn0; f_equal; lia).
  pose proof (skipn_length i z) as Hl. rewrite H in Hl.
  destruct (skipn i z) as [|b [|c t]]; cbn [length] in Hl; try lia. rewrite zsum_cons. simpl. lia.
Qed.

Lemma zsum_ones : forall l : list Z, (forall v, In v l -> v = 1) -> zsum l = Z.of_nat (length l).
Proof.
  induction l as [|a l IH]; intros H; [reflexivity|].
  rewrite zsum_cons, IH by (intros v Hv; apply H; right; auto).
  rewrite (H a) by (left; auto). simpl length. lia.
Qed.

(* ------------------------------------------------------------------ the family *)

Definition is_ipart (n : nat) (x : list Z) : Prop :=
  positive x /\ (forall i, (S i < length x)%nat -> nth (S i) x 0 <= nth i x 0) /\ zsum x = Z.of_nat n.

Lemma positive_nonneg : forall x, positive x -> forall v, In v x -> 0 <= v.
Proof. intros x P v Hv. specialize (P v Hv). lia. Qed.

Lemma positive_nth_nonneg : forall x i, positive x -> 0 <= nth i x 0.
Proof.
  intros x i P. destruct (le_lt_dec (length x) i).
  - rewrite nth_overflow by auto. lia.
  - specialize (P (nth i x 0) (nth_In _ _ l)). lia.
Qed.

Lemma ipart_step_down : forall n z i, is_ipart n z -> nth (S i) z 0 <= nth i z 0.
Proof.
  intros n z i (P & D & _). destruct (le_lt_dec (length z) (S i)).
  - rewrite (nth_overflow z) by auto. apply positive_nth_nonneg; auto.
  - apply D; auto.
Qed.

Lemma positive_length_le_sum : forall x, positive x -> Z.of_nat (length x) <= zsum x.
Proof.
  induction x as [|a x IH]; intros P; [simpl; lia|].
  rewrite zsum_cons. specialize (IH ltac:(intros v Hv; apply P; right; auto)).
  specialize (P a ltac:(left; auto)). simpl length. lia.
Qed.

Lemma ipart_finite : forall n, exists all : list (list Z), forall x, is_ipart n x -> In x all.
Proof.
  intros n. exists (all_lists_upto n (S n)). intros x (P & _ & S).
  apply all_lists_upto_complete.
  - pose proof (positive_length_le_sum x P). lia.
  - intros i Hi. pose proof (P (nth i x 0) (nth_In _ _ Hi)).
    pose proof (nth_le_tsum i x (positive_nonneg x P)).
    pose proof (zsum_split i x).
    assert (0 <= zsum (firstn i x)).
    { apply zsum_nonneg. intros v Hv. apply (positive_nonneg x P). rewrite <- (firstn_skipn i x).
      apply in_or_app. left; auto. }
    lia.
Qed.

(* The successor lemma.  cur and nxt agree before position k, nxt[k] = cur[k] - 1, after k cur
   consists of ones, and after k every entry of nxt except possibly the last repeats the entry
   before it.  Then no partition of n lies strictly between nxt and cur. *)
Lemma ipart_no_between : forall n cur nxt k,
  is_ipart n cur -> is_ipart n nxt ->
  agree nxt cur k -> nth k nxt 0 + 1 = nth k cur 0 ->
  (forall i, (k < i < length cur)%nat -> nth i cur 0 = 1) ->
  (forall i, (k < i)%nat -> (S i < length nxt)%nat -> nth i nxt 0 = nth (i - 1) nxt 0) ->
  forall z, is_ipart n z -> plt nxt z -> plt z cur -> False.
Proof.
  intros n cur nxt k Fc Fn A Hk Hones Hrep.
  apply (plt_no_between (is_ipart n) nxt cur k); auto; try lia.
  - intros z i Fz Hi Az.
    destruct Fn as (Pn & Dn & Sn). pose proof Fz as (Pz & Dz & Sz).
    destruct (le_lt_dec (length nxt) (S i)) as [Hlast|Hmid].
    + (* at or beyond the last entry of nxt: compare remaining sums *)
      pose proof (nth_le_tsum i z (positive_nonneg z Pz)) as H1.
      rewrite <- (tsum_agree i nxt z Az ltac:(lia)) in H1.
      destruct (Nat.eq_dec (length nxt) (S i)) as [E|E].
      * rewrite tsum_last in H1 by auto. exact H1.
      * rewrite tsum_beyond in H1 by lia. rewrite (nth_overflow nxt) by lia. exact H1.
    + rewrite Hrep by lia.
      pose proof (ipart_step_down n z (i - 1) Fz) as H1.
      replace (S (i - 1)) with i in H1 by lia.
      rewrite (Az (i - 1)%nat) by lia. exact H1.
  - intros z i Fz Hi Az.
    destruct Fc as (Pc & Dc & Sc). pose proof Fz as (Pz & Dz & Sz).
    destruct (le_lt_dec (length cur) i) as [Hb|Hb].
    + rewrite (nth_overflow cur) by auto. apply positive_nth_nonneg; auto.
    + rewrite Hones by lia. apply tsum_pos_nth; auto.
      rewrite <- (tsum_agree i cur z Az ltac:(lia)).
      assert (1 <= nth i cur 0) by (apply Pc, nth_In; auto).
      pose proof (nth_le_tsum i cur (positive_nonneg cur Pc)). lia.
Qed.

(* the list of ones is the least partition, [n] the greatest *)
Lemma ipart_least : forall n cur, is_ipart n cur -> (forall i, (i < length cur)%nat -> nth i cur 0 = 1) ->
  forall z, is_ipart n z -> ~ plt z cur.
Proof.
  intros n cur (Pc & Dc & Sc) Hones z (Pz & Dz & Sz) (i & A & H).
  destruct (le_lt_dec (length cur) i) as [Hb|Hb].
  - rewrite (nth_overflow cur) in H by auto. pose proof (positive_nth_nonneg z i Pz). lia.
  - rewrite Hones in H by auto.
    assert (1 <= nth i z 0); [|lia]. apply tsum_pos_nth; auto.
    rewrite (tsum_agree i z cur A ltac:(lia)).
    assert (1 <= nth i cur 0) by (apply Pc, nth_In; auto).
    pose proof (nth_le_tsum i cur (positive_nonneg cur Pc)). lia.
Qed.

Lemma ipart_greatest : forall n cur, is_ipart n cur -> (length cur <= 1)%nat ->
  forall z, is_ipart n z -> ~ plt cur z.
Proof.
  intros n cur (Pc & Dc & Sc) Hlen z (Pz & Dz & Sz) (i & A & H).
  pose proof (nth_le_tsum i z (positive_nonneg z Pz)) as H1.
  rewrite <- (tsum_agree i cur z A ltac:(lia)) in H1.
  destruct (le_lt_dec (length cur) i) as [Hb|Hb].
  - rewrite tsum_beyond in H1 by auto. rewrite (nth_overflow cur) in H by auto. lia.
  - rewrite tsum_last in H1 by lia. lia.
Qed.
