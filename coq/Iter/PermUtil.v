(* Utilities shared by the second group of C15 iterator proofs (files Perm.., Part.., IntPart..,
   Multiset.., Heap.., Topo..): exact fuel for [drain], the packaged statement [enumerates],
   checked swap, monotone chains, finiteness of lists over an alphabet, sums. *)
From Coq Require Import List ZArith Lia Arith Bool Sorted Permutation.
From Mamba Require Import Iter.Model Iter.Enum Iter.Lex.
Import ListNotations.
Open Scope Z_scope.

(* ------------------------------------------------------------------ drain: exact fuel *)

Section Drain.
Variables St Obj : Type.
Variable next : St -> option (St * bool).
Variable value : St -> Obj.

Lemma drain_fuel_exact : forall fuel s l e, drain next value fuel s = Some (l, e) ->
  forall f, (length l < f)%nat -> drain next value f s = Some (l, e).
Proof.
  induction fuel as [|fuel IH]; intros s l e H f Hf; [discriminate|].
  destruct f as [|f]; [lia|]. simpl in *.
  destruct (next s) as [[s' [|]]|]; try discriminate; auto.
  destruct (drain next value fuel s') as [[l' e']|] eqn:E; [|discriminate].
  inversion H; subst. simpl in Hf. rewrite (IH s' l' e E f) by lia. reflexivity.
Qed.

(* The packaged statement: [Next] called from s0 returns true exactly [length l] times, the
   values observed after these calls are the list l, which is strictly sorted for [lt], has no
   repetition and consists exactly of the members of the family F; no call panics (any fuel
   above [length l] suffices and the result is [Some]); every later call returns false. *)
Definition enumerates (lt : Obj -> Obj -> Prop) (F : Obj -> Prop) (s0 : St) : Prop :=
  exists l e, (forall fuel, (length l < fuel)%nat -> drain next value fuel s0 = Some (l, e)) /\
    StronglySorted lt l /\ NoDup l /\ (forall x, In x l <-> F x) /\ exhausted next e.

Lemma enumerates_of_sorted : forall (lt : Obj -> Obj -> Prop) (F : Obj -> Prop) s0,
  (forall x, F x -> ~ lt x x) ->
  (exists fuel l e, drain next value fuel s0 = Some (l, e) /\
     StronglySorted lt l /\ (forall x, In x l <-> F x) /\ exhausted next e) ->
  enumerates lt F s0.
Proof.
  intros lt F s0 Hirr (fuel & l & e & Hd & Hs & Hin & Hex).
  exists l, e. split; [|split; [|split; [|split]]]; auto.
  - intros f Hf. eapply drain_fuel_exact; eauto.
  - clear Hd. induction l as [|a l IH]; [constructor|].
    inversion Hs as [|? ? Hs' Hall]; subst. constructor.
    + intro Hi. rewrite Forall_forall in Hall. apply (Hirr a); [apply Hin; left; auto|auto].
    + clear IH. revert Hs'. clear - Hirr Hin. intros Hs'.
      assert (HF : forall x, In x l -> F x) by (intros x Hx; apply Hin; right; auto).
      clear Hin. induction l as [|b l IH]; [constructor|].
      inversion Hs' as [|? ? Hs'' Hall]; subst. constructor.
      * intro Hi. rewrite Forall_forall in Hall. apply (Hirr b); [apply HF; left; auto|auto].
      * apply IH; auto. intros x Hx. apply HF. right; auto.
Qed.

End Drain.

Arguments enumerates {St Obj}.

(* ------------------------------------------------------------------ swap *)

Definition swp (l : list Z) (i j : nat) : list Z := upd (upd l i (nth j l 0)) j (nth i l 0).

Lemma swap_swp : forall l i j, (i < length l)%nat -> (j < length l)%nat -> swap l i j = Some (swp l i j).
Proof.
  intros l i j Hi Hj. unfold swap, swp. rewrite (get_nth l i Hi), (get_nth l j Hj).
  rewrite set_upd by auto. rewrite set_upd by (rewrite upd_length; auto). reflexivity.
Qed.

Lemma swp_length : forall l i j, length (swp l i j) = length l.
Proof. intros. unfold swp. rewrite !upd_length. auto. Qed.

Lemma nth_swp : forall l i j k, (i < length l)%nat -> (j < length l)%nat ->
  nth k (swp l i j) 0 = if (j =? k)%nat then nth i l 0 else if (i =? k)%nat then nth j l 0 else nth k l 0.
Proof.
  intros. unfold swp. rewrite nth_upd by (rewrite upd_length; auto). rewrite nth_upd by auto. reflexivity.
Qed.

(* ------------------------------------------------------------------ nth, firstn, skipn *)

Lemma nth_skipn0 : forall i (l : list Z) k, nth k (skipn i l) 0 = nth (i + k) l 0.
Proof.
  induction i as [|i IH]; intros [|a l] k; simpl; auto. destruct k; auto.
Qed.

Lemma agree_firstn : forall i (x z : list Z), agree x z i -> (i <= length x)%nat -> length x = length z ->
  firstn i x = firstn i z.
Proof.
  induction i as [|i IH]; intros x z A Hi Hl; [reflexivity|].
  destruct x as [|a x]; [simpl in Hi; lia|]. destruct z as [|b z]; [discriminate|].
  simpl. f_equal.
  - apply (A O). lia.
  - apply IH; simpl in *; try lia. intros k Hk. apply (A (S k)). lia.
Qed.

(* two arrangements of the same multiset that agree before i: the entry of one at i occurs in
   the other at or after i *)
Lemma perm_agree_nth : forall (x z : list Z) i, Permutation z x -> agree x z i -> (i < length x)%nat ->
  exists k, (i <= k < length x)%nat /\ nth i z 0 = nth k x 0.
Proof.
  intros x z i HP A Hi.
  pose proof (Permutation_length HP) as Hl.
  pose proof (agree_firstn i x z A ltac:(lia) ltac:(lia)) as Hf.
  assert (HP' : Permutation (skipn i z) (skipn i x)).
  { apply Permutation_app_inv_l with (l := firstn i x).
    rewrite firstn_skipn. rewrite Hf at 1. rewrite firstn_skipn. exact HP. }
  assert (Hin : In (nth i z 0) (skipn i z)).
  { replace (nth i z 0) with (nth O (skipn i z) 0) by (rewrite nth_skipn0; f_equal; lia).
    apply nth_In. rewrite skipn_length. lia. }
  apply (Permutation_in _ HP') in Hin.
  destruct (In_nth _ _ 0 Hin) as (k & Hk & Ek). rewrite skipn_length in Hk.
  exists (i + k)%nat. split; [lia|]. rewrite <- Ek. apply nth_skipn0.
Qed.

(* monotone chains *)
Lemma chain_le : forall (f : nat -> Z) lo n,
  (forall p, (lo <= p)%nat -> (S p < n)%nat -> f p <= f (S p)) ->
  forall i k, (lo <= i <= k)%nat -> (k < n)%nat -> f i <= f k.
Proof.
  intros f lo n H i k. induction k as [|k IH]; intros Hik Hk.
  - assert (i = O) by lia. subst. lia.
  - destruct (Nat.eq_dec i (S k)) as [->|]; [lia|].
    specialize (IH ltac:(lia) ltac:(lia)). specialize (H k ltac:(lia) ltac:(lia)). lia.
Qed.

Lemma chain_ge : forall (f : nat -> Z) lo n,
  (forall p, (lo <= p)%nat -> (S p < n)%nat -> f (S p) <= f p) ->
  forall i k, (lo <= i <= k)%nat -> (k < n)%nat -> f k <= f i.
Proof.
  intros f lo n H i k Hik Hk.
  pose proof (chain_le (fun p => - f p) lo n) as C. cbv beta in C.
  specialize (C ltac:(intros p H1 H2; specialize (H p H1 H2); lia) i k Hik Hk). lia.
Qed.

(* ------------------------------------------------------------------ finiteness *)

Fixpoint lists_over (m : nat) (alpha : list Z) : list (list Z) :=
  match m with
  | O => [[]]
  | S m' => flat_map (fun v => map (cons v) (lists_over m' alpha)) alpha
  end.

Lemma lists_over_complete : forall m alpha x, length x = m -> (forall v, In v x -> In v alpha) ->
  In x (lists_over m alpha).
Proof.
  induction m as [|m IH]; intros alpha x Hl Hin.
  - destruct x; [left; auto|discriminate].
  - destruct x as [|a x]; [discriminate|]. simpl. apply in_flat_map. exists a. split.
    + apply Hin. left; auto.
    + apply in_map. apply IH; [simpl in Hl; lia|]. intros v Hv. apply Hin. right; auto.
Qed.

(* ------------------------------------------------------------------ sums *)

Definition zsum (l : list Z) : Z := fold_right Z.add 0 l.

Lemma zsum_app : forall a b, zsum (a ++ b) = zsum a + zsum b.
Proof. induction a as [|v a IH]; intros; [reflexivity|]. change (v + zsum (a ++ b) = v + zsum a + zsum b). rewrite IH. lia. Qed.

Lemma zsum_cons : forall v l, zsum (v :: l) = v + zsum l.
Proof. reflexivity. Qed.

Lemma zsum_repeat : forall v k, zsum (repeat v k) = v * Z.of_nat k.
Proof. induction k; [simpl; lia|]. cbn [repeat]. rewrite zsum_cons, IHk. lia. Qed.

Lemma zsum_nonneg : forall l, (forall v, In v l -> 0 <= v) -> 0 <= zsum l.
Proof.
  induction l as [|a l IH]; intros H; [simpl; lia|].
  specialize (IH ltac:(intros v Hv; apply H; right; auto)). specialize (H a ltac:(left; auto)).
  change (0 <= a + zsum l). lia.
Qed.

(* ------------------------------------------------------------------ swaps permute *)

Lemma swp_perm : forall l i j, (i < length l)%nat -> (j < length l)%nat -> Permutation l (swp l i j).
Proof.
  intros l i j Hi Hj. apply (Permutation_nth l (swp l i j) 0). cbv zeta.
  split; [apply swp_length|].
  exists (fun k => if (j =? k)%nat then i else if (i =? k)%nat then j else k).
  split; [|split].
  - intros k Hk. destruct (Nat.eqb_spec j k); [auto|]. destruct (Nat.eqb_spec i k); auto.
  - intros k1 k2 H1 H2.
    destruct (Nat.eqb_spec j k1); destruct (Nat.eqb_spec i k1);
    destruct (Nat.eqb_spec j k2); destruct (Nat.eqb_spec i k2); lia.
  - intros k Hk. rewrite nth_swp by auto.
    destruct (Nat.eqb_spec j k); [auto|]. destruct (Nat.eqb_spec i k); auto.
Qed.

(* ------------------------------------------------------------------ the safety half *)

(* For the iterators whose completeness is not proved here.  [safe next value F s0]: from every
   state reachable from the constructor's state by calls of Next, the next call does not panic
   (and does not run out of internal fuel); if it returns true the value then held is a member
   of the family F; if it returns false every later call returns false as well. *)
Section Safety.
Variables St Obj : Type.
Variable next : St -> option (St * bool).
Variable value : St -> Obj.

Inductive reachable (s0 : St) : St -> Prop :=
| reach_init : reachable s0 s0
| reach_step : forall s s' b, reachable s0 s -> next s = Some (s', b) -> reachable s0 s'.

Definition safe (F : Obj -> Prop) (s0 : St) : Prop :=
  forall s, reachable s0 s ->
    exists s' b, next s = Some (s', b) /\ (b = true -> F (value s')) /\ (b = false -> exhausted next s').

Lemma safe_of_inv : forall (F : Obj -> Prop) (Inv : St -> Prop) s0,
  Inv s0 ->
  (forall s, Inv s -> exists s' b, next s = Some (s', b) /\ Inv s' /\
     (b = true -> F (value s')) /\ (b = false -> exhausted next s')) ->
  safe F s0.
Proof.
  intros F Inv s0 H0 Hstep s Hr.
  assert (Hi : Inv s).
  { induction Hr as [|s s' b Hr IH E]; auto.
    destruct (Hstep s IH) as (s'' & b'' & E' & Hi & _). rewrite E in E'. inversion E'; subst. auto. }
  destruct (Hstep s Hi) as (s' & b & E & _ & H1 & H2). exists s', b. auto.
Qed.

Lemma fixpoint_exhausted : forall s, next s = Some (s, false) -> exhausted next s.
Proof.
  intros s H k. induction k as [|k IH]; simpl; [discriminate|]. rewrite H. exact IH.
Qed.

End Safety.

Arguments reachable {St}.
Arguments safe {St Obj}.
