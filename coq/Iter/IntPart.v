(* itertools.IntegerPartitions: the model of Next() runs through all partitions of n (as
   non-increasing lists of positive parts), each once, in reverse lexicographic order, Value()
   never panics, and exhaustion is reported for ever afterwards.  All n >= 0. *)
From Coq Require Import List ZArith Lia Arith Bool Sorted.
From Mamba Require Import Iter.Model Iter.Enum Iter.Lex Iter.PermUtil Iter.IntPartOrder.
Import ListNotations.
Open Scope Z_scope.

(* ------------------------------------------------------------------ list facts *)

Lemma nth_firstn0 : forall k (l : list Z) i, nth i (firstn k l) 0 = if (i <? k)%nat then nth i l 0 else 0.
Proof.
  induction k as [|k IH]; intros l i.
  - simpl. destruct i; auto.
  - destruct l as [|a l]; [simpl; destruct i; auto; destruct (S i <? S k)%nat; auto|].
    destruct i as [|i]; [reflexivity|]. cbn [firstn nth]. rewrite IH.
    change (S i <? S k)%nat with (i <? k)%nat. reflexivity.
Qed.

Lemma zsum_firstn_S : forall k (a : list Z), (k < length a)%nat ->
  zsum (firstn (S k) a) = zsum (firstn k a) + nth k a 0.
Proof.
  induction k as [|k IH]; intros [|v a] H; simpl in H; try lia.
  - simpl. lia.
  - change (firstn (S (S k)) (v :: a)) with (v :: firstn (S k) a).
    change (firstn (S k) (v :: a)) with (v :: firstn k a).
    rewrite !zsum_cons. rewrite IH by lia. simpl nth. lia.
Qed.

Lemma firstn_upd_ge : forall k (a : list Z) j v, (k <= j)%nat -> firstn k (upd a j v) = firstn k a.
Proof.
  induction k as [|k IH]; intros [|h a] j v H; auto.
  destruct j as [|j]; [lia|]. simpl. f_equal. apply IH. lia.
Qed.

Lemma zsum_firstn_ge2 : forall p (a : list Z), (forall i, (i < p)%nat -> 2 <= nth i a 0) -> (p <= length a)%nat ->
  2 * Z.of_nat p <= zsum (firstn p a).
Proof.
  induction p as [|p IH]; intros a H Hp; [simpl; lia|].
  rewrite zsum_firstn_S by lia. specialize (IH a ltac:(intros; apply H; lia) ltac:(lia)).
  specialize (H p ltac:(lia)). lia.
Qed.

Lemma nth_repeat1 : forall k i, (i < k)%nat -> nth i (repeat 1 k) 0 = 1.
Proof. induction k; intros [|i] H; simpl; try lia; auto. apply IHk. lia. Qed.

(* ------------------------------------------------------------------ invariant *)

Section Fixed.
Variable n : nat.

(* qn = q + 1 is the number of parts larger than 1, mn = m the number of parts *)
Definition ip_inv (a : list Z) (qn mn : nat) : Prop :=
  length a = n /\ (qn <= mn <= n)%nat /\
  (forall i, (i < qn)%nat -> 2 <= nth i a 0) /\
  (forall i, (qn <= i < n)%nat -> nth i a 0 = 1) /\
  (forall i, (S i < qn)%nat -> nth (S i) a 0 <= nth i a 0) /\
  zsum (firstn qn a) + Z.of_nat (mn - qn) = Z.of_nat n.

Definition ip_mk (a : list Z) (qn mn : nat) : ip_st :=
  {| ip_a := a; ip_m := Z.of_nat mn; ip_q := Z.of_nat qn - 1 |}.

Lemma ip_value_mk : forall a qn mn, (mn <= length a)%nat ->
  intparts_value (ip_mk a qn mn) = Some (firstn mn a).
Proof.
  intros a qn mn H. unfold intparts_value, ip_mk, zlen. cbn [ip_a ip_m].
  destruct (Z.ltb_spec (Z.of_nat mn) 0); [lia|].
  destruct (Z.ltb_spec (Z.of_nat (length a)) (Z.of_nat mn)); [lia|].
  simpl. rewrite Nat2Z.id. reflexivity.
Qed.

Lemma ip_inv_ipart : forall a qn mn, ip_inv a qn mn -> is_ipart n (firstn mn a).
Proof.
  intros a qn mn (Hlen & Hq & Hbig & Hone & Hdesc & Hsum).
  assert (Hl : length (firstn mn a) = mn) by (rewrite firstn_length; lia).
  split; [|split].
  - intros v Hv. destruct (In_nth _ _ 0 Hv) as (i & Hi & <-). rewrite Hl in Hi.
    rewrite nth_firstn0. destruct (Nat.ltb_spec i mn); [|lia].
    destruct (le_lt_dec qn i); [rewrite Hone by lia; lia|specialize (Hbig i ltac:(lia)); lia].
  - intros i Hi. rewrite Hl in Hi. rewrite !nth_firstn0.
    destruct (Nat.ltb_spec (S i) mn); [|lia]. destruct (Nat.ltb_spec i mn); [|lia].
    destruct (le_lt_dec qn (S i)).
    + rewrite (Hone (S i)) by lia. destruct (le_lt_dec qn i).
      * rewrite Hone by lia. lia.
      * specialize (Hbig i ltac:(lia)). lia.
    + apply Hdesc. lia.
  - rewrite (zsum_split qn (firstn mn a)). rewrite firstn_firstn. rewrite Nat.min_l by lia.
    unfold tsum. rewrite (zsum_ones (skipn qn (firstn mn a))).
    + rewrite skipn_length, Hl. lia.
    + intros v Hv. destruct (In_nth _ _ 0 Hv) as (i & Hi & <-). rewrite skipn_length, Hl in Hi.
      rewrite nth_skipn0, nth_firstn0. destruct (Nat.ltb_spec (qn + i) mn); [|lia].
      apply Hone. lia.
Qed.

(* ------------------------------------------------------------------ the inner loop *)

Lemma ip_loop_spec : forall fuel p tail x a,
  2 <= x -> 1 <= tail <= Z.of_nat fuel -> length a = n ->
  (forall i, (i < p)%nat -> 2 <= nth i a 0) -> (p <= n)%nat ->
  zsum (firstn p a) + tail = Z.of_nat n ->
  exists p' tail' a', ip_loop fuel (Z.of_nat p - 1) tail x a = Some (Z.of_nat p' - 1, tail', a') /\
    (p <= p' < n)%nat /\ length a' = n /\ 1 <= tail' <= x /\
    zsum (firstn p' a') + tail' = Z.of_nat n /\
    (forall i, (i < p)%nat -> nth i a' 0 = nth i a 0) /\
    (forall i, (p <= i < p')%nat -> nth i a' 0 = x) /\
    (forall i, (p' <= i)%nat -> nth i a' 0 = nth i a 0).
Proof.
  induction fuel as [|f IH]; intros p tail x a Hx Ht Hlen Hbig Hp Hsum.
  - assert (Hlt : (p < n)%nat).
    { pose proof (zsum_firstn_ge2 p a Hbig ltac:(lia)). lia. }
    cbn [ip_loop]. destruct (Z.gtb_spec tail x); [lia|].
    exists p, tail, a. repeat split; auto; try lia; intros; lia.
  - assert (Hlt : (p < n)%nat).
    { pose proof (zsum_firstn_ge2 p a Hbig ltac:(lia)). lia. }
    cbn [ip_loop]. destruct (Z.gtb_spec tail x) as [Hgt|Hle].
    + replace (Z.of_nat p - 1 + 1) with (Z.of_nat p) by lia.
      rewrite setZ_nat, set_upd by lia.
      replace (Z.of_nat p) with (Z.of_nat (S p) - 1) by lia.
      destruct (IH (S p) (tail - x) x (upd a p x)) as (p' & tail' & a' & E & Hp' & Hl' & Ht' & Hs' & Hpre & Hmid & Hpost);
        auto; try lia.
      { rewrite upd_length. auto. }
      { intros i Hi. rewrite nth_upd by lia. destruct (Nat.eqb_spec p i); [lia|]. apply Hbig. lia. }
      { rewrite zsum_firstn_S by (rewrite upd_length; lia). rewrite firstn_upd_ge by lia.
        rewrite nth_upd_eq by lia. lia. }
      exists p', tail', a'. split; [exact E|]. split; [lia|]. split; [auto|]. split; [auto|]. split; [auto|].
      split; [|split].
      * intros i Hi. rewrite Hpre by lia. apply nth_upd_neq. lia.
      * intros i Hi. destruct (Nat.eq_dec i p) as [->|].
        -- rewrite Hpre by lia. apply nth_upd_eq. lia.
        -- apply Hmid. lia.
      * intros i Hi. rewrite Hpost by lia. apply nth_upd_neq. lia.
    + exists p, tail, a. repeat split; auto; try lia; intros; lia.
Qed.

(* ------------------------------------------------------------------ one call on a state with a part > 1 *)

Lemma intparts_next_step : forall a k mn, ip_inv a (S k) mn ->
  exists a' qn' mn', intparts_next (ip_mk a (S k) mn) = Some (ip_mk a' qn' mn', true) /\
    ip_inv a' qn' mn' /\
    (forall i, (i < k)%nat -> nth i a' 0 = nth i a 0) /\
    nth k a' 0 + 1 = nth k a 0 /\ (k < mn')%nat /\
    (forall i, (k < i)%nat -> (S i < mn')%nat -> nth i a' 0 = nth (i - 1) a' 0).
Proof.
  intros a k mn (Hlen & Hq & Hbig & Hone & Hdesc & Hsum).
  assert (Hk : (k < n)%nat) by lia.
  unfold intparts_next, ip_mk. cbn [ip_a ip_m ip_q].
  destruct (Z.eqb_spec (Z.of_nat (S k) - 1) (-2)); [lia|].
  destruct (Z.eqb_spec (Z.of_nat (S k) - 1) (-1)); [lia|].
  replace (Z.of_nat (S k) - 1) with (Z.of_nat k) by lia.
  rewrite getZ_nat, get_nth by lia.
  pose proof (Hbig k ltac:(lia)) as Hak.
  rewrite zsum_firstn_S in Hsum by lia.
  destruct (Z.eqb_spec (nth k a 0) 2) as [E2|E2].
  - (* a[q] = 2: it becomes 1 and one more part is used *)
    rewrite setZ_nat, set_upd by lia.
    assert (Hmn : (mn < n)%nat).
    { pose proof (zsum_firstn_ge2 k a ltac:(intros; apply Hbig; lia) ltac:(lia)). lia. }
    exists (upd a k 1), k, (S mn). split; [|split; [|split; [|split; [|split]]]].
    + do 2 f_equal. f_equal; lia.
    + split; [rewrite upd_length; auto|]. split; [lia|]. split; [|split; [|split]].
      * intros i Hi. rewrite nth_upd_neq by lia. apply Hbig. lia.
      * intros i Hi. rewrite nth_upd by lia. destruct (Nat.eqb_spec k i); auto. apply Hone. lia.
      * intros i Hi. rewrite !nth_upd_neq by lia. apply Hdesc. lia.
      * rewrite firstn_upd_ge by lia. lia.
    + intros i Hi. apply nth_upd_neq. lia.
    + rewrite nth_upd_eq by lia. lia.
    + lia.
    + intros i Hi Hi'. rewrite !nth_upd by lia.
      destruct (Nat.eqb_spec k i); [lia|]. rewrite Hone by lia.
      destruct (Nat.eqb_spec k (i - 1)); auto. rewrite Hone by lia. auto.
  - (* general case: a[q]--, then as many copies of it as fit, then the remainder *)
    rewrite setZ_nat, set_upd by lia.
    set (x := nth k a 0 - 1). assert (Hx : 2 <= x) by (unfold x; lia).
    set (a1 := upd a k x).
    replace (Z.of_nat mn - Z.of_nat k) with (Z.of_nat (mn - S k) + 1) by lia.
    replace (ip_loop (length a) (Z.of_nat k)) with (ip_loop (length a) (Z.of_nat (S k) - 1)) by (f_equal; lia).
    destruct (ip_loop_spec (length a) (S k) (Z.of_nat (mn - S k) + 1) x a1)
      as (p' & tail' & a2 & E & Hp' & Hl2 & Ht' & Hs2 & Hpre & Hmid & Hpost); auto; try lia.
    { unfold a1. rewrite upd_length. auto. }
    { intros i Hi. unfold a1. rewrite nth_upd by lia. destruct (Nat.eqb_spec k i); [lia|]. apply Hbig. lia. }
    { unfold a1. rewrite zsum_firstn_S by (rewrite upd_length; lia). rewrite firstn_upd_ge by lia.
      rewrite nth_upd_eq by lia. unfold x. lia. }
    rewrite E.
    replace (Z.of_nat p' - 1 + 1) with (Z.of_nat p') by lia.
    rewrite setZ_nat, set_upd by lia.
    exists (upd a2 p' tail'), (if tail' >? 1 then S p' else p'), (S p').
    assert (Ha1 : forall i, nth i a1 0 = if (k =? i)%nat then x else nth i a 0).
    { intros i. unfold a1. apply nth_upd. lia. }
    split; [|split; [|split; [|split; [|split]]]].
    + do 2 f_equal. f_equal; [lia|]. destruct (Z.gtb_spec tail' 1); lia.
    + split; [rewrite upd_length; auto|]. split; [destruct (Z.gtb_spec tail' 1); lia|].
      split; [|split; [|split]].
      * intros i Hi. rewrite nth_upd by lia. destruct (Nat.eqb_spec p' i) as [->|Hne].
        -- destruct (Z.gtb_spec tail' 1); lia.
        -- assert (i < p')%nat by (destruct (Z.gtb_spec tail' 1); lia).
           destruct (le_lt_dec (S k) i).
           ++ rewrite Hmid by lia. auto.
           ++ rewrite Hpre by lia. rewrite Ha1. destruct (Nat.eqb_spec k i); auto.
      * intros i Hi. rewrite nth_upd by lia. destruct (Nat.eqb_spec p' i) as [->|Hne].
        -- destruct (Z.gtb_spec tail' 1); lia.
        -- assert (p' < i)%nat by (destruct (Z.gtb_spec tail' 1); lia).
           rewrite Hpost by lia. rewrite Ha1. destruct (Nat.eqb_spec k i); [lia|]. apply Hone. lia.
      * (* non-increasing *)
        intros i Hi.
        assert (Hi' : (S i <= p')%nat) by (destruct (Z.gtb_spec tail' 1); lia).
        assert (Hval : forall i0, (i0 < p')%nat -> nth i0 (upd a2 p' tail') 0 =
                  if (i0 <? k)%nat then nth i0 a 0 else x).
        { intros i0 H0. rewrite nth_upd_neq by lia. destruct (Nat.ltb_spec i0 k).
          - rewrite Hpre by lia. rewrite Ha1. destruct (Nat.eqb_spec k i0); [lia|auto].
          - destruct (Nat.eq_dec i0 k) as [->|].
            + rewrite Hpre by lia. rewrite Ha1. rewrite Nat.eqb_refl. auto.
            + apply Hmid. lia. }
        rewrite (Hval i) by lia.
        destruct (Nat.eq_dec (S i) p') as [Ep|Ep].
        -- rewrite Ep. rewrite nth_upd_eq by lia.
           destruct (Nat.ltb_spec i k); [lia|]. lia.
        -- rewrite (Hval (S i)) by lia.
           destruct (Nat.ltb_spec (S i) k).
           ++ destruct (Nat.ltb_spec i k); [|lia]. apply Hdesc. lia.
           ++ destruct (Nat.ltb_spec i k); [|lia].
              assert (S i = k) by lia. specialize (Hdesc i ltac:(lia)). rewrite H1 in Hdesc. unfold x. lia.
      * destruct (Z.gtb_spec tail' 1).
        -- rewrite zsum_firstn_S by (rewrite upd_length; lia). rewrite firstn_upd_ge by lia.
           rewrite nth_upd_eq by lia. lia.
        -- rewrite firstn_upd_ge by lia. lia.
    + intros i Hi. rewrite nth_upd_neq by lia. rewrite Hpre by lia. rewrite Ha1.
      destruct (Nat.eqb_spec k i); [lia|auto].
    + rewrite nth_upd_neq by lia. rewrite Hpre by lia. rewrite Ha1, Nat.eqb_refl. unfold x. lia.
    + lia.
    + intros i Hi Hi'.
      assert (Hv : forall i0, (k <= i0 < p')%nat -> nth i0 (upd a2 p' tail') 0 = x).
      { intros i0 H0. rewrite nth_upd_neq by lia. destruct (Nat.eq_dec i0 k) as [->|].
        - rewrite Hpre by lia. rewrite Ha1, Nat.eqb_refl. auto.
        - apply Hmid. lia. }
      rewrite !Hv by lia. auto.
Qed.

Lemma intparts_next_done : forall a mn, intparts_next (ip_mk a 0 mn) = Some (ip_mk a 0 mn, false).
Proof. intros. reflexivity. Qed.

(* ------------------------------------------------------------------ the enumeration *)

Definition ip_F (o : option (list Z)) : Prop := exists x, o = Some x /\ is_ipart n x.

(* reverse lexicographic order on the values returned by Value() *)
Definition ip_lt (o1 o2 : option (list Z)) : Prop :=
  match o1, o2 with Some x, Some y => plt y x | _, _ => False end.

Definition ip_live (s : ip_st) : Prop := exists a qn mn, s = ip_mk a qn mn /\ ip_inv a qn mn.
Definition ip_done (s : ip_st) : Prop := exists a mn, s = ip_mk a 0 mn /\ ip_inv a 0 mn.

Lemma ip_live_step : forall s, ip_live s ->
  ip_F (intparts_value s) /\
  ((exists s', intparts_next s = Some (s', true) /\ ip_live s' /\
      ip_lt (intparts_value s) (intparts_value s') /\
      forall z, ip_F z -> ip_lt (intparts_value s) z -> ip_lt z (intparts_value s') -> False)
   \/ (exists s', intparts_next s = Some (s', false) /\ ip_done s' /\
         forall z, ip_F z -> ~ ip_lt (intparts_value s) z)).
Proof.
  intros s (a & qn & mn & -> & Hinv).
  pose proof (ip_inv_ipart a qn mn Hinv) as Fcur.
  pose proof Hinv as (Hlen & Hq & Hbig & Hone & Hdesc & Hsum).
  rewrite ip_value_mk by lia.
  split; [exists (firstn mn a); auto|].
  destruct qn as [|k].
  - right. exists (ip_mk a 0 mn). split; [reflexivity|]. split; [exists a, mn; auto|].
    intros z (x & -> & Fx). simpl. apply (ipart_least n (firstn mn a)); auto.
    intros i Hi. rewrite firstn_length in Hi. rewrite nth_firstn0.
    destruct (Nat.ltb_spec i mn); [|lia]. apply Hone. lia.
  - left. destruct (intparts_next_step a k mn Hinv) as (a' & qn' & mn' & E & Hinv' & Hpre & Hat & Hkm & Hrep).
    pose proof (ip_inv_ipart a' qn' mn' Hinv') as Fnxt.
    pose proof Hinv' as (Hlen' & Hq' & _).
    exists (ip_mk a' qn' mn'). split; [exact E|]. split; [exists a', qn', mn'; auto|].
    rewrite ip_value_mk by lia.
    assert (Hagree : agree (firstn mn' a') (firstn mn a) k).
    { intros i Hi. rewrite !nth_firstn0.
      destruct (Nat.ltb_spec i mn'); [|lia]. destruct (Nat.ltb_spec i mn); [|lia]. apply Hpre. auto. }
    assert (Hk1 : nth k (firstn mn' a') 0 + 1 = nth k (firstn mn a) 0).
    { rewrite !nth_firstn0.
      destruct (Nat.ltb_spec k mn'); [|lia]. destruct (Nat.ltb_spec k mn); [|lia]. exact Hat. }
    split.
    + simpl. exists k. split; [exact Hagree|lia].
    + intros z (x & -> & Fx) H1 H2. simpl in H1, H2.
      apply (ipart_no_between n (firstn mn a) (firstn mn' a') k Fcur Fnxt Hagree Hk1) with (z := x); auto.
      * intros i Hi. rewrite firstn_length in Hi. rewrite nth_firstn0.
        destruct (Nat.ltb_spec i mn); [|lia]. apply Hone. lia.
      * intros i Hi Hi'. rewrite firstn_length in Hi'. rewrite !nth_firstn0.
        destruct (Nat.ltb_spec i mn'); [|lia]. destruct (Nat.ltb_spec (i - 1) mn'); [|lia].
        apply Hrep; lia.
Qed.

Lemma ip_done_step : forall s, ip_done s -> exists s', intparts_next s = Some (s', false) /\ ip_done s'.
Proof.
  intros s (a & mn & -> & Hinv). exists (ip_mk a 0 mn). split; [reflexivity|]. exists a, mn. auto.
Qed.

Lemma ip_F_finite : exists all : list (option (list Z)), forall o, ip_F o -> In o all.
Proof.
  destruct (ipart_finite n) as [all Hall]. exists (map Some all).
  intros o (x & -> & Fx). apply in_map. auto.
Qed.

End Fixed.

Lemma intparts_first_call : forall n',
  intparts_next (intparts_init (S n')) =
  Some (ip_mk (Z.of_nat (S n') :: repeat 1 n') (if (n' =? 0)%nat then 0 else 1) 1, true).
Proof.
  intros n'. unfold intparts_init, intparts_next, ip_mk.
  cbn [ip_a ip_m ip_q length get nth_error Nat.eqb]. change (-2 =? -2) with true. cbv iota.
  destruct (Z.eqb_spec (Z.of_nat (S n')) 1); destruct n'; try lia; reflexivity.
Qed.

Theorem intparts_enumerates_sorted : forall n,
  exists fuel l e, drain intparts_next intparts_value fuel (intparts_init n) = Some (l, e) /\
    StronglySorted (ip_lt) l /\ (forall o, In o l <-> ip_F n o) /\ exhausted intparts_next e.
Proof.
  intros n.
  apply (enumerates_sorted ip_st (option (list Z)) intparts_next intparts_value ip_lt (ip_F n)
           (ip_live n) (ip_done n)).
  - intros o (x & -> & _). simpl. apply plt_irrefl.
  - intros o1 o2 o3 (x & -> & _) (y & -> & _) (z & -> & _). simpl. intros H1 H2. eapply plt_trans; eauto.
  - intros o1 o2 (x & -> & Px & _) (y & -> & Py & _). simpl.
    destruct (plt_total x y Px Py) as [->|[H|H]]; auto.
  - apply ip_F_finite.
  - apply ip_live_step.
  - apply ip_done_step.
  - left. destruct n as [|n'].
    + exists (ip_mk [] 0 0). split; [reflexivity|]. split.
      * exists [], O, O. split; auto. repeat split; simpl; auto; intros; lia.
      * intros z (x & -> & Fx). simpl. apply (ipart_greatest O []); auto.
        repeat split; simpl; auto; intros; try lia. intros v [].
    + set (n := S n'). set (a := Z.of_nat n :: repeat 1 n').
      assert (Hlen : length a = n) by (unfold a; simpl; rewrite repeat_length; auto).
      assert (Hones : forall i, (1 <= i < n)%nat -> nth i a 0 = 1).
      { intros i Hi. unfold a. destruct i as [|i]; [lia|]. simpl. apply nth_repeat1. unfold n in Hi. lia. }
      destruct (Nat.eq_dec n' 0) as [E0|E0].
      * exists (ip_mk a 0 1). split; [unfold n, a; rewrite intparts_first_call; subst n'; reflexivity|].
        assert (Hinv : ip_inv n a 0 1).
        { split; auto. split; [unfold n; lia|]. split; [intros; lia|]. split; [|split; [intros; lia|]].
          - intros i Hi. destruct i; [|apply Hones; lia]. unfold a, n. subst n'. reflexivity.
          - simpl. unfold n. subst n'. reflexivity. }
        split; [exists a, O, 1%nat; auto|].
        intros z (x & -> & Fx). rewrite ip_value_mk by lia. simpl ip_lt.
        apply (ipart_greatest n (firstn 1 a)); auto;
          try (apply (ip_inv_ipart n a 0 1 Hinv)); try (rewrite firstn_length; lia).
      * exists (ip_mk a 1 1). split.
        { unfold n, a. rewrite intparts_first_call. destruct (Nat.eqb_spec n' 0); [lia|reflexivity]. }
        assert (Hinv : ip_inv n a 1 1).
        { split; auto. split; [unfold n; lia|]. split; [|split; [|split; [intros; lia|]]].
          - intros i Hi. assert (i = O) by lia. subst i. unfold a. simpl nth. unfold n. lia.
          - intros i Hi. apply Hones. lia.
          - unfold a. simpl firstn. rewrite zsum_cons. simpl. lia. }
        split; [exists a, 1%nat, 1%nat; auto|].
        intros z (x & -> & Fx). rewrite ip_value_mk by lia. simpl ip_lt.
        apply (ipart_greatest n (firstn 1 a)); auto;
          try (apply (ip_inv_ipart n a 1 1 Hinv)); try (rewrite firstn_length; lia).
Qed.

Theorem intparts_enumerates : forall n,
  enumerates intparts_next intparts_value ip_lt (ip_F n) (intparts_init n).
Proof.
  intros n. apply enumerates_of_sorted.
  - intros o (x & -> & _). simpl. apply plt_irrefl.
  - apply intparts_enumerates_sorted.
Qed.
