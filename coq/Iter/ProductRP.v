(* itertools.RestrictedPrefixProduct: the model of Next() (the goto machine x1/x2/x3 run on the
   fuel computed by the constructor) enumerates, in lexicographic order and each once, exactly
   the tuples of the product all of whose non-empty prefixes are accepted by the predicate, then
   reports exhaustion for ever; the fuel is never exhausted and no index is out of range.  Hence
   it agrees with filtering the enumeration of Product. *)
From Coq Require Import List ZArith Lia Arith Bool Sorted.
From Mamba Require Import Iter.Model Iter.Enum Iter.Lex Iter.Product.
Import ListNotations.
Open Scope Z_scope.

(* all non-empty prefixes of x are accepted *)
Definition allok (t : list Z -> bool) (x : list Z) : bool :=
  forallb (fun l => t (firstn l x)) (seq 1 (length x)).

Definition in_rpp (t : list Z -> bool) (ns x : list Z) : Prop := in_product ns x /\ allok t x = true.

Lemma allok_spec : forall t x, allok t x = true <->
  forall l, (1 <= l <= length x)%nat -> t (firstn l x) = true.
Proof.
  intros t x. unfold allok. rewrite forallb_forall. split.
  - intros H l Hl. apply H. apply in_seq. lia.
  - intros H l Hl. apply in_seq in Hl. apply H. lia.
Qed.

(* ------------------------------------------------------------------ prefixes *)

Definition pre (st z : list Z) : Prop := firstn (length st) z = st.
Definition geq (st z : list Z) : Prop := pre st z \/ lex_lt st z.

Lemma pre_nth : forall st z, pre st z -> forall i, (i < length st)%nat -> nth i z 0 = nth i st 0.
Proof.
  intros st z H i Hi. pose proof (nth_firstn_lt z i (length st) Hi) as E.
  unfold pre in H. rewrite H in E. auto.
Qed.

Lemma pre_intro : forall st z, (length st <= length z)%nat ->
  (forall i, (i < length st)%nat -> nth i z 0 = nth i st 0) -> pre st z.
Proof.
  intros st z Hl H. unfold pre. apply nth_ext0.
  - rewrite firstn_length. lia.
  - intros i Hi. rewrite firstn_length in Hi. rewrite nth_firstn_lt by lia. apply H. lia.
Qed.

Lemma nth_app_l : forall (p : list Z) v i, (i < length p)%nat -> nth i (p ++ [v]) 0 = nth i p 0.
Proof. intros. apply app_nth1. auto. Qed.

Lemma nth_app_last : forall (p : list Z) v, nth (length p) (p ++ [v]) 0 = v.
Proof. intros. rewrite app_nth2 by lia. rewrite Nat.sub_diag. reflexivity. Qed.

Lemma get_app_last : forall (p : list Z) v, get (p ++ [v]) (length p) = Some v.
Proof. intros. rewrite get_nth by (rewrite app_length; simpl; lia). rewrite nth_app_last. auto. Qed.

Lemma upd_app_last : forall (p : list Z) v w, upd (p ++ [v]) (length p) w = p ++ [w].
Proof. induction p as [|a p IH]; intros; simpl; auto. rewrite IH. auto. Qed.

Lemma set_app_last : forall (p : list Z) v w, set (p ++ [v]) (length p) w = Some (p ++ [w]).
Proof. intros. rewrite set_upd by (rewrite app_length; simpl; lia). rewrite upd_app_last. auto. Qed.

Lemma firstn_app_l : forall (p : list Z) v l, (l <= length p)%nat -> firstn l (p ++ [v]) = firstn l p.
Proof.
  intros p v l Hl. rewrite firstn_app. replace (l - length p)%nat with 0%nat by lia.
  simpl. apply app_nil_r.
Qed.

(* lex_lt against a full tuple only looks at the positions of the (shorter) left argument *)
Lemma lex_app_iff : forall p v z, lex_lt (p ++ [v]) z <->
  lex_lt p z \/ (agree p z (length p) /\ v < nth (length p) z 0).
Proof.
  intros p v z. split.
  - intros (j & Hj & A & H). rewrite app_length in Hj. simpl in Hj.
    destruct (Nat.eq_dec j (length p)) as [->|Hne].
    + right. rewrite nth_app_last in H. split; auto.
      intros i Hi. rewrite <- A by auto. symmetry. apply nth_app_l. auto.
    + left. exists j. split; [lia|]. split.
      * intros i Hi. rewrite <- A by auto. symmetry. apply nth_app_l. lia.
      * rewrite nth_app_l in H by lia. auto.
  - intros [(j & Hj & A & H)|[A H]].
    + exists j. split; [rewrite app_length; simpl; lia|]. split.
      * intros i Hi. rewrite nth_app_l by lia. auto.
      * rewrite nth_app_l by lia. auto.
    + exists (length p). split; [rewrite app_length; simpl; lia|]. split.
      * intros i Hi. rewrite nth_app_l by lia. auto.
      * rewrite nth_app_last. auto.
Qed.

Lemma pre_app_iff : forall p v z, (length p < length z)%nat ->
  (pre (p ++ [v]) z <-> agree p z (length p) /\ nth (length p) z 0 = v).
Proof.
  intros p v z Hl. split.
  - intros H. split.
    + intros i Hi. rewrite (pre_nth _ _ H) by (rewrite app_length; simpl; lia).
      symmetry. apply nth_app_l. auto.
    + rewrite (pre_nth _ _ H) by (rewrite app_length; simpl; lia). apply nth_app_last.
  - intros [A E]. apply pre_intro; [rewrite app_length; simpl; lia|].
    intros i Hi. rewrite app_length in Hi. simpl in Hi.
    destruct (Nat.eq_dec i (length p)) as [->|Hne].
    + rewrite nth_app_last. auto.
    + rewrite nth_app_l by lia. symmetry. apply A. lia.
Qed.

Lemma pre_agree_iff : forall p z, (length p <= length z)%nat -> (pre p z <-> agree p z (length p)).
Proof.
  intros p z Hl. split.
  - intros H i Hi. symmetry. apply pre_nth; auto.
  - intros A. apply pre_intro; auto. intros i Hi. symmetry. apply A. auto.
Qed.

(* ------------------------------------------------------------------ the fuel measure *)

(* number of nodes of the product tree that come after the whole subtree of the prefix st in
   preorder, and the size of that subtree *)
Fixpoint rem (st ns : list Z) : nat :=
  match st, ns with
  | v :: st', n :: ns' => (Z.to_nat (n - 1 - v) * tree_nodes ns' + rem st' ns')%nat
  | _, _ => 0%nat
  end.

Fixpoint sub (st ns : list Z) : nat :=
  match st, ns with
  | _ :: st', _ :: ns' => sub st' ns'
  | _, _ => tree_nodes ns
  end.

Lemma tree_nodes_pos : forall ns, (1 <= tree_nodes ns)%nat.
Proof. destruct ns; simpl; lia. Qed.

Lemma sub_pos : forall st ns, (1 <= sub st ns)%nat.
Proof.
  induction st as [|v st IH]; intros ns; simpl.
  - apply tree_nodes_pos.
  - destruct ns; [simpl; lia|apply IH].
Qed.

Lemma rem_app_zero : forall st ns, (length st < length ns)%nat -> 1 <= nth (length st) ns 0 ->
  (rem (st ++ [0%Z]) ns + sub (st ++ [0%Z]) ns + 1 = rem st ns + sub st ns)%nat.
Proof.
  induction st as [|v st IH]; intros [|n ns] Hl Hn; simpl in *; try lia.
  - replace (n - 1 - 0) with (n - 1) by lia.
    destruct ns; simpl; replace (Z.to_nat n) with (S (Z.to_nat (n - 1))) by lia; lia.
  - specialize (IH ns ltac:(lia) Hn). lia.
Qed.

Lemma rem_app_bump : forall p ns v, (length p < length ns)%nat -> v < nth (length p) ns 0 - 1 ->
  (rem (p ++ [(v + 1)%Z]) ns + sub (p ++ [(v + 1)%Z]) ns = rem (p ++ [v]) ns)%nat.
Proof.
  induction p as [|a p IH]; intros [|n ns] v Hl Hv; simpl in *; try lia.
  - replace (Z.to_nat (n - 1 - v)) with (S (Z.to_nat (n - 1 - (v + 1)))) by lia.
    destruct ns; simpl; lia.
  - specialize (IH ns v ltac:(lia) Hv). lia.
Qed.

Lemma rem_app_pop : forall p ns v, (length p < length ns)%nat -> nth (length p) ns 0 - 1 <= v ->
  rem (p ++ [v]) ns = rem p ns.
Proof.
  induction p as [|a p IH]; intros [|n ns] v Hl Hv; simpl in *; try lia.
  rewrite (IH ns v ltac:(lia) Hv). reflexivity.
Qed.

Lemma rem_bound : forall st ns, (length st <= length ns)%nat ->
  (forall i, (i < length st)%nat -> 0 <= nth i st 0 <= nth i ns 0 - 1) ->
  (rem st ns + sub st ns + length st <= tree_nodes ns)%nat.
Proof.
  induction st as [|v st IH]; intros [|n ns] Hl Hr; simpl in *; try lia.
  assert (H0 := Hr O ltac:(lia)). simpl in H0.
  specialize (IH ns ltac:(lia)).
  assert (IH' : (rem st ns + sub st ns + length st <= tree_nodes ns)%nat).
  { apply IH. intros i Hi. apply (Hr (S i)). lia. }
  assert (E : Z.to_nat n = (Z.to_nat (n - 1 - v) + 1 + Z.to_nat v)%nat) by lia.
  rewrite E. nia.
Qed.

(* ------------------------------------------------------------------ one call of Next *)

Section Run.
Variable t : list Z -> bool.
Variable ns : list Z.
Let m := length ns.
Hypothesis Hm : (0 < m)%nat.
Hypothesis Hpos : forall i, (i < m)%nat -> 1 <= nth i ns 0.

Definition inrange (st : list Z) : Prop :=
  (length st <= m)%nat /\ forall i, (i < length st)%nat -> 0 <= nth i st 0 <= nth i ns 0 - 1.
Definition properok (st : list Z) : Prop :=
  forall l, (1 <= l < length st)%nat -> t (firstn l st) = true.

Definition rp_inv (lbl : rp_label) (st : list Z) : Prop :=
  inrange st /\ properok st /\
  match lbl with
  | RX1 => (length st < m)%nat /\ ((1 <= length st)%nat -> t st = true)
  | _ => (1 <= length st)%nat
  end.

Definition rp_phi (lbl : rp_label) (st : list Z) : nat :=
  match lbl with
  | RX1 => 3 * (rem st ns + sub st ns) + length st - 1
  | RX2 => 3 * rem st ns + length st + 1
  | RX3 => 3 * (rem st ns + sub st ns) + length st
  end.

Definition rp_set (lbl : rp_label) (st : list Z) : list Z -> Prop :=
  match lbl with
  | RX1 => geq (st ++ [0])
  | RX2 => lex_lt st
  | RX3 => geq st
  end.

Definition done_shape (s : list Z) : Prop := length s = 1%nat /\ nth 0 ns 0 - 1 <= nth 0 s 0.

Definition rp_post (S : list Z -> Prop) (r : list Z * bool) : Prop :=
  if snd r then in_rpp t ns (fst r) /\ S (fst r) /\ (forall z, in_rpp t ns z -> S z -> ~ lex_lt z (fst r))
  else (forall z, in_rpp t ns z -> ~ S z) /\ done_shape (fst r).

Lemma rp_post_ext : forall (S S' : list Z -> Prop) r,
  (forall z, in_rpp t ns z -> (S z <-> S' z)) -> rp_post S r -> rp_post S' r.
Proof.
  intros S S' [y [|]] H; unfold rp_post; simpl.
  - intros (Py & Sy & Hmin). split; auto. split; [apply H; auto|].
    intros z Pz Sz. apply Hmin; auto. apply H; auto.
  - intros (Hn & D). split; auto. intros z Pz Sz. apply (Hn z Pz). apply H; auto.
Qed.

Lemma rp_run_spec : forall fuel lbl st, rp_inv lbl st -> (rp_phi lbl st < fuel)%nat ->
  exists r, rp_run fuel t ns lbl st = Some r /\ rp_post (rp_set lbl st) r.
Proof.
  induction fuel as [|fuel IH]; intros lbl st Hinv Hphi; [lia|].
  destruct Hinv as ((Hlen & Hrange) & Hok & Hlbl).
  destruct lbl; cbn [rp_run].
  - (* x1: append 0 *)
    destruct Hlbl as [Hlt Ht].
    assert (Hinv' : rp_inv RX3 (st ++ [0])).
    { split; [split|split].
      - rewrite app_length. simpl. lia.
      - intros i Hi. rewrite app_length in Hi. simpl in Hi.
        destruct (Nat.eq_dec i (length st)) as [->|Hne].
        + rewrite nth_app_last. specialize (Hpos (length st) Hlt). lia.
        + rewrite nth_app_l by lia. apply Hrange. lia.
      - intros l Hl. rewrite app_length in Hl. simpl in Hl. rewrite firstn_app_l by lia.
        destruct (Nat.eq_dec l (length st)) as [->|Hne].
        + rewrite firstn_all. apply Ht. lia.
        + apply Hok. lia.
      - rewrite app_length. simpl. lia. }
    destruct (IH RX3 (st ++ [0]) Hinv') as (r & E & HP).
    { pose proof (rem_app_zero st ns Hlt (Hpos _ Hlt)). pose proof (sub_pos st ns).
      unfold rp_phi in *. rewrite app_length. simpl. lia. }
    exists r. split; auto.
  - (* x2: increase the last coordinate or drop it *)
    destruct (exists_last (l := st)) as (p & v & ->). { intro; subst; simpl in Hlbl; lia. }
    rewrite app_length in *. cbn [length] in *.
    replace (length p + 1 - 1)%nat with (length p) by lia.
    destruct (Nat.eqb_spec (length p + 1) 0) as [C|_]; [lia|].
    rewrite get_app_last. rewrite (get_nth ns (length p)) by (fold m; lia).
    assert (Hpl : (length p < length ns)%nat) by (fold m; lia).
    destruct (Z.ltb_spec v (nth (length p) ns 0 - 1)) as [Hv|Hv].
    + rewrite set_app_last.
      assert (Hinv' : rp_inv RX3 (p ++ [v + 1])).
      { split; [split|split].
        - rewrite app_length. simpl. lia.
        - intros i Hi. rewrite app_length in Hi. simpl in Hi.
          destruct (Nat.eq_dec i (length p)) as [->|Hne].
          + rewrite nth_app_last. specialize (Hrange (length p) ltac:(lia)).
            rewrite nth_app_last in Hrange. lia.
          + rewrite nth_app_l by lia. specialize (Hrange i ltac:(lia)).
            rewrite nth_app_l in Hrange by lia. auto.
        - intros l Hl. rewrite app_length in Hl. simpl in Hl. rewrite firstn_app_l by lia.
          rewrite <- (firstn_app_l p v) by lia. apply Hok. rewrite app_length. simpl. lia.
        - rewrite app_length. simpl. lia. }
      destruct (IH RX3 (p ++ [v + 1]) Hinv') as (r & E & HP).
      { pose proof (rem_app_bump p ns v Hpl Hv). unfold rp_phi in *. rewrite !app_length in *. simpl in *. lia. }
      exists r. split; auto. revert HP. apply rp_post_ext. intros z [[Hz _] _].
      unfold rp_set, geq. rewrite !lex_app_iff. rewrite pre_app_iff by lia. split.
      * intros [[A H]|[H|[A H]]]; auto; right; split; auto; lia.
      * intros [H|[A H]]; auto. destruct (Z.eq_dec (nth (length p) z 0) (v + 1)); [left; auto|].
        right. right. split; auto. lia.
    + destruct (Nat.eqb_spec (length p + 1) 1) as [C|C].
      * (* nothing left *)
        exists (p ++ [v], false). split; auto. unfold rp_post. simpl.
        assert (p = []) by (destruct p; simpl in C; auto; lia). subst p. simpl in *. split.
        -- intros z [[Hz Hzr] _] (j & Hj & _ & H). simpl in Hj. assert (j = 0)%nat by lia. subst j.
           simpl in H. specialize (Hzr O ltac:(lia)). lia.
        -- split; auto.
      * rewrite removelast_last.
        assert (Hinv' : rp_inv RX2 p).
        { split; [split|split].
          - lia.
          - intros i Hi. specialize (Hrange i ltac:(lia)). rewrite nth_app_l in Hrange by lia. auto.
          - intros l Hl. rewrite <- (firstn_app_l p v) by lia. apply Hok. rewrite app_length. simpl. lia.
          - lia. }
        destruct (IH RX2 p Hinv') as (r & E & HP).
        { pose proof (rem_app_pop p ns v Hpl Hv). unfold rp_phi in *. rewrite !app_length in *. simpl in *. lia. }
        exists r. split; auto. revert HP. apply rp_post_ext. intros z [[Hz Hzr] _].
        unfold rp_set. rewrite lex_app_iff. split; auto.
        intros [H|[A H]]; auto. exfalso. specialize (Hzr (length p) Hpl). lia.
  - (* x3: test the current prefix *)
    destruct (t st) eqn:Et; cbn [negb].
    + destruct (Nat.ltb_spec (length st) (length ns)) as [Hlt|Hge].
      * assert (Hinv' : rp_inv RX1 st).
        { split; [split; auto|split; auto]. }
        destruct (IH RX1 st Hinv') as (r & E & HP).
        { unfold rp_phi in *. pose proof (sub_pos st ns). lia. }
        exists r. split; auto. revert HP. apply rp_post_ext. intros z [[Hz Hzr] _].
        unfold rp_set, geq. rewrite lex_app_iff. rewrite pre_app_iff by lia.
        rewrite pre_agree_iff by lia. split.
        -- intros [[A H]|[H|[A H]]]; auto.
        -- intros [A|H]; auto. specialize (Hzr (length st) Hlt).
           destruct (Z.eq_dec (nth (length st) z 0) 0); [left; auto|]. right. right. split; auto. lia.
      * (* a full accepted tuple *)
        exists (st, true). split; auto. unfold rp_post. simpl.
        assert (Hl : length st = length ns) by (fold m; lia).
        assert (HP : in_rpp t ns st).
        { split; [split; auto|].
          - intros i Hi. specialize (Hrange i ltac:(lia)). lia.
          - apply allok_spec. intros l Hl'. destruct (Nat.eq_dec l (length st)) as [->|Hne].
            + rewrite firstn_all. auto.
            + apply Hok. lia. }
        split; auto. split; [left; unfold pre; apply firstn_all|].
        intros z [[Hz _] _] [H|H] C.
        -- unfold pre in H. rewrite Hl, <- Hz, firstn_all in H. subst z. eapply lex_irrefl; eauto.
        -- apply (lex_irrefl st). apply (lex_trans st z st); auto. lia.
    + (* rejected *)
      assert (Hinv' : rp_inv RX2 st) by (split; [split; auto|split; auto]).
      destruct (IH RX2 st Hinv') as (r & E & HP).
      { unfold rp_phi in *. pose proof (sub_pos st ns). lia. }
      exists r. split; auto. revert HP. apply rp_post_ext. intros z [[Hz _] Hzok].
      unfold rp_set, geq. split; auto. intros [H|H]; auto. exfalso.
      rewrite allok_spec in Hzok. specialize (Hzok (length st) ltac:(lia)).
      unfold pre in H. rewrite H in Hzok. congruence.
Qed.

(* ------------------------------------------------------------------ live and exhausted states *)

Definition rp_live (s : rp_st) : Prop :=
  rp_n s = ns /\ rp_fuel0 s = rp_fuel ns /\ rp_empty s = false /\ in_rpp t ns (rp_state s).

Definition rp_done (s : rp_st) : Prop :=
  rp_n s = ns /\ rp_fuel0 s = rp_fuel ns /\ rp_empty s = false /\ done_shape (rp_state s).

Lemma rp_live_step : forall s, rp_live s ->
  in_rpp t ns (rpprod_value s) /\
  ((exists s', rpprod_next t s = Some (s', true) /\ rp_live s' /\
      lex_lt (rpprod_value s) (rpprod_value s') /\
      forall z, in_rpp t ns z -> lex_lt (rpprod_value s) z -> lex_lt z (rpprod_value s') -> False)
   \/ (exists s', rpprod_next t s = Some (s', false) /\ rp_done s' /\
         forall z, in_rpp t ns z -> ~ lex_lt (rpprod_value s) z)).
Proof.
  intros [st n em fu] (Hn & Hfu & Hem & HF). cbn [rp_state rp_n rp_empty rp_fuel0] in *. subst n em fu.
  unfold rpprod_value. cbn [rp_state]. split; [exact HF|].
  unfold rpprod_next. cbn [rp_state rp_n rp_empty rp_fuel0].
  pose proof HF as [[Hl Hr] Hok].
  destruct (Nat.eqb_spec (length st) 0) as [C|_]; [fold m in Hl; lia|].
  assert (Hinv : rp_inv RX2 st).
  { split; [split|split].
    - fold m in Hl. lia.
    - intros i Hi. specialize (Hr i ltac:(lia)). lia.
    - intros l Hl'. rewrite allok_spec in Hok. apply Hok. lia.
    - fold m in Hl. lia. }
  destruct (rp_run_spec (rp_fuel ns) RX2 st Hinv) as ([y b] & E & HP).
  { destruct Hinv as (Hir & _). destruct Hir as [Hlen Hrange].
    pose proof (rem_bound st ns ltac:(lia) Hrange). pose proof (sub_pos st ns).
    unfold rp_phi, rp_fuel. lia. }
  rewrite E. unfold rp_post in HP. cbn [fst snd] in *. destruct b.
  - left. destruct HP as (Py & Sy & Hmin). eexists. split; [reflexivity|]. cbn [rp_state].
    split; [|split].
    + split; [reflexivity|]. split; [reflexivity|]. split; [reflexivity|]. exact Py.
    + exact Sy.
    + intros z Pz H1 H2. eapply Hmin; eauto.
  - right. destruct HP as (Hnone & D). eexists. split; [reflexivity|]. split; auto.
    split; [reflexivity|]. split; [reflexivity|]. split; [reflexivity|]. exact D.
Qed.

Lemma rp_done_step : forall s, rp_done s -> exists s', rpprod_next t s = Some (s', false) /\ rp_done s'.
Proof.
  intros [st n em fu] (Hn & Hfu & Hem & [Hl Hv]). cbn [rp_state rp_n rp_empty rp_fuel0] in *. subst n em fu.
  unfold rpprod_next. cbn [rp_state rp_n rp_empty rp_fuel0]. rewrite Hl. cbn [Nat.eqb].
  destruct st as [|v [|? ?]]; simpl in Hl; try lia. simpl in Hv.
  unfold rp_fuel. replace (3 * tree_nodes ns + 3)%nat with (S (3 * tree_nodes ns + 2)) by lia.
  cbn [rp_run length Nat.eqb Nat.sub]. unfold get at 1. cbn [nth_error].
  rewrite (get_nth ns 0) by (fold m; lia).
  destruct (Z.ltb_spec v (nth 0 ns 0 - 1)) as [C|_]; [lia|].
  eexists. split; [reflexivity|]. split; [reflexivity|]. split; [cbn [rp_fuel0]; unfold rp_fuel; lia|].
  split; [reflexivity|]. split; [reflexivity|]. simpl. exact Hv.
Qed.

(* the first call *)
Lemma rp_first : forall s0, s0 = rpprod_init ns -> rp_empty s0 = false ->
  (exists s1, rpprod_next t s0 = Some (s1, true) /\ rp_live s1 /\
     forall z, in_rpp t ns z -> ~ lex_lt z (rpprod_value s1))
  \/ (exists s1, rpprod_next t s0 = Some (s1, false) /\ rp_done s1 /\ forall z, ~ in_rpp t ns z).
Proof.
  intros s0 -> Hem. unfold rpprod_init in *. cbn [rp_empty] in Hem.
  unfold rpprod_next. cbn [rp_state rp_n rp_empty rp_fuel0]. rewrite Hem. cbn [length Nat.eqb].
  destruct (Nat.eqb_spec (length ns) 0) as [C|_]; [fold m in C; lia|].
  assert (Hinv : rp_inv RX1 []).
  { split; [split; simpl; [lia|intros i Hi; lia]|].
    split; [intros l Hl; simpl in Hl; lia|]. simpl. split; [exact Hm|lia]. }
  destruct (rp_run_spec (rp_fuel ns) RX1 [] Hinv) as ([y b] & E & HP).
  { unfold rp_phi, rp_fuel. simpl. lia. }
  rewrite E. unfold rp_post in HP. cbn [fst snd] in *. destruct b.
  - left. destruct HP as (Py & Sy & Hmin). eexists. split; [reflexivity|]. split.
    + split; [reflexivity|]. split; [reflexivity|]. split; [reflexivity|]. exact Py.
    + intros z Pz. unfold rpprod_value. cbn [rp_state]. apply Hmin; auto.
      (* every member is >= [0] *)
      destruct Pz as [[Hz Hzr] _]. unfold rp_set, geq. simpl.
      specialize (Hzr O Hm). destruct (Z.eq_dec (nth 0 z 0) 0) as [E0|E0].
      * left. unfold pre. simpl. destruct z; simpl in *; [fold m in Hz; lia|]. subst. reflexivity.
      * right. exists O. simpl. split; [lia|]. split; [intros i Hi; lia|lia].
  - right. destruct HP as (Hnone & D). eexists. split; [reflexivity|]. split.
    + split; [reflexivity|]. split; [reflexivity|]. split; [reflexivity|]. exact D.
    + intros z Pz. apply (Hnone z Pz).
      destruct Pz as [[Hz Hzr] _]. unfold rp_set, geq. simpl.
      specialize (Hzr O Hm). destruct (Z.eq_dec (nth 0 z 0) 0) as [E0|E0].
      * left. unfold pre. simpl. destruct z; simpl in *; [fold m in Hz; lia|]. subst. reflexivity.
      * right. exists O. simpl. split; [lia|]. split; [intros i Hi; lia|lia].
Qed.

End Run.

(* ------------------------------------------------------------------ the theorem *)

Lemma in_rpp_finite : forall t ns, exists all, forall x, in_rpp t ns x -> In x all.
Proof.
  intros t ns. destruct (in_product_finite ns) as [all H]. exists all. intros x [Hx _]. auto.
Qed.

Theorem rpprod_enumerates : forall t ns,
  exists fuel l e, drain (rpprod_next t) rpprod_value fuel (rpprod_init ns) = Some (l, e) /\
    StronglySorted lex_lt l /\ (forall x, In x l <-> in_rpp t ns x) /\ exhausted (rpprod_next t) e.
Proof.
  intros t ns.
  destruct (existsb (fun v => v <? 1) ns) eqn:Ex.
  - (* a factor below 1: the constructor sets empty, nothing is ever produced *)
    apply (enumerates_sorted rp_st (list Z) (rpprod_next t) rpprod_value lex_lt (in_rpp t ns)
             (fun _ => False) (fun s => rp_empty s = true)).
    + intros x _. apply lex_irrefl.
    + intros x y z [[Hx _] _] [[Hy _] _] _. apply lex_trans. lia.
    + intros x y [[Hx _] _] [[Hy _] _]. apply lex_total. lia.
    + apply in_rpp_finite.
    + intros s [].
    + intros s Hs. exists s. unfold rpprod_next. rewrite Hs. auto.
    + right. exists (rpprod_init ns). unfold rpprod_next, rpprod_init. cbn [rp_empty]. rewrite Ex.
      split; [reflexivity|]. split; [reflexivity|].
      intros z [[_ Hz] _]. destruct (existsb_lt1_true ns Ex) as (i & Hi & Hi1).
      specialize (Hz i Hi). lia.
  - destruct ns as [|n0 ns'] eqn:Ens.
    + (* no factors: the empty tuple once *)
      apply (enumerates_sorted rp_st (list Z) (rpprod_next t) rpprod_value lex_lt (in_rpp t [])
               (fun s => rp_empty s = true /\ rp_state s = []) (fun s => rp_empty s = true)).
      * intros x _. apply lex_irrefl.
      * intros x y z [[Hx _] _] [[Hy _] _] _. apply lex_trans. lia.
      * intros x y [[Hx _] _] [[Hy _] _]. apply lex_total. lia.
      * apply in_rpp_finite.
      * intros s [Hs Hst]. unfold rpprod_value. rewrite Hst. split.
        -- split; [split; [reflexivity|intros i Hi; simpl in Hi; lia]|reflexivity].
        -- right. exists s. unfold rpprod_next. rewrite Hs. split; auto. split; auto.
           intros z _ (i & Hi & _). simpl in Hi. lia.
      * intros s Hs. exists s. unfold rpprod_next. rewrite Hs. auto.
      * left. unfold rpprod_next, rpprod_init. simpl. eexists. split; [reflexivity|]. split.
        -- split; reflexivity.
        -- intros z [[Hz _] _] (i & Hi & _). simpl in Hz. lia.
    + rewrite <- Ens in *.
      assert (Hm : (0 < length ns)%nat) by (subst ns; simpl; lia).
      pose proof (existsb_lt1_false ns Ex) as Hpos.
      apply (enumerates_sorted rp_st (list Z) (rpprod_next t) rpprod_value lex_lt (in_rpp t ns)
               (rp_live t ns) (rp_done ns)).
      * intros x _. apply lex_irrefl.
      * intros x y z [[Hx _] _] [[Hy _] _] _. apply lex_trans. lia.
      * intros x y [[Hx _] _] [[Hy _] _]. apply lex_total. lia.
      * apply in_rpp_finite.
      * apply rp_live_step; auto.
      * apply rp_done_step; auto.
      * apply rp_first; auto.
Qed.

(* ------------------------------------------------------------------ agreement with filtering Product *)

Lemma sorted_filter : forall (f : list Z -> bool) l, StronglySorted lex_lt l -> StronglySorted lex_lt (filter f l).
Proof.
  intros f l H. induction H as [|a l Hs IH Hall]; simpl; [constructor|].
  destruct (f a); auto. constructor; auto.
  rewrite Forall_forall in *. intros x Hx. apply filter_In in Hx. apply Hall, Hx.
Qed.

Theorem rpprod_is_filter : forall t ns,
  exists fuel l e fuelp lp ep,
    drain (rpprod_next t) rpprod_value fuel (rpprod_init ns) = Some (l, e) /\
    drain product_next product_value fuelp (product_init ns) = Some (lp, ep) /\
    l = filter (allok t) lp /\ exhausted (rpprod_next t) e.
Proof.
  intros t ns.
  destruct (rpprod_enumerates t ns) as (fuel & l & e & Hd & Hs & Hin & Hex).
  destruct (product_enumerates ns) as (fuelp & lp & ep & Hdp & Hsp & Hinp & _).
  exists fuel, l, e, fuelp, lp, ep. repeat split; auto.
  apply (sorted_unique (list Z) lex_lt (in_product ns)); auto.
  - intros x _. apply lex_irrefl.
  - intros x y z [Hx _] [Hy _] _. apply lex_trans. lia.
  - apply sorted_filter; auto.
  - intros x Hx. apply Hin in Hx. apply Hx.
  - intros x. rewrite Hin, filter_In, Hinp. unfold in_rpp. tauto.
Qed.

Theorem rpprod_enumerates_exact : forall t ns,
  exists l e, drain (rpprod_next t) rpprod_value (S (length l)) (rpprod_init ns) = Some (l, e) /\
    (StronglySorted lex_lt l /\ NoDup l /\ (forall x, In x l <-> in_rpp t ns x) /\
     exhausted (rpprod_next t) e).
Proof.
  intros t ns. apply drain_exact_fuel with (Q := fun l e => _).
  destruct (rpprod_enumerates t ns) as (fuel & l & e & H1 & H2 & H3 & H4).
  exists fuel, l, e. split; [exact H1|]. split; [exact H2|].
  split; [apply (strict_sorted_nodup lex_lt lex_irrefl); auto|]. split; [exact H3|exact H4].
Qed.

(* draining RestrictedPrefixProduct(t, ns) gives the sublist of the drain of Product(ns)
   consisting of the tuples all of whose non-empty prefixes are accepted by t *)
Theorem rpprod_is_filter_exact : forall t ns,
  exists l e lp ep,
    drain (rpprod_next t) rpprod_value (S (length l)) (rpprod_init ns) = Some (l, e) /\
    drain product_next product_value (S (length lp)) (product_init ns) = Some (lp, ep) /\
    l = filter (allok t) lp /\ exhausted (rpprod_next t) e.
Proof.
  intros t ns. destruct (rpprod_is_filter t ns) as (f & l & e & fp & lp & ep & H1 & H2 & H3 & H4).
  exists l, e, lp, ep. repeat split; auto; eapply drain_fuel_length; eauto.
Qed.
