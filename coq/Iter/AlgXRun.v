(* itertools.RestrictedPrefixPermutations (Algorithm X): the goto machine x2/x3/x5/x6 of one call
   of Next, run on the fuel fixed by the constructor, returns the lexicographically next
   permutation all of whose non-empty prefixes are accepted (or reports that there is none),
   never runs out of fuel and never indexes out of range; hence the iterator enumerates exactly
   those permutations in lexicographic order, each once, and exhaustion is absorbing. *)
From Coq Require Import List ZArith Lia Arith Bool Sorted Permutation.
From Mamba Require Import Iter.Model Iter.Enum Iter.Lex Iter.Product Iter.ProductRP Iter.AlgX.
Import ListNotations.
Open Scope Z_scope.

Definition in_rpperm (f : list Z -> bool) (n : nat) (x : list Z) : Prop :=
  Permutation x (iota n) /\ allok f x = true.

Section Run.
Variable n : nat.
Variable f : list Z -> bool.
Let N := Z.of_nat n.
Hypothesis Hn : (0 < n)%nat.

Notation Fam := (in_rpperm f n).

(* ------------------------------------------------------------------ the fuel measure *)

(* size of the subtree of a prefix of length k in the tree of all prefixes of permutations *)
Definition T (k : nat) : nat := falling_nodes (n - k) (n - k).

Lemma T_pos : forall k, (1 <= T k)%nat.
Proof. intros k. unfold T. destruct (n - k)%nat; simpl; lia. Qed.

Lemma T_step : forall k, (k < n)%nat -> T k = S ((n - k) * T (S k)).
Proof.
  intros k Hk. unfold T. replace (n - k)%nat with (S (n - S k)) by lia.
  cbn [falling_nodes]. replace (S (n - S k) - 1)%nat with (n - S k)%nat by lia. reflexivity.
Qed.

(* subtrees to the right of the path a[0..k-1] *)
Fixpoint R (k : nat) (a : list Z) : nat :=
  match k with
  | O => 0%nat
  | S k' => Nat.add (R k' a) (Nat.mul (cnt n (used k' a) (nth k' a 0)) (T k))
  end.

Lemma R_upd : forall k a j v, (k <= j)%nat -> R k (upd a j v) = R k a.
Proof.
  induction k as [|k IH]; intros a j v Hj; simpl; auto.
  rewrite IH by lia. rewrite used_upd by lia. rewrite nth_upd_neq by lia. auto.
Qed.

Lemma R_bound : forall k a, (k <= n)%nat -> length a = n -> NoDup (used k a) ->
  (forall x, In x (used k a) -> 0 <= x < N) -> (R k a + T k + k <= T 0)%nat.
Proof.
  induction k as [|k IH]; intros a Hk La Hnd Hr; simpl; [lia|].
  rewrite used_S in Hnd, Hr by lia. apply nodup_snoc_inv in Hnd. destruct Hnd as [Hnd Hq].
  assert (Hr' : forall x, In x (used k a) -> 0 <= x < N) by (intros; apply Hr; apply in_app_iff; auto).
  specialize (IH a ltac:(lia) La Hnd Hr').
  assert (Fq : free n (used k a) (nth k a 0)).
  { split; auto. apply Hr. apply in_app_iff. right. left. auto. }
  pose proof (cnt_lt_head n _ _ Fq) as H1. pose proof (cnt_head n _ Hnd Hr') as H2. fold N in H1, H2.
  rewrite used_length in H2 by lia. rewrite (T_step k) in IH by lia. nia.
Qed.

Definition rx_phi (lbl : rx_label) (k : nat) (q : Z) (a : list Z) : nat :=
  match lbl with
  | XX2 => 4 * (R k a + T k) + 2 * k - 2
  | XX3 => 4 * (R k a + (cnt n (used k a) q + 1) * T (S k)) + 2 * k + 1
  | XX5 => 4 * (R k a + cnt n (used k a) q * T (S k)) + 2 * k + 2
  | XX6 => 4 * R k a + 2 * k + 1
  end.

(* ------------------------------------------------------------------ specification of the labels *)

Definition okp (k : nat) (a : list Z) : Prop := forall j, (1 <= j <= k)%nat -> f (firstn j a) = true.

Definition rx_side (lbl : rx_label) (k : nat) (p q : Z) (a : list Z) : Prop :=
  match lbl with
  | XX3 => free n (used k a) q /\ node n (used k a) p /\ Nxt n (used k a) p q
  | XX5 => free n (used k a) q
  | _ => True
  end.

Definition rx_set (lbl : rx_label) (k : nat) (q : Z) (a : list Z) : list Z -> Prop :=
  match lbl with
  | XX2 => geq (used k a)
  | XX3 => geq (used k a ++ [q])
  | XX5 => lex_lt (used k a ++ [q])
  | XX6 => lex_lt (used k a)
  end.

Definition rx_post (S : list Z -> Prop) (r : rx_regs) (b : bool) : Prop :=
  if b then Fam (xr_a r) /\ S (xr_a r) /\ (forall z, Fam z -> S z -> ~ lex_lt z (xr_a r)) /\
            Inv n (n - 1) (xr_a r) (xr_l r) (xr_u r)
  else forall z, Fam z -> ~ S z.

Lemma rx_post_ext : forall (S S' : list Z -> Prop) r b,
  (forall z, Fam z -> (S z <-> S' z)) -> rx_post S r b -> rx_post S' r b.
Proof.
  intros S S' r [|] H; unfold rx_post.
  - intros (Py & Sy & Hmin & HI). split; auto. split; [apply H; auto|]. split; auto.
    intros z Pz Sz. apply Hmin; auto. apply H; auto.
  - intros Hn' z Pz Sz. apply (Hn' z Pz). apply H; auto.
Qed.

Lemma pos_headN : pos n N = -1.
Proof. exact (pos_head n). Qed.

(* the entry after an accepted prefix of a permutation is free *)
Lemma perm_free : forall z us, Permutation z (iota n) -> pre us z -> (length us < n)%nat ->
  free n us (nth (length us) z 0).
Proof.
  intros z us Hz Hpre Hl. destruct (perm_facts n z Hz) as (Lz & Hnd & Hr).
  split.
  - apply Hr. apply nth_In. lia.
  - intros Hin. apply In_nth with (d := 0) in Hin. destruct Hin as (i & Hi & E).
    rewrite <- (pre_nth us z Hpre i Hi) in E.
    assert (i = length us); [|lia].
    apply (proj1 (NoDup_nth z 0) Hnd); auto; lia.
Qed.

Lemma geq_first : forall z us q, Permutation z (iota n) -> (length us < n)%nat -> Nxt n us N q ->
  (geq us z <-> geq (us ++ [q]) z).
Proof.
  intros z us q Hz Hl (_ & _ & Hmin). destruct (perm_facts n z Hz) as (Lz & _ & _).
  unfold geq. rewrite lex_app_iff. rewrite pre_app_iff by lia. rewrite pre_agree_iff by lia. split.
  - intros [A|H]; auto. assert (Hpre : pre us z) by (apply pre_agree_iff; auto; lia).
    pose proof (perm_free z us Hz Hpre Hl) as Fz. specialize (Hmin _ Fz).
    rewrite pos_headN in Hmin. destruct Fz as [Hz0 _]. specialize (Hmin ltac:(lia)).
    destruct (Z.eq_dec (nth (length us) z 0) q); [left; auto|]. right. right. split; auto. lia.
  - intros [[A H]|[H|[A H]]]; auto.
Qed.

Lemma lt_next : forall z us q q', Permutation z (iota n) -> (length us < n)%nat -> free n us q ->
  Nxt n us q q' -> q' <> N -> (lex_lt (us ++ [q]) z <-> geq (us ++ [q']) z).
Proof.
  intros z us q q' Hz Hl Fq (_ & Hlt & Hmin) Hne. destruct (perm_facts n z Hz) as (Lz & _ & _).
  rewrite (pos_free n us q Fq) in *.
  unfold geq. rewrite !lex_app_iff. rewrite pre_app_iff by lia. split.
  - intros [H|[A H]]; auto. assert (Hpre : pre us z) by (apply pre_agree_iff; auto; lia).
    pose proof (perm_free z us Hz Hpre Hl) as Fz. specialize (Hmin _ Fz H).
    destruct (Z.eq_dec (nth (length us) z 0) q'); [left; auto|]. right. right. split; auto. lia.
  - intros [[A H]|[H|[A H]]]; auto; right; split; auto; lia.
Qed.

Lemma lt_last : forall z us q, Permutation z (iota n) -> (length us < n)%nat -> free n us q ->
  Nxt n us q N -> (lex_lt (us ++ [q]) z <-> lex_lt us z).
Proof.
  intros z us q Hz Hl Fq (_ & Hlt & Hmin). destruct (perm_facts n z Hz) as (Lz & _ & _).
  rewrite (pos_free n us q Fq) in *. rewrite lex_app_iff. split; auto.
  intros [H|[A H]]; auto. exfalso. assert (Hpre : pre us z) by (apply pre_agree_iff; auto; lia).
  pose proof (perm_free z us Hz Hpre Hl) as Fz. specialize (Hmin _ Fz H). destruct Fz. unfold N in *. lia.
Qed.

Lemma rx_run_spec : forall fuel lbl k p q a l u,
  Inv n k a l u -> okp k a -> rx_side lbl k p q a -> (rx_phi lbl k q a < fuel)%nat ->
  exists r b, rx_run fuel f N lbl (rx_mk (Z.of_nat k) p q a l u) = Some (r, b) /\
              rx_post (rx_set lbl k q a) r b.
Proof.
  induction fuel as [|fuel IH]; intros lbl k p q a l u HI Hok Hside Hphi; [lia|].
  pose proof HI as (La & Ll & Lu & Hk & Hnd & Hr & H2 & H3).
  set (us := used k a) in *.
  assert (Lus : length us = k) by (apply used_length; lia).
  destruct lbl; cbn [rx_run xr_k xr_p xr_q xr_a xr_l xr_u rx_mk].
  - (* x2: the first free element *)
    rewrite getZ_zn by (unfold zlen, N; lia).
    assert (NN : node n us N) by (left; auto).
    pose proof (H2 N NN) as Hnx.
    assert (Fq : free n us (zn l N)).
    { destruct Hnx as ([E|Fq] & _ & Hmin); auto. exfalso.
      destruct (exists_free n us Hnd Hr ltac:(lia)) as (x & Fx).
      specialize (Hmin x Fx). rewrite pos_headN in Hmin. destruct Fx as [Hx _].
      unfold N in *. lia. }
    destruct (IH XX3 k N (zn l N) a l u HI Hok) as (r & b & E & HP).
    { simpl. auto. }
    { assert (HqN : zn l N <> N) by (destruct Fq as [Hq _]; fold N in Hq; lia).
      pose proof (cnt_step n us N _ Hnx HqN) as C1. pose proof (cnt_head n us Hnd Hr) as C2.
      fold N in C1, C2. unfold rx_phi in *. fold us. rewrite (T_step k) in Hphi by lia.
      rewrite Lus in C2. replace (cnt n us (zn l N) + 1)%nat with (n - k)%nat by lia. lia. }
    exists r, b. split; [exact E|]. revert HP. apply rx_post_ext. intros z [Hz _].
    unfold rx_set. fold us. symmetry. apply geq_first; auto. lia.
  - (* x3: try q at position k *)
    destruct Hside as (Fq & Np & Hpq).
    rewrite setZ_nat, set_upd by lia. set (a' := upd a k q).
    assert (La' : length a' = n) by (unfold a'; rewrite upd_length; auto).
    assert (Hus' : used k a' = us) by (unfold a'; apply used_upd; lia).
    assert (HS : firstn (S k) a' = us ++ [q]).
    { change (firstn (S k) a') with (used (S k) a'). rewrite used_S by lia. rewrite Hus'.
      unfold a'. rewrite nth_upd_same by lia. auto. }
    destruct (Z.ltb_spec (Z.of_nat k + 1) 0); [lia|].
    destruct (Z.ltb_spec (zlen a') (Z.of_nat k + 1)); [unfold zlen in *; lia|]. cbn [orb].
    replace (Z.to_nat (Z.of_nat k + 1)) with (S k) by lia. rewrite HS.
    assert (HI' : Inv n k a' l u) by (apply Inv_upd_a; auto).
    assert (Hok' : okp k a').
    { intros j Hj. unfold a'. rewrite firstn_upd_ge by lia. apply Hok. auto. }
    destruct (f (us ++ [q])) eqn:Ef; cbn [negb].
    + destruct (Z.eqb_spec (Z.of_nat k) (N - 1)) as [Hlast|Hmore].
      * (* a complete accepted permutation *)
        exists (rx_mk (Z.of_nat k) p q a' l u), true. split; [reflexivity|].
        unfold rx_post. cbn [xr_a xr_l xr_u rx_mk].
        assert (Hkn : S k = n) by (unfold N in *; lia).
        assert (Ea : a' = us ++ [q]) by (rewrite <- HS, Hkn, <- La'; symmetry; apply firstn_all).
        assert (HF : Fam a').
        { split.
          - apply range_nodup_perm; auto.
            + rewrite Ea. apply nodup_snoc; auto. destruct Fq. auto.
            + rewrite Ea. intros v Hv. apply in_app_iff in Hv. destruct Hv as [Hv|[<-|[]]]; auto.
              destruct Fq. auto.
          - apply allok_spec. intros j Hj. destruct (Nat.eq_dec j (S k)) as [->|Hne].
            + rewrite HS. auto.
            + apply Hok'. lia. }
        split; [exact HF|]. split; [|split].
        -- unfold rx_set. fold us. rewrite <- Ea. left. unfold pre. apply firstn_all.
        -- intros z [Hz _] Hs C. destruct (perm_facts n z Hz) as (Lz & _ & _).
           unfold rx_set in Hs. fold us in Hs. rewrite <- Ea in Hs. destruct Hs as [Hs|Hs].
           ++ unfold pre in Hs. rewrite La', <- Lz, firstn_all in Hs. subst z. eapply lex_irrefl; eauto.
           ++ apply (lex_irrefl a'). apply (lex_trans a' z a'); auto. lia.
        -- replace (n - 1)%nat with k by lia. auto.
      * (* delete q and go one level down *)
        rewrite setZ_nat, set_upd by lia.
        pose proof (node_range n us p Np) as Rp. fold N in Rp.
        assert (Rq : 0 <= q < N) by (destruct Fq; auto).
        rewrite getZ_zn by (unfold zlen; lia). rewrite setZ_upd by (unfold zlen; lia).
        assert (Hk' : (S k < n)%nat) by (unfold N in *; lia).
        pose proof (Inv_delete n k a l u p q HI Hk' Fq Np Hpq) as HI2. fold a' in HI2.
        replace (Z.of_nat k + 1) with (Z.of_nat (S k)) by lia.
        assert (Hok2 : okp (S k) a').
        { intros j Hj. destruct (Nat.eq_dec j (S k)) as [->|Hne]; [rewrite HS; auto|apply Hok'; lia]. }
        destruct (IH XX2 (S k) p q a' _ _ HI2 Hok2 I) as (r & b & E & HP).
        { unfold rx_phi in *. cbn [R]. rewrite ?Hus'. unfold a'. rewrite ?R_upd by lia.
          rewrite ?nth_upd_same by lia. fold us in Hphi |- *. lia. }
        exists r, b. split; [exact E|]. revert HP. apply rx_post_ext. intros z _.
        unfold rx_set. change (used (S k) a') with (firstn (S k) a'). rewrite HS. fold us. tauto.
    + (* rejected *)
      destruct (IH XX5 k p q a' l u HI' Hok') as (r & b & E & HP).
      { simpl. rewrite Hus'. auto. }
      { unfold rx_phi in *. rewrite ?Hus'. unfold a'. rewrite ?R_upd by lia. fold us in Hphi |- *.
        pose proof (T_pos (S k)). lia. }
      exists r, b. split; [exact E|]. revert HP. apply rx_post_ext. intros z [Hz Hzok].
      destruct (perm_facts n z Hz) as (Lz & _ & _).
      unfold rx_set. rewrite Hus'. fold us. unfold geq. split; auto.
      intros [Hp|Hp]; auto. exfalso. rewrite allok_spec in Hzok.
      specialize (Hzok (length (us ++ [q]))). unfold pre in Hp. rewrite Hp in Hzok.
      rewrite app_length in Hzok. simpl in Hzok. rewrite Hzok in Ef by lia. discriminate.
  - (* x5: the next candidate at this level *)
    simpl in Hside. rename Hside into Fq.
    assert (Rq : 0 <= q < N) by (destruct Fq; auto).
    rewrite getZ_zn by (unfold zlen; lia).
    pose proof (H2 q (or_intror Fq)) as Hnx.
    destruct (Z.eqb_spec (zn l q) N) as [Hend|Hmore]; cbn [negb].
    + destruct (IH XX6 k q (zn l q) a l u HI Hok I) as (r & b & E & HP).
      { rewrite Hend in Hnx. pose proof (cnt_end n us q Hnx) as C. unfold rx_phi in *. fold us in Hphi.
        rewrite C in Hphi. lia. }
      exists r, b. split; [exact E|]. revert HP. apply rx_post_ext. intros z [Hz _].
      unfold rx_set. fold us. symmetry. apply lt_last; auto; try lia. rewrite <- Hend. auto.
    + assert (Fq' : free n us (zn l q)).
      { destruct Hnx as ([E|F'] & _); [contradiction|auto]. }
      destruct (IH XX3 k q (zn l q) a l u HI Hok) as (r & b & E & HP).
      { simpl. split; [auto|]. split; [right; auto|auto]. }
      { pose proof (cnt_step n us q _ Hnx Hmore) as C. unfold rx_phi in *. fold us in Hphi |- *.
        rewrite C in Hphi. lia. }
      exists r, b. split; [exact E|]. revert HP. apply rx_post_ext. intros z [Hz _].
      unfold rx_set. fold us. symmetry. apply lt_next; auto. lia.
  - (* x6: go one level up and undelete *)
    destruct k as [|k0].
    + (* nothing left *)
      cbn [Z.of_nat]. replace (0 - 1 <? 0) with true by reflexivity.
      eexists _, false. split; [reflexivity|]. unfold rx_post, rx_set. simpl.
      intros z _ (j & Hj & _). simpl in Hj. lia.
    + replace (Z.of_nat (S k0) - 1) with (Z.of_nat k0) by lia.
      destruct (Z.ltb_spec (Z.of_nat k0) 0); [lia|].
      rewrite !getZ_nat. rewrite (get_nth u k0) by lia. rewrite (get_nth a k0) by lia.
      destruct (Inv_undelete n k0 a l u HI) as [HI' Fq'].
      destruct (H3 k0 ltac:(lia)) as (Np & _ & _).
      pose proof (node_range n _ _ Np) as Rp. fold N in Rp.
      rewrite setZ_upd by (unfold zlen; lia).
      assert (Hok' : okp k0 a) by (intros j Hj; apply Hok; lia).
      destruct (IH XX5 k0 (nth k0 u 0) (nth k0 a 0) a _ u HI' Hok' Fq') as (r & b & E & HP).
      { unfold rx_phi in *. cbn [R] in Hphi. lia. }
      exists r, b. split; [exact E|]. revert HP. apply rx_post_ext. intros z _.
      unfold rx_set. unfold us. rewrite (used_S k0 a) by lia. tauto.
Qed.

(* ------------------------------------------------------------------ live and exhausted states *)

Definition rx_live (s : rx_st) : Prop :=
  rx_n s = n /\ rx_fuel0 s = rx_fuel n /\ rx_done s = false /\
  exists a, rx_a s = Some a /\ Fam a /\ Inv n (n - 1) a (rx_l s) (rx_u s).

Definition rx_is_done (s : rx_st) : Prop := rx_done s = true.

Lemma fuel_T0 : rx_fuel n = (4 * T 0 + 4)%nat.
Proof. unfold rx_fuel, T. rewrite Nat.sub_0_r. reflexivity. Qed.

Lemma rx_done_step : forall s, rx_is_done s -> exists s', rpperm_next f s = Some (s', false) /\ rx_is_done s'.
Proof. intros s H. exists s. unfold rpperm_next. rewrite H. auto. Qed.

Lemma rx_live_step : forall s, rx_live s ->
  Fam (rpperm_value s) /\
  ((exists s', rpperm_next f s = Some (s', true) /\ rx_live s' /\
      lex_lt (rpperm_value s) (rpperm_value s') /\
      forall z, Fam z -> lex_lt (rpperm_value s) z -> lex_lt z (rpperm_value s') -> False)
   \/ (exists s', rpperm_next f s = Some (s', false) /\ rx_is_done s' /\
         forall z, Fam z -> ~ lex_lt (rpperm_value s) z)).
Proof.
  intros [n' oa l u dn fu] (Hn' & Hfu & Hdn & a & Ha & HF & HI). cbn [rx_n rx_a rx_l rx_u rx_done rx_fuel0] in *.
  subst n' oa dn fu. unfold rpperm_value. cbn [rx_a]. split; [exact HF|].
  unfold rpperm_next. cbn [rx_n rx_a rx_l rx_u rx_done rx_fuel0]. fold N.
  replace (N - 1) with (Z.of_nat (n - 1)) by (unfold N; lia).
  pose proof HI as (La & _ & _ & _ & Hnd & Hr & _).
  pose proof HF as [Hperm Hallok]. destruct (perm_facts n a Hperm) as (_ & Hnda & Hra).
  assert (Hok : okp (n - 1) a).
  { intros j Hj. rewrite allok_spec in Hallok. apply Hallok. lia. }
  destruct (rx_run_spec (rx_fuel n) XX6 (n - 1) 0 0 a l u HI Hok I) as (r & b & E & HP).
  { pose proof (R_bound (n - 1) a ltac:(lia) La Hnd Hr). pose proof (T_pos (n - 1)).
    rewrite fuel_T0. unfold rx_phi. lia. }
  rewrite E. cbn [fst snd]. unfold rx_post in HP.
  (* from "after the prefix of length n-1" to "after a" *)
  assert (Hset : forall z, Fam z -> (lex_lt (used (n - 1) a) z <-> lex_lt a z)).
  { intros z [Hz _]. destruct (perm_facts n z Hz) as (Lz & Hndz & Hrz).
    assert (Ea : a = used (n - 1) a ++ [nth (n - 1) a 0]).
    { rewrite <- used_S by lia. unfold used. replace (S (n - 1)) with (length a) by lia.
      symmetry. apply firstn_all. }
    rewrite Ea at 2. rewrite lex_app_iff. split; auto. intros [H|[A H]]; auto. exfalso.
    (* z and a agree on the first n-1 entries, so they are equal: both are permutations *)
    rewrite used_length in * by lia.
    assert (Hpre : pre (used (n - 1) a) z) by (apply pre_agree_iff; rewrite ?used_length; auto; lia).
    assert (Hin : In (nth (n - 1) a 0) z).
    { apply (Permutation_in _ (Permutation_sym Hz)). apply (Permutation_in _ Hperm). apply nth_In. lia. }
    apply In_nth with (d := 0) in Hin. destruct Hin as (i & Hi & Ei).
    destruct (Nat.eq_dec i (n - 1)) as [->|Hne]; [lia|].
    assert (Hi' : (i < n - 1)%nat) by lia.
    rewrite (pre_nth _ _ Hpre i) in Ei by (rewrite used_length; lia).
    unfold used in Ei. rewrite nth_firstn_lt in Ei by lia.
    assert (i = (n - 1)%nat); [|lia]. apply (proj1 (NoDup_nth a 0) Hnda); auto; lia. }
  destruct b.
  - left. destruct HP as (Py & Sy & Hmin & HI'). eexists. split; [reflexivity|]. cbn [rx_a negb].
    split; [|split].
    + split; [reflexivity|]. split; [reflexivity|]. split; [reflexivity|]. eexists. split; [reflexivity|]. auto.
    + apply Hset; auto.
    + intros z Pz H1 H2. apply (Hmin z Pz); auto. unfold rx_set. apply Hset; auto.
  - right. eexists. split; [reflexivity|]. split; [reflexivity|].
    intros z Pz H. apply (HP z Pz). unfold rx_set. apply Hset; auto.
Qed.

Lemma rx_first :
  (exists s1, rpperm_next f (rpperm_init n) = Some (s1, true) /\ rx_live s1 /\
     forall z, Fam z -> ~ lex_lt z (rpperm_value s1))
  \/ (exists s1, rpperm_next f (rpperm_init n) = Some (s1, false) /\ rx_is_done s1 /\ forall z, ~ Fam z).
Proof.
  unfold rpperm_next, rpperm_init. cbn [rx_n rx_a rx_l rx_u rx_done rx_fuel0]. fold N.
  destruct (Nat.eqb_spec n 0); [lia|].
  assert (HI : Inv n 0 (repeat 0 n) (map (fun i => Z.of_nat i + 1) (seq 0 n) ++ [0]) (repeat 0 n)).
  { apply Inv_init; auto; apply repeat_length. }
  assert (Hok : okp 0 (repeat 0 n)) by (intros j Hj; lia).
  destruct (rx_run_spec (rx_fuel n) XX2 0 0 0 _ _ _ HI Hok I) as (r & b & E & HP).
  { rewrite fuel_T0. unfold rx_phi. simpl. lia. }
  change (Z.of_nat 0) with 0 in E. rewrite E. cbn [fst snd]. unfold rx_post, rx_set in HP.
  assert (Hall : forall z, geq (used 0 (repeat 0 n)) z) by (intros z; left; reflexivity).
  destruct b.
  - left. destruct HP as (Py & Sy & Hmin & HI'). eexists. split; [reflexivity|]. cbn [negb]. split.
    + split; [reflexivity|]. split; [reflexivity|]. split; [reflexivity|]. eexists. split; [reflexivity|]. auto.
    + intros z Pz. unfold rpperm_value. cbn [rx_a]. apply Hmin; auto.
  - right. eexists. split; [reflexivity|]. split; [reflexivity|]. intros z Pz. apply (HP z Pz). auto.
Qed.

End Run.

(* ------------------------------------------------------------------ the theorem *)

Lemma in_rpperm_finite : forall f n, exists all, forall x, in_rpperm f n x -> In x all.
Proof.
  intros f n. exists (all_lists n n). intros x [Hx _]. destruct (perm_facts n x Hx) as (Lx & _ & Hr).
  apply all_lists_complete; auto. intros i Hi. apply Hr. apply nth_In. lia.
Qed.

Theorem rpperm_enumerates : forall f n,
  exists fuel l e, drain (rpperm_next f) rpperm_value fuel (rpperm_init n) = Some (l, e) /\
    StronglySorted lex_lt l /\ (forall x, In x l <-> in_rpperm f n x) /\ exhausted (rpperm_next f) e.
Proof.
  intros f n.
  assert (Hlen : forall x, in_rpperm f n x -> length x = n).
  { intros x [Hx _]. apply (perm_facts n x Hx). }
  destruct n as [|n'] eqn:En.
  - (* n = 0: the empty permutation once *)
    apply (enumerates_sorted rx_st (list Z) (rpperm_next f) rpperm_value lex_lt (in_rpperm f 0)
             (fun s => rx_n s = 0%nat /\ rx_a s = Some [] /\ rx_done s = false /\ (0 < rx_fuel0 s)%nat)
             (fun s => rx_done s = true)).
    + intros x _. apply lex_irrefl.
    + intros x y z Hx Hy _. apply lex_trans. rewrite (Hlen x Hx), (Hlen y Hy). auto.
    + intros x y Hx Hy. apply lex_total. rewrite (Hlen x Hx), (Hlen y Hy). auto.
    + apply in_rpperm_finite.
    + intros [n0 oa l u dn fu] (H1 & H2 & H3 & H4). cbn [rx_n rx_a rx_l rx_u rx_done rx_fuel0] in *. subst.
      unfold rpperm_value. cbn [rx_a]. split; [split; [apply perm_nil|reflexivity]|].
      right. unfold rpperm_next. cbn [rx_n rx_a rx_l rx_u rx_done rx_fuel0].
      destruct fu as [|fu]; [lia|]. simpl. eexists. split; [reflexivity|]. split; [reflexivity|].
      intros z _ (i & Hi & _). simpl in Hi. lia.
    + intros s Hs. exists s. unfold rpperm_next. rewrite Hs. auto.
    + left. unfold rpperm_next, rpperm_init. simpl. eexists. split; [reflexivity|]. split.
      * cbn [rx_n rx_a rx_l rx_u rx_done rx_fuel0]. repeat split; auto. unfold rx_fuel. lia.
      * intros z Hz (i & Hi & _). rewrite (Hlen z Hz) in Hi. lia.
  - rewrite <- En in *. assert (Hn : (0 < n)%nat) by lia.
    apply (enumerates_sorted rx_st (list Z) (rpperm_next f) rpperm_value lex_lt (in_rpperm f n)
             (rx_live n f) rx_is_done).
    + intros x _. apply lex_irrefl.
    + intros x y z Hx Hy _. apply lex_trans. rewrite (Hlen x Hx), (Hlen y Hy). auto.
    + intros x y Hx Hy. apply lex_total. rewrite (Hlen x Hx), (Hlen y Hy). auto.
    + apply in_rpperm_finite.
    + apply rx_live_step; auto.
    + apply rx_done_step.
    + apply rx_first; auto.
Qed.

Theorem rpperm_enumerates_exact : forall f n,
  exists l e, drain (rpperm_next f) rpperm_value (S (length l)) (rpperm_init n) = Some (l, e) /\
    (StronglySorted lex_lt l /\ NoDup l /\ (forall x, In x l <-> in_rpperm f n x) /\
     exhausted (rpperm_next f) e).
Proof.
  intros f n. apply drain_exact_fuel with (Q := fun l e => _).
  destruct (rpperm_enumerates f n) as (fuel & l & e & H1 & H2 & H3 & H4).
  exists fuel, l, e. split; [exact H1|]. split; [exact H2|].
  split; [apply (strict_sorted_nodup lex_lt lex_irrefl); auto|]. split; [exact H3|exact H4].
Qed.
