(* itertools.Combinations: the model of Next() enumerates the k-subsets of {0..n-1}, as strictly
   increasing arrays, in lexicographic order, each once, and then reports exhaustion for ever.
   For every n (negative n included: the family is then empty unless k = 0) and every k. *)
From Coq Require Import List ZArith Lia Arith Bool Sorted.
From Mamba Require Import Iter.Model Iter.Enum Iter.Lex.
Import ListNotations.
Open Scope Z_scope.

(* the k-subsets of {0..n-1} as increasing arrays *)
Definition in_comb (n : Z) (k : nat) (x : list Z) : Prop :=
  length x = k /\ (forall i, (i < k)%nat -> 0 <= nth i x 0 < n) /\
  (forall i, (S i < k)%nat -> nth i x 0 < nth (S i) x 0).

Lemma in_comb_lower : forall n k x, in_comb n k x -> forall i, (i < k)%nat -> Z.of_nat i <= nth i x 0.
Proof.
  intros n k x (Hl & Hr & Hinc). induction i as [|i IH]; intros Hi.
  - specialize (Hr O Hi). lia.
  - specialize (Hinc i Hi). specialize (IH ltac:(lia)). lia.
Qed.

Lemma in_comb_gap : forall n k x, in_comb n k x -> forall d i, (i + d < k)%nat ->
  nth i x 0 + Z.of_nat d <= nth (i + d) x 0.
Proof.
  intros n k x (Hl & Hr & Hinc). induction d as [|d IH]; intros i Hi.
  - rewrite Nat.add_0_r. lia.
  - specialize (IH i ltac:(lia)). specialize (Hinc (i + d)%nat ltac:(lia)).
    replace (i + S d)%nat with (S (i + d)) by lia. lia.
Qed.

Lemma in_comb_upper : forall n k x, in_comb n k x -> forall i, (i < k)%nat ->
  nth i x 0 <= n + Z.of_nat i - Z.of_nat k.
Proof.
  intros n k x H i Hi. pose proof (in_comb_gap n k x H (k - 1 - i) i ltac:(lia)) as G.
  destruct H as (Hl & Hr & _). replace (i + (k - 1 - i))%nat with (k - 1)%nat in G by lia.
  specialize (Hr (k - 1)%nat ltac:(lia)). lia.
Qed.

Lemma in_comb_k_le_n : forall n k x, in_comb n k x -> (0 < k)%nat -> Z.of_nat k <= n.
Proof.
  intros n k x H Hk. pose proof (in_comb_lower n k x H (k - 1)%nat ltac:(lia)).
  destruct H as (_ & Hr & _). specialize (Hr (k - 1)%nat ltac:(lia)). lia.
Qed.

Lemma in_comb_finite : forall n k, exists all, forall x, in_comb n k x -> In x all.
Proof.
  intros n k. exists (all_lists k (Z.to_nat n)). intros x (Hl & Hr & _).
  apply all_lists_complete; auto. intros i Hi. specialize (Hr i Hi). lia.
Qed.

(* ------------------------------------------------------------------ the loops *)

Lemma comb_ramp_spec : forall cnt j d, (0 < j)%nat -> (j + cnt <= length d)%nat ->
  exists d', comb_ramp cnt j d = Some d' /\ length d' = length d /\
    (forall t, (t < j)%nat -> nth t d' 0 = nth t d 0) /\
    (forall t, (j + cnt <= t)%nat -> nth t d' 0 = nth t d 0) /\
    (forall t, (j <= t < j + cnt)%nat -> nth t d' 0 = nth (j - 1) d 0 + Z.of_nat (t - j + 1)).
Proof.
  induction cnt as [|cnt IH]; intros j d Hj Hl.
  - exists d. cbn [comb_ramp]. repeat split; auto. intros t Ht. lia.
  - cbn [comb_ramp]. rewrite (get_nth d (j - 1)) by lia. rewrite set_upd by lia.
    set (d1 := upd d j (nth (j - 1) d 0 + 1)).
    destruct (IH (S j) d1) as (d' & E & L' & Hpre & Hpost & Hmid); [lia|unfold d1; rewrite upd_length; lia|].
    exists d'. split; [exact E|]. split; [rewrite L'; unfold d1; apply upd_length|].
    assert (Hd1j : nth j d1 0 = nth (j - 1) d 0 + 1) by (unfold d1; apply nth_upd_eq; lia).
    split; [|split].
    + intros t Ht. rewrite Hpre by lia. unfold d1. apply nth_upd_neq. lia.
    + intros t Ht. rewrite Hpost by lia. unfold d1. apply nth_upd_neq. lia.
    + intros t Ht. destruct (Nat.eq_dec t j) as [->|Hne].
      * rewrite Hpre by lia. rewrite Hd1j. replace (j - j + 1)%nat with 1%nat by lia. lia.
      * rewrite Hmid by lia. replace (S j - 1)%nat with j by lia. rewrite Hd1j.
        replace (t - j + 1)%nat with (S (t - S j + 1)) by lia. lia.
Qed.

(* the loop finds the rightmost position that is below its maximum n-k+i, increases it and
   lets the rest follow consecutively *)
Lemma comb_loop_spec : forall (n : Z) (k c : nat) (d : list Z), length d = k -> (c <= k)%nat ->
  (forall i, (c <= i < k)%nat -> n + Z.of_nat i - Z.of_nat k <= nth i d 0) ->
  (comb_loop c n (Z.of_nat k) d = Some None /\
     forall i, (i < k)%nat -> n + Z.of_nat i - Z.of_nat k <= nth i d 0)
  \/ exists j d', comb_loop c n (Z.of_nat k) d = Some (Some d') /\ (j < c)%nat /\
       nth j d 0 < n + Z.of_nat j - Z.of_nat k /\
       (forall i, (j < i < k)%nat -> n + Z.of_nat i - Z.of_nat k <= nth i d 0) /\
       length d' = k /\
       (forall i, (i < j)%nat -> nth i d' 0 = nth i d 0) /\
       (forall i, (j <= i < k)%nat -> nth i d' 0 = nth j d 0 + 1 + Z.of_nat (i - j)).
Proof.
  intros n k. induction c as [|c IH]; intros d Hl Hc Hmax.
  - left. split; [reflexivity|]. intros i Hi. apply Hmax. lia.
  - cbn [comb_loop]. rewrite (get_nth d c) by lia.
    destruct (Z.ltb_spec (nth c d 0) (n + Z.of_nat c - Z.of_nat k)) as [Hlt|Hge].
    + right. rewrite set_upd by lia. set (d1 := upd d c (nth c d 0 + 1)).
      rewrite Nat2Z.id.
      destruct (comb_ramp_spec (k - S c) (S c) d1) as (d' & E & L' & Hpre & _ & Hmid);
        [lia|unfold d1; rewrite upd_length; lia|].
      rewrite E. exists c, d'. split; [reflexivity|]. split; [lia|]. split; [exact Hlt|].
      split; [intros; apply Hmax; lia|]. split; [rewrite L'; unfold d1; rewrite upd_length; auto|].
      assert (Hd1c : nth c d1 0 = nth c d 0 + 1) by (unfold d1; apply nth_upd_eq; lia).
      split.
      * intros i Hi. rewrite Hpre by lia. unfold d1. apply nth_upd_neq. lia.
      * intros i Hi. destruct (Nat.eq_dec i c) as [->|Hne].
        -- rewrite Hpre by lia. rewrite Hd1c. rewrite Nat.sub_diag. lia.
        -- rewrite Hmid by lia. replace (S c - 1)%nat with c by lia. rewrite Hd1c.
           replace (i - c)%nat with (i - S c + 1)%nat by lia. lia.
    + destruct (IH d Hl) as [[E Hall]|(j & d' & E & Hj & rest)]; [lia| |auto|].
      * intros i Hi. destruct (Nat.eq_dec i c) as [->|]; [lia|]. apply Hmax. lia.
      * right. exists j, d'. split; [auto|]. split; [lia|]. exact rest.
Qed.

(* ------------------------------------------------------------------ live and exhausted states *)

Section Fixed.
Variable n : Z.
Variable k : nat.

Definition comb_live (s : comb_st) : Prop :=
  cb_n s = n /\
  (((0 < k)%nat /\ cb_k s = Z.of_nat k /\ in_comb n k (cb_data s))
   \/ (k = 0%nat /\ cb_k s = -1 /\ cb_data s = [])).

Definition comb_done (s : comb_st) : Prop :=
  cb_n s = n /\
  (((0 < k)%nat /\ cb_k s = Z.of_nat k /\ length (cb_data s) = k /\
      forall i, (i < k)%nat -> n + Z.of_nat i - Z.of_nat k <= nth i (cb_data s) 0)
   \/ (k = 0%nat /\ cb_k s = -1)).

Lemma in_comb_length : forall z, in_comb n k z -> length z = k.
Proof. intros z [H _]. exact H. Qed.

Lemma comb_live_step : forall s, comb_live s ->
  in_comb n k (comb_value s) /\
  ((exists s', comb_next s = Some (s', true) /\ comb_live s' /\
      lex_lt (comb_value s) (comb_value s') /\
      forall z, in_comb n k z -> lex_lt (comb_value s) z -> lex_lt z (comb_value s') -> False)
   \/ (exists s', comb_next s = Some (s', false) /\ comb_done s' /\
         forall z, in_comb n k z -> ~ lex_lt (comb_value s) z)).
Proof.
  intros [n' k' d] (Hn & [(Hk & Hk' & HF) | (Hk & Hk' & Hd)]); cbn [cb_n cb_k cb_data] in *; subst n'.
  - (* k > 0 *)
    subst k'. unfold comb_value. cbn [cb_data]. split; [exact HF|].
    unfold comb_next. cbn [cb_n cb_k cb_data].
    destruct (Z.eqb_spec (Z.of_nat k) 0) as [Hz|_]; [lia|]. rewrite Nat2Z.id.
    pose proof HF as (Hlen & Hrange & Hinc).
    destruct (comb_loop_spec n k k d Hlen (le_n _)) as [[E Hall]|(j & d' & E & Hj & Hlt & Hmax & Hl' & Hpre & Hpost)].
    { intros i Hi. lia. }
    + rewrite E. right. eexists. split; [reflexivity|]. split.
      * split; [reflexivity|]. left. cbn [cb_k cb_data]. auto.
      * apply lex_greatest. intros z i Hz Hi _. rewrite Hlen in Hi.
        pose proof (in_comb_upper n k z Hz i Hi). specialize (Hall i Hi). lia.
    + rewrite E. left. eexists. split; [reflexivity|]. cbn [cb_data].
      assert (HF' : in_comb n k d').
      { split; [exact Hl'|]. split.
        - intros i Hi. destruct (le_lt_dec j i) as [C|C].
          + rewrite Hpost by lia. specialize (Hrange j Hj).
            pose proof (Hpost i ltac:(lia)). lia.
          + rewrite Hpre by auto. auto.
        - intros i Hi. destruct (lt_eq_lt_dec (S i) j) as [[C|C]|C].
          + rewrite !Hpre by lia. auto.
          + rewrite Hpre by lia. rewrite (Hpost (S i)) by lia. subst j.
            specialize (Hinc i Hi). lia.
          + rewrite !Hpost by lia. replace (S i - j)%nat with (S (i - j)) by lia. lia. }
      split; [|split].
      * split; [reflexivity|]. left. cbn [cb_k cb_data]. auto.
      * exists j. split; [lia|]. split.
        -- intros i Hi. symmetry. auto.
        -- rewrite (Hpost j) by lia. lia.
      * apply (lex_no_between (in_comb n k) k d d' j); auto; try lia.
        -- exact in_comb_length.
        -- intros i Hi. symmetry. auto.
        -- rewrite (Hpost j) by lia. lia.
        -- intros z _ _ H1 H2. rewrite (Hpost j) in H2 by lia. lia.
        -- intros z i Hz Hi _. pose proof (in_comb_upper n k z Hz i ltac:(lia)).
           specialize (Hmax i Hi). lia.
        -- intros z i Hz Hi A. destruct Hz as (_ & _ & Hzinc).
           destruct i as [|i]; [lia|]. specialize (Hzinc i ltac:(lia)).
           rewrite <- (A i) in Hzinc by lia.
           rewrite (Hpost (S i)) by lia. rewrite (Hpost i) in Hzinc by lia.
           replace (S i - j)%nat with (S (i - j)) by lia. lia.
  - (* k = 0: the empty set was produced, the next call reports exhaustion *)
    subst k' d. unfold comb_value. cbn [cb_data]. split.
    + split; [simpl; lia|]. split; intros i Hi; lia.
    + right. unfold comb_next. cbn [cb_n cb_k cb_data]. simpl. eexists. split; [reflexivity|]. split.
      * split; [reflexivity|]. right. auto.
      * intros z _ (i & Hi & _). simpl in Hi. lia.
Qed.

Lemma comb_done_step : forall s, comb_done s -> exists s', comb_next s = Some (s', false) /\ comb_done s'.
Proof.
  intros [n' k' d] (Hn & [(Hk & Hk' & Hlen & Hmaxed) | (Hk & Hk')]); cbn [cb_n cb_k cb_data] in *; subst n'.
  - subst k'. unfold comb_next. cbn [cb_n cb_k cb_data].
    destruct (Z.eqb_spec (Z.of_nat k) 0) as [Hz|_]; [lia|]. rewrite Nat2Z.id.
    destruct (comb_loop_spec n k k d Hlen (le_n _)) as [[E Hall]|(j & d' & E & Hj & Hlt & _)].
    { intros i Hi. lia. }
    + rewrite E. eexists. split; [reflexivity|]. split; [reflexivity|]. left. cbn [cb_k cb_data]. auto.
    + exfalso. specialize (Hmaxed j Hj). lia.
  - subst k'. unfold comb_next. cbn [cb_n cb_k cb_data]. simpl.
    eexists. split; [reflexivity|]. split; [reflexivity|]. right. auto.
Qed.

End Fixed.

Lemma comb_data0_length : forall k, length (comb_data0 k) = k.
Proof.
  destruct k as [|k]; [reflexivity|]. unfold comb_data0. rewrite app_length, iota_length. simpl. lia.
Qed.

Lemma comb_data0_nth : forall k i, (i < S k)%nat ->
  nth i (comb_data0 (S k)) 0 = if (i =? k)%nat then Z.of_nat k - 1 else Z.of_nat i.
Proof.
  intros k i Hi. unfold comb_data0. destruct (Nat.eqb_spec i k).
  - subst. rewrite app_nth2 by (rewrite iota_length; lia). rewrite iota_length, Nat.sub_diag. reflexivity.
  - rewrite app_nth1 by (rewrite iota_length; lia). apply nth_iota. lia.
Qed.

Theorem comb_enumerates : forall n k,
  exists fuel l e, drain comb_next comb_value fuel (comb_init n k) = Some (l, e) /\
    StronglySorted lex_lt l /\ (forall x, In x l <-> in_comb n k x) /\ exhausted comb_next e.
Proof.
  intros n k.
  apply (enumerates_sorted comb_st (list Z) comb_next comb_value lex_lt (in_comb n k)
           (comb_live n k) (comb_done n k)).
  - intros x _. apply lex_irrefl.
  - intros x y z [Hx _] [Hy _] _. apply lex_trans. lia.
  - intros x y [Hx _] [Hy _]. apply lex_total. lia.
  - apply in_comb_finite.
  - apply comb_live_step.
  - apply comb_done_step.
  - (* the first call *)
    unfold comb_init, comb_next. cbn [cb_n cb_k cb_data].
    destruct k as [|k].
    + left. simpl. eexists. split; [reflexivity|]. split.
      * split; [reflexivity|]. right. auto.
      * intros z [Hz _] (i & Hi & _). rewrite Hz in Hi. lia.
    + destruct (Z.eqb_spec (Z.of_nat (S k)) 0) as [Hz|_]; [lia|]. rewrite Nat2Z.id.
      pose proof (comb_data0_length (S k)) as Hlen.
      destruct (comb_loop_spec n (S k) (S k) (comb_data0 (S k)) Hlen (le_n _))
        as [[E Hall]|(j & d' & E & Hj & Hlt & Hmax & Hl' & Hpre & Hpost)].
      { intros i Hi. lia. }
      * (* k > n: nothing is produced *)
        rewrite E. right. eexists. split; [reflexivity|]. split.
        -- split; [reflexivity|]. left. cbn [cb_k cb_data]. repeat split; auto; lia.
        -- intros z Hz. pose proof (in_comb_k_le_n n (S k) z Hz ltac:(lia)).
           specialize (Hall k ltac:(lia)). rewrite comb_data0_nth in Hall by lia.
           rewrite Nat.eqb_refl in Hall. lia.
      * rewrite E. left. eexists. split; [reflexivity|].
        (* the position increased is the last one *)
        assert (Hjk : j = k).
        { destruct (Nat.eq_dec j k); auto. exfalso.
          specialize (Hmax k ltac:(lia)). rewrite comb_data0_nth in Hmax, Hlt by lia.
          rewrite Nat.eqb_refl in Hmax. destruct (Nat.eqb_spec j k); lia. }
        subst j. rewrite comb_data0_nth in Hlt by lia. rewrite Nat.eqb_refl in Hlt.
        assert (Hd' : forall i, (i < S k)%nat -> nth i d' 0 = Z.of_nat i).
        { intros i Hi. destruct (Nat.eq_dec i k) as [->|Hne].
          - rewrite Hpost by lia. rewrite comb_data0_nth by lia. rewrite Nat.eqb_refl, Nat.sub_diag. lia.
          - rewrite Hpre by lia. rewrite comb_data0_nth by lia. destruct (Nat.eqb_spec i k); lia. }
        split.
        -- split; [reflexivity|]. left. cbn [cb_k cb_data]. split; [lia|]. split; [reflexivity|].
           split; [exact Hl'|]. split.
           ++ intros i Hi. rewrite Hd' by auto. lia.
           ++ intros i Hi. rewrite !Hd' by lia. lia.
        -- apply lex_least. intros z i Hz Hi _. unfold comb_value. cbn [cb_data].
           rewrite (in_comb_length _ _ _ Hz) in Hi. rewrite Hd' by auto.
           apply (in_comb_lower n (S k) z Hz i Hi).
Qed.

Theorem comb_enumerates_exact : forall n k,
  exists l e, drain comb_next comb_value (S (length l)) (comb_init n k) = Some (l, e) /\
    (StronglySorted lex_lt l /\ NoDup l /\ (forall x, In x l <-> in_comb n k x) /\
     exhausted comb_next e).
Proof.
  intros n k. apply drain_exact_fuel with (Q := fun l e => _).
  destruct (comb_enumerates n k) as (fuel & l & e & H1 & H2 & H3 & H4).
  exists fuel, l, e. split; [exact H1|]. split; [exact H2|].
  split; [apply (strict_sorted_nodup lex_lt lex_irrefl); auto|]. split; [exact H3|exact H4].
Qed.
