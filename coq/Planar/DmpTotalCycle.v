(* C11 / totality of the DMP model — the search for the first cycle ([first_cycle]) in a
   well-formed 2-connected block with at least three vertices: it never runs out of fuel, never
   fails, and returns a list of at least two distinct vertices. *)
From Coq Require Import List Arith Bool Lia Permutation.
From Mamba Require Import Planar.Model Planar.ExecLists Planar.DmpModel Planar.DmpTotalBase.
Import ListNotations.

Fixpoint pchain (ps : list (option nat)) (st : list nat) : Prop :=
  match st with
  | [] => True
  | x :: r => match r with
              | y :: _ => par ps x = Some y
              | [] => x = 0 /\ par ps 0 = Some 0
              end /\ pchain ps r
  end.

Lemma pchain_visited : forall ps st x, pchain ps st -> In x st -> par ps x <> None.
Proof.
  intros ps st x. induction st as [|y r IH]; simpl; [tauto|].
  intros [C1 C2] [<-|Hx]; [|apply IH; assumption].
  destruct r as [|z r']; [destruct C1 as [-> C1]|]; congruence.
Qed.

Lemma par_upd_other : forall ps u v x, x <> u -> par (upd u v ps) x = par ps x.
Proof. intros. unfold par. apply nth_upd_other. congruence. Qed.

Lemma par_upd_same : forall ps u v, u < length ps -> par (upd u v ps) u = v.
Proof. intros. unfold par. apply nth_upd_same. assumption. Qed.

Lemma pchain_upd : forall ps st u v, ~ In u st -> pchain ps st -> pchain (upd u v ps) st.
Proof.
  intros ps st u v. induction st as [|x r IH]; simpl; [tauto|].
  intros N [C1 C2]. split; [|apply IH; tauto].
  destruct r as [|y r'].
  - destruct C1 as [-> C1]. split; [reflexivity|]. rewrite par_upd_other; [exact C1|tauto].
  - rewrite par_upd_other; [exact C1|tauto].
Qed.

Lemma walk_ok : forall ps u rest prev HV HE fuel,
  pchain ps (prev :: rest) -> In u rest -> length rest < fuel ->
  exists seg HE' tl', walk_up fuel ps u prev HV HE = Some (HV ++ seg, HE') /\ rest = seg ++ u :: tl'.
Proof.
  intros ps u rest. induction rest as [|y r IH]; intros prev HV HE fuel C Hu L; [destruct Hu|].
  destruct fuel as [|f]; [lia|]. cbn [walk_up]. destruct C as [C1 C2]. rewrite C1.
  destruct (Nat.eqb_spec y u) as [->|N].
  - exists [], (HE ++ [mke prev u]), r. rewrite app_nil_r. split; reflexivity.
  - destruct Hu as [Hu|Hu]; [congruence|].
    destruct (IH y (HV ++ [y]) (HE ++ [mke prev y]) f C2 Hu) as [seg [HE' [tl' [E1 E2]]]].
    + simpl in L. lia.
    + exists (y :: seg), HE', tl'. rewrite E1, <- app_assoc. split; [reflexivity|]. rewrite E2. reflexivity.
Qed.

Section Cycle.
Variable h : blk.
Hypothesis Hwf : wfb h.
Hypothesis Hbi : biconn h.
Hypothesis Hn : 3 <= bn h.

Definition cyc_ok (c : cyc) : Prop :=
  exists HVc HE, c = Cyc HVc HE /\ NoDup HVc /\ 2 <= length HVc /\ forall x, In x HVc -> x < bn h.

Lemma find_cycle_ok : forall fuel st ps,
  st <> [] -> pchain ps st -> NoDup st -> (forall x, In x st -> x < bn h) -> length ps = bn h ->
  (forall x, par ps x <> None -> In x st) ->
  bn h - length st < fuel ->
  cyc_ok (find_cycle fuel h st ps).
Proof.
  induction fuel as [|f IH]; intros st ps NE C ND LT LP VIS LF; [lia|].
  destruct st as [|v rest]; [congruence|]. cbn [find_cycle].
  assert (Lv : v < bn h) by (apply LT; left; reflexivity).
  destruct (biconn_deg2 h Hwf Hbi Hn v Lv) as [u1 [u2 [Hu1 [Hu2 N12]]]].
  assert (Pv : par ps v <> None) by (apply (pchain_visited ps (v :: rest)); [exact C|left; reflexivity]).
  destruct (par ps v) as [p|] eqn:Ep; [|congruence].
  destruct (findf (fun u => negb (u =? p)) (nb h v)) as [u|] eqn:F.
  - apply findf_some in F. destruct F as [Hu Nu]. apply negb_true_iff, Nat.eqb_neq in Nu.
    assert (Nuv : u <> v) by (apply (wfb_ne h Hwf _ _ Hu)).
    assert (Lu : u < bn h) by (apply (wfb_lt h Hwf _ _ Hu)).
    destruct (par ps u) as [q|] eqn:Eu.
    + (* a visited vertex: the cycle closes *)
      assert (Ust : In u (v :: rest)) by (apply VIS; congruence).
      destruct Ust as [Q|Ust]; [congruence|].
      assert (LST : length (v :: rest) <= bn h) by (apply NoDup_len_le; assumption).
      destruct (walk_ok ps u rest v [u; v] [mke u v] (S (S (bn h))) C Ust) as [seg [HE' [tl' [E1 E2]]]].
      { simpl in LST. lia. }
      rewrite E1. exists ([u; v] ++ seg), HE'. split; [reflexivity|].
      assert (P : Permutation (v :: rest) (([u; v] ++ seg) ++ tl')).
      { rewrite E2. simpl. rewrite <- Permutation_middle. apply perm_swap. }
      split; [|split].
      * assert (ND' : NoDup (([u; v] ++ seg) ++ tl')) by (eapply Permutation_NoDup; eauto).
        apply NoDup_app_iff2 in ND'. tauto.
      * simpl. lia.
      * intros x Hx. apply LT. eapply Permutation_in; [symmetry; exact P|]. apply in_app_iff. left. exact Hx.
    + (* a new vertex *)
      assert (Nust : ~ In u (v :: rest)).
      { intros Q. apply (pchain_visited ps (v :: rest) u C Q). exact Eu. }
      apply IH.
      * discriminate.
      * split; [rewrite par_upd_same; [reflexivity|lia]|apply pchain_upd; assumption].
      * constructor; assumption.
      * intros x [<-|Hx]; [exact Lu|apply LT, Hx].
      * rewrite upd_length. exact LP.
      * intros x Hx. destruct (Nat.eq_dec x u) as [->|N]; [left; reflexivity|].
        right. apply VIS. rewrite par_upd_other in Hx; assumption.
      * assert (LST : length (u :: v :: rest) <= bn h).
        { apply NoDup_len_le; [constructor; assumption|]. intros x [<-|Hx]; [exact Lu|apply LT, Hx]. }
        simpl in *. lia.
  - exfalso. pose proof (findf_none _ _ _ F) as Q.
    pose proof (Q u1 Hu1) as Q1. pose proof (Q u2 Hu2) as Q2. simpl in Q1, Q2.
    apply negb_false_iff, Nat.eqb_eq in Q1. apply negb_false_iff, Nat.eqb_eq in Q2. congruence.
Qed.

Lemma first_cycle_ok : cyc_ok (first_cycle h).
Proof.
  unfold first_cycle. apply find_cycle_ok.
  - discriminate.
  - simpl. auto.
  - constructor; [simpl; tauto|constructor].
  - intros x [<-|[]]. lia.
  - simpl. rewrite repeat_length. lia.
  - intros x Hx. destruct x as [|x]; [left; reflexivity|]. exfalso. apply Hx.
    unfold par. simpl. destruct (Nat.lt_ge_cases x (bn h - 1)) as [L|L].
    + apply nth_repeat.
    + apply nth_overflow. rewrite repeat_length. exact L.
  - simpl. lia.
Qed.

End Cycle.
