(* C11 — the executable minor search of Planar/Model.v decides the specification of
   Planar/Spec.v:  k5_minor_b g = true <-> has_minor K5 g,  k33_minor_b g = true <->
   has_minor K33 g,  planar_b g = true <-> planar g;  and a certificate accepted by
   check_model_b is a model (soundness of the certificate checker). *)
From Coq Require Import List Arith Bool Relations Lia.
From Mamba Require Import Planar.Model Planar.Spec Planar.SpecLemmas Planar.ExecLists.
Import ListNotations.

(* ---- the adjacency matrix *)
Lemma nth_map_seq : forall (A : Type) (f : nat -> A) (d : A) n i, i < n -> nth i (map f (seq 0 n)) d = f i.
Proof.
  intros A f d n i L. rewrite (nth_indep _ d (f 0)) by (rewrite map_length, seq_length; exact L).
  rewrite map_nth. rewrite seq_nth by exact L. reflexivity.
Qed.

Lemma madj_adjm : forall g u v, madj (adjm g) u v = adj g u v.
Proof.
  intros g u v. unfold madj, adjm.
  destruct (Nat.ltb_spec u (gn g)) as [Lu|Lu].
  - rewrite nth_map_seq by exact Lu.
    destruct (Nat.ltb_spec v (gn g)) as [Lv|Lv].
    + rewrite nth_map_seq by exact Lv. reflexivity.
    + rewrite nth_overflow by (rewrite map_length, seq_length; exact Lv).
      unfold adj. apply Nat.ltb_ge in Lv. rewrite Lv. rewrite andb_false_r. reflexivity.
  - rewrite (nth_overflow _ []) by (rewrite map_length, seq_length; exact Lu).
    unfold adj. apply Nat.ltb_ge in Lu. rewrite Lu. destruct v; reflexivity.
Qed.

(* ---- candidates *)
Definition cand_ok (g : graph) (c : cand) : Prop :=
  fst c <> [] /\
  (forall v, In v (fst c) -> v < gn g) /\
  (forall u v, In u (fst c) -> In v (fst c) -> conn g (fun x => memb x (fst c)) u v) /\
  (forall v, In v (snd c) <-> (v < gn g /\ exists u, In u (fst c) /\ adj g u v = true)).

Definition cand_of (g : graph) (S : list nat) : cand := (S, nbhd (adjm g) (gn g) S).

Lemma nbhd_spec : forall g S v,
  In v (nbhd (adjm g) (gn g) S) <-> (v < gn g /\ exists u, In u S /\ adj g u v = true).
Proof.
  intros g S v. unfold nbhd. rewrite filter_In, in_seq, existsb_exists. split.
  - intros [L (u & Hu & A)]. rewrite madj_adjm in A. split; [lia|]. exists u. auto.
  - intros [L (u & Hu & A)]. split; [lia|]. exists u. rewrite madj_adjm. auto.
Qed.

Lemma cands_In : forall g c, In c (cands g) <->
  exists S, In S (sublists (seq 0 (gn g))) /\ connl (madj (adjm g)) S = true /\ c = cand_of g S.
Proof.
  intros g c. unfold cands. rewrite in_map_iff. split.
  - intros (S & E & HS). apply filter_In in HS. exists S. unfold cand_of. intuition.
  - intros (S & HS & C & E). exists S. split; [symmetry; exact E|]. apply filter_In. auto.
Qed.

Lemma cands_ok : forall g c, In c (cands g) -> cand_ok g c.
Proof.
  intros g c Hc. apply cands_In in Hc. destruct Hc as (S & HS & C & ->).
  apply sublists_incl in HS.
  destruct (connl_sound (madj (adjm g)) S) as [NE CO]; [|exact C|].
  { intros x y. rewrite !madj_adjm. apply adj_sym. }
  unfold cand_of. split; [exact NE|]. split; [|split]; simpl.
  - intros v Hv. apply HS in Hv. apply in_seq in Hv. lia.
  - intros u v Hu Hv. unfold conn. apply (crt_mono (lstep (madj (adjm g)) S)); [|apply CO; auto].
    intros x y (X & Y & A). rewrite madj_adjm in A. apply memb_In in X. apply memb_In in Y.
    split; [exact X|]. split; [exact Y|exact A].
  - apply nbhd_spec.
Qed.

Lemma cdisj_spec : forall a b, cdisj a b = true <-> (forall v, In v (fst a) -> ~ In v (fst b)).
Proof. intros. unfold cdisj. apply disjl_spec. Qed.

Lemma cdisj_sym : forall a b, cdisj a b = true -> cdisj b a = true.
Proof. intros a b. unfold cdisj. apply disjl_sym. Qed.

Lemma ctouch_spec : forall g a b, cand_ok g a ->
  (ctouch a b = true <-> exists u v, In u (fst a) /\ In v (fst b) /\ adj g u v = true).
Proof.
  intros g a b (_ & _ & _ & N). unfold ctouch. rewrite interl_spec. split.
  - intros (v & Hv & Hb). apply N in Hv. destruct Hv as [_ (u & Hu & A)]. exists u, v. auto.
  - intros (u & v & Hu & Hv & A). exists v. split; [|exact Hv]. apply N.
    destruct (adj_lt _ _ _ A) as (_ & L & _). split; [exact L|]. exists u. auto.
Qed.

Lemma ctouch_sym : forall g a b, cand_ok g a -> cand_ok g b -> ctouch a b = true -> ctouch b a = true.
Proof.
  intros g a b Oa Ob T. apply (ctouch_spec g a b Oa) in T. destruct T as (u & v & Hu & Hv & A).
  apply (ctouch_spec g b a Ob). exists v, u. rewrite adj_sym. auto.
Qed.

(* ---- from a list of candidates to a model *)
Definition cnil : cand := ([], []).

Lemma model_of_cands : forall H g (cs : list cand),
  length cs = gn H ->
  (forall c, In c cs -> cand_ok g c) ->
  (forall i j, i < gn H -> j < gn H -> i <> j -> cdisj (nth i cs cnil) (nth j cs cnil) = true) ->
  (forall i j, adj H i j = true -> ctouch (nth i cs cnil) (nth j cs cnil) = true) ->
  is_model H g (fun h v => memb v (fst (nth h cs cnil))).
Proof.
  intros H g cs L OK D T.
  assert (OKn : forall h, h < gn H -> cand_ok g (nth h cs cnil)).
  { intros h Hh. apply OK. apply nth_In. lia. }
  split; [|split; [|split; [|split]]].
  - intros h Hh. destruct (OKn h Hh) as (NE & _). destruct (fst (nth h cs cnil)) as [|v r] eqn:E; [congruence|].
    exists v. apply memb_In. left. reflexivity.
  - intros h v Hh Hv. apply memb_In in Hv. destruct (OKn h Hh) as (_ & R & _). apply R. exact Hv.
  - intros h h' v Hh Hh' Hv Hv'. apply memb_In in Hv. apply memb_In in Hv'.
    destruct (Nat.eq_dec h h') as [E|N]; [exact E|]. exfalso.
    pose proof (D h h' Hh Hh' N) as X. rewrite cdisj_spec in X. exact (X v Hv Hv').
  - intros h u v Hh Hu Hv. apply memb_In in Hu. apply memb_In in Hv.
    destruct (OKn h Hh) as (_ & _ & C & _). apply C; assumption.
  - intros h h' A. destruct (adj_lt _ _ _ A) as (Lh & Lh' & _).
    pose proof (T h h' A) as X. apply (ctouch_spec g _ _ (OKn h Lh)) in X.
    destruct X as (u & v & Hu & Hv & Auv). exists u, v. rewrite <- !memb_In in *. auto.
Qed.

(* ---- from a model to candidates *)
Section FromModel.
  Variables (H g : graph) (bs : nat -> nat -> bool).
  Hypothesis M : is_model H g bs.
  Let n := gn g.
  Definition bset (h : nat) : list nat := filter (bs h) (seq 0 n).
  Definition bcand (h : nat) : cand := cand_of g (bset h).

  Lemma bset_In : forall h v, h < gn H -> (In v (bset h) <-> bs h v = true).
  Proof.
    intros h v Hh. unfold bset. rewrite filter_In, in_seq. destruct M as (_ & R & _). split; [tauto|].
    intros Hv. split; [|exact Hv]. pose proof (R h v Hh Hv). unfold n. lia.
  Qed.

  Lemma bcand_in : forall h, h < gn H -> In (bcand h) (cands g).
  Proof.
    intros h Hh. apply cands_In. exists (bset h). split; [apply filter_in_sublists|]. split; [|reflexivity].
    destruct M as (NE & R & _ & C & _). destruct (NE h Hh) as [v0 Hv0].
    apply (bset_In h v0 Hh) in Hv0.
    destruct (bset h) as [|s0 S'] eqn:ES; [destruct Hv0|].
    apply (connl_complete _ _ s0 S' eq_refl). rewrite <- ES. intros v Hv.
    assert (Hs0 : In s0 (bset h)) by (rewrite ES; left; reflexivity).
    apply (bset_In h _ Hh) in Hs0. pose proof Hv as Hv'. apply (bset_In h _ Hh) in Hv'.
    apply (crt_mono (step g (bs h))); [|apply C; auto].
    intros x y (X & Y & A). unfold lstep. rewrite madj_adjm. split; [|split; [|exact A]]; apply (bset_In h _ Hh); assumption.
  Qed.

  Lemma bcand_disj : forall h h', h < gn H -> h' < gn H -> h <> h' -> cdisj (bcand h) (bcand h') = true.
  Proof.
    intros h h' Hh Hh' N. apply cdisj_spec. simpl. intros v Hv Hv'.
    apply (bset_In h v Hh) in Hv. apply (bset_In h' v Hh') in Hv'.
    destruct M as (_ & _ & D & _). apply N. apply (D h h' v); assumption.
  Qed.

  Lemma bcand_inj : forall h h', h < gn H -> h' < gn H -> bcand h = bcand h' -> h = h'.
  Proof.
    intros h h' Hh Hh' E. destruct (Nat.eq_dec h h') as [|N]; [assumption|]. exfalso.
    pose proof (bcand_disj h h' Hh Hh' N) as X. rewrite cdisj_spec in X. rewrite <- E in X.
    destruct M as (NE & _). destruct (NE h Hh) as [v Hv]. apply (bset_In h v Hh) in Hv.
    exact (X v Hv Hv).
  Qed.

  Lemma bcand_touch : forall h h', adj H h h' = true -> ctouch (bcand h) (bcand h') = true.
  Proof.
    intros h h' A. destruct (adj_lt _ _ _ A) as (Hh & Hh' & _).
    apply (ctouch_spec g); [apply cands_ok; apply bcand_in; exact Hh|].
    destruct M as (_ & _ & _ & _ & E). destruct (E h h' A) as (u & v & Hu & Hv & Auv).
    exists u, v. simpl. split; [apply (bset_In h u Hh); exact Hu|]. split; [apply (bset_In h' v Hh'); exact Hv|exact Auv].
  Qed.

  Lemma bcands_NoDup : forall l, NoDup l -> (forall h, In h l -> h < gn H) -> NoDup (map bcand l).
  Proof.
    intros l ND. induction ND as [|a l NI ND IH]; intros B; simpl; constructor.
    - intros X. apply in_map_iff in X. destruct X as (b & E & Hb). apply NI.
      assert (b = a); [|subst; exact Hb]. apply bcand_inj; auto; apply B; [right|left]; auto.
    - apply IH. intros h Hh. apply B. right. exact Hh.
  Qed.
End FromModel.

(* ---- K5 *)
Lemma K5_adj : forall i j, i < 5 -> j < 5 -> i <> j -> adj K5 i j = true.
Proof.
  intros i j Li Lj N.
  do 5 (destruct i as [|i]; [do 5 (destruct j as [|j]; [first [reflexivity | congruence]|]); lia|]). lia.
Qed.

Theorem k5_sound : forall g, k5_minor_b g = true -> has_minor K5 g.
Proof.
  intros g T. unfold k5_minor_b in T. destruct (tri_sound _ _ _ T) as (cs & L & I & F).
  assert (OK : forall c, In c cs -> cand_ok g c) by (intros c Hc; apply cands_ok, I, Hc).
  assert (P : forall i j, i < 5 -> j < 5 -> i <> j -> compat5 (nth i cs cnil) (nth j cs cnil) = true).
  { intros i j Li Lj N. destruct (Nat.lt_total i j) as [Lt|[E|Gt]]; [|contradiction|].
    - apply (FOP_nth _ _ cnil _ F i j Lt). lia.
    - pose proof (FOP_nth _ _ cnil _ F j i Gt ltac:(lia)) as X. simpl in X.
      unfold compat5 in *. apply andb_prop in X. destruct X as [X1 X2]. apply andb_true_iff. split.
      + apply cdisj_sym. exact X1.
      + apply (ctouch_sym g); [apply OK, nth_In; lia|apply OK, nth_In; lia|exact X2]. }
  eexists. apply (model_of_cands K5 g cs L OK).
  - intros i j Li Lj N. specialize (P i j Li Lj N). unfold compat5 in P. apply andb_prop in P. tauto.
  - intros i j A. destruct (adj_lt _ _ _ A) as (Li & Lj & N).
    specialize (P i j Li Lj N). unfold compat5 in P. apply andb_prop in P. tauto.
Qed.

Theorem k5_complete : forall g, has_minor K5 g -> k5_minor_b g = true.
Proof.
  intros g [bs M]. unfold k5_minor_b.
  apply (tri_complete _ _ _ (map (bcand g bs) (seq 0 5))).
  - apply (bcands_NoDup K5 g bs M); [apply seq_NoDup|]. intros h Hh. apply in_seq in Hh. simpl. lia.
  - reflexivity.
  - intros c Hc. apply in_map_iff in Hc. destruct Hc as (h & <- & Hh). apply in_seq in Hh.
    apply (bcand_in K5 g bs M). simpl. lia.
  - intros a b Ha Hb N. apply in_map_iff in Ha. apply in_map_iff in Hb.
    destruct Ha as (i & <- & Hi). destruct Hb as (j & <- & Hj). apply in_seq in Hi. apply in_seq in Hj.
    assert (Nij : i <> j) by congruence.
    unfold compat5. apply andb_true_iff. split.
    + apply (bcand_disj K5 g bs M); simpl; lia.
    + apply (bcand_touch K5 g bs M). apply K5_adj; lia.
Qed.

(* ---- K3,3 *)
Lemma K33_adj : forall i j, adj K33 i j = true <-> ((i < 3 /\ 3 <= j < 6) \/ (j < 3 /\ 3 <= i < 6)).
Proof.
  intros i j. split.
  - intros A. destruct (adj_lt _ _ _ A) as (Li & Lj & _). simpl in Li, Lj.
    do 6 (destruct i as [|i]; [do 6 (destruct j as [|j]; [first [discriminate A | lia]|]); lia|]). lia.
  - intros [[Li Lj]|[Lj Li]];
    do 6 (destruct i as [|i]; [do 6 (destruct j as [|j]; [first [reflexivity | lia]|]); lia|]); lia.
Qed.

Theorem k33_sound : forall g, k33_minor_b g = true -> has_minor K33 g.
Proof.
  intros g T. unfold k33_minor_b in T.
  destruct (tri2_sound _ _ _ T) as (As & Bs & LA & LB & IA & IB & FA & FB & C).
  set (cs := As ++ Bs).
  assert (OK : forall c, In c cs -> cand_ok g c).
  { intros c Hc. apply cands_ok. apply in_app_or in Hc. destruct Hc; [apply IA|apply IB]; assumption. }
  assert (NA : forall i, i < 3 -> nth i cs cnil = nth i As cnil /\ In (nth i As cnil) As).
  { intros i Li. split; [apply app_nth1; lia|apply nth_In; lia]. }
  assert (NB : forall i, 3 <= i < 6 -> nth i cs cnil = nth (i - 3) Bs cnil /\ In (nth (i - 3) Bs cnil) Bs).
  { intros i Li. split; [unfold cs; rewrite app_nth2 by lia; rewrite LA; reflexivity|apply nth_In; lia]. }
  assert (OKn : forall i, i < 6 -> cand_ok g (nth i cs cnil)).
  { intros i Li. apply OK, nth_In. unfold cs. rewrite app_length. lia. }
  (* disjointness, ordered pairs first *)
  assert (D0 : forall i j, i < j -> j < 6 -> cdisj (nth i cs cnil) (nth j cs cnil) = true).
  { intros i j Lij Lj. destruct (Nat.lt_ge_cases j 3) as [J|J].
    - destruct (NA i ltac:(lia)) as [-> _]. destruct (NA j J) as [-> _].
      apply (FOP_nth _ _ cnil _ FA i j Lij). lia.
    - destruct (NB j ltac:(lia)) as [-> Hj]. destruct (Nat.lt_ge_cases i 3) as [I|I].
      + destruct (NA i I) as [-> Hi]. specialize (C _ _ Hi Hj). unfold compat33 in C. apply andb_prop in C. tauto.
      + destruct (NB i ltac:(lia)) as [-> _]. apply (FOP_nth _ _ cnil _ FB (i - 3) (j - 3)); lia. }
  assert (T0 : forall i j, i < 3 -> 3 <= j < 6 -> ctouch (nth i cs cnil) (nth j cs cnil) = true).
  { intros i j Li Lj. destruct (NA i Li) as [-> Hi]. destruct (NB j Lj) as [-> Hj].
    specialize (C _ _ Hi Hj). unfold compat33 in C. apply andb_prop in C. tauto. }
  eexists. apply (model_of_cands K33 g cs).
  - unfold cs. rewrite app_length. simpl. lia.
  - exact OK.
  - intros i j Li Lj N. simpl in Li, Lj. destruct (Nat.lt_total i j) as [Lt|[E|Gt]]; [|contradiction|].
    + apply D0; assumption.
    + apply cdisj_sym. apply D0; assumption.
  - intros i j A. apply K33_adj in A. destruct A as [[Li Lj]|[Lj Li]].
    + apply T0; assumption.
    + apply (ctouch_sym g); [apply OKn; lia|apply OKn; lia|]. apply T0; assumption.
Qed.

Theorem k33_complete : forall g, has_minor K33 g -> k33_minor_b g = true.
Proof.
  intros g [bs M]. unfold k33_minor_b.
  assert (IN : forall l, (forall h, In h l -> h < 6) -> incl (map (bcand g bs) l) (cands g)).
  { intros l B c Hc. apply in_map_iff in Hc. destruct Hc as (h & <- & Hh). apply (bcand_in K33 g bs M). apply B, Hh. }
  assert (DJ : forall l, (forall h, In h l -> h < 6) -> forall a b, In a (map (bcand g bs) l) ->
             In b (map (bcand g bs) l) -> a <> b -> cdisj a b = true).
  { intros l B a b Ha Hb N. apply in_map_iff in Ha. apply in_map_iff in Hb.
    destruct Ha as (i & <- & Hi). destruct Hb as (j & <- & Hj).
    apply (bcand_disj K33 g bs M); [apply B, Hi|apply B, Hj|congruence]. }
  assert (BA : forall h, In h [0;1;2] -> h < 6) by (simpl; intros h Hh; lia).
  assert (BB : forall h, In h [3;4;5] -> h < 6) by (simpl; intros h Hh; lia).
  apply (tri2_complete 3 _ _ (map (bcand g bs) [0;1;2]) (map (bcand g bs) [3;4;5])).
  - apply (bcands_NoDup K33 g bs M); [|exact BA]. repeat constructor; simpl; lia.
  - reflexivity.
  - apply IN, BA.
  - apply (bcands_NoDup K33 g bs M); [|exact BB]. repeat constructor; simpl; lia.
  - reflexivity.
  - apply IN, BB.
  - apply DJ, BA.
  - apply DJ, BB.
  - intros a b Ha Hb. apply in_map_iff in Ha. apply in_map_iff in Hb.
    destruct Ha as (i & <- & Hi). destruct Hb as (j & <- & Hj).
    unfold compat33. apply andb_true_iff. split.
    + apply (bcand_disj K33 g bs M); simpl in *; lia.
    + apply (bcand_touch K33 g bs M). apply K33_adj. simpl in *. lia.
Qed.

(* ---- the decision procedure *)
Theorem k5_minor_b_correct : forall g, k5_minor_b g = true <-> has_minor K5 g.
Proof. intros g. split; [apply k5_sound|apply k5_complete]. Qed.

Theorem k33_minor_b_correct : forall g, k33_minor_b g = true <-> has_minor K33 g.
Proof. intros g. split; [apply k33_sound|apply k33_complete]. Qed.

Theorem planar_b_correct : forall g, planar_b g = true <-> planar g.
Proof.
  intros g. unfold planar_b, planar. rewrite andb_true_iff, !negb_true_iff.
  rewrite <- !not_true_iff_false, k5_minor_b_correct, k33_minor_b_correct. reflexivity.
Qed.

Corollary planar_b_false : forall g, planar_b g = false <-> ~ planar g.
Proof. intros g. rewrite <- planar_b_correct. symmetry. apply not_true_iff_false. Qed.
