(* C11 / totality of the DMP model — one iteration of the embedding loop ([dmp_step]) on a state
   that meets the invariant, for a well-formed 2-connected block: the result is `true`, `false`
   or a next state that meets the invariant again and has a smaller measure.  In particular none
   of the index errors and neither of the two panic statements is reachable, and no inner loop
   runs out of its fuel. *)
From Coq Require Import List Arith Bool Lia Permutation.
From Mamba Require Import Planar.Model Planar.ExecLists Planar.DmpModel Planar.DmpTotalBase
  Planar.DmpTotalExplore Planar.DmpTotalPath Planar.DmpTotalFace.
Import ListNotations.

(* ------------------------------------------------------------------ small facts *)

Lemma NoDup_flat_map_in : forall (A : Type) (g : A -> list nat) l x,
  NoDup (flat_map g l) -> In x l -> NoDup (g x).
Proof.
  intros A g l x ND Hx. destruct (in_split x l Hx) as [l1 [l2 ->]].
  rewrite flat_map_app in ND. simpl in ND.
  apply NoDup_app_iff2 in ND. destruct ND as [_ [ND _]].
  apply NoDup_app_iff2 in ND. tauto.
Qed.

Lemma flat_map_perm : forall (A : Type) (g : A -> list nat) l l',
  Permutation l l' -> Permutation (flat_map g l) (flat_map g l').
Proof.
  intros A g l l' P. induction P; simpl.
  - reflexivity.
  - apply Permutation_app_head. assumption.
  - rewrite !app_assoc. apply Permutation_app_tail. apply Permutation_app_comm.
  - etransitivity; eauto.
Qed.

Lemma combine_seq_In : forall (A : Type) (l : list A) a i F d,
  In (i, F) (combine (seq a (length l)) l) -> a <= i /\ i - a < length l /\ F = nth (i - a) l d.
Proof.
  intros A l. induction l as [|x r IH]; intros a i F d; simpl; [tauto|].
  intros [E|Hin].
  - injection E as <- <-. rewrite Nat.sub_diag. split; [lia|]. split; [lia|reflexivity].
  - destruct (IH (S a) i F d Hin) as [Q1 [Q2 Q3]]. split; [lia|]. split; [lia|].
    replace (i - a) with (S (i - S a)) by lia. exact Q3.
Qed.

Lemma faces_with_In : forall HF p i, In i (faces_with HF p) ->
  i < length HF /\ p (nth i HF []) = true.
Proof.
  intros HF p i Hi. unfold faces_with in Hi. apply in_map_iff in Hi.
  destruct Hi as [[j F] [E Hin]]. simpl in E. subst j.
  apply filter_In in Hin. destruct Hin as [Hin Pf]. simpl in Pf.
  destruct (combine_seq_In _ HF 0 i F [] Hin) as [_ [Q2 Q3]].
  rewrite Nat.sub_0_r in *. subst F. auto.
Qed.

Lemma contains_incl : forall a b, NoDup a -> contains a b = true -> incl b a.
Proof.
  intros a b ND C. unfold contains in C. apply andb_true_iff in C. destruct C as [_ C].
  apply Nat.leb_le in C.
  assert (I1 : incl (filter (fun v => memb v b) a) b).
  { intros x Hx. apply filter_In in Hx. apply memb_In. tauto. }
  assert (I2 : incl b (filter (fun v => memb v b) a)).
  { apply NoDup_length_incl; [apply NoDup_filter, ND|exact C|exact I1]. }
  intros x Hx. apply I2 in Hx. apply filter_In in Hx. tauto.
Qed.

Lemma nonempty_true : forall (A : Type) (l : list A), nonempty l = true <-> l <> [].
Proof. intros A [|a l]; simpl; split; congruence. Qed.

Lemma last_In : forall (A : Type) (l : list A) d, l <> [] -> In (last l d) l.
Proof.
  intros A l d N. rewrite (app_removelast_last d N) at 2. apply in_app_iff. right. left. reflexivity.
Qed.

Lemma removelast_snoc : forall (A : Type) (l : list A) a, removelast (l ++ [a]) = l.
Proof. intros. apply removelast_last. Qed.

(* ------------------------------------------------------------------ the path exists *)

Lemma frag_fE_nonempty : forall h HV HF f, frag_ok h HV HF f -> fE f <> [].
Proof.
  intros h HV HF f O. destruct (fo_shape _ _ _ _ O) as [[_ [u [v [_ [_ E]]]]]|[_ [_ [_ [AT _]]]]].
  - rewrite E. discriminate.
  - pose proof (fo_A2 _ _ _ _ O) as L. destruct (fA f) as [|a A'] eqn:EA; [simpl in L; lia|].
    destruct (AT a (or_introl eq_refl)) as [x [_ Ex]]. intros Q. rewrite Q in Ex.
    unfold is_edge in Ex. simpl in Ex. rewrite andb_false_r in Ex. discriminate.
Qed.

Lemma frag_path_prop : forall h HV HF f a0 A', frag_ok h HV HF f -> fA f = a0 :: A' ->
  forall S : nat -> Prop, S a0 ->
  (forall x y, S x -> In y (fV f) -> is_edge y x (fE f) = true -> S y) ->
  exists x a, S x /\ In a (tl (fA f)) /\ is_edge a x (fE f) = true.
Proof.
  intros h HV HF f a0 A' O EA S S0 CL.
  destruct (fo_shape _ _ _ _ O) as [[_ [u [v [Luv [EA' EE]]]]]|[NV [_ [_ [AT CN]]]]].
  - rewrite EA' in EA. injection EA as <- <-. exists u, v. split; [exact S0|].
    rewrite EA', EE. split; [left; reflexivity|]. apply is_edge_true.
    split; [lia|left; apply mke_sym].
  - pose proof (fo_A2 _ _ _ _ O) as L. rewrite EA in *. destruct A' as [|a1 A'']; [simpl in L; lia|].
    destruct (AT a0 (or_introl eq_refl)) as [x0 [Hx0 E0]].
    destruct (AT a1 (or_intror (or_introl eq_refl))) as [x1 [Hx1 E1]].
    assert (S0' : S x0) by (apply (CL a0 x0 S0 Hx0); rewrite is_edge_sym; exact E0).
    assert (G : forall x y, econn (fV f) (fE f) x y -> S x -> S y).
    { intros x y Hc. induction Hc as [x|x y z Hy He _ IH]; [tauto|]. intros Sx. apply IH. apply (CL x y Sx Hy He). }
    exists x1, a1. split; [apply (G x0 x1 (CN x0 x1 Hx0 Hx1) S0')|]. split; [left; reflexivity|exact E1].
Qed.

(* ------------------------------------------------------------------ the new faces *)

Section NewFaces.
Variables (HF : list (list nat)) (fi : nat) (A B : list nat).
Hypothesis Hfi : fi < length HF.
Let HFn := upd fi A HF ++ [B].

Lemma HFn_length : length HFn = S (length HF).
Proof. unfold HFn. rewrite app_length, upd_length. simpl. lia. Qed.

Lemma HFn_other : forall i, i < length HF -> i <> fi -> nth i HFn [] = nth i HF [].
Proof.
  intros i L N. unfold HFn. rewrite app_nth1 by (rewrite upd_length; exact L).
  apply nth_upd_other. congruence.
Qed.

Lemma HFn_fi : nth fi HFn [] = A.
Proof. unfold HFn. rewrite app_nth1 by (rewrite upd_length; exact Hfi). apply nth_upd_same, Hfi. Qed.

Lemma HFn_new : nth (length HF) HFn [] = B.
Proof.
  unfold HFn. rewrite app_nth2 by (rewrite upd_length; lia).
  rewrite upd_length, Nat.sub_diag. reflexivity.
Qed.

Lemma HFn_In : forall F, In F HFn -> F = A \/ In F HF \/ F = B.
Proof.
  intros F HIn. unfold HFn in HIn. apply in_app_iff in HIn. destruct HIn as [Q|[<-|[]]]; [|auto].
  apply In_upd in Q. tauto.
Qed.

(* the admissible faces of an old fragment after the split *)
Lemma update_old_ok : forall h HV HVn g, frag_ok h HV HF g ->
  incl HV HVn -> (forall x, In x (fV g) -> ~ In x HVn) -> NoDup A -> NoDup B ->
  fF (update_old fi (length HF) A B g) <> [] ->
  frag_ok h HVn HFn (update_old fi (length HF) A B g).
Proof.
  intros h HV HVn g O IH DV NA NB NE.
  assert (Hlt : forall i, In i (fF g) -> i < length HF).
  { intros i Hi. pose proof (fo_adm _ _ _ _ O i Hi) as Q. pose proof (fo_A2 _ _ _ _ O) as L.
    destruct (Nat.lt_ge_cases i (length HF)) as [X|X]; [exact X|].
    rewrite nth_overflow in Q by exact X. destruct (fA g) as [|a r]; [simpl in L; lia|].
    destruct (Q a (or_introl eq_refl)). }
  unfold update_old in *. destruct (memb fi (fF g)) eqn:M.
  - simpl in NE. constructor; simpl; try apply O.
    + eapply incl_tran; [apply O|exact IH].
    + intros x Hx. split; [apply DV, Hx|apply (fo_VHV _ _ _ _ O x Hx)].
    + exact NE.
    + intros i Hi.
      assert (Q : (i = length HF /\ contains B (fA g) = true) \/
                  (In i (fF g) /\ (i = fi -> contains A (fA g) = true))).
      { destruct (contains B (fA g)) eqn:CB.
        - apply in_app_iff in Hi. destruct Hi as [Hi|[<-|[]]]; [right|left; auto].
          destruct (contains A (fA g)) eqn:CA; [auto|]. apply remv_In in Hi. split; [tauto|intros ->; tauto].
        - right. destruct (contains A (fA g)) eqn:CA; [auto|]. apply remv_In in Hi. split; [tauto|intros ->; tauto]. }
      destruct Q as [[-> CB]|[Hi' CA]].
      * rewrite HFn_new. apply contains_incl; assumption.
      * destruct (Nat.eq_dec i fi) as [->|N].
        -- rewrite HFn_fi. apply contains_incl; auto.
        -- rewrite HFn_other; [apply O, Hi'|apply Hlt, Hi'|exact N].
  - apply memb_false in M. constructor; try apply O.
    + eapply incl_tran; [apply O|exact IH].
    + intros x Hx. split; [apply DV, Hx|apply (fo_VHV _ _ _ _ O x Hx)].
    + intros i Hi. rewrite HFn_other; [apply O, Hi|apply Hlt, Hi|intros ->; tauto].
Qed.

End NewFaces.

Lemma update_old_fV : forall fi ni A B g, fV (update_old fi ni A B g) = fV g.
Proof. intros. unfold update_old. destruct (memb fi (fF g)); reflexivity. Qed.

Lemma flat_map_fV_update : forall fi ni A B old,
  flat_map fV (map (update_old fi ni A B) old) = flat_map fV old.
Proof.
  intros. induction old as [|g r IH]; simpl; [reflexivity|]. rewrite update_old_fV, IH. reflexivity.
Qed.

Lemma Wt_update : forall h fi ni A B old, Wt h (map (update_old fi ni A B) old) = Wt h old.
Proof.
  intros. unfold Wt. rewrite map_map. f_equal. apply map_ext. intros g. unfold weight.
  rewrite update_old_fV. reflexivity.
Qed.

Lemma Wt_chords : forall h cs, (forall c, In c cs -> fV c = []) -> Wt h cs = length cs /\ flat_map fV cs = [].
Proof.
  intros h cs. induction cs as [|c r IH]; intros Hc; [split; reflexivity|].
  destruct (IH (fun c' Hc' => Hc c' (or_intror Hc'))) as [I1 I2].
  unfold Wt in *. simpl. unfold weight at 1. rewrite (Hc c (or_introl eq_refl)), I1, I2. split; reflexivity.
Qed.

(* ------------------------------------------------------------------ one iteration *)

Lemma Wt_exts : forall h (FF : list nat -> list nat) tr, (forall t, In t tr -> tV t <> []) ->
  Wt h (map (fun t : list nat * list edge * list nat => let '(V, E, At) := t in mkF E V (FF At) At) tr) = sumvol h tr /\
  flat_map fV (map (fun t : list nat * list edge * list nat => let '(V, E, At) := t in mkF E V (FF At) At) tr) = flat_map tV tr.
Proof.
  intros h FF tr. induction tr as [|t r IH]; intros NE; [split; reflexivity|].
  destruct (IH (fun t' Ht' => NE t' (or_intror Ht'))) as [I1 I2].
  pose proof (NE t (or_introl eq_refl)) as N.
  destruct t as [[V E] At]. unfold Wt, sumvol in *. simpl. rewrite I1, I2. unfold tV in *. simpl in *.
  unfold weight. simpl. destruct V; [congruence|]. split; reflexivity.
Qed.

Section Step.
Variable h : blk.
Hypothesis Hwf : wfb h.
Hypothesis Hbi : biconn h.

Lemma dmp_step_ok : forall s, inv h s ->
  match dmp_step h s with
  | SDone r => r = RT \/ r = RF
  | SNext s' => inv h s' /\ Wt h (dFr s') < Wt h (dFr s)
  end.
Proof.
  intros s IV. destruct IV as [Itwo Ilt Ifaces Ifrags Idisj].
  unfold dmp_step.
  destruct (select (dFr s)) as [[f old]|] eqn:Esel; [|left; reflexivity].
  assert (PERM : Permutation (dFr s) (f :: old)).
  { apply select_some; [|exact Esel]. intros g Hg. eapply frag_fE_nonempty. apply Ifrags, Hg. }
  assert (Hf : In f (dFr s)) by (eapply Permutation_in; [symmetry; exact PERM|left; reflexivity]).
  assert (Hold : forall g, In g old -> In g (dFr s)).
  { intros g Hg. eapply Permutation_in; [symmetry; exact PERM|right; exact Hg]. }
  pose proof (Ifrags f Hf) as Of.
  pose proof (fo_A2 _ _ _ _ Of) as LA.
  destruct (fA f) as [|a0 A'] eqn:EA; [simpl in LA; lia|].
  assert (NDV : NoDup (fV f)) by (eapply NoDup_flat_map_in; eauto).
  assert (Ha0 : In a0 (dHV s)) by (apply (fo_AHV _ _ _ _ Of); rewrite EA; left; reflexivity).
  assert (HV0 : ~ In a0 (fV f)) by (intros Q; apply (fo_VHV _ _ _ _ Of a0 Q); exact Ha0).
  assert (HA : forall a, In a (tl (fA f)) -> a <> a0 /\ ~ In a (fV f)).
  { intros a Ha. pose proof (fo_Anodup _ _ _ _ Of) as ND. rewrite EA in *. simpl in Ha.
    inversion ND; subst. split; [intros ->; tauto|].
    intros Q. apply (fo_VHV _ _ _ _ Of a Q). apply (fo_AHV _ _ _ _ Of). rewrite EA. right. exact Ha. }
  destruct (path_ok f a0 HV0 HA (frag_path_prop _ _ _ _ _ _ Of EA) (bn h) NDV
              (fun x Hx => proj2 (fo_VHV _ _ _ _ Of x Hx)))
    as [aA [v [ps [I [pes [Ep [Ex [NDI [II [HaA [Ev [Eav Hpes]]]]]]]]]]]].
  rewrite Ep, Ex. cbv beta iota zeta.
  cbn [tl]. rewrite removelast_snoc.
  pose proof (fo_F _ _ _ _ Of) as NF.
  destruct (fF f) as [|i0 Fr'] eqn:EF; [congruence|]. rewrite <- EF in *. clear i0 Fr' EF.
  set (fi := last (fF f) 0).
  assert (Hfi : In fi (fF f)) by (apply last_In, NF).
  pose proof (fo_adm _ _ _ _ Of fi Hfi) as ADM.
  assert (Ha0A : In a0 (fA f)) by (rewrite EA; left; reflexivity).
  assert (HaAA : In aA (fA f)) by (rewrite EA in *; right; exact HaA).
  assert (Lfi : fi < length (dHF s)).
  { destruct (Nat.lt_ge_cases fi (length (dHF s))) as [X|X]; [exact X|].
    rewrite nth_overflow in ADM by exact X. destruct (ADM a0 Ha0A). }
  set (face := nth fi (dHF s) []) in *.
  assert (Hface : In face (dHF s)) by (apply nth_In, Lfi).
  destruct (Ifaces face Hface) as [NDface INface].
  assert (NaA : aA <> a0) by (apply (HA aA); exact HaA).
  assert (DI : forall x, In x I -> ~ In x face).
  { intros x Hx Q. apply (fo_VHV _ _ _ _ Of x (II x Hx)). apply INface, Q. }
  destruct (split_face_ok face aA a0 I NDface (ADM aA HaAA) (ADM a0 Ha0A) NaA NDI DI)
    as [A [b0 [B0 [Esp [NA [NB [IA IB]]]]]]].
  rewrite Esp. cbv beta iota zeta.
  set (J := if b0 =? a0 then I else rev I).
  assert (PJ : Permutation J I).
  { unfold J. destruct (b0 =? a0); [reflexivity|symmetry; apply Permutation_rev]. }
  set (B := (b0 :: B0) ++ J).
  set (HVn := dHV s ++ I ++ [a0]).
  set (HEn := dHE s ++ pes).
  set (HFn := upd fi A (dHF s) ++ [B]).
  assert (IHV : incl (dHV s) HVn) by (intros x Hx; apply in_app_iff; left; exact Hx).
  assert (HVnI : forall x, In x HVn -> In x (dHV s) \/ In x I).
  { intros x Hx. unfold HVn in Hx. rewrite !in_app_iff in Hx. simpl in Hx.
    destruct Hx as [Q|[Q|[<-|[]]]]; auto. }
  assert (IHVn : incl I HVn) by (intros x Hx; unfold HVn; rewrite !in_app_iff; auto).
  assert (Ntwo : exists x y, In x HVn /\ In y HVn /\ x <> y).
  { destruct Itwo as [x [y [Hx [Hy N]]]]. exists x, y. auto. }
  assert (Nlt : forall x, In x HVn -> x < bn h).
  { intros x Hx. destruct (HVnI x Hx) as [Q|Q]; [apply Ilt, Q|apply (fo_VHV _ _ _ _ Of x (II x Q))]. }
  assert (NDB : NoDup B) by (apply NB, PJ).
  assert (IAn : incl A HVn).
  { intros x Hx. apply IA in Hx. apply in_app_iff in Hx.
    destruct Hx as [Q|Q]; [apply IHV, INface, Q|apply IHVn, Q]. }
  assert (IBn : incl B HVn).
  { intros x Hx. unfold B in Hx. apply in_app_iff in Hx.
    destruct Hx as [Q|Q]; [apply IHV, INface, IB, Q|apply IHVn; eapply Permutation_in; eauto]. }
  assert (Nfaces : forall F, In F HFn -> NoDup F /\ incl F HVn).
  { intros F HF. destruct (HFn_In _ _ _ _ F HF) as [->|[Q| ->]]; [auto| |auto].
    destruct (Ifaces F Q) as [Q1 Q2]. split; [exact Q1|eapply incl_tran; eauto]. }
  assert (DISJ : NoDup (fV f ++ flat_map fV old)).
  { eapply Permutation_NoDup; [apply (flat_map_perm _ fV _ _ PERM)|exact Idisj]. }
  apply NoDup_app_iff2 in DISJ. destruct DISJ as [_ [NDold DISJ]].
  match goal with |- context [forallb (fun c => nonempty (fF c)) ?X] => set (chords := X) end.
  assert (Hch : forall c, In c chords -> exists v0 u, In v0 I /\ In u (nb h v0) /\ In u HVn /\
            c = mkF [mke u v0] [] (faces_with HFn (fun face => memb u face && memb v0 face))
                    (if u <? v0 then [u; v0] else [v0; u])).
  { intros c Hc. unfold chords in Hc. apply in_flat_map in Hc. destruct Hc as [v0 [Hv0 Hc]].
    apply in_flat_map in Hc. destruct Hc as [u [Hu Hc]].
    destruct (memb u HVn && negb (ein (mke u v0) HEn)) eqn:C; [|destruct Hc].
    destruct Hc as [<-|[]]. apply andb_true_iff in C. destruct C as [C _]. apply memb_In in C.
    exists v0, u. auto. }
  destruct (forallb (fun c => nonempty (fF c)) chords) eqn:CH1; cbn [negb]; [|right; reflexivity].
  assert (CH2 : forallb (fun v0 => memb v0 (fV f)) I = true).
  { apply forallb_forall. intros x Hx. apply memb_In, II, Hx. }
  rewrite CH2. cbn [negb].
  set (U := rev (filter (fun x => negb (memb x I)) (fV f))).
  assert (UIn : forall x, In x U <-> In x (fV f) /\ ~ In x I).
  { intros x. unfold U. rewrite <- in_rev, filter_In, negb_true_iff, memb_false. tauto. }
  destruct (ext_frags_ok h HVn Hwf Hbi Ntwo Nlt (S (bn h)) U) as [tr [Etr [Ftr [NDtr Vtr]]]].
  { apply NoDup_rev, NoDup_filter, NDV. }
  { intros x Hx. apply UIn in Hx. apply (fo_VHV _ _ _ _ Of x), Hx. }
  { intros w u Hw Hu. apply UIn in Hw. destruct Hw as [Hw NwI].
    destruct (fo_shape _ _ _ _ Of) as [[EV _]|[_ [CL _]]]; [rewrite EV in Hw; destruct Hw|].
    destruct (CL w u Hw Hu) as [Q|Q].
    + destruct (in_dec Nat.eq_dec u I) as [QI|QI]; [right; apply IHVn, QI|left; apply UIn; auto].
    + right. apply IHV. apply (fo_AHV _ _ _ _ Of), Q. }
  { intros x Hx Q. apply UIn in Hx. destruct (HVnI x Q) as [Q'|Q']; [apply (fo_VHV _ _ _ _ Of x); tauto|tauto]. }
  { unfold U. rewrite rev_length.
    pose proof (filter_length_le nat (fun x => negb (memb x I)) (fV f)).
    pose proof (NoDup_len_le (fV f) (bn h) NDV (fun x Hx => proj2 (fo_VHV _ _ _ _ Of x Hx))). lia. }
  rewrite Etr.
  set (gext := fun t : list nat * list edge * list nat => let '(V, E, At) := t in
     mkF E V (faces_with HFn (fun face0 : list nat => contains face0 At)) At).
  change (map _ tr) with (map gext tr).
  set (exts := map gext tr).
  destruct (forallb (fun c => nonempty (fF c)) exts) eqn:CH3; cbn [negb]; [|right; reflexivity].
  set (old' := map (update_old fi (length (dHF s)) A B) old).
  destruct (forallb (fun c => nonempty (fF c)) old') eqn:CH4; cbn [negb]; [|right; reflexivity].
  rewrite forallb_forall in CH1, CH3, CH4.
  assert (TVne : forall t, In t tr -> tV t <> []).
  { intros t Ht. rewrite Forall_forall in Ftr. apply (Ftr t Ht). }
  destruct (Wt_exts h (fun At => faces_with HFn (fun face0 : list nat => contains face0 At)) tr TVne) as [Wex Fex].
  fold gext in Wex, Fex. fold exts in Wex, Fex.
  assert (Vch : forall c, In c chords -> fV c = []).
  { intros c Hc. destruct (Hch c Hc) as [v0 [u [_ [_ [_ ->]]]]]. reflexivity. }
  destruct (Wt_chords h chords Vch) as [Wch Fch].
  split.
  - constructor; cbn [dHV dHE dHF dFr].
    + exact Ntwo.
    + exact Nlt.
    + exact Nfaces.
    + intros g Hg. apply in_app_iff in Hg. destruct Hg as [Hg|Hg]; [|apply in_app_iff in Hg; destruct Hg as [Hg|Hg]].
      * (* an old fragment *)
        pose proof (CH4 g Hg) as NE. apply nonempty_true in NE.
        unfold old' in Hg. apply in_map_iff in Hg. destruct Hg as [g0 [<- Hg0]].
        apply (update_old_ok (dHF s) fi A B Lfi h (dHV s) HVn g0 (Ifrags g0 (Hold g0 Hg0)) IHV); try assumption.
        intros x Hx Q. destruct (HVnI x Q) as [Q'|Q'].
        -- apply (fo_VHV _ _ _ _ (Ifrags g0 (Hold g0 Hg0)) x Hx). exact Q'.
        -- apply (DISJ x (II x Q')). apply in_flat_map. exists g0. auto.
      * (* a new chord *)
        pose proof (CH1 g Hg) as NE. apply nonempty_true in NE.
        destruct (Hch g Hg) as [v0 [u [Hv0 [Hu [HuH ->]]]]].
        assert (Nuv : u <> v0) by (apply (wfb_ne h Hwf _ _ Hu)).
        constructor; cbn [fA fV fE fF] in *.
        -- destruct (u <? v0); (constructor; [simpl; intuition congruence|constructor; [simpl; tauto|constructor]]).
        -- destruct (u <? v0); simpl; lia.
        -- destruct (u <? v0); intros x [<-|[<-|[]]]; auto.
        -- intros x [].
        -- exact NE.
        -- intros i Hi. apply faces_with_In in Hi. destruct Hi as [_ Hi].
           apply andb_true_iff in Hi. destruct Hi as [H1 H2]. apply memb_In in H1. apply memb_In in H2.
           destruct (u <? v0); intros x [<-|[<-|[]]]; assumption.
        -- intros e [<-|[]]. apply (mke_real h Hwf), Hu.
        -- left. split; [reflexivity|]. cbn [fA fE]. destruct (Nat.ltb_spec u v0) as [L|L].
           ++ exists u, v0. auto.
           ++ exists v0, u. split; [lia|]. split; [reflexivity|]. rewrite mke_sym. reflexivity.
      * (* a new external fragment *)
        pose proof (CH3 g Hg) as NE. apply nonempty_true in NE.
        unfold exts in Hg. apply in_map_iff in Hg. destruct Hg as [t [<- Ht]].
        rewrite Forall_forall in Ftr. pose proof (Ftr t Ht) as Pt.
        destruct t as [[V E] At]. unfold fragP, tV, tE, tA in Pt. simpl in Pt.
        destruct Pt as (P1 & P2 & P3 & P4 & P5 & P6 & P7 & P8 & P9 & P10 & P11).
        unfold gext in *. constructor; cbn [fA fV fE fF] in *; try assumption.
        -- intros x Hx. apply P3 in Hx. pose proof (proj1 (UIn x) Hx) as [Q1 Q2]. split.
           ++ intros Q. destruct (HVnI x Q) as [Q'|Q']; [apply (fo_VHV _ _ _ _ Of x Q1), Q'|tauto].
           ++ apply (fo_VHV _ _ _ _ Of x Q1).
        -- intros i Hi. apply faces_with_In in Hi. destruct Hi as [Li Ci].
           apply contains_incl; [|exact Ci]. apply Nfaces. apply nth_In. exact Li.
        -- right. unfold is_ext. cbn [fA fV fE fF]. auto.
    + unfold old'. rewrite !flat_map_app, flat_map_fV_update, Fch, Fex. simpl.
      apply NoDup_app_iff2. split; [exact NDold|]. split; [exact NDtr|].
      intros x Hx Q. apply in_flat_map in Q. destruct Q as [t [Ht Hxt]].
      rewrite Forall_forall in Ftr. destruct (Ftr t Ht) as (_ & _ & P3 & _).
      apply (DISJ x); [apply UIn, P3, Hxt|exact Hx].
  - cbn [dFr]. rewrite (Wt_perm h _ _ PERM). rewrite !Wt_app. unfold old'. rewrite Wt_update, Wch, Wex.
    change (Wt h (f :: old)) with (weight h f + Wt h old).
    assert (VU : vol h U = vol h (filter (fun x => negb (memb x I)) (fV f))).
    { unfold U. apply vol_perm. symmetry. apply Permutation_rev. }
    destruct I as [|i1 I'].
    + (* the fragment was a chord *)
      assert (EV : fV f = []).
      { destruct (fo_shape _ _ _ _ Of) as [[EV _]|[_ [_ [EN _]]]]; [exact EV|exfalso].
        simpl in Ev. subst v. apply is_edge_true in Eav. destruct Eav as [_ Q].
        destruct (EN _ Q) as [Q'|Q'].
        - destruct (mke_ends aA a0) as [[Z _]|[Z _]]; rewrite Z in Q'; [apply (HA aA HaA), Q'|apply HV0, Q'].
        - destruct (mke_ends aA a0) as [[_ Z]|[_ Z]]; rewrite Z in Q'; [apply HV0, Q'|apply (HA aA HaA), Q']. }
      unfold weight. rewrite EV. rewrite EV in VU. simpl in VU. unfold chords. simpl.
      change (vol h []) with 0 in VU. lia.
    + simpl in Ev. subst v.
      assert (NV : fV f <> []) by (intros Q; specialize (II i1 (or_introl eq_refl)); rewrite Q in II; destruct II).
      assert (Wf : weight h f = vol h (fV f)) by (unfold weight; destruct (fV f); [congruence|reflexivity]).
      rewrite Wf.
      rewrite (vol_perm h _ _ (NoDup_incl_perm_filter _ _ NDI NDV II)), vol_app.
      assert (LC : length chords < vol h (i1 :: I')).
      { unfold chords. cbn [flat_map]. rewrite app_length. unfold vol. cbn [map list_sum].
        assert (HaN : In aA (nb h i1)).
        { apply is_edge_true in Eav. destruct Eav as [_ Q]. apply (fo_real _ _ _ _ Of) in Q.
          destruct (mke_ends aA i1) as [[Z1 Z2]|[Z1 Z2]]; rewrite Z1, Z2 in Q; [apply (wfb_sym h Hwf), Q|exact Q]. }
        match goal with |- length (flat_map (fun u => if ?c then [?g] else []) _) + _ < _ =>
          destruct (length_flat_map_if nat frag (fun u => memb u HVn && negb (ein (mke u i1) HEn))
                      (fun u => mkF [mke u i1] [] (faces_with HFn (fun face0 => memb u face0 && memb i1 face0))
                                    (if u <? i1 then [u; i1] else [i1; u])) (nb h i1)) as [_ LT1] end.
        assert (Cf : memb aA HVn && negb (ein (mke aA i1) HEn) = false).
        { apply andb_false_iff; right; apply negb_false_iff; apply ein_In; unfold HEn;
          apply in_app_iff; right; rewrite mke_sym; exact Hpes. }
        assert (LT1' := LT1 (ex_intro _ aA (conj HaN Cf))).
        assert (LE2 : forall L, length (flat_map (fun v0 => flat_map (fun u =>
                   if memb u HVn && negb (ein (mke u v0) HEn)
                   then [mkF [mke u v0] [] (faces_with HFn (fun face0 => memb u face0 && memb v0 face0))
                             (if u <? v0 then [u; v0] else [v0; u])] else []) (nb h v0)) L) <= list_sum (map (deg h) L)).
        { induction L as [|w L IHL]; simpl; [lia|]. rewrite app_length.
          destruct (length_flat_map_if nat frag (fun u => memb u HVn && negb (ein (mke u w) HEn))
                      (fun u => mkF [mke u w] [] (faces_with HFn (fun face0 => memb u face0 && memb w face0))
                                    (if u <? w then [u; w] else [w; u])) (nb h w)) as [LE1 _].
          unfold deg in *. lia. }
        specialize (LE2 I'). unfold deg in *. match goal with |- _ < list_sum (?a :: ?l) => change (list_sum (a :: l)) with (a + list_sum l) end. lia. }
      lia.
Qed.
End Step.
